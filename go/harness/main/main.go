//go:build verif

// Command verifharness is compiled INTO google/mtail's module (go build -overlay) so that it
// can call internal packages.  It has two modes per property:
//
//	verifharness gen <prop> -tier quick|thorough -seed N      writes case lines to stdout
//	verifharness run <prop> < cases                            executes the REAL code on each case
//
// `run` prints, per case, `<id> OBS <canonical observation>` (compared with the Lean model's
// output for the same case line) and `<id> PRED OK` / `<id> PRED FAIL <class> <detail>` (the
// property's own predicate evaluated on the implementation, independent of the model).
// Lines starting with `#` carry statistics for the evidence file.
package main

import (
	"bufio"
	"encoding/hex"
	"flag"
	"fmt"
	"os"
	"sort"
	"strings"
	"sync"
	"time"
)

type propImpl struct {
	gen func(g *genCtx)
	run func(r *runCtx, id string, f []string)
	// optional: called once after all cases
	finish func(r *runCtx)
}

var props = map[string]*propImpl{}

// ---------- deterministic RNG (SplitMix64) ----------
type rng struct{ s uint64 }

func (r *rng) next() uint64 {
	r.s += 0x9e3779b97f4a7c15
	z := r.s
	z = (z ^ (z >> 30)) * 0xbf58476d1ce4e5b9
	z = (z ^ (z >> 27)) * 0x94d049bb133111eb
	return z ^ (z >> 31)
}
func (r *rng) intn(n int) int {
	if n <= 0 {
		return 0
	}
	return int(r.next() % uint64(n))
}
func (r *rng) chance(num, den int) bool { return r.intn(den) < num }
func (r *rng) pick(xs []string) string  { return xs[r.intn(len(xs))] }

// ---------- gen ----------
type genCtx struct {
	w      *bufio.Writer
	r      *rng
	tier   string
	seed   uint64
	n      int
	prefix string
}

func (g *genCtx) thorough() bool { return g.tier == "thorough" }

// emit writes a case line; the id is assigned here.
func (g *genCtx) emit(fields ...string) {
	g.n++
	fmt.Fprintf(g.w, "%s%d %s\n", g.prefix, g.n, strings.Join(fields, " "))
}

// ---------- run ----------
type runCtx struct {
	w     *bufio.Writer
	stats map[string]int
}

func (r *runCtx) obs(id string, format string, a ...interface{}) {
	fmt.Fprintf(r.w, "%s OBS %s\n", id, fmt.Sprintf(format, a...))
}
func (r *runCtx) ok(id string) { fmt.Fprintf(r.w, "%s PRED OK\n", id) }
func (r *runCtx) fail(id, class, format string, a ...interface{}) {
	fmt.Fprintf(r.w, "%s PRED FAIL %s %s\n", id, class, fmt.Sprintf(format, a...))
}
func (r *runCtx) stat(k string) { r.stats[k]++ }

// replay names the case lines (without id) that reproduce a failure when they are not just
// the failing case itself.
func (r *runCtx) replay(id string, fields ...string) {
	fmt.Fprintf(r.w, "%s REPLAY %s\n", id, strings.Join(fields, " "))
}
func (r *runCtx) trivial(id string) { fmt.Fprintf(r.w, "%s TRIV\n", id) }

// ---------- helpers ----------
func hx(s string) string {
	if s == "" {
		return "-"
	}
	return hex.EncodeToString([]byte(s))
}
func unhx(s string) string {
	if s == "-" {
		return ""
	}
	b, err := hex.DecodeString(s)
	if err != nil {
		panic("bad hex field: " + s)
	}
	return string(b)
}
func hxs(ss []string) string {
	if len(ss) == 0 {
		return "."
	}
	o := make([]string, len(ss))
	for i, s := range ss {
		o[i] = hx(s)
	}
	return strings.Join(o, ",")
}
func unhxs(s string) []string {
	if s == "" || s == "." {
		return []string{}
	}
	p := strings.Split(s, ",")
	o := make([]string, len(p))
	for i, x := range p {
		o[i] = unhx(x)
	}
	return o
}
func b2i(b bool) int {
	if b {
		return 1
	}
	return 0
}

func main() {
	if len(os.Args) < 3 {
		fmt.Fprintln(os.Stderr, "usage: verifharness gen|run <prop> [flags]")
		os.Exit(2)
	}
	mode, prop := os.Args[1], os.Args[2]
	p, ok := props[prop]
	if !ok {
		fmt.Fprintln(os.Stderr, "unknown property", prop)
		os.Exit(2)
	}
	fs := flag.NewFlagSet(mode, flag.ExitOnError)
	tier := fs.String("tier", "quick", "quick|thorough")
	seed := fs.Uint64("seed", 1, "seed")
	_ = fs.Parse(os.Args[3:])
	w := bufio.NewWriterSize(os.Stdout, 1<<20)
	defer w.Flush()
	switch mode {
	case "gen":
		g := &genCtx{w: w, r: &rng{s: *seed*0x9e3779b97f4a7c15 + 0x1234567}, tier: *tier, seed: *seed, prefix: "c"}
		p.gen(g)
	case "run":
		r := &runCtx{w: w, stats: map[string]int{}}
		sc := bufio.NewScanner(os.Stdin)
		sc.Buffer(make([]byte, 1<<20), 1<<28)
		// a case that never returns (a lock taken twice, a send nobody receives) is a finding about
		// that case, not a reason to lose the run: the watchdog ends the process, and the engine
		// blames the unfinished case and carries on after it
		var caseMu sync.Mutex
		caseID, caseStart := "", time.Time{}
		deadline := 120 * time.Second
		if d, err := time.ParseDuration(os.Getenv("VERIF_CASE_DEADLINE")); err == nil && d > 0 {
			deadline = d
		}
		go func() {
			for range time.Tick(time.Second) {
				caseMu.Lock()
				id, st := caseID, caseStart
				caseMu.Unlock()
				if id != "" && time.Since(st) > deadline {
					fmt.Fprintf(os.Stderr, "case %s did not return within %v: the code under test is blocked (deadlock or lost wake-up)\n", id, deadline)
					os.Exit(3)
				}
			}
		}()
		for sc.Scan() {
			line := sc.Text()
			if line == "" || line[0] == '#' {
				continue
			}
			f := strings.Fields(line)
			caseMu.Lock()
			caseID, caseStart = f[0], time.Now()
			caseMu.Unlock()
			runOne(p, r, f[0], f[1:])
			caseMu.Lock()
			caseID = ""
			caseMu.Unlock()
			// one case at a time reaches the engine, so that a crash of the code under test in
			// another goroutine (which recover cannot catch) loses only the case that caused it
			fmt.Fprintf(w, "%s DONE\n", f[0])
			w.Flush()
		}
		if p.finish != nil {
			p.finish(r)
		}
		keys := make([]string, 0, len(r.stats))
		for k := range r.stats {
			keys = append(keys, k)
		}
		sort.Strings(keys)
		for _, k := range keys {
			fmt.Fprintf(w, "#STAT %s %d\n", k, r.stats[k])
		}
	default:
		fmt.Fprintln(os.Stderr, "unknown mode", mode)
		os.Exit(2)
	}
}

// runOne isolates panics: a panic in the code under test is an observation, not a crash of
// the harness.
func runOne(p *propImpl, r *runCtx, id string, f []string) {
	defer func() {
		if e := recover(); e != nil {
			r.obs(id, "PANIC")
			r.fail(id, "panic", "%v", strings.ReplaceAll(fmt.Sprint(e), "\n", " "))
		}
	}()
	p.run(r, id, f)
}
