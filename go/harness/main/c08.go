//go:build verif

package main

import (
	"context"
	"fmt"
	"github.com/google/mtail/internal/logline"
	"github.com/google/mtail/internal/runtime/compiler"
	"github.com/google/mtail/internal/runtime/vm"
	"math"
	"strconv"
	"strings"
	"sync"
	"time"

	"github.com/google/mtail/internal/metrics"
	"github.com/google/mtail/internal/metrics/datum"
)

// C08 — distinct label tuples always name distinct data.
//
// case kinds:
//   key  <labels>                 OBS = key bytes; PRED = no earlier different tuple of the
//                                 same arity in this run produced the same key
//   pair <labelsA> <labelsB>      OBS = samekey samedatum + frame observations; PRED = the
//                                 map semantics (same datum iff equal tuples; operations on A
//                                 never disturb B)

var c08Alphabet = []string{"-", "\\", "a", "\x00", "\xff"}

func c08Strings(maxLen int) []string {
	out := []string{""}
	prev := []string{""}
	for l := 1; l <= maxLen; l++ {
		var cur []string
		for _, p := range prev {
			for _, a := range c08Alphabet {
				cur = append(cur, p+a)
			}
		}
		out = append(out, cur...)
		prev = cur
	}
	return out
}

func c08Tuples(strs []string, arity int, f func([]string)) {
	t := make([]string, arity)
	var rec func(i int)
	rec = func(i int) {
		if i == arity {
			f(t)
			return
		}
		for _, s := range strs {
			t[i] = s
			rec(i + 1)
		}
	}
	rec(0)
}

func c08RandStr(r *rng, maxLen int) string {
	n := r.intn(maxLen + 1)
	var b strings.Builder
	for i := 0; i < n; i++ {
		if r.chance(3, 4) {
			b.WriteString(r.pick(c08Alphabet))
		} else {
			b.WriteByte(byte(r.intn(256)))
		}
	}
	return b.String()
}

func init() {
	props["C08"] = &propImpl{
		gen: func(g *genCtx) {
			// exhaustive small scope (independent of the seed)
			type scope struct{ arity, maxLen int }
			scopes := []scope{{1, 3}, {2, 2}, {3, 1}, {4, 1}}
			if g.thorough() {
				scopes = []scope{{1, 5}, {2, 3}, {3, 2}, {4, 1}}
			}
			for _, sc := range scopes {
				strs := c08Strings(sc.maxLen)
				c08Tuples(strs, sc.arity, func(t []string) { g.emit("key", hxs(t)) })
			}
			// random long tuples
			n := 2000
			if g.thorough() {
				n = 100000
			}
			for i := 0; i < n; i++ {
				ar := 1 + g.r.intn(4)
				t := make([]string, ar)
				for j := range t {
					t[j] = c08RandStr(g.r, 12)
				}
				g.emit("key", hxs(t))
			}
			// pairs: equal, near (shift a boundary / move escape bytes), random
			np := 1500
			if g.thorough() {
				np = 40000
			}
			small := c08Strings(2)
			for i := 0; i < np; i++ {
				ar := 1 + g.r.intn(4)
				a := make([]string, ar)
				for j := range a {
					if g.r.chance(1, 2) {
						a[j] = g.r.pick(small)
					} else {
						a[j] = c08RandStr(g.r, 5)
					}
				}
				b := append([]string(nil), a...)
				switch g.r.intn(4) {
				case 0: // equal
				case 1: // move the boundary between two neighbours (the shape of a key collision)
					if ar >= 2 {
						j := g.r.intn(ar - 1)
						joined := a[j] + "-" + a[j+1]
						cut := g.r.intn(len(joined) + 1)
						b[j] = joined[:cut]
						rest := joined[cut:]
						if strings.HasPrefix(rest, "-") {
							rest = rest[1:]
						}
						b[j+1] = rest
					} else {
						b[0] = a[0] + "\\"
					}
				case 2: // mutate one element
					j := g.r.intn(ar)
					b[j] = c08RandStr(g.r, 5)
				case 3:
					for j := range b {
						b[j] = g.r.pick(small)
					}
				}
				g.emit("pair", hxs(a), hxs(b))
			}
			// a metric holding 1-5 distinct tuples is declared again, as a reload does
			for i := 0; i < 24; i++ {
				ar := 1 + i%3
				n := 1 + i%5
				seenT := map[string]bool{}
				var ts []string
				for len(ts) < n {
					t := make([]string, ar)
					for j := range t {
						t[j] = g.r.pick(small)
					}
					if k := hxs(t); !seenT[k] {
						seenT[k] = true
						ts = append(ts, k)
					}
				}
				g.emit(append([]string{"readd"}, ts...)...)
				if i%2 == 0 {
					g.emit(append([]string{"hist"}, ts...)...)
				}
			}
			// the same new tuple looked up by several goroutines at once
			nc, rounds := 12, 300
			if g.thorough() {
				nc, rounds = 60, 1500
			}
			for i := 0; i < nc; i++ {
				ar := 1 + i%4
				t := make([]string, ar)
				for j := range t {
					t[j] = g.r.pick(small)
				}
				g.emit("conc", hxs(t), strconv.Itoa([]int{2, 4, 8, 16}[i%4]), strconv.Itoa(rounds))
			}
			// deletions written in a program, through the compiler and the VM
			for _, ab := range [][2]string{{"a", "b"}, {"b", "a"}, {"x", "x"}, {"a-", "a"}, {"10", "9"}} {
				g.emit("vmdel", hx(ab[0]), hx(ab[1]))
			}
		},
		run: c08Run,
	}
}

var c08Seen = map[int]map[string][]string{}

func eqTuple(a, b []string) bool {
	if len(a) != len(b) {
		return false
	}
	for i := range a {
		if a[i] != b[i] {
			return false
		}
	}
	return true
}

// c08Conc: W goroutines look the same new tuple up at the same moment; whatever the schedule, equal
// tuples name one datum.
func c08Conc(t []string, workers, rounds int) (n, distinct int, sum int64) {
	keys := make([]string, len(t))
	for i := range keys {
		keys[i] = fmt.Sprintf("k%d", i)
	}
	for round := 0; round < rounds; round++ {
		m := metrics.NewMetric("m", "p", metrics.Counter, metrics.Int, keys...)
		start := make(chan struct{})
		got := make([]datum.Datum, workers)
		var wg sync.WaitGroup
		for w := 0; w < workers; w++ {
			wg.Add(1)
			go func(w int) {
				defer wg.Done()
				<-start
				d, err := m.GetDatum(t...)
				if err == nil {
					datum.IncIntBy(d, 1, time.Unix(1000, 0))
					got[w] = d
				}
			}(w)
		}
		close(start)
		wg.Wait()
		seen := map[datum.Datum]bool{}
		for _, d := range got {
			seen[d] = true
		}
		m.RLock()
		n = len(m.LabelValues)
		m.RUnlock()
		distinct = len(seen)
		sum = 0
		if lv := m.FindLabelValueOrNil(t); lv != nil {
			sum = datum.GetInt(lv.Value)
		}
		if n != 1 || distinct != 1 || sum != int64(workers) {
			return
		}
	}
	return
}

// c08Readd: a metric holding several tuples is declared again (what a program reload does through
// Store.Add); the tuples carried over must still name distinct data with their own values.
func c08Readd(tuples [][]string) []string {
	if len(tuples) == 0 {
		return nil
	}
	keys := make([]string, len(tuples[0]))
	for i := range keys {
		keys[i] = fmt.Sprintf("k%d", i)
	}
	s := metrics.NewStore()
	m1 := metrics.NewMetric("m", "p", metrics.Gauge, metrics.Int, keys...)
	for i, t := range tuples {
		d, err := m1.GetDatum(t...)
		if err != nil {
			return []string{"GetDatum: " + err.Error()}
		}
		datum.SetInt(d, int64(i+1), time.Unix(1000+int64(i), 0))
	}
	if err := s.Add(m1); err != nil {
		return []string{"Add: " + err.Error()}
	}
	m2 := metrics.NewMetric("m", "p", metrics.Gauge, metrics.Int, keys...)
	if err := s.Add(m2); err != nil {
		return []string{"second Add: " + err.Error()}
	}
	var cur *metrics.Metric
	_ = s.Range(func(m *metrics.Metric) error {
		if m.Name == "m" {
			cur = m
		}
		return nil
	})
	if cur == nil {
		return []string{"the metric is gone after the second Add"}
	}
	var bad []string
	seen := map[datum.Datum]int{}
	for i, t := range tuples {
		lv := cur.FindLabelValueOrNil(t)
		if lv == nil {
			bad = append(bad, fmt.Sprintf("tuple %s is lost", hxs(t)))
			continue
		}
		if !eqTuple(lv.Labels, t) {
			bad = append(bad, fmt.Sprintf("tuple %s finds the label value of %s", hxs(t), hxs(lv.Labels)))
		}
		if v := datum.GetInt(lv.Value); v != int64(i+1) {
			bad = append(bad, fmt.Sprintf("tuple %s holds %d, was %d", hxs(t), v, i+1))
		}
		if j, dup := seen[lv.Value]; dup {
			bad = append(bad, fmt.Sprintf("tuples %s and %s share one datum", hxs(tuples[j]), hxs(t)))
		}
		seen[lv.Value] = i
	}
	if len(bad) == 0 && len(tuples) >= 2 {
		// writing, expiring and deleting the first tuple leaves the second alone
		d0, _ := cur.GetDatum(tuples[0]...)
		datum.SetInt(d0, 99, time.Unix(2000, 0))
		_ = cur.ExpireDatum(7*time.Second, tuples[0]...)
		lv1 := cur.FindLabelValueOrNil(tuples[1])
		if lv1 == nil || datum.GetInt(lv1.Value) != 2 || lv1.Expiry != 0 {
			bad = append(bad, fmt.Sprintf("writing and expiring %s changed %s", hxs(tuples[0]), hxs(tuples[1])))
		}
		_ = cur.RemoveDatum(tuples[0]...)
		if lv1 := cur.FindLabelValueOrNil(tuples[1]); lv1 == nil || datum.GetInt(lv1.Value) != 2 {
			bad = append(bad, fmt.Sprintf("deleting %s removed or changed %s", hxs(tuples[0]), hxs(tuples[1])))
		}
		if n := len(cur.LabelValues); n != len(tuples)-1 {
			bad = append(bad, fmt.Sprintf("%d label values remain after one deletion from %d", n, len(tuples)))
		}
	}
	return bad
}

// c08Hist: the tuples of a histogram metric have their own bucket counts.
func c08Hist(tuples [][]string) []string {
	keys := make([]string, len(tuples[0]))
	for i := range keys {
		keys[i] = fmt.Sprintf("k%d", i)
	}
	m := metrics.NewMetric("h", "p", metrics.Histogram, metrics.Buckets, keys...)
	m.Buckets = []datum.Range{{Min: 0, Max: 1}, {Min: 1, Max: 2}, {Min: 2, Max: math.Inf(1)}}
	var ds []datum.Datum
	for _, t := range tuples {
		d, err := m.GetDatum(t...)
		if err != nil {
			return []string{"GetDatum: " + err.Error()}
		}
		ds = append(ds, d)
	}
	counts := func(d datum.Datum) string {
		b := datum.GetBuckets(d)
		var cs []string
		for _, bc := range b.Buckets {
			cs = append(cs, fmt.Sprint(bc.Count))
		}
		return strings.Join(cs, ",") + fmt.Sprintf("/n%d", b.Count)
	}
	var bad []string
	// observe i+1 values on tuple i, spread over the buckets
	for i, d := range ds {
		for k := 0; k <= i; k++ {
			datum.Observe(d, float64(k)+0.5, time.Unix(1000, 0))
		}
	}
	for i, d := range ds {
		want := []int{0, 0, 0}
		for k := 0; k <= i; k++ {
			j := k
			if j > 2 {
				j = 2
			}
			want[j]++
		}
		w := fmt.Sprintf("%d,%d,%d/n%d", want[0], want[1], want[2], i+1)
		if got := counts(d); got != w {
			bad = append(bad, fmt.Sprintf("tuple %s holds bucket counts %s after its own %d observations, want %s", hxs(tuples[i]), got, i+1, w))
		}
	}
	// a tuple deleted and created again starts empty
	if len(bad) == 0 {
		_ = m.RemoveDatum(tuples[0]...)
		d, err := m.GetDatum(tuples[0]...)
		if err != nil {
			return []string{"GetDatum after delete: " + err.Error()}
		}
		if got := counts(d); got != "0,0,0/n0" {
			bad = append(bad, fmt.Sprintf("tuple %s, deleted and created again, starts with bucket counts %s", hxs(tuples[0]), got))
		}
	}
	return bad
}

// c08VMDel: a program's `del m[a][b]` and `del m[a][b] after D` name the tuple (a, b), not another
// arrangement of the same values: run through the compiler and the VM, then a collection.
func c08VMDel(a, b string) []string {
	prog := "counter hits by src, dst\n/^add (\\S+) (\\S+)$/ {\n  hits[$1][$2]++\n}\n/^del (\\S+) (\\S+)$/ {\n  del hits[$1][$2]\n}\n/^exp (\\S+) (\\S+)$/ {\n  del hits[$1][$2] after 1ms\n}\n"
	c, _ := compiler.New()
	obj, err := c.Compile("c08.mtail", strings.NewReader(prog))
	if err != nil || obj == nil {
		return []string{fmt.Sprintf("the program does not compile: %v", err)}
	}
	var m *metrics.Metric
	for _, mm := range obj.Metrics {
		if mm.Name == "hits" {
			m = mm
		}
	}
	v := vm.New("c08.mtail", obj, false, nil, false, false)
	ctx := context.Background()
	line := func(s string) { v.ProcessLogLine(ctx, logline.New(ctx, "f", s)) }
	has := func(x, y string) bool { return m.FindLabelValueOrNil([]string{x, y}) != nil }
	var bad []string
	line("add " + a + " " + b)
	line("add " + b + " " + a)
	line("del " + a + " " + b)
	if has(a, b) || (a != b && !has(b, a)) {
		bad = append(bad, fmt.Sprintf("after `del hits[%s][%s]`: (%s,%s) present=%v, (%s,%s) present=%v", a, b, a, b, has(a, b), b, a, has(b, a)))
	}
	line("add " + a + " " + b)
	line("exp " + a + " " + b)
	time.Sleep(3 * time.Millisecond)
	st := metrics.NewStore()
	_ = st.Add(m)
	_ = st.Gc()
	if has(a, b) || (a != b && !has(b, a)) {
		bad = append(bad, fmt.Sprintf("after `del hits[%s][%s] after 1ms` and a collection: (%s,%s) present=%v, (%s,%s) present=%v", a, b, a, b, has(a, b), b, a, has(b, a)))
	}
	return bad
}

func c08Run(r *runCtx, id string, f []string) {
	switch f[0] {
	case "vmdel":
		if bad := c08VMDel(unhx(f[1]), unhx(f[2])); len(bad) > 0 {
			r.obs(id, "vmdel BAD")
			r.fail(id, "tuple-aliasing", "%s", strings.Join(bad, "; "))
		} else {
			r.obs(id, "vmdel ok")
			r.ok(id)
		}
		r.stat("vmdel")
	case "hist":
		var tuples [][]string
		for _, t := range f[1:] {
			tuples = append(tuples, unhxs(t))
		}
		bad := c08Hist(tuples)
		if len(bad) > 0 {
			r.obs(id, "hist BAD")
			r.fail(id, "tuple-aliasing", "histogram metric with %d tuples: %s", len(tuples), strings.Join(bad, "; "))
		} else {
			r.obs(id, "hist ok")
			r.ok(id)
		}
		r.stat("hist")
	case "readd":
		var tuples [][]string
		for _, t := range f[1:] {
			tuples = append(tuples, unhxs(t))
		}
		bad := c08Readd(tuples)
		if len(bad) > 0 {
			r.obs(id, "readd BAD")
			r.fail(id, "tuple-aliasing", "after the metric is declared again (Store.Add over %d stored tuples): %s", len(tuples), strings.Join(bad, "; "))
		} else {
			r.obs(id, "readd ok")
			r.ok(id)
		}
		r.stat("readd")
	case "conc":
		t := unhxs(f[1])
		workers, _ := strconv.Atoi(f[2])
		rounds, _ := strconv.Atoi(f[3])
		n, distinct, sum := c08Conc(t, workers, rounds)
		r.obs(id, "n=%d distinct=%d sum=%d", n, distinct, sum)
		if n != 1 || distinct != 1 || sum != int64(workers) {
			r.fail(id, "tuple-aliasing", "%d goroutines looked up the new tuple %s at the same time: the metric stores %d label values for it, the callers got %d different data, and the stored value is %d after %d increments", workers, hxs(t), n, distinct, sum, workers)
		} else {
			r.ok(id)
		}
		r.stat("conc")
	case "key":
		t := unhxs(f[1])
		k := metrics.VerifBuildLabelValueKey(t)
		r.obs(id, "%s", hx(k))
		m := c08Seen[len(t)]
		if m == nil {
			m = map[string][]string{}
			c08Seen[len(t)] = m
		}
		if prev, ok := m[k]; ok && !eqTuple(prev, t) {
			r.fail(id, "key-collision", "tuples %s and %s share key %s", hxs(prev), hxs(t), hx(k))
			r.replay(id, "key", hxs(prev))
			r.replay(id, "key", hxs(t))
			r.stat("collisions")
		} else {
			m[k] = append([]string(nil), t...)
			r.ok(id)
		}
		r.stat(fmt.Sprintf("key_arity%d", len(t)))
	case "pair":
		a, b := unhxs(f[1]), unhxs(f[2])
		equal := eqTuple(a, b)
		sameKey := metrics.VerifBuildLabelValueKey(a) == metrics.VerifBuildLabelValueKey(b)
		keys := make([]string, len(a))
		for i := range keys {
			keys[i] = fmt.Sprintf("k%d", i)
		}
		m := metrics.NewMetric("m", "p", metrics.Gauge, metrics.Int, keys...)
		da, err1 := m.GetDatum(a...)
		db, err2 := m.GetDatum(b...)
		if err1 != nil || err2 != nil {
			r.obs(id, "ERR")
			r.fail(id, "unexpected-error", "%v %v", err1, err2)
			return
		}
		sameDatum := da == db
		ts := time.Unix(1000, 0)
		datum.SetInt(da, 1, ts)
		datum.SetInt(db, 2, ts)
		va := datum.GetInt(da)
		// expire A only
		_ = m.ExpireDatum(5*time.Second, a...)
		lvb := m.FindLabelValueOrNil(b)
		bExp := int64(-1)
		if lvb != nil {
			bExp = int64(lvb.Expiry)
		}
		// delete A only
		_ = m.RemoveDatum(a...)
		lvb2 := m.FindLabelValueOrNil(b)
		bPresent := lvb2 != nil
		bVal := int64(-1)
		if lvb2 != nil {
			bVal = datum.GetInt(lvb2.Value)
		}
		n := len(m.LabelValues)
		r.obs(id, "samekey=%d samedatum=%d va=%d bexp=%d bpresent=%d bval=%d n=%d", b2i(sameKey), b2i(sameDatum), va, bExp, b2i(bPresent), bVal, n)
		// property predicate (map semantics)
		var bad []string
		if sameDatum != equal {
			bad = append(bad, fmt.Sprintf("samedatum=%v but equal=%v", sameDatum, equal))
		}
		if !equal {
			if va != 1 {
				bad = append(bad, "writing B changed A")
			}
			if bExp != 0 {
				bad = append(bad, "expiring A marked B")
			}
			if !bPresent || bVal != 2 {
				bad = append(bad, "deleting A removed or changed B")
			}
			if n != 1 {
				bad = append(bad, fmt.Sprintf("after deleting A, %d label values remain, want 1", n))
			}
		} else {
			if va != 2 || bPresent || n != 0 {
				bad = append(bad, "equal tuples did not behave as one entry")
			}
		}
		// a tuple that the collector took away (expired, or the oldest over the limit) and that is
		// looked up again names a datum that is stored: found by the same tuple, enumerated once
		cls := "tuple-aliasing"
		if len(bad) == 0 {
			now := time.Now()
			for _, byLimit := range []bool{false, true} {
				m2 := metrics.NewMetric("m2", "p", metrics.Gauge, metrics.Int, keys...)
				st := metrics.NewStore()
				_ = st.Add(m2)
				if byLimit {
					if equal {
						continue
					}
					m2.Limit = 1
					if d, err := m2.GetDatum(b...); err == nil {
						datum.SetInt(d, 1, now)
					}
				}
				d1, err := m2.GetDatum(a...)
				if err != nil {
					continue
				}
				datum.SetInt(d1, 5, now.Add(-time.Hour))
				if !byLimit {
					_ = m2.ExpireDatum(time.Second, a...)
				}
				_ = st.Gc()
				if m2.FindLabelValueOrNil(a) != nil {
					continue // not collected (C10 says whether it should have been)
				}
				d2, _ := m2.GetDatum(a...)
				lv := m2.FindLabelValueOrNil(a)
				cnt := 0
				for _, x := range m2.LabelValues {
					if eqTuple(x.Labels, a) {
						cnt++
					}
				}
				if lv == nil || lv.Value != d2 || cnt != 1 {
					bad = append(bad, fmt.Sprintf("after the collector removed A (by limit: %v), looking A up again gives a datum that is not stored (found=%v, enumerated %d times)", byLimit, lv != nil, cnt))
					cls = "lookup-after-collection"
				}
			}
		}
		if len(bad) > 0 {
			r.fail(id, cls, "A=%s B=%s: %s", hxs(a), hxs(b), strings.Join(bad, "; "))
		} else {
			r.ok(id)
		}
		if equal {
			r.stat("pair_equal")
		} else if sameKey {
			r.stat("pair_distinct_samekey")
		} else {
			r.stat("pair_distinct")
		}
	}
}
