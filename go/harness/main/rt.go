//go:build verif

package main

import (
	"bytes"
	"context"
	"crypto/sha256"
	"encoding/hex"
	"expvar"
	"fmt"
	"os"
	"path/filepath"
	"sort"
	"strconv"
	"strings"
	"sync"
	"time"

	"github.com/google/mtail/internal/exporter"
	"github.com/google/mtail/internal/logline"
	"github.com/google/mtail/internal/metrics"
	"github.com/google/mtail/internal/metrics/datum"
	"github.com/google/mtail/internal/runtime"
	"github.com/google/mtail/internal/runtime/compiler"
)

// Shared engine for the program-loader properties (C06, C14, C25, C26): a real Runtime on a
// temporary program directory, driven by an operation history.
//
//   rt <catalogue> <op>;<op>;...
// catalogue: v<id>=<hash id>,<compiles>,<rterr>,<decl>+<decl>...;   decl = hx(name)/kind/typ/hxs(keys)/hx(pos)/hidden/effect
// ops: w:<file>:<ver>  rm:<file>  mv:<from>:<to>  mkdir:<name>  chmod0:<file>  load  l:<key>  n:<text>  gc  x:<file>:<metric>:<key>:<ms>
// After every `load` and at the end a dump is observed.

var rtVersions = []string{
	// 0: base
	"counter c by k\ncounter lseen\n/^(\\w+)$/ {\n  c[$1]++\n}\nlseen++\n",
	// 1: comment-only edit (declarations stay where they are)
	"counter c by k\ncounter lseen\n/^(\\w+)$/ {\n  c[$1]++\n}\nlseen++\n# edited\n",
	// 2: declaration moved to another line
	"\ncounter c by k\ncounter lseen\n/^(\\w+)$/ {\n  c[$1]++\n}\nlseen++\n",
	// 3: kind changed
	"gauge c by k\ncounter lseen\n/^(\\w+)$/ {\n  c[$1]++\n}\nlseen++\n",
	// 4: value type changed (float)
	"counter c by k\ncounter lseen\n/^(\\w+)$/ {\n  c[$1] += 1.0\n}\nlseen++\n",
	// 5: keys changed
	"counter c by k, j\ncounter lseen\n/^(\\w+)$/ {\n  c[$1][$1]++\n}\nlseen++\n",
	// 6: syntax error
	"counter c by k\ncounter lseen\n/^(\\w+)$/ {\n  c[$1]++\n",
	// 7: another metric name
	"counter d by k\ncounter lseen\n/^(\\w+)$/ {\n  d[$1]++\n}\nlseen++\n",
	// 8: first a fresh metric, then `c` as a gauge (kind clash when another program has counter c)
	"counter ok by k\ngauge c by k\ncounter lseen\n/^(\\w+)$/ {\n  ok[$1]++\n  c[$1]++\n}\nlseen++\n",
	// 9: raises a runtime error on every matching line
	"counter c by k\ncounter lseen\n/^(\\w+)$/ {\n  strptime($1, \"2006-01-02\")\n  c[$1]++\n}\nlseen++\n",
	// 10: hidden metric plus an exported one
	"hidden counter h by k\ncounter c by k\ncounter lseen\n/^(\\w+)$/ {\n  h[$1]++\n  c[$1]++\n}\nlseen++\n",
	// 11: same name `c`, other keys (label-dimension clash across programs)
	"counter c by other\ncounter lseen\n/^(\\w+)$/ {\n  c[$1]++\n}\nlseen++\n",
	// 12: two gauges c, d (two kind conflicts at once against version 13)
	"gauge c by k\ngauge d by k\ncounter lseen\n/^(\\w+)$/ {\n  c[$1]++\n  d[$1]++\n}\nlseen++\n",
	// 13: two counters c, d
	"counter c by k\ncounter d by k\ncounter lseen\n/^(\\w+)$/ {\n  c[$1]++\n  d[$1]++\n}\nlseen++\n",
	// 14, 15: an integer division / modulus by a zero that only exists at run time, on every matching line
	"counter c by k\ncounter lseen\n/^(\\w+)$/ {\n  1 / (len($1) - len($1)) > 0 {\n    c[$1]++\n  }\n}\nlseen++\n",
	"counter c by k\ncounter lseen\n/^(\\w+)$/ {\n  7 % (len($1) - len($1)) > 0 {\n    c[$1]++\n  }\n}\nlseen++\n",
	// 16: the keys of version 5 in the other order (same number of keys, another list)
	"counter c by j, k\ncounter lseen\n/^(\\w+)$/ {\n  c[$1][$1]++\n}\nlseen++\n",
	// 17: a metric none of whose label sets Prometheus can take (a key called `prog` next to the
	// program label): the scrape skips them, every time
	"counter e by prog\ncounter lseen\n/^(\\w+)$/ {\n  e[$1]++\n}\nlseen++\n",
	// 18, 19: a histogram and a gauge without keys (the histogram's datum exists from compile time on,
	// like a scalar counter's; the gauge's from its first update), and the same with a comment-only edit
	"histogram h buckets 1, 2, 4\ngauge g\ncounter lseen\n/^(\\w+)$/ {\n  h = len($1)\n  g++\n}\nlseen++\n",
	"histogram h buckets 1, 2, 4\ngauge g\ncounter lseen\n/^(\\w+)$/ {\n  h = len($1)\n  g++\n}\nlseen++\n# edited\n",
	// 20: version 18 with other bucket boundaries, the declaration where it was: the histogram starts afresh
	"histogram h buckets 10, 20, 40\ngauge g\ncounter lseen\n/^(\\w+)$/ {\n  h = len($1)\n  g++\n}\nlseen++\n",
	// 21, 22: one exported name under two store names (a hyphen is exported as an underscore)
	"counter lat as \"lat-ms\" by k\ncounter lseen\n/^(\\w+)$/ {\n  lat[$1]++\n}\nlseen++\n",
	"counter lat_ms by k\ncounter lseen\n/^(\\w+)$/ {\n  lat_ms[$1]++\n}\nlseen++\n",
	// 23, 24: a metric with a limit (only a GC pass enforces it: between passes it may hold more), and
	// the same with a comment-only edit
	"counter c by k limit 1\ncounter lseen\n/^(\\w+)$/ {\n  c[$1]++\n}\nlseen++\n",
	"counter c by k limit 1\ncounter lseen\n/^(\\w+)$/ {\n  c[$1]++\n}\nlseen++\n# edited\n",
}

type rtDecl struct {
	name      string
	kind, typ int
	keys      []string
	pos       string
	hidden    bool
	effect    int
	buckets   string
}

type rtVersion struct {
	id       int
	compiles bool
	rterr    bool
	decls    []rtDecl
}

var rtCatalogueOnce sync.Once
var rtCat []rtVersion

func rtCatalogue() []rtVersion {
	rtCatalogueOnce.Do(func() {
		for id, src := range rtVersions {
			v := rtVersion{id: id}
			c, _ := compiler.New()
			obj, err := c.Compile("X", strings.NewReader(src))
			if err == nil && obj != nil {
				v.compiles = true
				for _, m := range obj.Metrics {
					d := rtDecl{name: m.Name, kind: int(m.Kind), typ: int(m.Type), keys: m.Keys, hidden: m.Hidden}
					if len(m.Buckets) > 0 {
						d.buckets = fmt.Sprint(m.Buckets)
					}
					d.pos = strings.TrimPrefix(m.Source, "X:")
					d.effect = 1
					if m.Name == "lseen" {
						d.effect = 2 // incremented at the end of every line the program finishes
					}
					v.decls = append(v.decls, d)
				}
			}
			v.rterr = id == 9 || id == 14 || id == 15
			rtCat = append(rtCat, v)
		}
	})
	return rtCat
}

func rtEncodeCatalogue() string {
	var vs []string
	for _, v := range rtCatalogue() {
		var ds []string
		for _, d := range v.decls {
			ds = append(ds, strings.Join([]string{hx(d.name), strconv.Itoa(d.kind), strconv.Itoa(d.typ), hxs(d.keys), hx(d.pos), strconv.Itoa(b2i(d.hidden)), strconv.Itoa(d.effect), hx(d.buckets)}, "/"))
		}
		dd := strings.Join(ds, "+")
		if dd == "" {
			dd = "."
		}
		vs = append(vs, fmt.Sprintf("v%d=%d,%d,%d,%s", v.id, v.id, b2i(v.compiles), b2i(v.rterr), dd))
	}
	return strings.Join(vs, ";")
}

type rtEnv struct {
	dir    string
	lines  chan *logline.LogLine
	wg     sync.WaitGroup
	store  *metrics.Store
	rt     *runtime.Runtime
	hash2v map[string]int
	sent   int
	base   map[string]string // expvar snapshot
	closed bool
	hung   string // set when a load did not return: nothing more is asked of this environment
}

func expvarSnapshot() map[string]string {
	out := map[string]string{}
	for _, n := range []string{"prog_loads_total", "prog_unloads_total", "prog_load_errors_total", "prog_runtime_errors_total"} {
		if v := expvar.Get(n); v != nil {
			if m, ok := v.(*expvar.Map); ok {
				m.Do(func(kv expvar.KeyValue) { out[n+"/"+kv.Key] = kv.Value.String() })
			}
		}
	}
	if v := expvar.Get("lines_total"); v != nil {
		out["lines_total"] = v.String()
	}
	return out
}

func newRtEnv() (*rtEnv, error) {
	dir, err := os.MkdirTemp("", "verif-rt")
	if err != nil {
		return nil, err
	}
	e := &rtEnv{dir: dir, lines: make(chan *logline.LogLine), store: metrics.NewStore(), hash2v: map[string]int{}}
	for id, src := range rtVersions {
		h := sha256.Sum256([]byte(src))
		e.hash2v[hex.EncodeToString(h[:])] = id
	}
	e.base = expvarSnapshot()
	e.rt, err = runtime.New(e.lines, &e.wg, dir, e.store)
	if err != nil {
		return nil, err
	}
	return e, nil
}

func (e *rtEnv) close() {
	if e.hung != "" {
		// the loader is stuck holding its locks; leave the goroutines behind
		e.closed = true
		os.RemoveAll(e.dir)
		return
	}
	if !e.closed {
		e.closed = true
		close(e.lines)
		done := make(chan struct{})
		go func() { e.wg.Wait(); close(done) }()
		select {
		case <-done:
		case <-time.After(3 * time.Second):
		}
		os.RemoveAll(e.dir)
	}
}

// lseenOf returns the lines-seen counter of the running version of a program.
func (e *rtEnv) lseenOf(prog string) int64 {
	for _, m := range e.rt.VerifVMMetrics(prog) {
		if m.Name == "lseen" {
			if len(m.LabelValues) > 0 {
				return datum.GetInt(m.LabelValues[0].Value)
			}
		}
	}
	return -1
}

func (e *rtEnv) sendLine(text string) {
	// every running program either finishes the line (its last statement bumps lseen) or stops at
	// a runtime error (its error counter moves): wait for one of the two, not for a fixed time
	before := map[string]int64{}
	errsBefore := map[string]int64{}
	for p := range e.rt.VerifHandles() {
		before[p] = e.lseenOf(p)
		errsBefore[p] = expvarMapInt("prog_runtime_errors_total", p)
	}
	e.lines <- logline.New(context.Background(), "log", text)
	e.sent++
	deadline := time.Now().Add(30 * time.Second)
	// the dispatcher counts the line after taking it off the channel
	base, _ := strconv.ParseInt(e.base["lines_total"], 10, 64)
	for time.Now().Before(deadline) {
		cur, _ := strconv.ParseInt(expvar.Get("lines_total").String(), 10, 64)
		if cur >= base+int64(e.sent) {
			break
		}
		time.Sleep(100 * time.Microsecond)
	}
	for p, b := range before {
		for e.lseenOf(p) <= b && expvarMapInt("prog_runtime_errors_total", p) <= errsBefore[p] && time.Now().Before(deadline) {
			time.Sleep(200 * time.Microsecond)
		}
	}
}

func (e *rtEnv) apply(op string) {
	if e.hung != "" {
		return
	}
	p := strings.Split(op, ":")
	switch p[0] {
	case "w":
		v, _ := strconv.Atoi(p[2])
		_ = os.WriteFile(filepath.Join(e.dir, p[1]), []byte(rtVersions[v]), 0o644)
	case "rm":
		_ = os.RemoveAll(filepath.Join(e.dir, p[1]))
	case "mv":
		// only plain files are renamed, and never onto a directory (the model's file system has no
		// directory contents)
		if fi, err := os.Stat(filepath.Join(e.dir, p[1])); err != nil || fi.IsDir() {
			return
		}
		if fi, err := os.Stat(filepath.Join(e.dir, p[2])); err == nil && fi.IsDir() {
			return
		}
		_ = os.Rename(filepath.Join(e.dir, p[1]), filepath.Join(e.dir, p[2]))
	case "mkdir":
		_ = os.Mkdir(filepath.Join(e.dir, p[1]), 0o755)
	case "load":
		// a load that never returns (a lock left behind, say) must not take the whole run with it
		done := make(chan struct{})
		go func() { _ = e.rt.LoadAllPrograms(); close(done) }()
		select {
		case <-done:
		case <-time.After(30 * time.Second):
			e.hung = "LoadAllPrograms did not return within 30 s"
		}
	case "l":
		e.sendLine(p[1])
	case "n":
		e.sendLine("!!! " + p[1])
	case "gc":
		_ = e.store.Gc()
	case "x": // mark an expiry on a datum of <metric> owned by <file>
		ms, _ := strconv.Atoi(p[4])
		_ = e.store.Range(func(m *metrics.Metric) error {
			if m.Program == p[1] && m.Name == p[2] {
				keys := make([]string, len(m.Keys))
				for i := range keys {
					keys[i] = p[3]
				}
				_ = m.ExpireDatum(time.Duration(ms)*time.Millisecond, keys...)
			}
			return nil
		})
	}
}

func (e *rtEnv) dumpStore() []string {
	var out []string
	_ = e.store.Range(func(m *metrics.Metric) error {
		var lvs []string
		for _, lv := range m.LabelValues {
			var v string
			switch d := lv.Value.(type) {
			case *datum.Int:
				v = strconv.FormatInt(d.Get(), 10)
			case *datum.Float:
				v = strconv.FormatInt(int64(d.Get()), 10)
			default:
				v = "?"
			}
			lvs = append(lvs, fmt.Sprintf("%s=%s/x%d", hxs(lv.Labels), v, int64(lv.Expiry/time.Millisecond)))
		}
		out = append(out, fmt.Sprintf("%s/%s/%d/%d/%s/%s{%s}", hx(m.Name), hx(m.Program), int(m.Kind), int(m.Type), hxs(m.Keys), hx(m.Source), strings.Join(lvs, ",")))
		return nil
	})
	sort.Strings(out)
	return out
}

// lseenByProg sums, per program name, the lines-seen counters the store holds under that name.
func (e *rtEnv) lseenByProg() map[string]int64 {
	out := map[string]int64{}
	_ = e.store.Range(func(m *metrics.Metric) error {
		if m.Name == "lseen" {
			for _, lv := range m.LabelValues {
				if d, ok := lv.Value.(*datum.Int); ok {
					out[m.Program] += d.Get()
				}
			}
		}
		return nil
	})
	return out
}

func (e *rtEnv) dumpHandles() string {
	hs := e.rt.VerifHandles()
	var out []string
	for n, h := range hs {
		v, ok := e.hash2v[h]
		if !ok {
			v = -1
		}
		out = append(out, fmt.Sprintf("%s=v%d", n, v))
	}
	sort.Strings(out)
	return strings.Join(out, ",")
}

func (e *rtEnv) dumpCounters() string {
	now := expvarSnapshot()
	var out []string
	for k, v := range now {
		if v != e.base[k] {
			a, _ := strconv.ParseInt(v, 10, 64)
			b, _ := strconv.ParseInt(e.base[k], 10, 64)
			if a-b != 0 {
				out = append(out, fmt.Sprintf("%s=%d", k, a-b))
			}
		}
	}
	sort.Strings(out)
	return strings.Join(out, ",")
}

func (e *rtEnv) scrape() (string, error) {
	ctx, cancel := context.WithCancel(context.Background())
	defer cancel()
	ex, err := exporter.New(ctx, e.store, exporter.Hostname("h"))
	if err != nil {
		return "", err
	}
	var buf bytes.Buffer
	err = ex.Write(&buf)
	return buf.String(), err
}

func (e *rtEnv) dump() string {
	if e.hung != "" {
		return "HUNG"
	}
	st := e.dumpStore()
	s := strings.Join(st, " ")
	return fmt.Sprintf("H[%s] C[%s] S[%s]", e.dumpHandles(), e.dumpCounters(), s)
}
