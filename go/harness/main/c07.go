//go:build verif

package main

import (
	"fmt"
	"regexp"
	"strconv"
	"strings"
	"sync/atomic"
	"time"

	"github.com/google/mtail/internal/metrics"
	"github.com/google/mtail/internal/metrics/datum"
)

// C07 — timestamps follow strptime/settime and default to processing time.
//
//   time <flags> <layouts: A=layout|B=layout or settime or now> <lines, hex tuple>
//
// The program is built from the spec: one block per layout tag,
//   /^A (.+)$/ { strptime($1, "<layout>")  ts = timestamp()  n++ }
// or  /^(-?\d+)$/ { settime($1) ts = timestamp() n++ }   or   /./ { ts = timestamp() n++ }.
// PRED (independent of the model): for every line the harness computes what the language reference
// prescribes by calling time.Parse / ParseInLocation directly (zone and current-year options
// applied) and compares timestamp()'s result, the stamp of both updated datums and the error
// behaviour.  OBS/MOBS: the model against the real VM, store after every line.

type c07Block struct {
	tag, layout string
}

func c07Program(spec string) (string, []c07Block) {
	var b strings.Builder
	// fl is assigned the same value on every matching line: its datum still carries each line's instant
	b.WriteString("gauge ts\ncounter n\ngauge fl\n")
	var blocks []c07Block
	switch spec {
	case "settime":
		b.WriteString("/^(-?\\d+)$/ {\n  settime($1)\n  ts = timestamp()\n  n++\n  fl = 0.75\n}\n")
	case "now":
		b.WriteString("/./ {\n  ts = timestamp()\n  n++\n  fl = 0.75\n}\n")
	case "settime+now":
		// lines that set the time and lines that do not, in one program: nothing carries over
		b.WriteString("/^(-?\\d+)$/ {\n  settime($1)\n  ts = timestamp()\n  n++\n  fl = 0.75\n}\n/^N/ {\n  ts = timestamp()\n  n++\n  fl = 0.75\n}\n")
	default:
		for _, part := range strings.Split(spec, "|") {
			if part == "N" {
				// a block that neither parses nor sets a time: processing time, whatever earlier lines did
				b.WriteString("/^N / {\n  ts = timestamp()\n  n++\n  fl = 0.75\n}\n")
				continue
			}
			kv := strings.SplitN(part, "=", 2)
			blocks = append(blocks, c07Block{kv[0], kv[1]})
			if strings.HasPrefix(kv[0], "S") {
				// the time is parsed and then moved an hour back on the same line: what the parse
				// gave is not touched by what the line does to its clock afterwards
				fmt.Fprintf(&b, "/^%s (.+)$/ {\n  strptime($1, \"%s\")\n  settime(timestamp() - 3600)\n  ts = timestamp()\n  n++\n  fl = 0.75\n}\n", kv[0], kv[1])
				continue
			}
			fmt.Fprintf(&b, "/^%s (.+)$/ {\n  strptime($1, \"%s\")\n  ts = timestamp()\n  n++\n  fl = 0.75\n}\n", kv[0], kv[1])
		}
	}
	return b.String(), blocks
}

func metricByName(ms []*metrics.Metric, name string) *metrics.Metric {
	for _, m := range ms {
		if m.Name == name {
			return m
		}
	}
	return nil
}

func intDatum(m *metrics.Metric) (val int64, tns int64, ok bool) {
	if m == nil || len(m.LabelValues) == 0 {
		return 0, 0, false
	}
	d, isInt := m.LabelValues[0].Value.(*datum.Int)
	if !isInt {
		return 0, 0, false
	}
	return d.Get(), atomic.LoadInt64(&d.Time), true
}

func floatStamp(m *metrics.Metric) (int64, bool) {
	if m == nil || len(m.LabelValues) == 0 {
		return 0, false
	}
	d, isF := m.LabelValues[0].Value.(*datum.Float)
	if !isF {
		return 0, false
	}
	return atomic.LoadInt64(&d.Time), true
}

func c07Run(r *runCtx, id string, f []string) {
	spec := unhx(f[2])
	lines := unhxs(f[3])
	year, loc := parseFlags(f[1])
	src, blocks := c07Program(spec)
	vmCaseCounter++
	u, err := newVMUnderTest(fmt.Sprintf("c07_%d.mtail", vmCaseCounter), src, year, loc)
	if err != nil {
		r.obs(id, "rejected %s", strings.ReplaceAll(err.Error(), "\n", " "))
		fmt.Fprintf(r.w, "%s MOBS rejected\n", id)
		// an unusable layout literal is rejected at compile time; nothing to check
		r.ok(id)
		r.trivial(id)
		r.stat("rejected")
		return
	}
	m := getModel()
	modelOK := m != nil
	if modelOK {
		if e := u.loadIntoModel(m); e != "" {
			modelOK = false
			fmt.Fprintf(r.w, "%s MOBS %s\n", id, e)
		} else {
			fmt.Fprintf(r.w, "%s MOBS loaded\n", id)
		}
		r.obs(id, "loaded")
	}
	ref := &modelSrv{loc: loc, year: year} // only used for parseTimeDirect
	var bad []string
	for i, l := range lines {
		tsM, nM := metricByName(u.obj.Metrics, "ts"), metricByName(u.obj.Metrics, "n")
		ts0, tst0, _ := intDatum(tsM)
		n0, nt0, _ := intDatum(nM)
		t0 := time.Now()
		cls, raw := u.runLine("log", l)
		t1 := time.Now()
		r.obs(id, "%d %s %s", i, cls, encStore(u.obj.Metrics, u.since))
		if modelOK {
			mo, ms, _ := u.modelLine(m, "log", l)
			fmt.Fprintf(r.w, "%s MOBS %d %s %s\n", id, i, mo, ms)
		}
		ts1, tst1, _ := intDatum(tsM)
		n1, nt1, _ := intDatum(nM)
		unchanged := ts1 == ts0 && tst1 == tst0 && n1 == n0 && nt1 == nt0
		// what the reference prescribes
		type want struct {
			applies bool
			fails   bool
			instant time.Time
			now     bool
			conv    bool
		}
		var w want
		switch spec {
		case "settime", "settime+now":
			if spec == "settime+now" && strings.HasPrefix(l, "N") {
				w.applies, w.now = true, true
			} else if settimeRe.MatchString(l) {
				v, perr := strconv.ParseInt(l, 10, 64)
				if perr != nil {
					w.conv = true // the capture does not fit an int: the checked conversion error
				} else {
					w.applies = true
					w.instant = time.Unix(v, 0).UTC()
					if w.instant.IsZero() {
						w.now = true
					}
				}
			}
		case "now":
			if l != "" {
				w.applies, w.now = true, true
			}
		default:
			if strings.Contains("|"+spec+"|", "|N|") && strings.HasPrefix(l, "N ") && !strings.Contains(l, "\n") {
				w.applies, w.now = true, true
			}
			for _, b := range blocks {
				if strings.HasPrefix(l, b.tag+" ") && len(l) > len(b.tag)+1 && !strings.Contains(l, "\n") {
					ref.now = t0
					tm, perr := ref.parseTimeDirect(b.layout, l[len(b.tag)+1:])
					w.applies = true
					if perr != nil {
						w.fails = true
					} else {
						w.instant = tm
						if tm.IsZero() {
							w.now = true
						}
						if strings.HasPrefix(b.tag, "S") {
							w.instant = time.Unix(tm.Unix()-3600, 0).UTC()
							w.now = w.instant.IsZero()
						}
					}
					break // the first matching block stops nothing, but tags are distinct
				}
			}
		}
		r.stat(fmt.Sprintf("line_applies_%v_fails_%v_now_%v", w.applies, w.fails, w.now))
		switch {
		case w.conv:
			if cls != "err:convFailed" || !unchanged {
				bad = append(bad, fmt.Sprintf("line %q: expected the conversion error and no update, got %s", l, cls))
			}
		case !w.applies:
			if cls != "ok" || !unchanged {
				bad = append(bad, fmt.Sprintf("line %q matches no block but ended %s / changed the metrics", l, cls))
			}
		case w.fails:
			if cls != "err:timeParseFailed" || !unchanged {
				bad = append(bad, fmt.Sprintf("line %q: the value does not parse under the layout; expected the strptime runtime error and no update, got %s (%s), metrics unchanged=%v", l, cls, firstLine(raw), unchanged))
			}
		case w.now:
			lo, hi := t0.Unix(), t1.Unix()
			flt, flok := floatStamp(metricByName(u.obj.Metrics, "fl"))
			if flok && (flt < t0.UnixNano() || flt > t1.UnixNano()) {
				bad = append(bad, fmt.Sprintf("line %q: the float gauge assigned on this line carries the stamp %d, outside the processing time [%d,%d]", l, flt, t0.UnixNano(), t1.UnixNano()))
			}
			if cls != "ok" || ts1 < lo || ts1 > hi || n1 != n0+1 || tst1 < t0.UnixNano() || tst1 > t1.UnixNano() || nt1 < t0.UnixNano() || nt1 > t1.UnixNano() {
				bad = append(bad, fmt.Sprintf("line %q: expected processing time in [%d,%d]; timestamp()=%d, datum stamps %d/%d, outcome %s", l, lo, hi, ts1, tst1, nt1, cls))
			}
		default:
			wantSec, wantNs := w.instant.Unix(), w.instant.UnixNano()
			if flt, flok := floatStamp(metricByName(u.obj.Metrics, "fl")); flok && flt != wantNs {
				bad = append(bad, fmt.Sprintf("line %q: the float gauge assigned on this line (same value as before) carries the stamp %d, the line's instant is %d", l, flt, wantNs))
			}
			if cls != "ok" || ts1 != wantSec || n1 != n0+1 || tst1 != wantNs || nt1 != wantNs {
				bad = append(bad, fmt.Sprintf("line %q: the reference instant is %s (unix %d, nanos %d); timestamp()=%d, datum stamps ts=%d n=%d, n %d->%d, outcome %s (%s)", l, w.instant.Format(time.RFC3339Nano), wantSec, wantNs, ts1, tst1, nt1, n0, n1, cls, firstLine(raw)))
			}
		}
	}
	if len(bad) > 0 {
		r.fail(id, "timestamp-deviates", "options %s, program spec %q: %s", f[1], spec, strings.Join(bad, " ;; "))
	} else {
		r.ok(id)
	}
}

var settimeRe = regexp.MustCompile(`^(-?\d+)$`)

func firstLine(s string) string {
	if i := strings.Index(s, "\n"); i >= 0 {
		return s[:i]
	}
	return s
}

var c07Layouts = []string{
	"2006-01-02T15:04:05Z07:00", "2006-01-02 15:04:05", "2006-01-02", "01/02/2006", "02/01/2006", "Jan _2 15:04:05",
	"Jan _2 15:04:05 2006", "2006/01/02 15:04:05.000", "Mon Jan _2 15:04:05 MST 2006", "02/Jan/2006:15:04:05 -0700",
	"15:04:05", "20060102150405", "2006-01-02T15:04:05.999999999Z07:00", "Jan 2, 2006 at 3:04pm (MST)",
}

var c07Values = []string{
	"2024-03-04T05:06:07Z", "2024-03-04T05:06:07+01:00", "2024-03-04T05:06:07.123456789-08:00", "2024-03-04 05:06:07", "2024-03-04",
	"03/04/2020", "13/04/2020", "04/13/2020", "Mar  7 10:11:12", "Mar 17 10:11:12", "Feb 29 00:00:00", "Feb 30 10:11:12", "Dec 31 23:59:59",
	"Mar  7 10:11:12 2021", "2024/03/04 05:06:07.250", "Mon Mar  4 05:06:07 UTC 2024", "Mon Mar  4 05:06:07 PST 2024", "Mon Mar  4 05:06:07 CET 2024",
	"04/Mar/2024:05:06:07 +0530", "10:11:12", "20240304050607", "1677-09-21T00:12:43Z", "2262-04-11T23:47:17Z", "2500-01-01T00:00:00Z", "0001-01-01T00:00:00Z",
	"0000-06-15T12:00:00Z", "1969-12-31T23:59:59Z", "Mar 4, 2024 at 5:06pm (PST)", "garbage", "", "2024-03-04T05:06:07",
}

func c07Instants() []time.Time {
	paris, _ := time.LoadLocation("Europe/Paris")
	if paris == nil {
		paris = time.UTC
	}
	return []time.Time{
		time.Date(2024, 3, 4, 5, 6, 7, 0, time.UTC), time.Date(2024, 2, 29, 23, 59, 59, 999999999, time.UTC),
		time.Date(1970, 1, 1, 0, 0, 0, 0, time.UTC), time.Date(1969, 12, 31, 23, 59, 59, 0, time.UTC),
		time.Date(2021, 10, 31, 2, 30, 0, 0, paris), time.Date(2021, 3, 28, 3, 30, 0, 0, paris),
		time.Date(1677, 9, 21, 0, 12, 43, 0, time.UTC), time.Date(2262, 4, 11, 23, 47, 17, 0, time.UTC),
		time.Date(1600, 1, 1, 0, 0, 0, 0, time.UTC), time.Date(3000, 6, 15, 12, 0, 0, 0, time.UTC),
		time.Date(1, 1, 1, 0, 0, 0, 0, time.UTC), time.Date(0, 12, 31, 23, 59, 59, 0, time.UTC),
		time.Date(2024, 12, 31, 23, 59, 59, 0, time.FixedZone("X", -8*3600)), time.Date(2038, 1, 19, 3, 14, 8, 0, time.UTC),
	}
}

func init() {
	props["C07"] = &propImpl{
		gen: func(g *genCtx) {
			flagsets := []string{"-", "y", "zEurope/Paris", "zAmerica/New_York", "y+zAsia/Kolkata", "y+zUTC"}
			// every layout alone, every value twice (memo hit) and interleaved with another value
			for _, fl := range flagsets {
				for li, lay := range c07Layouts {
					if !g.thorough() && (li+len(fl))%3 != 0 && fl != "-" {
						continue
					}
					var lines []string
					for _, v := range c07Values {
						lines = append(lines, "A "+v)
					}
					// values that do parse: a grid of instants written in this very layout
					for _, in := range c07Instants() {
						lines = append(lines, "A "+in.Format(lay))
					}
					for _, v := range c07Values {
						lines = append(lines, "A "+v) // second time: served from the memo
					}
					for _, in := range c07Instants() {
						lines = append(lines, "A "+in.Format(lay))
					}
					g.emit("time", fl, hx("A="+lay), hxs(lines))
				}
			}
			// a line that parses its time and then sets its clock back: the same text again, later
			for _, lay := range c07Layouts {
				if !strings.Contains(lay, "2006") {
					continue
				}
				var lines []string
				for k, in := range c07Instants() {
					if in.Year() > 1971 && in.Year() < 2200 && k%2 == 0 {
						lines = append(lines, "SA "+in.Format(lay))
					}
				}
				lines = append(lines, lines...)
				g.emit("time", "-", hx("SA="+lay), hxs(lines))
			}
			// several programs in one process, with different options, parsing the same texts one
			// after the other (a few lines each, so that nothing is pushed out of any memo in between):
			// what one program's options made of a text is not what another's make of it
			for _, lay := range c07Layouts {
				var lines []string
				for k, in := range c07Instants() {
					if k < 6 {
						lines = append(lines, "A "+in.Format(lay))
					}
				}
				lines = append(lines, "A "+c07Values[0], lines[0])
				for _, fl := range []string{"-", "y", "zEurope/Paris", "y+zEurope/Paris", "y", "-", "y+zUTC", "zUTC", "-"} {
					g.emit("time", fl, hx("A="+lay), hxs(lines))
				}
			}
			// pairs of layouts in one program: the same value under two layouts, in both orders
			for i, la := range c07Layouts {
				for j, lb := range c07Layouts {
					if i == j || (!g.thorough() && (i+j)%4 != 0) {
						continue
					}
					var lines []string
					for _, v := range c07Values {
						lines = append(lines, "A "+v, "B "+v, "A "+v)
					}
					g.emit("time", flagsets[(i+j)%len(flagsets)], hx("A="+la+"|B="+lb), hxs(lines))
				}
			}
			// lines with and without a parsed or set time in one program: the default is the processing
			// time on every line, whatever the lines before it did
			for i, la := range c07Layouts {
				if !g.thorough() && i%2 != 0 {
					continue
				}
				var lines []string
				for k, in := range c07Instants() {
					lines = append(lines, "N x", "A "+in.Format(la), "N y")
					if k%2 == 0 {
						lines = append(lines, "A "+c07Values[k%len(c07Values)], "N z")
					}
				}
				g.emit("time", flagsets[i%len(flagsets)], hx("A="+la+"|N"), hxs(lines))
			}
			g.emit("time", "-", hx("settime+now"), hxs([]string{"N", "1700000000", "N", "5", "Nn", "-62135596800", "N", "x", "N"}))
			g.emit("time", "y+zEurope/Paris", hx("settime+now"), hxs([]string{"1700000000", "N", "N"}))
			// settime
			g.emit("time", "-", hx("settime"), hxs([]string{"0", "1", "-1", "1700000000", "-62135596800", "-62135596801", "-62135596799",
				"9223372036", "9223372037", "-9223372037", "9223372036854775807", "-9223372036854775808", "253402300799", "x", "12 13", "99999999999999999999"}))
			g.emit("time", "y+zEurope/Paris", hx("settime"), hxs([]string{"1700000000", "-62135596800", "5"}))
			// default
			g.emit("time", "-", hx("now"), hxs([]string{"a", "b", "", "c"}))
			g.emit("time", "zAsia/Kolkata", hx("now"), hxs([]string{"a", "b"}))
			// random: many distinct values to push entries out of the 64-entry memo, then repeats
			n := 20
			if g.thorough() {
				n = 300
			}
			for k := 0; k < n; k++ {
				la := c07Layouts[g.r.intn(3)]
				lb := c07Layouts[g.r.intn(len(c07Layouts))]
				var lines []string
				for q := 0; q < 150; q++ {
					var v string
					switch g.r.intn(5) {
					case 0:
						v = c07Values[g.r.intn(len(c07Values))]
					case 1:
						v = fmt.Sprintf("2024-03-%02dT05:06:%02dZ", 1+g.r.intn(28), g.r.intn(60))
					case 2:
						v = fmt.Sprintf("2024-03-%02d 05:%02d:07", 1+g.r.intn(28), g.r.intn(60))
					case 3:
						v = fmt.Sprintf("2024-%02d-%02d", 1+g.r.intn(12), 1+g.r.intn(28))
					default:
						v = fmt.Sprintf("Mar %2d 10:11:%02d", 1+g.r.intn(28), g.r.intn(60))
					}
					tag := g.r.pick([]string{"A ", "B "})
					if g.r.chance(1, 2) {
						lay := la
						if tag == "B " {
							lay = lb
						}
						v = time.Unix(int64(g.r.intn(4000000000))-1000000000, int64(g.r.intn(2))*500000000).UTC().Format(lay)
					}
					lines = append(lines, tag+v)
				}
				g.emit("time", g.r.pick(flagsets), hx("A="+la+"|B="+lb), hxs(lines))
			}
		},
		run:    c07Run,
		finish: props["C04"].finish,
	}
}
