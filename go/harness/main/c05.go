//go:build verif

package main

import (
	"fmt"
	"strings"
	"sync/atomic"
	"time"

	"github.com/google/mtail/internal/metrics"
	"github.com/google/mtail/internal/metrics/datum"
)

// C05 — a line's effect never depends on earlier lines except through metrics.
//
//   hist <flags> <program, hex> <history lines, hex tuple> <probe line, hex>
//
// VM A runs the history and then the probe.  VM B is a freshly compiled copy of the program whose
// metrics are given exactly the values A's metrics held just before the probe (deep copy of every
// label value, value, timestamp and expiry), and runs only the probe.  PRED: same outcome class,
// same runtime-error counter movement, same metrics afterwards.  OBS/MOBS: every line of A and the
// probe on B, against the model (which is told to forget its memo for B).

func cloneDatum(d datum.Datum) datum.Datum {
	switch v := d.(type) {
	case *datum.Int:
		n := &datum.Int{}
		n.Value = v.Get()
		n.Time = atomic.LoadInt64(&v.Time)
		return n
	case *datum.Float:
		n := datum.MakeFloat(v.Get(), time.Unix(0, 1))
		n.(*datum.Float).Time = atomic.LoadInt64(&v.Time)
		return n
	case *datum.String:
		n := datum.MakeString(v.Get(), time.Unix(0, 1))
		n.(*datum.String).Time = atomic.LoadInt64(&v.Time)
		return n
	case *datum.Buckets:
		n := &datum.Buckets{}
		n.Buckets = append([]datum.BucketCount(nil), v.Buckets...)
		n.Count = v.Count
		n.Sum = v.Sum
		n.Time = atomic.LoadInt64(&v.Time)
		return n
	}
	return d
}

func copyMetricData(dst, src []*metrics.Metric) error {
	if len(dst) != len(src) {
		return fmt.Errorf("metric count differs: %d vs %d", len(dst), len(src))
	}
	for i := range src {
		dst[i].VerifResetData()
		for _, lv := range src[i].LabelValues {
			nlv := &metrics.LabelValue{Labels: append([]string(nil), lv.Labels...), Value: cloneDatum(lv.Value), Expiry: lv.Expiry}
			if err := dst[i].AppendLabelValue(nlv); err != nil {
				return err
			}
		}
	}
	return nil
}

func c05Run(r *runCtx, id string, f []string) {
	src := unhx(f[2])
	hist := unhxs(f[3])
	probe := unhx(f[4])
	year, loc := parseFlags(f[1])
	vmCaseCounter++
	nameA := fmt.Sprintf("c05a%d.mtail", vmCaseCounter)
	nameB := fmt.Sprintf("c05b%d.mtail", vmCaseCounter)
	a, err := newVMUnderTest(nameA, src, year, loc)
	if err != nil {
		r.obs(id, "rejected")
		fmt.Fprintf(r.w, "%s MOBS rejected\n", id)
		r.ok(id)
		r.trivial(id)
		return
	}
	m := getModel()
	modelOK := m != nil
	if modelOK {
		if e := a.loadIntoModel(m); e != "" {
			modelOK = false
			fmt.Fprintf(r.w, "%s MOBS %s\n", id, e)
		} else {
			fmt.Fprintf(r.w, "%s MOBS loaded\n", id)
		}
		r.obs(id, "loaded")
	}
	for i, l := range hist {
		cls, _ := a.runLine("log", l)
		r.obs(id, "h%d %s %s", i, cls, encStore(a.obj.Metrics, a.since))
		r.stat("hist_outcome_" + cls)
		if modelOK {
			mo, ms, _ := a.modelLine(m, "log", l)
			fmt.Fprintf(r.w, "%s MOBS h%d %s %s\n", id, i, mo, ms)
		}
	}
	// fresh copy with the same metric values
	b, err := newVMUnderTest(nameB, src, year, loc)
	if err != nil {
		r.fail(id, "second-compile-differs", "the same source compiled once and was rejected the second time: %v", err)
		return
	}
	b.since = a.since
	if err := copyMetricData(b.obj.Metrics, a.obj.Metrics); err != nil {
		r.fail(id, "second-compile-differs", "%v", err)
		return
	}
	before := encStore(a.obj.Metrics, a.since)
	if got := encStore(b.obj.Metrics, a.since); got != before {
		panic("harness: metric copy is not faithful: " + got + " vs " + before)
	}
	memoLen := a.v.VerifMemoLen()
	ea0 := expvarMapInt("prog_runtime_errors_total", nameA)
	clsA, rawA := a.runLine("log", probe)
	ea1 := expvarMapInt("prog_runtime_errors_total", nameA)
	stA := encStore(a.obj.Metrics, a.since)
	eb0 := expvarMapInt("prog_runtime_errors_total", nameB)
	clsB, rawB := b.runLine("log", probe)
	eb1 := expvarMapInt("prog_runtime_errors_total", nameB)
	stB := encStore(b.obj.Metrics, a.since)
	r.obs(id, "pA %s %s", clsA, stA)
	r.obs(id, "pB %s %s", clsB, stB)
	r.stat("probe_outcome_" + clsA)
	if memoLen > 0 {
		r.stat("probe_with_nonempty_memo")
	}
	if modelOK {
		mo, ms, _ := a.modelLine(m, "log", probe)
		fmt.Fprintf(r.w, "%s MOBS pA %s %s\n", id, mo, ms)
		// the fresh copy: same program, memo forgotten, metrics as before the probe
		m.ask("F")
		if x := m.ask("S " + before); x != "S ok" {
			fmt.Fprintf(r.w, "%s MOBS pB model rejects store: %s\n", id, x)
		} else {
			mo, ms, _ := a.modelLine(m, "log", probe)
			fmt.Fprintf(r.w, "%s MOBS pB %s %s\n", id, mo, ms)
		}
	}
	first := func(s string) string {
		if i := strings.Index(s, "\n"); i >= 0 {
			return s[:i]
		}
		return s
	}
	switch {
	case clsA != clsB || (ea1-ea0) != (eb1-eb0):
		r.fail(id, "history-changes-outcome", "after history %q the line %q ends %s (runtime errors +%d: %q); in a fresh copy with the same metrics it ends %s (+%d: %q); program %q", hist, probe, clsA, ea1-ea0, first(rawA), clsB, eb1-eb0, first(rawB), src)
	case stA != stB:
		r.fail(id, "history-changes-effect", "after history %q the line %q leaves metrics %s; in a fresh copy with the same metrics %s; program %q", hist, probe, stA, stB, src)
	default:
		r.ok(id)
	}
	if len(hist) == 0 {
		r.trivial(id)
	}
}

var c05Programs = []string{
	// one layout, value reused across lines
	"counter c by k\ngauge ts\n/^(\\S+) (\\S+)$/ {\n  strptime($2, \"2006-01-02T15:04:05Z07:00\")\n  c[$1]++\n  ts = timestamp()\n}\n",
	// two layouts, one a prefix of the other
	"counter long_total\ncounter short_total\ngauge ts\n/^L (.+)$/ {\n  strptime($1, \"2006-01-02 15:04:05\")\n  long_total++\n  ts = timestamp()\n}\n/^S (.+)$/ {\n  strptime($1, \"2006-01-02\")\n  short_total++\n  ts = timestamp()\n}\n",
	// two layouts that read the same digits differently
	"gauge ts\ncounter n\n/^A (.+)$/ {\n  strptime($1, \"01/02/2006\")\n  ts = timestamp()\n  n++\n}\n/^B (.+)$/ {\n  strptime($1, \"02/01/2006\")\n  ts = timestamp()\n  n++\n}\n",
	// yearless syslog
	"counter n\ngauge ts\n/^(?P<d>\\w+\\s+\\d+\\s+\\d+:\\d+:\\d+)/ {\n  strptime($d, \"Jan _2 15:04:05\")\n  n++\n  ts = timestamp()\n}\n",
	// settime, stop, conversion errors, captures
	"counter a\ncounter b by k\ngauge g\n/^(\\d+)$/ {\n  settime($1)\n  a++\n}\n/^(\\w+)=(\\S+)$/ {\n  g = int($2)\n  b[$1]++\n}\n/^stop/ {\n  stop\n}\n/./ {\n  g = timestamp()\n}\n",
	// otherwise/else state
	"counter a\ncounter o\n/foo/ {\n  a++\n}\notherwise {\n  o++\n}\n",
	// capture of a pattern that did not match on this line but did on the previous one
	"counter c by k\n/^(\\w+) (\\w+)$/ {\n  c[$2]++\n} else {\n  /^x/ {\n    c[$1]++\n  }\n}\n",
	// del / expire
	"counter c by k\n/^(\\w+)$/ {\n  c[$1]++\n}\n/^del (\\w+)/ {\n  del c[$1]\n}\n/^exp (\\w+)/ {\n  del c[$1] after 1h\n}\n",
	// histogram
	"histogram h buckets 1, 2, 4\n/^(\\d+\\.?\\d*)$/ {\n  h = $1\n}\n",
	// text and concatenation
	"text t\n/^(\\w+)$/ {\n  t += $1\n}\n",
	// programs whose very last instruction ends the line: a `stop` closing the final else branch, an
	// unconditional `stop` as the last statement, a runtime error raised by the last statement
	"counter heads\ncounter gets\n/^HEAD/ {\n  heads++\n}\n/^GET/ {\n  gets++\n} else {\n  stop\n}\n",
	"counter n\n/^x/ {\n  n++\n}\nstop\n",
	"counter n\nn++\nstrptime(getfilename(), \"2006-01-02\")\n",
	"counter n by k\ngauge g\n/^(\\w+)=(\\S+)$/ {\n  n[$1]++\n  g = int($2)\n} else {\n  g = strtol(\"zz\", 10)\n}\n",
	// a capture group read on a line on which its pattern was not tried: the match sits behind a
	// short-circuit, its group is used in the block
	"counter c by n\n/^(?P<k>\\w+) (?P<rest>.*)$/ {\n  $k == \"a\" || $rest =~ /^n=(?P<n>\\d+)/ {\n    c[$n]++\n  }\n}\n",
	"counter c by n\ncounter d\n/^(?P<k>\\w+) (?P<rest>.*)$/ {\n  $k != \"a\" && $rest =~ /^n=(?P<n>\\d+)/ {\n    d++\n  } else {\n    c[$n]++\n  }\n}\n",
}

var c05Lines = []string{
	"a 2024-03-04T05:06:07Z", "b 2024-03-04T05:06:07Z", "a 2024-03-04T05:06:07+01:00", "a garbage", "b garbage", "a 2024-13-45T00:00:00Z",
	"L 2024-03-04 05:06:07", "S 2024-03-04", "S  15:04:052024-03-04 05:06:07", "L 2024-03-04", "S 2024-03-04 05:06:07", "S bad", "L bad",
	"A 03/04/2020", "B 03/04/2020", "A 13/04/2020", "B 13/04/2020", "A 04/13/2020",
	"Mar  7 10:11:12 host x", "Mar  7 10:11:12 host y", "Feb 30 10:11:12 h", "Dec 31 23:59:59 h",
	"1700000000", "42", "-62135596800", "k=12", "k=x", "k=3.5", "stop now", "foo", "bar", "x y", "x", "p q",
	"del foo", "exp foo", "exp bar", "1.5", "3", "100", "", "HEAD /", "GET /",
	"b n=7", "a n=9", "a zzz", "b zzz", "b n=12",
}

func init() {
	props["C05"] = &propImpl{
		gen: func(g *genCtx) {
			flagsets := []string{"-", "y", "zEurope/Paris", "y+zAmerica/New_York"}
			// systematic: every program x histories of length 0..2 over its relevant lines would be
			// large; take all ordered pairs (history of one line, probe) plus repeated-line histories
			for pi, p := range c05Programs {
				fl := "-"
				if pi == 3 {
					fl = "y"
				}
				for _, h := range c05Lines {
					for _, pr := range c05Lines {
						if g.thorough() || g.r.chance(1, 6) || h == pr {
							g.emit("hist", fl, hx(p), hxs([]string{h}), hx(pr))
						}
					}
				}
			}
			// write, remove, write again (and the like): every history of two lines over a small set,
			// for the programs that delete or expire what they wrote
			for _, p := range c05Programs {
				if !strings.Contains(p, "del ") {
					continue
				}
				small := []string{"foo", "bar", "del foo", "exp foo", "del bar"}
				for _, h1 := range small {
					for _, h2 := range small {
						for _, pr := range small[:3] {
							g.emit("hist", "-", hx(p), hxs([]string{h1, h2}), hx(pr))
						}
					}
				}
			}
			// histories with more distinct timestamps than the parse memo holds (64), then a line whose
			// timestamp was parsed long ago: the probe behaves as in a fresh copy, whatever was pushed
			// out of the memo and whatever took its place
			for _, nh := range []int{63, 64, 65, 66, 100, 130, 200} {
				var hist []string
				for k := 0; k < nh; k++ {
					hist = append(hist, fmt.Sprintf("a 2024-03-04T05:%02d:%02dZ", k/60, k%60))
				}
				for _, probeAt := range []int{0, 1, nh / 2, nh - 1} {
					g.emit("hist", "-", hx(c05Programs[0]), hxs(hist), hx(hist[probeAt]))
				}
				g.emit("hist", "-", hx(c05Programs[0]), hxs(append(append([]string{}, hist...), hist[0], hist[1])), hx(hist[0]))
			}
			n := 300
			if g.thorough() {
				n = 5000
			}
			for i := 0; i < n; i++ {
				var p string
				if g.r.chance(1, 2) {
					p = c05Programs[g.r.intn(len(c05Programs))]
				} else {
					p = genProgram(g.r)
				}
				hl := g.r.intn(12)
				hist := make([]string, hl)
				for j := range hist {
					if g.r.chance(2, 3) {
						hist[j] = c05Lines[g.r.intn(len(c05Lines))]
					} else {
						hist[j] = genLines(g.r, 1)[0]
					}
				}
				probe := c05Lines[g.r.intn(len(c05Lines))]
				if hl > 0 && g.r.chance(1, 2) {
					probe = hist[g.r.intn(hl)] // repeat a line of the history
				}
				g.emit("hist", g.r.pick(flagsets), hx(p), hxs(hist), hx(probe))
			}
		},
		run:    c05Run,
		finish: props["C04"].finish,
	}
}
