//go:build verif

package main

import (
	"bufio"
	"context"
	"fmt"
	"io"
	"math"
	"os"
	"os/exec"
	"regexp"
	"strconv"
	"strings"
	"time"

	"github.com/google/mtail/internal/logline"
	"github.com/google/mtail/internal/metrics"
	"github.com/google/mtail/internal/metrics/datum"
	"github.com/google/mtail/internal/runtime/code"
	"github.com/google/mtail/internal/runtime/compiler"
	"github.com/google/mtail/internal/runtime/vm"
)

// Shared machinery for the VM properties (C04, C05, C07, C01): compile a program with the real
// compiler, run lines through the real VM, and drive the Lean VM model (`mtailmodel VMSRV`) on the
// same bytecode.  Library questions of the model (regexp, strconv, math, strings, time) are
// answered here by calling the standard library directly, never through mtail.

// ---------- model server ----------

type modelSrv struct {
	cmd *exec.Cmd
	in  io.WriteCloser
	out *bufio.Reader
	// context for answering library questions
	res  []*regexp.Regexp
	loc  *time.Location
	year bool
	now  time.Time
	asked map[string]int
}

var theModel *modelSrv

func getModel() *modelSrv {
	if theModel != nil {
		return theModel
	}
	bin := os.Getenv("VERIF_MODEL_BIN")
	if bin == "" {
		return nil
	}
	cmd := exec.Command(bin, "VMSRV")
	in, _ := cmd.StdinPipe()
	out, _ := cmd.StdoutPipe()
	cmd.Stderr = os.Stderr
	if err := cmd.Start(); err != nil {
		fmt.Fprintln(os.Stderr, "cannot start model server:", err)
		return nil
	}
	theModel = &modelSrv{cmd: cmd, in: in, out: bufio.NewReaderSize(out, 1<<20), asked: map[string]int{}}
	return theModel
}

// ask sends one command and returns the final answer line, serving NEED questions in between.
func (m *modelSrv) ask(cmd string) string {
	if _, err := io.WriteString(m.in, cmd+"\n"); err != nil {
		return "MODEL-DEAD"
	}
	for {
		line, err := m.out.ReadString('\n')
		if err != nil {
			theModel = nil
			return "MODEL-DEAD"
		}
		line = strings.TrimRight(line, "\n")
		if strings.HasPrefix(line, "NEED ") {
			a := m.answer(strings.Fields(line[5:]))
			_, _ = io.WriteString(m.in, a+"\n")
			continue
		}
		return line
	}
}

func bitsOf(s string) float64 {
	u, _ := strconv.ParseUint(s, 16, 64)
	return math.Float64frombits(u)
}

// parseTimeDirect mirrors what the language reference says about strptime: parse in the configured
// zone, and with the current-year option replace a zero year by the current year.
func (m *modelSrv) parseTimeDirect(layout, value string) (time.Time, error) {
	var tm time.Time
	var err error
	if m.loc != nil {
		tm, err = time.ParseInLocation(layout, value, m.loc)
	} else {
		tm, err = time.Parse(layout, value)
	}
	if err != nil {
		return tm, err
	}
	if tm.Year() == 0 && m.year {
		now := m.now
		if m.loc != nil {
			now = now.In(m.loc)
		}
		tm = tm.AddDate(now.Year(), 0, 0)
	}
	return tm, nil
}

// unixNanoBig is the instant in nanoseconds since the epoch without int64 wrap-around.
func unixNanoBig(t time.Time) string {
	sec := t.Unix()
	ns := int64(t.Nanosecond())
	// sec*1e9 + ns in decimal, using big arithmetic by hand: |sec| < 2^63/1e9 does not hold for year 0
	neg := sec < 0
	if neg {
		// floor semantics: value = sec*1e9 + ns with ns >= 0
		// write as -( (-sec)*1e9 - ns )
		a := uint64(-sec)
		// use strconv on pieces: (-sec)*1e9 - ns = (a-1)*1e9 + (1e9 - ns) when ns > 0
		if ns == 0 {
			return "-" + strconv.FormatUint(a, 10) + "000000000"
		}
		return "-" + strconv.FormatUint(a-1, 10) + fmt.Sprintf("%09d", 1000000000-ns)
	}
	if sec == 0 {
		return strconv.FormatInt(ns, 10)
	}
	return strconv.FormatInt(sec, 10) + fmt.Sprintf("%09d", ns)
}

func (m *modelSrv) answer(f []string) string {
	m.asked[f[0]]++
	switch f[0] {
	case "re":
		i, _ := strconv.Atoi(f[1])
		if i < 0 || i >= len(m.res) {
			return "nil"
		}
		g := m.res[i].FindStringSubmatch(unhx(f[2]))
		if g == nil {
			return "nil"
		}
		return hxs(g)
	case "pi":
		base, _ := strconv.Atoi(f[2])
		n, err := strconv.ParseInt(unhx(f[1]), base, 64)
		if err != nil {
			return "e"
		}
		return strconv.FormatInt(n, 10)
	case "pf":
		x, err := strconv.ParseFloat(unhx(f[1]), 64)
		if err != nil {
			return "e"
		}
		return fbits(x)
	case "fmod":
		return fbits(math.Mod(bitsOf(f[1]), bitsOf(f[2])))
	case "fpow":
		return fbits(math.Pow(bitsOf(f[1]), bitsOf(f[2])))
	case "i2f":
		n, _ := strconv.ParseInt(f[1], 10, 64)
		return fbits(float64(n))
	case "f2i":
		return strconv.FormatInt(int64(bitsOf(f[1])), 10)
	case "fG":
		return hx(strconv.FormatFloat(bitsOf(f[1]), 'G', -1, 64))
	case "fg":
		return hx(fmt.Sprintf("%g", bitsOf(f[1])))
	case "lo":
		return hx(strings.ToLower(unhx(f[1])))
	case "ra":
		return hx(strings.ReplaceAll(unhx(f[1]), unhx(f[2]), unhx(f[3])))
	case "rr":
		i, _ := strconv.Atoi(f[1])
		if i < 0 || i >= len(m.res) {
			return hx("")
		}
		return hx(m.res[i].ReplaceAllLiteralString(unhx(f[2]), unhx(f[3])))
	case "tp":
		tm, err := m.parseTimeDirect(unhx(f[1]), unhx(f[2]))
		if err != nil {
			return "e"
		}
		return unixNanoBig(tm)
	case "now":
		return strconv.FormatInt(m.now.Unix(), 10)
	}
	return "?"
}

// ---------- encodings ----------

func encOperand(o interface{}) string {
	switch v := o.(type) {
	case nil:
		return "_"
	case int:
		return "n" + strconv.Itoa(v)
	case bool:
		return "b" + strconv.Itoa(b2i(v))
	case int64:
		return "i" + strconv.FormatInt(v, 10)
	case float64:
		return "f" + fbits(v)
	case time.Duration:
		return "d" + strconv.FormatInt(int64(v), 10)
	}
	return "?"
}

func encProg(obj *code.Object) string {
	ins := make([]string, len(obj.Program))
	for i, in := range obj.Program {
		ins[i] = fmt.Sprintf("%d:%s", int(in.Opcode), encOperand(in.Operand))
	}
	codeS := strings.Join(ins, ";")
	if len(ins) == 0 {
		codeS = "."
	}
	ms := make([]string, len(obj.Metrics))
	for i, m := range obj.Metrics {
		rs := make([]string, len(m.Buckets))
		for j, r := range m.Buckets {
			rs[j] = fbits(r.Min) + ":" + fbits(r.Max)
		}
		rss := strings.Join(rs, ",")
		if len(rs) == 0 {
			rss = "."
		}
		ms[i] = fmt.Sprintf("%d/%d/%s", int(m.Type), len(m.Keys), rss)
	}
	mss := strings.Join(ms, ";")
	if len(ms) == 0 {
		mss = "."
	}
	return fmt.Sprintf("%s %s %d %s", codeS, hxs(obj.Strings), len(obj.Regexps), mss)
}

func canonF(v float64) string {
	if math.IsNaN(v) {
		return "nan"
	}
	if v == 0 {
		v = 0 // -0 and +0 are the same order key in the model's printer
	}
	return fbits(v)
}

// encStore dumps the metrics in program order.  A timestamp taken from the wall clock during this
// case (at or after `since`) is written N.
func encStore(ms []*metrics.Metric, since time.Time) string {
	if len(ms) == 0 {
		return "."
	}
	out := make([]string, len(ms))
	for i, m := range ms {
		m.RLock()
		lvs := make([]string, len(m.LabelValues))
		for j, lv := range m.LabelValues {
			var val string
			var tns int64
			switch d := lv.Value.(type) {
			case *datum.Int:
				val = "i" + strconv.FormatInt(d.Get(), 10)
				tns = d.TimeUTC().UnixNano()
			case *datum.Float:
				if math.IsNaN(d.Get()) {
					val = "fnan"
				} else {
					val = "f" + canonF(d.Get())
				}
				tns = d.TimeUTC().UnixNano()
			case *datum.String:
				val = "s" + hx(d.Get())
				tns = d.TimeUTC().UnixNano()
			case *datum.Buckets:
				cs := make([]string, len(d.Buckets))
				for k, b := range d.Buckets {
					cs[k] = strconv.FormatUint(b.Count, 10)
				}
				sum := "nan"
				if !math.IsNaN(d.GetSum()) {
					sum = fbits(d.GetSum())
				}
				val = fmt.Sprintf("b%d/%s/%s", d.GetCount(), sum, strings.Join(cs, "."))
				tns = d.TimeUTC().UnixNano()
			default:
				val = "?"
			}
			ts := strconv.FormatInt(tns, 10)
			if tns >= since.Unix()*1000000000 {
				ts = "N"
			}
			lvs[j] = fmt.Sprintf("%s~%s~%s~%d", hxs(lv.Labels), val, ts, int64(lv.Expiry))
		}
		m.RUnlock()
		if len(lvs) == 0 {
			out[i] = "_"
		} else {
			out[i] = strings.Join(lvs, "|")
		}
	}
	return strings.Join(out, ";")
}

// ---------- classification of the real VM's runtime errors ----------

var numTypes = map[string]bool{"float64": true, "int": true, "int64": true}

func classifyRuntimeError(e string) string {
	first := e
	if i := strings.Index(e, "\n"); i >= 0 {
		first = e[:i]
	}
	switch {
	case e == "":
		return ""
	case strings.HasPrefix(first, "panic in thread"):
		return "fault"
	case strings.HasPrefix(first, "cannot compare "):
		// cannot compare T1 "..." with T2 "..."
		rest := strings.TrimPrefix(first, "cannot compare ")
		t1 := strings.SplitN(rest, " ", 2)[0]
		t2 := ""
		if i := strings.LastIndex(rest, " with "); i >= 0 {
			t2 = strings.SplitN(rest[i+6:], " ", 2)[0]
		}
		ok1 := numTypes[t1] || t1 == "string"
		ok2 := numTypes[t2] || t2 == "string"
		if !ok1 || !ok2 || (t1 == "string" && t2 != "string") {
			return "fault"
		}
		return "err:convFailed"
	case strings.Contains(first, "conversion of") && strings.Contains(first, "failed"):
		return "err:convFailed"
	case strings.HasPrefix(first, "strconv."):
		return "err:convFailed"
	case strings.HasPrefix(first, "strptime ("):
		return "err:timeParseFailed"
	case strings.HasPrefix(first, "Divide by zero"):
		return "err:divByZero"
	case strings.HasPrefix(first, "shift int out of range"):
		return "err:shiftOutOfRange"
	case strings.HasPrefix(first, "int32 out of range"):
		return "err:baseOutOfRange"
	case strings.HasPrefix(first, "Not enough capture groups"):
		return "err:captureOfUnmatched"
	case strings.HasPrefix(first, "No datum for given labelvalues"):
		return "err:expireMissingDatum"
	case strings.Contains(first, "not same length as keys"):
		return "err:arity"
	}
	// "unexpected int type", "Unexpected type to ...", "Failed to pop a timestamp", "Invalid re index",
	// "int32 index out of range", "illegal instruction", anything unknown
	return "fault"
}

// ---------- one program under test ----------

type vmUnderTest struct {
	name  string
	obj   *code.Object
	v     *vm.VM
	since time.Time
	loc   *time.Location
	year  bool
	// wall clock just before and just after the implementation ran the last line, and the store
	// the model held before it: the model is given the same clock reading
	t0, t1         time.Time
	prevModelStore string
}

func compileProg(name, src string, opts ...compiler.Option) (*code.Object, error) {
	c, _ := compiler.New(opts...)
	obj, err := c.Compile(name, strings.NewReader(src))
	if err != nil {
		return nil, err
	}
	if obj == nil {
		return nil, fmt.Errorf("nil object without error")
	}
	return obj, nil
}

func newVMUnderTest(name, src string, year bool, loc *time.Location) (*vmUnderTest, error) {
	since := time.Now()
	obj, err := compileProg(name, src)
	if err != nil {
		return nil, err
	}
	return &vmUnderTest{name: name, obj: obj, v: vm.New(name, obj, year, loc, false, false), since: since, loc: loc, year: year}, nil
}

// runLine processes one line on the real VM and returns the canonical outcome and raw error text.
func (u *vmUnderTest) runLine(filename, line string) (string, string) {
	// a new runtime error is recognised by the program's error counter, not by resetting the VM's
	// last-error string: that string is VM state, and a harness that clears it between lines
	// hides anything that depends on it
	errsBefore := expvarMapInt("prog_runtime_errors_total", u.name)
	ctx := context.Background()
	var raw string
	func() {
		defer func() {
			if e := recover(); e != nil {
				raw = "panic in thread (escaped): " + fmt.Sprint(e)
			}
		}()
		u.t0 = time.Now()
		u.v.ProcessLogLine(ctx, logline.New(ctx, filename, line))
		u.t1 = time.Now()
	}()
	if raw == "" && expvarMapInt("prog_runtime_errors_total", u.name) > errsBefore {
		raw = u.v.RuntimeErrorString()
	}
	cls := classifyRuntimeError(raw)
	if cls == "" {
		cls = "ok"
	}
	return cls, raw
}

// canonical outcome of the model: done and stop are both "ok" (the Go VM does not tell them apart)
func canonModelOutcome(s string) string {
	switch {
	case s == "done" || s == "stop":
		return "ok"
	case strings.HasPrefix(s, "fault:"):
		return "fault"
	case strings.HasPrefix(s, "err:"):
		return "err:" + strings.TrimPrefix(s[4:], "MtailVerif.VM.RtErr.")
	}
	return s
}

// loadIntoModel sends program and current store to the model server.
func (u *vmUnderTest) loadIntoModel(m *modelSrv) string {
	m.res = u.obj.Regexps
	m.loc = u.loc
	m.year = u.year
	if a := m.ask(fmt.Sprintf("P %d %s", u.since.Unix(), encProg(u.obj))); a != "P ok" {
		return "model rejects the program encoding: " + a
	}
	u.prevModelStore = encStore(u.obj.Metrics, u.since)
	if a := m.ask("S " + u.prevModelStore); a != "S ok" {
		return "model rejects the store encoding: " + a
	}
	return ""
}

func (u *vmUnderTest) modelLine(m *modelSrv, filename, line string) (outcome, store, memo string) {
	// the model reads the clock the implementation read: the reading taken just before the
	// implementation ran the line (not "now", which may be seconds later on a loaded machine)
	m.now = u.t0
	if m.now.IsZero() {
		m.now = time.Now()
	}
	a := m.ask("L " + hx(filename) + " " + hx(line))
	f := strings.Fields(a)
	if len(f) != 4 || f[0] != "R" {
		return "model-error:" + strings.ReplaceAll(a, " ", "_"), "", ""
	}
	if !u.t0.IsZero() && u.t1.Unix() != u.t0.Unix() && f[2] != encStore(u.obj.Metrics, u.since) && u.prevModelStore != "" {
		// the second changed while the implementation ran, and it shows: the implementation may
		// have read the later second; give the model that one
		if r := m.ask("S " + u.prevModelStore); r == "S ok" {
			m.now = u.t1
			if a2 := m.ask("L " + hx(filename) + " " + hx(line)); len(strings.Fields(a2)) == 4 {
				f = strings.Fields(a2)
			}
		}
	}
	u.prevModelStore = f[2]
	return canonModelOutcome(f[1]), f[2], f[3]
}
