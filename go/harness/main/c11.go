//go:build verif

package main

import (
	"bytes"
	"context"
	"fmt"
	"net/http"
	"net/http/httptest"
	"os"
	"path/filepath"
	"regexp"
	"sort"
	"strconv"
	"strings"
	"sync"
	"sync/atomic"
	"time"

	"github.com/google/mtail/internal/exporter"
	"github.com/google/mtail/internal/logline"
	"github.com/google/mtail/internal/metrics"
	"github.com/google/mtail/internal/runtime"
)

// C11 — concurrent processing, export, reload and GC are race-free.
//
//   mix <roots: comma list of vm,gc,prom,json,varz,graphite,push,reload> <lines> <seed>
//
// A real Runtime processes <lines> lines of a program that uses every datum type, dimensions, a
// size limit and delayed deletes, while the listed other activities run concurrently on the same
// store.  The harness is built with the race detector; GORACE's log files are read after the case.
// PRED: (1) no data race report, (2) the scalar counter equals the number of lines sent (no lost
// increment), (3) every exported value of that counter existed at some point: non-decreasing across
// scrapes and never above the number of lines sent at the time the scrape finished.
// OBS: the final counter value (the model says: the number of lines).

const c11Prog = `counter n
counter c by k
gauge g
histogram h buckets 1, 2, 4
text t
counter lim by k limit 3
/^(\w+) (\d+)$/ {
  n++
  c[$1]++
  g = $2
  h = $2
  t = $1
  lim[$2]++
  del c[$1] after 1ms
}
# version %d
`

var raceFrameRe = regexp.MustCompile(`^\s+(github\.com/google/mtail/internal/[^\s(]+(?:\([^)]*\))?[^\s(]*)\(`)

func raceLogFiles() []string {
	p := ""
	for _, kv := range strings.Fields(os.Getenv("GORACE")) {
		if strings.HasPrefix(kv, "log_path=") {
			p = kv[len("log_path="):]
		}
	}
	if p == "" {
		return nil
	}
	fs, _ := filepath.Glob(p + ".*")
	return fs
}

// parseRaces returns one class per report: the first mtail frame of each of the two stacks.
func parseRaces(text string) []string {
	var out []string
	for _, rep := range strings.Split(text, "==================") {
		if !strings.Contains(rep, "WARNING: DATA RACE") {
			continue
		}
		var tops []string
		inStack := false
		got := false
		for _, ln := range strings.Split(rep, "\n") {
			switch {
			case strings.HasPrefix(ln, "Write at") || strings.HasPrefix(ln, "Read at") || strings.HasPrefix(ln, "Previous write at") || strings.HasPrefix(ln, "Previous read at") || strings.HasPrefix(ln, "Atomic"):
				inStack, got = true, false
			case strings.HasPrefix(ln, "Goroutine "):
				inStack = false
			case inStack && !got:
				if m := raceFrameRe.FindStringSubmatch(ln); m != nil && !strings.Contains(m[1], "verifharness") {
					f := strings.TrimPrefix(m[1], "github.com/google/mtail/internal/")
					tops = append(tops, f)
					got = true
				}
			}
		}
		if len(tops) >= 2 {
			tops = tops[:2]
			sort.Strings(tops)
			out = append(out, "race:"+strings.Join(tops, "|"))
		} else {
			out = append(out, "race:unparsed")
		}
	}
	return out
}

var raceSeenBytes = map[string]int{}

func newRaceReports() []string {
	var all []string
	for _, f := range raceLogFiles() {
		b, err := os.ReadFile(f)
		if err != nil {
			continue
		}
		from := raceSeenBytes[f]
		if from < len(b) {
			all = append(all, parseRaces(string(b[from:]))...)
			raceSeenBytes[f] = len(b)
		}
	}
	return all
}

func c11Run(r *runCtx, id string, f []string) {
	roots := map[string]bool{}
	for _, x := range strings.Split(f[1], ",") {
		roots[x] = true
	}
	nLines, _ := strconv.Atoi(f[2])
	seed, _ := strconv.Atoi(f[3])
	rg := &rng{s: uint64(seed)*0x9e3779b97f4a7c15 + 99}
	dir, err := os.MkdirTemp("", "c11")
	if err != nil {
		panic(err)
	}
	defer os.RemoveAll(dir)
	_ = os.WriteFile(filepath.Join(dir, "p.mtail"), []byte(fmt.Sprintf(c11Prog, 0)), 0o644)
	store := metrics.NewStore()
	lines := make(chan *logline.LogLine)
	var wg sync.WaitGroup
	rt, err := runtime.New(lines, &wg, dir, store)
	if err != nil {
		panic(err)
	}
	ctx, cancel := context.WithCancel(context.Background())
	exp, err := exporter.New(ctx, store, exporter.Hostname("h"), exporter.DisableExport())
	if err != nil {
		panic(err)
	}
	var sent int64
	stop := make(chan struct{})
	var bg sync.WaitGroup
	var mu sync.Mutex
	var bad []string
	note := func(s string) { mu.Lock(); bad = append(bad, s); mu.Unlock() }
	spawn := func(fn func()) {
		bg.Add(1)
		go func() {
			defer bg.Done()
			for {
				select {
				case <-stop:
					return
				default:
					fn()
				}
			}
		}()
	}
	nRe := regexp.MustCompile(`(?m)^n\{[^}]*\} (\d+)`)
	if roots["gc"] {
		spawn(func() { _ = store.Gc(); time.Sleep(50 * time.Microsecond) })
	}
	if roots["prom"] {
		var last int64 = -1
		spawn(func() {
			var b bytes.Buffer
			if err := exp.Write(&b); err != nil {
				return // duplicate-series errors during a reload are C14's business
			}
			upper := atomic.LoadInt64(&sent)
			_ = upper
			if m := nRe.FindSubmatch(b.Bytes()); m != nil {
				v, _ := strconv.ParseInt(string(m[1]), 10, 64)
				after := atomic.LoadInt64(&sent)
				if v < last || v > after {
					note(fmt.Sprintf("scrape saw n=%d; the previous scrape saw %d and only %d lines had been sent when it finished", v, last, after))
				}
				last = v
			}
		})
	}
	handler := func(h func(http.ResponseWriter, *http.Request)) func() {
		return func() {
			rec := httptest.NewRecorder()
			req := httptest.NewRequest("GET", "/x", nil)
			h(rec, req)
		}
	}
	if roots["json"] {
		spawn(handler(exp.HandleJSON))
	}
	if roots["varz"] {
		spawn(handler(exp.HandleVarz))
	}
	if roots["graphite"] {
		spawn(handler(exp.HandleGraphite))
	}
	if roots["reload"] {
		ver := 0
		spawn(func() {
			ver++
			_ = os.WriteFile(filepath.Join(dir, "p.mtail"), []byte(fmt.Sprintf(c11Prog, ver)), 0o644)
			if ver%3 == 0 && ver < 90 {
				// a program that is new to the store: its metrics are inserted under new names
				extra := fmt.Sprintf("counter extra%d\n/^(\\w+) / {\n  extra%d++\n}\n", ver, ver)
				_ = os.WriteFile(filepath.Join(dir, fmt.Sprintf("q%d.mtail", ver)), []byte(extra), 0o644)
			}
			_ = rt.LoadAllPrograms()
			time.Sleep(200 * time.Microsecond)
		})
	}
	bctx := context.Background()
	words := []string{"a", "b", "c", "d", "e", "f"}
	for i := 0; i < nLines; i++ {
		l := fmt.Sprintf("%s %d", words[rg.intn(len(words))], rg.intn(6))
		// counted before it is handed over: the line may have been processed, and scraped, before
		// the send returns
		atomic.AddInt64(&sent, 1)
		lines <- logline.New(bctx, "log", l)
	}
	close(stop)
	bg.Wait()
	close(lines)
	wg.Wait()
	cancel()
	var nFinal int64 = -1
	_ = store.Range(func(m *metrics.Metric) error {
		if m.Name == "n" && len(m.LabelValues) > 0 {
			nFinal, _ = strconv.ParseInt(m.LabelValues[0].Value.ValueString(), 10, 64)
		}
		return nil
	})
	r.obs(id, "n=%d", nFinal)
	races := newRaceReports()
	seen := map[string]bool{}
	failed := false
	for _, rc := range races {
		if !seen[rc] {
			seen[rc] = true
			r.fail(id, rc, "the race detector reported a data race between these two functions while running %s concurrently", f[1])
			failed = true
		}
	}
	if nFinal != int64(nLines) {
		r.fail(id, "lost-increment", "%d lines were processed but the counter holds %d (activities: %s)", nLines, nFinal, f[1])
		failed = true
	}
	if len(bad) > 0 {
		r.fail(id, "export-value-never-existed", "%s", strings.Join(bad, "; "))
		failed = true
	}
	if !failed {
		r.ok(id)
	}
	r.stat("lines_processed")
	for k := range roots {
		r.stat("root_" + k)
	}
}

func init() {
	props["C11"] = &propImpl{
		gen: func(g *genCtx) {
			n := 400
			if g.thorough() {
				n = 4000
			}
			all := []string{"gc", "prom", "json", "varz", "graphite", "reload"}
			for _, x := range all {
				g.emit("mix", "vm,"+x, strconv.Itoa(n), "1")
			}
			g.emit("mix", "vm,gc,prom,json,varz,graphite,reload", strconv.Itoa(2*n), "2")
			g.emit("mix", "vm,gc,reload", strconv.Itoa(2*n), "3")
			g.emit("mix", "vm,prom,json,varz,graphite", strconv.Itoa(2*n), "4")
			if g.thorough() {
				for s := 5; s < 15; s++ {
					g.emit("mix", "vm,gc,prom,json,varz,graphite,reload", strconv.Itoa(n), strconv.Itoa(s))
				}
			}
		},
		run: c11Run,
	}
}
