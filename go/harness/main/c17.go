//go:build verif

package main

import (
	"unsafe"
	"bytes"
	"context"
	"fmt"
	"net"
	"os"
	"path/filepath"
	"sort"
	"strconv"
	"strings"
	"sync"
	"syscall"
	"time"

	"github.com/google/mtail/internal/tailer/logstream"
	"github.com/google/mtail/internal/waker"
)

// C17 — pipes and sockets deliver all bytes, never splice connections, then end.
//
//   sock <kind> <ev>;<ev>;...     kind: unix | tcp | fifo | unixgram
//   events: o:<c> connect/open   w:<c>:<hex> write   x:<c> close   z cancel
// After every event the harness waits until the lines the property prescribes so far have been
// delivered (or a timeout), so the global delivery order is the event order.
// OBS: delivered lines in order, and whether the stream's output was closed at the end.

type connWriter interface {
	Write([]byte) (int, error)
	Close() error
}

// c17Expand replaces the bulk event W:<c>:<count>:<len> by <count> writes of one <len>-byte line each.
func c17Expand(evs []string) []string {
	var out []string
	for _, ev := range evs {
		p := strings.Split(ev, ":")
		if p[0] != "W" {
			out = append(out, ev)
			continue
		}
		var n, ln int
		fmt.Sscanf(p[2], "%d", &n)
		fmt.Sscanf(p[3], "%d", &ln)
		for i := 0; i < n; i++ {
			l := fmt.Sprintf("c%s-%06d ", p[1], i)
			for len(l) < ln-1 {
				l += string(rune('a' + (i+len(l))%26))
			}
			out = append(out, "w:"+p[1]+":"+hx(l+"\n"))
		}
	}
	return out
}

func c17Spec(kind string, evs []string) (lines []string, closed bool) {
	bufs := map[string][]byte{}
	open := map[string]bool{}
	wrote := map[string]bool{}
	cancelled := false
	emit := func(c string, final bool) {
		data := bufs[c]
		for {
			i := bytes.IndexByte(data, '\n')
			if i < 0 {
				break
			}
			l := data[:i]
			if len(l) > 0 && l[len(l)-1] == '\r' {
				l = l[:len(l)-1]
			}
			lines = append(lines, string(l))
			data = data[i+1:]
		}
		if final && len(data) > 0 {
			lines = append(lines, string(data))
			data = nil
		}
		bufs[c] = append([]byte(nil), data...)
	}
	for _, ev := range evs {
		p := strings.Split(ev, ":")
		if cancelled {
			continue
		}
		c := ""
		if len(p) > 1 {
			c = p[1]
		}
		if kind == "unixgram" {
			c = "0" // one shared reader; only newline-terminated datagrams are claimed
		}
		switch p[0] {
		case "o":
			open[c] = true
		case "w":
			if open[c] || kind == "unixgram" {
				bufs[c] = append(bufs[c], []byte(unhx(p[2]))...)
				wrote[c] = true
				emit(c, false)
			}
		case "x":
			if open[c] {
				if kind == "fifo" && !wrote[c] {
					continue // a pipe whose writer closes before writing anything keeps waiting
				}
				emit(c, true)
				open[c] = false
				if kind == "fifo" {
					closed = true
					cancelled = true
				}
			}
		case "z":
			for k := range open {
				if open[k] {
					emit(k, true)
				}
			}
			if kind == "unixgram" {
				emit("0", true)
			}
			cancelled, closed = true, true
		}
	}
	return
}

// groupByConn stably sorts lines by the connection tag they start with ("c<k>-").
func groupByConn(lines []string) []string {
	tagOf := func(l string) string {
		if i := strings.Index(l, "-"); i > 0 && strings.HasPrefix(l, "c") {
			return l[:i]
		}
		return ""
	}
	out := append([]string(nil), lines...)
	sort.SliceStable(out, func(a, b int) bool { return tagOf(out[a]) < tagOf(out[b]) })
	return out
}

// c17Race: a client connects, writes and closes at the very moment the stream is cancelled, many
// times over with the cancellation a few microseconds earlier or later: every round ends with the
// output closed (a handler that starts on a closed output takes the whole process down, which the
// engine reports as a crash of this case).
func c17Race(r *runCtx, id string, f []string) {
	rounds, _ := strconv.Atoi(f[2])
	rg := &rng{s: 0x5eed + uint64(rounds)}
	stuck := 0
	for k := 0; k < rounds; k++ {
		dir, err := os.MkdirTemp("", "verif-c17r")
		if err != nil {
			continue
		}
		addr := filepath.Join(dir, "s.sock")
		ctx, cancel := context.WithCancel(context.Background())
		var wg sync.WaitGroup
		ls, err := logstream.New(ctx, &wg, newHWaker(), f[1]+"://"+addr, logstream.OneShotDisabled)
		if err != nil {
			cancel()
			os.RemoveAll(dir)
			continue
		}
		closed := make(chan struct{})
		go func() {
			for range ls.Lines() {
			}
			close(closed)
		}()
		go func() {
			if c, derr := net.Dial(f[1], addr); derr == nil {
				_, _ = c.Write([]byte("hello\n"))
				c.Close()
			}
		}()
		time.Sleep(time.Duration(rg.intn(120)) * time.Microsecond)
		cancel()
		select {
		case <-closed:
		case <-time.After(5 * time.Second):
			stuck++
		}
		os.RemoveAll(dir)
	}
	r.obs(id, "race-done")
	if stuck > 0 {
		r.fail(id, "no-end", "%d of %d rounds: the output was not closed within 5 s of the cancellation", stuck, rounds)
	} else {
		r.ok(id)
	}
	r.stat("race_rounds")
}


// c17Drained reports whether the reading side has taken every byte written to c so far:
// for a Unix socket the sender's SIOCOUTQ (bytes the receiver has not consumed), for a pipe
// FIONREAD, for TCP the sender's SIOCOUTQ (unacknowledged) and the receiving socket's rx_queue in
// /proc/net/tcp.  Where that cannot be read it answers true (the caller then pauses as before).
func c17Drained(kind string, c connWriter, serverAddr string) bool {
	sc, ok := c.(interface {
		SyscallConn() (syscall.RawConn, error)
	})
	if !ok {
		return true
	}
	rc, err := sc.SyscallConn()
	if err != nil {
		return true
	}
	req := uintptr(0x5411) // SIOCOUTQ
	if kind == "fifo" {
		req = 0x541B // FIONREAD
	}
	pending := int32(0)
	if rc.Control(func(fd uintptr) {
		if _, _, e := syscall.Syscall(syscall.SYS_IOCTL, fd, req, uintptr(unsafe.Pointer(&pending))); e != 0 {
			pending = 0
		}
	}) != nil {
		return true
	}
	if pending != 0 {
		return false
	}
	if kind != "tcp" {
		return true
	}
	nc, ok := c.(net.Conn)
	if !ok {
		return true
	}
	_, lport, _ := net.SplitHostPort(nc.LocalAddr().String())
	_, sport, _ := net.SplitHostPort(serverAddr)
	lp, _ := strconv.Atoi(lport)
	sp, _ := strconv.Atoi(sport)
	b, err := os.ReadFile("/proc/net/tcp")
	if err != nil {
		return true
	}
	wantLocal, wantRem := fmt.Sprintf(":%04X", sp), fmt.Sprintf(":%04X", lp)
	for _, line := range strings.Split(string(b), "\n") {
		fs := strings.Fields(line)
		if len(fs) < 5 || !strings.HasSuffix(fs[1], wantLocal) || !strings.HasSuffix(fs[2], wantRem) {
			continue
		}
		q := strings.Split(fs[4], ":")
		if len(q) == 2 {
			if rx, err := strconv.ParseUint(q[1], 16, 64); err == nil && rx != 0 {
				return false
			}
		}
	}
	return true
}

func c17Run(r *runCtx, id string, f []string) {
	if f[0] == "race" {
		c17Race(r, id, f)
		return
	}
	kind := f[1]
	evs := c17Expand(strings.Split(f[2], ";"))
	dir, err := os.MkdirTemp("", "verif-c17")
	if err != nil {
		r.obs(id, "ENV-ERROR")
		r.fail(id, "harness", "%v", err)
		return
	}
	defer os.RemoveAll(dir)
	var url, addr, network string
	switch kind {
	case "unix":
		addr = filepath.Join(dir, "s.sock")
		url, network = "unix://"+addr, "unix"
	case "unixgram":
		addr = filepath.Join(dir, "d.sock")
		url, network = "unixgram://"+addr, "unixgram"
	case "tcp":
		l, err := net.Listen("tcp", "127.0.0.1:0")
		if err != nil {
			r.obs(id, "ENV-ERROR")
			r.ok(id)
			r.trivial(id)
			return
		}
		addr = l.Addr().String()
		l.Close()
		url, network = "tcp://"+addr, "tcp"
	case "fifo":
		addr = filepath.Join(dir, "pipe")
		if err := syscall.Mkfifo(addr, 0o600); err != nil {
			r.obs(id, "ENV-ERROR")
			r.fail(id, "harness", "%v", err)
			return
		}
		url = addr
	}
	ctx, cancel := context.WithCancel(context.Background())
	defer cancel()
	var wg sync.WaitGroup
	hw := newHWaker()
	var wk waker.Waker = hw
	ls, err := logstream.New(ctx, &wg, wk, url, logstream.OneShotDisabled)
	if err != nil {
		r.obs(id, "ENV-ERROR")
		r.fail(id, "harness", "logstream.New(%s): %v", url, err)
		return
	}
	var mu sync.Mutex
	var got []string
	closedCh := make(chan struct{})
	go func() {
		for l := range ls.Lines() {
			mu.Lock()
			got = append(got, l.Line)
			mu.Unlock()
		}
		close(closedCh)
	}()
	count := func() int { mu.Lock(); defer mu.Unlock(); return len(got) }
	conns := map[string]connWriter{}
	waitFor := func(n int) {
		deadline := time.Now().Add(2 * time.Second)
		for count() < n && time.Now().Before(deadline) {
			if kind == "fifo" || kind == "unixgram" {
				// (a datagram stream that read an empty datagram sleeps until its next poll)
				hw.wakeAll()
			}
			time.Sleep(300 * time.Microsecond)
		}
	}
	for i, ev := range evs {
		p := strings.Split(ev, ":")
		switch p[0] {
		case "o":
			if kind == "fifo" {
				fh, err := os.OpenFile(addr, os.O_WRONLY, 0)
				if err == nil {
					conns[p[1]] = fh
				}
			} else if kind != "unixgram" {
				c, err := net.DialTimeout(network, addr, 2*time.Second)
				if err == nil {
					conns[p[1]] = c
				}
			} else {
				c, err := net.Dial(network, addr)
				if err == nil {
					conns[p[1]] = c
				}
			}
		case "w":
			if c, ok := conns[p[1]]; ok {
				_, _ = c.Write([]byte(unhx(p[2])))
			}
		case "x":
			if c, ok := conns[p[1]]; ok {
				_ = c.Close()
				delete(conns, p[1])
			}
		case "z":
			// what the stream owes at its cancellation is what it has read: let it read first
			for _, c := range conns {
				deadline := time.Now().Add(2 * time.Second)
				for !c17Drained(kind, c, addr) && time.Now().Before(deadline) {
					if kind == "fifo" || kind == "unixgram" {
						hw.wakeAll()
					}
					time.Sleep(500 * time.Microsecond)
				}
			}
			cancel()
		}
		want, _ := c17Spec(kind, evs[:i+1])
		if p[0] == "w" && len(want) == count() {
			// an unterminated fragment completes no line, so there is nothing to wait for; give the
			// reader (which is blocked in Read) time to take the bytes before the next event
			if kind == "fifo" || kind == "unixgram" {
				// (a datagram stream that read an empty datagram sleeps until its next poll)
				hw.wakeAll()
			}
			// wait until the kernel says that the stream has taken every byte written so far (under
			// load a fixed pause is not enough, and bytes the stream has not read when it is
			// cancelled are not owed); a pause only where the kernel cannot be asked
			if c, ok := conns[p[1]]; ok {
				deadline := time.Now().Add(2 * time.Second)
				for !c17Drained(kind, c, addr) && time.Now().Before(deadline) {
					if kind == "fifo" || kind == "unixgram" {
						hw.wakeAll()
					}
					time.Sleep(500 * time.Microsecond)
				}
			}
			time.Sleep(8 * time.Millisecond)
		}
		waitFor(len(want))
	}
	want, wantClosed := c17Spec(kind, evs)
	closed := false
	if wantClosed {
		select {
		case <-closedCh:
			closed = true
		case <-time.After(2 * time.Second):
		}
	} else {
		select {
		case <-closedCh:
			closed = true
		case <-time.After(20 * time.Millisecond):
		}
	}
	for _, c := range conns {
		_ = c.Close()
	}
	cancel()
	mu.Lock()
	lines := append([]string(nil), got...)
	mu.Unlock()
	// the order between different connections is not prescribed (at cancellation the handlers
	// flush concurrently): compare per connection, in each connection's own order
	lines, want = groupByConn(lines), groupByConn(want)
	r.obs(id, "%s closed=%d", hxs(lines), b2i(closed))
	var bad []string
	if !eqTuple(lines, want) {
		bad = append(bad, fmt.Sprintf("delivered %s, the property requires %s", hxs(lines), hxs(want)))
	}
	if closed != wantClosed {
		bad = append(bad, fmt.Sprintf("output closed=%v, the property requires closed=%v", closed, wantClosed))
	}
	if len(bad) > 0 {
		cls := "delivery"
		if eqTuple(lines, want) {
			cls = "output-not-closed"
			anyConn := false
			for _, ev := range evs {
				if strings.HasPrefix(ev, "o:") {
					anyConn = true
				}
			}
			if !anyConn && (kind == "unix" || kind == "tcp") {
				cls = "cancel-before-first-connection"
			}
		}
		r.fail(id, cls, "%s %s: %s", kind, f[2], strings.Join(bad, "; "))
	} else {
		r.ok(id)
	}
	if len(want) == 0 && !wantClosed {
		r.trivial(id)
	}
	r.stat("kind_" + kind)
}

func init() {
	props["C17"] = &propImpl{
		gen: func(g *genCtx) {
			// connections that arrive while the stream is being cancelled
			for _, n := range []int{300, 301, 302} {
				g.emit("race", "unix", strconv.Itoa(n))
			}
			for _, kind := range []string{"unix", "tcp", "fifo", "unixgram"} {
				// systematic small schedules
				g.emit("sock", kind, "z")
				g.emit("sock", kind, "o:1;z")
				g.emit("sock", kind, "o:1;w:1:"+hx("a\nb")+";x:1;z")
				g.emit("sock", kind, "o:1;w:1:"+hx("a\r\nfrag")+";z")
				g.emit("sock", kind, "o:1;x:1;z")
				// a CR and its LF that arrive in different reads, a CR that is followed by another CR, a
				// lone LF as the first byte of a read
				if kind != "unixgram" {
					g.emit("sock", kind, "o:1;w:1:"+hx("alpha\r")+";w:1:"+hx("\nbravo\r")+";w:1:"+hx("\n")+";w:1:"+hx("c\r\r")+";w:1:"+hx("\ndelta")+";w:1:"+hx("\r\n\nend\n")+";x:1;z")
					g.emit("sock", kind, "o:1;w:1:"+hx("one\r")+";w:1:"+hx("\n")+";x:1;z")
				}
				// an empty write (for a datagram socket: an empty datagram) is not the end of anything
				g.emit("sock", kind, "o:1;w:1:"+hx("a\n")+";w:1:-;w:1:"+hx("b\n")+";w:1:-;w:1:-;w:1:"+hx("c\n")+";x:1;z")
				if kind == "unix" || kind == "tcp" {
					g.emit("sock", kind, "o:1;o:2;w:1:"+hx("c1-x")+";w:2:"+hx("c2-y\n")+";w:1:"+hx("z\n")+";x:2;x:1;z")
					g.emit("sock", kind, "o:1;w:1:"+hx("c1-p")+";o:2;w:2:"+hx("c2-q")+";x:1;x:2;z")
				}
			}
			// sustained traffic: more bytes in total than any buffer of the readers holds (128 KiB),
			// in messages of a size that does not divide it
			for _, kind := range []string{"unix", "tcp", "fifo", "unixgram"} {
				g.emit("sock", kind, "o:1;W:1:1500:100;x:1;z")
				if g.thorough() {
					g.emit("sock", kind, "o:1;W:1:700:333;w:1:"+hx("c1-tail\n")+";W:1:900:77;x:1;z")
				}
			}
			n := 40
			if g.thorough() {
				n = 600
			}
			for i := 0; i < n; i++ {
				kind := []string{"unix", "tcp", "fifo", "unixgram"}[g.r.intn(4)]
				nc := 1 + g.r.intn(4)
				if kind == "fifo" {
					nc = 1
				}
				var evs []string
				opened := map[int]bool{}
				closed := map[int]bool{}
				ln := 3 + g.r.intn(16)
				seq := 0
				for j := 0; j < ln; j++ {
					c := 1 + g.r.intn(nc)
					switch {
					case !opened[c] && !closed[c]:
						evs = append(evs, fmt.Sprintf("o:%d", c))
						opened[c] = true
					case opened[c] && g.r.chance(1, 7):
						evs = append(evs, fmt.Sprintf("x:%d", c))
						opened[c] = false
						closed[c] = true
					case opened[c]:
						seq++
						var sb strings.Builder
						k := 1 + g.r.intn(3)
						for q := 0; q < k; q++ {
							sb.WriteString(fmt.Sprintf("c%d-%d.%d", c, seq, q))
							if kind == "unixgram" || q < k-1 || g.r.chance(2, 3) {
								if g.r.chance(1, 5) {
									sb.WriteString("\r")
								}
								sb.WriteString("\n")
							}
						}
						evs = append(evs, fmt.Sprintf("w:%d:%s", c, hx(sb.String())))
					}
					if kind == "fifo" && closed[1] {
						break
					}
					if g.r.chance(1, 25) {
						break
					}
				}
				if kind != "fifo" || !closed[1] || g.r.chance(1, 2) {
					evs = append(evs, "z")
				}
				g.emit("sock", kind, strings.Join(evs, ";"))
			}
		},
		run: c17Run,
	}
}
