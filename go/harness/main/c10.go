//go:build verif

package main

import (
	"fmt"
	"sync"
	"sync/atomic"
	"sort"
	"strconv"
	"strings"
	"time"

	"github.com/google/mtail/internal/metrics"
	"github.com/google/mtail/internal/metrics/datum"
)

// C10 — garbage collection removes exactly the expired and over-limit data.
//
// case:  gc <limit> <op>;<op>;...
//   g:<labels>                 GetDatum (datum stamped with the wall clock)
//   s:<labels>:<n>:<offMs>     GetDatum, set value n with timestamp = start-of-case + offMs
//   x:<labels>:<expMs>         ExpireDatum
//   r:<labels>                 RemoveDatum
// then Store.Gc() on a store that also holds an untouched bystander metric.
// case:  gcrace <n> <rounds>
//   a metric of n label sets, one of them expired; Store.Gc() runs while a line processor deletes
//   that label set and creates it anew, over and over.  A datum the processor created is stamped
//   now and has no expiry: no GC may take it, under any schedule.  (PRED only.)
// The generator keeps every deadline at least 2 s away from the GC instant (guard band), so the
// few microseconds between building the store and Gc()'s own time.Now() cannot matter.

type c10Entry struct {
	labels []string
	val    int64
	offMs  int64 // 0 for wall-clock stamped
	expMs  int64
	seq    int
}


// c10Race: see the header.  Returns the number of rounds in which a datum the line processor had
// just created (no expiry, stamped now) was gone before the processor itself removed it.
func c10Race(n, rounds int) (int, int, string) {
	lost, overlapped := 0, 0
	first := ""
	for round := 0; round < rounds && lost == 0; round++ {
		s := metrics.NewStore()
		m := metrics.NewMetric("m", "p", metrics.Gauge, metrics.Int, "k")
		old := time.Now().Add(-time.Hour)
		// the victim sits at the front or at the back of the scan, in turn
		names := make([]string, 0, n+1)
		for j := 0; j < n; j++ {
			names = append(names, "v"+strconv.Itoa(j))
		}
		if round%2 == 0 {
			names = append([]string{"victim"}, names...)
		} else {
			names = append(names, "victim")
		}
		for _, nm := range names {
			d, _ := m.GetDatum(nm)
			datum.SetInt(d, 1, old)
		}
		_ = m.ExpireDatum(time.Second, "victim")
		_ = s.Add(m)
		var gcRunning, stop atomic.Bool
		var wg sync.WaitGroup
		wg.Add(1)
		sawGc := false
		go func() {
			defer wg.Done()
			mine := false // the processor created the present datum
			for i := 0; !stop.Load(); i++ {
				if mine {
					m.RLock()
					present := m.FindLabelValueOrNil([]string{"victim"}) != nil
					m.RUnlock()
					if !present {
						lost++
						if first == "" {
							first = fmt.Sprintf("round %d (n=%d), iteration %d: the label set the line processor had just created (no expiry, stamped now) was collected", round, n, i)
						}
						return
					}
				}
				if gcRunning.Load() {
					sawGc = true
				}
				_ = m.RemoveDatum("victim")
				d, err := m.GetDatum("victim")
				if err != nil {
					return
				}
				datum.SetInt(d, int64(i), time.Now())
				mine = true
			}
		}()
		time.Sleep(time.Duration(50+round%7*30) * time.Microsecond)
		gcRunning.Store(true)
		_ = s.Gc()
		gcRunning.Store(false)
		time.Sleep(100 * time.Microsecond)
		stop.Store(true)
		wg.Wait()
		if sawGc {
			overlapped++
		}
	}
	return lost, overlapped, first
}

func c10Run(r *runCtx, id string, f []string) {
	if f[0] == "gcrace" {
		n, _ := strconv.Atoi(f[1])
		rounds, _ := strconv.Atoi(f[2])
		lost, overlapped, first := c10Race(n, rounds)
		r.stat("gcrace")
		if overlapped > 0 {
			r.stat("gcrace_overlapped")
		}
		r.obs(id, "-")
		if lost > 0 {
			r.replay(id, f...)
			r.fail(id, "gc-takes-unexpired", "%s", first)
		} else {
			r.ok(id)
		}
		if overlapped == 0 {
			r.trivial(id)
		}
		return
	}
	limit, _ := strconv.Atoi(f[1])
	var ops []string
	if len(f) > 2 && f[2] != "." {
		ops = strings.Split(f[2], ";")
	}
	now0 := time.Now()
	m := metrics.NewMetric("m", "p", metrics.Gauge, metrics.Int, "k")
	m.Limit = limit
	other := metrics.NewMetric("other", "p", metrics.Counter, metrics.Int, "k")
	for i := 0; i < 3; i++ {
		d, _ := other.GetDatum(strconv.Itoa(i))
		datum.SetInt(d, int64(i), now0.Add(-100*time.Hour))
	}
	var ref []c10Entry
	find := func(l []string) int {
		for i := range ref {
			if eqTuple(ref[i].labels, l) {
				return i
			}
		}
		return -1
	}
	for _, op := range ops {
		p := strings.Split(op, ":")
		labels := unhxs(p[1])
		switch p[0] {
		case "g", "s":
			d, err := m.GetDatum(labels...)
			if err != nil {
				continue
			}
			j := find(labels)
			if j < 0 {
				ref = append(ref, c10Entry{labels: labels})
				j = len(ref) - 1
			}
			if p[0] == "s" {
				n, _ := strconv.ParseInt(p[2], 10, 64)
				off, _ := strconv.ParseInt(p[3], 10, 64)
				datum.SetInt(d, n, now0.Add(time.Duration(off)*time.Millisecond))
				ref[j].val, ref[j].offMs = n, off
			}
		case "x":
			exp, _ := strconv.ParseInt(p[2], 10, 64)
			if err := m.ExpireDatum(time.Duration(exp)*time.Millisecond, labels...); err == nil {
				if j := find(labels); j >= 0 {
					ref[j].expMs = exp
				}
			}
		case "r":
			if err := m.RemoveDatum(labels...); err == nil {
				if j := find(labels); j >= 0 {
					ref = append(ref[:j:j], ref[j+1:]...)
				}
			}
		}
	}
	s := metrics.NewStore()
	_ = s.Add(m)
	_ = s.Add(other)
	// two more bystanders, named so that the pass meets one before and one after `m` whatever its
	// order, holding the very label tuples the history used, old and never marked for expiry:
	// what is collected from one metric is collected from that metric only
	var twins []*metrics.Metric
	for _, nm := range []string{"a-twin", "z-twin"} {
		tw := metrics.NewMetric(nm, "p", metrics.Gauge, metrics.Int, "k")
		for _, op := range ops {
			q := strings.Split(op, ":")
			if len(q) > 1 {
				d, _ := tw.GetDatum(unhxs(q[1])...)
				datum.SetInt(d, 7, now0.Add(-100*time.Hour))
			}
		}
		_ = s.Add(tw)
		twins = append(twins, tw)
	}
	twinBefore := 0
	for _, tw := range twins {
		twinBefore += len(tw.LabelValues)
	}
	before := len(m.LabelValues)
	// every third case: a reader (an export, say) holds the metric when the pass reaches it and
	// lets go a little later; the pass waits, it does not skip the metric
	vmCaseCounter++
	if vmCaseCounter%3 == 0 {
		held := make(chan struct{})
		go func() {
			m.RLock()
			close(held)
			time.Sleep(15 * time.Millisecond)
			m.RUnlock()
		}()
		<-held
	}
	err := s.Gc()
	// observation
	var dump []string
	agree := 1
	for _, lv := range m.LabelValues {
		dump = append(dump, fmt.Sprintf("%s=%d/x%d", hxs(lv.Labels), datum.GetInt(lv.Value), int64(lv.Expiry/time.Millisecond)))
		if m.FindLabelValueOrNil(lv.Labels) != lv {
			agree = 0
		}
	}
	errS := "ok"
	if err != nil {
		errS = "err"
	}
	r.obs(id, "%s %s idx=%d agree=%d other=%d", errS, strings.Join(dump, "|"), len(m.VerifIndex()), agree, len(other.LabelValues))
	// the property, in its own words (tolerant of how ties in age are broken)
	for i := range ref {
		ref[i].seq = i
	}
	isExpired := func(e c10Entry) bool { return e.expMs > 0 && -e.offMs > e.expMs }
	present := map[string]string{}
	var order []string
	for _, lv := range m.LabelValues {
		present[hxs(lv.Labels)] = fmt.Sprintf("%d/x%d", datum.GetInt(lv.Value), int64(lv.Expiry/time.Millisecond))
		order = append(order, hxs(lv.Labels))
	}
	var bad []string
	need := 0
	if limit > 0 && len(ref) > limit {
		need = len(ref) - limit
	}
	var T int64
	if need > 0 {
		ts := make([]int64, len(ref))
		for i, e := range ref {
			ts[i] = e.offMs
		}
		sort.Slice(ts, func(a, b int) bool { return ts[a] < ts[b] })
		T = ts[need-1]
	}
	older, tiedExpired, tiedLiveAbsent := 0, 0, 0
	var wantOrder []string
	for _, e := range ref {
		k := hxs(e.labels)
		v, here := present[k]
		if here {
			wantOrder = append(wantOrder, k)
			if v != fmt.Sprintf("%d/x%d", e.val, e.expMs) {
				bad = append(bad, fmt.Sprintf("survivor %s changed to %s", k, v))
			}
			if isExpired(e) {
				bad = append(bad, fmt.Sprintf("%s is expired (age %d ms > expiry %d ms) but was kept", k, -e.offMs, e.expMs))
			}
			if need > 0 && e.offMs < T {
				bad = append(bad, fmt.Sprintf("%s is older than a datum removed for the limit but was kept", k))
			}
			continue
		}
		switch {
		case need > 0 && e.offMs < T:
			older++
		case need > 0 && e.offMs == T:
			if isExpired(e) {
				tiedExpired++
			} else {
				tiedLiveAbsent++
			}
		default:
			if !isExpired(e) {
				bad = append(bad, fmt.Sprintf("%s (age %d ms, expiry %d ms) is neither expired nor among the %d oldest but was removed", k, -e.offMs, e.expMs, need))
			}
		}
	}
	if need > 0 {
		c := need - older // removals that must come from the tie group
		if tiedLiveAbsent > c || c-tiedLiveAbsent > tiedExpired+0 && c-tiedLiveAbsent > 0 && tiedExpired < c-tiedLiveAbsent {
			bad = append(bad, fmt.Sprintf("limit %d: %d non-expired data of the boundary age are missing, at most %d may be removed for the limit", limit, tiedLiveAbsent, c))
		}
	}
	if strings.Join(order, ",") != strings.Join(wantOrder, ",") {
		bad = append(bad, "survivors reordered or unknown label sets present")
	}
	if len(order) != len(wantOrder) {
		bad = append(bad, "label sets present that were never created")
	}
	got := strings.Join(dump, "|")
	twinAfter := 0
	for _, tw := range twins {
		twinAfter += len(tw.LabelValues)
	}
	if twinAfter != twinBefore {
		bad = append(bad, fmt.Sprintf("two metrics with the same label tuples, never marked, held %d data before the pass and %d after", twinBefore, twinAfter))
	}
	if len(bad) > 0 || err != nil || len(other.LabelValues) != 3 || agree != 1 || len(m.VerifIndex()) != len(m.LabelValues) {
		r.fail(id, "gc-survivors", "limit %d ops %s: after Gc `%s` (err=%v other=%d agree=%d): %s", limit, f[2], got, err, len(other.LabelValues), agree, strings.Join(bad, "; "))
	} else {
		r.ok(id)
	}
	if before == len(m.LabelValues) {
		r.stat("gc_removed_nothing")
	} else {
		r.stat("gc_removed_some")
	}
	if limit > 0 && before > limit {
		r.stat("over_limit")
	}
	if len(ops) < 2 {
		r.trivial(id)
	}
}

func init() {
	props["C10"] = &propImpl{
		gen: func(g *genCtx) {
			for _, n := range []int{0, 50, 2000, 20000} {
				rounds := 20
				if g.thorough() {
					rounds = 200
				}
				g.emit("gcrace", strconv.Itoa(n), strconv.Itoa(rounds))
			}
			tuples := []string{hxs([]string{"a"}), hxs([]string{"b"}), hxs([]string{"-"}), hxs([]string{"c\\"}), hxs([]string{"d"}), hxs([]string{""})}
			offs := []int64{-3600000, -60000, -10000, -5000, -2000, 2000, 60000}
			exps := []int64{0, -1000, 1000, 7000, 30000, 7200000}
			pickOffExp := func() (int64, int64) {
				for {
					o, e := offs[g.r.intn(len(offs))], exps[g.r.intn(len(exps))]
					if e <= 0 || abs64(-o-e) >= 2000 {
						return o, e
					}
				}
			}
			// exhaustive small scope: 3 tuples, each with (offset, expiry) from a 3x3 grid, limits 0..3
			so := []int64{-10000, -5000, 2000}
			se := []int64{0, 3000, 7000}
			for limit := 0; limit <= 3; limit++ {
				for a := 0; a < 9; a++ {
					for b := 0; b < 9; b++ {
						for c := 0; c < 9; c++ {
							if !g.thorough() && (a+b+c)%3 != limit%3 {
								continue
							}
							var ops []string
							for i, k := range []int{a, b, c} {
								ops = append(ops, fmt.Sprintf("s:%s:%d:%d", tuples[i], i+1, so[k/3]))
								if se[k%3] != 0 {
									ops = append(ops, fmt.Sprintf("x:%s:%d", tuples[i], se[k%3]))
								}
							}
							g.emit("gc", strconv.Itoa(limit), strings.Join(ops, ";"))
						}
					}
				}
			}
			n := 1200
			if g.thorough() {
				n = 30000
			}
			for i := 0; i < n; i++ {
				ln := 1 + g.r.intn(25)
				var ops []string
				for j := 0; j < ln; j++ {
					t := tuples[g.r.intn(len(tuples))]
					switch g.r.intn(8) {
					case 0:
						ops = append(ops, "g:"+t)
					case 1, 2, 3, 4:
						o, _ := pickOffExp()
						ops = append(ops, fmt.Sprintf("s:%s:%d:%d", t, g.r.intn(100), o))
					case 5, 6:
						// expiry consistent with the guard band for whatever offset this tuple has
						// now is arranged by choosing expiries far from every offset in `offs`
						_, e := pickOffExp()
						ok := true
						for _, o := range offs {
							if e > 0 && abs64(-o-e) < 2000 {
								ok = false
							}
						}
						if e > 0 && e < 2000 {
							ok = false // wall-clock stamped data are ~0 s old
						}
						if ok {
							ops = append(ops, fmt.Sprintf("x:%s:%d", t, e))
						}
					case 7:
						ops = append(ops, "r:"+t)
					}
				}
				if len(ops) == 0 {
					ops = []string{"g:" + tuples[0]}
				}
				g.emit("gc", strconv.Itoa(g.r.intn(6)), strings.Join(ops, ";"))
			}
		},
		run: c10Run,
	}
}

func abs64(x int64) int64 {
	if x < 0 {
		return -x
	}
	return x
}
