//go:build verif

package main

import (
	"fmt"
	"regexp"
	"strings"
	"time"

)

// C04 — accepted programs never fault inside the VM.
//
//   vm <flags> <program source, hex> <lines, hex tuple>
//
// OBS (real compiler + VM) and MOBS (Lean VM model on the same bytecode, relayed from the model
// server) are compared line by line: outcome class and full metric store after every line.
// PRED: (1) the verified bytecode verifier accepts the compiler's output; (2) no line ends in an
// internal fault (panic, unexpected operand representation, bad index).

func faultClass(raw string) string {
	first := raw
	if i := strings.Index(raw, "\n"); i >= 0 {
		first = raw[:i]
	}
	first = regexp.MustCompile(`"[^"]*"|%!q\([^)]*\)|&\{[^}]*\}|\[[^\]]*\]|0x[0-9a-f]+`).ReplaceAllString(first, "")
	if strings.HasPrefix(first, "panic in thread") {
		if i := strings.LastIndex(first, " at instr "); i >= 0 {
			rest := first[i+10:]
			if j := strings.Index(rest, ": "); j >= 0 {
				first = "panic " + rest[j+2:]
			}
		}
	}
	w := strings.Fields(first)
	if len(w) > 6 {
		w = w[:6]
	}
	s := strings.Join(w, "-")
	s = regexp.MustCompile(`[^A-Za-z0-9_-]`).ReplaceAllString(s, "")
	return "vm-fault:" + s
}

func parseFlags(flags string) (year bool, loc *time.Location) {
	if flags == "-" {
		return false, nil
	}
	for _, p := range strings.Split(flags, "+") {
		switch {
		case p == "y":
			year = true
		case strings.HasPrefix(p, "z"):
			if l, err := time.LoadLocation(p[1:]); err == nil {
				loc = l
			}
		}
	}
	return
}

var vmCaseCounter int

func c04Run(r *runCtx, id string, f []string) {
	src := unhx(f[2])
	lines := unhxs(f[3])
	year, loc := parseFlags(f[1])
	vmCaseCounter++
	name := fmt.Sprintf("vmcase%d.mtail", vmCaseCounter)
	u, err := newVMUnderTest(name, src, year, loc)
	if err != nil {
		r.obs(id, "rejected")
		fmt.Fprintf(r.w, "%s MOBS rejected\n", id)
		r.ok(id)
		r.trivial(id)
		r.stat("programs_rejected_by_compiler")
		return
	}
	r.stat("programs_accepted")
	r.stat(fmt.Sprintf("bytecode_len_%s", bucketLen(len(u.obj.Program))))
	for _, in := range u.obj.Program {
		r.stat("op_" + in.Opcode.String())
	}
	m := getModel()
	modelOK := m != nil
	if modelOK {
		if e := u.loadIntoModel(m); e != "" {
			r.obs(id, "loaded")
			fmt.Fprintf(r.w, "%s MOBS %s\n", id, strings.ReplaceAll(e, "\n", " "))
			modelOK = false
		} else {
			r.obs(id, "loaded")
			fmt.Fprintf(r.w, "%s MOBS loaded\n", id)
		}
	}
	failed := false
	if modelOK {
		v := m.ask("V")
		if v != "V ok" {
			ff := strings.Fields(v)
			why := "unknown"
			if len(ff) >= 4 {
				why = ff[3]
			}
			cls := "verifier-reject:" + why
			r.fail(id, cls, "the bytecode verifier rejects the compiler's output for this accepted program at pc %s (%s); program: %q", ff[2], why, src)
			r.stat("verifier_rejects")
			failed = true
		} else {
			r.stat("verifier_accepts")
		}
	}
	faultSeen := map[string]bool{}
	for i, l := range lines {
		cls, raw := u.runLine("log", l)
		st := encStore(u.obj.Metrics, u.since)
		r.obs(id, "%d %s %s", i, cls, st)
		r.stat("outcome_" + cls)
		if modelOK {
			mo, ms, _ := u.modelLine(m, "log", l)
			fmt.Fprintf(r.w, "%s MOBS %d %s %s\n", id, i, mo, ms)
		}
		if cls == "fault" {
			fc := faultClass(raw)
			if !faultSeen[fc] {
				faultSeen[fc] = true
				first := raw
				if j := strings.Index(raw, "\n"); j >= 0 {
					first = raw[:j]
				}
				r.fail(id, fc, "line %q makes the accepted program fault inside the VM: %s; program: %q", l, first, src)
				failed = true
			}
		}
	}
	if !failed {
		r.ok(id)
	}
}

func bucketLen(n int) string {
	switch {
	case n <= 10:
		return "le10"
	case n <= 40:
		return "le40"
	case n <= 160:
		return "le160"
	}
	return "gt160"
}

func vmGenCases(g *genCtx, nRandom int, exampleLines int) []vmCase {
	var cs []vmCase
	for _, p := range vmHandPrograms {
		cs = append(cs, vmCase{"-", p, vmStdLines})
	}
	cs = append(cs, vmExampleCases(exampleLines)...)
	for i := 0; i < nRandom; i++ {
		cs = append(cs, vmCase{"-", genProgram(g.r), genLines(g.r, 10)})
	}
	return cs
}

func init() {
	props["C04"] = &propImpl{
		gen: func(g *genCtx) {
			n := 250
			ex := 25
			if g.thorough() {
				n, ex = 4000, 200
			}
			for _, c := range vmGenCases(g, n, ex) {
				g.emit(c.fields()...)
			}
			// programs that once faulted (repaired): a histogram counted up or down or read for its value,
			// non-string first arguments of strptime, a pattern constant among values
			for _, p := range []string{
				"histogram h buckets 1, 2\n/x/ {\n  h++\n}\n",
				"histogram h buckets 1, 2\n/(\\d+)/ {\n  h += $1\n}\n",
				"histogram h by k buckets 1, 2\n/(\\w+)/ {\n  h[$1]--\n}\n",
				"histogram h buckets 1, 2\ncounter c\n/x/ {\n  h > 5 {\n    c++\n  }\n}\n",
				"histogram h buckets 1, 2\ngauge g\n/(\\d+)/ {\n  h = $1\n  g = h\n}\n",
				"histogram h by k buckets 1, 2\ngauge g\n/(\\d+) (\\w+)/ {\n  h[$2] = $1\n  g = h[$2] + 1\n}\n",
				"counter c\nconst FOO /x/\nFOO == (1 < 2) {\n  c++\n}\n",
				"counter c by k\nconst FOO /x/\n/x/ {\n  c[FOO]++\n}\n",
				"counter c\nconst FOO /x/\n/(\\d+)/ {\n  $1 > FOO {\n    c++\n  }\n}\n",
				"counter c\n/(\\d+)/ {\n  strptime(len($1), \"2006\")\n  c++\n}\n",
				"counter c\n/(\\d+\\.\\d+)/ {\n  strptime($1 * 2.0, \"2006\")\n  c++\n}\n",
				"counter c\ngauge g\n/(\\d+)/ {\n  g = $1\n  strptime(g, \"2006\")\n  c++\n}\n",
				// ... and the second round: a pattern as the argument of a builtin, a call that returns
				// nothing as an index key, as an argument, as the text of a match
				"counter x by k\n/foo/ {\n  x[settime(3)]++\n}\n",
				"counter c\nlen(/foo/) > 0 {\n  c++\n}\n",
				"gauge g\n/foo/ {\n  g = strtol(/foo/, 10)\n}\n",
				"counter c\n/foo/ && bool(settime(1)) {\n  c++\n}\n",
				"counter c\n/foo/ {\n  settime(1) =~ /x/ {\n    c++\n  }\n}\n",
			} {
				g.emit(vmCase{"-", p, []string{"2020", "20.5", "x", "1999", "foo"}}.fields()...)
			}
			// conditions whose value is neither a comparison nor a match: a float, a string or a length
			// under `||` and `&&` (the jump instructions see values of every representation)
			for _, p := range []string{
				"counter c\n/^(\\w+) procs=(\\d+) load=(\\d+\\.\\d+)$/ {\n  $2 > 100 || $3 {\n    c++\n  }\n}\n",
				"counter c\n/^(\\w+) procs=(\\d+) load=(\\d+\\.\\d+)$/ {\n  $2 > 100 && $1 {\n    c++\n  }\n}\n",
				"counter c\n/^(\\w+) procs=(\\d+) load=(\\d+\\.\\d+)$/ {\n  $1 && len($1) {\n    c++\n  }\n}\n",
				"counter c\n/^(\\w+) procs=(\\d+) load=(\\d+\\.\\d+)$/ {\n  $3 || $2 {\n    c++\n  }\n}\n",
				"counter c\n/^(\\w+) procs=(\\d+) load=(\\d+\\.\\d+)$/ {\n  len($1) > 3 || strtol($2, 10) {\n    c++\n  }\n}\n",
				"counter c\n/^(\\w+) procs=(\\d+) load=(\\d+\\.\\d+)$/ {\n  $2 {\n    c++\n  }\n}\n",
				"counter c\n/^(\\w*) procs/ && len($1) && 1 {\n  c++\n}\n",
				"counter c\n/^(\\w*) procs/ && (len($1) || 0) {\n  c++\n}\n",
			} {
				g.emit(vmCase{"-", p, []string{"web1 procs=240 load=0.5", "web2 procs=12 load=1.5", "w procs=0 load=0.0", "nomatch", " procs=1 load=0.1"}}.fields()...)
			}
			// a histogram observes whatever number arrives, NaN and the infinities included
			for _, p := range []string{
				"histogram h buckets 1, 2, 4\n/^v (\\S+)$/ {\n  h = $1\n}\n",
				"histogram h by k buckets 0.5, 1\n/^(\\w+) (\\d+\\.\\d+) (\\d+\\.\\d+)$/ {\n  h[$1] = $2 / $3\n}\n",
				"histogram h buckets 1, 2, 4, 8, 16, 32, 64, 128, 256, 512, 1024, 2048, 4096, 8192, 16384, 32768, 65536\n/^v (\\S+)$/ {\n  h = $1\n}\n",
			} {
				g.emit(vmCase{"-", p, []string{"v NaN", "v nan", "v +Inf", "v -Inf", "v 3", "cache 0.0 0.0", "cache 1.0 0.0", "cache 0.0 1.0", "v 1e999", "v x"}}.fields()...)
			}
			// every expression that has no value (a pattern, a pattern constant, a call that returns
			// nothing) in every place that takes a value: each argument of each builtin, an index key,
			// the text of a match, an operand, an assigned value
			type bi struct {
				name string
				args []string
				ret  byte
			}
			builtins := []bi{{"int", []string{"$1"}, 'i'}, {"bool", []string{"$1"}, 'b'}, {"float", []string{"$1"}, 'i'}, {"string", []string{"$1"}, 's'},
				{"len", []string{"$1"}, 'i'}, {"settime", []string{"$1"}, 'n'}, {"strptime", []string{"\"2006\"", "\"2006\""}, 'n'},
				{"strtol", []string{"$1", "10"}, 'i'}, {"tolower", []string{"$1"}, 's'}, {"subst", []string{"\"0\"", "\"1\"", "$1"}, 's'}}
			valueless := []string{"/x/", "FOO", "settime(1)", "strptime(\"2006\", \"2006\")", "FOO + /y/"}
			head := "const FOO /o+/\ngauge g\ntext t\ncounter c by k\n/(\\d+)/ {\n  "
			for _, v := range valueless {
				for _, f := range builtins {
					for i := range f.args {
						args := append([]string{}, f.args...)
						args[i] = v
						call := f.name + "(" + strings.Join(args, ", ") + ")"
						use := map[byte]string{'i': "g = " + call, 's': "t = " + call, 'n': call, 'b': "$1 > 0 && " + call + " {\n    g = 1\n  }"}[f.ret]
						g.emit(vmCase{"-", head + use + "\n}\n", []string{"2020", "7", "x"}}.fields()...)
					}
				}
				for _, use := range []string{"c[" + v + "]++", "del c[" + v + "]", "c[$1] = " + v, "g = 1 + " + v, v + " =~ /2/ {\n    g = 2\n  }", v + " !~ /2/ {\n    g = 3\n  }",
					"$1 =~ " + v + " {\n    g = 4\n  }", v + " > 1 {\n    g = 5\n  }", v + " {\n    g = 6\n  }", "g = " + v, "t = " + v, v + " || $1 > 3 {\n    g = 7\n  }", "del c[$1] after " + v,
					// under the unary operator, and as the text of a match where the capture-group
					// clash that rejects it elsewhere is switched off
					"~" + v + " {\n    g = 8\n  }", "g = ~" + v, "$1 > 0 && ~" + v + " {\n    g = 9\n  }",
					"t = subst(\"a\", \"b\", " + v + " =~ /y/)", "t = subst(/a/, \"b\", " + v + " !~ /y/)"} {
					g.emit(vmCase{"-", head + use + "\n}\n", []string{"2020", "7", "x"}}.fields()...)
				}
			}
			// strings whose type is inferred (a dimensioned text metric, a builtin's result), compared
			// with strings that look like numbers and with ones that do not
			shead := "counter c\ntext tt by k\ntext t\n/^(\\S+) (\\S+)$/ {\n  tt[$1] = $1\n  t = $2\n  "
			for _, cmp := range []string{"tt[$1] == $2", "tt[$1] != $2", "tt[$1] < $2", "tolower($1) == \"1\"", "tolower($1) == $2", "subst(\"a\", \"b\", $1) >= $2",
				"tt[$1] == t", "t == tolower($2)", "tt[$1] == tt[$1]"} {
				g.emit(vmCase{"-", shead + cmp + " {\n    c++\n  }\n}\n", []string{"5 abc", "1.0 1", "abc 5", "1 1.0", "x x", "07 7"}}.fields()...)
			}
		},
		run: c04Run,
		finish: func(r *runCtx) {
			if theModel != nil {
				for k, v := range theModel.asked {
					r.stats["oracle_"+k] += v
				}
				_, _ = theModel.in.Write([]byte("Q\n"))
			}
		},
	}
}
