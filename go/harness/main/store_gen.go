//go:build verif

package main

import (
	"fmt"
	"math"
	"strconv"
	"strings"
	"time"

	"github.com/google/mtail/internal/metrics"
	"github.com/google/mtail/internal/metrics/datum"
)

// A store description shared by the exporter properties (C13, C22).
//
//   metric := hx(name)~hx(prog)~kind~type~hxs(keys)~hx(source)~ls|ls|...
//   ls     := hxs(labels)^valspec^timeNs
//   valspec: i<dec>/<float bits of float64(dec)> | f<bits> | s<hex> | b<min:max,...>/<observed bits,...>
// metrics are joined by ';'.

type sLabelSet struct {
	labels []string
	kind   byte // i f s b
	i      int64
	f      float64
	s      string
	ranges []datum.Range
	obs    []float64
	tNs    int64
}

type sMetric struct {
	name, prog string
	kind       metrics.Kind
	typ        metrics.Type
	keys       []string
	source     string
	lsets      []sLabelSet
}

func (l sLabelSet) encode() string {
	var v string
	switch l.kind {
	case 'i':
		v = fmt.Sprintf("i%d/%s", l.i, fbits(float64(l.i)))
	case 'f':
		v = "f" + fbits(l.f)
	case 's':
		v = "s" + hx(l.s)
	case 'b':
		var rs []string
		for _, r := range l.ranges {
			rs = append(rs, fbits(r.Min)+":"+fbits(r.Max))
		}
		rr := strings.Join(rs, ",")
		if rr == "" {
			rr = "."
		}
		v = "b" + rr + "/" + fbitsList(l.obs)
	}
	return hxs(l.labels) + "^" + v + "^" + strconv.FormatInt(l.tNs, 10) + "^" + hxs(l.oracle())
}

// oracle lists the strings Go's fmt produces for this datum, computed here directly (not
// through mtail): ValueString, then for Buckets the bin name of every bucket in slice order.
func (l sLabelSet) oracle() []string {
	switch l.kind {
	case 'i':
		return []string{fmt.Sprintf("%d", l.i)}
	case 'f':
		return []string{fmt.Sprintf("%g", l.f)}
	case 's':
		return []string{l.s}
	case 'b':
		sum := 0.0
		for _, v := range l.obs {
			sum += v
		}
		o := []string{fmt.Sprintf("%g", sum)}
		seenInf := false
		highest := 0.0
		for _, r := range l.ranges {
			if math.IsInf(r.Max, 1) {
				seenInf = true
				o = append(o, "inf")
			} else {
				if r.Max > highest {
					highest = r.Max
				}
				o = append(o, fmt.Sprintf("%v", r.Max))
			}
		}
		if !seenInf {
			o = append(o, "inf")
		}
		return o
	}
	return nil
}

func (m sMetric) encode() string {
	ls := make([]string, len(m.lsets))
	for i, l := range m.lsets {
		ls[i] = l.encode()
	}
	lss := strings.Join(ls, "|")
	if lss == "" {
		lss = "."
	}
	return strings.Join([]string{hx(m.name), hx(m.prog), strconv.Itoa(int(m.kind)), strconv.Itoa(int(m.typ)), hxs(m.keys), hx(m.source), lss}, "~")
}

func encodeStore(ms []sMetric) string {
	if len(ms) == 0 {
		return "."
	}
	o := make([]string, len(ms))
	for i, m := range ms {
		o[i] = m.encode()
	}
	return strings.Join(o, ";")
}

func decodeStore(s string) []sMetric {
	if s == "." || s == "" {
		return nil
	}
	var out []sMetric
	for _, ms := range strings.Split(s, ";") {
		p := strings.Split(ms, "~")
		k, _ := strconv.Atoi(p[2])
		t, _ := strconv.Atoi(p[3])
		m := sMetric{name: unhx(p[0]), prog: unhx(p[1]), kind: metrics.Kind(k), typ: metrics.Type(t), keys: unhxs(p[4]), source: unhx(p[5])}
		if p[6] != "." {
			for _, lss := range strings.Split(p[6], "|") {
				q := strings.Split(lss, "^")
				l := sLabelSet{labels: unhxs(q[0]), kind: q[1][0]}
				body := q[1][1:]
				switch l.kind {
				case 'i':
					l.i, _ = strconv.ParseInt(strings.Split(body, "/")[0], 10, 64)
				case 'f':
					l.f = unfbits(body)
				case 's':
					l.s = unhx(body)
				case 'b':
					bb := strings.Split(body, "/")
					if bb[0] != "." {
						for _, r := range strings.Split(bb[0], ",") {
							mm := strings.Split(r, ":")
							l.ranges = append(l.ranges, datum.Range{Min: unfbits(mm[0]), Max: unfbits(mm[1])})
						}
					}
					l.obs = unfbitsList(bb[1])
				}
				l.tNs, _ = strconv.ParseInt(q[2], 10, 64)
				m.lsets = append(m.lsets, l)
			}
		}
		out = append(out, m)
	}
	return out
}

// buildStore creates the real store.  Returns nil if the store refuses a metric.
func buildStore(ms []sMetric) (*metrics.Store, []*metrics.Metric, error) {
	s := metrics.NewStore()
	var real []*metrics.Metric
	for _, sm := range ms {
		m := metrics.NewMetric(sm.name, sm.prog, sm.kind, sm.typ, sm.keys...)
		m.SetSource(sm.source)
		for _, l := range sm.lsets {
			if l.kind == 'b' {
				m.Buckets = l.ranges
			}
			d, err := m.GetDatum(l.labels...)
			if err != nil {
				return nil, nil, err
			}
			ts := time.Unix(0, l.tNs)
			switch l.kind {
			case 'i':
				datum.SetInt(d, l.i, ts)
			case 'f':
				datum.SetFloat(d, l.f, ts)
			case 's':
				datum.SetString(d, l.s, ts)
			case 'b':
				for _, v := range l.obs {
					datum.Observe(d, v, ts)
				}
			}
		}
		if err := s.Add(m); err != nil {
			return nil, nil, err
		}
		real = append(real, m)
	}
	return s, real, nil
}

var genNames = []string{"m", "m-x", "http-requests-total", "a-b-c-d", "total_x", "9bad", "", "m\xc3\xa9", "m:colon", "a.b", "lat-ms", "z", "pct%d", "request_latency_by_upstream_cluster_and_availability_zone_and_method_total"}
var genKeys = []string{"k", "host", "a-b", "9k", "", "prog", "__r", "le2", "code"}
var genVals = []string{"a", "", "x y", "\xff", "\xc3\xa9", "\"q\"", "a\nb", "v1", "v2", "b\\c", "50%", "a%20b", "%s%v", "{x}", "$1"}
var genInts = []int64{0, 1, -1, 42, 9007199254740993, math.MaxInt64, math.MinInt64, -9007199254740993}
var genFloats = []float64{0.5, math.Copysign(0, -1), 1e308, math.NaN(), math.Inf(1), math.Inf(-1), -2.25, 3}

type storeGenOpts struct {
	cleanNames      bool // only representable names/keys/values (for formats without validation)
	noSeparator     bool // label values without whitespace or separators
	utf8Only        bool // no invalid UTF-8 in label or text values (JSON cannot carry them)
	maxMetrics      int
	unsortedBuckets bool // histogram ranges sometimes in another order than ascending
	twins           bool // sometimes two metrics of one program share a name and differ in value type
}

func genStore(r *rng, o storeGenOpts) []sMetric {
	n := r.intn(o.maxMetrics + 1)
	used := map[string]bool{}
	var ms []sMetric
	for i := 0; i < n; i++ {
		var name string
		for tries := 0; tries < 20; tries++ {
			name = genNames[r.intn(len(genNames))]
			if o.cleanNames && (name == "" || name == "9bad" || name == "m\xc3\xa9" || name == "a.b" || name == "pct%d") {
				continue
			}
			if !used[strings.ReplaceAll(name, "-", "_")] {
				break
			}
			name = ""
		}
		if used[strings.ReplaceAll(name, "-", "_")] {
			continue
		}
		used[strings.ReplaceAll(name, "-", "_")] = true
		m := sMetric{name: name, prog: "prog" + strconv.Itoa(r.intn(2)) + ".mtail", source: fmt.Sprintf("p.mtail:%d:%d", 1+r.intn(9), 1+r.intn(9))}
		nk := r.intn(4)
		seenK := map[string]bool{}
		for j := 0; j < nk; j++ {
			k := genKeys[r.intn(len(genKeys))]
			if o.cleanNames && (k == "" || k == "9k" || k == "a-b" || k == "prog" || k == "__r") {
				k = "k" + strconv.Itoa(j)
			}
			if seenK[k] {
				k = k + strconv.Itoa(j)
			}
			seenK[k] = true
			m.keys = append(m.keys, k)
		}
		switch r.intn(8) {
		case 0, 1:
			m.kind = metrics.Counter
		case 2, 3:
			m.kind = metrics.Gauge
		case 4:
			m.kind = metrics.Timer
		case 5:
			m.kind = metrics.Text
		default:
			m.kind = metrics.Histogram
		}
		switch m.kind {
		case metrics.Text:
			m.typ = metrics.String
		case metrics.Histogram:
			m.typ = metrics.Buckets
		default:
			m.typ = metrics.Type(r.intn(2))
			if r.chance(1, 12) {
				m.typ = metrics.String
			}
		}
		nl := r.intn(6)
		if nk == 0 && nl > 1 {
			nl = 1
		}
		seenL := map[string]bool{}
		var ranges []datum.Range
		if m.kind == metrics.Histogram {
			bounds := [][]float64{{1, 2}, {0.5, 1, 4}, {-1, 0, 1}, {0, 10},
				{1, 2, 3, 4, 5, 6, 7, 8, 9, 10, 11, 12, 13, 14, 15, 16, 17, 18, 19, 20}}[r.intn(5)]
			if bounds[0] > 0 {
				ranges = append(ranges, datum.Range{Min: 0, Max: bounds[0]})
			}
			mn := bounds[0]
			for _, mx := range bounds[1:] {
				ranges = append(ranges, datum.Range{Min: mn, Max: mx})
				mn = mx
			}
			ranges = append(ranges, datum.Range{Min: mn, Max: math.Inf(1)})
			if o.unsortedBuckets && r.chance(1, 4) {
				// a store built by hand need not list its buckets in ascending order
				for q := len(ranges) - 1; q > 0; q-- {
					w := r.intn(q + 1)
					ranges[q], ranges[w] = ranges[w], ranges[q]
				}
			}
		}
		var pendingRev []string
		// some metrics have long label values that agree for dozens of bytes and differ at the end
		longVals := nk > 0 && r.chance(1, 6)
		for j := 0; j < nl; j++ {
			labels := make([]string, nk)
			for q := range labels {
				labels[q] = genVals[r.intn(len(genVals))]
				if o.noSeparator || o.cleanNames {
					labels[q] = []string{"a", "v1", "v2", "b\\c", "\xc3\xa9", "q", "50%", "%v%s", "a%20b"}[r.intn(9)]
				}
				if longVals {
					labels[q] = "eu-central-1.cluster-0042.rack-17.node-" + labels[q]
				}
			}
			if pendingRev != nil {
				labels, pendingRev = pendingRev, nil
			}
			if o.utf8Only {
				for q := range labels {
					labels[q] = strings.ReplaceAll(labels[q], "\xff", "u")
				}
			}
			if seenL[strings.Join(labels, "\x00")] {
				continue
			}
			seenL[strings.Join(labels, "\x00")] = true
			if nk >= 2 && j+1 < nl && r.chance(1, 2) {
				// ... and the same values under the other keys: another label set altogether
				rev := make([]string, nk)
				for q := range labels {
					rev[q] = labels[nk-1-q]
				}
				if !seenL[strings.Join(rev, "\x00")] {
					pendingRev = rev
				}
			}
			l := sLabelSet{labels: labels, tNs: int64(r.intn(2000000000)) * 1000003}
			switch m.typ {
			case metrics.Int:
				l.kind, l.i = 'i', genInts[r.intn(len(genInts))]
				if r.chance(1, 2) {
					l.i = int64(r.intn(100000)) - 50000
				}
			case metrics.Float:
				l.kind, l.f = 'f', genFloats[r.intn(len(genFloats))]
				if r.chance(1, 2) {
					l.f = float64(r.intn(100000))/64 - 700
				}
			case metrics.String:
				l.kind, l.s = 's', genVals[r.intn(len(genVals))]
				if o.utf8Only && l.s == "\xff" {
					l.s = "text"
				}
			case metrics.Buckets:
				l.kind, l.ranges = 'b', ranges
				no := r.intn(6)
				for q := 0; q < no; q++ {
					v := genFloats[r.intn(len(genFloats))]
					if r.chance(2, 3) {
						v = float64(r.intn(64))/4 - 2
					}
					l.obs = append(l.obs, v)
				}
				if no == 0 {
					l.tNs = 0 // a histogram datum is stamped only by Observe
				}
			}
			m.lsets = append(m.lsets, l)
		}
		ms = append(ms, m)
	}
	if o.twins && len(ms) > 0 && r.chance(1, 3) {
		// what a program leaves behind when a declaration's value type changes between loads:
		// two metrics with one name and program, told apart by type and source
		i := r.intn(len(ms))
		if (ms[i].typ == metrics.Int || ms[i].typ == metrics.Float) && (ms[i].kind == metrics.Counter || ms[i].kind == metrics.Gauge) {
			tw := ms[i]
			tw.source = ms[i].source + "9"
			tw.lsets = nil
			for _, l := range ms[i].lsets {
				nl := l
				if ms[i].typ == metrics.Int {
					nl.kind, nl.f = 'f', float64(l.i%1000)+0.5
				} else {
					nl.kind, nl.i = 'i', 7
				}
				tw.lsets = append(tw.lsets, nl)
			}
			if ms[i].typ == metrics.Int {
				tw.typ = metrics.Float
			} else {
				tw.typ = metrics.Int
			}
			ms = append(ms[:i:i], append([]sMetric{tw}, ms[i:]...)...)
		}
	}
	return ms
}
