//go:build verif

package main

import (
	"bytes"
	"context"
	"io"
	"strconv"
	"strings"

	"github.com/google/mtail/internal/logline"
	"github.com/google/mtail/internal/tailer/logstream"
)

// C15 — line framing is independent of how bytes arrive.
//
// case:  chunks <size> <eofmode> <chunk>,<chunk>,...
//   a scripted io.Reader returns the chunks one per Read (a chunk longer than the buffer
//   offered is continued on the next Read); `-` is a zero-length read; eofmode 1 returns
//   io.EOF together with the last chunk.
// OBS = delivered lines; PRED = delivered == split(stream) as the property words it.

type scriptedReader struct {
	chunks  [][]byte
	i       int
	eofLast bool
}

func (s *scriptedReader) Read(p []byte) (int, error) {
	if s.i >= len(s.chunks) {
		return 0, io.EOF
	}
	c := s.chunks[s.i]
	n := copy(p, c)
	if n < len(c) {
		s.chunks[s.i] = c[n:]
		return n, nil
	}
	s.i++
	if s.eofLast && s.i == len(s.chunks) {
		return n, io.EOF
	}
	return n, nil
}

// specSplit is the property's own wording, written independently of mtail and of the model.
func specSplit(stream []byte) []string {
	var out []string
	parts := bytes.Split(stream, []byte("\n"))
	for i, p := range parts {
		if i == len(parts)-1 {
			if len(p) > 0 {
				out = append(out, string(p))
			}
			break
		}
		if len(p) > 0 && p[len(p)-1] == '\r' {
			p = p[:len(p)-1]
		}
		out = append(out, string(p))
	}
	return out
}

func runLineReader(chunks [][]byte, size int, eofLast bool) []string {
	lines := make(chan *logline.LogLine, 1<<16)
	var got []string
	done := make(chan struct{})
	go func() {
		for l := range lines {
			got = append(got, l.Line)
		}
		close(done)
	}()
	cp := make([][]byte, len(chunks))
	copy(cp, chunks)
	sr := &scriptedReader{chunks: cp, eofLast: eofLast}
	ctx := context.Background()
	lr := logstream.NewLineReader("src", lines, sr, size, func() {})
	for {
		_, err := lr.ReadAndSend(ctx)
		if err != nil {
			break
		}
	}
	lr.Finish(ctx)
	close(lines)
	<-done
	return got
}

func compositions(s string, f func([]string)) {
	n := len(s)
	if n == 0 {
		f([]string{})
		return
	}
	for mask := 0; mask < 1<<(n-1); mask++ {
		var parts []string
		start := 0
		for i := 0; i < n-1; i++ {
			if mask&(1<<i) != 0 {
				parts = append(parts, s[start:i+1])
				start = i + 1
			}
		}
		parts = append(parts, s[start:])
		f(parts)
	}
}

func allStrings(alpha []string, maxLen int, f func(string)) {
	var rec func(p string)
	rec = func(p string) {
		f(p)
		if len(p) >= maxLen {
			return
		}
		for _, a := range alpha {
			rec(p + a)
		}
	}
	rec("")
}

// runLineReaderTwice: the source goes on after a Finish (a truncated file: Finish, seek, read on
// with the same reader).  The lines of the first part are looked at only when everything has been
// read: a line, once delivered, keeps its text.
func runLineReaderTwice(first, second [][]byte, size int) []string {
	lines := make(chan *logline.LogLine, 1<<16)
	var got []*logline.LogLine
	done := make(chan struct{})
	go func() {
		for l := range lines {
			got = append(got, l)
		}
		close(done)
	}()
	cp := func(x [][]byte) [][]byte {
		o := make([][]byte, len(x))
		for i := range x {
			o[i] = append([]byte(nil), x[i]...)
		}
		return o
	}
	sr := &scriptedReader{chunks: cp(first)}
	ctx := context.Background()
	lr := logstream.NewLineReader("src", lines, sr, size, func() {})
	for pass := 0; pass < 2; pass++ {
		for {
			if _, err := lr.ReadAndSend(ctx); err != nil {
				break
			}
		}
		lr.Finish(ctx)
		sr.chunks, sr.i = cp(second), 0
	}
	close(lines)
	<-done
	out := make([]string, len(got))
	for i, l := range got {
		out[i] = string(append([]byte(nil), l.Line...))
	}
	return out
}

func init() {
	props["C15"] = &propImpl{
		gen: func(g *genCtx) {
			emit := func(parts []string, size int, eof int) {
				hp := make([]string, len(parts))
				for i, p := range parts {
					hp[i] = hx(p)
				}
				cs := strings.Join(hp, ",")
				if len(parts) == 0 {
					cs = "."
				}
				g.emit("chunks", strconv.Itoa(size), strconv.Itoa(eof), cs)
			}
			small, wide := 5, 4
			if g.thorough() {
				small, wide = 8, 6
			}
			k := 0
			allStrings([]string{"\n", "\r", "a"}, small, func(s string) {
				compositions(s, func(parts []string) {
					k++
					emit(parts, 1+k%4, k%2)
				})
			})
			allStrings([]string{"\n", "\r", "a", "\xc3", "\xa9"}, wide, func(s string) {
				if !strings.ContainsAny(s, "\xc3\xa9") {
					return
				}
				compositions(s, func(parts []string) {
					k++
					emit(parts, 1+k%4, k%2)
				})
			})
			// the source goes on after a Finish: what was delivered keeps its text
			for _, size := range []int{1, 2, 4, 16, 64} {
				for _, a := range [][]string{{"alpha\nbra", "vo"}, {"x"}, {"one\ntwo\n", "fragment"}, {"a", "b", "c"}, {"unfinished business"}} {
					for _, b := range [][]string{{"XY\nzulu\n"}, {"3\n4\n", "nished"}, {"\n"}, {"q"}, {"a much longer second part than the first one was\nand more\n"}} {
						g.emit("chunks2", strconv.Itoa(size), hxs(a), hxs(b))
					}
				}
			}
			// long random streams, random chunking, zero-length reads
			n := 300
			if g.thorough() {
				n = 6000
			}
			for i := 0; i < n; i++ {
				ln := g.r.intn(1500)
				var sb strings.Builder
				for j := 0; j < ln; j++ {
					switch g.r.intn(10) {
					case 0:
						sb.WriteByte('\n')
					case 1:
						sb.WriteByte('\r')
					case 2:
						sb.WriteString("\r\n")
					case 3:
						sb.WriteByte(byte(g.r.intn(256)))
					default:
						sb.WriteByte(byte('a' + g.r.intn(26)))
					}
				}
				s := sb.String()
				size := 1 + g.r.intn(64)
				if g.r.chance(1, 4) {
					size = 1 + g.r.intn(4)
				}
				var parts []string
				for len(s) > 0 {
					if g.r.chance(1, 10) {
						parts = append(parts, "")
					}
					c := 1 + g.r.intn(size)
					if c > len(s) {
						c = len(s)
					}
					parts = append(parts, s[:c])
					s = s[c:]
				}
				emit(parts, size, g.r.intn(2))
			}
		},
		run: func(r *runCtx, id string, f []string) {
			if f[0] == "chunks2" {
				size, _ := strconv.Atoi(f[1])
				mk := func(s string) ([][]byte, []byte) {
					var cs [][]byte
					var st []byte
					for _, p := range unhxs(s) {
						cs = append(cs, []byte(p))
						st = append(st, p...)
					}
					return cs, st
				}
				c1, s1 := mk(f[2])
				c2, s2 := mk(f[3])
				got := runLineReaderTwice(c1, c2, size)
				r.obs(id, "%s", hxs(got))
				want := append(specSplit(s1), specSplit(s2)...)
				if !eqTuple(got, want) {
					r.fail(id, "framing", "stream %s, Finish, stream %s (size %d): delivered %s, want %s", hx(string(s1)), hx(string(s2)), size, hxs(got), hxs(want))
				} else {
					r.ok(id)
				}
				r.stat("finish_then_more")
				return
			}
			size, _ := strconv.Atoi(f[1])
			eof := f[2] == "1"
			parts := unhxs(f[3])
			chunks := make([][]byte, len(parts))
			var stream []byte
			maxc := 0
			for i, p := range parts {
				chunks[i] = []byte(p)
				stream = append(stream, p...)
				if len(p) > maxc {
					maxc = len(p)
				}
			}
			got := runLineReader(chunks, size, eof)
			r.obs(id, "%s", hxs(got))
			want := specSplit(stream)
			if !eqTuple(got, want) {
				r.fail(id, "framing", "stream %s chunks %s size %d: delivered %s, want %s", hx(string(stream)), f[3], size, hxs(got), hxs(want))
			} else {
				r.ok(id)
			}
			if !bytes.Contains(stream, []byte("\n")) {
				r.trivial(id)
			}
			if bytes.Contains(stream, []byte("\r\n")) {
				r.stat("streams_with_crlf")
			}
			if maxc > size {
				r.stat("chunk_larger_than_buffer")
			}
			r.stat("cases")
			if len(parts) > 1 {
				r.stat("multi_chunk")
			}
		},
	}
}
