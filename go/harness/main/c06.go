//go:build verif

package main

import (
	"context"
	"fmt"
	"os"
	"path/filepath"
	"strconv"
	"strings"
	"sync"
	"time"

	"github.com/google/mtail/internal/logline"
	"github.com/google/mtail/internal/metrics"
	"github.com/google/mtail/internal/metrics/datum"
	"github.com/google/mtail/internal/runtime"
	"github.com/google/mtail/internal/runtime/vm"
)

// C06 — programs are isolated from each other.
// The history is run once with all programs and once per program alone; the program's metrics
// (store view and scrape) must be the same, except when it was refused for a kind conflict.

func rtRunHistory(ops []string, only string) (*rtEnv, []string, error) {
	env, err := newRtEnv()
	if err != nil {
		return nil, nil, err
	}
	var dumps []string
	for _, op := range ops {
		p := strings.Split(op, ":")
		if only != "" && (p[0] == "w" || p[0] == "rm" || p[0] == "x") && p[1] != only {
			continue
		}
		env.apply(op)
		if op == "load" {
			dumps = append(dumps, env.dump())
		}
	}
	dumps = append(dumps, env.dump())
	return env, dumps, nil
}

func seriesOfProg(scrape, prog string) []string {
	var out []string
	for _, l := range strings.Split(scrape, "\n") {
		if strings.HasPrefix(l, "#") || l == "" {
			continue
		}
		if strings.Contains(l, `prog="`+prog+`"`) {
			out = append(out, l)
		}
	}
	return out
}

// c06Conc: program a counts lines; program b is reloaded over and over (two texts in turn) while
// N lines flow, every VM slowed a little at the start of a line so that the dispatcher is usually
// in the middle of handing a line out when a reload arrives.  Whatever happens to b, a processes
// every line exactly once.  (A dispatcher that sends on a channel a reload has closed takes the
// process down; the engine reports that as this case's crash.)
func c06Conc(n, reloads int, checkB bool) (bool, string) {
	dir, err := os.MkdirTemp("", "c06conc")
	if err != nil {
		return true, "skip"
	}
	defer os.RemoveAll(dir)
	lines := make(chan *logline.LogLine)
	store := metrics.NewStore()
	var wg sync.WaitGroup
	vm.VerifLineHook = func(_ *vm.VM, _ *logline.LogLine) { time.Sleep(50 * time.Microsecond) }
	defer func() { vm.VerifLineHook = nil }()
	rt, err := runtime.New(lines, &wg, dir, store)
	if err != nil {
		return false, "runtime.New: " + err.Error()
	}
	write := func(name, src string) { _ = os.WriteFile(filepath.Join(dir, name), []byte(src), 0o644) }
	write("a.mtail", "counter la\n/^/ {\n  la++\n}\n")
	write("c.mtail", "counter lc\n/^/ {\n  lc++\n}\n")
	bsrc := func(k int) string { return fmt.Sprintf("counter lb\n/^/ {\n  lb++\n}\n# text %d\n", k%2) }
	write("b.mtail", bsrc(0))
	if err := rt.LoadAllPrograms(); err != nil {
		return false, "load: " + err.Error()
	}
	sent := make(chan struct{})
	go func() {
		defer close(sent)
		for i := 0; i < n; i++ {
			lines <- logline.New(context.Background(), "log", strconv.Itoa(i))
		}
	}()
	for k := 1; k <= reloads; k++ {
		write("b.mtail", bsrc(k))
		_ = rt.LoadAllPrograms()
		select {
		case <-sent:
			k = reloads
		default:
		}
	}
	select {
	case <-sent:
	case <-time.After(60 * time.Second):
		return false, "the lines were not all taken within 60 s"
	}
	count := func(name string) int64 {
		var v int64 = -1
		_ = store.Range(func(m *metrics.Metric) error {
			if m.Name == name && len(m.LabelValues) > 0 {
				v = datum.GetInt(m.LabelValues[0].Value)
			}
			return nil
		})
		return v
	}
	deadline := time.Now().Add(20 * time.Second)
	for (count("la") < int64(n) || count("lc") < int64(n) || (checkB && count("lb") < int64(n))) && time.Now().Before(deadline) {
		time.Sleep(time.Millisecond)
	}
	time.Sleep(5 * time.Millisecond)
	la, lc := count("la"), count("lc")
	close(lines)
	done := make(chan struct{})
	go func() { wg.Wait(); close(done) }()
	select {
	case <-done:
	case <-time.After(3 * time.Second):
	}
	if lb := count("lb"); checkB && lb != int64(n) {
		return false, fmt.Sprintf("%d lines sent while program b was reloaded: its versions together counted %d (each line goes to exactly one of them)", n, lb)
	}
	if la != int64(n) || lc != int64(n) {
		return false, fmt.Sprintf("%d lines sent while program b was reloaded: program a counted %d, program c %d", n, la, lc)
	}
	return true, ""
}


// c06Err: program a ends every line in a runtime error of the given kind; programs b and c count
// lines.  Whatever a does to itself, b and c process every line, and the store can still be read.
func c06Err(kind string, n int) (bool, string) {
	dir, err := os.MkdirTemp("", "c06err")
	if err != nil {
		return true, "skip"
	}
	defer os.RemoveAll(dir)
	lines := make(chan *logline.LogLine)
	store := metrics.NewStore()
	var wg sync.WaitGroup
	rt, err := runtime.New(lines, &wg, dir, store)
	if err != nil {
		return false, "runtime.New: " + err.Error()
	}
	write := func(name, src string) { _ = os.WriteFile(filepath.Join(dir, name), []byte(src), 0o644) }
	body := map[string]string{
		"expire-missing": "  del x[$1] after 1h\n",
		"div-zero":       "  x[$1] = 1 / (len($1) - len($1))\n",
		"conv":           "  x[$1] = strtol($1, 99)\n",
		"capref":         "  /zzz(\\d+)/ || 1 {\n    x[$2]++\n  }\n",
		"del-missing":    "  del x[$1]\n",
	}[kind]
	write("a.mtail", "counter x by k\ncounter la\n/^(\\w+)/ {\n"+body+"  la++\n}\n")
	write("b.mtail", "counter lb\n/^/ {\n  lb++\n}\n")
	write("c.mtail", "counter lc by k\n/^(\\w+)/ {\n  lc[$1]++\n}\n")
	if err := rt.LoadAllPrograms(); err != nil {
		return false, "load: " + err.Error()
	}
	for i := 0; i < n; i++ {
		select {
		case lines <- logline.New(context.Background(), "log", "w"+strconv.Itoa(i%3)):
		case <-time.After(5 * time.Second):
			return false, fmt.Sprintf("line %d of %d was not taken within 5 s: the dispatcher is stuck behind program a (%s)", i+1, n, kind)
		}
	}
	total := func(name string) int64 {
		var v int64
		_ = store.Range(func(m *metrics.Metric) error {
			if m.Name == name {
				for _, lv := range m.LabelValues {
					v += datum.GetInt(lv.Value)
				}
			}
			return nil
		})
		return v
	}
	deadline := time.Now().Add(10 * time.Second)
	for (total("lb") < int64(n) || total("lc") < int64(n)) && time.Now().Before(deadline) {
		time.Sleep(time.Millisecond)
	}
	lb, lc := total("lb"), total("lc")
	done := make(chan struct{})
	go func() { _ = store.Gc(); close(done) }()
	select {
	case <-done:
	case <-time.After(5 * time.Second):
		return false, "Store.Gc did not return within 5 s after program a's runtime errors (" + kind + ")"
	}
	close(lines)
	fin := make(chan struct{})
	go func() { wg.Wait(); close(fin) }()
	select {
	case <-fin:
	case <-time.After(3 * time.Second):
	}
	if lb != int64(n) || lc != int64(n) {
		return false, fmt.Sprintf("%d lines, program a failing each with %s: program b counted %d, program c %d", n, kind, lb, lc)
	}
	return true, ""
}

func c06Run(r *runCtx, id string, f []string) {
	if f[0] == "rterr" {
		n, _ := strconv.Atoi(f[2])
		ok, note := c06Err(f[1], n)
		r.stat("rterr_" + f[1])
		r.obs(id, "-")
		if !ok {
			r.replay(id, f...)
			r.fail(id, "error-in-one-program-disturbs-others", "%s", note)
		} else {
			r.ok(id)
		}
		return
	}
	if f[0] == "conc" {
		n, _ := strconv.Atoi(f[1])
		k, _ := strconv.Atoi(f[2])
		ok, note := c06Conc(n, k, false)
		r.stat("conc")
		r.obs(id, "-")
		if !ok {
			r.replay(id, f...)
			r.fail(id, "reload-disturbs-other-program", "%s", note)
		} else {
			r.ok(id)
		}
		return
	}
	ops := strings.Split(f[2], ";")
	multi, dumps, err := rtRunHistory(ops, "")
	if err != nil {
		r.obs(id, "ENV-ERROR")
		r.fail(id, "harness", "%v", err)
		return
	}
	mo := multi.observe()
	// the store is a map and is walked in another order by every scrape: look more than once
	var moreScrapes []string
	if mo.scrapeOK && multi.hung == "" {
		for k := 0; k < 5; k++ {
			if t, err := multi.scrape(); err == nil {
				moreScrapes = append(moreScrapes, t)
			}
		}
	}
	r.obs(id, "%s", strings.Join(dumps, " || "))
	multi.close()
	// whatever the programs do to each other's loads, the store never ends up holding one name with
	// two kinds (the refusal in Store.Add is what keeps every scrape of every program working)
	kindOf := map[string]string{}
	for _, line := range mo.store {
		fs := strings.Split(line, "/")
		if len(fs) > 2 {
			if k, ok := kindOf[fs[0]]; ok && k != fs[2] {
				r.fail(id, "kind-split", "ops %s: the store holds the name %s with two kinds (%s and %s); store %v", f[2], unhx(fs[0]), k, fs[2], mo.store)
				return
			}
			kindOf[fs[0]] = fs[2]
		}
	}
	if multi.hung != "" {
		r.fail(id, "load-hangs", "ops %s: %s; no later program can be loaded and every export through the store blocks", f[2], multi.hung)
		return
	}
	progs := map[string]bool{}
	for _, op := range ops {
		p := strings.Split(op, ":")
		if p[0] == "w" && strings.HasSuffix(p[1], ".mtail") {
			progs[p[1]] = true
		}
	}
	mh := rtHandleMap(mo.handles)
	failed := false
	// histories in which some metric name is declared with two different kinds exercise the one
	// permitted interaction (refusal on a kind conflict, whose consequences persist); they are
	// checked against the model only
	kinds := map[string]int{}
	conflictHistory := false
	for _, op := range ops {
		p := strings.Split(op, ":")
		if p[0] == "w" {
			v, _ := strconv.Atoi(p[2])
			for _, d := range rtCatalogue()[v].decls {
				if k, ok := kinds[d.name]; ok && k != d.kind {
					conflictHistory = true
				}
				kinds[d.name] = d.kind
			}
		}
	}
	if conflictHistory {
		r.ok(id)
		r.stat("kind_conflict_histories")
		return
	}
	for prog := range progs {
		solo, _, err := rtRunHistory(ops, prog)
		if err != nil {
			continue
		}
		so := solo.observe()
		solo.close()
		sh := rtHandleMap(so.handles)
		sv, sok := sh[prog]
		mv, mok := mh[prog]
		if sok != mok || sv != mv {
			// permitted only when another program owns one of its names with another kind
			if sok && kindConflict(rtCatalogue()[sv], prog, mo.store) {
				r.stat("kind_conflict_refusals")
				continue
			}
			r.fail(id, "other-program-changes-loading", "ops %s: alone %s runs v%d (loaded=%v), together with the others v%d (loaded=%v)", f[2], prog, sv, sok, mv, mok)
			failed = true
			continue
		}
		a, b := strings.Join(storeOf(so.store, prog), " "), strings.Join(storeOf(mo.store, prog), " ")
		if a != b {
			r.fail(id, "other-program-changes-metrics", "ops %s: metrics of %s alone `%s`, together with the others `%s`", f[2], prog, a, b)
			failed = true
		}
		if so.scrapeOK && !mo.scrapeOK {
			cls := "other-program-breaks-export"
			if strings.Contains(mo.scrapeEr, "inconsistent label names") && labelDimensionClash(mo.store) {
				cls = "cross-program-label-clash"
			} else if strings.Contains(mo.scrapeEr, "was collected before") && dupSeriesFromMovedDecl(mo.store) {
				cls = "" // a reload duplicate of some program: C14's finding, not an isolation matter
			}
			if cls != "" {
				r.fail(id, cls, "ops %s: alone the export of %s works, together the scrape fails: %s", f[2], prog, strings.ReplaceAll(mo.scrapeEr, "\n", " "))
				failed = true
			}
		} else if so.scrapeOK && mo.scrapeOK {
			x, y := strings.Join(seriesOfProg(so.scrape, prog), "\n"), strings.Join(seriesOfProg(mo.scrape, prog), "\n")
			for _, t := range moreScrapes {
				if x == y {
					y = strings.Join(seriesOfProg(t, prog), "\n")
				}
			}
			if x != y {
				r.fail(id, "other-program-changes-export", "ops %s: exported series of %s alone `%s`, together `%s`", f[2], prog, x, y)
				failed = true
			}
		}
	}
	if !failed {
		r.ok(id)
	}
	if len(progs) < 2 {
		r.trivial(id)
	}
	r.stat("programs_" + strconv.Itoa(len(progs)))
}

func kindConflict(v rtVersion, prog string, store []string) bool {
	for _, d := range v.decls {
		for _, s := range store {
			p := strings.Split(s, "/")
			if p[0] == hx(d.name) && p[1] != hx(prog) && p[2] != strconv.Itoa(d.kind) {
				return true
			}
		}
	}
	return false
}

func init() {
	props["C06"] = &propImpl{
		gen: func(g *genCtx) {
			cat := rtEncodeCatalogue()
			emit := func(ops []string) { g.emit("rt", cat, strings.Join(ops, ";")) }
			// lines flowing while another program is reloaded
			for _, k := range []string{"expire-missing", "div-zero", "conv", "capref", "del-missing"} {
				g.emit("rterr", k, "6")
			}
			g.emit("conc", "400", "60")
			g.emit("conc", "1500", "250")
			if g.thorough() {
				g.emit("conc", "6000", "1000")
			}
			vers := []int{0, 3, 4, 6, 7, 9, 11, 17}
			files := []string{"a.mtail", "b.mtail", "c.mtail", "d.mtail"}
			// all ordered pairs of versions for two programs, both load orders
			for _, a := range vers {
				for _, b := range vers {
					emit([]string{fmt.Sprintf("w:a.mtail:%d", a), fmt.Sprintf("w:b.mtail:%d", b), "load", "l:x", "l:y", "n:zz", "load"})
					emit([]string{fmt.Sprintf("w:b.mtail:%d", b), "load", "l:x", fmt.Sprintf("w:a.mtail:%d", a), "load", "l:y", "rm:b.mtail", "load", "l:x"})
				}
			}
			// one program's label sets cannot be exported; the others' are, whatever order the store is
			// walked in (it is a map: the scrape is repeated)
			for _, other := range []int{0, 7, 10, 13} {
				emit([]string{"w:a.mtail:17", fmt.Sprintf("w:b.mtail:%d", other), fmt.Sprintf("w:c.mtail:%d", other), "load", "l:x", "l:y", "load", "l:x", "load", "l:y", "load"})
			}
			// one exported name under two store names in two programs (`lat-ms` and `lat_ms`): both are
			// exported, neither disturbs the other
			emit([]string{"w:a.mtail:21", "w:b.mtail:22", "load", "l:x", "l:y", "load", "l:x", "load"})
			emit([]string{"w:a.mtail:22", "load", "l:x", "w:b.mtail:21", "w:c.mtail:0", "load", "l:y", "load"})
			n := 120
			if g.thorough() {
				n = 2500
			}
			for i := 0; i < n; i++ {
				np := 2 + g.r.intn(3)
				var ops []string
				ln := 4 + g.r.intn(12)
				for j := 0; j < ln; j++ {
					switch g.r.intn(8) {
					case 0, 1, 2:
						ops = append(ops, fmt.Sprintf("w:%s:%d", files[g.r.intn(np)], vers[g.r.intn(len(vers))]))
					case 3, 4:
						ops = append(ops, "load")
					case 5, 6:
						ops = append(ops, "l:"+[]string{"x", "y", "z"}[g.r.intn(3)])
					case 7:
						ops = append(ops, "rm:"+files[g.r.intn(np)])
					}
				}
				ops = append(ops, "load", "l:x")
				emit(ops)
			}
		},
		run: c06Run,
	}
}
