//go:build verif

package main

import (
	"fmt"
	"strconv"
	"strings"
	"time"

	"github.com/google/mtail/internal/metrics"
	"github.com/google/mtail/internal/metrics/datum"
)

// C09 — a metric behaves as an insertion-ordered map from label tuples to (value, time, expiry).
//
// case:  ops <kind> <type> <nkeys> <op>;<op>;...
//   g:<labels>            GetDatum
//   s:<labels>:<n>        GetDatum then set the value to n with timestamp = step number
//   i:<labels>:<n>        GetDatum then IncBy n (Int metrics only)
//   r:<labels>            RemoveDatum
//   x:<labels>:<ns>       ExpireDatum
//   f:<labels>            FindLabelValueOrNil
//   e                     EmitLabelSets
// OBS = per-step outputs, then a dump of both representations.
// PRED = the same sequence on a reference ordered map written here in Go.

type refEntry struct {
	labels []string
	val    int64
	ts     int64
	exp    int64
}

func setDatumVal(typ metrics.Type, d datum.Datum, n int64, ts time.Time) {
	switch typ {
	case metrics.Int:
		datum.SetInt(d, n, ts)
	case metrics.Float:
		datum.SetFloat(d, float64(n), ts)
	case metrics.String:
		datum.SetString(d, strconv.FormatInt(n, 10), ts)
	}
}

func datumVal(typ metrics.Type, d datum.Datum) int64 {
	switch typ {
	case metrics.Int:
		return datum.GetInt(d)
	case metrics.Float:
		return int64(datum.GetFloat(d))
	case metrics.String:
		s := datum.GetString(d)
		if s == "" {
			return 0
		}
		n, _ := strconv.ParseInt(s, 10, 64)
		return n
	}
	return -999
}

func datumSec(d datum.Datum) int64 { return d.TimeUTC().Unix() }

func c09Run(r *runCtx, id string, f []string) {
	if f[0] == "conc" {
		// one new tuple looked up by several goroutines at once names one datum, as any sequential
		// order of the lookups does (the case C08 has, run for the map property too)
		c08Run(r, id, f)
		return
	}
	kindN, _ := strconv.Atoi(f[1])
	typN, _ := strconv.Atoi(f[2])
	nkeys, _ := strconv.Atoi(f[3])
	typ := metrics.Type(typN)
	keys := make([]string, nkeys)
	for i := range keys {
		keys[i] = fmt.Sprintf("k%d", i)
	}
	m := metrics.NewMetric("m", "p", metrics.Kind(kindN), typ, keys...)
	var ref []refEntry
	refFind := func(l []string) int {
		for i := range ref {
			if eqTuple(ref[i].labels, l) {
				return i
			}
		}
		return -1
	}
	ptrs := map[datum.Datum]int{}
	ord := func(d datum.Datum) int {
		if o, ok := ptrs[d]; ok {
			return o
		}
		ptrs[d] = len(ptrs)
		return len(ptrs) - 1
	}
	var out, want []string
	opsStr := ""
	if len(f) > 4 {
		opsStr = f[4]
	}
	var ops []string
	if opsStr != "" && opsStr != "." {
		ops = strings.Split(opsStr, ";")
	}
	for step, op := range ops {
		p := strings.Split(op, ":")
		var labels []string
		if len(p) > 1 {
			labels = unhxs(p[1])
		}
		arityOK := len(labels) == nkeys
		ts := time.Unix(int64(step+1), 0)
		switch p[0] {
		case "g", "s", "i":
			n := int64(0)
			if len(p) > 2 {
				n, _ = strconv.ParseInt(p[2], 10, 64)
			}
			d, err := m.GetDatum(labels...)
			if err != nil {
				out = append(out, "E:arity")
			} else {
				if p[0] == "s" {
					setDatumVal(typ, d, n, ts)
				} else if p[0] == "i" {
					datum.IncIntBy(d, n, ts)
				}
				out = append(out, "ok")
				_ = ord(d)
			}
			if !arityOK {
				want = append(want, "E:arity")
			} else {
				j := refFind(labels)
				if j < 0 {
					ref = append(ref, refEntry{labels: labels, ts: -1})
					j = len(ref) - 1
				}
				if p[0] == "s" {
					ref[j].val, ref[j].ts = n, int64(step+1)
				} else if p[0] == "i" {
					ref[j].val, ref[j].ts = ref[j].val+n, int64(step+1)
				}
				want = append(want, "ok")
			}
		case "r":
			err := m.RemoveDatum(labels...)
			if err != nil {
				out = append(out, "E:arity")
			} else {
				out = append(out, "ok")
			}
			if !arityOK {
				want = append(want, "E:arity")
			} else {
				if j := refFind(labels); j >= 0 {
					ref = append(ref[:j:j], ref[j+1:]...)
				}
				want = append(want, "ok")
			}
		case "x":
			ns, _ := strconv.ParseInt(p[2], 10, 64)
			err := m.ExpireDatum(time.Duration(ns), labels...)
			if err != nil {
				if arityOK {
					out = append(out, "E:nodatum")
				} else {
					out = append(out, "E:arity")
				}
			} else {
				out = append(out, "ok")
			}
			if !arityOK {
				want = append(want, "E:arity")
			} else if j := refFind(labels); j >= 0 {
				ref[j].exp = ns
				want = append(want, "ok")
			} else {
				want = append(want, "E:nodatum")
			}
		case "f":
			lv := m.FindLabelValueOrNil(labels)
			if lv == nil {
				out = append(out, "none")
			} else {
				out = append(out, fmt.Sprintf("v%d/x%d", datumVal(typ, lv.Value), int64(lv.Expiry)))
			}
			if j := refFind(labels); j >= 0 {
				want = append(want, fmt.Sprintf("v%d/x%d", ref[j].val, ref[j].exp))
			} else {
				want = append(want, "none")
			}
		case "e":
			c := make(chan *metrics.LabelSet)
			go m.EmitLabelSets(c)
			var parts []string
			for ls := range c {
				vals := make([]string, nkeys)
				for i, k := range keys {
					vals[i] = ls.Labels[k]
				}
				parts = append(parts, hxs(vals)+"="+strconv.FormatInt(datumVal(typ, ls.Datum), 10))
			}
			out = append(out, "["+strings.Join(parts, "|")+"]")
			var wp []string
			for _, e := range ref {
				wp = append(wp, hxs(e.labels)+"="+strconv.FormatInt(e.val, 10))
			}
			want = append(want, "["+strings.Join(wp, "|")+"]")
		}
	}
	// dump both representations
	var dump, wdump []string
	agree := 1
	for _, lv := range m.LabelValues {
		sec := datumSec(lv.Value)
		// a datum never written carries the creation wall-clock time: canonicalise
		tsS := strconv.FormatInt(sec, 10)
		if sec > 1000000 {
			tsS = "NOW"
		}
		dump = append(dump, fmt.Sprintf("%s=%d@%s/x%d", hxs(lv.Labels), datumVal(typ, lv.Value), tsS, int64(lv.Expiry)))
		if m.FindLabelValueOrNil(lv.Labels) != lv {
			agree = 0
		}
	}
	for _, e := range ref {
		tsS := strconv.FormatInt(e.ts, 10)
		if e.ts < 0 {
			tsS = "NOW"
		}
		wdump = append(wdump, fmt.Sprintf("%s=%d@%s/x%d", hxs(e.labels), e.val, tsS, e.exp))
	}
	idx := len(m.VerifIndex())
	r.obs(id, "%s # %s idx=%d agree=%d", strings.Join(out, " "), strings.Join(dump, "|"), idx, agree)
	got := strings.Join(out, " ") + " # " + strings.Join(dump, "|")
	exp := strings.Join(want, " ") + " # " + strings.Join(wdump, "|")
	if got != exp || idx != len(ref) || agree != 1 {
		r.fail(id, "not-a-map", "ops %s: got `%s idx=%d agree=%d`, an ordered map gives `%s idx=%d agree=1`", opsStr, got, idx, agree, exp, len(ref))
	} else {
		r.ok(id)
	}
	if len(ops) < 2 {
		r.trivial(id)
	}
	r.stat("ops_total_" + strconv.Itoa(min(len(ops), 10)/5*5) + "plus")
	for _, o := range out {
		if strings.HasPrefix(o, "E:") {
			r.stat("err_" + o[2:])
		}
	}
}

var c09Universe = [][]string{{"a"}, {"-"}, {"a-"}, {"\\"}, {""}, {"a\\-"}, {"\xff"}}

func init() {
	props["C09"] = &propImpl{
		gen: func(g *genCtx) {
			for i, t := range [][]string{{"a"}, {"a", "-"}, {"x", "y", "z"}, {"-"}, {"a-", "b"}, {"k"}} {
				g.emit("conc", hxs(t), strconv.Itoa([]int{2, 4, 8, 16}[i%4]), "300")
			}
			// exhaustive: all sequences up to length L over 3 tuples of a 1-key metric
			tu := []string{hxs([]string{"a"}), hxs([]string{"-"}), hxs([]string{"a-"})}
			var alphabet []string
			for _, t := range tu {
				// two expiry values, one of them zero: a mark replaces the previous one, whatever its value
				alphabet = append(alphabet, "g:"+t, "s:"+t+":7", "r:"+t, "x:"+t+":5", "x:"+t+":0", "f:"+t)
			}
			alphabet = append(alphabet, "e", "g:"+hxs([]string{"a", "b"}), "x:.:3")
			L := 3
			if g.thorough() {
				L = 4
			}
			var rec func(prefix []string)
			k := 0
			rec = func(prefix []string) {
				if len(prefix) > 0 {
					k++
					// final emit so that every sequence is observed through enumeration too
					g.emit("ops", strconv.Itoa(1+k%5), strconv.Itoa(k%3), "1", strings.Join(prefix, ";")+";e")
				}
				if len(prefix) == L {
					return
				}
				for _, a := range alphabet {
					rec(append(prefix[:len(prefix):len(prefix)], a))
				}
			}
			rec(nil)
			// random long sequences over nkeys 0..3
			n := 1500
			if g.thorough() {
				n = 40000
			}
			for i := 0; i < n; i++ {
				nkeys := g.r.intn(4)
				typ := g.r.intn(3)
				mkT := func() string {
					ar := nkeys
					if g.r.chance(1, 15) {
						ar = g.r.intn(5)
					}
					t := make([]string, ar)
					for j := range t {
						t[j] = c09Universe[g.r.intn(len(c09Universe))][0]
					}
					return hxs(t)
				}
				ln := 1 + g.r.intn(60)
				ops := make([]string, ln)
				for j := range ops {
					switch g.r.intn(10) {
					case 0, 1:
						ops[j] = "g:" + mkT()
					case 2, 3, 4:
						ops[j] = "s:" + mkT() + ":" + strconv.Itoa(g.r.intn(2000)-1000)
					case 5:
						if typ == 0 {
							ops[j] = "i:" + mkT() + ":" + strconv.Itoa(g.r.intn(100))
						} else {
							ops[j] = "f:" + mkT()
						}
					case 6, 7:
						ops[j] = "r:" + mkT()
					case 8:
						// zero and negative durations too: the mark is stored as given
						ops[j] = "x:" + mkT() + ":" + strconv.Itoa([]int{g.r.intn(1000), g.r.intn(1000), 0, -g.r.intn(1000)}[g.r.intn(4)])
					case 9:
						if g.r.chance(1, 2) {
							ops[j] = "e"
						} else {
							ops[j] = "f:" + mkT()
						}
					}
				}
				g.emit("ops", strconv.Itoa(1+g.r.intn(5)), strconv.Itoa(typ), strconv.Itoa(nkeys), strings.Join(ops, ";"))
			}
		},
		run: c09Run,
	}
}
