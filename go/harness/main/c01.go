//go:build verif

package main

import (
	"fmt"
	"regexp"
	"sort"
	"strconv"
	"strings"
	"time"

	"github.com/google/mtail/internal/runtime/compiler/ast"
	"github.com/google/mtail/internal/runtime/compiler/checker"
	"github.com/google/mtail/internal/runtime/compiler/opt"
	"github.com/google/mtail/internal/runtime/compiler/parser"
	"github.com/google/mtail/internal/runtime/compiler/position"
	"github.com/google/mtail/internal/runtime/compiler/symbol"
	"github.com/google/mtail/internal/runtime/compiler/types"
)

// C01 — compiled programs compute what the language reference says.
//
//   prog <flags> <program source, hex> <lines, hex tuple>
//
// For every program the real compiler accepts:
//  (a) the checked, typed AST (what codegen.CodeGen receives) and its resolved references are sent
//      to the Lean model, which lowers it to the core language, generates code with its own code
//      generator and answers with the bytecode; that must equal the real compiler's bytecode,
//      string table, regular expressions and metric declarations (OBS `code ...`);
//  (b) every line runs on the real VM; the model runs the same line on its VM model with the
//      bytecode it generated AND evaluates the reference semantics of the core program; all three
//      must give the same outcome and the same metric store (OBS `<i> vm|sem <outcome> <store>`).
// PRED: no accepted program faults inside the VM (as C04); model coverage is reported as stats.

// checkedAST runs the compiler's front end exactly as Compiler.Compile does, up to code generation.
func checkedAST(src string) (ast.Node, error) {
	root, err := parser.Parse("p.mtail", strings.NewReader(src))
	if err != nil {
		return nil, err
	}
	root, err = opt.Optimise(root)
	if err != nil {
		return nil, err
	}
	root, err = checker.Check(root, 0, 0)
	if err != nil {
		return nil, err
	}
	root, err = opt.Optimise(root)
	if err != nil {
		return nil, err
	}
	return root, nil
}

// leafPos is the position of the first leaf of an expression: the key of a pattern expression.
func leafPos(n ast.Node) *position.Position {
	switch v := n.(type) {
	case *ast.BinaryExpr:
		return leafPos(v.LHS)
	case *ast.PatternExpr:
		return leafPos(v.Expr)
	case *ast.ConvExpr:
		return leafPos(v.N)
	case *ast.IndexedExpr:
		return leafPos(v.LHS)
	case *ast.UnaryExpr:
		return leafPos(v.Expr)
	case *ast.PatternLit:
		return &v.P
	case *ast.IDTerm:
		return &v.P
	case *ast.StringLit:
		return &v.P
	case *ast.IntLit:
		return &v.P
	case *ast.FloatLit:
		return &v.P
	case *ast.CaprefTerm:
		return &v.P
	case *ast.BuiltinExpr:
		return &v.P
	}
	return nil
}

type refCollector struct {
	decls   map[*symbol.Symbol]string
	entries []string
	keys    map[string]int
	bad     string
}

func eltType(t types.Type) string {
	if t == nil {
		return "-"
	}
	r := t.Root()
	if types.IsDimension(r) {
		if o, ok := r.(*types.Operator); ok && len(o.Args) > 0 {
			return encType(o.Args[len(o.Args)-1])
		}
	}
	return encType(t)
}

func (c *refCollector) add(kind string, p *position.Position, val string) {
	k := kind + encPos(p)
	c.keys[k]++
	if c.keys[k] > 1 {
		c.bad = "duplicate key " + k
	}
	c.entries = append(c.entries, k+"="+val)
}

func (c *refCollector) VisitBefore(n ast.Node) (ast.Visitor, ast.Node) {
	switch v := n.(type) {
	case *ast.VarDecl:
		if v.Symbol != nil {
			c.decls[v.Symbol] = encPos(&v.P)
		}
		c.add("V", &v.P, eltType(v.Type()))
	case *ast.IDTerm:
		kind, decl := "o", "-"
		if v.Symbol != nil {
			switch v.Symbol.Kind {
			case symbol.VarSymbol:
				kind = "v"
				if d, ok := c.decls[v.Symbol]; ok {
					decl = d
				} else {
					c.bad = "identifier before its declaration"
				}
			case symbol.PatternSymbol:
				kind = "p"
			}
		}
		c.add("I", &v.P, fmt.Sprintf("%s,%s,%d,%s", kind, decl, b2i(v.Lvalue), eltType(v.Type())))
	case *ast.CaprefTerm:
		key, addr := "-", -1
		if v.Symbol != nil {
			addr = v.Symbol.Addr
			if pe, ok := v.Symbol.Binding.(*ast.PatternExpr); ok && pe != nil {
				if lp := leafPos(pe); lp != nil {
					key = encPos(lp)
				}
			}
		}
		c.add("C", &v.P, fmt.Sprintf("%s,%d", key, addr))
	case *ast.DecoStmt:
		decl := "-"
		if v.Decl != nil {
			decl = encPos(&v.Decl.P)
		}
		c.add("D", &v.P, decl)
	case *ast.PatternExpr:
		if lp := leafPos(v); lp != nil {
			// the capture groups of the pattern, by the library's own parser
			names := "-"
			if re, err := types.ParseRegexp(v.Pattern); err == nil {
				var hs []string
				for _, nm := range re.CapNames() {
					hs = append(hs, hx(nm))
				}
				names = strings.Join(hs, ",")
			}
			c.add("G", lp, names)
		} else {
			c.bad = "pattern expression without a leaf position"
		}
	case *ast.DelStmt:
		ast.Walk(c, v.N)
	}
	return c, n
}
func (c *refCollector) VisitAfter(n ast.Node) ast.Node { return n }

// dumpRefs lists what the checker resolved: identifiers to declarations, capture references to
// their pattern and group, decorator uses to definitions, and the inferred element type of metrics.
func dumpRefs(root ast.Node) (string, string) {
	c := &refCollector{decls: map[*symbol.Symbol]string{}, keys: map[string]int{}}
	func() {
		defer func() {
			if e := recover(); e != nil {
				c.bad = fmt.Sprint("panic while collecting references: ", e)
			}
		}()
		ast.Walk(c, root)
	}()
	sort.Strings(c.entries)
	if len(c.entries) == 0 {
		return ".", c.bad
	}
	return strings.Join(c.entries, ";"), c.bad
}

func c01Run(r *runCtx, id string, f []string) {
	src := unhx(f[2])
	lines := unhxs(f[3])
	year, loc := parseFlags(f[1])
	vmCaseCounter++
	name := fmt.Sprintf("c01case%d.mtail", vmCaseCounter)
	u, err := newVMUnderTest(name, src, year, loc)
	if err != nil {
		r.obs(id, "rejected")
		fmt.Fprintf(r.w, "%s MOBS rejected\n", id)
		r.stat("programs_rejected_by_compiler")
		// programs the parser and the type checker let through and the code generator then refuses
		// ("Internal compiler error"): counted by kind in the evidence.  Not reported as violations
		// of "every well-typed program is accepted": what reaches this point in the corpora is
		// arithmetic other than + on strings, int() of a float (docs/Language.md allows a compile
		// error there), ~ used as a truth value, a counter assigned a string, a metric whose type
		// nothing determines - programs the language reference does not call well typed
		if _, cerr := checkedAST(src); cerr == nil {
			r.stat("rejected_by_codegen_only:" + codegenRejectKind(err.Error()))
		}
		r.ok(id)
		r.trivial(id)
		return
	}
	r.stat("programs_accepted")
	root, cerr := checkedAST(src)
	if cerr != nil {
		r.fail(id, "frontend-disagrees", "Compile accepts the program but Parse/Optimise/Check/Optimise run by hand rejects it: %v; program %q", cerr, src)
		return
	}
	astS := dumpAST(root, true)
	refs, bad := dumpRefs(root)
	m := getModel()
	if m == nil {
		r.obs(id, "no-model")
		r.ok(id)
		return
	}
	m.res = u.obj.Regexps
	m.loc = u.loc
	m.year = u.year
	pats := make([]string, len(u.obj.Regexps))
	for i, re := range u.obj.Regexps {
		pats[i] = hx(re.String())
	}
	realCode := encProg(u.obj) + " " + strings.Join(append([]string{"R"}, pats...), ",")
	r.obs(id, "code %s", realCode)
	if bad != "" {
		fmt.Fprintf(r.w, "%s MOBS code %s\n", id, realCode)
		r.stat("outside_model:" + strings.ReplaceAll(bad, " ", "_"))
		r.ok(id)
		r.trivial(id)
		return
	}
	a := m.ask(fmt.Sprintf("A %d %s %s", u.since.Unix(), astS, refs))
	af := strings.SplitN(a, " ", 3)
	if len(af) < 2 || af[0] != "A" {
		fmt.Fprintf(r.w, "%s MOBS model-error %s\n", id, strings.ReplaceAll(a, "\n", " "))
		r.ok(id)
		return
	}
	if af[1] == "resolution" {
		fmt.Fprintf(r.w, "%s MOBS code %s\n", id, realCode)
		r.fail(id, "capref-resolution", "a capture group reference is bound by the checker to a different pattern or group than the scoping rule of the language gives (the nearest enclosing condition that defines it): %s; program: %q", strings.Join(af[2:], " "), src)
		return
	}
	if af[1] == "unsupported" {
		// the lowering declines constructs it does not model; counted, not compared
		fmt.Fprintf(r.w, "%s MOBS code %s\n", id, realCode)
		why := "?"
		if len(af) > 2 {
			why = strings.ReplaceAll(af[2], " ", "_")
		}
		r.stat("outside_model:" + why)
		r.ok(id)
		r.trivial(id)
		return
	}
	if len(af) < 3 {
		fmt.Fprintf(r.w, "%s MOBS model-error %s\n", id, a)
		r.ok(id)
		return
	}
	// af[1] = ok|okS (okS: inside the class the theorem covers), af[2] = code
	fmt.Fprintf(r.w, "%s MOBS code %s\n", id, af[2])
	r.stat("model_lowered")
	inClass := af[1] == "okT"
	if inClass {
		r.stat("inside_theorem_class")
	} else {
		r.stat("outside_theorem_class_otherwise_else")
	}
	if af[2] != realCode {
		// the code generator and its model disagree (reported as a broken correspondence); the lines
		// are still run, so that a program and line on which the real result differs from the
		// reference semantics is found and reported as the failing input
		r.stat("bytecode_differs_from_model")
	}
	if s := m.ask("S " + encStore(u.obj.Metrics, u.since)); s != "S ok" {
		fmt.Fprintf(r.w, "%s MOBS model-error %s\n", id, s)
		r.ok(id)
		return
	}
	failed := false
	scopeReported := false
	refReported := false
	faultSeen := map[string]bool{}
	for i, l := range lines {
		cls, raw := u.runLine("log", l)
		st := encStore(u.obj.Metrics, u.since)
		r.obs(id, "%d vm %s %s", i, cls, st)
		r.stat("outcome_" + cls)
		m.now = time.Now()
		ans := m.ask("L " + hx("log") + " " + hx(l))
		ff := strings.Fields(ans)
		// R <outcome> <store> <memo> SEM <outcome> <store>
		if len(ff) == 7 && ff[0] == "R" && ff[4] == "SEM" {
			fmt.Fprintf(r.w, "%s MOBS %d vm %s %s\n", id, i, canonModelOutcome(ff[1]), ff[2])
			semOut, semStore := canonModelOutcome(ff[5]), ff[6]
			if !inClass && (semOut != cls || semStore != st) {
				// the two `otherwise`/`else` shapes: the language reference and the compiled code differ
				if !scopeReported {
					scopeReported = true
					r.fail(id, "otherwise-else-scope", "line %q: the language reference gives %s %s, the compiled program gives %s %s; program: %q", l, semOut, semStore, cls, st, src)
					failed = true
				}
				r.obs(id, "%d sem %s %s", i, semOut, semStore)
			} else {
				if inClass && (semOut != cls || semStore != st) && !refReported {
					// inside the class the theorem covers, the reference semantics is what the
					// compiled program has to compute: this line is a failing input
					refReported = true
					r.fail(id, "differs-from-reference", "line %q: the reference semantics gives %s %s, the compiled program on the real VM gives %s %s; program: %q", l, semOut, semStore, cls, st, src)
					failed = true
				}
				r.obs(id, "%d sem %s %s", i, cls, st)
			}
			fmt.Fprintf(r.w, "%s MOBS %d sem %s %s\n", id, i, semOut, semStore)
		} else {
			r.obs(id, "%d sem %s %s", i, cls, st)
			fmt.Fprintf(r.w, "%s MOBS %d model-error %s\n", id, i, strings.ReplaceAll(ans, " ", "_"))
		}
		if cls == "fault" {
			fc := faultClass(raw)
			if !faultSeen[fc] {
				faultSeen[fc] = true
				r.fail(id, fc, "line %q makes the accepted program fault inside the VM: %s; program: %q", l, strings.SplitN(raw, "\n", 2)[0], src)
				failed = true
			}
		}
	}
	if !failed {
		r.ok(id)
	}
}

// programs that exercise block structure: else, otherwise, nesting, decorators, stop, del
// lines for the block-structure programs in addition to the standard ones: floats whose %g form
// has an exponent, used as label values and deleted again
var c01ExtraLines = []string{"2500000.5 add", "2500000.5 del", "0.00005 add", "0.00005 del", "1234567.0 1234567.0", "1e6 x", "12.5 add", "12.5 del", " add", " del"}

var c01Programs = []string{
	"counter seen by v\n/^(\\d+\\.\\d+) (\\w+)/ {\n  seen[$1]++\n  $2 == \"del\" {\n    del seen[$1]\n  }\n}\n",
	"counter seen by v\ngauge last by v\n/^(\\d+\\.\\d+) (\\w+)/ {\n  seen[$1]++\n  last[$1] = $1\n  $2 == \"del\" {\n    del seen[$1] after 1h\n    del last[$1]\n  }\n}\n",
	"counter n by k\n/^(\\d+) (\\w+)/ {\n  n[$1]++\n  $2 == \"del\" {\n    del n[$1]\n  }\n}\n",
	"counter hits by who\ndef both {\n  /^(\\w+) / {\n    /(\\d+)$/ {\n      next\n    }\n  }\n}\n@both {\n  hits[$1]++\n}\n",
	"gauge last by k\ndef d {\n  /^(?P<v>\\w+) / {\n    /(?P<v>\\d+)$/ {\n      next\n    }\n  }\n}\n@d {\n  last[\"x\"] = $v\n}\n",
	"counter user by user\ndef d {\n  /^(?P<user>\\w+) / {\n    next\n  }\n}\n@d {\n  user[$user]++\n}\n",
	"counter a by k\n/^(\\w+) (\\w+)/ {\n  /(\\d+)$/ {\n    a[$1]++\n  }\n  a[$2]++\n}\n",
	"counter a by k\n/^(?P<w>\\w+)/ {\n  /(?P<w>\\d+)$/ {\n    a[$w]++\n  } else {\n    a[$w]++\n  }\n}\n",
	"counter a by k\ncounter b\ndef outer {\n  /^(\\w+)/ {\n    next\n  }\n}\ndef inner {\n  /(\\d+)$/ {\n    next\n  }\n}\n@outer {\n  @inner {\n    a[$1]++\n  }\n  b++\n}\n",
	"counter a\ncounter b\ncounter c\n/^(\\d+)/ {\n  a++\n  $1 > 5 {\n    b++\n  } else {\n    c++\n  }\n}\n",
	"counter a\ncounter b\ncounter c\n/foo/ {\n  a++\n}\n/bar/ {\n  b++\n}\notherwise {\n  c++\n}\n",
	"counter a\ncounter b\ncounter c\n/^(\\w+)/ {\n  /foo/ {\n    a++\n  }\n  /bar/ {\n    b++\n  }\n  otherwise {\n    c++\n  }\n}\n",
	"counter a\ncounter b\n/x/ {\n  a++\n} else {\n  otherwise {\n    b++\n  }\n}\n",
	"counter a\ncounter b\ncounter c\n/foo/ {\n  a++\n}\n/x/ {\n  b++\n} else {\n  otherwise {\n    c++\n  }\n}\n",
	"counter a\ncounter b\ncounter c\n/x/ {\n  a++\n} else {\n  /foo/ {\n    b++\n  }\n}\notherwise {\n  c++\n}\n",
	"counter a\ncounter b\n/^(\\d+) (\\d+)/ {\n  $1 > 1 && $2 > 1 {\n    a++\n  }\n  $1 > 1 || $2 > 1 {\n    b++\n  }\n}\n",
	"counter a\ncounter b\n/^(\\d+)/ {\n  a++\n  $1 == 0 {\n    stop\n  }\n  b++\n}\n",
	"counter a by k\n/^(\\w+) (\\d+)/ {\n  a[$1] += $2\n  $2 == 0 {\n    del a[$1]\n  }\n}\n",
	"counter a by k\n/^(\\w+)/ {\n  a[$1]++\n  del a[$1] after 1h\n}\n",
	"counter a\ncounter b\ndef d {\n  /^(\\d+)/ {\n    a++\n    next\n  }\n}\n@d {\n  b += $1\n}\n",
	"counter a\ncounter b\ndef d {\n  /^(\\d+)/ {\n    next\n  }\n}\ndef e {\n  /7/ {\n    @d {\n      next\n    }\n  }\n}\n@e {\n  a++\n}\n@d {\n  b++\n}\n",
	"gauge g\ngauge f\ntext t\n/^(\\d+) (\\d+\\.\\d+) (\\w+)/ {\n  g = $1 * 2 - 1\n  f = $2 / 2.0 + $1\n  t = $3 + \"-\" + tolower($3)\n}\n",
	"gauge g\n/^(\\d+) (\\d+)/ {\n  g = ($1 & 6) | ($2 << 2) ^ 1\n  g += $1 % 3\n  g = $1 ** 2 >> 1\n}\n",
	"counter a\ncounter b\ncounter c\n/^(\\S+) (\\S+)/ {\n  $1 =~ /^f/ {\n    a++\n  }\n  $2 !~ /z$/ {\n    b++\n  }\n  $1 =~ /o/ && $2 =~ /a/ {\n    c++\n  }\n}\n",
	"gauge g\ngauge h\n/^(\\d+)\\.(\\d+)/ {\n  g = len($1) + strtol($2, 10)\n  h = int($1) + float($2)\n}\n",
	"gauge g\ntext t\n/^(\\d+)/ {\n  g = timestamp()\n  t = getfilename()\n  settime($1)\n  g = timestamp()\n}\n",
	"gauge g\n/^(\\d{4}-\\d\\d-\\d\\dT\\d\\d:\\d\\d:\\d\\dZ)/ {\n  strptime($1, \"2006-01-02T15:04:05Z\")\n  g = timestamp()\n}\n",
	"text t\n/^(\\w+)/ {\n  t = subst(\"o\", \"0\", $1)\n  t = subst(/[aeiou]/, \"*\", t)\n}\n",
	"histogram h buckets 1, 2, 4\nhistogram hk by k buckets 0.5, 1\n/^(\\d+) (\\d+\\.\\d+) (\\w+)/ {\n  h = $1\n  hk[$3] = $2\n}\n",
	"counter a\ngauge g\n/^(\\d+)/ {\n  a++\n  g = a\n  g == 3 {\n    a = 0\n  }\n}\n",
	"counter a\n/^(\\d+)/ {\n  ~$1 < 0 {\n    a++\n  }\n}\n",
	"counter a\ncounter b\nconst P /^(?P<n>\\d+)/\nP {\n  a += $n\n}\nP && /9/ {\n  b++\n}\n",
	"gauge g\n/^(\\d+) (\\d+)/ {\n  $1 < $2 {\n    g = 1\n  }\n  $1 <= $2 {\n    g += 2\n  }\n  $1 >= $2 {\n    g += 4\n  }\n  $1 != $2 {\n    g += 8\n  }\n}\n",
	"gauge g\n/^(\\d+\\.\\d+) (\\d+\\.\\d+)/ {\n  $1 < $2 {\n    g = 1\n  }\n  $1 == $2 {\n    g = 2\n  }\n  $1 > $2 || $1 != $2 {\n    g += 4\n  }\n}\n",
	"gauge g\n/^(\\w+) (\\w+)/ {\n  $1 < $2 {\n    g = 1\n  }\n  $1 == $2 {\n    g = 2\n  }\n  $1 > \"m\" {\n    g += 4\n  }\n}\n",
	"counter a\ncounter b\n/^(\\d+)/ {\n  /^1/ {\n    a++\n  } else {\n    /^2/ {\n      b++\n    } else {\n      /^3/ {\n        a += 3\n      } else {\n        b += 4\n      }\n    }\n  }\n}\n",
	// a deletion names its own tuple, whatever the order of the keys (the mirrored tuple is there too)
	"counter hits by src, dst\n/^(\\S+) (add|del)$/ {\n  hits[$1][$2]++\n  hits[$2][$1]++\n}\n/^(\\S+) del$/ {\n  del hits[$1][\"del\"]\n}\n/^(\\S+) add$/ {\n  del hits[\"add\"][$1] after 1h\n}\n",
	// a length as a truth value under && and || (zero is false, like every other integer)
	"counter c\ncounter d\n/^(\\S*) add/ && len($1) && 1 {\n  c++\n}\n/^(\\S*) del/ && (len($1) || 0) {\n  d++\n}\n",
	// the replacement of subst() is literal text, `$` and all
	"text t\ntext u\ncounter c by k\n/^(\\S+) (\\S+)/ {\n  t = subst(/(\\d+)\\.(\\d+)/, \"$2.$1\", $1)\n  u = subst(/(?P<n>\\d+)/, \"${n}$n$$\", $1)\n  c[subst(/\\d+/, \"$id\", $1)]++\n}\n",
	// strings whose type is inferred (a dimensioned text metric, a builtin's result) are compared as
	// strings, also when they look like numbers
	"counter c\ncounter d\ncounter e\ntext tt by k\n/^(\\S+) (\\S+)$/ {\n  tt[$1] = $1\n  tt[$1] == $2 {\n    c++\n  }\n  tolower($1) == \"1234567.0\" {\n    d++\n  }\n  subst(\"a\", \"b\", $1) < $2 {\n    e++\n  }\n}\n",
}

func init() {
	props["C01"] = &propImpl{
		gen: func(g *genCtx) {
			n, ex := 250, 25
			if g.thorough() {
				n, ex = 4000, 200
			}
			for _, p := range c01Programs {
				g.emit("prog", "-", hx(p), hxs(append(append([]string{}, vmStdLines...), c01ExtraLines...)))
			}
			for _, c := range vmGenCases(g, n, ex) {
				f := c.fields()
				f[0] = "prog"
				g.emit(f...)
			}
		},
		run:    c01Run,
		finish: func(r *runCtx) { props["C04"].finish(r) },
	}
}

var (
	reConvert  = regexp.MustCompile(`can't convert "?([A-Za-z]+)"? to "?([A-Za-z]+)"?`)
	reNoOpcode = regexp.MustCompile(`no opcode for type ([A-Za-z]+) in op (\d+)`)
)

// codegenRejectKind names the reason the code generator gives, without positions and node dumps.
func codegenRejectKind(msg string) string {
	switch {
	case reConvert.MatchString(msg):
		m := reConvert.FindStringSubmatch(msg)
		return "convert-" + m[1] + "-to-" + m[2]
	case reNoOpcode.MatchString(msg):
		m := reNoOpcode.FindStringSubmatch(msg)
		op := m[2]
		if n, err := strconv.Atoi(m[2]); err == nil {
			op = parser.Kind(n).String()
		}
		return "no-opcode-" + m[1] + "-" + op
	case strings.Contains(msg, "Can't initialize to zero"):
		return "zero-initialise"
	case strings.Contains(msg, "invalid type for get"):
		return "get-of-untyped-metric"
	case strings.Contains(msg, "at least two boundaries"):
		return "histogram-boundaries"
	case strings.Contains(msg, "invalid type for add-assignment"):
		return "add-assign-type"
	case strings.Contains(msg, "unexpected rhs expression for match"):
		return "match-rhs"
	case strings.Contains(msg, "too many arguments to builtin"):
		return "conversion-arity"
	case strings.Contains(msg, "buckets boundaries must be sorted"):
		return "histogram-boundaries-unsorted"
	}
	w := strings.Fields(strings.TrimPrefix(firstLine(msg[strings.Index(msg, ": ")+2:]), "Internal compiler error, aborting compilation: "))
	if len(w) > 4 {
		w = w[:4]
	}
	return regexp.MustCompile(`[^A-Za-z0-9_-]`).ReplaceAllString(strings.Join(w, "-"), "")
}
