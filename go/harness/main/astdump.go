//go:build verif

package main

import (
	"fmt"
	"strings"

	"github.com/google/mtail/internal/metrics"
	"github.com/google/mtail/internal/runtime/compiler/ast"
	"github.com/google/mtail/internal/runtime/compiler/parser"
	"github.com/google/mtail/internal/runtime/compiler/position"
	"github.com/google/mtail/internal/runtime/compiler/types"
)

// AST on the wire (prefix notation, space-separated tokens; every string is hex):
//
//	S n <child>*                      StmtList          X n <child>*        ExprList
//	C <cond|_> <truth> <else|_>       CondStmt
//	I <name> <pos> <ty>               IDTerm            R <name> <0|1> <pos> <ty>   CaprefTerm
//	B <name> <args|_> <pos> <ty>      BuiltinExpr
//	N <op> <lhs> <rhs> <ty>           BinaryExpr        U <op> <expr> <pos> <ty>    UnaryExpr
//	A <lhs> <index> <ty>              IndexedExpr
//	D <kind> <name> <hidden> <exported> <keys> <limit> <buckets> <pos>   VarDecl
//	s <text> <pos>   i <int> <pos>   f <bits> <pos>    literals
//	P <expr> <pattern>                PatternExpr       p <pattern> <pos>   PatternLit
//	K <id> <expr> <pattern>           PatternFragment
//	E <name> <block> <pos>            DecoDecl          @ <name> <block> <pos>  DecoStmt
//	n <pos>  o <pos>  t <pos>         next, otherwise, stop
//	d <node> <expiry ns> <pos>        DelStmt           V <node> <ty>       ConvExpr
//	! <spelling> <pos>                Error
//
// pos = line:startcol:endcol (zero based, as position.Position); ty = a type name or `-`.

func encPos(p *position.Position) string {
	if p == nil {
		return "-1:-1:-1"
	}
	return fmt.Sprintf("%d:%d:%d", p.Line, p.Startcol, p.Endcol)
}

func encType(t types.Type) (s string) {
	defer func() {
		if recover() != nil {
			s = "?"
		}
	}()
	if t == nil {
		return "-"
	}
	r := t.Root()
	// a type that is not the global type object itself (it is reached through a type variable, or
	// is a copy made by the type checker) is marked: codegen's comparison case switches on the
	// identity of the node's type, not on its root
	if _, rootVar := r.(*types.Variable); !rootVar {
		identical := t == types.Int || t == types.Float || t == types.String || t == types.Bool ||
			t == types.Pattern || t == types.None || t == types.Buckets || t == types.Undef
		if !identical {
			defer func() {
				if s != "Error" && s != "Dim" && s != "Other" && s != "?" {
					s += "~"
				}
			}()
		}
	}
	switch {
	case types.IsTypeError(r):
		return "Error"
	case types.Equals(r, types.Int):
		return "Int"
	case types.Equals(r, types.Float):
		return "Float"
	case types.Equals(r, types.String):
		return "String"
	case types.Equals(r, types.Bool):
		return "Bool"
	case types.Equals(r, types.Pattern):
		return "Pattern"
	case types.Equals(r, types.None):
		return "None"
	case types.Equals(r, types.Buckets):
		return "Buckets"
	case types.Equals(r, types.Undef):
		return "Undef"
	}
	if types.IsDimension(r) {
		return "Dim"
	}
	if _, ok := r.(*types.Variable); ok {
		return "Var"
	}
	return "Other"
}

func opName(op int) string { return parser.Kind(op).String() }

type astDumper struct {
	b     strings.Builder
	types bool
}

func (d *astDumper) ty(n ast.Node) string {
	if !d.types {
		return "-"
	}
	return encType(n.Type())
}

func (d *astDumper) opt(n ast.Node) {
	if n == nil {
		d.b.WriteString(" _")
		return
	}
	d.node(n)
}

func isNilNode(n ast.Node) bool {
	if n == nil {
		return true
	}
	switch v := n.(type) {
	case *ast.StmtList:
		return v == nil
	case *ast.ExprList:
		return v == nil
	}
	return false
}

func (d *astDumper) node(n ast.Node) {
	w := func(format string, a ...interface{}) { fmt.Fprintf(&d.b, " "+format, a...) }
	switch v := n.(type) {
	case *ast.StmtList:
		w("S %d", len(v.Children))
		for _, c := range v.Children {
			d.node(c)
		}
	case *ast.ExprList:
		w("X %d", len(v.Children))
		for _, c := range v.Children {
			d.node(c)
		}
	case *ast.CondStmt:
		w("C")
		d.opt(v.Cond)
		d.node(v.Truth)
		if isNilNode(v.Else) {
			d.b.WriteString(" _")
		} else {
			d.node(v.Else)
		}
	case *ast.IDTerm:
		w("I %s %s %s", hx(v.Name), encPos(&v.P), d.ty(v))
	case *ast.CaprefTerm:
		w("R %s %d %s %s", hx(v.Name), b2i(v.IsNamed), encPos(&v.P), d.ty(v))
	case *ast.BuiltinExpr:
		w("B %s", hx(v.Name))
		if isNilNode(v.Args) {
			d.b.WriteString(" _")
		} else {
			d.node(v.Args)
		}
		w("%s %s", encPos(&v.P), d.ty(v))
	case *ast.BinaryExpr:
		w("N %s", opName(v.Op))
		d.node(v.LHS)
		d.node(v.RHS)
		w("%s", d.ty(v))
	case *ast.UnaryExpr:
		w("U %s", opName(v.Op))
		d.node(v.Expr)
		w("%s %s", encPos(&v.P), d.ty(v))
	case *ast.IndexedExpr:
		w("A")
		d.node(v.LHS)
		d.node(v.Index)
		w("%s", d.ty(v))
	case *ast.VarDecl:
		bs := make([]string, len(v.Buckets))
		for i, f := range v.Buckets {
			bs[i] = fbits(f)
		}
		bss := strings.Join(bs, ",")
		if len(bs) == 0 {
			bss = "."
		}
		w("D %d %s %d %s %s %d %s %s", int(v.Kind), hx(v.Name), b2i(v.Hidden), hx(v.ExportedName), hxs(v.Keys), v.Limit, bss, encPos(&v.P))
	case *ast.StringLit:
		w("s %s %s", hx(v.Text), encPos(&v.P))
	case *ast.IntLit:
		w("i %d %s", v.I, encPos(&v.P))
	case *ast.FloatLit:
		w("f %s %s", fbits(v.F), encPos(&v.P))
	case *ast.PatternExpr:
		w("P")
		d.node(v.Expr)
		w("%s", hx(v.Pattern))
	case *ast.PatternLit:
		w("p %s %s", hx(v.Pattern), encPos(&v.P))
	case *ast.PatternFragment:
		w("K")
		d.node(v.ID)
		d.node(v.Expr)
		w("%s", hx(v.Pattern))
	case *ast.DecoDecl:
		w("E %s", hx(v.Name))
		d.node(v.Block)
		w("%s", encPos(&v.P))
	case *ast.DecoStmt:
		w("@ %s", hx(v.Name))
		d.node(v.Block)
		w("%s", encPos(&v.P))
	case *ast.NextStmt:
		w("n %s", encPos(&v.P))
	case *ast.OtherwiseStmt:
		w("o %s", encPos(&v.P))
	case *ast.StopStmt:
		w("t %s", encPos(&v.P))
	case *ast.DelStmt:
		w("d")
		d.node(v.N)
		w("%d %s", int64(v.Expiry), encPos(&v.P))
	case *ast.ConvExpr:
		w("V")
		d.node(v.N)
		w("%s", d.ty(v))
	case *ast.Error:
		w("! %s %s", hx(v.Spelling), encPos(&v.P))
	default:
		w("? %T", n)
	}
}

func dumpAST(n ast.Node, withTypes bool) string {
	d := &astDumper{types: withTypes}
	d.node(n)
	return strings.ReplaceAll(strings.TrimSpace(d.b.String()), " ", "\x1f")
}

var _ = metrics.Counter
