//go:build verif

package main

import (
	"bytes"
	"fmt"
	"math"
	"math/rand"
	"os"
	"os/exec"
	"path/filepath"
	"regexp"
	"sort"
	"strconv"
	"strings"
	"time"

	"github.com/google/mtail/internal/runtime/compiler/ast"
	"github.com/google/mtail/internal/runtime/compiler/checker"
	"github.com/google/mtail/internal/runtime/compiler/parser"
)

// C23 — formatting a program preserves its meaning.
//
//   fmt <source hex> <AST of the source as parsed>
//
// What cmd/mfmt does: Parse, Check, Unparse.  PRED: the output parses; its AST equals the source's
// AST once positions are dropped (declarations with kind, name, hidden flag, exported name, keys,
// limit, buckets; statement structure; expression trees; patterns; string literals); formatting
// the output again gives the same text.  OBS: the formatted text (hex), compared with the Lean
// model of the unparser run on the checked AST.

var posRe = regexp.MustCompile(`-?\d+:-?\d+:-?\d+`)

// stripAST removes positions from a wire-format AST.
func stripAST(s string) string {
	toks := strings.Split(s, "\x1f")
	for i, t := range toks {
		if posRe.MatchString(t) && strings.Count(t, ":") == 2 {
			toks[i] = "@"
		}
	}
	return strings.Join(toks, " ")
}

func formatProgram(src string) (text string, checkedAST string, err error) {
	root, err := parser.Parse("p.mtail", strings.NewReader(src))
	if err != nil {
		return "", "", err
	}
	chk, err := checker.Check(root, 0, 0)
	if err != nil {
		return "", "", err
	}
	u := parser.Unparser{}
	return u.Unparse(chk), dumpAST(chk, false), nil
}

func firstDiff(a, b string) string {
	x, y := strings.Fields(a), strings.Fields(b)
	for i := 0; i < len(x) && i < len(y); i++ {
		if x[i] != y[i] {
			lo := i - 4
			if lo < 0 {
				lo = 0
			}
			hi := i + 6
			hx, hy := hi, hi
			if hx > len(x) {
				hx = len(x)
			}
			if hy > len(y) {
				hy = len(y)
			}
			return fmt.Sprintf("token %d: source ...%s... formatted ...%s...", i, strings.Join(x[lo:hx], " "), strings.Join(y[lo:hy], " "))
		}
	}
	return fmt.Sprintf("lengths %d vs %d", len(x), len(y))
}

func c23Run(r *runCtx, id string, f []string) {
	if f[0] == "expr" {
		c23ExprRun(r, id, f)
		return
	}
	src := unhx(f[1])
	var text1, chkAST string
	var ferr error
	func() {
		defer func() {
			if e := recover(); e != nil {
				ferr = fmt.Errorf("PANIC %v", e)
			}
		}()
		text1, chkAST, ferr = formatProgram(src)
	}()
	if ferr != nil {
		r.obs(id, "rejected")
		r.ok(id)
		r.trivial(id)
		r.stat("rejected")
		return
	}
	_ = chkAST
	r.obs(id, "%s", hx(text1))
	r.stat("formatted")
	a1, _ := parser.Parse("p.mtail", strings.NewReader(src))
	want := stripAST(dumpAST(a1, false))
	root2, perr := parser.Parse("p.mtail", strings.NewReader(text1))
	if perr != nil {
		r.fail(id, classifyFmt(src, text1, "", ""), "the formatted text does not parse: %v; source %q; formatted %q", strings.ReplaceAll(perr.Error(), "\n", " | "), src, text1)
		return
	}
	got := stripAST(dumpAST(root2, false))
	if got != want {
		r.fail(id, classifyFmt(src, text1, want, got), "the formatted text parses to a different program: %s; source %q; formatted %q", firstDiff(want, got), src, text1)
		return
	}
	text2, _, err2 := formatProgram(text1)
	if err2 != nil {
		r.fail(id, "format-output-rejected", "the formatted text is rejected by the checker: %v; formatted %q", err2, text1)
		return
	}
	if text2 != text1 {
		r.fail(id, "format-not-idempotent", "formatting the formatted text changes it: first %q second %q", text1, text2)
		return
	}
	// the command as shipped: what `mfmt -prog f` prints and what `mfmt -prog f -write` leaves in
	// the file is that same text
	if bin := os.Getenv("VERIF_TOOL_MFMT"); bin != "" {
		for _, wr := range []bool{false, true} {
			out, err := runMfmt(bin, src, wr)
			if err != nil {
				r.fail(id, "mfmt-command", "mfmt (write=%v) failed on a program the formatter accepts: %v; source %q", wr, err, src)
				return
			}
			if out != text1 {
				r.fail(id, "mfmt-command", "mfmt (write=%v) produces %q, the formatter's text is %q", wr, out, text1)
				return
			}
		}
		r.stat("mfmt_command_runs")
	}
	r.ok(id)
}

// runMfmt runs the built cmd/mfmt on src and returns what it printed, or what it wrote back.
func runMfmt(bin, src string, write bool) (string, error) {
	dir, err := os.MkdirTemp("", "verif-mfmt")
	if err != nil {
		return "", err
	}
	defer os.RemoveAll(dir)
	// the parser is given the file's path as the program name, which does not appear in the output
	path := filepath.Join(dir, "p.mtail")
	if err := os.WriteFile(path, []byte(src), 0o644); err != nil {
		return "", err
	}
	args := []string{"-prog", path, "-logtostderr"}
	if write {
		args = append(args, "-write")
	}
	cmd := exec.Command(bin, args...)
	var stdout, stderr bytes.Buffer
	cmd.Stdout, cmd.Stderr = &stdout, &stderr
	if err := cmd.Run(); err != nil {
		return "", fmt.Errorf("%v: %s", err, strings.TrimSpace(stderr.String()))
	}
	if !write {
		return stdout.String(), nil
	}
	b, err := os.ReadFile(path)
	return string(b), err
}

// classifyFmt names the way the formatter lost something, so that distinct defects are distinct classes.
func classifyFmt(src, text, want, got string) string {
	switch {
	case want == "" && strings.Contains(src, `\"`):
		return "format-string-quote"
	case want == "":
		return "format-output-unparseable"
	}
	w, g := strings.Fields(want), strings.Fields(got)
	for i := 0; i < len(w) && i < len(g); i++ {
		if w[i] != g[i] {
			// inside a declaration?
			for j := i; j >= 0 && j > i-9; j-- {
				if w[j] == "D" {
					switch i - j {
					case 3:
						return "format-drops-hidden"
					case 4:
						return "format-drops-as"
					case 7:
						return "format-buckets"
					}
					return "format-declaration"
				}
			}
			return "format-expression-tree"
		}
	}
	return "format-structure"
}

// c23Oracle lists how Go prints every float and duration that occurs in the program:
// f<bits>=<hex of FormatFloat(f,'g',-1,64)>  d<ns>=<hex of Duration.String()>
type numCollector struct{ out map[string]string }

func (c *numCollector) VisitBefore(n ast.Node) (ast.Visitor, ast.Node) {
	switch v := n.(type) {
	case *ast.FloatLit:
		c.out["f"+fbits(v.F)] = hx(strconv.FormatFloat(v.F, 'g', -1, 64))
	case *ast.VarDecl:
		for _, b := range v.Buckets {
			c.out["f"+fbits(b)] = hx(strconv.FormatFloat(b, 'g', -1, 64))
		}
	case *ast.DelStmt:
		// the form the lexer reads back: Duration.String from a millisecond up (h, m, s, ms), a
		// fraction of a second below (the lexer knows neither µs nor ns)
		ds := v.Expiry.String()
		if v.Expiry < time.Millisecond {
			ds = strings.TrimRight(fmt.Sprintf("0.%09d", int64(v.Expiry)), "0") + "s"
		}
		c.out[fmt.Sprintf("d%d", int64(v.Expiry))] = hx(ds)
		ast.Walk(c, v.N)
	}
	return c, n
}
func (c *numCollector) VisitAfter(n ast.Node) ast.Node { return n }

func c23Oracle(src string) string {
	root, err := parser.Parse("p.mtail", strings.NewReader(src))
	if err != nil || root == nil {
		return "."
	}
	c := &numCollector{out: map[string]string{}}
	ast.Walk(c, root)
	if len(c.out) == 0 {
		return "."
	}
	keys := make([]string, 0, len(c.out))
	for k := range c.out {
		keys = append(keys, k)
	}
	sort.Strings(keys)
	parts := make([]string, len(keys))
	for i, k := range keys {
		parts[i] = k + "=" + c.out[k]
	}
	return strings.Join(parts, ";")
}

var c23Programs = []string{
	"gauge g\n/^(\\d+) (\\d+)$/ {\n  g = ($1 + $2) * 3\n}\n",
	"gauge g\n/^(\\d+) (\\d+)$/ {\n  g = $1 - ($2 - 3)\n}\n",
	"gauge g\n/^(\\d+) (\\d+)$/ {\n  g = $1 * ($2 ** 2)\n}\n",
	"gauge g\n/^(\\d+) (\\d+)$/ {\n  g = ($1 & 3) == 1\n}\n",
	"counter c\n/^(\\d+) (\\d+)$/ {\n  ($1 > 1 || $2 > 1) && $1 < 9 {\n    c++\n  }\n}\n",
	"counter c\n/^(\\d+)$/ {\n  ~($1 + 1) > 0 {\n    c++\n  }\n}\n",
	"hidden gauge g\ncounter c\n/^(\\d+)$/ {\n  g = $1\n  c += g\n}\n",
	"counter c as \"c-total\"\n/x/ {\n  c++\n}\n",
	"counter c by a, b as \"requests\" limit 10\n/^(\\w+) (\\w+)/ {\n  c[$1][$2]++\n}\n",
	"text t\n/^(\\w+)$/ {\n  t = \"say \\\"hi\\\" \" + $1\n}\n",
	"histogram h buckets 0.0000001, 0.5, 1\n/^(\\d+\\.\\d+)$/ {\n  h = $1\n}\n",
	"histogram h buckets 1, 2.5, 1e6\n/^(\\d+)$/ {\n  h = $1\n}\n",
	"histogram h by k buckets 0.005, 0.01, 0.025\n/^(\\d+) (\\w+)/ {\n  h[$2] = $1\n}\n",
	"counter c\n/a\\/b/ {\n  c++\n}\n",
	"counter c\n/https:\\\\\\/\\\\\\/host/ {\n  c++\n}\n",
	"counter c\nconst P /a\\/b/\nP {\n  c++\n}\n",
	"counter c by k\n/^(\\w+)/ {\n  del c[$1] after 1h30m\n}\n/x/ {\n  c[\"x\"]++\n}\n",
	"counter c by k\n/^(\\w+)/ {\n  del c[$1] after 90s\n  c[$1]++\n}\n",
	"counter c by k\n/^(\\w+)/ {\n  del c[$1] after 1500ms\n  c[$1]++\n}\n",
	"counter c by k\n/^(\\w+)/ {\n  del c[$1] after 2.5s\n  c[$1]++\n}\n",
	"counter c by k\n/^(\\w+)/ {\n  del c[$1] after 500ms\n  c[$1]++\n}\n",
	"counter c by k\n/^(\\w+)/ {\n  del c[$1] after 0.25s\n  c[$1]++\n}\n",
	"counter c by k\n/^(\\w+)/ {\n  del c[$1] after 1h0.5s\n  c[$1]++\n}\n",
	"counter c by k\n/^(\\w+)/ {\n  del c[$1] after 168h\n  c[$1]++\n}\n",
	"counter c by k\n/^(\\w+)/ {\n  del c[$1] after 1m30s\n  c[$1]++\n}\n",
	"counter c\n/x/ {\n  c++\n} else {\n  c += 2\n}\notherwise {\n  c--\n}\n",
	"gauge g\n/^(\\d+)$/ {\n  g = -1 + $1\n}\n",
	"gauge g\n/^(\\d+)$/ {\n  g = $1 - -1\n}\n",
	"gauge f\n/^(\\d+\\.\\d+)$/ {\n  f = $1 * 1e-7 + 2.50\n}\n",
	"counter \"quoted-name\"\n",
	// label keys that were written as strings because they are no identifiers, and expiries below
	// a millisecond
	"counter foo by \"a limit 5\"\n/(x)/ {\n  foo[$1]++\n}\n",
	"counter foo by \"a, b\"\n/(x)/ {\n  foo[$1]++\n}\n",
	"counter foo by \"limit\", b, \"len\", \"_u\", \"content-type\", \"http.status\"\n/(x)/ {\n  foo[$1][$1][$1][$1][$1][$1]++\n}\n",
	"counter foo by a\n/(x)/ {\n  foo[$1]++\n  del foo[$1] after 0.0000015s\n}\n",
	"counter foo by a\n/(x)/ {\n  foo[$1]++\n  del foo[$1] after 0.000000001s\n}\n",
	"counter foo by a\n/(x)/ {\n  foo[$1]++\n  del foo[$1] after 0.000999999s\n}\n",
	"counter foo by a\n/(x)/ {\n  foo[$1]++\n  del foo[$1] after 1.0000015s\n}\n",
	// backslashes in string literals and exported names: at the end, doubled, before a quote
	"text t\n/x/ {\n  t = \"C:\\\\logs\\\\\"\n}\n",
	"text t\n/x/ {\n  t = \"\\\\\\\\host\\\\share\"\n}\n",
	"text t\n/x/ {\n  t = \"say \\\\\\\"hi\\\\\\\"\"\n}\n",
	"text t\n/x/ {\n  t = \"a\\\\b\" + \"\\\\\"\n}\n",
	"counter c as \"dir\\\\\"\n/x/ {\n  c++\n}\n",
	"counter c\n/(\\S+)/ {\n  $1 == \"\\\\\\\\\" {\n    c++\n  }\n}\n",
	"timer t\n/^(\\d+)$/ {\n  t = $1\n}\n",
	"counter c\n/^(\\S+) (\\S+)/ {\n  $1 =~ /^f/ && $2 !~ \"ba+r\" {\n    c++\n  }\n}\n",
	// the right side of a match written as an expression in parentheses (the checker wraps it in a
	// pattern node; it keeps its parentheses), beside patterns, which have none
	"counter c\nconst A /x+/\n/^(\\S+) (\\S+)/ {\n  $1 =~ (\"a\" + \"b\") {\n    c++\n  }\n  $1 !~ (\"a\" + $2) {\n    c++\n  }\n  $2 =~ /a/ + A + /b/ {\n    c++\n  }\n  $2 =~ (tolower($1) + \"$\") {\n    c++\n  }\n  $1 =~ \"lit\" {\n    c++\n  }\n  $1 =~ (\"lit\") {\n    c++\n  }\n}\n",
	"counter c\n# a comment\n/x/ {  # trailing\n  c++\n}\n",
	// characters that mean something to a printing routine: % in operators, strings and patterns
	"gauge g\n/^(\\d+)$/ {\n  g = $1 % 7\n}\n",
	"text t\n/^(\\d+)%$/ {\n  t = \"100%% of %d %s\" + $1\n}\n",
	"counter c\n/^(\\d+)%%d$/ {\n  c++\n}\n",
	"counter c by k\n/%v(?P<x>\\w+)%!/ {\n  c[\"%[1]d\"]++\n}\n",
}

func init() {
	props["C23"] = &propImpl{
		gen: func(g *genCtx) {
			var srcs []string
			srcs = append(srcs, c23Programs...)
			srcs = append(srcs, vmHandPrograms...)
			srcs = append(srcs, c24Bases...)
			for _, c := range vmExampleCases(0) {
				srcs = append(srcs, c.src)
			}
			n := 200
			if g.thorough() {
				n = 4000
			}
			for i := 0; i < n; i++ {
				srcs = append(srcs, genProgram(g.r))
			}
			for _, s := range srcs {
				ast0 := "PARSE-ERROR"
				if root, err := parser.Parse("p.mtail", strings.NewReader(s)); err == nil && root != nil {
					if chk, cerr := checker.Check(root, 0, 0); cerr == nil {
						ast0 = dumpAST(chk, false)
					} else {
						ast0 = "REJECTED"
					}
				}
				g.emit("fmt", hx(s), ast0, c23Oracle(s))
			}
			ne := 300
			if g.thorough() {
				ne = 40000
			}
			for i := 0; i < ne; i++ {
				seed := int64(g.r.next() >> 1)
				depth := 1 + g.r.intn(7)
				e := genExprAST(rand.New(rand.NewSource(seed)), depth)
				g.emit("expr", fmt.Sprint(seed), fmt.Sprint(depth), dumpAST(e, false))
			}
		},
		run: c23Run,
	}
}

// ---- expression trees ---------------------------------------------------------------------
//
//   expr <seed> <depth> <AST of the generated expression tree>
//
// A random expression tree (not a text) is formatted by the real Unparser; the text is lexed by
// the real lexer and parsed by the real parser (as the right-hand side of an assignment).
// PRED: the tree that comes back is the tree that went in.  OBS: the token stream and the parsed
// tree, compared with the Lean model's `toks` and `parseAt` on the same tree — the definitions
// the round-trip theorem (Props/C23.lean) is about.

var exprBinOps = []int{
	parser.AND, parser.OR, parser.BITAND, parser.BITOR, parser.XOR,
	parser.LT, parser.GT, parser.LE, parser.GE, parser.EQ, parser.NE,
	parser.SHL, parser.SHR, parser.PLUS, parser.MINUS,
	parser.MUL, parser.DIV, parser.MOD, parser.POW,
}

var exprFloats = []float64{0, 1, 2.5, 1e6, 1e-7, -3.25, 1e21, 123456789.125, -0.5}
var exprBuiltins = []string{"len", "strtol", "tolower", "int", "float", "string", "subst", "strptime", "getfilename", "timestamp"}

func genExprAST(r *rand.Rand, depth int) ast.Node {
	if depth <= 0 || r.Intn(10) < 2 {
		switch r.Intn(7) {
		case 0:
			return &ast.IntLit{I: int64(r.Intn(2000)) - 1000}
		case 1:
			return &ast.FloatLit{F: exprFloats[r.Intn(len(exprFloats))]}
		case 2:
			return &ast.StringLit{Text: []string{"", "a", "a b", "q\"uote", "back\\slash", "é", "C:\\\\logs\\\\", "\\\\\\\\host", "x\\\\\"y"}[r.Intn(9)]}
		case 3:
			return &ast.CaprefTerm{Name: fmt.Sprint(r.Intn(4)), IsNamed: false}
		case 4:
			return &ast.CaprefTerm{Name: []string{"x", "name_1", "y2"}[r.Intn(3)], IsNamed: true}
		case 5:
			return &ast.IndexedExpr{LHS: &ast.IDTerm{Name: []string{"g", "h", "foo_bar"}[r.Intn(3)]}, Index: &ast.ExprList{}}
		default:
			return &ast.BuiltinExpr{Name: []string{"timestamp", "getfilename"}[r.Intn(2)]}
		}
	}
	switch k := r.Intn(20); {
	case k < 12:
		op := exprBinOps[r.Intn(len(exprBinOps))]
		return &ast.BinaryExpr{LHS: genExprAST(r, depth-1), RHS: genExprAST(r, depth-1), Op: op}
	case k < 14:
		return &ast.UnaryExpr{Expr: genExprAST(r, depth-1), Op: parser.NOT}
	case k < 15:
		return &ast.UnaryExpr{Expr: genExprAST(r, depth-1), Op: []int{parser.INC, parser.DEC}[r.Intn(2)]}
	case k < 18:
		n := 1 + r.Intn(3)
		args := &ast.ExprList{}
		for i := 0; i < n; i++ {
			args.Children = append(args.Children, genExprAST(r, depth-1))
		}
		if k == 17 {
			return &ast.BuiltinExpr{Name: exprBuiltins[r.Intn(len(exprBuiltins))], Args: args}
		}
		return &ast.IndexedExpr{LHS: &ast.IDTerm{Name: []string{"g", "h", "foo_bar"}[r.Intn(3)]}, Index: args}
	default:
		// a chain at one level: where associativity matters
		ops := [][]int{{parser.MINUS, parser.PLUS}, {parser.DIV, parser.MUL, parser.MOD, parser.POW}, {parser.SHL, parser.SHR}, {parser.LT, parser.EQ}, {parser.AND, parser.OR}, {parser.BITAND, parser.XOR, parser.BITOR}}[r.Intn(6)]
		a, b, c := genExprAST(r, depth-2), genExprAST(r, depth-2), genExprAST(r, depth-2)
		o1, o2 := ops[r.Intn(len(ops))], ops[r.Intn(len(ops))]
		if r.Intn(2) == 0 {
			return &ast.BinaryExpr{LHS: a, RHS: &ast.BinaryExpr{LHS: b, RHS: c, Op: o2}, Op: o1}
		}
		return &ast.BinaryExpr{LHS: &ast.BinaryExpr{LHS: a, RHS: b, Op: o1}, RHS: c, Op: o2}
	}
}

// sx renders an expression tree without positions or types.
func sx(n ast.Node) string {
	switch v := n.(type) {
	case *ast.IntLit:
		return fmt.Sprintf("(i %d)", v.I)
	case *ast.FloatLit:
		return fmt.Sprintf("(f %s)", fbits(v.F))
	case *ast.StringLit:
		return fmt.Sprintf("(s %s)", hx(v.Text))
	case *ast.CaprefTerm:
		return fmt.Sprintf("(c %s %d)", hx(v.Name), b2i(v.IsNamed))
	case *ast.IndexedExpr:
		id, ok := v.LHS.(*ast.IDTerm)
		if !ok {
			return "(?idx)"
		}
		out := "(v " + hx(id.Name)
		if el, ok := v.Index.(*ast.ExprList); ok {
			for _, c := range el.Children {
				out += " " + sx(c)
			}
		} else {
			return "(?index)"
		}
		return out + ")"
	case *ast.BuiltinExpr:
		out := "(b " + hx(v.Name)
		if !isNilNode(v.Args) {
			el, ok := v.Args.(*ast.ExprList)
			if !ok {
				return "(?args)"
			}
			for _, c := range el.Children {
				out += " " + sx(c)
			}
		}
		return out + ")"
	case *ast.BinaryExpr:
		return fmt.Sprintf("(N %s %s %s)", opName(v.Op), sx(v.LHS), sx(v.RHS))
	case *ast.UnaryExpr:
		return fmt.Sprintf("(U %s %s)", opName(v.Op), sx(v.Expr))
	}
	return fmt.Sprintf("(?%T)", n)
}

func lexTokens(text string) string {
	l := parser.NewLexer("e", strings.NewReader(text))
	var out []string
	for i := 0; i < 100000; i++ {
		t := l.NextToken()
		switch t.Kind {
		case parser.EOF:
			return strings.Join(out, " ")
		case parser.LPAREN:
			out = append(out, "LP")
		case parser.RPAREN:
			out = append(out, "RP")
		case parser.LSQUARE:
			out = append(out, "LSQ")
		case parser.RSQUARE:
			out = append(out, "RSQ")
		case parser.COMMA:
			out = append(out, "COMMA")
		case parser.INTLITERAL:
			v, err := strconv.ParseInt(t.Spelling, 10, 64)
			if err != nil {
				out = append(out, "i:?"+t.Spelling)
			} else {
				out = append(out, fmt.Sprintf("i:%d", v))
			}
		case parser.FLOATLITERAL:
			v, err := strconv.ParseFloat(t.Spelling, 64)
			if err != nil {
				out = append(out, "f:?"+t.Spelling)
			} else {
				out = append(out, "f:"+fmt.Sprintf("%016x", math.Float64bits(v)))
			}
		case parser.STRING:
			out = append(out, "s:"+hx(t.Spelling))
		case parser.CAPREF:
			out = append(out, "c:"+hx(t.Spelling)+":0")
		case parser.CAPREF_NAMED:
			out = append(out, "c:"+hx(t.Spelling)+":1")
		case parser.ID:
			out = append(out, "v:"+hx(t.Spelling))
		case parser.BUILTIN:
			out = append(out, "b:"+hx(t.Spelling))
		default:
			out = append(out, "OP:"+t.Kind.String())
		}
	}
	return "LEXER-DOES-NOT-STOP"
}

type assignFinder struct{ rhs ast.Node }

func (a *assignFinder) VisitBefore(n ast.Node) (ast.Visitor, ast.Node) {
	if b, ok := n.(*ast.BinaryExpr); ok && b.Op == parser.ASSIGN && a.rhs == nil {
		a.rhs = b.RHS
		return nil, n
	}
	return a, n
}
func (a *assignFinder) VisitAfter(n ast.Node) ast.Node { return n }

func c23ExprRun(r *runCtx, id string, f []string) {
	seed, _ := strconv.ParseInt(f[1], 10, 64)
	depth, _ := strconv.Atoi(f[2])
	e := genExprAST(rand.New(rand.NewSource(seed)), depth)
	want := sx(e)
	var text string
	func() {
		defer func() {
			if x := recover(); x != nil {
				text = fmt.Sprintf("PANIC %v", x)
			}
		}()
		u := parser.Unparser{}
		text = strings.TrimSuffix(u.Unparse(&ast.StmtList{Children: []ast.Node{e}}), "\n")
	}()
	toks := lexTokens("g = " + text)
	prog := "gauge g\n/x/ {\n  g = " + text + "\n}\n"
	root, perr := parser.Parse("e.mtail", strings.NewReader(prog))
	got := "PARSE-ERROR"
	if perr == nil && root != nil {
		af := &assignFinder{}
		ast.Walk(af, root)
		if af.rhs != nil {
			got = sx(af.rhs)
		}
	}
	r.obs(id, "%s | %s | wf", toks, got)
	r.stat(fmt.Sprintf("expr-depth-%d", depth))
	if got != want {
		class := "format-expression-tree"
		if got == "PARSE-ERROR" {
			class = "format-output-unparseable"
		}
		r.fail(id, class, "the expression %s is formatted as %q, which parses to %s", want, text, got)
		return
	}
	r.ok(id)
}
