//go:build verif

package main

import (
	"fmt"
	"os"
	"path/filepath"
	"regexp"
	"sort"
	"strings"
	"syscall"
	"time"
)

// C18 — every matching log path is tailed, once.
//
//   tl <pattern,pattern,...> <ignore suffix or -> <op>;<op>;...
//   ops: cf:<path> md:<path> rm:<path> mv:<p>:<q> ap:<path>:<hex line> p
// paths and patterns are relative to a temporary root; a pattern starting with `r:` is given to
// the tailer as a relative pattern (the harness changes directory to the root).
// OBS: the tailed set after every poll, and the delivered (path, line) pairs at the end.

func c18Run(r *runCtx, id string, f []string) {
	pats := strings.Split(f[1], ",")
	ignore := f[2]
	ops := strings.Split(f[3], ";")
	root, err := os.MkdirTemp("", "verif-c18")
	if err != nil {
		r.obs(id, "ENV-ERROR")
		r.fail(id, "harness", "%v", err)
		return
	}
	root, _ = filepath.EvalSymlinks(root)
	old, _ := os.Getwd()
	_ = os.Chdir(root)
	defer os.Chdir(old)
	var tpats, abspats []string
	for _, p := range pats {
		if strings.HasPrefix(p, "r:") {
			tpats = append(tpats, p[2:])
			abspats = append(abspats, filepath.Join(root, p[2:]))
		} else if strings.HasPrefix(p, "u:") {
			// the same absolute path spelt uncanonically (doubled slash)
			tpats = append(tpats, root+"//"+p[2:])
			abspats = append(abspats, filepath.Join(root, p[2:]))
		} else if strings.HasPrefix(p, "v:") {
			// ... or through a `dir/..` detour
			first := strings.SplitN(p[2:], "/", 2)[0]
			tpats = append(tpats, root+"/"+first+"/../"+p[2:])
			abspats = append(abspats, filepath.Join(root, p[2:]))
		} else {
			tpats = append(tpats, filepath.Join(root, p))
			abspats = append(abspats, filepath.Join(root, p))
		}
	}
	ig := ""
	var igre *regexp.Regexp
	if ignore != "-" {
		// s:<suffix>  p:<prefix>  c:<substring>   (of the file's base name)
		switch ignore[:2] {
		case "s:":
			ig = regexp.QuoteMeta(ignore[2:]) + "$"
		case "p:":
			ig = "^" + regexp.QuoteMeta(ignore[2:])
		default:
			ig = regexp.QuoteMeta(ignore[2:])
		}
		igre = regexp.MustCompile(ig)
	}
	env, err := newTailEnv(false, tpats, ig, root)
	if err != nil {
		r.obs(id, "ENV-ERROR")
		r.fail(id, "harness", "%v", err)
		return
	}
	defer env.close()
	rel := func(p string) string { return strings.TrimPrefix(p, root+"/") }
	// the property's own notion of what must be tailed, from direct library calls
	eligible := func() []string {
		set := map[string]bool{}
		for _, ap := range abspats {
			ms, _ := filepath.Glob(ap)
			for _, m := range ms {
				fi, err := os.Stat(m)
				if err != nil || !fi.Mode().IsRegular() {
					continue
				}
				if igre != nil && igre.MatchString(filepath.Base(m)) {
					continue
				}
				set[m] = true
			}
		}
		var out []string
		for m := range set {
			out = append(out, rel(m))
		}
		sort.Strings(out)
		return out
	}
	tailed := func() []string {
		var out []string
		for _, p := range env.ta.VerifStreamPaths() {
			out = append(out, rel(p))
		}
		sort.Strings(out)
		return out
	}
	var obs []string
	var bad []string
	var wantDelivered []string
	// a new file that appears at a tailed path (created or renamed there) while the stream still
	// holds the previous file: what is appended to it is seen when the stream next wakes, if the
	// file is still at the path then
	fresh := map[string]bool{}
	pending := map[string][]string{}
	isTailedPath := func(full string) bool {
		for _, t := range env.ta.VerifStreamPaths() {
			if t == full {
				return true
			}
		}
		return false
	}
	for step, op := range ops {
		p := strings.Split(op, ":")
		switch p[0] {
		case "cf":
			if _, err := os.Lstat(filepath.Join(root, p[1])); err != nil {
				_ = os.WriteFile(filepath.Join(root, p[1]), nil, 0o644)
				if isTailedPath(filepath.Join(root, p[1])) {
					fresh[p[1]] = true
				}
			}
		case "md":
			_ = os.Mkdir(filepath.Join(root, p[1]), 0o755)
		case "sl":
			// a name that exists, is no directory, is not ignored, and cannot be tailed
			if _, err := os.Lstat(filepath.Join(root, p[1])); err != nil {
				_ = os.Symlink("/dev/null", filepath.Join(root, p[1]))
			}
		case "so":
			if _, err := os.Lstat(filepath.Join(root, p[1])); err != nil {
				if err := syscall.Mknod(filepath.Join(root, p[1]), syscall.S_IFSOCK|0o644, 0); err != nil {
					_ = os.Symlink("/dev/null", filepath.Join(root, p[1]))
				}
			}
		case "rm":
			_ = os.Remove(filepath.Join(root, p[1]))
			delete(pending, p[1])
		case "mv":
			if _, err := os.Lstat(filepath.Join(root, p[2])); err != nil {
				// directories are not renamed (the model's guard says the same)
				if fi1, err1 := os.Lstat(filepath.Join(root, p[1])); err1 == nil && !fi1.IsDir() {
					_ = os.Rename(filepath.Join(root, p[1]), filepath.Join(root, p[2]))
					delete(pending, p[1])
					if isTailedPath(filepath.Join(root, p[2])) {
						fresh[p[2]] = true
					}
				}
			}
		case "ap":
			full := filepath.Join(root, p[1])
			if fi, err := os.Stat(full); err == nil && fi.Mode().IsRegular() {
				isTailed := false
				for _, t := range env.ta.VerifStreamPaths() {
					if t == full {
						isTailed = true
					}
				}
				fh, err := os.OpenFile(full, os.O_APPEND|os.O_WRONLY, 0o644)
				if err == nil {
					_, _ = fh.Write([]byte(unhx(p[2]) + "\n"))
					fh.Close()
					if isTailed {
						if fresh[p[1]] {
							pending[p[1]] = append(pending[p[1]], p[1]+"="+p[2])
						} else {
							wantDelivered = append(wantDelivered, p[1]+"="+p[2])
						}
					}
				}
			}
		case "pp":
			// the pattern pollers run and the streams have not woken yet: whatever is tailed stays
			// tailed (a stream only notices at its next wake that its log has gone), eligible files
			// that have no stream get one
			set := map[string]bool{}
			for _, t := range env.ta.VerifStreamPaths() {
				set[rel(t)] = true
			}
			for _, w := range eligible() {
				set[w] = true
			}
			var want []string
			for w := range set {
				want = append(want, w)
			}
			sort.Strings(want)
			env.pw.wakeAll()
			if !env.pw.waitWaiting(len(tpats), 10*time.Second) {
				env.stalled = "pattern poll did not come back to Wake()"
			} else if len(want) != env.alive {
				if !env.sw.waitWaiting(len(want), 10*time.Second) {
					env.stalled = "a new stream did not start after the pattern poll"
				}
				env.alive = len(want)
			}
			got := tailed()
			obs = append(obs, "T["+strings.Join(got, ",")+"]")
			if env.stalled == "" && strings.Join(got, ",") != strings.Join(want, ",") {
				bad = append(bad, fmt.Sprintf("step %d (patterns polled, streams not yet woken): tailed [%s], expected [%s]", step, strings.Join(got, ","), strings.Join(want, ",")))
			}
		case "p":
			// streams whose path still names something they can hold open survive the wake: a regular
			// file, or a device that has taken the log's place (a stream is never started on one, but
			// one that is there follows it); a directory, a socket, nothing at all end the stream
			surv := 0
			var followers []string
			for _, t := range env.ta.VerifStreamPaths() {
				fi, err := os.Stat(t)
				if err != nil || fi.IsDir() {
					continue
				}
				if fi.Mode().IsRegular() {
					surv++
					wantDelivered = append(wantDelivered, pending[rel(t)]...)
				} else if fh, oerr := os.Open(t); oerr == nil {
					fh.Close()
					surv++
					followers = append(followers, rel(t))
				}
			}
			fresh = map[string]bool{}
			pending = map[string][]string{}
			want := append(eligible(), followers...)
			sort.Strings(want)
			env.observe(surv, len(want), len(tpats))
			got := tailed()
			obs = append(obs, "T["+strings.Join(got, ",")+"]")
			if env.stalled == "" && strings.Join(got, ",") != strings.Join(want, ",") {
				bad = append(bad, fmt.Sprintf("step %d: tailed [%s], eligible files are [%s]", step, strings.Join(got, ","), strings.Join(want, ",")))
			}
		}
		if env.stalled != "" {
			break
		}
	}
	if env.stalled != "" {
		r.obs(id, "STALL")
		r.fail(id, "stall", "patterns %s ops %s: %s; tailed [%s], eligible [%s]", f[1], f[3], env.stalled, strings.Join(tailed(), ","), strings.Join(eligible(), ","))
		return
	}
	got := env.snapshot()
	var del []string
	for _, g := range got {
		i := strings.Index(g, "\x00")
		del = append(del, rel(g[:i])+"="+hx(g[i+1:]))
	}
	sort.Strings(del)
	sort.Strings(wantDelivered)
	obs = append(obs, "D["+strings.Join(del, ",")+"]")
	r.obs(id, "%s", strings.Join(obs, " "))
	if strings.Join(del, ",") != strings.Join(wantDelivered, ",") {
		bad = append(bad, fmt.Sprintf("delivered [%s], lines appended to tailed files [%s]", strings.Join(del, ","), strings.Join(wantDelivered, ",")))
	}
	if len(bad) > 0 {
		r.fail(id, "tailed-set", "patterns %s ignore %s ops %s: %s", f[1], ignore, f[3], strings.Join(bad, "; "))
	} else {
		r.ok(id)
	}
	if len(obs) < 2 {
		r.trivial(id)
	}
	r.stat(fmt.Sprintf("patterns_%d", len(pats)))
}

func init() {
	props["C18"] = &propImpl{
		gen: func(g *genCtx) {
			patSets := [][]string{{"d1/*.log"}, {"d1/*", "d1/a.log"}, {"d?/a.log", "r:d1/*.log"}, {"d1/*.log", "d1/a*", "r:d2/*"}, {"d*/*"}, {"r:d1/a.log"}, {"u:d1/a.log", "d1/*.log"}, {"d1/a*", "v:d1/a.log", "r:d1/./a.log"}}
			ignores := []string{"-", "s:.gz", "s:b.log", "p:a", "c:d1", "c:verif"}
			paths := []string{"d1/a.log", "d1/b.log", "d1/c.txt", "d1/x.gz", "d2/a.log", "d1/sub"}
			base := []string{"md:d1", "md:d2"}
			emit := func(ps []string, ig string, ops []string) {
				g.emit("tl", strings.Join(ps, ","), ig, strings.Join(append(append([]string{}, base...), ops...), ";"))
			}
			// systematic: each pattern set x ignore, every file created, polled twice, appended, removed
			for _, ps := range patSets {
				for _, ig := range ignores {
					var ops []string
					for _, p := range paths[:5] {
						ops = append(ops, "cf:"+p)
					}
					ops = append(ops, "md:d1/sub", "p", "p")
					for i, p := range paths[:5] {
						ops = append(ops, fmt.Sprintf("ap:%s:%s", p, hx(fmt.Sprintf("l%d", i))))
					}
					ops = append(ops, "p", "rm:d1/a.log", "p", "cf:d1/a.log", "p", "ap:d1/a.log:"+hx("again"), "mv:d1/b.log:d1/z.log", "p", "ap:d1/z.log:"+hx("zz"), "p")
					emit(ps, ig, ops)
				}
			}
			// a name that is a directory at one poll and a regular file at a later one (and the reverse)
			for _, ps := range patSets {
				for _, ig := range []string{"-", "s:.gz"} {
					emit(ps, ig, []string{"md:d1/a.log", "p", "rm:d1/a.log", "cf:d1/a.log", "p", "ap:d1/a.log:" + hx("one"), "p",
						"md:d1/b.log", "p", "rm:d1/b.log", "cf:d1/m.log", "mv:d1/m.log:d1/b.log", "p", "ap:d1/b.log:" + hx("two"), "p",
						"rm:d1/a.log", "md:d1/a.log", "p", "p"})
				}
			}
			// a match no stream can be opened on (a device behind a symlink, a socket file) sorts before,
			// between and after the log files: it is skipped at every poll and the files are tailed
			for _, ps := range patSets {
				for _, ig := range []string{"-", "s:.gz"} {
					for _, mk := range []string{"sl", "so"} {
						emit(ps, ig, []string{mk + ":d1/0.log", "cf:d1/a.log", "cf:d1/b.log", mk + ":d1/ab.log", "cf:d2/a.log", "p",
							"ap:d1/a.log:" + hx("one"), "ap:d1/b.log:" + hx("two"), "ap:d2/a.log:" + hx("three"), "p",
							"cf:d1/c.log", "p", "ap:d1/c.log:" + hx("four"), "rm:d1/0.log", "cf:d1/0.log", "p", "ap:d1/0.log:" + hx("five"),
							"mv:d1/ab.log:d1/zz.log", "p", "p"})
						// ... and takes the place of a log that is being tailed: the stream follows a device, ends
						// on a socket, and a log that comes back is tailed again
						emit(ps, ig, []string{"cf:d1/a.log", "cf:d1/b.log", "p", "ap:d1/a.log:" + hx("one"), "rm:d1/a.log", mk + ":d1/a.log", "p", "p",
							"ap:d1/b.log:" + hx("two"), "rm:d1/a.log", "cf:d1/a.log", "p", "ap:d1/a.log:" + hx("three"), "p", "p"})
					}
				}
			}
			// a log is removed and comes back while only the pattern pollers run (its stream has not
			// looked yet): still one stream, every line once
			for _, ps := range patSets {
				emit(ps, "-", []string{"cf:d1/a.log", "cf:d1/b.log", "p", "ap:d1/a.log:" + hx("one"), "rm:d1/a.log", "pp", "cf:d1/a.log", "pp", "pp",
					"p", "ap:d1/a.log:" + hx("two"), "ap:d1/b.log:" + hx("three"), "p", "rm:d1/b.log", "pp", "p", "cf:d1/b.log", "pp", "ap:d1/b.log:" + hx("four"), "p"})
			}
			// names with characters that mean something in a URL: they are names like any other
			for _, ps := range [][]string{{"d1/*.log"}, {"d1/*", "r:d1/*.log"}, {"d1/q%zz.log", "d1/p%41.log", "d1/a#b.log"}, {"d1/*%*.log", "d1/a.log"}} {
				emit(ps, "-", []string{"cf:d1/a#b.log", "cf:d1/q%zz.log", "cf:d1/p%41.log", "cf:d1/pA.log", "cf:d1/a.log", "cf:d1/w&x=y.log", "p", "p",
					"ap:d1/a#b.log:" + hx("one"), "ap:d1/q%zz.log:" + hx("two"), "ap:d1/p%41.log:" + hx("three"), "ap:d1/pA.log:" + hx("four"),
					"ap:d1/a.log:" + hx("five"), "ap:d1/w&x=y.log:" + hx("six"), "p", "rm:d1/a#b.log", "p", "cf:d1/a#b.log", "p", "ap:d1/a#b.log:" + hx("seven"), "p"})
			}
			n := 120
			if g.thorough() {
				n = 2500
			}
			for i := 0; i < n; i++ {
				ps := patSets[g.r.intn(len(patSets))]
				ig := ignores[g.r.intn(len(ignores))]
				ln := 4 + g.r.intn(20)
				var ops []string
				for j := 0; j < ln; j++ {
					p := paths[g.r.intn(5)]
					if g.r.chance(1, 12) {
						ops = append(ops, g.r.pick([]string{"sl:", "so:"})+g.r.pick([]string{"d1/0.log", "d1/a.log", "d1/ab.log", "d2/0.log", p}))
						continue
					}
					switch g.r.intn(9) {
					case 0, 1, 2:
						ops = append(ops, "cf:"+p)
					case 3, 4:
						if g.r.chance(1, 4) {
							ops = append(ops, "pp")
						}
						ops = append(ops, "p")
					case 5, 6:
						ops = append(ops, fmt.Sprintf("ap:%s:%s", p, hx(fmt.Sprintf("n%d", j))))
					case 7:
						ops = append(ops, "rm:"+p)
						if g.r.chance(1, 3) {
							ops = append(ops, "md:"+p) // the name comes back as a directory
						}
					case 8:
						ops = append(ops, fmt.Sprintf("mv:%s:%s", p, []string{"d1/m.log", "d2/m.log", "d1/n.txt"}[g.r.intn(3)]))
					}
				}
				ops = append(ops, "p")
				emit(ps, ig, ops)
			}
		},
		run: c18Run,
	}
}
