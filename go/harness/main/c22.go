//go:build verif

package main

import (
	"context"
	"encoding/json"
	"fmt"
	"math"
	"net/http"
	"net/http/httptest"
	"runtime"
	"sort"
	"strconv"
	"strings"
	"time"

	"github.com/google/mtail/internal/exporter"
	"github.com/google/mtail/internal/metrics"
	"github.com/google/mtail/internal/metrics/datum"
)

// C22 — every export format reports each label set's own value.
//
//   fmt <hostname> <prefix> <omitProg> <store>
// OBS = for each format (graphite, statsd, collectd via the formatter functions; varz and
// graphite via the HTTP handlers; json via HandleJSON) the sorted records.
// PRED = each label set has exactly one record (graphite histogram: one per bucket + count +
// value) carrying its own value and timestamp; JSON round-trips.

func c22ValueString(l sLabelSet) string { return l.oracle()[0] }

// holdingWriter lets its first Write wait until released before it reads the bytes: what a slow
// client's connection does to a handler.
type holdingWriter struct {
	hdr     http.Header
	parts   [][]byte
	started chan struct{}
	release chan struct{}
	once    bool
}

func (w *holdingWriter) Header() http.Header { return w.hdr }
func (w *holdingWriter) WriteHeader(int)     {}
func (w *holdingWriter) Write(p []byte) (int, error) {
	if !w.once {
		// the client takes its time: the bytes are read when it gets round to it, which is still
		// inside this call (a Write may read p until it returns, and may not keep it after)
		w.once = true
		close(w.started)
		<-w.release
	}
	w.parts = append(w.parts, append([]byte(nil), p...))
	return len(p), nil
}
func (w *holdingWriter) text() string {
	var b strings.Builder
	for _, p := range w.parts {
		b.Write(p)
	}
	return b.String()
}

// c22Overlap: a scrape of one text page is held up in its first write while another page is
// scraped and completed; the held-up response, read after its release, is the page a scrape
// alone gives.  One P, so that whatever the handlers recycle is recycled between them.
func c22Overlap(first, second string, nsets int) (bool, string) {
	s := metrics.NewStore()
	m := metrics.NewMetric("req", "prog", metrics.Counter, metrics.Int, "k")
	for j := 0; j < nsets; j++ {
		d, _ := m.GetDatum(fmt.Sprintf("v%d", j))
		datum.SetInt(d, int64(100+j), time.Unix(1, 0))
	}
	_ = s.Add(m)
	ctx, cancel := context.WithCancel(context.Background())
	defer cancel()
	e, err := exporter.New(ctx, s, exporter.Hostname("h"))
	if err != nil {
		return false, err.Error()
	}
	page := func(which string, w http.ResponseWriter) {
		req := httptest.NewRequest(http.MethodGet, "/x", nil)
		if which == "varz" {
			e.HandleVarz(w, req)
		} else {
			e.HandleGraphite(w, req)
		}
	}
	stripTimes := func(t string) string {
		// graphite lines end in the scrape's own clock reading
		var out []string
		for _, l := range strings.Split(t, "\n") {
			f := strings.Fields(l)
			if first == "graphite" && len(f) == 3 {
				l = f[0] + " " + f[1]
			}
			out = append(out, l)
		}
		return strings.Join(out, "\n")
	}
	alone := httptest.NewRecorder()
	page(first, alone)
	old := runtime.GOMAXPROCS(1)
	defer runtime.GOMAXPROCS(old)
	hw := &holdingWriter{hdr: http.Header{}, started: make(chan struct{}), release: make(chan struct{})}
	done := make(chan struct{})
	go func() { defer close(done); page(first, hw) }()
	select {
	case <-hw.started:
	case <-done: // the page has no record: nothing to hold
		return true, ""
	case <-time.After(5 * time.Second):
		return false, "the first scrape never wrote"
	}
	for k := 0; k < 3; k++ {
		page(second, httptest.NewRecorder())
	}
	close(hw.release)
	select {
	case <-done:
	case <-time.After(5 * time.Second):
		return false, "the held-up scrape did not finish within 5 s of its release"
	}
	got, want := stripTimes(hw.text()), stripTimes(alone.Body.String())
	if got != want {
		return false, fmt.Sprintf("/%s held up in its first write while /%s was scraped three times (%d label sets, the store unchanged): the held-up response is %q, the same scrape alone gives %q", first, second, nsets, firstN(got, 300), firstN(want, 300))
	}
	return true, ""
}

func firstN(s string, n int) string {
	if len(s) > n {
		return s[:n] + "..."
	}
	return s
}

func c22Run(r *runCtx, id string, f []string) {
	if f[0] == "overlap" {
		n, _ := strconv.Atoi(f[3])
		ok, note := c22Overlap(f[1], f[2], n)
		r.stat("overlap")
		r.obs(id, "-")
		if !ok {
			r.replay(id, f...)
			r.fail(id, "overlapping-scrapes-mix", "%s", note)
		} else {
			r.ok(id)
		}
		return
	}
	host, prefix := unhx(f[1]), unhx(f[2])
	omitProg := f[3] == "1"
	ms := decodeStore(f[4])
	s, real, err := buildStore(ms)
	if err == nil && len(ms) > 0 {
		// the last metric is declared again with nothing changed, as a reload does: its label sets
		// are carried over, and every export still shows each label set of each metric once
		sm := ms[len(ms)-1]
		again := metrics.NewMetric(sm.name, sm.prog, sm.kind, sm.typ, sm.keys...)
		again.SetSource(sm.source)
		for _, l := range sm.lsets {
			if l.kind == 'b' {
				again.Buckets = l.ranges
			}
		}
		_ = s.Add(again)
	}
	if err != nil {
		r.obs(id, "STORE-REFUSED")
		r.ok(id)
		r.trivial(id)
		return
	}
	exporter.VerifSetPrefixes(prefix, prefix, prefix)
	defer exporter.VerifSetPrefixes("", "", "")
	opts := []exporter.Option{exporter.Hostname(host), exporter.PushInterval(5 * time.Second)}
	if omitProg {
		opts = append(opts, exporter.OmitProgLabel())
	}
	ctx, cancel := context.WithCancel(context.Background())
	defer cancel()
	e, _ := exporter.New(ctx, s, opts...)
	var obs []string
	var bad []string
	nrec := 0
	first := map[string][3]string{} // label set -> graphite, statsd, collectd record of the first pass
	// formatter functions, per label set
	for i, sm := range ms {
		m := real[i]
		c := make(chan *metrics.LabelSet)
		go m.EmitLabelSets(c)
		j := 0
		for ls := range c {
			l := sm.lsets[j]
			j++
			tsec := strconv.FormatInt(l.tNs/1e9, 10)
			val := c22ValueString(l)
			path := sm.prog + "." + sm.name
			_ = path
			g := exporter.VerifMetricToGraphite(host, m, ls, 5*time.Second)
			st := exporter.VerifMetricToStatsd(host, m, ls, 5*time.Second)
			cd := exporter.VerifMetricToCollectd(host, m, ls, 5*time.Second)
			vz := exporter.VerifMetricToVarz(m, ls, omitProg, host)
			glines := strings.SplitAfter(g, "\n")
			if glines[len(glines)-1] == "" {
				glines = glines[:len(glines)-1]
			}
			sort.Strings(glines)
			for _, x := range glines {
				obs = append(obs, "G"+hx(x))
			}
			obs = append(obs, "S"+hx(st), "C"+hx(cd), "V"+hx(vz))
			first[fmt.Sprintf("%d/%d", i, j)] = [3]string{g, st, cd}
			nrec++
			// --- the property, on the real records ---
			clean := true
			for _, lv := range l.labels {
				if strings.ContainsAny(lv, " \n|:\"") {
					clean = false
				}
			}
			if strings.ContainsAny(val, " \n|:\"") || strings.ContainsAny(sm.name+sm.prog+host+prefix, " \n|:\"") {
				clean = false
			}
			if !clean {
				continue // the property is stated for label values without field separators
			}
			// graphite: last field = time, middle = value; histogram lines per bucket
			var valueLines, binLines, countLines []string
			for _, x := range strings.Split(strings.TrimSuffix(g, "\n"), "\n") {
				fs := strings.Split(x, " ")
				if len(fs) != 3 {
					bad = append(bad, fmt.Sprintf("graphite line %q is not `path value time`", x))
					continue
				}
				if fs[2] != tsec {
					bad = append(bad, fmt.Sprintf("graphite line %q carries time %s, own time is %s", x, fs[2], tsec))
				}
				switch {
				case strings.Contains(fs[0], ".bin_"):
					binLines = append(binLines, x)
				case strings.HasSuffix(fs[0], ".count") && sm.kind == metrics.Histogram:
					countLines = append(countLines, x)
				default:
					valueLines = append(valueLines, x)
					if fs[1] != val {
						bad = append(bad, fmt.Sprintf("graphite line %q carries value %s, own value is %s", x, fs[1], val))
					}
				}
			}
			if len(valueLines) != 1 {
				bad = append(bad, fmt.Sprintf("graphite: %d value lines for one label set", len(valueLines)))
			}
			if sm.kind == metrics.Histogram && sm.typ == metrics.Buckets {
				b := datum.GetBuckets(ls.Datum)
				if len(binLines) != len(b.Buckets) || len(countLines) != 1 {
					bad = append(bad, fmt.Sprintf("graphite histogram: %d bin lines and %d count lines for %d buckets", len(binLines), len(countLines), len(b.Buckets)))
				}
				own := map[string]string{}
				for _, bc := range b.Buckets {
					name := fmt.Sprintf("%v", bc.Range.Max)
					if math.IsInf(bc.Range.Max, 1) {
						name = "inf"
					}
					own[name] = strconv.FormatUint(bc.Count, 10)
				}
				for _, x := range binLines {
					fs := strings.Split(x, " ")
					bn := fs[0][strings.LastIndex(fs[0], ".bin_")+5:]
					if own[bn] != fs[1] {
						bad = append(bad, fmt.Sprintf("graphite line %q: this label set's bucket %s holds %s", x, bn, own[bn]))
					}
				}
				for _, x := range countLines {
					fs := strings.Split(x, " ")
					if fs[1] != strconv.FormatUint(b.GetCount(), 10) {
						bad = append(bad, fmt.Sprintf("graphite line %q: this label set's count is %d", x, b.GetCount()))
					}
				}
			}
			// statsd: name:value|type
			if sm.kind == metrics.Counter || sm.kind == metrics.Gauge || sm.kind == metrics.Timer {
				i1, i2 := strings.LastIndex(st, ":"), strings.LastIndex(st, "|")
				tt := map[metrics.Kind]string{metrics.Counter: "c", metrics.Gauge: "g", metrics.Timer: "ms"}[sm.kind]
				if i1 < 0 || i2 < i1 || st[i1+1:i2] != val || st[i2+1:] != tt {
					bad = append(bad, fmt.Sprintf("statsd record %q should carry value %s and type %s", st, val, tt))
				}
				// collectd: PUTVAL "host/..." interval=N time:value
				cf := strings.Split(strings.TrimSuffix(cd, "\n"), " ")
				if len(cf) != 4 || cf[0] != "PUTVAL" || cf[2] != "interval=5" || cf[3] != tsec+":"+val {
					bad = append(bad, fmt.Sprintf("collectd record %q should end in interval=5 %s:%s", cd, tsec, val))
				}
				// a record names the label set it belongs to, in full: every key with its value
				// (separator characters inside them written as '_') is part of the record's name
				for k, v := range ls.Labels {
					dot := strings.ReplaceAll(k, ".", "_") + "." + strings.ReplaceAll(v, ".", "_")
					dash := strings.ReplaceAll(k, "-", "_") + "-" + strings.ReplaceAll(v, "-", "_")
					if i1 >= 0 && !strings.Contains(st[:i1], dot) {
						bad = append(bad, fmt.Sprintf("statsd record %q does not name its label %s=%q", st, k, v))
					}
					if len(cf) == 4 && !strings.Contains(cf[1], dash) {
						bad = append(bad, fmt.Sprintf("collectd record %q does not name its label %s=%q", cd, k, v))
					}
					for _, x := range valueLines {
						if !strings.Contains(strings.Split(x, " ")[0], dot) {
							bad = append(bad, fmt.Sprintf("graphite line %q does not name its label %s=%q", x, k, v))
						}
					}
				}
			}
			// varz: name{...} value
			if !strings.HasSuffix(vz, "} "+val+"\n") || !strings.HasPrefix(vz, sm.name+"{") {
				bad = append(bad, fmt.Sprintf("varz record %q should be %s{...} %s", vz, sm.name, val))
			}
		}
	}
	// a record is a function of its label set, not of what was exported before: the same store
	// built again and exported in the opposite order of formats gives the same records
	if _, real2, err2 := buildStore(ms); err2 == nil {
		for i := range ms {
			m := real2[i]
			c := make(chan *metrics.LabelSet)
			go m.EmitLabelSets(c)
			j := 0
			for ls := range c {
				j++
				cd := exporter.VerifMetricToCollectd(host, m, ls, 5*time.Second)
				st := exporter.VerifMetricToStatsd(host, m, ls, 5*time.Second)
				g := exporter.VerifMetricToGraphite(host, m, ls, 5*time.Second)
				if f1, ok := first[fmt.Sprintf("%d/%d", i, j)]; ok && len(bad) == 0 {
					sortLines := func(x string) string {
						ls := strings.Split(x, "\n")
						sort.Strings(ls)
						return strings.Join(ls, "\n")
					}
					for k, pair := range [][2]string{{sortLines(f1[0]), sortLines(g)}, {f1[1], st}, {f1[2], cd}} {
						if pair[0] != pair[1] {
							bad = append(bad, fmt.Sprintf("the %s record of a label set depends on the order in which formats are exported: %q after graphite-first, %q after collectd-first", []string{"graphite", "statsd", "collectd"}[k], pair[0], pair[1]))
						}
					}
				}
			}
		}
	}
	// the push path (writeSocketMetrics, shared by the three push targets): every record the
	// formatter yields for a label set the property claims for that format is pushed, exactly once
	for k, which := range []string{"graphite", "statsd", "collectd"} {
		rec := &recordingWriter{}
		if err := e.VerifWriteSocketMetrics(rec, which); err != nil {
			bad = append(bad, fmt.Sprintf("pushing %s failed: %v", which, err))
			continue
		}
		// one write per record
		// (the lines of a graphite histogram record come in map order: compare them sorted)
		norm := func(x string) string {
			ls := strings.SplitAfter(x, "\n")
			sort.Strings(ls)
			return strings.Join(ls, "")
		}
		have := map[string]int{}
		for _, x := range rec.writes {
			have[norm(x)]++
		}
		want := map[string]int{}
		for i, sm := range ms {
			if sm.kind == metrics.Text || (sm.kind == metrics.Histogram && which != "graphite") {
				continue
			}
			for j := range sm.lsets {
				if f1, ok := first[fmt.Sprintf("%d/%d", i, j+1)]; ok {
					want[norm(f1[k])]++
				}
			}
		}
		for x, n := range want {
			if have[x] != n && len(bad) == 0 {
				bad = append(bad, fmt.Sprintf("the %s push writes the record %q %d times, the store holds it %d times", which, x, have[x], n))
			}
		}
	}
	// handlers: one record per label set
	for _, h := range []string{"varz", "graphite"} {
		rw := httptest.NewRecorder()
		req := httptest.NewRequest(http.MethodGet, "/"+h, nil)
		if h == "varz" {
			e.HandleVarz(rw, req)
		} else {
			e.HandleGraphite(rw, req)
		}
		lines := strings.SplitAfter(rw.Body.String(), "\n")
		if lines[len(lines)-1] == "" {
			lines = lines[:len(lines)-1]
		}
		sort.Strings(lines)
		for _, x := range lines {
			obs = append(obs, "H"+h[:1]+hx(x))
		}
	}
	// JSON
	rw := httptest.NewRecorder()
	e.HandleJSON(rw, httptest.NewRequest(http.MethodGet, "/json", nil))
	nonFinite := false
	for _, sm := range ms {
		for _, l := range sm.lsets {
			if l.kind == 'f' && (math.IsNaN(l.f) || math.IsInf(l.f, 0)) {
				nonFinite = true
			}
			if l.kind == 'b' {
				sum := 0.0
				for _, v := range l.obs {
					sum += v
				}
				if math.IsNaN(sum) || math.IsInf(sum, 0) {
					nonFinite = true
				}
			}
		}
	}
	if rw.Code != 200 {
		obs = append(obs, "JERROR")
		cls := "json-export"
		if nonFinite {
			cls = "json-nonfinite"
		}
		r.fail(id, cls, "/json answered %d: %s", rw.Code, strings.TrimSpace(rw.Body.String()))
	} else {
		var parsed []map[string]interface{}
		dec := json.NewDecoder(strings.NewReader(rw.Body.String()))
		dec.UseNumber()
		if err := dec.Decode(&parsed); err != nil {
			bad = append(bad, "json does not parse: "+err.Error())
		}
		var js []string
		for _, pm := range parsed {
			name, _ := pm["Name"].(string)
			prog, _ := pm["Program"].(string)
			var keys []string
			if ks, ok := pm["Keys"].([]interface{}); ok {
				for _, k := range ks {
					keys = append(keys, k.(string))
				}
			}
			rec := []string{hx(name), hx(prog), fmt.Sprint(pm["Kind"]), fmt.Sprint(pm["Type"]), hxs(keys)}
			if lvs, ok := pm["LabelValues"].([]interface{}); ok {
				for _, lvi := range lvs {
					lv := lvi.(map[string]interface{})
					var labels []string
					if ls, ok := lv["Labels"].([]interface{}); ok {
						for _, x := range ls {
							labels = append(labels, x.(string))
						}
					}
					v := lv["Value"].(map[string]interface{})
					var vs string
					switch x := v["Value"].(type) {
					case json.Number:
						if fmt.Sprint(pm["Type"]) == "0" {
							vs = "n" + string(x)
						} else {
							fv, _ := strconv.ParseFloat(string(x), 64)
							vs = "f" + canonVal(fv)
						}
					case string:
						vs = "s" + hx(x)
					case nil:
						vs = "b" + fmt.Sprint(v["Count"])
					}
					rec = append(rec, hxs(labels)+"="+vs+"@"+fmt.Sprint(v["Time"]))
				}
			}
			js = append(js, "J"+strings.Join(rec, "/"))
		}
		sort.Strings(js)
		obs = append(obs, js...)
		// round trip: same names, keys, label sets and values
		var wantJ []string
		for _, sm := range ms {
			rec := []string{hx(sm.name), hx(sm.prog), strconv.Itoa(int(sm.kind)), strconv.Itoa(int(sm.typ)), hxs(sm.keys)}
			for _, l := range sm.lsets {
				var vs string
				switch l.kind {
				case 'i':
					vs = "n" + strconv.FormatInt(l.i, 10)
				case 'f':
					vs = "f" + canonVal(l.f)
				case 's':
					vs = "s" + hx(l.s)
				case 'b':
					vs = "b" + strconv.Itoa(len(l.obs))
				}
				rec = append(rec, hxs(l.labels)+"="+vs+"@"+strconv.FormatInt(l.tNs, 10))
			}
			wantJ = append(wantJ, "J"+strings.Join(rec, "/"))
		}
		sort.Strings(wantJ)
		if strings.Join(js, " ") != strings.Join(wantJ, " ") {
			bad = append(bad, fmt.Sprintf("json round trip: got %v want %v", js, wantJ))
		}
	}
	if len(obs) == 0 {
		r.obs(id, ".")
	} else {
		r.obs(id, "%s", strings.Join(obs, " "))
	}
	if len(bad) > 0 {
		cls := "format-record"
		for _, b := range bad {
			if strings.Contains(b, "this label set's") {
				cls = "graphite-histogram-other-label-set"
			}
		}
		r.fail(id, cls, "%s", strings.Join(bad[:min(len(bad), 3)], "; "))
	} else if rw.Code == 200 {
		r.ok(id)
	}
	if nrec == 0 {
		r.trivial(id)
	}
	r.stat("records_" + strconv.Itoa(min(nrec, 12)/4*4) + "plus")
}

type recordingWriter struct{ writes []string }

func (w *recordingWriter) Write(p []byte) (int, error) {
	w.writes = append(w.writes, string(p))
	return len(p), nil
}

func init() {
	props["C22"] = &propImpl{
		gen: func(g *genCtx) {
			for _, pr := range [][2]string{{"varz", "graphite"}, {"graphite", "varz"}, {"varz", "varz"}, {"graphite", "graphite"}} {
				g.emit("overlap", pr[0], pr[1], "1")
				g.emit("overlap", pr[0], pr[1], "9")
			}
			n := 1000
			if g.thorough() {
				n = 20000
			}
			hosts := []string{"h", "host.example", "box-1"}
			prefixes := []string{"", "pfx.", "a-b.", "p%d."}
			for i := 0; i < n; i++ {
				ms := genStore(g.r, storeGenOpts{maxMetrics: 5, noSeparator: g.r.chance(3, 4), utf8Only: true, twins: true})
				g.emit("fmt", hx(hosts[g.r.intn(3)]), hx(prefixes[g.r.intn(4)]), strconv.Itoa(g.r.intn(2)), encodeStore(ms))
			}
		},
		run: c22Run,
	}
}
