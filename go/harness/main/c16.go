//go:build verif

package main

import (
	"bytes"
	"context"
	"expvar"
	"fmt"
	"os"
	"path/filepath"
	"strings"
	"sync"
	"syscall"
	"time"

	"github.com/google/mtail/internal/logline"
	"github.com/google/mtail/internal/tailer"
	"github.com/google/mtail/internal/waker"
)

// C16 — a tailed file delivers every appended line exactly once across rotation.
//
//   fs <op>;<op>;...     a:<hex> append | t truncate | rot rename+create | ct copy+truncate |
//                        del delete | cre (re)create | p poll without change
// Every step is followed by one observation: the stream waker, then the pattern-poll waker
// (test wakers; quiescence = every wakee is back in Wake()).

type tailEnv struct {
	dir, path string
	cancel    context.CancelFunc
	npat      int
	drained   chan struct{} // closed when the collector has seen the lines channel close
	wg        sync.WaitGroup
	lines     chan *logline.LogLine
	mu        sync.Mutex
	got       []string
	sw, pw    *hWaker
	alive     int
	stalled   string
	ta        *tailer.Tailer
}

func withTimeout(d time.Duration, f func()) bool {
	done := make(chan struct{})
	go func() { f(); close(done) }()
	select {
	case <-done:
		return true
	case <-time.After(d):
		return false
	}
}

// tailEnvTwoPatterns makes the next environment tail its file through two overlapping patterns.
var tailEnvTwoPatterns bool

// tailEnvInitial is what the tailed file holds before the tailer starts (C16 `pre:` step).
var tailEnvInitial []byte

func newTailEnv(existing bool, patterns []string, ignore string, dirOverride string) (*tailEnv, error) {
	dir := dirOverride
	if dir == "" {
		var err error
		dir, err = os.MkdirTemp("", "verif-tail")
		if err != nil {
			return nil, err
		}
	}
	e := &tailEnv{dir: dir, path: filepath.Join(dir, "log"), lines: make(chan *logline.LogLine)}
	if existing {
		if err := os.WriteFile(e.path, tailEnvInitial, 0o644); err != nil {
			return nil, err
		}
		e.alive = 1
	}
	ctx, cancel := context.WithCancel(context.Background())
	e.cancel = cancel
	e.drained = make(chan struct{})
	go func() {
		defer close(e.drained)
		for l := range e.lines {
			e.mu.Lock()
			e.got = append(e.got, l.Filename+"\x00"+l.Line)
			e.mu.Unlock()
		}
	}()
	if patterns == nil {
		patterns = []string{e.path}
		if tailEnvTwoPatterns {
			patterns = append(patterns, filepath.Join(dir, "lo?"))
		}
	}
	e.npat = len(patterns)
	e.sw, e.pw = newHWaker(), newHWaker()
	var sww, pww waker.Waker = e.sw, e.pw
	opts := []tailer.Option{tailer.LogPatterns(patterns), tailer.LogPatternPollWaker(pww), tailer.LogstreamPollWaker(sww)}
	if ignore != "" {
		opts = append(opts, tailer.IgnoreRegex(ignore))
	}
	var err error
	ok := withTimeout(5*time.Second, func() {
		e.ta, err = tailer.New(ctx, &e.wg, e.lines, opts...)
	})
	if !ok {
		return nil, fmt.Errorf("tailer.New did not return")
	}
	if err == nil {
		if !e.sw.waitWaiting(e.alive, 10*time.Second) || !e.pw.waitWaiting(len(patterns), 10*time.Second) {
			return nil, fmt.Errorf("tailer did not become idle after start")
		}
	}
	return e, err
}

// hWaker is a deterministic waker: wakeAll releases every goroutine currently blocked on the
// channel returned by Wake(); waitWaiting blocks until n goroutines have called Wake() since.
type hWaker struct {
	mu      sync.Mutex
	ch      chan struct{}
	waiting int
}

func newHWaker() *hWaker { return &hWaker{ch: make(chan struct{})} }

func (w *hWaker) Wake() <-chan struct{} {
	w.mu.Lock()
	defer w.mu.Unlock()
	w.waiting++
	return w.ch
}

func (w *hWaker) wakeAll() {
	w.mu.Lock()
	defer w.mu.Unlock()
	close(w.ch)
	w.ch = make(chan struct{})
	w.waiting = 0
}

func (w *hWaker) waitWaiting(n int, d time.Duration) bool {
	deadline := time.Now().Add(d)
	for {
		w.mu.Lock()
		k := w.waiting
		w.mu.Unlock()
		if k >= n {
			return true
		}
		if time.Now().After(deadline) {
			return false
		}
		time.Sleep(100 * time.Microsecond)
	}
}

// stop ends tailing the way mtail does at shutdown and waits until everything sent has arrived.
func (e *tailEnv) stop() bool {
	e.cancel()
	if !withTimeout(10*time.Second, func() { e.wg.Wait() }) {
		return false
	}
	select {
	case <-e.drained:
	case <-time.After(5 * time.Second):
		return false
	}
	return true
}

func (e *tailEnv) close() {
	e.cancel()
	withTimeout(10*time.Second, func() { e.wg.Wait() })
	os.RemoveAll(e.dir)
}

// linesSent is what the line readers of this environment's sources report having sent
// (log_lines_total is bumped just before each send).
func (e *tailEnv) linesSent() int {
	n := 0
	if v := expvar.Get("log_lines_total"); v != nil {
		if m, ok := v.(*expvar.Map); ok {
			m.Do(func(kv expvar.KeyValue) {
				if strings.HasPrefix(kv.Key, e.dir) || strings.Contains(kv.Key, e.dir) {
					if i, ok := kv.Value.(*expvar.Int); ok {
						n += int(i.Value())
					}
				}
			})
		}
	}
	return n
}

func (e *tailEnv) snapshot() []string {
	// every line a reader has sent must have reached the collector
	deadline := time.Now().Add(3 * time.Second)
	for time.Now().Before(deadline) {
		e.mu.Lock()
		n := len(e.got)
		e.mu.Unlock()
		if n >= e.linesSent() {
			break
		}
		time.Sleep(200 * time.Microsecond)
	}
	e.mu.Lock()
	defer e.mu.Unlock()
	return append([]string(nil), e.got...)
}

// observe wakes the stream(s), then the pattern poll.  aliveAfterStream / aliveAfterPoll say how
// many stream goroutines are expected back in Wake() afterwards (computed by the caller from the
// kind of step, as the property's premise "the tailer has observed each step" requires).
func (e *tailEnv) observe(aliveAfterStream, aliveAfterPoll, nPatterns int) {
	if e.stalled != "" {
		return
	}
	if e.alive > 0 {
		e.sw.wakeAll()
		if !e.sw.waitWaiting(aliveAfterStream, 10*time.Second) {
			e.stalled = fmt.Sprintf("streams did not come back to Wake() (%d -> %d)", e.alive, aliveAfterStream)
			return
		}
	}
	if aliveAfterStream < e.alive {
		// streams that end do not come back to Wake(): wait until the tailer has dropped them
		deadline := time.Now().Add(10 * time.Second)
		for len(e.ta.VerifStreamPaths()) > aliveAfterStream && time.Now().Before(deadline) {
			time.Sleep(200 * time.Microsecond)
		}
		if len(e.ta.VerifStreamPaths()) > aliveAfterStream {
			e.stalled = fmt.Sprintf("%d streams still registered, expected %d to have ended", len(e.ta.VerifStreamPaths()), e.alive-aliveAfterStream)
			return
		}
	}
	e.alive = aliveAfterStream
	e.pw.wakeAll()
	if !e.pw.waitWaiting(nPatterns, 10*time.Second) {
		e.stalled = "pattern poll did not come back to Wake()"
		return
	}
	if aliveAfterPoll != e.alive {
		if !e.sw.waitWaiting(aliveAfterPoll, 10*time.Second) {
			e.stalled = "a new stream did not start after the pattern poll"
			return
		}
		e.alive = aliveAfterPoll
	}
}

// c16Bulk is the content of the bulk append `A:<n>:<len>`: n lines of len bytes each (a six-digit
// line number, then letters), every one newline-terminated. It is how a history says "a large
// amount arrived at once" without carrying the bytes; the Lean driver expands it the same way.
func c16Bulk(n, ln int) []byte {
	var b bytes.Buffer
	for i := 0; i < n; i++ {
		fmt.Fprintf(&b, "%06d", i)
		for j := 6; j < ln; j++ {
			b.WriteByte(byte('a' + (i+j)%26))
		}
		b.WriteByte('\n')
	}
	return b.Bytes()
}

// c16Expand rewrites bulk appends into ordinary ones.
func c16Expand(ops []string) []string {
	out := make([]string, 0, len(ops))
	for _, op := range ops {
		p := strings.Split(op, ":")
		if p[0] == "A" {
			var n, ln int
			fmt.Sscanf(p[1], "%d", &n)
			fmt.Sscanf(p[2], "%d", &ln)
			op = "a:" + hx(string(c16Bulk(n, ln)))
		}
		out = append(out, op)
	}
	return out
}

// c16Spec is the property's wording, written independently of mtail and of the Lean model.
func c16Spec(ops []string) []string {
	exists, tailing := true, true
	var partial []byte
	var out []string
	flush := func() {
		if len(partial) > 0 {
			out = append(out, string(partial))
			partial = nil
		}
	}
	for _, op := range ops {
		p := strings.Split(op, ":")
		switch p[0] {
		case "a":
			if !exists || !tailing {
				continue
			}
			data := append(partial, []byte(unhx(p[1]))...)
			for {
				i := bytes.IndexByte(data, '\n')
				if i < 0 {
					break
				}
				line := data[:i]
				if len(line) > 0 && line[len(line)-1] == '\r' {
					line = line[:len(line)-1]
				}
				out = append(out, string(line))
				data = data[i+1:]
			}
			partial = append([]byte(nil), data...)
		case "t", "ct", "rot":
			if exists {
				flush()
			}
		case "del", "rotx":
			// rotx: the log is rotated away and what takes its place cannot be opened (a socket file
			// here; a file the daemon may not read behaves the same): for the reader of the path the
			// log has gone, until a readable one is created
			if exists {
				flush()
				exists, tailing = false, false
			}
		case "cre":
			if !exists {
				exists, tailing = true, true
			}
		case "stop":
			// tailing stopped: the generation being tailed ends
			if exists && tailing {
				flush()
			}
		}
	}
	return out
}

func c16Run(r *runCtx, id string, f []string) {
	ops := c16Expand(strings.Split(f[1], ";"))
	tailEnvInitial = nil
	if strings.HasPrefix(ops[0], "pre:") {
		tailEnvInitial = []byte(unhx(ops[0][4:]))
	}
	// the path is matched twice, by its own name and by a glob over its directory: both pattern
	// pollers find a re-created file in the same poll
	tailEnvTwoPatterns = true
	env, err := newTailEnv(true, nil, "", "")
	tailEnvTwoPatterns = false
	tailEnvInitial = nil
	if err != nil {
		r.obs(id, "ENV-ERROR")
		r.fail(id, "harness", "%v", err)
		return
	}
	defer env.close()
	exists := true
	for _, op := range ops {
		p := strings.Split(op, ":")
		switch p[0] {
		case "a":
			if exists {
				fh, err := os.OpenFile(env.path, os.O_APPEND|os.O_WRONLY, 0o644)
				if err == nil {
					_, _ = fh.Write([]byte(unhx(p[1])))
					fh.Close()
				}
			}
		case "t":
			if exists {
				_ = os.Truncate(env.path, 0)
			}
		case "ct":
			if exists {
				b, _ := os.ReadFile(env.path)
				_ = os.WriteFile(env.path+".copy", b, 0o644)
				_ = os.Truncate(env.path, 0)
			}
		case "rot":
			if exists {
				_ = os.Rename(env.path, fmt.Sprintf("%s.%d", env.path, time.Now().UnixNano()))
				_ = os.WriteFile(env.path, nil, 0o644)
			}
		case "del":
			if exists {
				_ = os.Remove(env.path)
				exists = false
			}
		case "rotx":
			if exists {
				_ = os.Rename(env.path, fmt.Sprintf("%s.%d", env.path, time.Now().UnixNano()))
				if err := syscall.Mknod(env.path, syscall.S_IFSOCK|0o644, 0); err != nil {
					_ = os.Remove(env.path)
				}
				exists = false
			}
		case "cre":
			if !exists {
				_ = os.Remove(env.path) // whatever unopenable thing sits there
				_ = os.WriteFile(env.path, nil, 0o644)
				exists = true
			}
		case "pre":
			// already in the file when the tailer started
		case "stop":
			if !env.stop() {
				env.stalled = "the tailer did not wind down within 15 s of being stopped"
			}
			continue
		}
		after, afterPoll := 0, 0
		if env.alive == 1 && exists {
			after = 1
		}
		if exists {
			afterPoll = 1
		}
		env.observe(after, afterPoll, env.npat)
	}
	got := env.snapshot()
	lines := make([]string, len(got))
	for i, g := range got {
		lines[i] = g[strings.Index(g, "\x00")+1:]
	}
	if env.stalled != "" {
		r.obs(id, "STALL")
		r.fail(id, "stall", "ops %s: %s; delivered so far %s", f[1], env.stalled, hxs(lines))
		return
	}
	r.obs(id, "%s", hxs(lines))
	want := c16Spec(ops)
	if !eqTuple(lines, want) {
		cls := "delivery"
		r.fail(id, cls, "ops %s: delivered %s, the property requires %s", f[1], hxs(lines), hxs(want))
	} else {
		r.ok(id)
	}
	if len(want) == 0 {
		r.trivial(id)
	}
	r.stat("steps_" + fmt.Sprint(min(len(ops), 8)/4*4))
}

func init() {
	props["C16"] = &propImpl{
		gen: func(g *genCtx) {
			alphabet := []string{"a:" + hx("x\n"), "a:" + hx("fr"), "a:" + hx("y\r\n"), "a:" + hx("ag\nz"), "t", "rot", "ct", "del", "cre", "p", "rotx"}
			L := 3
			if g.thorough() {
				L = 4
			}
			var rec func(prefix []string)
			rec = func(prefix []string) {
				if len(prefix) > 0 {
					g.emit("fs", strings.Join(prefix, ";")+";a:"+hx("end\n"))
					// ... and the same history ended by stopping the tailer instead
					g.emit("fs", strings.Join(prefix, ";")+";stop")
				}
				if len(prefix) == L {
					return
				}
				for _, a := range alphabet {
					rec(append(prefix[:len(prefix):len(prefix)], a))
				}
			}
			rec(nil)
			// the file already has content (complete lines, or ending in a fragment) when tailing
			// starts; nothing of it is delivered, everything appended later is
			for _, pre := range []string{"old1\nold2\n", "old\nfr"} {
				for _, a := range alphabet {
					for _, b := range alphabet {
						g.emit("fs", "pre:"+hx(pre)+";"+a+";"+b+";a:"+hx("end\n"))
					}
				}
			}
			// a large amount arrives at once: sizes at and around the reader's buffer (128 KiB), as one
			// line, as many short lines, after a fragment that is already buffered; what arrives
			// afterwards, in this generation and the next, is still delivered
			type bulk struct{ n, ln int }
			bulks := []bulk{{1, 131071}, {16384, 7}, {1, 131070}, {1, 131072}, {1, 262143}, {2, 65535}}
			pres := []string{"", "a:" + hx("fr") + ";"}
			if g.thorough() {
				bulks = append(bulks, bulk{8192, 15}, bulk{1024, 127}, bulk{1, 131069}, bulk{1, 65535}, bulk{4, 65535}, bulk{32768, 7}, bulk{1, 393215})
				pres = append(pres, "a:"+hx("x\n")+";", "a:"+hx("l1\nl2\nfrag")+";")
			}
			for _, pre := range pres {
				for _, bk := range bulks {
					g.emit("fs", fmt.Sprintf("%sA:%d:%d;a:%s;rot;a:%s", pre, bk.n, bk.ln, hx("after\n"), hx("next\n")))
					if pre != "" {
						// the fragment plus the bulk fill the buffer exactly
						g.emit("fs", fmt.Sprintf("%sA:1:%d;a:%s;a:%s", pre, 131071-2, hx("after\n"), hx("end\n")))
					}
				}
			}
			n := 100
			if g.thorough() {
				n = 2000
			}
			for i := 0; i < n; i++ {
				ln := 5 + g.r.intn(40)
				ops := make([]string, ln)
				for j := range ops {
					switch g.r.intn(12) {
					case 0, 1, 2, 3:
						k := 1 + g.r.intn(3)
						var sb strings.Builder
						for q := 0; q < k; q++ {
							sb.WriteString(fmt.Sprintf("l%d", g.r.intn(1000)))
							if g.r.chance(1, 6) {
								sb.WriteString("\r")
							}
							if q < k-1 || g.r.chance(3, 4) {
								sb.WriteString("\n")
							}
						}
						ops[j] = "a:" + hx(sb.String())
					case 4:
						ops[j] = "a:" + hx(fmt.Sprintf("frag%d", g.r.intn(100)))
					default:
						ops[j] = alphabet[4+g.r.intn(7)]
					}
				}
				if g.r.chance(1, 3) {
					ops = append([]string{"pre:" + hx(g.r.pick([]string{"old1\nold2\n", "o\nfr", "x"}))}, ops...)
				}
				if g.r.chance(1, 2) {
					ops = append(ops, "stop")
				}
				g.emit("fs", strings.Join(ops, ";"))
			}
		},
		run: c16Run,
	}
}
