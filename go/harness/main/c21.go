//go:build verif

package main

import (
	"bytes"
	"context"
	"fmt"
	"github.com/google/mtail/internal/exporter"
	mtailruntime "github.com/google/mtail/internal/runtime"
	"math"
	"os"
	"regexp"
	"sort"
	"strconv"
	"strings"
	"sync"
	"time"

	"github.com/google/mtail/internal/logline"
	"github.com/google/mtail/internal/metrics"
	"github.com/google/mtail/internal/metrics/datum"
	"github.com/google/mtail/internal/runtime/compiler"
	"github.com/google/mtail/internal/runtime/vm"
)

// C21 — histograms count every observation in exactly one bucket.
//
//   direct <min:max,...> <v,...>          datum.MakeBuckets(ranges), Observe each value
//   decl   <dec,...> <bits,...> <v,...>   compile `histogram h buckets <dec,...>`, take the
//                                         metric's ranges, GetDatum, Observe each value
// floats travel as 16 hex digits of their IEEE-754 bits.

func fbits(v float64) string { return fmt.Sprintf("%016x", math.Float64bits(v)) }
func unfbits(s string) float64 {
	u, err := strconv.ParseUint(s, 16, 64)
	if err != nil {
		panic("bad float bits " + s)
	}
	return math.Float64frombits(u)
}
func canonBits(v float64) string {
	if math.IsNaN(v) {
		return "nan"
	}
	return fbits(v)
}

// canonVal additionally identifies -0 with +0 (text exposition formats print both as "0")
func canonVal(v float64) string {
	if v == 0 {
		return fbits(0)
	}
	return canonBits(v)
}
func fbitsList(vs []float64) string {
	if len(vs) == 0 {
		return "."
	}
	o := make([]string, len(vs))
	for i, v := range vs {
		o[i] = fbits(v)
	}
	return strings.Join(o, ",")
}
func unfbitsList(s string) []float64 {
	if s == "." || s == "" {
		return nil
	}
	p := strings.Split(s, ",")
	o := make([]float64, len(p))
	for i, x := range p {
		o[i] = unfbits(x)
	}
	return o
}

func c21Counts(b *datum.Buckets) []uint64 {
	o := make([]uint64, len(b.Buckets))
	for i, bc := range b.Buckets {
		o[i] = bc.Count
	}
	return o
}

// c21Observe runs the observations and evaluates the property after each one.
func c21Observe(b *datum.Buckets, vs []float64) (bad []string) {
	return c21ObserveVia(b, vs, func(k int, v float64) { b.Observe(v, time.Unix(int64(k+1), 0)) })
}

// c21ObserveVia is c21Observe with the way an observation reaches the datum left open.
func c21ObserveVia(b *datum.Buckets, vs []float64, do func(k int, v float64)) (bad []string) {
	sum := 0.0
	for k, v := range vs {
		before := c21Counts(b)
		do(k, v)
		after := c21Counts(b)
		sum += v
		// the bucket the property prescribes
		want := -1
		for i, bc := range b.Buckets {
			if v <= bc.Range.Max {
				want = i
				break
			}
		}
		if want < 0 {
			for i, bc := range b.Buckets {
				if math.IsInf(bc.Range.Max, +1) {
					want = i
				}
			}
		}
		changed := 0
		for i := range after {
			d := after[i] - before[i]
			if d != 0 {
				changed++
				if d != 1 || i != want {
					bad = append(bad, fmt.Sprintf("observation %d (%v) changed bucket %d by %d, want bucket %d by 1", k, v, i, d, want))
				}
			}
		}
		if changed != 1 {
			bad = append(bad, fmt.Sprintf("observation %d (%v) incremented %d buckets, want exactly one (bucket %d)", k, v, changed, want))
		}
		var tot uint64
		for _, c := range after {
			tot += c
		}
		if tot != b.GetCount() || b.GetCount() != uint64(k+1) {
			bad = append(bad, fmt.Sprintf("after observation %d (%v): bucket counts sum to %d, count is %d", k, v, tot, b.GetCount()))
		}
	}
	if got := b.GetSum(); canonBits(got) != canonBits(sum) {
		bad = append(bad, fmt.Sprintf("sum %v, want %v", got, sum))
	}
	return bad
}

// c21TextValues reads log texts as the numbers they spell, the way the capture's type says: a
// text capture (S) is any decimal or float spelling, an integer capture (d) digits in base ten, a
// float capture (f) digits, a point, digits. What is not such a spelling is not an observation.
func c21TextValues(texts []string, cap string) []float64 {
	var out []float64
	for _, t := range texts {
		switch cap {
		case "d":
			if regexp.MustCompile(`^\d+$`).MatchString(t) {
				if n, err := strconv.ParseInt(t, 10, 64); err == nil {
					out = append(out, float64(n))
				}
			}
		case "f":
			if regexp.MustCompile(`^-?\d+\.\d+$`).MatchString(t) {
				if v, err := strconv.ParseFloat(t, 64); err == nil {
					out = append(out, v)
				}
			}
		default:
			if v, err := strconv.ParseFloat(t, 64); err == nil && !strings.ContainsAny(t, " \t") && t != "" {
				out = append(out, v)
			}
		}
	}
	return out
}

// the exporter of the `expo` case in progress (it scrapes between observations)
var c21Exporter *exporter.Exporter

func c21Obs(b *datum.Buckets) string {
	cs := c21Counts(b)
	s := make([]string, len(cs))
	for i, c := range cs {
		s[i] = strconv.FormatUint(c, 10)
	}
	return fmt.Sprintf("counts=%s count=%d sum=%s", strings.Join(s, ","), b.GetCount(), canonBits(b.GetSum()))
}

// c21Reload: a histogram is reloaded with other boundaries, the declaration where it was (same
// number of boundaries or not): afterwards its observations are counted against the new ones,
// each in exactly one bucket, and the exported upper bounds are the new declaration's.
func c21Reload(b1, b2 string, keyed bool) (bool, string) {
	dir, err := os.MkdirTemp("", "c21reload")
	if err != nil {
		return true, "skip"
	}
	defer os.RemoveAll(dir)
	lines := make(chan *logline.LogLine)
	store := metrics.NewStore()
	var wg sync.WaitGroup
	rt, err := mtailruntime.New(lines, &wg, dir, store)
	if err != nil {
		return false, "runtime.New: " + err.Error()
	}
	src := func(b string) string {
		if keyed {
			return "histogram h by k buckets " + b + "\ncounter n\n/^(\\w+) (\\d+\\.\\d+)$/ {\n  h[$1] = $2\n  n++\n}\n"
		}
		return "histogram h buckets " + b + "\ncounter n\n/^(\\w+) (\\d+\\.\\d+)$/ {\n  h = $2\n  n++\n}\n"
	}
	count := func() int64 {
		var v int64 = -1
		_ = store.Range(func(m *metrics.Metric) error {
			if m.Name == "n" && len(m.LabelValues) > 0 {
				v = datum.GetInt(m.LabelValues[0].Value)
			}
			return nil
		})
		return v
	}
	sent := int64(0)
	send := func(vals ...string) {
		for _, v := range vals {
			lines <- logline.New(context.Background(), "log", "a "+v)
			sent++
		}
		deadline := time.Now().Add(10 * time.Second)
		for count() < sent && time.Now().Before(deadline) {
			time.Sleep(200 * time.Microsecond)
		}
	}
	if err := rt.CompileAndRun("p.mtail", strings.NewReader(src(b1))); err != nil {
		return false, "load: " + err.Error()
	}
	send("0.5", "3.0", "100.0")
	if err := rt.CompileAndRun("p.mtail", strings.NewReader(src(b2))); err != nil {
		return false, "reload: " + err.Error()
	}
	send("15.0", "0.5")
	note := ""
	_ = store.Range(func(m *metrics.Metric) error {
		m.RLock()
		defer m.RUnlock()
		if m.Name != "h" {
			return nil
		}
		for _, lv := range m.LabelValues {
			b, ok := lv.Value.(*datum.Buckets)
			if !ok {
				continue
			}
			for i := range m.Buckets {
				if i >= len(b.Buckets) || b.Buckets[i].Range != m.Buckets[i] {
					note = fmt.Sprintf("reloaded with buckets %s after %s: declared %v, data counted in %v", b2, b1, m.Buckets, b.Buckets)
					return nil
				}
			}
			var total uint64
			for _, bc := range b.Buckets {
				total += bc.Count
			}
			if b1 != b2 && (total != 2 || b.Count != 2) {
				note = fmt.Sprintf("reloaded with buckets %s after %s: two observations since, the buckets hold %d and the count is %d", b2, b1, total, b.Count)
			}
		}
		return nil
	})
	close(lines)
	fin := make(chan struct{})
	go func() { wg.Wait(); close(fin) }()
	select {
	case <-fin:
	case <-time.After(3 * time.Second):
	}
	return note == "", note
}

func c21Run(r *runCtx, id string, f []string) {
	if f[0] == "reload" {
		ok, note := c21Reload(strings.ReplaceAll(f[1], "_", " "), strings.ReplaceAll(f[2], "_", " "), f[3] == "1")
		r.stat("reload")
		r.obs(id, "-")
		if !ok {
			r.replay(id, f...)
			r.fail(id, "reload-keeps-old-boundaries", "%s", note)
		} else {
			r.ok(id)
		}
		return
	}
	switch f[0] {
	case "direct":
		var ranges []datum.Range
		if f[1] != "." {
			for _, p := range strings.Split(f[1], ",") {
				mm := strings.Split(p, ":")
				ranges = append(ranges, datum.Range{Min: unfbits(mm[0]), Max: unfbits(mm[1])})
			}
		}
		vs := unfbitsList(f[2])
		b := datum.GetBuckets(datum.MakeBuckets(ranges, time.Time{}))
		hasNaN := false
		for _, v := range vs {
			if math.IsNaN(v) {
				hasNaN = true
			}
		}
		bad := c21Observe(b, vs)
		var rs []string
		for _, bc := range b.Buckets {
			rs = append(rs, fbits(bc.Range.Min)+":"+fbits(bc.Range.Max))
		}
		r.obs(id, "ranges=%s %s", strings.Join(rs, ","), c21Obs(b))
		if len(bad) > 0 {
			cls := "bucket-count"
			if hasNaN {
				cls = "nan-observation"
			}
			r.fail(id, cls, "%s", strings.Join(bad, "; "))
		} else {
			r.ok(id)
		}
		if len(vs) == 0 {
			r.trivial(id)
		}
		r.stat("direct")
	case "expo":
		// histogram h by k: two label sets with their own observations, read back through the
		// Prometheus exporter: every label set is exported with its own cumulative counts
		decs := strings.Split(f[1], ",")
		bounds := unfbitsList(f[2])
		obsOf := map[string][]float64{"a": unfbitsList(f[3]), "b": unfbitsList(f[4])}
		prog := "histogram h by k buckets " + strings.Join(decs, ", ") + "\n/^(\\w) (\\S+)$/ {\n  h[$1] = $2\n}\n"
		c, _ := compiler.New()
		obj, err := c.Compile("c21.mtail", strings.NewReader(prog))
		if err != nil || obj == nil {
			r.obs(id, "reject")
			r.ok(id)
			r.trivial(id)
			return
		}
		var m *metrics.Metric
		for _, mm := range obj.Metrics {
			if mm.Name == "h" {
				m = mm
			}
		}
		st := metrics.NewStore()
		_ = st.Add(m)
		for _, k := range []string{"a", "b"} {
			d, derr := m.GetDatum(k)
			if derr != nil {
				r.obs(id, "ERR")
				r.fail(id, "harness", "%v", derr)
				return
			}
			for i, v := range obsOf[k] {
				// all observations of a label set carry one timestamp (log lines of one second), and the
				// histogram is scraped in between: what is exported last is what was observed last
				datum.GetBuckets(d).Observe(v, time.Unix(1700000000, 0))
				if i == len(obsOf[k])/2 {
					if e0, eerr := exporter.New(context.Background(), st, exporter.Hostname("h")); eerr == nil {
						c21Exporter = e0
					}
				}
				if c21Exporter != nil {
					var mid bytes.Buffer
					_ = c21Exporter.Write(&mid)
				}
			}
		}
		e := c21Exporter
		c21Exporter = nil
		if e == nil {
			e, _ = exporter.New(context.Background(), st, exporter.Hostname("h"))
		}
		var buf bytes.Buffer
		if werr := e.Write(&buf); werr != nil {
			r.obs(id, "ERR")
			r.fail(id, "exported-counts", "the Prometheus export fails: %v", werr)
			return
		}
		got := map[string]map[string]string{"a": {}, "b": {}}
		re := regexp.MustCompile(`^h_bucket\{k="(\w)",(?:prog="[^"]*",)?le="([^"]+)"\} (\d+)$`)
		for _, l := range strings.Split(buf.String(), "\n") {
			if mt := re.FindStringSubmatch(l); mt != nil {
				got[mt[1]][mt[2]] = mt[3]
			}
		}
		var parts, bad []string
		for _, k := range []string{"a", "b"} {
			var cs []string
			cumWant := uint64(0)
			all := append(append([]float64{}, bounds...), math.Inf(1))
			if len(all) > 0 && all[0] <= 0 {
				all = all[1:] // the recorded finding: a first bound <= 0 is not exported
			}
			for bi, ub := range all {
				// observations this bound's bucket takes: the first bound at least the value
				n := uint64(0)
				for _, v := range obsOf[k] {
					idx := len(all) - 1
					for j, u := range all {
						if v <= u {
							idx = j
							break
						}
					}
					if idx == bi {
						n++
					}
				}
				cumWant += n
				le := strconv.FormatFloat(ub, 'g', -1, 64)
				if math.IsInf(ub, 1) {
					le = "+Inf"
				}
				g := got[k][le]
				cs = append(cs, fbits(ub)+":"+g)
				if g != strconv.FormatUint(cumWant, 10) {
					bad = append(bad, fmt.Sprintf("label set %s, le=%s: exported %q, its own observations give %d", k, le, g, cumWant))
				}
			}
			parts = append(parts, k+"="+strings.Join(cs, ","))
		}
		r.obs(id, "%s", strings.Join(parts, " "))
		if len(bad) > 0 {
			r.fail(id, "exported-counts", "declared %s: %s", f[1], strings.Join(bad[:min(3, len(bad))], "; "))
		} else {
			r.ok(id)
		}
		r.stat("expo")
	case "decl", "vmobs":
		decs := strings.Split(f[1], ",")
		bounds := unfbitsList(f[2])
		vs := unfbitsList(f[3])
		prog := "histogram h buckets " + strings.Join(decs, ", ") + "\n/^(\\d+)$/ {\n  h = $1\n}\n"
		// vmobs: the observations arrive as log lines, through the compiled program and the VM; the
		// capture group is typed as text, as an integer or as a float by its pattern
		var texts []string
		if f[0] == "vmobs" {
			texts = unhxs(f[4])
			pat := map[string]string{"S": `(\S+)`, "d": `(\d+)`, "f": `(-?\d+\.\d+)`}[f[5]]
			prog = "histogram h buckets " + strings.Join(decs, ", ") + "\n/^" + pat + "$/ {\n  h = $1\n}\n"
			if want := c21TextValues(texts, f[5]); fbitsList(want) != fbitsList(vs) {
				r.obs(id, "BAD-CASE")
				r.fail(id, "harness", "the case says the texts %q are the values %v, the harness reads %v", texts, vs, want)
				return
			}
		}
		c, _ := compiler.New()
		obj, err := c.Compile("c21.mtail", strings.NewReader(prog))
		sortedOK := len(bounds) >= 2
		for i := 1; i < len(bounds); i++ {
			if bounds[i] <= bounds[i-1] {
				sortedOK = false
			}
		}
		if err != nil || obj == nil {
			r.obs(id, "reject")
			if sortedOK {
				r.fail(id, "decl-rejected", "sorted declaration %s rejected: %v", f[1], err)
			} else {
				r.ok(id)
			}
			r.stat("decl_rejected")
			return
		}
		var m *metrics.Metric
		for _, mm := range obj.Metrics {
			if mm.Name == "h" {
				m = mm
			}
		}
		d, _ := m.GetDatum()
		b := datum.GetBuckets(d)
		var bad []string
		if f[0] == "vmobs" {
			v := vm.New("c21.mtail", obj, false, nil, false, false)
			ctx := context.Background()
			// texts that are no number (or that the pattern does not match) are no observation
			var counted []string
			for _, t := range texts {
				if len(c21TextValues([]string{t}, f[5])) == 1 {
					counted = append(counted, t)
					continue
				}
				before := fmt.Sprint(c21Counts(b), b.GetCount())
				v.ProcessLogLine(ctx, logline.New(ctx, "f", t))
				if after := fmt.Sprint(c21Counts(b), b.GetCount()); after != before {
					bad = append(bad, fmt.Sprintf("the line %q is no observation, yet the counts went from %s to %s", t, before, after))
				}
			}
			bad = append(bad, c21ObserveVia(b, vs, func(k int, _ float64) { v.ProcessLogLine(ctx, logline.New(ctx, "f", counted[k])) })...)
			for i := range bad {
				bad[i] = "lines " + strings.Join(counted, " ") + ": " + bad[i]
			}
		} else {
			bad = c21Observe(b, vs)
		}
		hasNaN := false
		for _, v := range vs {
			if math.IsNaN(v) {
				hasNaN = true
			}
		}
		var rs []string
		var maxes []float64
		for _, bc := range b.Buckets {
			rs = append(rs, fbits(bc.Range.Min)+":"+fbits(bc.Range.Max))
			maxes = append(maxes, bc.Range.Max)
		}
		cum := datum.GetBucketsCumByMax(d)
		var cm []float64
		for k := range cum {
			cm = append(cm, k)
		}
		sort.Float64s(cm)
		var cs []string
		for _, k := range cm {
			cs = append(cs, fbits(k)+":"+strconv.FormatUint(cum[k], 10))
		}
		r.obs(id, "ranges=%s %s cum=%s", strings.Join(rs, ","), c21Obs(b), strings.Join(cs, ","))
		failed := false
		if !sortedOK {
			r.fail(id, "decl-accepted", "unsorted or too short declaration %s accepted", f[1])
			failed = true
		}
		wantMax := append(append([]float64{}, bounds...), math.Inf(+1))
		if fbitsList(maxes) != fbitsList(wantMax) {
			cls := "exported-bounds"
			if len(bounds) > 0 && bounds[0] <= 0 && fbitsList(maxes) == fbitsList(wantMax[1:]) {
				cls = "first-bound-nonpositive"
			}
			r.fail(id, cls, "declared %s: exported upper bounds %v, want %v", f[1], maxes, wantMax)
			failed = true
		}
		if len(bad) > 0 {
			cls := "bucket-count"
			if hasNaN {
				cls = "nan-observation"
			}
			r.fail(id, cls, "%s", strings.Join(bad, "; "))
			failed = true
		}
		// cumulative view: non-decreasing and last = count
		var prev uint64
		for _, k := range cm {
			if cum[k] < prev {
				r.fail(id, "cumulative", "cumulative counts decrease at %v", k)
				failed = true
			}
			prev = cum[k]
		}
		if len(cm) > 0 && prev != b.GetCount() {
			cls := "cumulative"
			if hasNaN {
				cls = "nan-observation"
			}
			r.fail(id, cls, "+Inf cumulative bucket %d != count %d", prev, b.GetCount())
			failed = true
		}
		if !failed {
			r.ok(id)
		}
		if len(vs) == 0 {
			r.trivial(id)
		}
		r.stat("decl_compiled")
		if hasNaN {
			r.stat("with_nan")
		}
	}
}

func init() {
	props["C21"] = &propImpl{
		gen: func(g *genCtx) {
			for _, pr := range [][2]string{{"1,_2,_4", "10,_20,_40"}, {"1,_2,_4", "1,_2,_8"}, {"1,_2,_4", "1,_2,_4,_8"}, {"10,_20,_40", "1,_2"}, {"1,_2,_4", "1,_2,_4"}} {
				g.emit("reload", pr[0], pr[1], "0")
				g.emit("reload", pr[0], pr[1], "1")
			}
			grid := []float64{-2, -1, 0, 0.5, 1, 2, 4, 1e-7, 1000000.5}
			dec := func(v float64) string { return strconv.FormatFloat(v, 'f', -1, 64) }
			valuesFor := func(bounds []float64) []float64 {
				vs := []float64{math.NaN(), math.Inf(1), math.Inf(-1), 0, math.Copysign(0, -1), -3.5, 1e308}
				for _, b := range bounds {
					vs = append(vs, b, math.Nextafter(b, math.Inf(-1)), math.Nextafter(b, math.Inf(1)))
				}
				return vs
			}
			// exhaustive: every subset of size 2..3 of the (sorted) grid, every single value
			sorted := append([]float64{}, grid...)
			sort.Float64s(sorted)
			var subsets [][]float64
			for i := 0; i < len(sorted); i++ {
				for j := i + 1; j < len(sorted); j++ {
					subsets = append(subsets, []float64{sorted[i], sorted[j]})
					for k := j + 1; k < len(sorted); k++ {
						subsets = append(subsets, []float64{sorted[i], sorted[j], sorted[k]})
					}
				}
			}
			// long declarations: 15, 16, 17, 20 and 40 bounds (any size-dependent strategy shows here)
			for _, k := range []int{15, 16, 17, 20, 40} {
				lin, pow := make([]float64, k), make([]float64, k)
				for i := range lin {
					lin[i] = float64(i + 1)
					pow[i] = math.Ldexp(1, i-8)
				}
				subsets = append(subsets, lin, pow)
			}
			for _, bs := range subsets {
				ds := make([]string, len(bs))
				for i, b := range bs {
					ds[i] = dec(b)
				}
				all := valuesFor(bs)
				g.emit("decl", strings.Join(ds, ","), fbitsList(bs), fbitsList(all))
				if g.thorough() {
					for _, v := range all {
						g.emit("decl", strings.Join(ds, ","), fbitsList(bs), fbitsList([]float64{v}))
					}
				}
			}
			// two label sets of one histogram with different observations, through the exporter
			for i, bs := range [][]float64{{1, 2, 4}, {0.5, 1, 2.5, 10}, {1, 2}} {
				ds := make([]string, len(bs))
				for k, b := range bs {
					ds[k] = dec(b)
				}
				va := []float64{0.25, 1, 1, 3, 100}
				vb := []float64{2, 2, 2.5, 0.75, 9, 9, 9}
				if i == 2 {
					va, vb = []float64{1}, []float64{5, 5, 5}
				}
				g.emit("expo", strings.Join(ds, ","), fbitsList(bs), fbitsList(va), fbitsList(vb))
				g.emit("expo", strings.Join(ds, ","), fbitsList(bs), fbitsList(vb), fbitsList(va))
			}
			// observations that arrive as text in a log line: zero-padded, signed, fractional and
			// exponent spellings, non-finite words, and texts that are no number at all
			textSets := [][]string{
				{"0100", "010", "0064", "0250", "007", "100", "3"},
				{"-010", "+5", "0.50", "1e2", "00", "2.5", "089", "0017.5", ".5", "5."},
				{"NaN", "+Inf", "-Inf", "inf", "abc", "0x10", "1_0", "12abc", "7"},
				{"0777", "0o17", "0b11", "1e-1", "-0", "00.25", "250"},
			}
			for _, bs := range [][]float64{{1, 8, 64, 100, 200}, {0.5, 10, 52, 168}, {-5, 0, 5}} {
				ds := make([]string, len(bs))
				for k, b := range bs {
					ds[k] = dec(b)
				}
				for _, ts := range textSets {
					for _, cp := range []string{"S", "d", "f"} {
						g.emit("vmobs", strings.Join(ds, ","), fbitsList(bs), fbitsList(c21TextValues(ts, cp)), hxs(ts), cp)
					}
				}
			}
			// rejected declarations
			g.emit("decl", "1", fbitsList([]float64{1}), ".")
			g.emit("decl", "2,1", fbitsList([]float64{2, 1}), ".")
			g.emit("decl", "1,1", fbitsList([]float64{1, 1}), ".")
			g.emit("decl", "0,1,0.5", fbitsList([]float64{0, 1, 0.5}), ".")
			// random sequences on random declarations and on directly built bucket lists
			n := 600
			if g.thorough() {
				n = 20000
			}
			for i := 0; i < n; i++ {
				bs := subsets[g.r.intn(len(subsets))]
				pool := valuesFor(bs)
				ln := g.r.intn(30)
				vs := make([]float64, ln)
				for j := range vs {
					if g.r.chance(2, 3) {
						vs[j] = pool[g.r.intn(len(pool))]
					} else {
						vs[j] = (float64(g.r.intn(2000)) - 1000) / 8
					}
				}
				if g.r.chance(1, 2) {
					ds := make([]string, len(bs))
					for k, b := range bs {
						ds[k] = dec(b)
					}
					g.emit("decl", strings.Join(ds, ","), fbitsList(bs), fbitsList(vs))
				} else {
					// direct: ranges as codegen would build them, sometimes without the +Inf range
					var rs []string
					mn := bs[0]
					if bs[0] > 0 {
						rs = append(rs, fbits(0)+":"+fbits(bs[0]))
					}
					for _, mx := range bs[1:] {
						rs = append(rs, fbits(mn)+":"+fbits(mx))
						mn = mx
					}
					if g.r.chance(1, 2) {
						rs = append(rs, fbits(mn)+":"+fbits(math.Inf(1)))
					}
					g.emit("direct", strings.Join(rs, ","), fbitsList(vs))
				}
			}
			g.emit("direct", ".", fbitsList([]float64{1, math.NaN()}))
		},
		run: c21Run,
	}
}
