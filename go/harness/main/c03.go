//go:build verif

package main

import (
	"bufio"
	"fmt"
	"strconv"
	"strings"
	"sync"
	"time"
	"unicode"

	"github.com/google/mtail/internal/runtime/code"
	"github.com/google/mtail/internal/runtime/compiler"
	"github.com/google/mtail/internal/runtime/compiler/parser"
)

// C03 — the compiler terminates on any source text and never crashes.
//
//   src <source hex> <runes> <flags>
//
// runes: what the lexer's bufio reader delivers, code:width:class (class 1 letter 2 digit 3 space 0
// other); flags: for every token the real parser requested, whether the lexer's InRegex flag was
// set (the parser controls it).  Both are computed by the generator with the real code.
//
// PRED (on the real compiler): Compile returns within the time bound, does not panic, returns
// exactly one of code and error, the error lists at least one message, and compiling again gives
// the same result (same bytecode, strings, regular expressions and metric declarations).
// OBS: the token stream the parser saw (kind, spelling, line, columns), compared with the Lean
// lexer model run on the same runes and flags.

// The compiler is quadratic in the nesting depth (8000 nested operators take about 5 s), so the
// bound grows with the square of the source length: 20 s plus 0.5 s per (kilobyte squared).
func c03TimeBound(src string) time.Duration {
	kb := float64(len(src)) / 1000
	return 20*time.Second + time.Duration(kb*kb*0.5*float64(time.Second))
}

type lexTrace struct {
	toks  []parser.Token
	flags []bool
}

var lexHookMu sync.Mutex

// traceParse runs the real parser and records every token it requests.
func traceParse(src string) (tr lexTrace, outcome string) {
	lexHookMu.Lock()
	defer lexHookMu.Unlock()
	done := make(chan string, 1)
	var t lexTrace
	go func() {
		defer func() {
			if e := recover(); e != nil {
				done <- fmt.Sprintf("PANIC %v", e)
			}
		}()
		parser.VerifLexHook = func(inRegex bool, tok parser.Token) {
			t.toks = append(t.toks, tok)
			t.flags = append(t.flags, inRegex)
		}
		_, err := parser.Parse("p.mtail", strings.NewReader(src))
		if err != nil {
			done <- "error"
		} else {
			done <- "ok"
		}
	}()
	select {
	case o := <-done:
		parser.VerifLexHook = nil
		return t, o
	case <-time.After(c03TimeBound(src)):
		parser.VerifLexHook = nil
		return lexTrace{}, "HANG"
	}
}

func runesOf(src string) string {
	rd := bufio.NewReader(strings.NewReader(src))
	var out []string
	for {
		r, w, err := rd.ReadRune()
		if err != nil {
			break
		}
		cls := 0
		switch {
		case unicode.IsLetter(r):
			cls = 1
		case unicode.IsDigit(r):
			cls = 2
		case unicode.IsSpace(r):
			cls = 3
		}
		out = append(out, fmt.Sprintf("%d:%d:%d", r, w, cls))
	}
	if len(out) == 0 {
		return "."
	}
	return strings.Join(out, ",")
}

func renderTok(t parser.Token) string {
	kind := t.Kind.String()
	if t.Kind == parser.EOF {
		kind = "EOF"
	}
	sp := hx(t.Spelling)
	if t.Kind == parser.INVALID {
		switch {
		case strings.HasPrefix(t.Spelling, "Unexpected input: "):
			q := strings.TrimPrefix(t.Spelling, "Unexpected input: ")
			if u, err := strconv.Unquote(q); err == nil {
				rs := []rune(u)
				if len(rs) == 1 {
					sp = fmt.Sprintf("U%d", rs[0])
				} else {
					sp = "U?" + hx(q)
				}
			} else {
				sp = "U?" + hx(q)
			}
		case strings.HasPrefix(t.Spelling, "Unterminated quoted string: \"\\\"") && strings.HasSuffix(t.Spelling, "\""):
			sp = "S" + hx(t.Spelling[len("Unterminated quoted string: \"\\\""):len(t.Spelling)-1])
		case strings.HasPrefix(t.Spelling, "Unterminated regular expression: \"/") && strings.HasSuffix(t.Spelling, "\""):
			sp = "X" + hx(t.Spelling[len("Unterminated regular expression: \"/"):len(t.Spelling)-1])
		default:
			sp = "?" + sp
		}
	}
	return fmt.Sprintf("%s:%s:%d:%d:%d", kind, sp, t.Pos.Line, t.Pos.Startcol, t.Pos.Endcol)
}

func dumpObj(o *code.Object) string {
	if o == nil {
		return "nil"
	}
	var b strings.Builder
	for _, in := range o.Program {
		fmt.Fprintf(&b, "%d:%s:%d;", int(in.Opcode), encOperand(in.Operand), in.SourceLine)
	}
	b.WriteString(" S=" + hxs(o.Strings) + " R=")
	for _, re := range o.Regexps {
		b.WriteString(hx(re.String()) + ",")
	}
	b.WriteString(" M=")
	for _, m := range o.Metrics {
		fmt.Fprintf(&b, "%s/%s/%d/%d/%s/%v/%d/%s/", hx(m.Name), hx(m.Program), int(m.Kind), int(m.Type), hxs(m.Keys), m.Hidden, m.Limit, hx(m.Source))
		for _, r := range m.Buckets {
			b.WriteString(fbits(r.Min) + "-" + fbits(r.Max) + ",")
		}
		b.WriteString(";")
	}
	return b.String()
}

type compileResult struct {
	obj     string
	hasObj  bool
	err     string
	hasErr  bool
	outcome string // done | PANIC ... | HANG
}

func compileOnce(src string) compileResult {
	done := make(chan compileResult, 1)
	go func() {
		var res compileResult
		defer func() {
			if e := recover(); e != nil {
				res.outcome = fmt.Sprintf("PANIC %v", e)
			}
			done <- res
		}()
		c, err := compiler.New()
		if err != nil {
			res.outcome = "PANIC compiler.New: " + err.Error()
			return
		}
		obj, cerr := c.Compile("p.mtail", strings.NewReader(src))
		res.hasObj = obj != nil
		res.obj = dumpObj(obj)
		res.hasErr = cerr != nil
		if cerr != nil {
			res.err = cerr.Error()
		}
		res.outcome = "done"
	}()
	select {
	case r := <-done:
		return r
	case <-time.After(c03TimeBound(src)):
		return compileResult{outcome: "HANG"}
	}
}

func shortSrc(s string) string {
	if len(s) > 300 {
		return fmt.Sprintf("%q... (%d bytes)", s[:300], len(s))
	}
	return fmt.Sprintf("%q", s)
}

func c03Run(r *runCtx, id string, f []string) {
	src := unhx(f[1])
	tr, pout := traceParse(src)
	toks := make([]string, len(tr.toks))
	for i, t := range tr.toks {
		toks[i] = renderTok(t)
	}
	if len(toks) == 0 {
		toks = []string{"."}
	}
	disc := "ok"
	for i, fl := range tr.flags {
		if fl && (i == 0 || tr.toks[i-1].Kind != parser.DIV) {
			disc = fmt.Sprintf("InRegex-set-after-%s", func() string {
				if i == 0 {
					return "nothing"
				}
				return tr.toks[i-1].Kind.String()
			}())
			break
		}
	}
	r.obs(id, "%s disc=%s", strings.Join(toks, " "), disc)
	if strings.HasPrefix(pout, "PANIC") {
		r.fail(id, "parser-panic", "the parser panics (%s) on %s", pout, shortSrc(src))
		return
	}
	if pout == "HANG" {
		r.fail(id, "parser-hang", "the parser does not return within %v on %s", c03TimeBound(src), shortSrc(src))
		return
	}
	a := compileOnce(src)
	switch {
	case strings.HasPrefix(a.outcome, "PANIC"):
		r.fail(id, "compile-panic", "Compile panics (%s) on %s", a.outcome, shortSrc(src))
		return
	case a.outcome == "HANG":
		r.fail(id, "compile-hang", "Compile does not return within %v on %s", c03TimeBound(src), shortSrc(src))
		return
	case a.hasObj && a.hasErr:
		r.fail(id, "code-and-error", "Compile returns code and an error (%s) on %s", a.err, shortSrc(src))
		return
	case !a.hasObj && !a.hasErr:
		r.fail(id, "neither-code-nor-error", "Compile returns neither code nor an error on %s", shortSrc(src))
		return
	case a.hasErr && strings.TrimSpace(a.err) == "":
		r.fail(id, "empty-error-list", "Compile returns an error with no message on %s", shortSrc(src))
		return
	}
	// "the same source twice" means any two times: what depends on the order a map is walked in
	// shows in a fraction of the compiles only, so short sources are compiled a dozen times
	again := 1
	if len(src) < 4096 {
		again = 12
	}
	for k := 0; k < again; k++ {
		b := compileOnce(src)
		if b.outcome != a.outcome || b.hasObj != a.hasObj || b.hasErr != a.hasErr || b.obj != a.obj {
			r.fail(id, "not-deterministic", "compiling again (%d) gives a different result on %s: first %s later %s", k+2, shortSrc(src), a.obj, b.obj)
			return
		}
	}
	if a.hasObj {
		r.stat("compiled")
	} else {
		r.stat("rejected")
		if strings.Contains(a.err, "Internal compiler error") {
			r.stat("internal-compiler-error")
		}
	}
	r.ok(id)
}

// ---- generator -----------------------------------------------------------------------------

// c03Doubling: sources whose size is linear in n but whose meaning doubles with every line.
func c03Doubling(n int) []string {
	var a, b, c strings.Builder
	a.WriteString("const C0 /aaaaaaaaaa/\n")
	b.WriteString("const C0 /(a|b)/\n")
	c.WriteString("counter c\ndef d0 {\n  /x/ {\n    next\n  }\n}\n")
	for i := 1; i <= n; i++ {
		fmt.Fprintf(&a, "const C%d // + C%d + C%d\n", i, i-1, i-1)
		fmt.Fprintf(&b, "const C%d /x/ + C%d + /y/ + C%d\n", i, i-1, i-1)
		fmt.Fprintf(&c, "def d%d {\n  @d%d {\n    @d%d {\n      next\n    }\n  }\n}\n", i, i-1, i-1)
	}
	fmt.Fprintf(&a, "counter c\nC%d {\n  c++\n}\n", n)
	fmt.Fprintf(&b, "counter c\n/^/ + C%d {\n  c++\n}\n", n)
	fmt.Fprintf(&c, "@d%d {\n  c++\n}\n", n)
	return []string{a.String(), b.String(), c.String()}
}

// definitions that use the previous decorator twice below their own `next`: one use of the last
// inlines 2^n blocks, which the expansion budget refuses long before
func c03DecoDoubling(n int) string {
	var b strings.Builder
	b.WriteString("counter c\ndef d0 {\n  /a/ {\n    next\n  }\n}\n")
	for k := 1; k <= n; k++ {
		fmt.Fprintf(&b, "def d%d {\n  /a/ {\n    next\n  }\n  @d%d {\n    c++\n  }\n  @d%d {\n    c++\n  }\n}\n", k, k-1, k-1)
	}
	fmt.Fprintf(&b, "@d%d {\n  c++\n}\n", n)
	return b.String()
}

var c03Hand = []string{
	// capture groups named like numbers, inside decorators (whose scope is copied from a map) and
	// outside: whatever is decided, it is decided the same way every time
	"counter c by v\ndef d {\n  /(a)(?P<1>b)/ {\n    next\n  }\n}\n@d {\n  c[$1]++\n}\n",
	"counter c by v\n/(a)(?P<1>b)/ {\n  c[$1]++\n}\n", "counter c by v\n/(?P<2>a)(b)/ {\n  c[$2]++\n}\n",
	"counter c by v\ndef d {\n  /(?P<x>a)(?P<y>b)(c)/ {\n    next\n  }\n}\n@d {\n  c[$x]++\n  c[$2]++\n  c[$3]++\n}\n",
	"counter c by v\ndef d {\n  /(?P<3>a)(?P<1>b)(?P<2>c)/ {\n    next\n  }\n}\n@d {\n  c[$1]++\n  c[$2]++\n  c[$3]++\n}\n",
	"counter c by v\ndef d {\n  /(?P<0>a)/ {\n    next\n  }\n}\n@d {\n  c[$0]++\n}\n",
	"counter c by v\ndef o {\n  /(?P<k>x)/ {\n    next\n  }\n}\ndef d {\n  @o {\n    /(a)(?P<k>b)/ {\n      next\n    }\n  }\n}\n@d {\n  c[$k]++\n  c[$1]++\n}\n",
	// zero divisors of every spelling and type, with constant and non-constant dividends, alone and
	// nested in larger expressions
	"gauge g\n/(\\d+)/ { g = $1 / 0.0 }\n", "gauge g\n/(\\d+)/ { g = $1 % 0.0 }\n", "gauge g\n/(\\d+)/ { g = 1 + $1 / .0 }\n", "gauge g\n/(\\d+)/ { g = int($1 / 0e0) }\n",
	"counter c by k\n/(\\d+)/ { c[$1 / 0.0]++ }\n", "counter c\n/(\\d+)/ { ~($1 / 0.0) { c++ } }\n", "gauge g\n/(\\d+)/ { $1 / 0.0 }\n", "gauge g\n/(\\d+\\.\\d+)/ { g = $1 / 0 }\n",
	"gauge g\n/(\\d+)/ { g = $1 / (1 - 1) }\n", "gauge g\n/(\\d+)/ { g = $1 / -0 }\n", "gauge g\n/(\\d+)/ { g = $1 % -0.0 }\n", "gauge g\ngauge h\n/(\\d+)/ { g = h / 0.0\n h = g % 0 }\n",
	"gauge g\n/(\\d+)/ { g = 0 / 0 }\n", "gauge g\n/(\\d+)/ { g = 0.0 / 0.0 }\n", "gauge g\n/(\\d+)/ { g = 2 ** (1 / 0.0) }\n", "gauge g\n/(\\d+)/ { g = $1 / 0.0 / 0.0 }\n",
	// extreme numeric literals wherever the grammar takes a number: anything sized or indexed by
	// a literal of the source must survive the largest values the lexer accepts
	"counter c by k limit 9223372036854775807\n/(\\w+)/ { c[$1]++ }\n", "counter c by k limit 1000000000000000\n/(\\w+)/ { c[$1]++ }\n",
	"counter c by k limit 35184372088833\n/(\\w+)/ { c[$1]++ }\n", "counter c by k limit 0\n/(\\w+)/ { c[$1]++ }\n", "counter c limit 9223372036854775807\n/x/ { c++ }\n",
	"counter c by k limit 9223372036854775808\n/(\\w+)/ { c[$1]++ }\n", "counter c by a, b limit 4611686018427387904\n/(\\w+) (\\w+)/ { c[$1][$2]++ }\n",
	"histogram h buckets 1e308, 1.7976931348623157e308\n/(\\d+)/ { h = $1 }\n", "histogram h buckets 0, 4.9e-324\n/(\\d+)/ { h = $1 }\n", "histogram h by k buckets 1, 2 limit 9223372036854775807\n/(\\d+) (\\w+)/ { h[$2] = $1 }\n",
	"counter c by k\n/(\\w+)/ { del c[$1] after 2562047h }\n", "counter c by k\n/(\\w+)/ { del c[$1] after 9999999999h }\n", "counter c by k\n/(\\w+)/ { del c[$1] after 1ns }\n",
	"counter c by k\n/(\\w+)/ { del c[$1] after 500ms\n c[$1]++ }\n", "counter c by k\n/(\\w+)/ { del c[$1] after 0s\n c[$1]++ }\n",
	"gauge g\n/x/ { g = 9223372036854775807 + 1 }\n", "gauge g\n/x/ { g = 2 ** 9223372036854775807 }\n", "gauge g\n/x/ { g = 1 << 9223372036854775807 }\n", "gauge g\n/(\\d+)/ { g = strtol($1, 9223372036854775807) }\n",
	"", "\n", "#", "# comment without newline", "\"", "\"abc", "\"abc\\", "/", "/abc", "/abc\\", "/a/ {", "}", "{", "(", ")", "[", "]",
	"\xff", "\xc3", "\xc3\x28", "\x00", "␤", "counter c\n␤/x/ { c++ }\n", "# c ␤ counter c\n", "\"a␤b\"\n", "12␤34\n",
	"1", "1.", ".", "..", ".5", "1e", "1e+", "1E-", "1.5.5", "1h2m3s", "1d", "1s.5", "9999999999999999999999", "1e999", "-", "--", "-1", "- 1", "-x",
	"0x10", "٣", "x٣", "é = 1\n", "$", "$1", "$x_1", "$1x", "@", "@d", "@@", "!", "!x", "!=", "!~", "=~", "&&&", "|||", "<<<", ">>>=", "**=", "+==",
	"counter", "counter \n", "counter c by", "counter c by ,", "counter c by a,", "counter c as", "counter c limit", "counter c limit x", "counter c limit -1\n",
	"histogram h\n", "histogram h buckets\n", "histogram h buckets 1\n/(\\d+)/ { h = $1 }\n", "histogram h\n/(\\d+)/ { h = $1 }\n", "histogram h buckets 1, x\n",
	"hidden histogram h by k\n/(\\d+) (\\w+)/ { h[$2] = $1 }\n",
	"gauge g buckets 1, 2\n", "text t buckets 1,2\n",
	"const X /a/\n/(.*)/ {\n  subst(X + \"b\", \"c\", $1)\n}\n",
	"const X /a/\n/(.*)/ {\n  subst(X, \"c\", $1)\n}\n",
	"text t\n/(.*)/ {\n  t = subst(/a/ + /b/, \"c\", $1)\n}\n",
	"text t\n/(.*)/ {\n  t = subst(/a/, \"c\", $1)\n}\n",
	"text t\n/(.*)/ {\n  t = subst(\"a\", \"c\", $1)\n}\n",
	"text t\n/(.*)/ {\n  t = subst(1, \"c\", $1)\n}\n",
	"text t\n/(.*)/ {\n  t = subst($1, $1, $1)\n}\n",
	"const X\n", "const X 1\n", "const /a/\n", "const X /a/ + \n", "const X /a/ + \"b\"\n", "const X /a/ + Y\n", "const X X\n",
	"def d {\n}\n", "def d {\n next\n}\n@d {\n}\n", "@d {\n}\n", "def d {\n @d {\n }\n}\n", "def {\n", "next\n", "stop\n", "otherwise {\n}\n", "else {\n}\n",
	"counter c\n/a/ {\n c++\n} else\n", "counter c\n/a/ {\n c++\n} else {\n c++\n} else {\n}\n",
	"del\n", "del x\n", "counter c by k\n/(a)/ { del c[$1] after }\n", "counter c by k\n/(a)/ { del c[$1] after 1 }\n", "counter c by k\n/(a)/ { del c[$1] after 1x }\n",
	"counter c by k\n/(a)/ { del c[$1] after 99999999999999999999h }\n", "counter c\n/(a)/ { del c }\n",
	"counter c\n/(?P<x>a)(?P<x>b)/ { c++ }\n", "counter c\n/(/ { c++ }\n", "counter c\n/a{1000}{1000}/ { c++ }\n", "counter c\n/\\/ { c++ }\n", "counter c\n/[/ { c++ }\n",
	"counter c\n/a/ { c = 1 / 0 }\n", "counter c\n/a/ { c = 1 % 0 }\n", "counter c\n/a/ { c = 1.0 / 0 }\n", "counter c\n/a/ { c = 1 ** 99999 }\n", "counter c\n/a/ { c = -9223372036854775808 / -1 }\n",
	"counter c\n/a/ { c = 9223372036854775807 + 1 }\n",
	"gauge g\n/a/ { g = 1 << -1 }\n", "gauge g\n/a/ { g = 8 >> -3 }\n", "gauge g\n/a/ { g = 4 << 1 - 2 }\n", "gauge g\n/a/ { g = 1 << 64 }\n", "gauge g\n/a/ { g = 1 << 63 }\n",
	"gauge g\n/a/ { g = -1 >> 70 }\n", "gauge g\n/a/ { g = 1 << 9999999999 }\n", "gauge g\n/a/ { g = 2 ** -1 }\n", "gauge g\n/a/ { g = 1 % -1 }\n", "gauge g\n/a/ { g = -9223372036854775808 % -1 }\n",
	"gauge g\n/a/ { g = -9223372036854775808 * -1 }\n", "gauge g\n/a/ { g = 7 & -1 }\n", "gauge g\n/a/ { g = 7 | -1 ^ 3 }\n", "gauge g\n/a/ { g = ~-1 }\n", "gauge g\n/a/ { g = 1.5 ** -2.5 }\n",
	"gauge g\n/a/ { g = 1.0 / 0.0 }\n", "gauge g\n/a/ { g = 0.0 % 0.0 }\n", "gauge g\n/a/ { g = 1e308 * 1e308 }\n", "gauge g\n/(\\d+)/ { g = $1 << -1 }\n", "gauge g\n/(\\d+)/ { g = -1 << $1 }\n", "counter c\n/a/ { c = 2 ** 64 }\n", "counter c\n/a/ { c = 0 ** -1 }\n", "gauge g\n/a/ { g = 1e308 * 10 }\n", "gauge g\n/a/ { g = 5 % 2.5 }\n",
	"counter c\n/(\\d+)/ { c = strptime($1, \"2006\") }\n", "counter c\n/(\\d+)/ { strptime() }\n", "counter c\n/(\\d+)/ { strptime($1) }\n", "counter c\n/(\\d+)/ { strptime($1, $1) }\n", "counter c\n/(\\d+)/ { strptime($1, \"2006\", \"tz\", 4) }\n",
	"counter c\n/(\\d+)/ { c = len() }\n", "counter c\n/(\\d+)/ { c = len(1, 2) }\n", "counter c\n/(\\d+)/ { c = tolower() }\n", "counter c\n/(\\d+)/ { c = strtol($1) }\n", "counter c\n/(\\d+)/ { c = strtol($1, 99) }\n",
	"counter c\n/(\\d+)/ { c = timestamp(1) }\n", "counter c\n/(\\d+)/ { c = getfilename(1) }\n", "counter c\n/(\\d+)/ { settime() }\n", "counter c\n/(\\d+)/ { c = int() }\n", "counter c\n/(\\d+)/ { c = float(1, 2) }\n", "counter c\n/(\\d+)/ { c = string() }\n", "counter c\n/(\\d+)/ { c = bool(1) }\n",
	"counter c by a\n/(\\d+)/ { c[$1][$1] = 1 }\n", "counter c by a, b\n/(\\d+)/ { c[$1] = 1 }\n", "counter c\n/(\\d+)/ { c[$1] = 1 }\n", "counter c\n/(\\d+)/ { c[] = 1 }\n", "counter c by a\n/(\\d+)/ { c[$1, $1]++ }\n",
	"counter c\n/(\\d+)/ { $1 = 1 }\n", "counter c\n/(\\d+)/ { 1 = c }\n", "counter c\n/(\\d+)/ { c++ ++ }\n", "counter c\n/(\\d+)/ { ~c }\n", "counter c\n/(\\d+)/ { c += \"a\" }\n", "text t\n/(\\d+)/ { t++ }\n", "text t\n/(\\d+)/ { t += 1 }\n",
	"counter c\n/(\\d+)/ { $1 =~ $1 { c++ } }\n", "counter c\n/(\\d+)/ { $1 =~ 1 { c++ } }\n", "counter c\n/(\\d+)/ { 1 =~ /a/ { c++ } }\n", "counter c\n/(\\d+)/ && 1 { c++ }\n", "counter c\n1 { c++ }\n", "counter c\n\"a\" { c++ }\n", "counter c\nc { c++ }\n",
	"counter c\n/a/ + /b/ { c++ }\n", "counter c\n/a/ + \"b\" { c++ }\n", "counter c\n/a/ + 1 { c++ }\n", "counter c\nconst A /a/\nA + A { c++ }\n", "counter c\nconst A /(/\nA { c++ }\n",
	"counter c\n/a/ {\n c++\n}\n}\n", "counter c\n/a/ {{ c++ }}\n", "counter c\n/a/ { c++; c++ }\n", "counter c c\n", "counter counter\n", "counter c\ncounter c\n", "counter \"\"\n", "counter \"a b\"\n/x/ { \"a b\"++ }\n",
}

var c03Snippets = []string{
	"\"", "/", "\\", "␤", "\xff", "\xc3", "\x00", "@", "$", "..", "1e", "1.5.5", "0x", "9999999999999999999999", "1h2m3", "#", "{", "}", "(", ")", "[", "]", "!", "=~", "!~",
	"\n", " ", "\t", ",", "++", "--", "+=", "**", "<<", "&&", "||", "~", "^", "%", "counter ", "gauge ", "histogram ", "buckets ", "by ", "as ", "limit ", "hidden ", "const ", "def ", "del ", "after ",
	" << -1", " >> -1", " ** -1", " % 0", " / 0.0", " << 64", " & -1", "-9223372036854775808",
	"next", "stop", "otherwise", "else", "strptime(", "subst(", "len(", "int(", "$1", "$x", "/a/", "/(/", "\"s\"", "1.5", "é", "٣", " ", "�", "1d", "1h",
}

func nest(open, inner, close string, n int) string {
	return strings.Repeat(open, n) + inner + strings.Repeat(close, n)
}

func c03Deep(n int) []string {
	return []string{
		"gauge g\n/a/ {\n g = " + nest("(", "1", ")", n) + "\n}\n",
		"gauge g\n/a/ {\n g = " + strings.Repeat("~", n) + "1\n}\n",
		"gauge g\n/a/ {\n g = 1" + strings.Repeat(" + 1", n) + "\n}\n",
		"gauge g\n/a/ {\n g = 1" + strings.Repeat(" - g", n) + "\n}\n",
		"gauge g\n/(a)/ {\n g = " + nest("len(", "$1", ")", n) + "\n}\n",
		"counter c\n" + nest("/a/ {\n", "c++\n", "}\n", n),
		"counter c\n" + strings.Repeat("/a/ {\n c++\n} else {\n", n) + strings.Repeat("}\n", n),
		"counter c\n/a/" + strings.Repeat(" && /a/", n) + " {\n c++\n}\n",
		"counter c\n/a/" + strings.Repeat(" + /a/", n) + " {\n c++\n}\n",
		"counter c by k\n/(a)/ {\n c" + strings.Repeat("[$1]", n) + "++\n}\n",
		"counter c\n/(a)/ {\n c = " + nest("[", "1", "]", n) + "\n}\n",
		"counter c\n" + strings.Repeat("def d {\n", n) + strings.Repeat("}\n", n),
		"counter c\n" + strings.Repeat("@d {\n", n) + strings.Repeat("}\n", n),
		strings.Repeat("{", n), strings.Repeat("(", n), strings.Repeat("}", n), strings.Repeat("/a/ {", n),
		"counter c\n/" + strings.Repeat("a", n) + "/ {\n c++\n}\n",
		"counter c\n/" + nest("(", "a", ")", n) + "/ {\n c++\n}\n",
		"counter " + strings.Repeat("x", n) + "\n",
		"counter c\n/a/ {\n c = \"" + strings.Repeat("s", n) + "\"\n}\n",
		"counter c by " + strings.TrimSuffix(strings.Repeat("k,", n), ",") + "\n",
		"histogram h buckets " + strings.TrimSuffix(strings.Repeat("1,", n), ",") + "\n/(\\d+)/ { h = $1 }\n",
		strings.Repeat("#\n", n), strings.Repeat("1 ", n), strings.Repeat("\n", n),
	}
}

func mutateSrc(r *rng, s string, corpus []string) string {
	b := []byte(s)
	n := 1 + r.intn(3)
	for k := 0; k < n; k++ {
		switch r.intn(9) {
		case 0: // truncate
			if len(b) > 0 {
				b = b[:r.intn(len(b)+1)]
			}
		case 1: // delete a range
			if len(b) > 1 {
				i := r.intn(len(b))
				j := i + 1 + r.intn(minInt(12, len(b)-i))
				b = append(b[:i:i], b[j:]...)
			}
		case 2: // flip a byte
			if len(b) > 0 {
				b[r.intn(len(b))] = byte(r.intn(256))
			}
		case 3, 4: // insert a snippet
			i := r.intn(len(b) + 1)
			sn := c03Snippets[r.intn(len(c03Snippets))]
			b = append(b[:i:i], append([]byte(sn), b[i:]...)...)
		case 5: // duplicate a range
			if len(b) > 1 {
				i := r.intn(len(b))
				j := i + 1 + r.intn(minInt(40, len(b)-i))
				seg := append([]byte{}, b[i:j]...)
				p := r.intn(len(b) + 1)
				b = append(b[:p:p], append(seg, b[p:]...)...)
			}
		case 6: // splice with another program
			o := corpus[r.intn(len(corpus))]
			if len(o) > 0 && len(b) > 0 {
				b = append(b[:r.intn(len(b)+1)], []byte(o[r.intn(len(o)):])...)
			}
		case 7: // swap two lines
			ls := strings.Split(string(b), "\n")
			if len(ls) > 2 {
				i, j := r.intn(len(ls)), r.intn(len(ls))
				ls[i], ls[j] = ls[j], ls[i]
				b = []byte(strings.Join(ls, "\n"))
			}
		case 8: // replace a token-ish word
			ws := strings.Fields(string(b))
			if len(ws) > 0 {
				w := ws[r.intn(len(ws))]
				sn := c03Snippets[r.intn(len(c03Snippets))]
				b = []byte(strings.Replace(string(b), w, sn, 1))
			}
		}
	}
	return string(b)
}

func minInt(a, b int) int {
	if a < b {
		return a
	}
	return b
}

func tokenSoup(r *rng) string {
	dict := append(parser.Dictionary(), c03Snippets...)
	var b strings.Builder
	n := 1 + r.intn(40)
	for i := 0; i < n; i++ {
		b.WriteString(dict[r.intn(len(dict))])
		if r.intn(3) > 0 {
			b.WriteString([]string{" ", "\n", ""}[r.intn(3)])
		}
	}
	return b.String()
}

func randomBytes(r *rng) string {
	n := r.intn(60)
	b := make([]byte, n)
	for i := range b {
		if r.intn(3) == 0 {
			b[i] = byte(r.intn(256))
		} else {
			const alpha = " \n\t{}()[]/\"\\#$@!=~<>+-*%&|^,.0123456789abcxyz_"
			b[i] = alpha[r.intn(len(alpha))]
		}
	}
	return string(b)
}

func init() {
	props["C03"] = &propImpl{
		gen: func(g *genCtx) {
			var corpus []string
			corpus = append(corpus, c23Programs...)
			corpus = append(corpus, vmHandPrograms...)
			corpus = append(corpus, c24Bases...)
			for _, c := range vmExampleCases(0) {
				corpus = append(corpus, c.src)
			}
			var srcs []string
			srcs = append(srcs, c03Hand...)
			srcs = append(srcs, c03DecoDoubling(3), c03DecoDoubling(12), c03DecoDoubling(21))
			// the same with one statement per line, so that they get past the parser
			for _, h := range c03Hand {
				if strings.Contains(h, "{ ") && strings.Contains(h, " }") {
					srcs = append(srcs, strings.ReplaceAll(strings.ReplaceAll(h, "{ ", "{\n  "), " }", "\n}"))
				}
			}
			srcs = append(srcs, corpus...)
			// short sources whose expansion doubles with every line: pattern constants built from
			// constants, decorators that use a decorator twice
			for _, n := range []int{3, 9, 12, 20, 40, 200} {
				srcs = append(srcs, c03Doubling(n)...)
			}
			depths := []int{1, 10, 98, 99, 100, 101, 102, 250, 1025}
			nmut, nsoup, nrand, nprog := 600, 150, 150, 60
			if g.thorough() {
				depths = append(depths, 4000, 8000)
				nmut, nsoup, nrand, nprog = 12000, 3000, 3000, 1000
			}
			for _, d := range depths {
				srcs = append(srcs, c03Deep(d)...)
			}
			for i := 0; i < nprog; i++ {
				p := genProgram(g.r)
				srcs = append(srcs, p)
				corpus = append(corpus, p)
			}
			for i := 0; i < nmut; i++ {
				srcs = append(srcs, mutateSrc(g.r, corpus[g.r.intn(len(corpus))], corpus))
			}
			for i := 0; i < nsoup; i++ {
				srcs = append(srcs, tokenSoup(g.r))
			}
			for i := 0; i < nrand; i++ {
				srcs = append(srcs, randomBytes(g.r))
			}
			for _, s := range srcs {
				tr, out := traceParse(s)
				flags := make([]byte, len(tr.flags))
				for i, f := range tr.flags {
					flags[i] = '0'
					if f {
						flags[i] = '1'
					}
				}
				fs := string(flags)
				if fs == "" {
					fs = "."
				}
				if out == "HANG" || strings.HasPrefix(out, "PANIC") {
					fs = "!" + fs
				}
				g.emit("src", hx(s), runesOf(s), fs)
			}
		},
		run: c03Run,
	}
}
