//go:build verif

package main

import (
	"bytes"
	"context"
	"fmt"
	"math"
	"sort"
	"strconv"
	"strings"
	"unicode/utf8"

	"github.com/google/mtail/internal/exporter"
	"github.com/google/mtail/internal/metrics"
	"github.com/google/mtail/internal/metrics/datum"
	dto "github.com/prometheus/client_model/go"
	"github.com/prometheus/common/expfmt"
	"github.com/prometheus/common/model"
)

// C13 — Prometheus exposition reflects the store exactly.
//
//   prom <omitProg> <emitTs> <store>
// OBS = the parsed exposition as a sorted list of canonical samples (or ERROR).
// PRED = the property: one sample per representable label set of each non-text metric with
// the prescribed name, labels, type, value, timestamp; histogram invariants; unrepresentable
// label sets left out without failing the scrape.

func c13Labels(pairs [][2]string) string {
	o := make([]string, len(pairs))
	for i, p := range pairs {
		o[i] = hx(p[0]) + "=" + hx(p[1])
	}
	sort.Strings(o)
	return strings.Join(o, ",")
}

func c13Parse(text []byte) ([]string, error) {
	var parser expfmt.TextParser
	fams, err := parser.TextToMetricFamilies(bytes.NewReader(text))
	if err != nil {
		return nil, err
	}
	var out []string
	for name, fam := range fams {
		for _, m := range fam.Metric {
			var pairs [][2]string
			for _, lp := range m.Label {
				pairs = append(pairs, [2]string{lp.GetName(), lp.GetValue()})
			}
			ts := "-"
			if m.TimestampMs != nil {
				ts = strconv.FormatInt(m.GetTimestampMs(), 10)
			}
			switch fam.GetType() {
			case dto.MetricType_COUNTER:
				out = append(out, fmt.Sprintf("%s{%s}:c:%s:%s", hx(name), c13Labels(pairs), canonVal(m.Counter.GetValue()), ts))
			case dto.MetricType_GAUGE:
				out = append(out, fmt.Sprintf("%s{%s}:g:%s:%s", hx(name), c13Labels(pairs), canonVal(m.Gauge.GetValue()), ts))
			case dto.MetricType_UNTYPED:
				out = append(out, fmt.Sprintf("%s{%s}:u:%s:%s", hx(name), c13Labels(pairs), canonVal(m.Untyped.GetValue()), ts))
			case dto.MetricType_HISTOGRAM:
				h := m.Histogram
				var bs []string
				for _, b := range h.Bucket {
					bs = append(bs, canonVal(b.GetUpperBound())+"="+strconv.FormatUint(b.GetCumulativeCount(), 10))
				}
				out = append(out, fmt.Sprintf("%s{%s}:h:%s:%s:%d:%s", hx(name), c13Labels(pairs), canonVal(h.GetSampleSum()), ts, h.GetSampleCount(), strings.Join(bs, ",")))
			default:
				out = append(out, fmt.Sprintf("%s{%s}:?", hx(name), c13Labels(pairs)))
			}
		}
	}
	sort.Strings(out)
	return out, nil
}

// c13Expected is the property in its own words, using the client library's validity
// functions directly (not through mtail).
func c13Expected(ms []sMetric, real []*metrics.Metric, omitProg, emitTs bool) (want []string, skipped int) {
	for i, sm := range ms {
		if sm.kind == metrics.Text {
			continue
		}
		name := strings.ReplaceAll(sm.name, "-", "_")
		var names []string
		if !omitProg {
			names = append(names, "prog")
		}
		names = append(names, sm.keys...)
		namesOK := model.IsValidLegacyMetricName(name)
		seen := map[string]bool{}
		for _, n := range names {
			if !model.LabelName(n).IsValidLegacy() || strings.HasPrefix(n, "__") || seen[n] {
				namesOK = false
			}
			seen[n] = true
		}
		for j, l := range sm.lsets {
			var vals []string
			if !omitProg {
				vals = append(vals, sm.prog)
			}
			vals = append(vals, l.labels...)
			ok := namesOK
			for _, v := range vals {
				if !utf8.ValidString(v) {
					ok = false
				}
			}
			if !ok {
				skipped++
				continue
			}
			var pairs [][2]string
			for q := range names {
				pairs = append(pairs, [2]string{names[q], vals[q]})
			}
			ts := "-"
			if emitTs {
				ts = strconv.FormatInt(l.tNs/1000000, 10)
			}
			d := real[i].LabelValues[j].Value
			switch sm.kind {
			case metrics.Histogram:
				// cumulative by ascending declared bound
				b := datum.GetBuckets(d)
				type bc struct {
					max float64
					c   uint64
				}
				var bcs []bc
				for _, x := range b.Buckets {
					bcs = append(bcs, bc{x.Range.Max, x.Count})
				}
				sort.Slice(bcs, func(a, c int) bool { return bcs[a].max < bcs[c].max })
				var cum uint64
				var bs []string
				for _, x := range bcs {
					cum += x.c
					bs = append(bs, canonVal(x.max)+"="+strconv.FormatUint(cum, 10))
				}
				sum := 0.0
				for _, v := range l.obs {
					sum += v
				}
				want = append(want, fmt.Sprintf("%s{%s}:h:%s:%s:%d:%s", hx(name), c13Labels(pairs), canonVal(sum), ts, len(l.obs), strings.Join(bs, ",")))
			default:
				var v float64
				switch l.kind {
				case 'i':
					v = float64(l.i)
				case 'f':
					v = l.f
				}
				t := "u"
				switch sm.kind {
				case metrics.Counter:
					t = "c"
				case metrics.Gauge, metrics.Timer:
					t = "g"
				}
				want = append(want, fmt.Sprintf("%s{%s}:%s:%s:%s", hx(name), c13Labels(pairs), t, canonVal(v), ts))
			}
		}
	}
	sort.Strings(want)
	return want, skipped
}

func c13Run(r *runCtx, id string, f []string) {
	omitProg, emitTs := f[1] == "1", f[2] == "1"
	ms := decodeStore(f[3])
	s, real, err := buildStore(ms)
	if err != nil {
		r.obs(id, "STORE-REFUSED")
		r.ok(id)
		r.trivial(id)
		return
	}
	opts := []exporter.Option{exporter.Hostname("h")}
	if omitProg {
		opts = append(opts, exporter.OmitProgLabel())
	}
	if emitTs {
		opts = append(opts, exporter.EmitTimestamp())
	}
	ctx, cancel := context.WithCancel(context.Background())
	defer cancel()
	var e *exporter.Exporter
	if len(f) > 4 && f[4] != "0" {
		// the exporter outlives program reloads: it has scraped an earlier version of every metric
		// (same name, program, kind, type and source; the keys renamed, or one key fewer or more)
		// before the store came to hold what it holds now
		prev := make([]sMetric, len(ms))
		for i, m := range ms {
			pm := m
			pm.keys = nil
			for _, k := range m.keys {
				pm.keys = append(pm.keys, k+"old")
			}
			switch {
			case f[4] == "2" && len(pm.keys) > 0:
				pm.keys = pm.keys[:len(pm.keys)-1]
			case f[4] == "2":
				pm.keys = []string{"extra"}
			}
			pm.lsets = nil
			for j, l := range m.lsets {
				nl := l
				nl.labels = make([]string, len(pm.keys))
				for q := range nl.labels {
					nl.labels[q] = fmt.Sprintf("p%d", j)
				}
				pm.lsets = append(pm.lsets, nl)
				if len(pm.keys) == 0 {
					break
				}
			}
			prev[i] = pm
		}
		if ps, _, perr := buildStore(prev); perr == nil {
			e, _ = exporter.New(ctx, ps, opts...)
			var warm bytes.Buffer
			_ = e.Write(&warm)
			for _, m := range real {
				_ = ps.Add(m)
			}
			s = ps
		}
	}
	if e == nil {
		e, _ = exporter.New(ctx, s, opts...)
	}
	var buf bytes.Buffer
	werr := e.Write(&buf)
	var got []string
	if werr == nil {
		got, werr = c13Parse(buf.Bytes())
	}
	want, skipped := c13Expected(ms, real, omitProg, emitTs)
	if werr != nil {
		r.obs(id, "ERROR")
		r.fail(id, "scrape-failed", "scrape failed: %v", werr)
		return
	}
	if len(got) == 0 {
		r.obs(id, ".")
	} else {
		r.obs(id, "%s", strings.Join(got, " "))
	}
	var bad []string
	if strings.Join(got, " ") != strings.Join(want, " ") {
		// first difference
		gm := map[string]int{}
		for _, g := range got {
			gm[g]++
		}
		for _, w := range want {
			if gm[w] == 0 {
				bad = append(bad, "missing or wrong sample, want "+w)
				break
			}
			gm[w]--
		}
		for g, c := range gm {
			if c > 0 {
				bad = append(bad, "unexpected sample "+g)
				break
			}
		}
	}
	// histogram invariants on what was actually exposed
	for _, g := range got {
		p := strings.Split(g, ":")
		if len(p) >= 6 && p[1] == "h" {
			cnt, _ := strconv.ParseUint(p[4], 10, 64)
			var prev uint64
			var last uint64
			lastInf := false
			for _, b := range strings.Split(p[5], ",") {
				kv := strings.Split(b, "=")
				c, _ := strconv.ParseUint(kv[1], 10, 64)
				if c < prev {
					bad = append(bad, "cumulative bucket counts decrease in "+g)
				}
				prev, last = c, c
				lastInf = kv[0] != "nan" && math.IsInf(unfbits(kv[0]), 1)
			}
			if lastInf && last != cnt {
				bad = append(bad, fmt.Sprintf("+Inf bucket %d != count %d in %s", last, cnt, g))
			}
		}
	}
	if len(bad) > 0 {
		r.fail(id, "exposition", "omitProg=%v ts=%v: %s", omitProg, emitTs, strings.Join(bad, "; "))
	} else {
		r.ok(id)
	}
	if len(want) == 0 {
		r.trivial(id)
	}
	if skipped > 0 {
		r.stat("cases_with_unrepresentable_label_sets")
	}
	r.stat("samples_expected_" + strconv.Itoa(min(len(want), 9)/3*3) + "plus")
}

func init() {
	props["C13"] = &propImpl{
		gen: func(g *genCtx) {
			n := 1500
			if g.thorough() {
				n = 30000
			}
			for i := 0; i < n; i++ {
				ms := genStore(g.r, storeGenOpts{maxMetrics: 6, unsortedBuckets: true})
				if i%3 == 2 {
					g.emit("prom", strconv.Itoa(g.r.intn(2)), strconv.Itoa(g.r.intn(2)), encodeStore(ms), strconv.Itoa(1+g.r.intn(2)))
					continue
				}
				g.emit("prom", strconv.Itoa(g.r.intn(2)), strconv.Itoa(g.r.intn(2)), encodeStore(ms))
			}
		},
		run: c13Run,
	}
}
