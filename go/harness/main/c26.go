//go:build verif

package main

import (
	"fmt"
	"path/filepath"
	"sort"
	"strconv"
	"strings"
)

// C26 — program directory scanning loads exactly the eligible files.
// C25 — self-monitoring counters are exact (loader part).
// Both replay a directory history and compare, after every load, the real Runtime with a
// reference kept here from the events the harness itself caused.

type dirRef struct {
	files    map[string]int  // file name -> version (files directly in the directory)
	dirs     map[string]bool // sub-directories
	running  map[string]int  // program -> version the property says must be running
	loads    map[string]int
	unloads  map[string]int
	loadErrs map[string]int
	rtErrs   map[string]int
	lines    int
}

func eligible(name string) bool {
	return !strings.HasPrefix(name, ".") && filepath.Ext(name) == ".mtail"
}

// refLoad applies the property's wording to one reload request.  `store` is the observed store
// before the request: a version whose metric name is already registered with another kind is
// refused by the store (the permitted interaction of C06), also when the other metric was
// registered earlier in this same request, and also (a recorded finding for C26) when it is the
// program's own earlier metric.  honourOwn=false makes the reference ignore the latter, which is
// what the property's wording for the running set demands.
func (d *dirRef) refLoad(store []string, honourOwn bool) (ownKind map[string]bool) {
	cat := rtCatalogue()
	ownKind = map[string]bool{}
	type reg struct {
		kind   int
		owners map[string]bool
	}
	kinds := map[string]*reg{}
	for _, s := range store {
		p := strings.Split(s, "/")
		k, _ := strconv.Atoi(p[2])
		name, prog := unhx(p[0]), unhx(p[1])
		if kinds[name] == nil {
			kinds[name] = &reg{kind: k, owners: map[string]bool{}}
		}
		kinds[name].owners[prog] = true
	}
	var names []string
	for n := range d.files {
		names = append(names, n)
	}
	sort.Strings(names)
	for _, n := range names {
		if !eligible(n) {
			continue
		}
		v := d.files[n]
		if cur, ok := d.running[n]; ok && cur == v {
			continue
		}
		if !cat[v].compiles {
			d.loadErrs[n]++
			continue
		}
		refused := false
		for _, dc := range cat[v].decls {
			if dc.hidden {
				continue
			}
			if r := kinds[dc.name]; r != nil && r.kind != dc.kind {
				onlyOwn := len(r.owners) == 1 && r.owners[n]
				if onlyOwn {
					ownKind[n] = true
					if !honourOwn {
						continue
					}
				}
				refused = true
				break
			}
			if kinds[dc.name] == nil {
				kinds[dc.name] = &reg{kind: dc.kind, owners: map[string]bool{}}
			}
			kinds[dc.name].owners[n] = true
		}
		if refused {
			d.loadErrs[n]++
			continue
		}
		d.running[n] = v
		d.loads[n]++
	}
	for n := range d.running {
		if _, ok := d.files[n]; !ok {
			delete(d.running, n)
			d.unloads[n]++
		}
	}
	return ownKind
}

func (d *dirRef) refLine(matching bool) {
	d.lines++
	if !matching {
		return
	}
	for n, v := range d.running {
		if rtCatalogue()[v].rterr {
			d.rtErrs[n]++
		}
	}
}

func (d *dirRef) counters() string {
	var out []string
	add := func(pfx string, m map[string]int) {
		for k, v := range m {
			if v != 0 {
				out = append(out, fmt.Sprintf("%s/%s=%d", pfx, k, v))
			}
		}
	}
	add("prog_loads_total", d.loads)
	add("prog_unloads_total", d.unloads)
	add("prog_load_errors_total", d.loadErrs)
	add("prog_runtime_errors_total", d.rtErrs)
	if d.lines > 0 {
		out = append(out, fmt.Sprintf("lines_total=%d", d.lines))
	}
	sort.Strings(out)
	return strings.Join(out, ",")
}

func (d *dirRef) handles() string {
	var out []string
	for n, v := range d.running {
		out = append(out, fmt.Sprintf("%s=v%d", n, v))
	}
	sort.Strings(out)
	return strings.Join(out, ",")
}

func dirRun(prop string) func(r *runCtx, id string, f []string) {
	return func(r *runCtx, id string, f []string) {
		ops := strings.Split(f[2], ";")
		env, err := newRtEnv()
		if err != nil {
			r.obs(id, "ENV-ERROR")
			r.fail(id, "harness", "%v", err)
			return
		}
		defer env.close()
		ref := &dirRef{files: map[string]int{}, dirs: map[string]bool{}, running: map[string]int{}, loads: map[string]int{}, unloads: map[string]int{}, loadErrs: map[string]int{}, rtErrs: map[string]int{}}
		var obs []string
		type fl struct{ cls, msg string }
		var fails []fl
		for step, op := range ops {
			p := strings.Split(op, ":")
			switch p[0] {
			case "w":
				if !strings.Contains(p[1], "/") && !ref.dirs[p[1]] {
					ref.files[p[1]], _ = strconv.Atoi(p[2])
				}
			case "rm":
				delete(ref.files, p[1])
				delete(ref.dirs, p[1])
			case "mv":
				if v, ok := ref.files[p[1]]; ok && !ref.dirs[p[2]] {
					delete(ref.files, p[1])
					ref.files[p[2]] = v
				}
			case "mkdir":
				if _, isFile := ref.files[p[1]]; !isFile {
					ref.dirs[p[1]] = true
				}
			case "l":
				ref.refLine(true)
			case "n":
				ref.refLine(false)
			}
			if prop == "C26" && (p[0] == "l" || p[0] == "n") && env.hung == "" {
				// a line reaches every running program once, under that program's own name, and
				// nothing else: its own lines-seen counter moves by one, or (a version that fails at
				// run time) its own error counter does; the metrics of names that are not running
				// stay as they are
				seen0, errs0 := env.lseenByProg(), map[string]int64{}
				hs := env.rt.VerifHandles()
				for n := range hs {
					errs0[n] = expvarMapInt("prog_runtime_errors_total", n)
				}
				env.apply(op)
				seen1 := env.lseenByProg()
				for n := range hs {
					ds, de := seen1[n]-seen0[n], expvarMapInt("prog_runtime_errors_total", n)-errs0[n]
					if ds+de != 1 || ds < 0 || de < 0 {
						fails = append(fails, fl{"line-not-under-own-name", fmt.Sprintf("step %d (%s): the running program %s shows %d more lines seen and %d more runtime errors under its own name; one line reached it", step, op, n, ds, de)})
					}
				}
				for n, v := range seen1 {
					if _, running := hs[n]; !running && v != seen0[n] {
						fails = append(fails, fl{"line-to-removed-program", fmt.Sprintf("step %d (%s): %s is not running, yet its lines-seen counter went from %d to %d", step, op, n, seen0[n], v)})
					}
				}
				continue
			}
			if p[0] != "load" {
				env.apply(op)
				continue
			}
			before := env.observe()
			env.apply(op)
			snapshot := map[string]int{}
			for k, v := range ref.running {
				snapshot[k] = v
			}
			ownKind := ref.refLoad(before.store, prop == "C25")
			after := env.observe()
			obs = append(obs, fmt.Sprintf("H[%s] C[%s] S[%s]", after.handles, after.counters, strings.Join(after.store, " ")))
			if prop == "C26" && after.handles != ref.handles() {
				cls := "running-set"
				// does refusing the own-kind-change programs as well explain the difference?
				alt := &dirRef{files: ref.files, running: snapshot, loads: map[string]int{}, unloads: map[string]int{}, loadErrs: map[string]int{}}
				alt.refLoad(before.store, true)
				if len(ownKind) > 0 && alt.handles() == after.handles {
					cls = "own-kind-change-refused"
					// follow the implementation from here on, so that later steps are judged on their own
					ref.running = alt.running
				}
				fails = append(fails, fl{cls, fmt.Sprintf("step %d: running programs [%s], the property requires [%s] (files %v)", step, after.handles, ref.handles(), ref.files)})
			}
			if prop == "C25" && after.counters != ref.counters() {
				fails = append(fails, fl{"counters", fmt.Sprintf("step %d: counters [%s], events that happened [%s]", step, after.counters, ref.counters())})
			}
		}
		final := env.observe()
		obs = append(obs, fmt.Sprintf("H[%s] C[%s] S[%s]", final.handles, final.counters, strings.Join(final.store, " ")))
		r.obs(id, "%s", strings.Join(obs, " || "))
		if prop == "C25" && final.counters != ref.counters() {
			fails = append(fails, fl{"counters", fmt.Sprintf("at the end: counters [%s], events that happened [%s]", final.counters, ref.counters())})
		}
		if prop == "C26" {
			// a removed program gets no further lines: its metrics stop changing (checked through
			// the running set) and nothing that is not eligible ever has a handle
			for n := range rtHandleMap(final.handles) {
				if !eligible(n) {
					fails = append(fails, fl{"ineligible-loaded", "a handle exists for " + n})
				}
			}
		}
		if env.hung != "" {
			fails = append([]fl{{"load-hangs", env.hung}}, fails...)
		}
		if len(fails) == 0 {
			r.ok(id)
		} else {
			r.fail(id, fails[0].cls, "ops %s: %s", f[2], fails[0].msg)
		}
		nl := strings.Count(f[2], "load")
		if nl < 2 {
			r.trivial(id)
		}
		r.stat("loads_" + strconv.Itoa(min(nl, 5)))
	}
}

func dirGen(g *genCtx) {
	cat := rtEncodeCatalogue()
	emit := func(ops []string) { g.emit("rt", cat, strings.Join(ops, ";")) }
	names := []string{"a.mtail", "b.mtail", "c.mtail", ".hidden.mtail", "notes.txt", "sub", "prog.mtail.bak", "x.mtail.txt", ".mtail", "mtail"}
	vers := []int{0, 1, 6, 7, 9, 3, 12, 13, 14, 15}
	// systematic: every file name with a good program, alone
	for _, n := range names {
		emit([]string{"w:" + n + ":0", "load", "l:x", "load"})
		emit([]string{"mkdir:" + n, "w:" + n + "/inner.mtail:0", "load", "l:x"})
	}
	// systematic: add / edit / break / fix / remove / rename on one file
	for _, a := range vers {
		for _, b := range vers {
			emit([]string{fmt.Sprintf("w:a.mtail:%d", a), "load", "l:x", fmt.Sprintf("w:a.mtail:%d", b), "load", "l:y", "rm:a.mtail", "load", "l:x", fmt.Sprintf("w:a.mtail:%d", b), "load", "l:y"})
			emit([]string{fmt.Sprintf("w:a.mtail:%d", a), "load", "l:x", "mv:a.mtail:c.mtail", "load", "l:y", fmt.Sprintf("w:c.mtail:%d", b), "load", "l:x"})
		}
	}
	// a directory takes the name of a program that ran: the program is gone all the same
	for _, v := range []int{0, 9} {
		emit([]string{fmt.Sprintf("w:a.mtail:%d", v), "load", "l:x", "rm:a.mtail", "mkdir:a.mtail", "load", "l:y", "load", "l:x"})
		emit([]string{fmt.Sprintf("w:a.mtail:%d", v), "load", "l:x", "mv:a.mtail:c.mtail", "mkdir:a.mtail", "w:a.mtail/inner.mtail:0", "load", "l:y", "load", "l:x"})
		emit([]string{"mkdir:a.mtail", "load", "l:x", "rm:a.mtail", fmt.Sprintf("w:a.mtail:%d", v), "load", "l:y"})
	}
	// a file written earlier is renamed over a running program written later, and the reverse:
	// what runs afterwards is what the file says, whatever the files' times
	emit([]string{"w:a.mtail:0", "w:c.mtail:7", "load", "l:x", "mv:a.mtail:c.mtail", "load", "l:y", "load", "l:x"})
	emit([]string{"w:c.mtail:7", "w:a.mtail:0", "load", "l:x", "mv:a.mtail:c.mtail", "load", "l:y", "load", "l:x"})
	emit([]string{"w:b.mtail:1", "w:a.mtail:0", "w:c.mtail:13", "load", "l:x", "mv:b.mtail:c.mtail", "load", "l:y", "mv:a.mtail:c.mtail", "load", "l:x"})
	// the same bytes under a second name, next to the first and after it is gone: each name is a
	// program of its own
	for _, v := range []int{0, 9, 10} {
		emit([]string{fmt.Sprintf("w:a.mtail:%d", v), "load", "l:x", fmt.Sprintf("w:b.mtail:%d", v), "load", "l:y", "n:z", "rm:a.mtail", "load", "l:x", fmt.Sprintf("w:a.mtail:%d", v), "load", "l:y"})
	}
	// several kind conflicts in one refused load
	emit([]string{"w:a.mtail:13", "load", "l:x", "w:b.mtail:12", "load", "l:y", "load"})
	emit([]string{"w:b.mtail:12", "load", "l:x", "w:a.mtail:13", "load", "l:y", "load"})
	n := 150
	if g.thorough() {
		n = 3000
	}
	for i := 0; i < n; i++ {
		ln := 4 + g.r.intn(14)
		var ops []string
		for j := 0; j < ln; j++ {
			switch g.r.intn(10) {
			case 0, 1, 2:
				ops = append(ops, fmt.Sprintf("w:%s:%d", names[g.r.intn(5)], vers[g.r.intn(len(vers))]))
			case 3, 4, 5:
				ops = append(ops, "load")
			case 6:
				ops = append(ops, "l:"+[]string{"x", "y"}[g.r.intn(2)])
			case 7:
				ops = append(ops, "rm:"+names[g.r.intn(5)])
				if g.r.chance(1, 4) {
					// ... and a directory takes the name
					ops = append(ops, "mkdir:"+strings.TrimPrefix(ops[len(ops)-1], "rm:"))
				}
			case 8:
				ops = append(ops, fmt.Sprintf("mv:%s:%s", names[g.r.intn(3)], names[g.r.intn(5)]))
			case 9:
				if g.r.chance(1, 2) {
					ops = append(ops, "mkdir:sub", fmt.Sprintf("w:sub/inner.mtail:%d", vers[g.r.intn(len(vers))]))
				} else {
					ops = append(ops, "n:noise")
				}
			}
		}
		ops = append(ops, "load", "l:x")
		emit(ops)
	}
}

func init() {
	props["C26"] = &propImpl{gen: dirGen, run: dirRun("C26")}
	// C25 also counts lines per log: one-shot runs over files with and without a final newline
	// (the C19 machinery, whose observation includes lines_total and log_lines_total per file)
	c25Dir := dirRun("C25")
	props["C25"] = &propImpl{
		gen: func(g *genCtx) {
			dirGen(g)
			for _, fs := range []string{"3/1", "3/0", "1/0", "0/1", "5/1,4/0", "2/0,2/0,1/1", "40/0"} {
				for _, ps := range []string{"w", "w,g"} {
					g.emit("os", "4", ps, fs)
				}
			}
		},
		run: func(r *runCtx, id string, f []string) {
			if f[0] == "os" {
				c19Run(r, id, f)
				return
			}
			c25Dir(r, id, f)
		},
	}
}
