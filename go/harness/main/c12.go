//go:build verif

package main

import (
	"context"
	"errors"
	"flag"
	"fmt"
	"io"
	"math"
	"net"
	"os"
	"path/filepath"
	"syscall"
	"net/http"
	"net/http/httptest"
	"runtime"
	"strconv"
	"strings"
	"time"

	"github.com/google/mtail/internal/exporter"
	"github.com/google/mtail/internal/metrics"
	"github.com/google/mtail/internal/metrics/datum"
)

// C12 — no export attempt can leave metrics locked or stall processing.
//
//   exp <exporter> <M> <L>                     enumerate every fault the exporter can meet on a store
//                                              of M metrics x L label sets; OBS bad=0/1
//   one <exporter> <M> <L> <kind> <mi> <li>    a single fault (replay form); OBS -
//   stall <unix|tcp> <L> <w>                   Exporter.PushMetrics itself, to a peer that accepts the connection and never
//                                              reads, with L label sets (more than the socket buffers hold) and a push
//                                              deadline of 300ms; w=1: a line processor calls GetDatum meanwhile; OBS bad=0/1
// exporters: prom (Registry.Gather -> Collect), push (writeSocketMetrics), varz, graphite,
//   json (HandleJSON -> Store.MarshalJSON)
// fault kinds: nan / inf (json: the datum at that position is a float JSON cannot represent), utf8 (label value not UTF-8), name (metric name not representable),
//   dup (duplicate label name), write (io.Writer fails at the k-th write, k = mi*L+li),
//   cancel (request context cancelled after k writes), none

func c12Store(M, L int, kind string, mi, li int) (*metrics.Store, []*metrics.Metric) {
	s := metrics.NewStore()
	var ms []*metrics.Metric
	for i := 0; i < M; i++ {
		name := fmt.Sprintf("m%d", i)
		keys := []string{"k"}
		if kind == "name" && i == mi {
			name = "bad name\xff"
		}
		if kind == "dup" && i == mi {
			keys = []string{"prog"}
		}
		typ := metrics.Int
		if (kind == "nan" || kind == "inf") && i == mi {
			typ = metrics.Float
		}
		m := metrics.NewMetric(name, "prog", metrics.Counter, typ, keys...)
		if kind == "limit" && i == mi {
			// more label sets than the declared limit: the state between two GC passes
			m.Limit = 1
		}
		for j := 0; j < L; j++ {
			lv := fmt.Sprintf("v%d", j)
			if kind == "utf8" && i == mi && j == li {
				lv = "\xff"
			}
			d, _ := m.GetDatum(lv)
			if typ == metrics.Float {
				v := float64(j)
				if j == li {
					v = math.NaN()
					if kind == "inf" {
						v = math.Inf(1 - 2*(j%2))
					}
				}
				datum.SetFloat(d, v, time.Unix(1, 0))
			} else {
				datum.SetInt(d, int64(j), time.Unix(1, 0))
			}
		}
		_ = s.Add(m)
		ms = append(ms, m)
	}
	return s, ms
}

type failingWriter struct {
	n, failAt int
	temporary bool
}

func (w *failingWriter) Write(p []byte) (int, error) {
	w.n++
	if w.n > w.failAt {
		if w.temporary {
			// what a connection whose deadline has passed answers, every time: a timeout that
			// calls itself temporary
			return 0, timeoutErr{}
		}
		return 0, errors.New("injected write failure")
	}
	return len(p), nil
}

type timeoutErr struct{}

func (timeoutErr) Error() string   { return "i/o timeout (injected)" }
func (timeoutErr) Timeout() bool   { return true }
func (timeoutErr) Temporary() bool { return true }

type failingRW struct {
	*httptest.ResponseRecorder
	n, failAt int
}

func (w *failingRW) Write(p []byte) (int, error) {
	w.n++
	if w.n > w.failAt {
		return 0, errors.New("injected write failure")
	}
	return w.ResponseRecorder.Write(p)
}

type cancellingRW struct {
	*httptest.ResponseRecorder
	n, at  int
	cancel context.CancelFunc
}

func (w *cancellingRW) Write(p []byte) (int, error) {
	w.n++
	if w.n > w.at {
		w.cancel()
	}
	return w.ResponseRecorder.Write(p)
}

func emittersBlocked() int {
	// give exited goroutines a moment to disappear
	for i := 0; i < 20; i++ {
		runtime.Gosched()
	}
	time.Sleep(2 * time.Millisecond)
	buf := make([]byte, 1<<20)
	n := runtime.Stack(buf, true)
	return strings.Count(string(buf[:n]), "EmitLabelSets")
}

// c12One runs one export attempt under one fault and reports (lockedMetrics, leakedEmitters).
func c12One(exp string, M, L int, kind string, mi, li int) (int, int, string) {
	before := emittersBlocked()
	withWriter := strings.HasSuffix(kind, "+w")
	kind = strings.TrimSuffix(kind, "+w")
	s, ms := c12Store(M, L, kind, mi, li)
	stopW := make(chan struct{})
	wDone := make(chan struct{})
	stopped := false
	stopWriter := func() {
		if !stopped {
			stopped = true
			close(stopW)
			select {
			case <-wDone:
			case <-time.After(time.Second):
			}
		}
	}
	defer stopWriter()
	if !(withWriter && mi < len(ms)) {
		close(wDone)
	} else {
		// line processing on the same metric while the export runs: GetDatum takes m.Lock()
		go func(m *metrics.Metric) {
			defer close(wDone)
			for {
				select {
				case <-stopW:
					return
				default:
				}
				_, _ = m.GetDatum("v0")
			}
		}(ms[mi])
	}
	ctx, cancel := context.WithCancel(context.Background())
	defer cancel()
	e, err := exporter.New(ctx, s, exporter.Hostname("h"))
	if err != nil {
		return -1, -1, err.Error()
	}
	k := mi*L + li
	note := ""
	done := make(chan struct{})
	go func() {
		defer close(done)
		defer func() {
			if r := recover(); r != nil {
				note = fmt.Sprintf("panic: %v", r)
			}
		}()
		switch exp {
		case "prom":
			var w io.Writer = io.Discard
			if kind == "write" {
				w = &failingWriter{failAt: k}
			}
			if err := e.Write(w); err != nil {
				note = "err"
			}
		case "push":
			var w io.Writer = io.Discard
			if kind == "write" {
				w = &failingWriter{failAt: k}
			}
			if kind == "twrite" {
				w = &failingWriter{failAt: k, temporary: true}
			}
			if err := e.VerifWriteSocketMetrics(w, "graphite"); err != nil {
				note = "err"
			}
		case "json":
			rw := &failingRW{ResponseRecorder: httptest.NewRecorder(), failAt: 1 << 30}
			if kind == "write" {
				rw.failAt = 0
			}
			e.HandleJSON(rw, httptest.NewRequest(http.MethodGet, "/json", nil))
			if rw.Code != http.StatusOK {
				note = "err"
			}
		case "varz", "graphite":
			rctx, rcancel := context.WithCancel(context.Background())
			defer rcancel()
			rw := &cancellingRW{ResponseRecorder: httptest.NewRecorder(), at: 1 << 30, cancel: rcancel}
			if kind == "cancel" {
				rw.at = k
				if k == 0 {
					rcancel()
				}
			}
			req := httptest.NewRequest(http.MethodGet, "/x", nil).WithContext(rctx)
			var hw http.ResponseWriter = rw
			if kind == "write" {
				// the client has gone: every write to the response fails from the k-th on
				hw = &failingRW{ResponseRecorder: httptest.NewRecorder(), failAt: k}
			}
			if exp == "varz" {
				e.HandleVarz(hw, req)
			} else {
				e.HandleGraphite(hw, req)
			}
		}
	}()
	limit := 5 * time.Second
	if withWriter {
		limit = 2 * time.Second
	}
	select {
	case <-done:
	case <-time.After(limit):
		return M, 0, "export did not return within " + limit.String() + " (deadlock)"
	}
	stopWriter()
	locked := 0
	for _, m := range ms {
		if m.TryLock() {
			m.Unlock()
		} else {
			locked++
		}
	}
	leaked := emittersBlocked() - before
	if leaked < 0 {
		leaked = 0
	}
	return locked, leaked, note
}


// c12Stall pushes a store to a peer that has accepted the connection and does not read.  The
// attempt must be over soon after the push deadline, with no metric left locked; until then a
// line processor may wait, afterwards it may not.
func c12Stall(network string, L int, withWriter bool) (bool, string) {
	dir, err := os.MkdirTemp("", "c12stall")
	if err != nil {
		return true, "skip: " + err.Error()
	}
	defer os.RemoveAll(dir)
	var ln net.Listener
	fl := "collectd_socketpath"
	switch network {
	case "unix":
		ln, err = net.Listen("unix", filepath.Join(dir, "s"))
	default:
		fl = "graphite_host_port"
		lc := net.ListenConfig{Control: func(_, _ string, c syscall.RawConn) error {
			return c.Control(func(fd uintptr) { _ = syscall.SetsockoptInt(int(fd), syscall.SOL_SOCKET, syscall.SO_RCVBUF, 4096) })
		}}
		ln, err = lc.Listen(context.Background(), "tcp", "127.0.0.1:0")
	}
	if err != nil {
		return true, "skip: " + err.Error()
	}
	defer ln.Close()
	held := make(chan net.Conn, 4)
	go func() {
		for {
			c, err := ln.Accept()
			if err != nil {
				return
			}
			held <- c // kept open, never read
		}
	}()
	defer func() {
		for {
			select {
			case c := <-held:
				c.Close()
			default:
				return
			}
		}
	}()
	addr := ln.Addr().String()
	oldDeadline := flag.Lookup("metric_push_write_deadline").Value.String()
	_ = flag.Set(fl, addr)
	_ = flag.Set("metric_push_write_deadline", "300ms")
	defer func() {
		_ = flag.Set(fl, "")
		_ = flag.Set("metric_push_write_deadline", oldDeadline)
	}()

	s := metrics.NewStore()
	m := metrics.NewMetric("requests", "prog", metrics.Counter, metrics.Int, "k")
	pad := strings.Repeat("x", 200)
	for j := 0; j < L; j++ {
		d, _ := m.GetDatum(fmt.Sprintf("v%d%s", j, pad))
		datum.SetInt(d, int64(j), time.Unix(1, 0))
	}
	_ = s.Add(m)
	ctx, cancel := context.WithCancel(context.Background())
	defer cancel()
	e, err := exporter.New(ctx, s, exporter.Hostname("h"))
	if err != nil {
		return false, "exporter.New: " + err.Error()
	}
	before := emittersBlocked()
	done := make(chan struct{})
	go func() {
		defer close(done)
		e.PushMetrics()
	}()
	wDone := make(chan time.Duration, 1)
	if withWriter {
		go func() {
			time.Sleep(50 * time.Millisecond)
			t0 := time.Now()
			_, _ = m.GetDatum("fresh")
			wDone <- time.Since(t0)
		}()
	}
	select {
	case <-done:
	case <-time.After(4 * time.Second):
		return false, fmt.Sprintf("PushMetrics to a %s peer that accepted and does not read has not returned 4s after it started (push deadline 300ms, %d label sets)", network, L)
	}
	if withWriter {
		select {
		case <-wDone:
		case <-time.After(2 * time.Second):
			return false, "GetDatum on the pushed metric is still blocked 2s after the push attempt ended"
		}
	}
	if m.TryLock() {
		m.Unlock()
	} else {
		return false, "the pushed metric is still locked after the push attempt ended"
	}
	if leaked := emittersBlocked() - before; leaked > 0 {
		return false, fmt.Sprintf("%d emitter goroutines blocked after the push attempt ended", leaked)
	}
	return true, ""
}

func c12Faults(exp string, M, L int) [][3]string {
	var out [][3]string
	add := func(kind string, mi, li int) {
		out = append(out, [3]string{kind, strconv.Itoa(mi), strconv.Itoa(li)})
	}
	add("none", 0, 0)
	for mi := 0; mi < M; mi++ {
		for li := 0; li < L; li++ {
			switch exp {
			case "prom":
				add("utf8", mi, li)
				add("write", mi, li)
				if li == 0 {
					add("utf8+w", mi, li)
					add("none+w", mi, li)
				}
			case "push":
				add("write", mi, li)
				add("twrite", mi, li)
				add("utf8", mi, li)
				if li == 0 {
					add("write+w", mi, li)
				}
			case "json":
				add("nan", mi, li)
				add("inf", mi, li)
				if li == 0 {
					add("nan+w", mi, li)
					add("utf8", mi, li)
				}
			case "varz", "graphite":
				add("cancel", mi, li)
				add("write", mi, li)
				add("utf8", mi, li)
				if li == 0 {
					add("utf8+w", mi, li)
				}
			}
		}
		add("limit", mi, 0)
		if L > 0 {
			add("limit+w", mi, 0)
		}
		if exp == "prom" {
			add("name", mi, 0)
			add("dup", mi, 0)
		}
		if exp == "json" {
			add("write", mi, 0)
		}
	}
	return out
}

func c12Run(r *runCtx, id string, f []string) {
	if f[0] == "stall" {
		L, _ := strconv.Atoi(f[2])
		ok, note := c12Stall(f[1], L, f[3] == "1")
		r.stat("stall_" + f[1])
		r.obs(id, "bad=%d", b2i(!ok))
		if strings.HasPrefix(note, "skip: ") {
			r.trivial(id)
			r.ok(id)
		} else if !ok {
			r.replay(id, f...)
			r.fail(id, "push-stalls", "%s", note)
		} else {
			r.ok(id)
		}
		return
	}
	exp := f[1]
	M, _ := strconv.Atoi(f[2])
	L, _ := strconv.Atoi(f[3])
	switch f[0] {
	case "exp":
		bad := 0
		firstBad := ""
		n := 0
		for _, ft := range c12Faults(exp, M, L) {
			mi, _ := strconv.Atoi(ft[1])
			li, _ := strconv.Atoi(ft[2])
			locked, leaked, note := c12One(exp, M, L, ft[0], mi, li)
			n++
			r.stat("faults_" + exp + "_" + strings.ReplaceAll(ft[0], "+", "_"))
			if locked != 0 || leaked != 0 || strings.HasPrefix(note, "panic") || strings.HasPrefix(note, "export did not") {
				bad++
				if firstBad == "" {
					firstBad = fmt.Sprintf("exporter %s, store %dx%d, fault %s at metric %d label set %d: %d metrics still locked, %d emitter goroutines blocked %s", exp, M, L, ft[0], mi, li, locked, leaked, note)
					r.replay(id, "one", exp, f[2], f[3], ft[0], ft[1], ft[2])
				}
			}
		}
		r.obs(id, "bad=%d", b2i(bad > 0))
		if bad > 0 {
			r.fail(id, "export-leaves-lock-"+exp, "%d of %d fault positions; first: %s", bad, n, firstBad)
		} else {
			r.ok(id)
		}
		if M*L == 0 {
			r.trivial(id)
		}
	case "one":
		mi, _ := strconv.Atoi(f[5])
		li, _ := strconv.Atoi(f[6])
		locked, leaked, note := c12One(exp, M, L, f[4], mi, li)
		r.obs(id, "-")
		if locked != 0 || leaked != 0 || strings.HasPrefix(note, "panic") || strings.HasPrefix(note, "export did not") {
			r.fail(id, "export-leaves-lock-"+exp, "exporter %s, store %dx%d, fault %s at metric %d label set %d: %d metrics still locked, %d emitter goroutines blocked %s", exp, M, L, f[4], mi, li, locked, leaked, note)
		} else {
			r.ok(id)
		}
	}
}

func init() {
	props["C12"] = &propImpl{
		gen: func(g *genCtx) {
			maxM, maxL := 3, 4
			if g.thorough() {
				maxM, maxL = 4, 6
			}
			g.emit("stall", "unix", "4000", "0")
			g.emit("stall", "unix", "4000", "1")
			g.emit("stall", "tcp", "40000", "0")
			g.emit("stall", "tcp", "40000", "1")
			if g.thorough() {
				g.emit("stall", "unix", "20000", "1")
				g.emit("stall", "tcp", "80000", "1")
			}
			for _, exp := range []string{"prom", "push", "varz", "graphite", "json"} {
				for M := 0; M <= maxM; M++ {
					for L := 0; L <= maxL; L++ {
						g.emit("exp", exp, strconv.Itoa(M), strconv.Itoa(L))
					}
				}
			}
		},
		run: c12Run,
	}
}
