//go:build verif

package main

import (
	"bufio"
	"fmt"
	"os"
	"path/filepath"
	"sort"
	"strings"
)

// A corpus of programs and lines for the VM properties: hand-written programs that between them
// reach every opcode and every coercion the checker allows, the repository's example programs on
// the repository's test logs, and seeded random programs from a typed grammar.

type vmCase struct {
	flags string // "-", "y" (current-year option), "zEurope/Paris" ...
	src   string
	lines []string
}

func (c vmCase) fields() []string {
	return []string{"vm", c.flags, hx(c.src), hxs(c.lines)}
}

var vmStdLines = []string{
	"42", "-7", "0", "3.14", "-0.5", "1e3", "word", "Word UP", "42 3.14 word", "7 2.5 x", "0 0.0 zero",
	"2024-03-04T05:06:07Z", "Mar  4 05:06:07 host prog[12]: msg", "99999999999999999999", "", " ", "a-b\\c",
	"ff", "12 0", "9 3", "key=val", "foo", "bar", "foobar", "x", "héllo wörld", "\xff\xfe", "1 2 3",
}

var vmHandPrograms = []string{
	// counters, increments, dimensions
	"counter c\n/./ {\nc++\n}\n",
	"counter c\ncounter d by k\n/^(\\w+)/ {\nc++\nd[$1]++\n}\n",
	"counter c by a, b\n/^(\\S+) (\\S+)/ {\nc[$1][$2]++\n}\n",
	"counter c by a, b\n/^(\\S+) (\\S+)/ {\nc[$1, $2] += 2\n}\n",
	"gauge g\n/^(-?\\d+)$/ {\ng = $1\n}\n",
	"gauge g\n/^(-?\\d+)$/ {\ng += $1\n}\n/^x$/ {\ng--\n}\n",
	"gauge f\n/^(-?\\d+\\.\\d+)$/ {\nf = $1\n}\n",
	"gauge f\n/^(-?\\d+\\.\\d+)$/ {\nf += $1\n}\n",
	// int into float metric (coercions at assignment)
	"gauge f\n/^(-?\\d+\\.\\d+)$/ {\nf = $1\n}\n/^(\\d+)$/ {\nf = $1\n}\n",
	"gauge f\n/^(\\d+\\.\\d+)$/ {\nf = $1\n}\n/^x$/ {\nf = 2\n}\n",
	"gauge f\n/^(\\d+\\.\\d+)$/ {\nf = $1\n}\n/^(\\d+)$/ {\nf += $1\n}\n",
	"gauge f\n/^(\\d+\\.\\d+)$/ {\nf = $1\n}\n/^x$/ {\nf += 1\n}\n",
	// text
	"text t\n/^(\\w+)$/ {\nt = $1\n}\n",
	"text t\n/^(\\w+)$/ {\nt += $1\n}\n",
	"text t by k\n/^(\\w+) (\\w+)/ {\nt[$1] = $2\n}\n",
	"text t\n/^(\\d+)$/ {\nt = $1\n}\n",
	"text t\n/^(\\d+\\.\\d+)$/ {\nt = $1\n}\n",
	// arithmetic, all operators
	"gauge r\n/^(-?\\d+) (-?\\d+)$/ {\nr = $1 + $2 * 3 - $1 / ($2 + 1) % 5\n}\n",
	"gauge r\n/^(\\d+) (\\d+)$/ {\nr = $1 / $2\n}\n",
	"gauge r\n/^(\\d+) (\\d+)$/ {\nr = $1 % $2\n}\n",
	"gauge r\n/^(\\d+) (\\d+)$/ {\nr = $1 ** $2\n}\n",
	"gauge r\n/^(\\d+) (\\d+)$/ {\nr = $1 << $2\n}\n/^(\\d+) (\\d+) x$/ {\nr = $1 >> $2\n}\n",
	"gauge r\n/^(\\d+) (\\d+)$/ {\nr = ($1 & $2) | ($1 ^ $2)\n}\n",
	"gauge r\n/^(\\d+)$/ {\nr = ~$1\n}\n",
	"gauge r\n/^(-?\\d+) (-?\\d+\\.\\d+)/ {\nr = $1 + $2\n}\n",
	"gauge r\n/^(-?\\d+) (-?\\d+\\.\\d+)/ {\nr = $2 / $1\n}\n",
	"gauge r\n/^(-?\\d+) (-?\\d+\\.\\d+)/ {\nr = $2 % $1\n}\n",
	"gauge r\n/^(-?\\d+) (-?\\d+\\.\\d+)/ {\nr = $2 ** $1\n}\n",
	// comparisons of every typing
	"counter c\n/^(-?\\d+) (-?\\d+)$/ {\n$1 < $2 {\nc++\n}\n}\n",
	"counter c\n/^(-?\\d+) (-?\\d+)$/ {\n$1 <= $2 {\nc++\n}\n}\n",
	"counter c\n/^(-?\\d+) (-?\\d+)$/ {\n$1 > $2 {\nc++\n}\n}\n",
	"counter c\n/^(-?\\d+) (-?\\d+)$/ {\n$1 >= $2 {\nc++\n}\n}\n",
	"counter c\n/^(-?\\d+) (-?\\d+)$/ {\n$1 == $2 {\nc++\n}\n}\n",
	"counter c\n/^(-?\\d+) (-?\\d+)$/ {\n$1 != $2 {\nc++\n}\n}\n",
	"counter c\n/^(-?\\d+) (-?\\d+\\.\\d+)/ {\n$1 < $2 {\nc++\n}\n}\n",
	"counter c\n/^(-?\\d+\\.\\d+)$/ {\n$1 > 1.5 {\nc++\n}\n}\n",
	"counter c\n/^(\\w+) (\\w+)/ {\n$1 == $2 {\nc++\n}\n}\n",
	"counter c\n/^(\\w+) (\\w+)/ {\n$1 < $2 {\nc++\n}\n}\n",
	"counter c\n/^(\\w+)$/ {\n$1 == \"foo\" {\nc++\n}\n}\n",
	"counter c\n/^(\\S+)$/ {\n$1 > 3 {\nc++\n}\n}\n",
	"counter c\n/^(\\S+)$/ {\n$1 > 3.5 {\nc++\n}\n}\n",
	"counter c\ngauge g\n/^(\\d+)$/ {\ng = $1\n}\ng > 5 {\nc++\n}\n",
	// logical operators
	"counter c\n/^(\\d+) (\\d+)$/ {\n$1 > 1 && $2 > 1 {\nc++\n}\n}\n",
	"counter c\n/^(\\d+) (\\d+)$/ {\n$1 > 1 || $2 > 1 {\nc++\n}\n}\n",
	"counter c\n/foo/ && /bar/ {\nc++\n}\n",
	"counter c\n/foo/ || /bar/ {\nc++\n}\n",
	"counter c\n/^(\\w+)/ && $1 == \"foo\" {\nc++\n}\n",
	// match operators
	"counter c\n/^(\\S+) (\\S+)/ {\n$1 =~ /^f/ {\nc++\n}\n}\n",
	"counter c\n/^(\\S+) (\\S+)/ {\n$2 !~ /^f/ {\nc++\n}\n}\n",
	"counter c\nconst P /fo+/\n/^(\\S+)/ {\n$1 =~ P {\nc++\n}\n}\n",
	"counter c\nconst P /fo+/\nP {\nc++\n}\n",
	"counter c\nconst P /fo+/\nconst Q /ba+r/\nP + Q {\nc++\n}\n",
	"counter c\nconst P /fo+/\n// + P + /$/ {\nc++\n}\n",
	// else / otherwise / nesting
	"counter a\ncounter b\n/foo/ {\na++\n} else {\nb++\n}\n",
	"counter a\ncounter b\ncounter o\n/foo/ {\na++\n}\n/bar/ {\nb++\n}\notherwise {\no++\n}\n",
	"counter a\ncounter o\n/x/ {\n/foo/ {\na++\n} otherwise {\no++\n}\n}\n",
	"counter a\ncounter o\n/x/ {\n/foo/ {\na++\n} else {\n/bar/ {\na++\n} otherwise {\no++\n}\n}\n}\n",
	"counter a\ncounter o\n/foo/ {\na++\n} else {\no++\n}\notherwise {\no++\n}\n",
	"counter a\ncounter b\n/^(\\d+)/ {\n$1 > 5 {\na++\n} else {\nb++\n}\n}\n",
	// stop
	"counter a\ncounter b\n/foo/ {\na++\nstop\n}\n/./ {\nb++\n}\n",
	// decorators
	"counter a\ncounter b\ndef d {\n/^(\\w+)/ {\na++\nnext\n}\n}\n@d {\n$1 == \"foo\" {\nb++\n}\n}\n",
	"counter a by k\ndef d {\n/^(?P<w>\\w+) / {\nnext\n}\n}\n@d {\n/(\\d+)$/ {\na[$w] += $1\n}\n}\n",
	"counter a\ncounter b\ndef d {\n/foo/ {\nnext\n} otherwise {\nb++\n}\n}\n@d {\na++\n}\n",
	// del
	"counter c by k\n/^(\\w+)$/ {\nc[$1]++\n}\n/^del (\\w+)/ {\ndel c[$1]\n}\n",
	"counter c by k\n/^(\\w+)$/ {\nc[$1]++\n}\n/^exp (\\w+)/ {\ndel c[$1] after 1h\n}\n",
	"gauge g by a, b\n/^(\\w+) (\\w+)$/ {\ng[$1][$2] = 1\n}\n/^del (\\w+) (\\w+)/ {\ndel g[$1][$2] after 30s\n}\n",
	// the value of a postfix increment or decrement, used: assigned, as a key, compared
	"gauge x\ngauge y\n/^(\\d+)$/ {\ny = x++\n}\n",
	"counter seq\ncounter seen by k\n/./ {\nseen[seq++]++\n}\n",
	"gauge x\ncounter c\n/./ {\nx++ > 2 {\nc++\n}\n}\n",
	"gauge x\ngauge y\n/./ {\ny = x-- + 1\n}\n",
	"counter c by k\ngauge g\n/^(\\w+)$/ {\ng = c[$1]++ * 2\n}\n",
	// delayed deletes of every magnitude: sub-second, fractional, zero, very long
	"counter c by k\n/^(\\w+)$/ {\nc[$1]++\n}\n/^exp (\\w+)/ {\ndel c[$1] after 500ms\n}\n",
	"counter c by k\n/^(\\w+)$/ {\nc[$1]++\n}\n/^exp (\\w+)/ {\ndel c[$1] after 1ms\n}\n/^del (\\w+)/ {\ndel c[$1] after 1500ms\n}\n",
	"counter c by k\n/^(\\w+)$/ {\nc[$1]++\n}\n/^exp (\\w+)/ {\ndel c[$1] after 0.25s\n}\n/^del (\\w+)/ {\ndel c[$1] after 2562047h\n}\n",
	// builtins
	"gauge g\n/^(\\S+)/ {\ng = len($1)\n}\n",
	"text t\n/^(.+)$/ {\nt = tolower($1)\n}\n",
	"gauge g\n/^(\\w+)$/ {\ng = strtol($1, 16)\n}\n",
	"gauge g\n/^(\\w+) (\\d+)$/ {\ng = strtol($1, $2)\n}\n",
	"text t\n/^(.+)$/ {\nt = subst(\"o\", \"0\", $1)\n}\n",
	"text t\n/^(.+)$/ {\nt = subst(/o+/, \"0\", $1)\n}\n",
	"text t\n/./ {\nt = getfilename()\n}\n",
	"gauge g\n/^(\\S+)$/ {\ng = int($1)\n}\n",
	"gauge g\n/^(\\S+)$/ {\ng = float($1)\n}\n",
	"text t\n/^(\\d+)$/ {\nt = string($1)\n}\n",
	"text t\n/^(\\d+\\.\\d+)$/ {\nt = string($1)\n}\n",
	"gauge g\n/^(\\d+\\.\\d+)$/ {\ng = int($1)\n}\n",
	"gauge g\n/^(\\d+)$/ {\ng = float($1)\n}\n",
	"counter c by k\n/^(\\d+) (\\d+\\.\\d+)/ {\nc[$1]++\nc[$2]++\n}\n",
	"text t\n/^(\\w+) (\\w+)/ {\nt = $1 + $2\n}\n",
	"text t\n/^(\\w+) (\\d+)/ {\nt = $1 + $2\n}\n",
	// time
	"gauge g\n/^(\\S+)$/ {\nstrptime($1, \"2006-01-02T15:04:05Z07:00\")\ng = timestamp()\n}\n",
	"gauge g\ncounter c\n/^(?P<d>\\w+\\s+\\d+\\s+\\d+:\\d+:\\d+)/ {\nstrptime($d, \"Jan _2 15:04:05\")\ng = timestamp()\nc++\n}\n",
	"gauge g\n/^(\\d+)$/ {\nsettime($1)\ng = timestamp()\n}\n",
	"gauge g\ncounter c\n/^(\\d+)$/ {\nsettime($1)\nc++\n}\n/./ {\ng = timestamp()\n}\n",
	"gauge g\n/^(\\d+)/ {\nstrptime($1, \"20060102\")\ng = timestamp()\n}\n",
	"gauge g\n/^(\\S+)/ {\nsettime(len($1))\ng = timestamp()\n}\n",
	"gauge g\n/^(\\w+)$/ {\nsettime($1)\ng = timestamp()\n}\n",
	"gauge g\n/^(\\d+\\.\\d+)$/ {\nsettime($1)\ng = timestamp()\n}\n",
	// histograms
	"histogram h buckets 1, 2, 4\n/^(\\d+)$/ {\nh = $1\n}\n",
	"histogram h buckets 0.5, 1.5\n/^(-?\\d+\\.\\d+)$/ {\nh = $1\n}\n",
	"histogram h by k buckets 1, 10\n/^(\\d+) \\S+ (\\w+)/ {\nh[$2] = $1\n}\n",
	"histogram h buckets 0, 1, 2\n/^(-?\\d+)/ {\nh = $1\n}\n",
	// hidden, as, limit
	"hidden gauge s\ncounter c as \"c-total\"\n/^(\\d+)$/ {\ns = $1\nc += s\n}\n",
	"counter c by k limit 2\n/^(\\w+)/ {\nc[$1]++\n}\n",
	// timer
	"timer t\n/^(\\d+)$/ {\nt = $1\n}\n",
	// expression statements and odd conditions
	"counter c\ngauge g\n/^(\\d+)$/ {\ng = $1\n}\ng + 1 {\nc++\n}\n",
	"counter c\n/^(\\d+\\.\\d+)$/ {\n$1 + 1.0 {\nc++\n}\n}\n",
	"counter c\ncounter d\n/./ {\nc++ + d++\n}\n",
	"counter c\n/^(\\d+) (\\d+)$/ {\n($1 > 1) == ($2 > 1) {\nc++\n}\n}\n",
}

// example programs and the logs the repository ships for them
var vmExampleLogs = map[string]string{
	"apache_combined.mtail": "apache-combined.log", "apache_common.mtail": "apache-common.log",
	"dhcpd.mtail": "anonymised_dhcpd_log", "lighttpd.mtail": "lighttpd_access.log",
	"mysql_slowqueries.mtail": "mysql_slowqueries.log", "ntpd.mtail": "ntp4", "ntpd_peerstats.mtail": "xntp3_peerstats",
	"rsyncd.mtail": "rsyncd.log", "sftp.mtail": "sftp_chroot.log", "vsftpd.mtail": "vsftpd_log",
}

func repoDir() string {
	if d := os.Getenv("VERIF_REPO"); d != "" {
		return d
	}
	return "/repo"
}

func readLines(path string, max int) []string {
	f, err := os.Open(path)
	if err != nil {
		return nil
	}
	defer f.Close()
	var out []string
	sc := bufio.NewScanner(f)
	sc.Buffer(make([]byte, 1<<20), 1<<24)
	for sc.Scan() && len(out) < max {
		out = append(out, sc.Text())
	}
	return out
}

func vmExampleCases(maxLines int) []vmCase {
	var out []vmCase
	files, _ := filepath.Glob(filepath.Join(repoDir(), "examples", "*.mtail"))
	sort.Strings(files)
	for _, p := range files {
		src, err := os.ReadFile(p)
		if err != nil {
			continue
		}
		lines := []string{}
		if lg, ok := vmExampleLogs[filepath.Base(p)]; ok {
			lines = readLines(filepath.Join(repoDir(), "internal", "mtail", "testdata", lg), maxLines)
		}
		lines = append(lines, vmStdLines[:12]...)
		out = append(out, vmCase{"-", string(src), lines})
	}
	return out
}

// ---------- random programs from a typed grammar ----------

type pgen struct {
	r       *rng
	decls   []string
	ints    []string // int-valued metric references usable as rvalues / lvalues
	floats  []string
	texts   []string
	dimInt  []string // dimensioned int metrics (one key)
	hists   []string
	nmetric int
}

type pat struct {
	re   string
	caps []string // "i", "f", "s" per numbered group
}

var pgPatterns = []pat{
	{`^(-?\d+)$`, []string{"i"}},
	{`^(-?\d+) (-?\d+)$`, []string{"i", "i"}},
	{`^(-?\d+\.\d+)$`, []string{"f"}},
	{`^(-?\d+) (-?\d+\.\d+)`, []string{"i", "f"}},
	{`^(\w+)$`, []string{"s"}},
	{`^(\S+) (\S+)`, []string{"s", "s"}},
	{`^(\d+) (\d+\.\d+) (\w+)`, []string{"i", "f", "s"}},
	{`(\w+)=(\w+)`, []string{"s", "s"}},
	{`foo`, nil},
	{`bar`, nil},
	{`.`, nil},
	{`^$`, nil},
}

func (g *pgen) declare() {
	n := 2 + g.r.intn(4)
	for i := 0; i < n; i++ {
		name := fmt.Sprintf("m%d", g.nmetric)
		g.nmetric++
		switch g.r.intn(9) {
		case 0, 1:
			g.decls = append(g.decls, "counter "+name)
			g.ints = append(g.ints, name)
		case 2:
			g.decls = append(g.decls, "gauge "+name)
			g.ints = append(g.ints, name)
		case 3:
			g.decls = append(g.decls, "gauge "+name)
			g.floats = append(g.floats, name)
		case 4:
			g.decls = append(g.decls, "text "+name)
			g.texts = append(g.texts, name)
		case 5, 6:
			g.decls = append(g.decls, "counter "+name+" by k")
			g.dimInt = append(g.dimInt, name)
		case 7:
			g.decls = append(g.decls, "histogram "+name+" buckets 1, 2, 4")
			g.hists = append(g.hists, name)
		case 8:
			g.decls = append(g.decls, "hidden gauge "+name)
			g.ints = append(g.ints, name)
		}
	}
}

// caps in scope: list of (ref, type)
type capRef struct{ ref, ty string }

func (g *pgen) intExpr(caps []capRef, d int) string {
	var leaves []string
	for _, c := range caps {
		if c.ty == "i" {
			leaves = append(leaves, c.ref)
		}
	}
	for _, m := range g.ints {
		leaves = append(leaves, m)
	}
	leaves = append(leaves, fmt.Sprint(g.r.intn(7)-1), "timestamp()")
	if len(g.ints) > 0 && g.r.chance(1, 6) {
		// a postfix increment or decrement has a value too
		leaves = append(leaves, g.r.pick(g.ints)+g.r.pick([]string{"++", "--"}))
	}
	for _, c := range caps {
		if c.ty == "s" {
			leaves = append(leaves, "len("+c.ref+")", "strtol("+c.ref+", 10)", "int("+c.ref+")")
		}
		if c.ty == "f" && g.r.chance(1, 3) {
			leaves = append(leaves, "int("+c.ref+")")
		}
	}
	if d <= 0 || g.r.chance(1, 3) {
		return g.r.pick(leaves)
	}
	op := g.r.pick([]string{"+", "-", "*", "/", "%", "**", "<<", ">>", "&", "|", "^"})
	a, b := g.intExpr(caps, d-1), g.intExpr(caps, d-1)
	if g.r.chance(1, 2) {
		return "(" + a + " " + op + " " + b + ")"
	}
	return a + " " + op + " " + b
}

func (g *pgen) floatExpr(caps []capRef, d int) string {
	var leaves []string
	for _, c := range caps {
		if c.ty == "f" {
			leaves = append(leaves, c.ref)
		}
		if c.ty == "s" {
			leaves = append(leaves, "float("+c.ref+")")
		}
	}
	for _, m := range g.floats {
		leaves = append(leaves, m)
	}
	leaves = append(leaves, fmt.Sprintf("%d.5", g.r.intn(4)))
	if d <= 0 || g.r.chance(1, 3) {
		return g.r.pick(leaves)
	}
	op := g.r.pick([]string{"+", "-", "*", "/", "%", "**"})
	a := g.floatExpr(caps, d-1)
	b := g.floatExpr(caps, d-1)
	if g.r.chance(1, 3) {
		b = g.intExpr(caps, d-1) // mixed: the checker converts the int side
	}
	return "(" + a + " " + op + " " + b + ")"
}

func (g *pgen) strExpr(caps []capRef, d int) string {
	var leaves []string
	for _, c := range caps {
		if c.ty == "s" {
			leaves = append(leaves, c.ref, "tolower("+c.ref+")")
		}
		if c.ty == "i" || c.ty == "f" {
			leaves = append(leaves, "string("+c.ref+")")
		}
	}
	for _, m := range g.texts {
		leaves = append(leaves, m)
	}
	leaves = append(leaves, `"lit"`, `getfilename()`)
	if d <= 0 || g.r.chance(1, 3) {
		return g.r.pick(leaves)
	}
	switch g.r.intn(3) {
	case 0:
		return g.strExpr(caps, d-1) + " + " + g.strExpr(caps, d-1)
	case 1:
		return `subst("o", "0", ` + g.strExpr(caps, d-1) + `)`
	}
	return `subst(/[aeiou]/, "_", ` + g.strExpr(caps, d-1) + `)`
}

func (g *pgen) anyExpr(caps []capRef, d int) string {
	switch g.r.intn(3) {
	case 0:
		return g.intExpr(caps, d)
	case 1:
		return g.floatExpr(caps, d)
	}
	return g.strExpr(caps, d)
}

func (g *pgen) cond(caps []capRef) string {
	switch g.r.intn(6) {
	case 0:
		return g.intExpr(caps, 1) + " " + g.r.pick([]string{"<", "<=", ">", ">=", "==", "!="}) + " " + g.intExpr(caps, 1)
	case 1:
		return g.floatExpr(caps, 1) + " " + g.r.pick([]string{"<", ">", "==", "!="}) + " " + g.anyExpr(caps, 0)
	case 2:
		return g.strExpr(caps, 1) + " " + g.r.pick([]string{"==", "!=", "<", ">"}) + " " + g.strExpr(caps, 0)
	case 3:
		return g.strExpr(caps, 0) + " " + g.r.pick([]string{"=~", "!~"}) + " /^[a-f]/"
	case 4:
		return g.cond(caps) + " " + g.r.pick([]string{"&&", "||"}) + " " + g.cond(caps)
	}
	return g.anyExpr(caps, 1) + " " + g.r.pick([]string{"<", "==", ">"}) + " " + g.anyExpr(caps, 1)
}

func (g *pgen) action(caps []capRef) string {
	for tries := 0; tries < 10; tries++ {
		switch g.r.intn(14) {
		case 0, 1:
			if len(g.ints) > 0 {
				return g.r.pick(g.ints) + g.r.pick([]string{"++", "--"})
			}
		case 2:
			if len(g.ints) > 0 {
				return g.r.pick(g.ints) + " " + g.r.pick([]string{"=", "+="}) + " " + g.intExpr(caps, 2)
			}
		case 3:
			if len(g.floats) > 0 {
				return g.r.pick(g.floats) + " " + g.r.pick([]string{"=", "+="}) + " " + g.r.pick([]string{g.floatExpr(caps, 2), g.intExpr(caps, 1)})
			}
		case 4:
			if len(g.texts) > 0 {
				return g.r.pick(g.texts) + " " + g.r.pick([]string{"=", "+="}) + " " + g.strExpr(caps, 2)
			}
		case 5, 6:
			if len(g.dimInt) > 0 {
				return g.r.pick(g.dimInt) + "[" + g.anyExpr(caps, 0) + "]" + g.r.pick([]string{"++", " += " + g.intExpr(caps, 1), " = " + g.intExpr(caps, 1)})
			}
		case 7:
			if len(g.dimInt) > 0 {
				return "del " + g.r.pick(g.dimInt) + "[" + g.strExpr(caps, 0) + "]" + g.r.pick([]string{"", " after 1h", " after 30s", " after 500ms", " after 1ms", " after 1h0.5s"})
			}
		case 8:
			if len(g.hists) > 0 {
				return g.r.pick(g.hists) + " = " + g.r.pick([]string{g.intExpr(caps, 1), g.floatExpr(caps, 1)})
			}
		case 9:
			return "settime(" + g.intExpr(caps, 1) + ")"
		case 10:
			return `strptime(` + g.strExpr(caps, 0) + `, "2006-01-02T15:04:05Z07:00")`
		case 11:
			return "stop"
		case 12:
			if len(g.ints) > 0 {
				return g.r.pick(g.ints) + " = " + g.anyExpr(caps, 1)
			}
		case 13:
			if len(g.texts) > 0 {
				return g.r.pick(g.texts) + " = " + g.anyExpr(caps, 1)
			}
		}
	}
	return "stop"
}

func (g *pgen) block(caps []capRef, depth int, b *strings.Builder, indent string) {
	n := 1 + g.r.intn(3)
	for i := 0; i < n; i++ {
		if depth > 0 && g.r.chance(2, 5) {
			g.condStmt(caps, depth-1, b, indent)
		} else {
			b.WriteString(indent + g.action(caps) + "\n")
		}
	}
}

func (g *pgen) condStmt(caps []capRef, depth int, b *strings.Builder, indent string) {
	inner := caps
	if g.r.chance(3, 5) || len(caps) == 0 {
		p := pgPatterns[g.r.intn(len(pgPatterns))]
		b.WriteString(indent + "/" + p.re + "/ {\n")
		// a pattern's groups shadow outer ones of the same number: only use fresh names when possible
		if len(caps) == 0 {
			for i, t := range p.caps {
				inner = append(inner, capRef{fmt.Sprintf("$%d", i+1), t})
			}
		}
	} else {
		b.WriteString(indent + g.cond(caps) + " {\n")
	}
	g.block(inner, depth, b, indent+"  ")
	b.WriteString(indent + "}")
	switch g.r.intn(6) {
	case 0:
		b.WriteString(" else {\n")
		g.block(caps, depth, b, indent+"  ")
		b.WriteString(indent + "}\n")
	case 1:
		b.WriteString("\n" + indent + "otherwise {\n")
		g.block(caps, 0, b, indent+"  ")
		b.WriteString(indent + "}\n")
	default:
		b.WriteString("\n")
	}
}

func genProgram(r *rng) string {
	g := &pgen{r: r}
	g.declare()
	var b strings.Builder
	n := 1 + r.intn(4)
	for i := 0; i < n; i++ {
		g.condStmt(nil, 2, &b, "")
	}
	return strings.Join(g.decls, "\n") + "\n" + b.String()
}

func genLines(r *rng, n int) []string {
	out := make([]string, n)
	for i := range out {
		switch r.intn(8) {
		case 0:
			out[i] = fmt.Sprint(r.intn(20) - 5)
		case 1:
			out[i] = fmt.Sprintf("%d %d", r.intn(12)-2, r.intn(6)-1)
		case 2:
			out[i] = fmt.Sprintf("%d.%d", r.intn(9), r.intn(100))
		case 3:
			out[i] = fmt.Sprintf("%d %d.5 %s", r.intn(9), r.intn(5), r.pick([]string{"foo", "bar", "abc", "ZED"}))
		case 4:
			out[i] = r.pick([]string{"foo", "bar", "foobar", "baz", "a=b", "k=v x=y"})
		case 5:
			out[i] = r.pick([]string{"2024-03-04T05:06:07Z", "2024-03-04T05:06:07+01:00", "garbage time"})
		case 6:
			out[i] = r.pick([]string{"foo bar", "12 foo", "x y", "ff 16"})
		default:
			out[i] = vmStdLines[r.intn(len(vmStdLines))]
		}
	}
	return out
}
