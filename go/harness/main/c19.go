//go:build verif

package main

import (
	"context"
	"expvar"
	"fmt"
	"net"
	"os"
	"path/filepath"
	goruntime "runtime"
	"sort"
	"strconv"
	"strings"
	"time"

	"github.com/google/mtail/internal/metrics"
	"github.com/google/mtail/internal/metrics/datum"
	"github.com/google/mtail/internal/mtail"
)

// C19 — one-shot runs process every line once and then terminate.
//
//   os <gomaxprocs> <prog kinds, e.g. w,g,s> <file spec, e.g. 5/1,0/1,3/0>
//   program kinds: w = order witness, g = witness plus a global gauge, s = syntax error (never loads),
//   t / e = the witness ending every line in a final `stop` (at top level / in a trailing else)
//   file spec: <number of lines>/<1 if the last line ends in a newline; 2: a socket; 3: newline, and
//   every file is matched by several patterns>; line k of file i is "f<i> <k>"
// OBS: termination, per loaded program the witness metrics per file, lines_total and
// log_lines_total as moved by this run.

const c19Witness = `counter lines_by_file by f
gauge last by f
counter ooo by f
/^(?P<f>\w+) (?P<n>\d+)$/ {
  $n <= last[$f] {
    ooo[$f]++
  }
  last[$f] = $n
  lines_by_file[$f]++
}
`

const c19Global = c19Witness + `gauge glast
/^\w+ (?P<n>\d+)$/ {
  glast = $n
}
`

func expvarInt(name string) int64 {
	if v := expvar.Get(name); v != nil {
		n, _ := strconv.ParseInt(v.String(), 10, 64)
		return n
	}
	return 0
}

func expvarMapInt(name, key string) int64 {
	if v := expvar.Get(name); v != nil {
		if m, ok := v.(*expvar.Map); ok {
			if x := m.Get(key); x != nil {
				n, _ := strconv.ParseInt(x.String(), 10, 64)
				return n
			}
		}
	}
	return 0
}

func c19Run(r *runCtx, id string, f []string) {
	procs, _ := strconv.Atoi(f[1])
	kinds := strings.Split(f[2], ",")
	var specs [][2]int
	if f[3] != "." {
		for _, s := range strings.Split(f[3], ",") {
			p := strings.Split(s, "/")
			n, _ := strconv.Atoi(p[0])
			nl, _ := strconv.Atoi(p[1])
			specs = append(specs, [2]int{n, nl})
		}
	}
	dir, err := os.MkdirTemp("", "verif-c19")
	if err != nil {
		r.obs(id, "ENV-ERROR")
		r.fail(id, "harness", "%v", err)
		return
	}
	defer os.RemoveAll(dir)
	progDir := filepath.Join(dir, "progs")
	_ = os.Mkdir(progDir, 0o755)
	var progNames []string
	for i, k := range kinds {
		name := fmt.Sprintf("p%d.mtail", i)
		src := c19Witness
		switch k {
		case "g":
			src = c19Global
		case "t":
			// the same witness, ending the line explicitly: the program's last instruction is a stop
			src = c19Witness + "stop\n"
		case "e":
			// ... or ending it in the trailing else branch of a condition that the lines do not meet
			src = c19Witness + "/^never$/ {\n} else {\n  stop\n}\n"
		case "s":
			src = "counter broken by\n"
		}
		_ = os.WriteFile(filepath.Join(progDir, name), []byte(src), 0o644)
		if k != "s" {
			progNames = append(progNames, name)
		}
	}
	var logs []string
	useGlob := false
	total := 0
	for i, sp := range specs {
		var sb strings.Builder
		for k := 1; k <= sp[0]; k++ {
			sb.WriteString(fmt.Sprintf("f%d %d", i, k))
			if k < sp[0] || sp[1] == 1 || sp[1] == 3 {
				sb.WriteString("\n")
			}
		}
		p := filepath.Join(dir, fmt.Sprintf("log%d", i))
		if sp[1] == 2 {
			// not a log at all: a unix socket that the glob matches but that cannot be tailed as a file
			if l, lerr := net.Listen("unix", p); lerr == nil {
				defer l.Close()
			}
			useGlob = true
		} else {
			_ = os.WriteFile(p, []byte(sb.String()), 0o644)
		}
		logs = append(logs, p)
		total += sp[0]
	}
	patterns := logs
	if useGlob {
		patterns = []string{filepath.Join(dir, "log*")}
	}
	for _, sp := range specs {
		if sp[1] == 3 {
			// every file is matched by its own name and by two globs: it is still read once
			patterns = append(append([]string{}, logs...), filepath.Join(dir, "log*"), filepath.Join(dir, "*"))
			break
		}
	}
	old := goruntime.GOMAXPROCS(procs)
	defer goruntime.GOMAXPROCS(old)
	lt0 := expvarInt("lines_total")
	store := metrics.NewStore()
	ctx, cancel := context.WithCancel(context.Background())
	defer cancel()
	opts := []mtail.Option{mtail.ProgramPath(progDir), mtail.LogPathPatterns(patterns...), mtail.OneShot}
	var m *mtail.Server
	var runErr error
	done := make(chan struct{})
	go func() {
		defer close(done)
		defer func() {
			if e := recover(); e != nil {
				runErr = fmt.Errorf("panic: %v", e)
			}
		}()
		m, runErr = mtail.New(ctx, store, opts...)
		if runErr == nil {
			runErr = m.Run()
		}
	}()
	terminated := true
	select {
	case <-done:
	case <-time.After(15 * time.Second):
		terminated = false
	}
	if !terminated {
		r.obs(id, "T=0")
		r.fail(id, "no-termination", "one-shot run with programs %s files %s did not return within 15 s", f[2], f[3])
		return
	}
	if runErr != nil {
		r.obs(id, "ERR")
		// one-shot mode aborts on a program that does not compile (ErrorsAbort): nothing is loaded
		hasBroken := false
		for _, k := range kinds {
			if k == "s" {
				hasBroken = true
			}
		}
		if hasBroken {
			r.ok(id)
			r.trivial(id)
		} else {
			r.fail(id, "run-error", "%v", runErr)
		}
		return
	}
	// observations
	type key struct{ prog, metric, file string }
	vals := map[key]int64{}
	glast := map[string]int64{}
	_ = store.Range(func(mm *metrics.Metric) error {
		for _, lv := range mm.LabelValues {
			var v int64
			switch d := lv.Value.(type) {
			case *datum.Int:
				v = d.Get()
			case *datum.Float:
				v = int64(d.Get())
			}
			if mm.Name == "glast" {
				glast[mm.Program] = v
			} else if len(lv.Labels) == 1 {
				vals[key{mm.Program, mm.Name, lv.Labels[0]}] = v
			}
		}
		return nil
	})
	var parts []string
	var bad []string
	for _, pn := range progNames {
		var fs []string
		for i, sp := range specs {
			fk := fmt.Sprintf("f%d", i)
			c, l, o := vals[key{pn, "lines_by_file", fk}], vals[key{pn, "last", fk}], vals[key{pn, "ooo", fk}]
			fs = append(fs, fmt.Sprintf("%s:%d/%d/%d", fk, c, l, o))
			if c != int64(sp[0]) || l != int64(sp[0]) || o != 0 {
				bad = append(bad, fmt.Sprintf("%s file %s: processed %d lines (last number %d, %d out of order), the file has %d lines", pn, fk, c, l, o, sp[0]))
			}
		}
		parts = append(parts, "P["+pn+"]"+strings.Join(fs, ","))
	}
	sort.Strings(parts)
	ltd := expvarInt("lines_total") - lt0
	var ll []string
	for i, p := range logs {
		n := expvarMapInt("log_lines_total", p)
		ll = append(ll, fmt.Sprintf("f%d:%d", i, n))
		if n != int64(specs[i][0]) {
			bad = append(bad, fmt.Sprintf("log_lines_total[%s]=%d, the file delivered %d lines", filepath.Base(p), n, specs[i][0]))
		}
	}
	if ltd != int64(total) {
		bad = append(bad, fmt.Sprintf("lines_total moved by %d, %d lines were delivered", ltd, total))
	}
	// the global gauge must hold the last number of some file (an order-preserving interleaving
	// ends with the last line of one of the files)
	for pn, g := range glast {
		ok := total == 0 && g == 0
		for _, sp := range specs {
			if sp[0] > 0 && int64(sp[0]) == g {
				ok = true
			}
		}
		if !ok {
			bad = append(bad, fmt.Sprintf("%s: glast=%d is not the last line of any file", pn, g))
		}
	}
	r.obs(id, "T=1 %s LT=%d LL=%s", strings.Join(parts, " "), ltd, strings.Join(ll, ","))
	if len(bad) > 0 {
		cls := "lines-not-once"
		if strings.Contains(strings.Join(bad, ";"), "_total") && !strings.Contains(strings.Join(bad, ";"), "processed") {
			cls = "counters"
		}
		r.fail(id, cls, "programs %s files %s GOMAXPROCS %d: %s", f[2], f[3], procs, strings.Join(bad[:min(3, len(bad))], "; "))
	} else {
		r.ok(id)
	}
	if total == 0 || len(progNames) == 0 {
		r.trivial(id)
	}
	r.stat(fmt.Sprintf("programs_%d_files_%d", len(progNames), len(specs)))
}

func init() {
	props["C19"] = &propImpl{
		gen: func(g *genCtx) {
			progSets := []string{"w", "w,w", "w,g,w", "g", "w,s", "s,g,w", "t", "e,w", "g,t,e"}
			// (n/2 stands for something the pattern matches that is no log: a unix socket)
			fileSets := []string{"3/1", "3/0", "0/1", "5/1,4/0", "0/1,2/1,0/0", "7/0,1/1,6/1", "1/0", "200/1,150/0", "3/1,0/2,4/0,2/1", "0/2,5/1"}
			for _, ps := range progSets {
				for _, fs := range fileSets {
					g.emit("os", strconv.Itoa([]int{1, 2, 16}[g.n%3]), ps, fs)
				}
			}
			// files of at most one line end before their forwarder may have started: the schedules in
			// which shutdown overtakes a line live here, so these tiny runs are repeated
			// short files matched by several patterns: a file that has been read before the next
			// pattern is globbed is not read again (a matter of timing, so these are repeated too)
			for rep := 0; rep < 60; rep++ {
				g.emit("os", strconv.Itoa([]int{1, 2, 16}[rep%3]), []string{"w", "w,g"}[rep%2], []string{"3/3", "1/3,2/1", "2/3,0/1,5/0"}[rep%3])
			}
			reps := 120
			if g.thorough() {
				reps = 1200
			}
			for rep := 0; rep < reps; rep++ {
				for k, fs := range []string{"1/0", "0/1", "0/0", "1/0,0/0", "0/1,1/0"} {
					g.emit("os", strconv.Itoa([]int{1, 2, 16}[(rep+k)%3]), []string{"w", "w,g"}[rep%2], fs)
				}
			}
			n := 30
			if g.thorough() {
				n = 600
			}
			for i := 0; i < n; i++ {
				nf := 1 + g.r.intn(3)
				var fs []string
				for j := 0; j < nf; j++ {
					fs = append(fs, fmt.Sprintf("%d/%d", g.r.intn(60), g.r.intn(2)))
				}
				g.emit("os", strconv.Itoa([]int{1, 2, 4, 16}[g.r.intn(4)]), progSets[g.r.intn(len(progSets))], strings.Join(fs, ","))
			}
		},
		run: c19Run,
	}
}
