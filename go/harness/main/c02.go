//go:build verif

package main

import (
	"context"
	"fmt"
	"math"
	"strconv"
	"strings"

	"github.com/google/mtail/internal/logline"
	"github.com/google/mtail/internal/metrics/datum"
	"github.com/google/mtail/internal/runtime/compiler"
	"github.com/google/mtail/internal/runtime/compiler/ast"
	"github.com/google/mtail/internal/runtime/compiler/opt"
	"github.com/google/mtail/internal/runtime/compiler/parser"
	"github.com/google/mtail/internal/runtime/vm"
)

// C02 — constant folding never changes a program's results.
//
//   fold <rpn expression> <oracle table> <line>|<line>|...
//   expression in reverse polish, ',' separated: i<dec> f<bits> v1 (int capture) v2 (float capture) + - * / % ^
//   oracle table: mod/pow results computed with Go's math package directly: m:<x>:<y>=<r>,p:<x>:<y>=<r>,q:<a>:<b>=<int pow>
//   lines: "<int> <float>" fed to the program  `gauge r` / `/^(-?\d+) (-?\d+\.\d+)$/ { r = <expr> }`
// OBS: the folded expression (from the real optimiser) and, per line, value and runtime error with
// optimisation on.  PRED: optimisation on and off give identical results and error behaviour;
// a rejection by the optimised compile is a literal-zero division or modulus.

type c02Node struct {
	kind byte // i f v b
	i    int64
	f    float64
	v    int
	op   string
	a, b *c02Node
}

func (n *c02Node) rpn() string {
	switch n.kind {
	case 'i':
		return "i" + strconv.FormatInt(n.i, 10)
	case 'f':
		return "f" + fbits(n.f)
	case 'v':
		return "v" + strconv.Itoa(n.v)
	}
	return n.a.rpn() + "," + n.b.rpn() + "," + n.op
}

func (n *c02Node) text() string {
	switch n.kind {
	case 'i':
		return strconv.FormatInt(n.i, 10)
	case 'f':
		s := strconv.FormatFloat(n.f, 'f', -1, 64)
		if !strings.Contains(s, ".") {
			s += ".0"
		}
		return s
	case 'v':
		return "$" + strconv.Itoa(n.v)
	}
	op := n.op
	if op == "^" {
		op = "**"
	}
	return "(" + n.a.text() + " " + op + " " + n.b.text() + ")"
}

func parseRPN(s string) *c02Node {
	var st []*c02Node
	for _, t := range strings.Split(s, ",") {
		switch t[0] {
		case 'i':
			v, _ := strconv.ParseInt(t[1:], 10, 64)
			st = append(st, &c02Node{kind: 'i', i: v})
		case 'f':
			st = append(st, &c02Node{kind: 'f', f: unfbits(t[1:])})
		case 'v':
			v, _ := strconv.Atoi(t[1:])
			st = append(st, &c02Node{kind: 'v', v: v})
		default:
			b, a := st[len(st)-1], st[len(st)-2]
			st = append(st[:len(st)-2], &c02Node{kind: 'b', op: t, a: a, b: b})
		}
	}
	return st[0]
}

// oracle collects Go's own results for the operations the Lean side cannot compute natively.
type c02Oracle struct{ entries map[string]bool }

func (o *c02Oracle) add(s string) { o.entries[s] = true }

// evalTree evaluates with the lub typing rule directly in Go, recording mod/pow applications.
// ok=false: integer division by zero.
func (n *c02Node) evalTree(o *c02Oracle, iv int64, fv float64) (isF bool, i int64, f float64, ok bool) {
	switch n.kind {
	case 'i':
		return false, n.i, 0, true
	case 'f':
		return true, 0, n.f, true
	case 'v':
		if n.v == 1 {
			return false, iv, 0, true
		}
		return true, 0, fv, true
	}
	af, ai, aff, aok := n.a.evalTree(o, iv, fv)
	bf, bi, bff, bok := n.b.evalTree(o, iv, fv)
	if !aok || !bok {
		return false, 0, 0, false
	}
	if !af && !bf {
		switch n.op {
		case "+":
			return false, ai + bi, 0, true
		case "-":
			return false, ai - bi, 0, true
		case "*":
			return false, ai * bi, 0, true
		case "/":
			if bi == 0 {
				return false, 0, 0, false
			}
			return false, ai / bi, 0, true
		case "%":
			if bi == 0 {
				return false, 0, 0, false
			}
			return false, ai % bi, 0, true
		case "^":
			pf := math.Pow(float64(ai), float64(bi))
			r := int64(pf)
			o.add(fmt.Sprintf("p:%s:%s=%s", fbits(float64(ai)), fbits(float64(bi)), fbits(pf)))
			return false, r, 0, true
		}
	}
	x, y := aff, bff
	if !af {
		x = float64(ai)
	}
	if !bf {
		y = float64(bi)
	}
	var r float64
	switch n.op {
	case "+":
		r = x + y
	case "-":
		r = x - y
	case "*":
		r = x * y
	case "/":
		r = x / y
	case "%":
		r = math.Mod(x, y)
		o.add(fmt.Sprintf("m:%s:%s=%s", fbits(x), fbits(y), fbits(r)))
	case "^":
		r = math.Pow(x, y)
		o.add(fmt.Sprintf("p:%s:%s=%s", fbits(x), fbits(y), fbits(r)))
	}
	return true, 0, r, true
}

// collectConst records oracle entries for every constant sub-tree application (what folding needs).
func (n *c02Node) isConst() bool {
	switch n.kind {
	case 'i', 'f':
		return true
	case 'v':
		return false
	}
	return n.a.isConst() && n.b.isConst()
}

// hasConstZeroDivisor: some division or modulus has a constant right operand that evaluates to
// zero (or cannot be evaluated because of a zero divisor further inside).
func (n *c02Node) hasConstZeroDivisor() bool {
	if n.kind != 'b' {
		return false
	}
	if (n.op == "/" || n.op == "%") && n.b.isConst() {
		isF, i, f, ok := n.b.evalTree(&c02Oracle{entries: map[string]bool{}}, 0, 0)
		if !ok || (!isF && i == 0) || (isF && f == 0) {
			return true
		}
	}
	return n.a.hasConstZeroDivisor() || n.b.hasConstZeroDivisor()
}

func (n *c02Node) collectConst(o *c02Oracle) {
	if n.kind != 'b' {
		return
	}
	n.a.collectConst(o)
	n.b.collectConst(o)
	n.evalTree(o, 1, 0.5)
}

func astToRPN(n ast.Node) string {
	switch x := n.(type) {
	case *ast.IntLit:
		return "i" + strconv.FormatInt(x.I, 10)
	case *ast.FloatLit:
		return "f" + canonBits(x.F)
	case *ast.CaprefTerm:
		return "v" + x.Name
	case *ast.ConvExpr:
		return astToRPN(x.N)
	case *ast.BinaryExpr:
		op := map[int]string{parser.PLUS: "+", parser.MINUS: "-", parser.MUL: "*", parser.DIV: "/", parser.MOD: "%", parser.POW: "^"}[x.Op]
		if op == "" {
			op = "?"
		}
		return astToRPN(x.LHS) + "," + astToRPN(x.RHS) + "," + op
	}
	return fmt.Sprintf("?%T", n)
}

// findAssignRHS finds the right-hand side of the `r = ...` assignment.
func findAssignRHS(root ast.Node) ast.Node {
	var out ast.Node
	var visit func(n ast.Node)
	visit = func(n ast.Node) {
		if n == nil || out != nil {
			return
		}
		switch x := n.(type) {
		case *ast.StmtList:
			for _, c := range x.Children {
				visit(c)
			}
		case *ast.CondStmt:
			visit(x.Truth)
			visit(x.Else)
		case *ast.BinaryExpr:
			if x.Op == parser.ASSIGN {
				out = x.RHS
			}
		}
	}
	visit(root)
	return out
}

type c02Run1 struct {
	ok     bool
	errMsg string
	vals   []string
}

// the daemon keeps one Compiler for all its programs and all their reloads: so does this run, one
// per mode, so that what an earlier compile left behind in it is part of what is tested
var c02Compilers = map[bool]*compiler.Compiler{}

func c02Exec(name, prog string, optimise bool, lines []string) c02Run1 {
	c := c02Compilers[optimise]
	if c == nil {
		var opts []compiler.Option
		if !optimise {
			opts = append(opts, compiler.DisableOptimisation())
		}
		c, _ = compiler.New(opts...)
		c02Compilers[optimise] = c
	}
	obj, err := c.Compile(name, strings.NewReader(prog))
	if err != nil || obj == nil {
		return c02Run1{ok: false, errMsg: fmt.Sprint(err)}
	}
	v := vm.New(name, obj, false, nil, false, false)
	res := c02Run1{ok: true}
	ctx := context.Background()
	for _, l := range lines {
		e0 := expvarMapInt("prog_runtime_errors_total", name)
		v.ProcessLogLine(ctx, logline.New(ctx, "f", l))
		e1 := expvarMapInt("prog_runtime_errors_total", name)
		val := "unset"
		for _, m := range obj.Metrics {
			if m.Name == "r" && len(m.LabelValues) > 0 {
				switch d := m.LabelValues[0].Value.(type) {
				case *datum.Int:
					val = "i" + strconv.FormatInt(d.Get(), 10)
				case *datum.Float:
					val = "f" + canonBits(d.Get())
				}
			}
			if m.Name == "t" && len(m.LabelValues) > 0 {
				if d, ok := m.LabelValues[0].Value.(*datum.String); ok {
					val += "/t=" + hx(d.Get())
				}
			}
		}
		res.vals = append(res.vals, fmt.Sprintf("%s/e%d", val, e1-e0))
	}
	return res
}

// c02Positions: the places other than `r = E` in which the expression is put.  `E` is replaced by
// the expression's text; the surrounding block has the captures $1 (integer) and $2 (float).
var c02Positions = map[string]string{
	"cond":  "E {\n    r = 1\n  }",
	"cmpl":  "E < $1 {\n    r = $1\n  }",
	"cmpr":  "$2 >= E {\n    r = 2\n  }",
	"plus":  "r += E",
	"else":  "$1 > 1000000 {\n    r = 0\n  } else {\n    r = E\n  }",
	"float": "r = float(E)",
	"int":   "r = int(E)",
	"and":   "$1 > -100000 && E > 0 {\n    r = 1\n  }",
	"neg":   "r = 0 - (E)",
	"twice": "r = (E) + (E)",
	// among strings: the number becomes text (the program then declares `text t` as well)
	"cat":    "t = \"n\" + E\n  r = 1",
	"catl":   "t = E + \"n\"\n  r = 1",
	"streq":  "\"1000000\" == E {\n    r = 1\n  } else {\n    r = 2\n  }",
	"strcat": "\"n\" + E == \"n1000000\" {\n    r = 1\n  } else {\n    r = 2\n  }",
	// as a pattern: inside a pattern `+` joins texts (1 + 2 is /12/), whatever the optimiser thinks
	"pat":  "string($1) =~ (E) {\n    r = 1\n  } else {\n    r = 2\n  }",
	"patc": "string($1) =~ /^/ + (E) {\n    r = 1\n  } else {\n    r = 2\n  }",
	// in a long, flat program: a hundred and twenty pattern blocks, constants and matches before it
	"many": c02ManyBlocks() + "r = E",
}

func c02ManyBlocks() string {
	var b strings.Builder
	for i := 0; i < 120; i++ {
		switch i % 3 {
		case 0:
			fmt.Fprintf(&b, "/never%d/ {\n    r = %d\n  }\n  ", i, i)
		case 1:
			fmt.Fprintf(&b, "string($1) =~ /never%d/ {\n    r = %d\n  }\n  ", i, i)
		default:
			fmt.Fprintf(&b, "string($2) !~ /./ + /%d/ {\n    r = %d\n  }\n  ", i, i)
		}
	}
	return b.String()
}

func c02Run(r *runCtx, id string, f []string) {
	pos := ""
	if f[0] == "foldpos" {
		pos = f[1]
		f = append([]string{"fold"}, f[2:]...)
	}
	tree := parseRPN(f[1])
	lines := strings.Split(f[3], "|")
	for i := range lines {
		lines[i] = strings.ReplaceAll(lines[i], "_", " ")
	}
	stmt := "r = " + tree.text()
	if pos != "" {
		stmt = strings.ReplaceAll(c02Positions[pos], "E", tree.text())
	}
	decls := "gauge r\n"
	if strings.Contains(stmt, "t = ") {
		decls += "text t\n"
	}
	prog := decls + "/^(-?\\d+) (-?\\d+\\.\\d+)$/ {\n  " + stmt + "\n}\n"
	// the real optimiser on the parsed program
	folded := "?"
	if root, err := parser.Parse("c02.mtail", strings.NewReader(prog)); err == nil {
		if o, oerr := opt.Optimise(root); oerr != nil {
			folded = "REJECT"
		} else if rhs := findAssignRHS(o); rhs != nil {
			folded = astToRPN(rhs)
		}
	} else {
		folded = "PARSE-ERROR"
	}
	on := c02Exec("c02_"+id+"_on.mtail", prog, true, lines)
	off := c02Exec("c02_"+id+"_off.mtail", prog, false, lines)
	onS := "REJECT"
	if on.ok {
		onS = strings.Join(on.vals, ",")
	}
	if pos != "" {
		// the model speaks about the expression, not about the statement around it: only the
		// property is evaluated here
		r.obs(id, "POS")
	} else {
		r.obs(id, "%s %s", folded, onS)
	}
	// the property
	switch {
	case !on.ok && off.ok, !on.ok && !off.ok:
		// rejected with optimisation: must be a literal-zero division or modulus
		if !on.ok && !strings.Contains(on.errMsg, "divide by zero") && !strings.Contains(on.errMsg, "mod by zero") && !strings.Contains(on.errMsg, "Can't divide by zero") {
			if off.ok {
				r.fail(id, "opt-rejects", "program `%s` is rejected only with optimisation, and not for a zero divisor: %s", tree.text(), on.errMsg)
			} else {
				r.ok(id) // rejected either way for another reason (e.g. a type error)
			}
		} else if !on.ok && !tree.hasConstZeroDivisor() {
			// the message says zero divisor, but no division or modulus in the expression has a
			// constant right operand whose value is zero
			r.fail(id, "opt-rejects-nonzero-divisor", "program `%s` is rejected with optimisation for a zero divisor (%s), but no constant divisor in it is zero", tree.text(), firstLine(on.errMsg))
		} else {
			r.ok(id)
		}
		r.stat("rejected")
	case on.ok && !off.ok:
		r.fail(id, "noopt-rejects", "program `%s` compiles with optimisation but not without: %s", tree.text(), off.errMsg)
	default:
		if strings.Join(on.vals, ",") != strings.Join(off.vals, ",") {
			cls := "fold-changes-result"
			r.fail(id, cls, "`r = %s` on lines %v: with optimisation %v, without %v", tree.text(), lines, on.vals, off.vals)
		} else {
			r.ok(id)
		}
		r.stat("compared")
	}
	if tree.kind != 'b' {
		r.trivial(id)
	}
}

func init() {
	props["C02"] = &propImpl{
		gen: func(g *genCtx) {
			ints := []int64{0, 1, -1, 2, 7, -7, 3, 10, 1000, 1000000, -3000000, math.MaxInt64, math.MinInt64}
			floats := []float64{0.0, 1.0, -1.0, 2.0, 0.5, -2.5, 7.0, 3.0, 5e-10, -2.5e-10, 1e-300, 5e-324, 1e300, 0.1, 0.2, 0.3}
			ops := []string{"+", "-", "*", "/", "%", "^"}
			lines := "3_0.5|0_0.0|-7_2.0|10_-2.5|1_2.25|2_0.3|5_1.0"
			nEmitted := 0
			posIndex := map[string]int{"cond": 0, "cmpl": 1, "cmpr": 2, "plus": 3, "else": 4, "float": 5, "int": 6, "and": 7, "neg": 8, "twice": 9, "cat": 10, "catl": 11, "streq": 12, "strcat": 13, "pat": 14, "patc": 15, "many": 16}
			emit := func(n *c02Node) {
				o := &c02Oracle{entries: map[string]bool{}}
				n.collectConst(o)
				for _, l := range strings.Split(lines, "|") {
					p := strings.Split(l, "_")
					iv, _ := strconv.ParseInt(p[0], 10, 64)
					fv, _ := strconv.ParseFloat(p[1], 64)
					n.evalTree(o, iv, fv)
				}
				var es []string
				for e := range o.entries {
					es = append(es, e)
				}
				tbl := strings.Join(es, ",")
				if tbl == "" {
					tbl = "."
				}
				g.emit("fold", n.rpn(), tbl, lines)
				// ... and the same expression in the other places an expression can stand
				if n.kind == 'b' {
					nEmitted++
					if g.thorough() || nEmitted%4 == 0 {
						for _, pos := range []string{"cond", "cmpl", "cmpr", "plus", "else", "float", "int", "and", "neg", "twice", "cat", "catl", "streq", "strcat", "pat", "patc", "many"} {
							if g.thorough() || (nEmitted/4)%17 == posIndex[pos] {
								g.emit("foldpos", pos, n.rpn(), tbl, lines)
							}
						}
					}
				}
			}
			lit := func(isF bool, k int) *c02Node {
				if isF {
					return &c02Node{kind: 'f', f: floats[k%len(floats)]}
				}
				return &c02Node{kind: 'i', i: ints[k%len(ints)]}
			}
			// exhaustive: operator x literal kinds x a grid of values
			for _, op := range ops {
				for _, af := range []bool{false, true} {
					for _, bf := range []bool{false, true} {
						na, nb := len(ints), len(ints)
						if af {
							na = len(floats)
						}
						if bf {
							nb = len(floats)
						}
						for a := 0; a < na; a++ {
							for b := 0; b < nb; b++ {
								emit(&c02Node{kind: 'b', op: op, a: lit(af, a), b: lit(bf, b)})
							}
						}
					}
				}
			}
			// chains of two constants around a capture, left- and right-nested: regrouping the constants
			// (or the operators) is not an identity on floats, nor on wrapping integers under / and %
			chainOps := [][2]string{{"+", "+"}, {"-", "-"}, {"*", "*"}, {"/", "/"}, {"%", "%"}, {"^", "^"}, {"+", "-"}, {"-", "+"}, {"*", "/"}, {"/", "*"}}
			chainConsts := []*c02Node{
				{kind: 'f', f: 0.1}, {kind: 'f', f: 0.2}, {kind: 'f', f: 0.3}, {kind: 'f', f: 3.0},
				{kind: 'f', f: 9007199254740992.0}, {kind: 'f', f: -9007199254740992.0},
				{kind: 'i', i: 3}, {kind: 'i', i: 2}, {kind: 'i', i: math.MaxInt64},
			}
			for _, po := range chainOps {
				for v := 1; v <= 2; v++ {
					for _, c1 := range chainConsts {
						for _, c2 := range chainConsts {
							x := &c02Node{kind: 'v', v: v}
							emit(&c02Node{kind: 'b', op: po[1], a: &c02Node{kind: 'b', op: po[0], a: x, b: c1}, b: c2})
							emit(&c02Node{kind: 'b', op: po[0], a: c1, b: &c02Node{kind: 'b', op: po[1], a: c2, b: x}})
						}
					}
				}
			}
			// random nested expressions with captures in any position
			n := 1500
			if g.thorough() {
				n = 40000
			}
			var gen func(d int) *c02Node
			gen = func(d int) *c02Node {
				if d == 0 || g.r.chance(1, 4) {
					switch g.r.intn(6) {
					case 0:
						return &c02Node{kind: 'v', v: 1 + g.r.intn(2)}
					case 1, 2:
						return lit(true, g.r.intn(len(floats)))
					default:
						return lit(false, g.r.intn(len(ints)))
					}
				}
				return &c02Node{kind: 'b', op: ops[g.r.intn(len(ops))], a: gen(d - 1), b: gen(d - 1)}
			}
			for i := 0; i < n; i++ {
				emit(&c02Node{kind: 'b', op: ops[g.r.intn(len(ops))], a: gen(2), b: gen(2)})
			}
		},
		run: c02Run,
	}
}
