//go:build verif

package main

import (
	"fmt"
	"github.com/google/mtail/internal/metrics"
	"github.com/google/mtail/internal/metrics/datum"
	"strconv"
	"strings"
)

// C14 — program reload preserves state and never duplicates series.
// Histories over one or two program files; see rt.go for the operation alphabet.

type rtObs struct {
	handles  string
	store    []string
	counters string
	scrapeOK bool
	scrape   string
	scrapeEr string
}

func (e *rtEnv) observe() rtObs {
	if e.hung != "" {
		return rtObs{scrapeOK: true}
	}
	txt, err := e.scrape()
	er := ""
	if err != nil {
		er = err.Error()
	}
	return rtObs{handles: e.dumpHandles(), store: e.dumpStore(), counters: e.dumpCounters(), scrapeOK: err == nil, scrape: txt, scrapeEr: er}
}

func rtHandleMap(h string) map[string]int {
	out := map[string]int{}
	if h == "" {
		return out
	}
	for _, kv := range strings.Split(h, ",") {
		p := strings.Split(kv, "=v")
		v, _ := strconv.Atoi(p[1])
		out[p[0]] = v
	}
	return out
}

// storeOf filters a store dump to the metrics of one program.
func storeOf(store []string, prog string) []string {
	var out []string
	for _, s := range store {
		if strings.Split(s, "/")[1] == hx(prog) {
			out = append(out, s)
		}
	}
	return out
}

func declKey(d rtDecl) string {
	return fmt.Sprintf("%s/%d/%d/%s/%s", d.name, d.kind, d.typ, strings.Join(d.keys, ","), d.pos)
}

// metricLine finds the dump line of (prog, decl).
func metricLine(store []string, prog string, d rtDecl) (string, bool) {
	want := fmt.Sprintf("%s/%s/%d/%d/%s/%s{", hx(d.name), hx(prog), d.kind, d.typ, hxs(d.keys), hx(prog+":"+d.pos))
	for _, s := range store {
		if strings.HasPrefix(s, want) {
			return s, true
		}
	}
	return "", false
}

func c14Run(r *runCtx, id string, f []string) {
	ops := strings.Split(f[2], ";")
	env, err := newRtEnv()
	if err != nil {
		r.obs(id, "ENV-ERROR")
		r.fail(id, "harness", "%v", err)
		return
	}
	defer env.close()
	cat := rtCatalogue()
	fileVer := map[string]int{}
	var obs []string
	type failure struct{ cls, msg string }
	var fails []failure
	addFail := func(cls, format string, a ...interface{}) {
		fails = append(fails, failure{cls, fmt.Sprintf(format, a...)})
	}
	for step, op := range ops {
		p := strings.Split(op, ":")
		switch p[0] {
		case "w":
			fileVer[p[1]], _ = strconv.Atoi(p[2])
		case "rm":
			delete(fileVer, p[1])
		}
		if p[0] != "load" {
			env.apply(op)
			continue
		}
		before := env.observe()
		env.apply(op)
		after := env.observe()
		obs = append(obs, fmt.Sprintf("H[%s] C[%s] S[%s]", after.handles, after.counters, strings.Join(after.store, " ")))
		hb, ha := rtHandleMap(before.handles), rtHandleMap(after.handles)
		for prog, fv := range fileVer {
			if !strings.HasSuffix(prog, ".mtail") || strings.HasPrefix(prog, ".") {
				continue
			}
			oldV, had := hb[prog]
			newV, has := ha[prog]
			switch {
			case had && oldV == fv:
				// (a) identical source: nothing about this program changes
				if !has || newV != oldV || strings.Join(storeOf(before.store, prog), " ") != strings.Join(storeOf(after.store, prog), " ") {
					addFail("reload-identical", "step %d: reloading identical %s (v%d) changed it: before %v after %v", step, prog, fv, storeOf(before.store, prog), storeOf(after.store, prog))
				}
			case has && newV == fv:
				// (b) edited and loaded: every kept declaration keeps values and expiry
				if had {
					kept := map[string]bool{}
					for _, d := range cat[oldV].decls {
						kept[declKey(d)] = true
					}
					for _, d := range cat[newV].decls {
						if d.hidden || !kept[declKey(d)] {
							continue
						}
						b, okb := metricLine(before.store, prog, d)
						a, oka := metricLine(after.store, prog, d)
						if okb && (!oka || a != b) {
							cls := "reload-loses-data"
							if oka && stripExpiry(a) == stripExpiry(b) {
								cls = "reload-loses-expiry"
							}
							addFail(cls, "step %d: %s v%d->v%d keeps declaration %s but its data changed: before %s after %s", step, prog, oldV, newV, d.name, b, a)
						}
					}
				}
			default:
				// the version compiles and nothing in the store can refuse it: it must be running
				if cat[fv].compiles && !kindConflict(cat[fv], "", before.store) && !kindConflict(cat[fv], "", after.store) {
					addFail("load-has-no-effect", "step %d: %s holds v%d, which compiles and conflicts with nothing, but after the load it is not running (handles %s)", step, prog, fv, after.handles)
				}
				// (c) the load failed (compile error or refused registration)
				if strings.Join(storeOf(before.store, prog), " ") != strings.Join(storeOf(after.store, prog), " ") {
					cls := "failed-load-changes-export"
					if cat[fv].compiles {
						cls = "partial-registration"
					}
					addFail(cls, "step %d: loading %s v%d failed but its exported metrics changed: before %v after %v", step, prog, fv, storeOf(before.store, prog), storeOf(after.store, prog))
				}
				if had && (!has || newV != oldV) {
					addFail("failed-load-stops-previous", "step %d: loading %s v%d failed and the previous version v%d is no longer running", step, prog, fv, oldV)
				}
			}
		}
		// (d) no duplicate series / scrape still works
		if !after.scrapeOK {
			cls := "scrape-fails"
			if strings.Contains(after.scrapeEr, "was collected before with the same name and label values") && dupSeriesFromMovedDecl(after.store) {
				cls = "reload-duplicate-series"
			} else if strings.Contains(after.scrapeEr, "inconsistent label names") && labelDimensionClash(after.store) {
				cls = "cross-program-label-clash"
			}
			if cls != "cross-program-label-clash" { // a different property (C06) covers clashes between programs
				addFail(cls, "step %d: after the load the Prometheus scrape fails (%s); store %v", step, strings.ReplaceAll(after.scrapeEr, "\n", " "), after.store)
			}
		}
	}
	// whatever was reloaded: a histogram's data are counted against the boundaries it is declared with
	_ = env.store.Range(func(m *metrics.Metric) error {
		m.RLock()
		defer m.RUnlock()
		if m.Kind != metrics.Histogram {
			return nil
		}
		for _, lv := range m.LabelValues {
			b, ok := lv.Value.(*datum.Buckets)
			if !ok {
				continue
			}
			same := len(b.Buckets) >= len(m.Buckets)
			for i := 0; same && i < len(m.Buckets); i++ {
				same = b.Buckets[i].Range == m.Buckets[i]
			}
			if !same {
				addFail("histogram-keeps-old-boundaries", "after the history the histogram %s of %s is declared with %v and its data are counted in %v", m.Name, m.Program, m.Buckets, b.Buckets)
			}
		}
		return nil
	})
	final := env.observe()
	obs = append(obs, fmt.Sprintf("H[%s] C[%s] S[%s]", final.handles, final.counters, strings.Join(final.store, " ")))
	r.obs(id, "%s", strings.Join(obs, " || "))
	if env.hung != "" {
		fails = append([]failure{{"load-hangs", env.hung}}, fails...)
	}
	if len(fails) == 0 {
		r.ok(id)
	} else {
		seen := map[string]bool{}
		for _, fl := range fails {
			if !seen[fl.cls] {
				seen[fl.cls] = true
				r.fail(id, fl.cls, "ops %s: %s", f[2], fl.msg)
			}
		}
	}
	nl := 0
	for _, op := range ops {
		if op == "load" {
			nl++
		}
	}
	if nl < 2 {
		r.trivial(id)
	}
	r.stat("loads_" + strconv.Itoa(min(nl, 4)))
}

func stripExpiry(s string) string {
	// label values look like labels=value/xN: drop the /xN parts
	var b strings.Builder
	i := 0
	for i < len(s) {
		if strings.HasPrefix(s[i:], "/x") {
			j := i + 2
			for j < len(s) && (s[j] == '-' || (s[j] >= '0' && s[j] <= '9')) {
				j++
			}
			if j > i+2 {
				i = j
				continue
			}
		}
		b.WriteByte(s[i])
		i++
	}
	return b.String()
}

// two metrics of one program with the same name, kind, keys but different source or type
func dupSeriesFromMovedDecl(store []string) bool {
	seen := map[string]string{}
	for _, s := range store {
		p := strings.Split(s, "/")
		k := p[0] + "/" + p[1] + "/" + p[4]
		if prev, ok := seen[k]; ok && prev != s {
			return true
		}
		seen[k] = s
	}
	return false
}

// two metrics with the same name but different key lists
func labelDimensionClash(store []string) bool {
	keys := map[string]string{}
	for _, s := range store {
		p := strings.Split(s, "/")
		if prev, ok := keys[p[0]]; ok && prev != p[4] {
			return true
		}
		keys[p[0]] = p[4]
	}
	return false
}

func init() {
	props["C14"] = &propImpl{
		gen: func(g *genCtx) {
			cat := rtEncodeCatalogue()
			emit := func(ops []string) { g.emit("rt", cat, strings.Join(ops, ";")) }
			// systematic: every ordered pair of versions for one file, with lines and an expiry mark between
			vers := []int{0, 1, 2, 3, 4, 5, 6, 10, 11, 16, 18, 19, 20}
			for _, a := range vers {
				for _, b := range vers {
					emit([]string{fmt.Sprintf("w:a.mtail:%d", a), "load", "l:x", "l:y", "x:a.mtail:c:x:3600000", fmt.Sprintf("w:a.mtail:%d", b), "load", "l:x", "load"})
					if g.thorough() {
						for _, c := range vers {
							emit([]string{fmt.Sprintf("w:a.mtail:%d", a), "load", "l:x", fmt.Sprintf("w:a.mtail:%d", b), "load", "l:y", "gc", fmt.Sprintf("w:a.mtail:%d", c), "load", "l:x"})
						}
					}
				}
			}
			// a metric over its limit (no GC pass yet) is reloaded: every label set is carried over
			for _, pr := range [][2]int{{23, 24}, {24, 23}, {23, 23}} {
				emit([]string{fmt.Sprintf("w:a.mtail:%d", pr[0]), "load", "l:x", "l:y", "l:z", "l:y", fmt.Sprintf("w:a.mtail:%d", pr[1]), "load", "l:z", "l:w", "load"})
			}
			// unload and load again (same and different contents)
			for _, a := range []int{0, 1, 10} {
				for _, b := range []int{0, 1, 2} {
					emit([]string{fmt.Sprintf("w:a.mtail:%d", a), "load", "l:x", "rm:a.mtail", "load", "l:y", fmt.Sprintf("w:a.mtail:%d", b), "load", "l:x", "load", "l:y"})
				}
			}
			// two programs: registration refusal while the other program owns `c`
			for _, a := range []int{0, 1, 3, 13} {
				for _, b := range []int{7, 8, 0, 11, 12} {
					emit([]string{fmt.Sprintf("w:a.mtail:%d", a), "load", "l:x", fmt.Sprintf("w:b.mtail:%d", b), "load", "l:y", "load"})
					emit([]string{fmt.Sprintf("w:b.mtail:%d", 7), fmt.Sprintf("w:a.mtail:%d", a), "load", "l:x", fmt.Sprintf("w:b.mtail:%d", b), "load", "l:y"})
				}
			}
			n := 150
			if g.thorough() {
				n = 3000
			}
			files := []string{"a.mtail", "b.mtail"}
			for i := 0; i < n; i++ {
				ln := 3 + g.r.intn(14)
				var ops []string
				for j := 0; j < ln; j++ {
					switch g.r.intn(10) {
					case 0, 1, 2:
						ops = append(ops, fmt.Sprintf("w:%s:%d", files[g.r.intn(2)], []int{0, 1, 2, 3, 4, 5, 6, 7, 8, 10, 11, 16}[g.r.intn(12)]))
					case 3, 4, 5:
						ops = append(ops, "load")
					case 6, 7:
						ops = append(ops, "l:"+[]string{"x", "y", "z"}[g.r.intn(3)])
					case 8:
						if g.r.chance(1, 2) {
							ops = append(ops, "gc")
						} else {
							ops = append(ops, fmt.Sprintf("x:%s:c:%s:3600000", files[g.r.intn(2)], []string{"x", "y"}[g.r.intn(2)]))
						}
					case 9:
						ops = append(ops, "rm:"+files[g.r.intn(2)])
					}
				}
				ops = append(ops, "load")
				emit(ops)
			}
		},
		run: c14Run,
	}
}
