//go:build verif

package main

import (
	"context"
	"fmt"
	"os"
	"path/filepath"
	"strconv"
	"strings"
	"sync"
	"time"

	"github.com/google/mtail/internal/logline"
	"github.com/google/mtail/internal/metrics"
	"github.com/google/mtail/internal/metrics/datum"
	"github.com/google/mtail/internal/runtime"
	"github.com/google/mtail/internal/runtime/vm"
)

// C20 — lines reach each program in order, exactly once, across reloads.
//
//   sched <ops separated by ;>
//     w:<k>        write version k of the program file (same declarations, different text)
//     rm           remove the program file (the next load/reload unloads the program)
//     load         LoadAllPrograms, awaited
//     l:<n>        send the line "<n>" to the loader (returns when the fan-out has taken it)
//     lq:<n>       like l:<n>, but only if no background reload is still pending
//     join         wait (at most 300 ms each) for the background reloads
//     hold:<n>     the VM that starts line <n> stops at the start of ProcessLogLine until released
//     rel:<n>      release line <n>
//     reload       LoadAllPrograms in the background; observed as returned, or as blocked once it waits
//                  for the VM that is inside a held line
//     wait:<k>     wait (at most 300 ms) until k lines have been fully processed
//     sync         wait until every line sent so far has been fully processed
//
// The program: gauge g, counter n, /^(\d+)$/ { g = $1  n++ }.  The hook (build tag verif) records
// which VM instance started which line.  OBS: hook log (line -> instance ordinal), whether each
// background reload had returned, final g and n.  PRED: every line is started by exactly one VM
// instance, n equals the number of lines, g is the last line sent.

type c20Env struct {
	dir      string
	lines    chan *logline.LogLine
	rt       *runtime.Runtime
	store    *metrics.Store
	wg       sync.WaitGroup
	mu       sync.Mutex
	inst     map[*vm.VM]int
	log      []string
	holds    map[string]chan struct{}
	entered  map[string]chan struct{}
	sent     int
	fanned   int   // lines sent while nothing was loaded
	lineBase int64 // lines_total when the case began
	bg       []chan struct{}
}

// The versions differ in how a line ends: by running off the end of the program, in a final
// `stop`, or in a `stop` in the trailing else branch of a condition no line meets.
func c20Prog(k int) string {
	if k >= 100 {
		// a version that compiles and that the store refuses (its first metric, `n`, is a counter
		// in every other version): the load fails and the version before it keeps running
		return fmt.Sprintf("gauge n\ngauge g\n/^(\\d+)$/ {\n  g = $1\n  n++\n}\n# version %d\n", k)
	}
	tail := ""
	switch k % 3 {
	case 1:
		tail = "stop\n"
	case 2:
		tail = "/^never$/ {\n} else {\n  stop\n}\n"
	}
	return fmt.Sprintf("gauge g\ncounter n\n/^(\\d+)$/ {\n  g = $1\n  n++\n}\n%s# version %d\n", tail, k)
}

func (e *c20Env) hook(v *vm.VM, l *logline.LogLine) {
	e.mu.Lock()
	id, ok := e.inst[v]
	if !ok {
		id = len(e.inst) + 1
		e.inst[v] = id
	}
	e.log = append(e.log, fmt.Sprintf("%s@%d", l.Line, id))
	h := e.holds[l.Line]
	ent := e.entered[l.Line]
	e.mu.Unlock()
	if ent != nil {
		close(ent)
	}
	if h != nil {
		<-h
	}
}

// anyHeldEntered: some VM is inside a line the schedule is holding.
func (e *c20Env) anyHeldEntered() bool {
	e.mu.Lock()
	defer e.mu.Unlock()
	for l := range e.holds {
		if ent := e.entered[l]; ent != nil {
			select {
			case <-ent:
				return true
			default:
			}
		}
	}
	return false
}

func (e *c20Env) intMetric(name string) (int64, bool) {
	var out int64
	found := false
	_ = e.store.Range(func(m *metrics.Metric) error {
		if m.Name == name && len(m.LabelValues) > 0 {
			if d, ok := m.LabelValues[0].Value.(*datum.Int); ok {
				out, found = d.Get(), true
			}
		}
		return nil
	})
	return out, found
}


// c20Rename: a program file is renamed between lines, several times (the number of loaded programs
// is the same before and after each reload, their names are not), with a bystander program beside
// it.  Every line sent after a reload is started by exactly one VM of the renamed program and by
// the bystander's.
func c20Rename(renames, per int) (bool, string) {
	dir, err := os.MkdirTemp("", "c20mv")
	if err != nil {
		return true, "skip"
	}
	defer os.RemoveAll(dir)
	lines := make(chan *logline.LogLine)
	store := metrics.NewStore()
	var wg sync.WaitGroup
	var mu sync.Mutex
	starts := map[string]int{}
	vm.VerifLineHook = func(_ *vm.VM, l *logline.LogLine) { mu.Lock(); starts[l.Line]++; mu.Unlock() }
	defer func() { vm.VerifLineHook = nil }()
	rt, err := runtime.New(lines, &wg, dir, store)
	if err != nil {
		return false, "runtime.New: " + err.Error()
	}
	src := "counter seen\n/^/ {\n  seen++\n}\n"
	_ = os.WriteFile(filepath.Join(dir, "zz-bystander.mtail"), []byte("counter bys\n/^/ {\n  bys++\n}\n"), 0o644)
	name := "p0.mtail"
	_ = os.WriteFile(filepath.Join(dir, name), []byte(src), 0o644)
	_ = rt.LoadAllPrograms()
	sent := 0
	send := func() {
		for i := 0; i < per; i++ {
			sent++
			text := strconv.Itoa(sent)
			lines <- logline.New(context.Background(), "log", text)
			// (the dispatcher hands a line to every VM before it lets a load or unload in, so nothing
			// can overtake it; the wait only spares the lines that no VM takes a longer one at the end)
			deadline := time.Now().Add(300 * time.Millisecond)
			for time.Now().Before(deadline) {
				mu.Lock()
				c := starts[text]
				mu.Unlock()
				if c >= 2 {
					break
				}
				time.Sleep(200 * time.Microsecond)
			}
		}
	}
	send()
	for k := 1; k <= renames; k++ {
		next := fmt.Sprintf("p%d.mtail", k)
		_ = os.Rename(filepath.Join(dir, name), filepath.Join(dir, next))
		name = next
		_ = rt.LoadAllPrograms()
		send()
	}
	time.Sleep(5 * time.Millisecond)
	close(lines)
	done := make(chan struct{})
	go func() { wg.Wait(); close(done) }()
	select {
	case <-done:
	case <-time.After(3 * time.Second):
	}
	mu.Lock()
	defer mu.Unlock()
	for i := 1; i <= sent; i++ {
		if c := starts[strconv.Itoa(i)]; c != 2 {
			return false, fmt.Sprintf("line %d of %d (%d lines after each of %d renames of the program file): started by %d VMs, the renamed program and the bystander make 2", i, sent, per, renames, c)
		}
	}
	return true, ""
}

func c20Run(r *runCtx, id string, f []string) {
	if f[0] == "conc" {
		// three programs, every VM slowed a little, the middle one reloaded over and over while
		// lines flow: each line is counted by exactly one version of it (its counter is carried
		// over from version to version)
		n, _ := strconv.Atoi(f[1])
		k, _ := strconv.Atoi(f[2])
		ok, note := c06Conc(n, k, true)
		r.stat("conc")
		r.obs(id, "-")
		if !ok {
			r.replay(id, f...)
			r.fail(id, "line-not-once-per-program", "%s", note)
		} else {
			r.ok(id)
		}
		return
	}
	if f[0] == "rename" {
		k, _ := strconv.Atoi(f[1])
		per, _ := strconv.Atoi(f[2])
		ok, note := c20Rename(k, per)
		r.stat("rename")
		r.obs(id, "-")
		if !ok {
			r.replay(id, f...)
			r.fail(id, "line-started-by-no-version", "%s", note)
		} else {
			r.ok(id)
		}
		return
	}
	dir, err := os.MkdirTemp("", "c20")
	if err != nil {
		panic(err)
	}
	defer os.RemoveAll(dir)
	e := &c20Env{dir: dir, lines: make(chan *logline.LogLine), store: metrics.NewStore(), inst: map[*vm.VM]int{},
		holds: map[string]chan struct{}{}, entered: map[string]chan struct{}{}}
	vm.VerifLineHook = e.hook
	defer func() { vm.VerifLineHook = nil }()
	rt, err := runtime.New(e.lines, &e.wg, dir, e.store)
	if err != nil {
		panic(err)
	}
	e.rt = rt
	e.lineBase = runtime.LineCount.Value()
	var obs []string
	lastSent := ""
	fileThere, loaded := false, false
	_ = fileThere
	ctx := context.Background()
	stuck := false
	for _, op := range strings.Split(f[1], ";") {
		kv := strings.SplitN(op, ":", 2)
		switch kv[0] {
		case "w":
			k, _ := strconv.Atoi(kv[1])
			_ = os.WriteFile(filepath.Join(dir, "p.mtail"), []byte(c20Prog(k)), 0o644)
			fileThere = true
		case "rm":
			_ = os.Remove(filepath.Join(dir, "p.mtail"))
			fileThere = false
		case "load":
			_ = rt.LoadAllPrograms()
			loaded = fileThere
		case "hold":
			e.mu.Lock()
			e.holds[kv[1]] = make(chan struct{})
			e.entered[kv[1]] = make(chan struct{})
			e.mu.Unlock()
		case "rel":
			e.mu.Lock()
			h := e.holds[kv[1]]
			delete(e.holds, kv[1])
			e.mu.Unlock()
			if h != nil {
				close(h)
			}
		case "join":
			// reloads that can finish are awaited; with a line held they cannot, and are left pending
			jd := 20 * time.Second
			if e.anyHeldEntered() {
				jd = 300 * time.Millisecond
			}
			for _, ch := range e.bg {
				select {
				case <-ch:
				case <-time.After(jd):
				}
			}
		case "l", "lq":
			if kv[0] == "lq" {
				// only when no background reload is still pending
				pending := false
				for _, ch := range e.bg {
					select {
					case <-ch:
					default:
						pending = true
					}
				}
				if pending {
					continue
				}
			}
			done := make(chan struct{})
			go func() { e.lines <- logline.New(ctx, "log", kv[1]); close(done) }()
			select {
			case <-done:
				if loaded {
					e.sent++
					lastSent = kv[1]
				}
			case <-time.After(3 * time.Second):
				obs = append(obs, "send-blocked:"+kv[1])
				stuck = true
			}
			if !stuck && !loaded {
				// nothing is loaded, so no VM will report this line: wait until the loader has counted
				// it and finished handing it out before anything else happens (otherwise a program
				// loaded right afterwards may still receive it, which the schedule does not mean)
				e.fanned++
				deadline := time.Now().Add(10 * time.Second)
				for runtime.LineCount.Value()-e.lineBase < int64(e.sent+e.fanned) && time.Now().Before(deadline) {
					time.Sleep(100 * time.Microsecond)
				}
				rt.VerifFanoutBarrier()
				time.Sleep(2 * time.Millisecond)
				rt.VerifFanoutBarrier()
			}
			if !stuck && loaded && !(rt.VerifSwapPending() && e.anyHeldEntered()) {
				// the line has been taken by the loader; before anything else happens it must also have
				// reached the program's VM (otherwise a load issued next could legitimately overtake it).
				// Not waited for only when a reload is pending behind a line the schedule holds, which
				// cannot end before the release; a reload pending behind nothing ends by itself, and
				// the line follows it (under load a later `load` otherwise overtook the line, and the
				// version the released reload had installed never saw a line at all)
				deadline := time.Now().Add(10 * time.Second)
				for time.Now().Before(deadline) {
					e.mu.Lock()
					seenIt := false
					for _, x := range e.log {
						if strings.HasPrefix(x, kv[1]+"@") {
							seenIt = true
						}
					}
					e.mu.Unlock()
					if seenIt || (rt.VerifSwapPending() && e.anyHeldEntered()) {
						break
					}
					time.Sleep(100 * time.Microsecond)
				}
			}
			// when the line is to be held, wait until the VM has actually entered it
			e.mu.Lock()
			ent := e.entered[kv[1]]
			e.mu.Unlock()
			if ent != nil && !stuck {
				select {
				case <-ent:
				case <-time.After(3 * time.Second):
					obs = append(obs, "never-entered:"+kv[1])
				}
			}
		case "reload":
			ch := make(chan struct{})
			e.bg = append(e.bg, ch)
			go func() { _ = rt.LoadAllPrograms(); close(ch) }()
			loaded = fileThere
			// observed when it has either returned or reached the point where it waits for the old
			// VM (no fixed delay: under load a compile alone can take longer than any such delay)
			held := e.anyHeldEntered()
			deadline := time.Now().Add(20 * time.Second)
			for {
				returned := false
				select {
				case <-ch:
					returned = true
				default:
				}
				if returned {
					obs = append(obs, "reload=returned")
					break
				}
				if (held && rt.VerifSwapPending()) || time.Now().After(deadline) {
					obs = append(obs, "reload=blocked")
					break
				}
				time.Sleep(200 * time.Microsecond)
			}
		case "wait":
			k, _ := strconv.Atoi(kv[1])
			deadline := time.Now().Add(300 * time.Millisecond)
			for time.Now().Before(deadline) {
				if n, _ := e.intMetric("n"); int(n) >= k {
					break
				}
				time.Sleep(time.Millisecond)
			}
		case "sync":
			deadline := time.Now().Add(30 * time.Second)
			for time.Now().Before(deadline) {
				if n, _ := e.intMetric("n"); int(n) >= e.sent {
					break
				}
				time.Sleep(time.Millisecond)
			}
		}
		if stuck {
			break
		}
	}
	// release anything still held, let background reloads finish, then settle
	e.mu.Lock()
	for k, h := range e.holds {
		close(h)
		delete(e.holds, k)
	}
	e.mu.Unlock()
	for _, ch := range e.bg {
		select {
		case <-ch:
		case <-time.After(30 * time.Second):
			obs = append(obs, "reload-never-returned")
		}
	}
	deadline := time.Now().Add(30 * time.Second)
	for time.Now().Before(deadline) {
		if n, _ := e.intMetric("n"); int(n) >= e.sent {
			break
		}
		time.Sleep(time.Millisecond)
	}
	time.Sleep(5 * time.Millisecond)
	close(e.lines)
	e.wg.Wait()
	g, _ := e.intMetric("g")
	n, _ := e.intMetric("n")
	e.mu.Lock()
	log := append([]string(nil), e.log...)
	e.mu.Unlock()
	r.obs(id, "log=%s %s g=%d n=%d", strings.Join(log, ","), strings.Join(obs, ","), g, n)
	// the property
	var bad []string
	seen := map[string]int{}
	for _, x := range log {
		seen[strings.SplitN(x, "@", 2)[0]]++
	}
	for l, c := range seen {
		if c != 1 {
			bad = append(bad, fmt.Sprintf("line %s was started by %d VM instances", l, c))
		}
	}
	if len(seen) != e.sent || int(n) != e.sent {
		bad = append(bad, fmt.Sprintf("%d lines were sent, %d distinct lines started, n=%d", e.sent, len(seen), n))
	}
	if lastSent != "" && strconv.FormatInt(g, 10) != lastSent {
		bad = append(bad, fmt.Sprintf("the last line sent was %s but the gauge holds %d: an earlier line's write landed after a later line's", lastSent, g))
	}
	if stuck {
		bad = append(bad, "a line could not be delivered within 3 s")
	}
	if len(bad) > 0 {
		r.fail(id, "reload-reorders", "schedule %s: %s (hook log %v)", f[1], strings.Join(bad, "; "), log)
	} else {
		r.ok(id)
	}
}

func init() {
	props["C20"] = &propImpl{
		gen: func(g *genCtx) {
			g.emit("conc", "400", "60")
			g.emit("conc", "1500", "250")
			g.emit("rename", "1", "2")
			g.emit("rename", "3", "1")
			g.emit("rename", "4", "3")
			g.emit("sched", "w:1;load;l:1;l:2;l:3;sync")
			g.emit("sched", "w:1;load;l:1;sync;w:2;load;l:2;l:3;sync")
			// the old VM is still inside line 2 when the program is reloaded and line 3 arrives
			g.emit("sched", "w:1;load;l:1;sync;hold:2;l:2;w:2;reload;l:3;wait:2;rel:2;sync")
			g.emit("sched", "w:1;load;hold:1;l:1;w:2;reload;rel:1;l:2;sync")
			g.emit("sched", "w:1;load;l:1;sync;hold:2;l:2;w:2;reload;rel:2;l:3;l:4;sync;hold:5;l:5;w:3;reload;l:6;wait:5;rel:5;sync")
			// unload while the VM is inside a line, then add the program again
			g.emit("sched", "w:1;load;l:1;sync;hold:2;l:2;rm;reload;w:2;reload;join;lq:3;wait:2;rel:2;sync")
			g.emit("sched", "w:1;load;l:1;sync;rm;load;l:2;w:2;load;l:3;sync")
			// a reload the store refuses (the new version changes the kind of a metric): the version
			// that was running goes on taking every line
			g.emit("sched", "w:1;load;l:1;l:2;sync;w:100;load;l:3;l:4;sync;w:2;load;l:5;sync")
			g.emit("sched", "w:1;load;l:1;sync;w:100;reload;join;l:2;l:3;sync")
			g.emit("sched", "w:2;load;l:1;sync;w:101;load;load;l:2;sync;w:2;load;l:3;sync;w:3;load;l:4;sync")
			// identical content: no swap
			g.emit("sched", "w:1;load;l:1;hold:2;l:2;reload;rel:2;l:3;sync")
			n := 12
			if g.thorough() {
				n = 150
			}
			for i := 0; i < n; i++ {
				ops := []string{"w:1", "load"}
				ver, line := 1, 0
				held := ""
				steps := 3 + g.r.intn(9)
				for s := 0; s < steps; s++ {
					switch {
					case held != "" && g.r.chance(1, 2):
						ver++
						ops = append(ops, fmt.Sprintf("w:%d", ver), "reload")
						if g.r.chance(1, 2) {
							// a later line arrives while the old VM is still inside the held one
							line++
							ops = append(ops, "l:"+strconv.Itoa(line), fmt.Sprintf("wait:%d", line-1))
						}
						ops = append(ops, "rel:"+held)
						held = ""
					case held != "":
						ops = append(ops, "rel:"+held)
						held = ""
					case g.r.chance(1, 3):
						line++
						held = strconv.Itoa(line)
						ops = append(ops, "hold:"+held, "l:"+held)
					case g.r.chance(1, 4):
						ver++
						ops = append(ops, fmt.Sprintf("w:%d", ver), "load")
					default:
						line++
						ops = append(ops, "l:"+strconv.Itoa(line))
					}
				}
				if held != "" {
					ops = append(ops, "rel:"+held)
				}
				line++
				ops = append(ops, "l:"+strconv.Itoa(line), "sync")
				g.emit("sched", strings.Join(ops, ";"))
			}
		},
		run: c20Run,
	}
}
