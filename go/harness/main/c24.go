//go:build verif

package main

import (
	"fmt"
	"regexp"
	"regexp/syntax"
	"sort"
	"strconv"
	"strings"

	"github.com/google/mtail/internal/runtime/compiler"
	"github.com/google/mtail/internal/runtime/compiler/ast"
	"github.com/google/mtail/internal/runtime/compiler/checker"
	"github.com/google/mtail/internal/runtime/compiler/parser"
)

// C24 — invalid programs are rejected with a positioned error.
//
//   scope <expected class or -> <source hex> <parsed AST> <regexp oracle>
//
// gen: valid programs (corpus, examples, seeded random) and, from each, mutants that introduce one
// defect of a known class at a seeded position.  The AST is the real parser's output before the
// checker runs; the oracle lists, for every pattern text the checker can ask about, whether
// regexp/syntax accepts it and its capture-group names (computed by calling regexp/syntax directly).
// OBS: the scoping/declaration errors the real checker reports (class@line:col, sorted), compared
// with the Lean scope model run on the same AST.
// PRED: a mutant is rejected; at least one error lies inside the source; the expected class is
// among the errors; the real loader does not load it and counts a load error.

var errClassRes = []struct {
	re  *regexp.Regexp
	cls string
}{
	{regexp.MustCompile("^Identifier `.*' not declared"), "undeclared"},
	{regexp.MustCompile("^Capture group `.*' was not defined"), "undefCapref"},
	{regexp.MustCompile("^Decorator `.*' is not defined"), "undefDeco"},
	{regexp.MustCompile("^Decorator `.*' is not completely defined yet"), "decoIncomplete"},
	{regexp.MustCompile("^Can't use `next' outside of a decorator"), "nextOutside"},
	{regexp.MustCompile("^Can't use `next' statement twice"), "nextTwice"},
	{regexp.MustCompile("^No symbols found in decorator"), "decoNoSymbols"},
	{regexp.MustCompile("^Redeclaration of metric"), "redeclMetric"},
	{regexp.MustCompile("^Redeclaration of decorator"), "redeclDeco"},
	{regexp.MustCompile("^Redefinition of pattern constant"), "redeclConst"},
	{regexp.MustCompile("^Redeclaration of capture group"), "redeclCapref"},
	{regexp.MustCompile("^Declaration of variable .* is never used"), "unused:var"},
	{regexp.MustCompile("^Declaration of decorator .* is never used"), "unused:deco"},
	{regexp.MustCompile("^Declaration of named pattern constant .* is never used"), "unused:pattern"},
	{regexp.MustCompile("^Exceeded maximum regular expression pattern length"), "regexTooLong"},
	{regexp.MustCompile("^Expression exceeded maximum recursion depth"), "tooDeep"},
	{regexp.MustCompile("^Can't specify buckets for non-histogram"), "bucketsOnNonHistogram"},
	{regexp.MustCompile("^Can't evaluate pattern fragment"), "constNotYet"},
	{regexp.MustCompile("^Can't append "), "notAConst"},
	{regexp.MustCompile("^error parsing regexp"), "regexInvalid"},
	// classes outside the scope model (reported for the predicate only)
	{regexp.MustCompile("^Can't divide by zero"), "divZero"},
	{regexp.MustCompile("divide by zero|mod by zero"), "divZero"},
	{regexp.MustCompile("^Not enough keys for indexed expression|^Too many keys for indexed expression|^Index taken on unindexable"), "indexArity"},
}

var scopeModelClasses = map[string]bool{
	"undeclared": true, "undefCapref": true, "undefDeco": true, "decoIncomplete": true, "nextOutside": true, "nextTwice": true,
	"decoNoSymbols": true, "redeclMetric": true, "redeclDeco": true, "redeclConst": true, "redeclCapref": true, "unused:var": true,
	"unused:deco": true, "unused:pattern": true, "regexTooLong": true, "tooDeep": true, "bucketsOnNonHistogram": true,
	"constNotYet": true, "notAConst": true, "regexInvalid": true,
}

type cerr struct {
	line, col, endcol int
	msg, cls         string
}

var errLineRe = regexp.MustCompile(`^([^:]*):(-?\d+):(-?\d+)(?:-(\d+))?: (.*)$`)

// splitErrors parses an ErrorList's text: one error per line, continuation lines start with a tab.
func splitErrors(err error) []cerr {
	if err == nil {
		return nil
	}
	var out []cerr
	for _, ln := range strings.Split(err.Error(), "\n") {
		m := errLineRe.FindStringSubmatch(ln)
		if m == nil {
			continue
		}
		l, _ := strconv.Atoi(m[2])
		c, _ := strconv.Atoi(m[3])
		e := c
		if m[4] != "" {
			e, _ = strconv.Atoi(m[4])
		}
		ce := cerr{line: l - 1, col: c - 1, endcol: e - 1, msg: m[5], cls: "other"}
		for _, x := range errClassRes {
			if x.re.MatchString(m[5]) {
				ce.cls = x.cls
				break
			}
		}
		out = append(out, ce)
	}
	return out
}

// patternTexts collects every pattern text the checker may hand to checkRegex: after the real
// checker has run, the evaluated Pattern fields; plus literal operands of =~.
type patCollector struct{ pats map[string]bool }

func (p *patCollector) VisitBefore(n ast.Node) (ast.Visitor, ast.Node) {
	switch v := n.(type) {
	case *ast.PatternExpr:
		p.pats[v.Pattern] = true
	case *ast.PatternFragment:
		p.pats[v.Pattern] = true
	case *ast.PatternLit:
		p.pats[v.Pattern] = true
	case *ast.StringLit:
		p.pats[v.Text] = true
	case *ast.DelStmt:
		ast.Walk(p, v.N)
	}
	return p, n
}
func (p *patCollector) VisitAfter(n ast.Node) ast.Node { return n }

func regexOracle(pats map[string]bool) string {
	keys := make([]string, 0, len(pats))
	for k := range pats {
		keys = append(keys, k)
	}
	sort.Strings(keys)
	var out []string
	for _, k := range keys {
		re, err := syntax.Parse(k, syntax.Perl)
		if err != nil {
			out = append(out, hx(k)+"=e")
			continue
		}
		re = re.Simplify()
		out = append(out, hx(k)+"="+hxs(re.CapNames()))
	}
	if len(out) == 0 {
		return "."
	}
	return strings.Join(out, ";")
}

// every concatenation of pattern texts the evaluator can produce is a concatenation of literal
// pieces; close the set under pairwise concatenation of pieces that occur in the program, bounded
func closePatterns(p map[string]bool) {
	base := make([]string, 0, len(p))
	for k := range p {
		base = append(base, k)
	}
	if len(base) > 12 {
		return
	}
	for _, a := range base {
		for _, b := range base {
			if len(a)+len(b) < 3000 {
				p[a+b] = true
			}
			for _, c := range base {
				if len(base) <= 6 && len(a)+len(b)+len(c) < 3000 {
					p[a+b+c] = true
				}
			}
		}
	}
}

func c24Case(expect, src string) []string {
	root, err := parser.Parse("p.mtail", strings.NewReader(src))
	if err != nil || root == nil {
		return []string{"scope", expect, hx(src), "PARSE-ERROR", ".", "T0"}
	}
	pre := dumpAST(root, false)
	pc := &patCollector{pats: map[string]bool{}}
	ast.Walk(pc, root)
	// run the checker on a second parse to learn the evaluated patterns
	if root2, err2 := parser.Parse("p.mtail", strings.NewReader(src)); err2 == nil && root2 != nil {
		func() {
			defer func() { _ = recover() }()
			chk, _ := checker.Check(root2, 0, 0)
			if chk != nil {
				ast.Walk(pc, chk)
			}
		}()
	}
	delete(pc.pats, "")
	closePatterns(pc.pats)
	// programs with type errors are outside the scope model (the checker leaves some of its
	// bookkeeping undone when unification fails): flagged here, skipped by both sides
	flag := "T0"
	if root3, err3 := parser.Parse("p.mtail", strings.NewReader(src)); err3 == nil && root3 != nil {
		func() {
			defer func() { _ = recover() }()
			_, cerr := checker.Check(root3, 0, 0)
			for _, e := range splitErrors(cerr) {
				if e.cls == "other" || e.cls == "indexArity" || e.cls == "divZero" {
					flag = "T1"
				}
			}
		}()
	}
	return []string{"scope", expect, hx(src), pre, regexOracle(pc.pats), flag}
}

func c24Run(r *runCtx, id string, f []string) {
	expect := f[1]
	src := unhx(f[2])
	nLines := strings.Count(src, "\n") + 1
	lines := strings.Split(src, "\n")
	if f[3] == "PARSE-ERROR" {
		// the parser rejects it: positions of parse errors are checked, the scope model does not apply
		_, err := parser.Parse("p.mtail", strings.NewReader(src))
		r.obs(id, "parse-error")
		errs := splitErrors(err)
		inside := false
		for _, e := range errs {
			if e.line >= 0 && e.line < nLines {
				inside = true
			}
		}
		if expect != "-" && (err == nil || !inside) {
			r.fail(id, "mutant-accepted", "mutant with defect %s: the parser error has no position inside the source: %v; program %q", expect, err, src)
		} else {
			r.ok(id)
		}
		r.stat("parse_error")
		return
	}
	root, perr := parser.Parse("p.mtail", strings.NewReader(src))
	if perr != nil {
		r.obs(id, "parse-error-now")
		r.fail(id, "parse-nondeterministic", "the source parsed when the case was generated and does not parse now: %v", perr)
		return
	}
	var cerrs []cerr
	var cerrRaw error
	func() {
		defer func() {
			if e := recover(); e != nil {
				cerrRaw = fmt.Errorf("p.mtail:0:0: PANIC %v", e)
			}
		}()
		_, cerrRaw = checker.Check(root, 0, 0)
	}()
	cerrs = splitErrors(cerrRaw)
	var obs []string
	for _, e := range cerrs {
		if scopeModelClasses[e.cls] {
			obs = append(obs, fmt.Sprintf("%s@%d:%d", e.cls, e.line, e.col))
		}
		r.stat("err_" + e.cls)
	}
	sort.Strings(obs)
	if len(f) > 5 && f[5] == "T1" {
		r.obs(id, "type-errors")
	} else {
		r.obs(id, "%s", strings.Join(obs, ","))
	}
	// the property, through the whole compiler
	c, _ := compiler.New()
	obj, err := c.Compile("p.mtail", strings.NewReader(src))
	all := splitErrors(err)
	if expect == "-" {
		r.ok(id)
		if err == nil {
			r.stat("valid_accepted")
		} else {
			r.stat("base_rejected")
		}
		return
	}
	r.stat("mutant_" + expect)
	var bad []string
	colBad := false
	if err == nil || obj != nil {
		bad = append(bad, "the compiler accepted it")
	} else {
		inside, hasClass, colOK := false, false, false
		for _, e := range all {
			if e.line >= 0 && e.line < nLines {
				inside = true
				if e.col >= 0 && e.col <= len(lines[e.line]) {
					colOK = true
				}
			}
			if e.cls == expect {
				hasClass = true
			}
		}
		if !inside {
			bad = append(bad, fmt.Sprintf("no error has a position inside the source: %v", err))
		}
		if inside && !colOK {
			colBad = true
		}
		if !hasClass {
			bad = append(bad, fmt.Sprintf("no error of class %s among: %s", expect, strings.ReplaceAll(err.Error(), "\n", " | ")))
		}
	}
	// never loaded
	if env, eerr := newRtEnv(); eerr == nil {
		before := expvarMapInt("prog_load_errors_total", "mut.mtail")
		lerr := env.rt.CompileAndRun("mut.mtail", strings.NewReader(src))
		after := expvarMapInt("prog_load_errors_total", "mut.mtail")
		if _, loaded := env.rt.VerifHandles()["mut.mtail"]; loaded || lerr == nil {
			bad = append(bad, "the loader loaded it")
		} else if after != before+1 {
			bad = append(bad, fmt.Sprintf("prog_load_errors_total moved by %d", after-before))
		}
		env.close()
	}
	if colBad {
		r.fail(id, "column-outside-line", "every error of this rejected program points at a column beyond the end of its line: %s; program %q", strings.ReplaceAll(err.Error(), "\n", " | "), src)
	}
	if len(bad) > 0 {
		r.fail(id, "mutant-accepted", "program with a defect of class %s: %s; program %q", expect, strings.Join(bad, "; "), src)
	} else if !colBad {
		r.ok(id)
	}
}

// ---------- mutations ----------

var declRe = regexp.MustCompile(`(?m)^(?:hidden )?(counter|gauge|timer|text|histogram) ([A-Za-z_][A-Za-z0-9_]*)(.*)$`)

type declInfo struct {
	kind, name, rest string
}

func findDecls(src string) []declInfo {
	var out []declInfo
	for _, m := range declRe.FindAllStringSubmatch(src, -1) {
		out = append(out, declInfo{m[1], m[2], m[3]})
	}
	return out
}

// insertion points: after any line that ends with "{" (inside that block), or at the very end
func insertAt(rg *rng, src, stmt string) string {
	lines := strings.Split(strings.TrimRight(src, "\n"), "\n")
	var spots []int
	for i, l := range lines {
		if strings.HasSuffix(strings.TrimSpace(l), "{") {
			spots = append(spots, i+1)
		}
	}
	spots = append(spots, len(lines))
	at := spots[rg.intn(len(spots))]
	out := append([]string{}, lines[:at]...)
	out = append(out, stmt)
	out = append(out, lines[at:]...)
	return strings.Join(out, "\n") + "\n"
}

type tokUse struct {
	capref           bool
	name             string
	line, start, end int
}

type useCollector struct{ uses []tokUse }

func (u *useCollector) VisitBefore(n ast.Node) (ast.Visitor, ast.Node) {
	switch v := n.(type) {
	case *ast.CaprefTerm:
		u.uses = append(u.uses, tokUse{true, v.Name, v.P.Line, v.P.Startcol, v.P.Endcol})
	case *ast.IDTerm:
		u.uses = append(u.uses, tokUse{false, v.Name, v.P.Line, v.P.Startcol, v.P.Endcol})
	case *ast.DelStmt:
		ast.Walk(u, v.N)
	case *ast.PatternFragment:
		return nil, n // the constant's own name is a declaration, not a use
	}
	return u, n
}
func (u *useCollector) VisitAfter(n ast.Node) ast.Node { return n }

// usesOf returns the identifier and capture-group uses whose recorded position spells them.
func usesOf(src string) []tokUse {
	root, err := parser.Parse("p.mtail", strings.NewReader(src))
	if err != nil || root == nil {
		return nil
	}
	u := &useCollector{}
	ast.Walk(u, root)
	lines := strings.Split(src, "\n")
	var out []tokUse
	for _, t := range u.uses {
		want := t.name
		if t.capref {
			want = "$" + t.name
		}
		if t.line >= 0 && t.line < len(lines) && t.start >= 0 && t.start <= t.end+1 && t.end+1 <= len(lines[t.line]) && lines[t.line][t.start:t.end+1] == want {
			out = append(out, t)
		}
	}
	return out
}

func replaceUse(src string, t tokUse, with string) string {
	lines := strings.Split(src, "\n")
	l := lines[t.line]
	lines[t.line] = l[:t.start] + with + l[t.end+1:]
	return strings.Join(lines, "\n")
}

func lineOf(src string, at int) string {
	a := strings.LastIndex(src[:at], "\n") + 1
	b := strings.Index(src[at:], "\n")
	if b < 0 {
		return src[a:]
	}
	return src[a : at+b]
}

func mutate(rg *rng, src string) (string, string) {
	decls := findDecls(src)
	bodyStart := 0
	if loc := declRe.FindAllStringIndex(src, -1); len(loc) > 0 {
		bodyStart = loc[len(loc)-1][1]
	}
	for tries := 0; tries < 20; tries++ {
		switch rg.intn(11) {
		case 0: // undeclared metric: rename one use
			var c []tokUse
			for _, t := range usesOf(src) {
				if !t.capref {
					c = append(c, t)
				}
			}
			if len(c) > 0 {
				return replaceUse(src, c[rg.intn(len(c))], "zz_undeclared"), "undeclared"
			}
		case 1: // capture group that no visible pattern defines
			var c []tokUse
			for _, t := range usesOf(src) {
				if t.capref {
					c = append(c, t)
				}
			}
			if len(c) > 0 {
				return replaceUse(src, c[rg.intn(len(c))], rg.pick([]string{"$99", "$nosuchgroup"})), "undefCapref"
			}
		case 2:
			return insertAt(rg, src, "@nosuchdeco {\n/zz/ {\n}\n}"), "undefDeco"
		case 3:
			if !strings.Contains(src, "def ") {
				return insertAt(rg, src, "next"), "nextOutside"
			}
		case 4: // wrong number of index keys
			for _, d := range decls {
				if strings.Contains(d.rest, " by ") {
					re := regexp.MustCompile(`\b` + d.name + `\[`)
					if l := re.FindStringIndex(src[bodyStart:]); l != nil {
						return src[:bodyStart+l[1]] + `"extra"][` + src[bodyStart+l[1]:], "indexArity"
					}
				} else if d.kind != "histogram" {
					re := regexp.MustCompile(`\b` + d.name + `\b( *)(\+\+|--|=|\+=)`)
					if l := re.FindStringSubmatchIndex(src[bodyStart:]); l != nil {
						return src[:bodyStart+l[2]] + `["k"]` + src[bodyStart+l[2]:], "indexArity"
					}
				}
			}
		case 5: // redeclared name
			if len(decls) > 0 {
				d := decls[rg.intn(len(decls))]
				// the same name declared first as a metric, as a pattern constant or as a decorator:
				// one name space, whatever the kind
				switch rg.intn(3) {
				case 0:
					return d.kind + " " + d.name + d.rest + "\n" + src, "redeclMetric"
				case 1:
					return "const " + d.name + " /zz/\n" + src, "redeclMetric"
				default:
					return "def " + d.name + " {\n  /zz/ {\n    next\n  }\n}\n" + src, "redeclMetric"
				}
			}
		case 6: // unused declaration
			return insertAt(rg, src, rg.pick([]string{"counter zz_unused", "gauge zz_unused by k", "text zz_unused", "const ZZ_UNUSED /zz/", "hidden counter zz_unused", "hidden gauge zz_unused by k", "hidden text zz_unused", "hidden histogram zz_unused buckets 1, 2", "timer zz_unused"})), rg.pick([]string{"unused"})
		case 7:
			return insertAt(rg, src, rg.pick([]string{"/(/ {\n}", "/[a-/ {\n}", "/a{2,1}/ {\n}", "/x**/ {\n}"})), "regexInvalid"
		case 8:
			// the limit is in bytes: over-long patterns of one-byte, two-byte and three-byte characters
			// ... and patterns that are over the limit only as a whole: concatenations of literals, of
			// constants, of strings on the right of a match operator
			a6, b6 := strings.Repeat("a", 600), strings.Repeat("b", 600)
			return insertAt(rg, src, rg.pick([]string{
				"/" + strings.Repeat("a", 1025) + "/ {\n}",
				"/" + strings.Repeat("é", 600) + "/ {\n}",
				"/" + strings.Repeat("日", 400) + "/ {\n}",
				"/" + strings.Repeat("a", 1000) + strings.Repeat("ü", 13) + "/ {\n}",
				"/" + a6 + "/ + /" + b6 + "/ {\n}",
				"const ZZA /" + a6 + "/\n/^x/ + ZZA + /" + b6 + "/ {\n}",
				"/^(?P<zzw>\\S+)/ {\n  $zzw =~ \"" + a6 + "\" + \"" + b6 + "\" {\n  }\n}",
			})), "regexTooLong"
		case 9, 10: // integer division or modulus by the literal zero
			for _, d := range decls {
				if (d.kind == "counter" || d.kind == "gauge") && !strings.Contains(d.rest, " by ") {
					// only a metric that is used as an integer elsewhere is certainly an int
					if regexp.MustCompile(`\b` + d.name + `(\+\+|--)`).MatchString(src) {
						return insertAt(rg, src, d.name+" = "+d.name+" "+rg.pick([]string{"/", "%"})+" 0"), "divZero"
					}
				}
			}
		}
	}
	return "", ""
}

func init() {
	props["C24"] = &propImpl{
		gen: func(g *genCtx) {
			var bases []string
			bases = append(bases, vmHandPrograms...)
			for _, c := range vmExampleCases(0) {
				bases = append(bases, c.src)
			}
			bases = append(bases, c24Bases...)
			nRandom, nMut := 120, 3
			if g.thorough() {
				nRandom, nMut = 2500, 6
			}
			for i := 0; i < nRandom; i++ {
				bases = append(bases, genProgram(g.r))
			}
			// the recorded finding: the first token after a comment line carries a stale start column
			g.emit(c24Case("nextOutside", "# a comment line\nnext\n")...)
			g.emit(c24Case("undeclared", "counter a\n/x/ {\n  a++\n  # note\n  zz++\n}\n")...)
			// the capture groups of subst()'s pattern are nobody's, also when the pattern is a constant
			g.emit(c24Case("undefCapref", "const NUM /(\\d+)\\.(\\d+)/\ntext t\ncounter c by k\n/^(\\S+)/ {\n  t = subst(NUM, \"x\", $1)\n  c[$2]++\n}\n")...)
			g.emit(c24Case("undefCapref", "const NUM /(?P<n>\\d+)/\ntext t\ncounter c by k\n/^\\S+/ {\n  t = subst(NUM, \"x\", \"a1\")\n  /x/ {\n    c[$n]++\n  }\n}\n")...)
			g.emit(c24Case("undefCapref", "text t\ncounter c by k\n/^\\S+/ {\n  t = subst(/(\\d+)/, \"x\", \"a1\")\n  c[$1]++\n}\n")...)
			g.emit(c24Case("-", "const NUM /(\\d+)/\ntext t\ncounter c by k\n/^(\\S+)/ {\n  t = subst(NUM, \"x\", $1)\n  c[$1]++\n}\n")...)
			// over the length limit only as a whole
			{
				a6, b6 := strings.Repeat("a", 600), strings.Repeat("b", 600)
				g.emit(c24Case("regexTooLong", "counter a\n/"+a6+"/ + /"+b6+"/ {\n  a++\n}\n")...)
				g.emit(c24Case("regexTooLong", "counter a\nconst P /"+a6+"/\n/^x/ + P + /"+b6+"/ {\n  a++\n}\n")...)
				g.emit(c24Case("regexTooLong", "counter a\n/^(?P<w>\\S+)/ {\n  $w =~ \""+a6+"\" + \""+b6+"\" {\n    a++\n  }\n}\n")...)
				// a pattern constant over the limit is reported where it is defined
				g.emit(c24Case("regexTooLong", "counter a\nconst L /"+strings.Repeat("a", 1025)+"/\nL {\n  a++\n}\n")...)
				g.emit(c24Case("regexTooLong", "counter a\nconst P /"+a6+"/\nconst Q // + P + P\n/x/ + Q {\n  a++\n}\n")...)
				g.emit(c24Case("-", "counter a\n/"+strings.Repeat("a", 500)+"/ + /"+strings.Repeat("b", 500)+"/ {\n  a++\n}\n")...)
			}
			c, _ := compiler.New()
			for _, b := range bases {
				g.emit(c24Case("-", b)...)
				if _, err := c.Compile("b.mtail", strings.NewReader(b)); err != nil {
					continue // only valid programs are mutated
				}
				// a declaration nobody uses, placed in the very scope a decorator hands over with `next'
				// (just before it and just after it): it is unused there as anywhere else
				if ls := strings.Split(b, "\n"); true {
					for i, l := range ls {
						if strings.TrimSpace(l) == "next" {
							ind := l[:len(l)-len(strings.TrimLeft(l, " \t"))]
							for _, at := range []int{i, i + 1} {
								for _, decl := range []string{"counter zz_unused", "hidden gauge zz_unused"} {
									var m []string
									m = append(m, ls[:at]...)
									m = append(m, ind+decl)
									m = append(m, ls[at:]...)
									g.emit(c24Case("unused:var", strings.Join(m, "\n"))...)
								}
							}
							break
						}
					}
				}
				// a hidden metric nobody uses is unused like any other
				g.emit(c24Case("unused:var", "hidden counter zz_unused\n"+b)...)
				for k := 0; k < nMut; k++ {
					m, cls := mutate(g.r, b)
					if m == "" {
						continue
					}
					if cls == "unused" {
						if strings.Contains(m, "ZZ_UNUSED") {
							cls = "unused:pattern"
						} else {
							cls = "unused:var"
						}
					}
					g.emit(c24Case(cls, m)...)
				}
			}
		},
		run: c24Run,
	}
}

// programs that exercise the scope rules themselves (decorators, constants, shadowing, else scope)
var c24Bases = []string{
	"counter a\ncounter b\ndef d {\n  /^(\\w+)/ {\n    a++\n    next\n  }\n}\n@d {\n  $1 == \"foo\" {\n    b++\n  }\n}\n",
	"counter a by k\ndef d {\n  /^(?P<w>\\w+) / {\n    next\n  }\n}\n@d {\n  /(\\d+)$/ {\n    a[$w] += $1\n  }\n}\n",
	"counter a\ndef d {\n  /x/ {\n    next\n  }\n}\n@d {\n  a++\n}\n@d {\n  a++\n}\n",
	"counter a\ndef outer {\n  /^o/ {\n    next\n  }\n}\ndef inner {\n  /i$/ {\n    next\n  }\n}\n@outer {\n  @inner {\n    a++\n  }\n}\n",
	"counter a\nconst P /(\\d+)/\nconst Q /x/ + P\nQ {\n  a += $1\n}\n",
	"counter a\nconst P /(?P<n>\\d+)/\n/^/ + P + /$/ {\n  a += $n\n}\n",
	"counter a\ncounter b\n/^(\\w+) (\\w+)$/ {\n  /(\\d)/ {\n    a++\n  }\n  $2 == \"x\" {\n    b++\n  }\n} else {\n  b++\n}\n",
	"counter a by k\n/^(\\w+)/ {\n  a[$1]++\n} else {\n  /^(\\d+)/ {\n    a[$1]++\n  }\n}\n",
	"counter a\ntext t\n/^(\\S+) (\\S+)/ {\n  $1 =~ /^f/ {\n    a++\n  }\n  $2 =~ \"ba+r\" {\n    t = $2\n  }\n}\n",
	"counter a\n/x/ {\n  counter inner\n  inner++\n  a++\n}\n",
	"counter a\ndef d {\n  counter seen\n  /x/ {\n    seen++\n    next\n  }\n}\n@d {\n  a++\n}\n",
	"counter a\ndef d {\n  a++\n}\n@d {\n  a++\n}\n",
	"counter a\ndef d {\n  /x/ {\n    next\n    next\n  }\n}\n@d {\n  a++\n}\n",
	"counter a\ndef d {\n  /x/ {\n    @d {\n    }\n    next\n  }\n}\n@d {\n  a++\n}\n",
	"counter a\ncounter a\n/x/ {\n  a++\n}\n",
	"counter a\ngauge a\n/x/ {\n  a++\n}\n",
	"counter a\nconst a /x/\na {\n}\n",
	"counter a\n/(?P<a>x)/ {\n  a++\n}\n",
	"counter a buckets 1, 2\n/x/ {\n  a++\n}\n",
	"counter a\ntext s\n/(.*)/ {\n  s = subst(/(\\d+)/, \"n\", $1)\n  a++\n}\n",
	"counter a\n/(x)/ {\n  /(y)/ {\n    a += len($1)\n  }\n}\n",
}
