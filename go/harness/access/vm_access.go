//go:build verif

package vm

import (
	"reflect"
	"unsafe"
)

// Accessors for the verification harness.

// VerifMemoLen is the number of entries in the VM's own strptime memo, or -1 when the VM has no
// field of that name (the lookup is by reflection, so that a tree that keeps its memo elsewhere
// still builds and runs under the harness).
func (v *VM) VerifMemoLen() int {
	f := reflect.ValueOf(v).Elem().FieldByName("timeMemos")
	if !f.IsValid() || !f.CanAddr() {
		return -1
	}
	f = reflect.NewAt(f.Type(), unsafe.Pointer(f.UnsafeAddr())).Elem()
	m := f.MethodByName("Len")
	if !m.IsValid() || m.Type().NumIn() != 0 || m.Type().NumOut() != 1 || (f.Kind() == reflect.Ptr && f.IsNil()) {
		return -1
	}
	out := m.Call(nil)
	if out[0].Kind() != reflect.Int {
		return -1
	}
	return int(out[0].Int())
}
