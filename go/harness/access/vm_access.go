//go:build verif

package vm

// Accessors for the verification harness.

// VerifClearRuntimeError forgets the last runtime error so that a new one can be told apart.
func (v *VM) VerifClearRuntimeError() {
	v.runtimeErrorMu.Lock()
	v.runtimeError = ""
	v.runtimeErrorMu.Unlock()
}

// VerifMemoLen is the number of entries in the strptime memo.
func (v *VM) VerifMemoLen() int { return v.timeMemos.Len() }
