//go:build verif

package vm

// Accessors for the verification harness.

// VerifMemoLen is the number of entries in the strptime memo.
func (v *VM) VerifMemoLen() int { return v.timeMemos.Len() }
