//go:build verif

package runtime

import (
	"crypto/sha256"
	"encoding/hex"
	"reflect"

	"github.com/google/mtail/internal/metrics"
)

var _ = sha256.New

// Accessors for the verification harness.

func (r *Runtime) VerifHandles() map[string]string {
	r.handleMu.RLock()
	defer r.handleMu.RUnlock()
	out := map[string]string{}
	for n, h := range r.handles {
		// read the handle's content hash by reflection so that the harness still builds when
		// the field is renamed or moved
		out[n] = ""
		f := reflect.ValueOf(h).Elem().FieldByName("contentHash")
		if f.IsValid() && f.Kind() == reflect.Slice {
			out[n] = hex.EncodeToString(f.Bytes())
		}
	}
	return out
}

func (r *Runtime) VerifVMMetrics(name string) []*metrics.Metric {
	r.handleMu.RLock()
	defer r.handleMu.RUnlock()
	if h, ok := r.handles[name]; ok {
		return h.vm.Metrics
	}
	return nil
}

func (r *Runtime) VerifRuntimeError(name string) string {
	r.handleMu.RLock()
	defer r.handleMu.RUnlock()
	if h, ok := r.handles[name]; ok {
		return h.vm.RuntimeErrorString()
	}
	return ""
}

// VerifSwapPending reports whether a load is at (or waiting for) the exclusive section in which a
// program's VM is replaced: the handle lock cannot be read-locked right now.
func (r *Runtime) VerifSwapPending() bool {
	if r.handleMu.TryRLock() {
		r.handleMu.RUnlock()
		return false
	}
	return true
}

// VerifFanoutBarrier returns once no line is being handed to the programs' VMs.
func (r *Runtime) VerifFanoutBarrier() {
	r.handleMu.Lock()
	r.handleMu.Unlock() //nolint:staticcheck
}
