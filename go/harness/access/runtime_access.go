//go:build verif

package runtime

import (
	"encoding/hex"

	"github.com/google/mtail/internal/metrics"
)

// Accessors for the verification harness.

func (r *Runtime) VerifHandles() map[string]string {
	r.handleMu.RLock()
	defer r.handleMu.RUnlock()
	out := map[string]string{}
	for n, h := range r.handles {
		out[n] = hex.EncodeToString(h.contentHash)
	}
	return out
}

func (r *Runtime) VerifVMMetrics(name string) []*metrics.Metric {
	r.handleMu.RLock()
	defer r.handleMu.RUnlock()
	if h, ok := r.handles[name]; ok {
		return h.vm.Metrics
	}
	return nil
}

func (r *Runtime) VerifRuntimeError(name string) string {
	r.handleMu.RLock()
	defer r.handleMu.RUnlock()
	if h, ok := r.handles[name]; ok {
		return h.vm.RuntimeErrorString()
	}
	return ""
}
