//go:build verif

package metrics

// Accessors for the verification harness (mapped into this package by go build -overlay;
// never present in the tree).

func VerifBuildLabelValueKey(labels []string) string { return buildLabelValueKey(labels) }

func (m *Metric) VerifIndex() map[string]*LabelValue { return m.labelValuesMap }

// VerifResetData drops every label value of the metric (slice and index).
func (m *Metric) VerifResetData() {
	m.Lock()
	defer m.Unlock()
	m.LabelValues = make([]*LabelValue, 0)
	m.labelValuesMap = make(map[string]*LabelValue)
}
