//go:build verif

package metrics

// Accessors for the verification harness (mapped into this package by go build -overlay;
// never present in the tree).

func VerifBuildLabelValueKey(labels []string) string { return buildLabelValueKey(labels) }

func (m *Metric) VerifIndex() map[string]*LabelValue { return m.labelValuesMap }
