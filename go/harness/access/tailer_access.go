//go:build verif

package tailer

// Accessors for the verification harness.

func (t *Tailer) VerifStreamPaths() []string {
	t.logstreamsMu.RLock()
	defer t.logstreamsMu.RUnlock()
	out := make([]string, 0, len(t.logstreams))
	for p := range t.logstreams {
		out = append(out, p)
	}
	return out
}
