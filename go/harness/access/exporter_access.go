//go:build verif

package exporter

import (
	"io"
	"time"

	"github.com/google/mtail/internal/metrics"
)

// Accessors for the verification harness.

type VerifFormatter = func(string, *metrics.Metric, *metrics.LabelSet, time.Duration) string

func (e *Exporter) VerifWriteSocketMetrics(w io.Writer, which string) error {
	var f formatter
	switch which {
	case "graphite":
		f = metricToGraphite
	case "statsd":
		f = metricToStatsd
	default:
		f = metricToCollectd
	}
	return e.writeSocketMetrics(w, f, graphiteExportTotal, graphiteExportSuccess)
}

func VerifMetricToGraphite(h string, m *metrics.Metric, l *metrics.LabelSet, d time.Duration) string {
	return metricToGraphite(h, m, l, d)
}
func VerifMetricToStatsd(h string, m *metrics.Metric, l *metrics.LabelSet, d time.Duration) string {
	return metricToStatsd(h, m, l, d)
}
func VerifMetricToCollectd(h string, m *metrics.Metric, l *metrics.LabelSet, d time.Duration) string {
	return metricToCollectd(h, m, l, d)
}
func VerifMetricToVarz(m *metrics.Metric, l *metrics.LabelSet, omitProg bool, host string) string {
	return metricToVarz(m, l, omitProg, host)
}
func VerifSetPrefixes(graphite, statsd, collectd string) {
	*graphitePrefix, *statsdPrefix, *collectdPrefix = graphite, statsd, collectd
}
