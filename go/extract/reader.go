package main

import (
	"fmt"
	"go/ast"
	"go/token"
	"strconv"
	"strings"
)

func charLit(e ast.Expr) (int, bool) {
	bl, ok := e.(*ast.BasicLit)
	if !ok || bl.Kind != token.CHAR {
		return 0, false
	}
	r, _, _, err := strconv.UnquoteChar(bl.Value[1:len(bl.Value)-1], '\'')
	if err != nil {
		return 0, false
	}
	return int(r), true
}

func intLit(e ast.Expr) (int, bool) {
	bl, ok := e.(*ast.BasicLit)
	if !ok || bl.Kind != token.INT {
		return 0, false
	}
	n, err := strconv.Atoi(bl.Value)
	return n, err == nil
}

// leanNat translates an integer expression over len(lr.buf), cap(lr.buf), lr.size and literals
// (+, -, *, parentheses) into a Lean expression over the naturals `len`, `cap`, `size`; "" when
// the expression has another shape.  Go's `-` on ints becomes Lean's truncated subtraction: the
// only difference the model takes, cap(lr.buf)-len(lr.buf), is never negative.
func leanNat(f *file, e ast.Expr) string {
	switch x := e.(type) {
	case *ast.ParenExpr:
		if in := leanNat(f, x.X); in != "" {
			return "(" + in + ")"
		}
	case *ast.BasicLit:
		if _, ok := intLit(x); ok {
			return x.Value
		}
	case *ast.SelectorExpr:
		if f.src(x) == "lr.size" {
			return "size"
		}
	case *ast.CallExpr:
		switch f.src(x) {
		case "len(lr.buf)":
			return "len"
		case "cap(lr.buf)":
			return "cap"
		}
	case *ast.BinaryExpr:
		l, r := leanNat(f, x.X), leanNat(f, x.Y)
		if l == "" || r == "" {
			return ""
		}
		switch x.Op {
		case token.ADD, token.SUB, token.MUL:
			return "(" + l + " " + x.Op.String() + " " + r + ")"
		}
	}
	return ""
}

// leanCmp translates a comparison of two such expressions into a Lean Bool.
func leanCmp(f *file, e ast.Expr) string {
	if b, ok := e.(*ast.BinaryExpr); ok {
		l, r := leanNat(f, b.X), leanNat(f, b.Y)
		op := map[token.Token]string{token.LSS: "<", token.LEQ: "≤", token.GTR: ">", token.GEQ: "≥", token.EQL: "=="}[b.Op]
		if l != "" && r != "" && op != "" {
			return "decide (" + l + " " + op + " " + r + ")"
		}
	}
	return ""
}

// LineReader.send / Finish: delimiter, the CR test, the skip widths.
func init() {
	register("Reader", func() {
		f := parse("internal/tailer/logstream/reader.go")
		send := f.funcDecl("LineReader", "send")
		fin := f.funcDecl("LineReader", "Finish")
		delim, crByte, skipPlain, skipCR, endDec := -1, -1, -1, -1, 0
		crCond := "?"
		finishSkips := false
		if send == nil || fin == nil {
			shapeErr("Reader", "LineReader.send or Finish not found")
		} else {
			ast.Inspect(send.Body, func(n ast.Node) bool {
				switch x := n.(type) {
				case *ast.CallExpr:
					if isSel(x.Fun, "bytes", "IndexByte") && len(x.Args) == 2 {
						if c, ok := charLit(x.Args[1]); ok {
							delim = c
						}
					}
				case *ast.AssignStmt:
					if len(x.Lhs) == 1 && len(x.Rhs) == 1 {
						if id, ok := x.Lhs[0].(*ast.Ident); ok && id.Name == "skip" && x.Tok == token.DEFINE {
							if v, ok := intLit(x.Rhs[0]); ok {
								skipPlain = v
							}
						}
					}
				case *ast.IfStmt:
					// the CR test: the condition mentioning a char literal
					var lit *ast.BasicLit
					ast.Inspect(x.Cond, func(m ast.Node) bool {
						if bl, ok := m.(*ast.BasicLit); ok && bl.Kind == token.CHAR {
							lit = bl
						}
						return true
					})
					if lit != nil {
						c, _ := charLit(lit)
						crByte = c
						crCond = strings.ReplaceAll(f.src(x.Cond), lit.Value, "crByte")
						for _, st := range x.Body.List {
							switch s := st.(type) {
							case *ast.IncDecStmt:
								if id, ok := s.X.(*ast.Ident); ok && id.Name == "end" && s.Tok == token.DEC {
									endDec++
								}
							case *ast.AssignStmt:
								if len(s.Lhs) == 1 && len(s.Rhs) == 1 {
									id, ok := s.Lhs[0].(*ast.Ident)
									if ok && id.Name == "skip" && s.Tok == token.ASSIGN {
										if v, ok := intLit(s.Rhs[0]); ok {
											skipCR = v
										}
									} else if ok && id.Name == "end" {
										shapeErr("Reader", "unexpected assignment to end in CR branch: %s", f.src(s))
									}
								}
							}
						}
						if x.Else != nil {
							shapeErr("Reader", "CR test has an else branch")
						}
					}
				}
				return true
			})
			// Finish: `if len(line) == 0 { return }`
			ast.Inspect(fin.Body, func(n ast.Node) bool {
				if is, ok := n.(*ast.IfStmt); ok {
					c := f.src(is.Cond)
					if c == "len(line) == 0" && len(is.Body.List) == 1 {
						if _, ok := is.Body.List[0].(*ast.ReturnStmt); ok {
							finishSkips = true
						}
					}
				}
				return true
			})
			if delim < 0 || crByte < 0 || skipPlain < 0 || skipCR < 0 {
				shapeErr("Reader", "send: delim=%d cr=%d skipPlain=%d skipCR=%d not all found", delim, crByte, skipPlain, skipCR)
				delim, crByte, skipPlain, skipCR = 0, 0, 0, 0
			}
		}
		// ReadAndSend's buffer management: when the buffer is regrown and to which capacity, what is
		// offered to Read, and how consumed bytes are dropped
		needGrow, growCap := "", ""
		readOffer, dropConsumed, newCap := "?", "?", "?"
		if ras := f.funcDecl("LineReader", "ReadAndSend"); ras == nil {
			shapeErr("Reader", "LineReader.ReadAndSend not found")
		} else {
			if len(ras.Body.List) > 0 {
				if is, ok := ras.Body.List[0].(*ast.IfStmt); ok && len(is.Body.List) == 1 && is.Else == nil {
					needGrow = leanCmp(f, is.Cond)
					if as, ok := is.Body.List[0].(*ast.AssignStmt); ok && len(as.Lhs) == 1 && f.src(as.Lhs[0]) == "lr.buf" {
						// lr.buf = append(make([]byte, 0, X), lr.buf...)
						if ap, ok := as.Rhs[0].(*ast.CallExpr); ok && f.src(ap.Fun) == "append" && len(ap.Args) == 2 && ap.Ellipsis.IsValid() && f.src(ap.Args[1]) == "lr.buf" {
							if mk, ok := ap.Args[0].(*ast.CallExpr); ok && f.src(mk.Fun) == "make" && len(mk.Args) == 3 && f.src(mk.Args[1]) == "0" {
								growCap = leanNat(f, mk.Args[2])
							}
						}
					}
				}
			}
			ast.Inspect(ras.Body, func(n ast.Node) bool {
				switch x := n.(type) {
				case *ast.CallExpr:
					if f.src(x.Fun) == "lr.f.Read" && len(x.Args) == 1 {
						readOffer = f.src(x.Args[0])
					}
				case *ast.AssignStmt:
					if len(x.Lhs) == 1 && f.src(x.Lhs[0]) == "lr.buf" {
						if sl, ok := x.Rhs[0].(*ast.SliceExpr); ok && sl.Low != nil {
							dropConsumed = f.src(sl)
						}
					}
				}
				return true
			})
			if nl := f.funcDecl("", "NewLineReader"); nl != nil {
				ast.Inspect(nl.Body, func(n ast.Node) bool {
					if kv, ok := n.(*ast.KeyValueExpr); ok && f.src(kv.Key) == "buf" {
						newCap = f.src(kv.Value)
					}
					return true
				})
			}
			if needGrow == "" || growCap == "" {
				shapeErr("Reader", "ReadAndSend: buffer regrowth is not `if <cmp> { lr.buf = append(make([]byte, 0, <expr>), lr.buf...) }`")
				needGrow, growCap = "true", "0"
			}
		}
		var b strings.Builder
		b.WriteString("/-! GENERATED by /verif/go/extract from /repo/internal/tailer/logstream/reader.go (LineReader.send, Finish). -/\n")
		b.WriteString("set_option linter.unusedVariables false\nnamespace MtailVerif.Generated.Reader\n")
		fmt.Fprintf(&b, "def delim : UInt8 := %d\n", delim&0xff)
		fmt.Fprintf(&b, "def crByte : UInt8 := %d\n", crByte&0xff)
		fmt.Fprintf(&b, "def crCond : String := %s\n", leanStr(crCond))
		fmt.Fprintf(&b, "def skipPlain : Nat := %d\n", skipPlain)
		fmt.Fprintf(&b, "def skipCR : Nat := %d\n", skipCR)
		fmt.Fprintf(&b, "def endDecCR : Nat := %d\n", endDec)
		fmt.Fprintf(&b, "def finishSkipsEmpty : Bool := %v\n", finishSkips)
		fmt.Fprintf(&b, "def needGrow (len cap size : Nat) : Bool := %s\n", needGrow)
		fmt.Fprintf(&b, "def growCap (len cap size : Nat) : Nat := %s\n", growCap)
		fmt.Fprintf(&b, "def readOffer : String := %s\n", leanStr(readOffer))
		fmt.Fprintf(&b, "def dropConsumed : String := %s\n", leanStr(dropConsumed))
		fmt.Fprintf(&b, "def newBuf : String := %s\n", leanStr(newCap))
		b.WriteString("end MtailVerif.Generated.Reader\n")
		write("Reader", b.String())
	})
}
