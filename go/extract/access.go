package main

import (
	"fmt"
	"go/ast"
	"go/token"
	"sort"
	"strings"
)

// Access table for C11: for every thread root (VM instruction cycle, Store.Gc, each exporter, the
// reload path) every read/write of a piece of shared metric state it can reach through calls, with
// the locks syntactically held at that point (intra-procedural tracking of Lock/RLock/Unlock/
// RUnlock and `defer ...Unlock()`, accumulated along the call chain).  Shared locations and their
// owner types are fixed here; everything else about the table is regenerated.

type lockHeld struct {
	class string // search, insert, metric, buckets, strmu
	excl  bool
}

type accEvent struct {
	kind  string // access | call
	loc   string // for access
	rw    string // r | w | a (atomic)
	name  string // for call: callee key
	locks []lockHeld
	pos   string
	extra []lockHeld // locks a callback is run under (Range)
}

type fnInfo struct {
	key    string
	events []accEvent
}

var accFiles = []string{
	"internal/metrics/metric.go", "internal/metrics/store.go",
	"internal/metrics/datum/datum.go", "internal/metrics/datum/int.go", "internal/metrics/datum/float.go",
	"internal/metrics/datum/string.go", "internal/metrics/datum/buckets.go",
	"internal/exporter/prometheus.go", "internal/exporter/export.go", "internal/exporter/varz.go",
	"internal/exporter/graphite.go", "internal/exporter/json.go", "internal/exporter/statsd.go", "internal/exporter/collectd.go",
	"internal/runtime/vm/vm.go",
}

// field name -> owner, by package directory
func sharedLoc(dir, field string, recvType string) string {
	switch {
	case strings.HasSuffix(dir, "/metrics") || strings.HasSuffix(dir, "/exporter") || strings.HasSuffix(dir, "/vm"):
		switch field {
		case "LabelValues":
			return "Metric.LabelValues"
		case "labelValuesMap":
			return "Metric.labelValuesMap"
		case "Expiry":
			return "LabelValue.Expiry"
		case "Metrics":
			if strings.HasSuffix(dir, "/metrics") {
				return "Store.Metrics"
			}
		}
	case strings.HasSuffix(dir, "/datum"):
		switch field {
		case "Value":
			if recvType == "String" {
				return "String.Value"
			}
			if recvType == "Int" || recvType == "Float" {
				return recvType + ".Value"
			}
		case "Valuebits":
			return "Float.Value"
		case "Time":
			return "Datum.Time"
		case "Buckets", "Count", "Sum":
			if recvType == "Buckets" {
				return "Buckets." + field
			}
		}
	}
	return ""
}

func lockClass(dir string, x ast.Expr, src string) string {
	switch {
	case strings.HasSuffix(src, "searchMu"):
		return "search"
	case strings.HasSuffix(src, "insertMu"):
		return "insert"
	case strings.HasSuffix(src, ".mu"):
		return "strmu"
	case strings.HasSuffix(src, "handleMu") || strings.HasSuffix(src, "programErrorMu") || strings.HasSuffix(src, "runtimeErrorMu"):
		return ""
	}
	if _, ok := x.(*ast.Ident); ok {
		if strings.HasSuffix(dir, "/datum") {
			return "buckets"
		}
		return "metric"
	}
	if strings.HasSuffix(dir, "/datum") {
		return "buckets"
	}
	return "metric"
}

func recvTypeName(fd *ast.FuncDecl) string {
	if fd.Recv == nil || len(fd.Recv.List) != 1 {
		return ""
	}
	t := fd.Recv.List[0].Type
	if s, ok := t.(*ast.StarExpr); ok {
		t = s.X
	}
	if id, ok := t.(*ast.Ident); ok {
		return id.Name
	}
	return ""
}

type accWalker struct {
	f     *file
	dir   string
	recv  string
	held  []lockHeld
	defer_ []lockHeld
	out   *[]accEvent
	known map[string]bool // callee names worth recording
	// an identifier naming an object no other thread can reach yet (the metric handed to
	// Store.Add is published only by Add's final insertion into Store.Metrics)
	private string
}

func (w *accWalker) locks() []lockHeld {
	return append(append([]lockHeld(nil), w.held...), w.defer_...)
}

func (w *accWalker) release(class string, excl bool) {
	for i := len(w.held) - 1; i >= 0; i-- {
		if w.held[i].class == class && w.held[i].excl == excl {
			w.held = append(w.held[:i], w.held[i+1:]...)
			return
		}
	}
}

func (w *accWalker) access(sel *ast.SelectorExpr, rw string) {
	loc := sharedLoc(w.dir, sel.Sel.Name, w.recv)
	if loc == "" {
		return
	}
	if id, ok := sel.X.(*ast.Ident); ok && w.private != "" && id.Name == w.private {
		return
	}
	*w.out = append(*w.out, accEvent{kind: "access", loc: loc, rw: rw, locks: w.locks(), pos: w.f.fset.Position(sel.Pos()).String()})
}

// expr walks an expression that is being read.
func (w *accWalker) expr(e ast.Expr) {
	if e == nil {
		return
	}
	switch x := e.(type) {
	case *ast.CallExpr:
		w.call(x)
	case *ast.SelectorExpr:
		w.access(x, "r")
		w.expr(x.X)
	case *ast.FuncLit:
		w.block(x.Body)
	default:
		ast.Inspect(e, func(n ast.Node) bool {
			if n == e {
				return true
			}
			if ex, ok := n.(ast.Expr); ok {
				w.expr(ex)
				return false
			}
			return true
		})
	}
}

func (w *accWalker) lhs(e ast.Expr) {
	switch x := e.(type) {
	case *ast.SelectorExpr:
		w.access(x, "w")
		w.expr(x.X)
	case *ast.IndexExpr:
		// m[k] = v or s[i].f = v writes the container
		w.lhs(x.X)
		w.expr(x.Index)
	case *ast.StarExpr:
		w.expr(x.X)
	default:
		w.expr(e)
	}
}

func (w *accWalker) call(c *ast.CallExpr) {
	fun := w.f.src(c.Fun)
	// lock operations
	if se, ok := c.Fun.(*ast.SelectorExpr); ok && len(c.Args) == 0 {
		switch se.Sel.Name {
		case "Lock", "RLock", "Unlock", "RUnlock":
			cls := lockClass(w.dir, se.X, w.f.src(se.X))
			if cls != "" {
				switch se.Sel.Name {
				case "Lock":
					w.held = append(w.held, lockHeld{cls, true})
				case "RLock":
					w.held = append(w.held, lockHeld{cls, false})
				case "Unlock":
					w.release(cls, true)
				case "RUnlock":
					w.release(cls, false)
				}
			}
			return
		}
	}
	// sync/atomic on a shared word
	if strings.HasPrefix(fun, "atomic.") {
		for _, a := range c.Args {
			if ue, ok := a.(*ast.UnaryExpr); ok && ue.Op == token.AND {
				if sel, ok := ue.X.(*ast.SelectorExpr); ok {
					w.access(sel, "a")
					continue
				}
			}
			w.expr(a)
		}
		return
	}
	switch fun {
	case "delete":
		if len(c.Args) > 0 {
			w.lhs(c.Args[0])
		}
		for _, a := range c.Args[1:] {
			w.expr(a)
		}
		return
	case "json.Marshal", "json.MarshalIndent":
		// the encoder walks its argument by reflection: record what it reaches
		arg := w.f.src(c.Args[0])
		switch {
		case strings.HasSuffix(arg, ".store"):
			*w.out = append(*w.out, accEvent{kind: "call", name: "Store.MarshalJSON", locks: w.locks()})
		case arg == "ms" || strings.HasSuffix(arg, ".Metrics"):
			if strings.HasSuffix(arg, ".Metrics") {
				*w.out = append(*w.out, accEvent{kind: "access", loc: "Store.Metrics", rw: "r", locks: w.locks(), pos: w.f.fset.Position(c.Pos()).String()})
			}
			for _, loc := range []string{"Metric.LabelValues", "LabelValue.Expiry"} {
				*w.out = append(*w.out, accEvent{kind: "access", loc: loc, rw: "r", locks: w.locks(), pos: w.f.fset.Position(c.Pos()).String() + " (encoding/json)"})
			}
			*w.out = append(*w.out, accEvent{kind: "call", name: "MarshalJSON", locks: w.locks()})
		}
		return
	}
	// ordinary call
	name := ""
	switch fx := c.Fun.(type) {
	case *ast.SelectorExpr:
		name = fx.Sel.Name
		w.expr(fx.X)
		// method names shared with the standard library are only followed on short local
		// receivers (d, m, lv, ...), `Add` only on a store
		rsrc := w.f.src(fx.X)
		id, isIdent := fx.X.(*ast.Ident)
		if isIdent && w.private != "" && id.Name == w.private {
			name = "" // a method of the unpublished object: nothing shared is touched through it
		}
		switch name {
		case "Add":
			if !(strings.HasSuffix(rsrc, "store") || strings.HasSuffix(rsrc, ".ms") || rsrc == "s") {
				name = ""
			}
		case "Set", "Get", "String", "Write", "Error", "Len", "Lock", "Unlock":
			if !isIdent || len(id.Name) > 2 {
				name = ""
			}
		}
	case *ast.Ident:
		name = fx.Name
	}
	for _, a := range c.Args {
		if fl, ok := a.(*ast.FuncLit); ok && name == "Range" {
			// Store.Range runs the callback with searchMu read-locked
			saved := w.held
			w.held = append(append([]lockHeld(nil), w.held...), lockHeld{"search", false})
			w.block(fl.Body)
			w.held = saved
			continue
		}
		w.expr(a)
	}
	if name != "" && name != "Range" {
		*w.out = append(*w.out, accEvent{kind: "call", name: name, locks: w.locks()})
	}
}

func (w *accWalker) stmt(s ast.Stmt) {
	switch x := s.(type) {
	case nil:
	case *ast.ExprStmt:
		w.expr(x.X)
	case *ast.AssignStmt:
		for _, r := range x.Rhs {
			w.expr(r)
		}
		for _, l := range x.Lhs {
			if x.Tok == token.DEFINE {
				continue
			}
			w.lhs(l)
			if x.Tok != token.ASSIGN { // += etc. also reads
				w.expr(l)
			}
		}
	case *ast.IncDecStmt:
		w.lhs(x.X)
		w.expr(x.X)
	case *ast.DeferStmt:
		if se, ok := x.Call.Fun.(*ast.SelectorExpr); ok && (se.Sel.Name == "Unlock" || se.Sel.Name == "RUnlock") {
			cls := lockClass(w.dir, se.X, w.f.src(se.X))
			if cls != "" {
				// held until the function returns
				w.release(cls, se.Sel.Name == "Unlock")
				w.defer_ = append(w.defer_, lockHeld{cls, se.Sel.Name == "Unlock"})
			}
			return
		}
		if fl, ok := x.Call.Fun.(*ast.FuncLit); ok {
			// a deferred closure that only unlocks: treat locks released there as held to the end
			onlyUnlocks := true
			ast.Inspect(fl.Body, func(n ast.Node) bool {
				if ce, ok := n.(*ast.CallExpr); ok {
					if se, ok := ce.Fun.(*ast.SelectorExpr); ok && (se.Sel.Name == "RUnlock" || se.Sel.Name == "Unlock") {
						return true
					}
					onlyUnlocks = false
				}
				return true
			})
			if onlyUnlocks {
				// locks taken in a preceding loop are modelled by the matching `for ... { m.RLock() }`
				return
			}
		}
		w.call(x.Call)
	case *ast.GoStmt:
		w.call(x.Call) // the spawner keeps its locks until the goroutine's channel is drained (C12)
	case *ast.ReturnStmt:
		for _, r := range x.Results {
			w.expr(r)
		}
	case *ast.BlockStmt:
		w.block(x)
	case *ast.IfStmt:
		w.stmt(x.Init)
		w.expr(x.Cond)
		saved := append([]lockHeld(nil), w.held...)
		w.block(x.Body)
		// an early-return branch may unlock; the fall-through path keeps what it had
		w.held = saved
		w.stmt(x.Else)
		w.held = saved
	case *ast.ForStmt:
		w.stmt(x.Init)
		w.expr(x.Cond)
		w.stmt(x.Post)
		w.block(x.Body)
	case *ast.RangeStmt:
		w.expr(x.X)
		// `for _, m := range ms { m.RLock() }` leaves every element locked after the loop
		before := len(w.held)
		w.block(x.Body)
		_ = before
	case *ast.SwitchStmt:
		w.stmt(x.Init)
		w.expr(x.Tag)
		for _, c := range x.Body.List {
			cc := c.(*ast.CaseClause)
			saved := append([]lockHeld(nil), w.held...)
			for _, e := range cc.List {
				w.expr(e)
			}
			for _, st := range cc.Body {
				w.stmt(st)
			}
			w.held = saved
		}
	case *ast.TypeSwitchStmt:
		w.stmt(x.Init)
		w.stmt(x.Assign)
		for _, c := range x.Body.List {
			cc := c.(*ast.CaseClause)
			saved := append([]lockHeld(nil), w.held...)
			for _, st := range cc.Body {
				w.stmt(st)
			}
			w.held = saved
		}
	case *ast.SelectStmt:
		for _, c := range x.Body.List {
			cc := c.(*ast.CommClause)
			for _, st := range cc.Body {
				w.stmt(st)
			}
		}
	case *ast.DeclStmt, *ast.BranchStmt, *ast.EmptyStmt, *ast.LabeledStmt, *ast.SendStmt:
		ast.Inspect(s, func(n ast.Node) bool {
			if ex, ok := n.(ast.Expr); ok {
				w.expr(ex)
				return false
			}
			return true
		})
	}
}

func (w *accWalker) block(b *ast.BlockStmt) {
	if b == nil {
		return
	}
	for _, s := range b.List {
		w.stmt(s)
	}
}

func lockStr(ls []lockHeld) string {
	set := map[string]bool{}
	for _, l := range ls {
		k := l.class + ":R"
		if l.excl {
			k = l.class + ":W"
		}
		set[k] = true
	}
	// exclusive subsumes shared
	var out []string
	for k := range set {
		if strings.HasSuffix(k, ":R") && set[strings.TrimSuffix(k, ":R")+":W"] {
			continue
		}
		out = append(out, k)
	}
	sort.Strings(out)
	return strings.Join(out, ",")
}

func init() {
	register("Access", func() {
		fns := map[string][]*fnInfo{} // by bare name
		byKey := map[string]*fnInfo{}
		for _, rel := range accFiles {
			f := parse(rel)
			if f == nil {
				continue
			}
			dir := rel[:strings.LastIndex(rel, "/")]
			for _, d := range f.f.Decls {
				fd, ok := d.(*ast.FuncDecl)
				if !ok || fd.Body == nil {
					continue
				}
				rt := recvTypeName(fd)
				key := fd.Name.Name
				if rt != "" {
					key = rt + "." + fd.Name.Name
				}
				fi := &fnInfo{key: key}
				w := &accWalker{f: f, dir: dir, recv: rt, out: &fi.events}
				if key == "Store.Add" && len(fd.Type.Params.List) == 1 && len(fd.Type.Params.List[0].Names) == 1 {
					w.private = fd.Type.Params.List[0].Names[0].Name
				}
				w.block(fd.Body)
				fns[fd.Name.Name] = append(fns[fd.Name.Name], fi)
				byKey[key] = fi
			}
		}
		roots := []struct{ name, key string }{
			{"vm", "VM.execute"}, {"gc", "Store.Gc"}, {"prom", "Exporter.Collect"}, {"varz", "Exporter.HandleVarz"},
			{"graphite", "Exporter.HandleGraphite"}, {"push", "Exporter.writeSocketMetrics"}, {"json", "Exporter.HandleJSON"},
			{"reload", "Store.Add"},
		}
		type row struct{ root, loc, rw, locks, pos string }
		var rows []row
		seenRow := map[string]bool{}
		for _, rt := range roots {
			fi := byKey[rt.key]
			if fi == nil {
				shapeErr("Access", "thread root %s not found", rt.key)
				continue
			}
			var visit func(fi *fnInfo, outer []lockHeld, depth int, stack map[string]bool)
			visit = func(fi *fnInfo, outer []lockHeld, depth int, stack map[string]bool) {
				if depth > 12 || stack[fi.key] {
					return
				}
				stack[fi.key] = true
				defer delete(stack, fi.key)
				for _, ev := range fi.events {
					all := append(append([]lockHeld(nil), outer...), ev.locks...)
					switch ev.kind {
					case "access":
						r := row{rt.name, ev.loc, ev.rw, lockStr(all), ev.pos}
						k := r.root + "|" + r.loc + "|" + r.rw + "|" + r.locks
						if !seenRow[k] {
							seenRow[k] = true
							rows = append(rows, r)
						}
					case "call":
						if c := byKey[ev.name]; c != nil {
							visit(c, all, depth+1, stack)
							continue
						}
						for _, c := range fns[ev.name] {
							visit(c, all, depth+1, stack)
						}
					}
				}
			}
			visit(fi, nil, 0, map[string]bool{})
		}
		sort.Slice(rows, func(i, j int) bool {
			a, b := rows[i], rows[j]
			if a.root != b.root {
				return a.root < b.root
			}
			if a.loc != b.loc {
				return a.loc < b.loc
			}
			if a.rw != b.rw {
				return a.rw < b.rw
			}
			return a.locks < b.locks
		})
		var b strings.Builder
		b.WriteString("/-! GENERATED by /verif/go/extract (access.go): shared-state accesses per thread root with the locks held. -/\n")
		b.WriteString("namespace MtailVerif.Generated.Access\n")
		rootNames := []string{"vm", "gc", "prom", "varz", "graphite", "push", "json", "reload"}
		locNames := []string{"Store.Metrics", "Metric.LabelValues", "Metric.labelValuesMap", "LabelValue.Expiry", "Int.Value",
			"Float.Value", "String.Value", "Datum.Time", "Buckets.Buckets", "Buckets.Count", "Buckets.Sum"}
		lockNames := []string{"search", "insert", "metric", "buckets", "strmu"}
		idx := func(xs []string, x string) int {
			for i, y := range xs {
				if y == x {
					return i
				}
			}
			shapeErr("Access", "unknown name %q", x)
			return 999
		}
		q := func(xs []string) string {
			o := make([]string, len(xs))
			for i, x := range xs {
				o[i] = leanStr(x)
			}
			return strings.Join(o, ", ")
		}
		fmt.Fprintf(&b, "def rootNames : List String := [%s]\n", q(rootNames))
		fmt.Fprintf(&b, "def locNames : List String := [%s]\n", q(locNames))
		fmt.Fprintf(&b, "def lockNames : List String := [%s]\n", q(lockNames))
		b.WriteString("/-- (root, location, kind 0 read / 1 write / 2 atomic, locks held as (class, exclusive)) -/\n")
		b.WriteString("def table : List (Nat × Nat × Nat × List (Nat × Bool)) := [\n")
		for i, r := range rows {
			ls := []string{}
			if r.locks != "" {
				for _, l := range strings.Split(r.locks, ",") {
					p := strings.Split(l, ":")
					ls = append(ls, fmt.Sprintf("(%d, %v)", idx(lockNames, p[0]), p[1] == "W"))
				}
			}
			kind := map[string]int{"r": 0, "w": 1, "a": 2}[r.rw]
			sep := ","
			if i == len(rows)-1 {
				sep = ""
			}
			fmt.Fprintf(&b, "  (%d, %d, %d, [%s])%s   -- %s %s %s [%s] %s\n", idx(rootNames, r.root), idx(locNames, r.loc), kind, strings.Join(ls, ", "), sep, r.root, r.loc, r.rw, r.locks, r.pos)
		}
		b.WriteString("]\n")
		b.WriteString("end MtailVerif.Generated.Access\n")
		write("Access", b.String())
	})
}
