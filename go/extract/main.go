// Command extract re-reads named functions of google/mtail with go/ast and regenerates
// /verif/lean/MtailVerif/Generated/*.lean.  Standard library only.
//
// Each extractor looks for a specific *shape*; when the source no longer has that shape
// it records a shape error (written to shape_errors.txt) and emits a Lean file whose
// constants make the dependent proof obligation fail, so a broken tie is never a pass.
package main

import (
	"bytes"
	"flag"
	"fmt"
	"go/ast"
	"go/parser"
	"go/printer"
	"go/token"
	"os"
	"path/filepath"
	"sort"
	"strconv"
	"strings"
)

var (
	repo   = flag.String("repo", "/repo", "path to google/mtail")
	outDir = flag.String("out", "/verif/lean/MtailVerif/Generated", "output directory")
	only   = flag.String("only", "", "comma separated list of generators (default all)")
)

var shapeErrors []string

func shapeErr(gen, format string, args ...interface{}) {
	shapeErrors = append(shapeErrors, gen+": "+fmt.Sprintf(format, args...))
}

type file struct {
	fset *token.FileSet
	f    *ast.File
	path string
}

func parse(rel string) *file {
	fset := token.NewFileSet()
	p := filepath.Join(*repo, rel)
	f, err := parser.ParseFile(fset, p, nil, parser.ParseComments)
	if err != nil {
		shapeErr("parse", "%s: %v", rel, err)
		return nil
	}
	return &file{fset, f, rel}
}

// funcDecl finds a function or method (recv may be "" or the receiver type name without *).
func (f *file) funcDecl(recv, name string) *ast.FuncDecl {
	if f == nil {
		return nil
	}
	for _, d := range f.f.Decls {
		fd, ok := d.(*ast.FuncDecl)
		if !ok || fd.Name.Name != name {
			continue
		}
		r := ""
		if fd.Recv != nil && len(fd.Recv.List) == 1 {
			t := fd.Recv.List[0].Type
			if s, ok := t.(*ast.StarExpr); ok {
				t = s.X
			}
			if id, ok := t.(*ast.Ident); ok {
				r = id.Name
			}
		}
		if r == recv {
			return fd
		}
	}
	return nil
}

func (f *file) src(n ast.Node) string {
	var b bytes.Buffer
	_ = printer.Fprint(&b, f.fset, n)
	return b.String()
}

func leanBytes(s string) string {
	parts := make([]string, 0, len(s))
	for i := 0; i < len(s); i++ {
		parts = append(parts, strconv.Itoa(int(s[i])))
	}
	return "[" + strings.Join(parts, ", ") + "]"
}

func leanStr(s string) string {
	// Lean string literal; only printable ASCII expected
	var b strings.Builder
	b.WriteByte('"')
	for _, r := range s {
		switch {
		case r == '"':
			b.WriteString("\\\"")
		case r == '\\':
			b.WriteString("\\\\")
		case r == '\n':
			b.WriteString("\\n")
		case r == '\t':
			b.WriteString("\\t")
		case r < 32 || r == 127:
			fmt.Fprintf(&b, "\\x%02x", r)
		case r > 127 && r <= 0xffff:
			fmt.Fprintf(&b, "\\u%04x", r)
		default:
			b.WriteRune(r)
		}
	}
	b.WriteByte('"')
	return b.String()
}

func strLit(e ast.Expr) (string, bool) {
	bl, ok := e.(*ast.BasicLit)
	if !ok || bl.Kind != token.STRING {
		return "", false
	}
	s, err := strconv.Unquote(bl.Value)
	if err != nil {
		return "", false
	}
	return s, true
}

func isSel(e ast.Expr, pkg, name string) bool {
	se, ok := e.(*ast.SelectorExpr)
	if !ok || se.Sel.Name != name {
		return false
	}
	id, ok := se.X.(*ast.Ident)
	return ok && id.Name == pkg
}

func write(name, body string) {
	p := filepath.Join(*outDir, name+".lean")
	old, err := os.ReadFile(p)
	if err == nil && string(old) == body {
		return // keep mtime: nothing to rebuild
	}
	if err := os.WriteFile(p, []byte(body), 0o644); err != nil {
		fmt.Fprintln(os.Stderr, "write:", err)
		os.Exit(2)
	}
}

type generator struct {
	name string
	run  func()
}

var generators []generator

func register(name string, run func()) { generators = append(generators, generator{name, run}) }

func main() {
	flag.Parse()
	want := map[string]bool{}
	if *only != "" {
		for _, s := range strings.Split(*only, ",") {
			want[s] = true
		}
	}
	sort.Slice(generators, func(i, j int) bool { return generators[i].name < generators[j].name })
	for _, g := range generators {
		if len(want) > 0 && !want[g.name] {
			continue
		}
		g.run()
	}
	p := filepath.Join(*outDir, "shape_errors.txt")
	_ = os.WriteFile(p, []byte(strings.Join(shapeErrors, "\n")), 0o644)
	for _, e := range shapeErrors {
		fmt.Println("SHAPE-ERROR", e)
	}
}
