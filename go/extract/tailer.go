package main

import (
	"fmt"
	"go/ast"
	"go/token"
	"strings"
)

// skeleton renders the control structure of a statement list as one line: conditions, loop
// headers, returns with their values, continue/break, goroutines, defers, and the calls made by
// expression statements and assignments (logging left out).  Everything that decides which
// statements run, and nothing else.
func skeleton(f *file, list []ast.Stmt) string {
	var out []string
	for _, st := range list {
		if s := skelStmt(f, st); s != "" {
			out = append(out, s)
		}
	}
	return strings.Join(out, "; ")
}

func skelCall(f *file, e ast.Expr) string {
	ce, ok := e.(*ast.CallExpr)
	if !ok {
		return ""
	}
	if fl, ok := ce.Fun.(*ast.FuncLit); ok {
		return "func {" + skeleton(f, fl.Body.List) + "}()"
	}
	fn := f.src(ce.Fun)
	if strings.HasPrefix(fn, "glog.") {
		return ""
	}
	// arguments as written; a function literal among them is code of this function too
	var args []string
	for _, a := range ce.Args {
		if fl, ok := a.(*ast.FuncLit); ok {
			args = append(args, "func {"+skeleton(f, fl.Body.List)+"}")
		} else {
			args = append(args, strings.Join(strings.Fields(f.src(a)), " "))
		}
	}
	return fn + "(" + strings.Join(args, ", ") + ")"
}

// skelExpr renders an expression that is returned: calls by name (function literals expanded),
// anything else as written.
func skelExpr(f *file, e ast.Expr) string {
	if c := skelCall(f, e); c != "" {
		if ce := e.(*ast.CallExpr); len(ce.Args) > 0 {
			hasLit := false
			for _, a := range ce.Args {
				if _, ok := a.(*ast.FuncLit); ok {
					hasLit = true
				}
			}
			if hasLit {
				return c
			}
		}
	}
	return strings.Join(strings.Fields(f.src(e)), " ")
}

func skelStmt(f *file, st ast.Stmt) string {
	switch x := st.(type) {
	case *ast.IfStmt:
		s := "if "
		if x.Init != nil {
			s += f.src(x.Init) + "; "
		}
		s += f.src(x.Cond) + " {" + skeleton(f, x.Body.List) + "}"
		switch e := x.Else.(type) {
		case *ast.BlockStmt:
			s += " else {" + skeleton(f, e.List) + "}"
		case *ast.IfStmt:
			s += " else " + skelStmt(f, e)
		}
		return s
	case *ast.ForStmt:
		h := ""
		if x.Init != nil || x.Cond != nil || x.Post != nil {
			h = fmt.Sprintf("%s; %s; %s", srcOr(f, x.Init), srcOrE(f, x.Cond), srcOr(f, x.Post))
		}
		return "for " + h + " {" + skeleton(f, x.Body.List) + "}"
	case *ast.RangeStmt:
		return "for range " + f.src(x.X) + " {" + skeleton(f, x.Body.List) + "}"
	case *ast.ReturnStmt:
		var rs []string
		for _, r := range x.Results {
			rs = append(rs, skelExpr(f, r))
		}
		return "return " + strings.Join(rs, ", ")
	case *ast.BranchStmt:
		return x.Tok.String()
	case *ast.GoStmt:
		if fl, ok := x.Call.Fun.(*ast.FuncLit); ok {
			return "go {" + skeleton(f, fl.Body.List) + "}"
		}
		return "go " + f.src(x.Call.Fun) + "()"
	case *ast.DeferStmt:
		if c := skelCall(f, x.Call); c != "" {
			return "defer " + c
		}
		return ""
	case *ast.LabeledStmt:
		return x.Label.Name + ": " + skelStmt(f, x.Stmt)
	case *ast.TypeSwitchStmt:
		var cs []string
		for _, c := range x.Body.List {
			cc := c.(*ast.CaseClause)
			var es []string
			for _, e := range cc.List {
				es = append(es, f.src(e))
			}
			h := "default"
			if len(es) > 0 {
				h = strings.Join(es, ", ")
			}
			cs = append(cs, "case "+h+": {"+skeleton(f, cc.Body)+"}")
		}
		return "switch " + strings.Join(strings.Fields(f.src(x.Assign)), " ") + " {" + strings.Join(cs, " ") + "}"
	case *ast.SelectStmt:
		var cs []string
		for _, c := range x.Body.List {
			cc := c.(*ast.CommClause)
			h := "default"
			if cc.Comm != nil {
				h = f.src(cc.Comm)
			}
			cs = append(cs, "case "+h+": {"+skeleton(f, cc.Body)+"}")
		}
		return "select {" + strings.Join(cs, " ") + "}"
	case *ast.SwitchStmt:
		var cs []string
		for _, c := range x.Body.List {
			cc := c.(*ast.CaseClause)
			var es []string
			for _, e := range cc.List {
				es = append(es, f.src(e))
			}
			h := "default"
			if len(es) > 0 {
				h = strings.Join(es, ", ")
			}
			cs = append(cs, "case "+h+": {"+skeleton(f, cc.Body)+"}")
		}
		return "switch " + srcOrE(f, x.Tag) + " {" + strings.Join(cs, " ") + "}"
	case *ast.BlockStmt:
		return "{" + skeleton(f, x.List) + "}"
	case *ast.ExprStmt:
		if u, ok := x.X.(*ast.UnaryExpr); ok && u.Op == token.ARROW {
			return f.src(x.X)
		}
		return skelCall(f, x.X)
	case *ast.AssignStmt:
		var cs []string
		for _, r := range x.Rhs {
			if c := skelCall(f, r); c != "" {
				cs = append(cs, c)
			}
		}
		// an update of a field, a map entry or a slice element is state the function leaves behind:
		// written out in full; an assignment to a local variable shows only the calls it makes
		for _, l := range x.Lhs {
			switch l.(type) {
			case *ast.SelectorExpr, *ast.IndexExpr, *ast.StarExpr:
				return strings.Join(strings.Fields(f.src(x)), " ")
			}
		}
		return strings.Join(cs, ", ")
	case *ast.SendStmt:
		return f.src(x.Chan) + " <-"
	case *ast.IncDecStmt:
		switch x.X.(type) {
		case *ast.SelectorExpr, *ast.IndexExpr:
			return f.src(x)
		}
		return ""
	}
	return ""
}

func srcOr(f *file, s ast.Stmt) string {
	if s == nil {
		return ""
	}
	return f.src(s)
}

func srcOrE(f *file, e ast.Expr) string {
	if e == nil {
		return ""
	}
	return f.src(e)
}

// the tailer's pattern poll: which matches are handed to TailPath, what TailPath does with a path
// it already has, and what ends the walk over the matches
func init() {
	register("Tailer", func() {
		f := parse("internal/tailer/tail.go")
		var b strings.Builder
		b.WriteString("/-! GENERATED by /verif/go/extract from internal/tailer/tail.go (Ignore, TailPath, doPatternGlob, pollLogPattern). -/\n")
		b.WriteString("namespace MtailVerif.Generated.Tailer\n")
		for _, fn := range []string{"Ignore", "TailPath", "doPatternGlob", "pollLogPattern"} {
			fd := f.funcDecl("Tailer", fn)
			sk := "?"
			if fd == nil {
				shapeErr("Tailer", "Tailer.%s not found", fn)
			} else {
				sk = skeleton(f, fd.Body.List)
			}
			fmt.Fprintf(&b, "def %s : String := %s\n", strings.ToLower(fn[:1])+fn[1:], leanStr(sk))
		}
		b.WriteString("end MtailVerif.Generated.Tailer\n")
		write("Tailer", b.String())
	})
}
