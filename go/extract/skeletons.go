package main

import (
	"fmt"
	"go/ast"
	"strings"
)

// Control skeletons (see skeleton in tailer.go) of the functions the hand-written models stand
// for, one Lean string per function, grouped by the property whose model it is.  The obligations
// in Props/<id>.lean say each is the skeleton the model was written against.

type skelTarget struct {
	file, recv, fn string
}

var skelGroups = []struct {
	name    string
	targets []skelTarget
}{
	{"Metric", []skelTarget{
		{"internal/metrics/metric.go", "Metric", "GetDatum"}, {"internal/metrics/metric.go", "Metric", "FindLabelValueOrNil"},
		{"internal/metrics/metric.go", "Metric", "AppendLabelValue"}, {"internal/metrics/metric.go", "Metric", "RemoveDatum"},
		{"internal/metrics/metric.go", "Metric", "removeDatum"}, {"internal/metrics/metric.go", "Metric", "ExpireDatum"},
		{"internal/metrics/metric.go", "Metric", "removeOldestDatum"}, {"internal/metrics/metric.go", "Metric", "EmitLabelSets"},
	}},
	{"Loader", []skelTarget{
		{"internal/metrics/store.go", "Store", "Add"}, {"internal/metrics/store.go", "Store", "Range"},
		{"internal/runtime/runtime.go", "Runtime", "LoadAllPrograms"}, {"internal/runtime/runtime.go", "Runtime", "LoadProgram"},
		{"internal/runtime/runtime.go", "Runtime", "CompileAndRun"}, {"internal/runtime/runtime.go", "Runtime", "UnloadProgram"},
	}},
	{"Export", []skelTarget{
		{"internal/exporter/prometheus.go", "Exporter", "Collect"}, {"internal/exporter/export.go", "Exporter", "writeSocketMetrics"},
		{"internal/exporter/export.go", "", "formatLabels"}, {"internal/exporter/collectd.go", "", "metricToCollectd"},
		{"internal/exporter/statsd.go", "", "metricToStatsd"}, {"internal/exporter/graphite.go", "", "metricToGraphite"},
		{"internal/exporter/varz.go", "", "metricToVarz"}, {"internal/exporter/prometheus.go", "", "noHyphens"},
		{"internal/exporter/prometheus.go", "", "promTypeForKind"},
	}},
	{"Streams", []skelTarget{
		{"internal/tailer/logstream/reader.go", "LineReader", "ReadAndSend"}, {"internal/tailer/logstream/reader.go", "LineReader", "send"},
		{"internal/tailer/logstream/reader.go", "LineReader", "Finish"},
		{"internal/tailer/logstream/socketstream.go", "socketStream", "stream"}, {"internal/tailer/logstream/socketstream.go", "socketStream", "handleConn"},
		{"internal/tailer/logstream/fifostream.go", "fifoStream", "stream"}, {"internal/tailer/logstream/dgramstream.go", "dgramStream", "stream"},
		{"internal/tailer/logstream/filestream.go", "fileStream", "stream"},
	}},
	{"Line", []skelTarget{
		{"internal/runtime/vm/vm.go", "VM", "ProcessLogLine"}, {"internal/runtime/vm/vm.go", "VM", "Run"},
		{"internal/runtime/vm/vm.go", "VM", "errorf"}, {"internal/runtime/vm/vm.go", "VM", "ParseTime"},
	}},
	{"Datum", []skelTarget{
		{"internal/metrics/datum/datum.go", "", "SetInt"}, {"internal/metrics/datum/datum.go", "", "SetFloat"},
		{"internal/metrics/datum/datum.go", "", "SetString"}, {"internal/metrics/datum/datum.go", "", "IncIntBy"},
		{"internal/metrics/datum/datum.go", "", "DecIntBy"}, {"internal/metrics/datum/datum.go", "BaseDatum", "stamp"},
		{"internal/metrics/datum/datum.go", "", "GetBucketsCumByMax"}, {"internal/metrics/datum/buckets.go", "Buckets", "Observe"},
		{"internal/metrics/datum/buckets.go", "Buckets", "GetBuckets"}, {"internal/metrics/datum/datum.go", "", "MakeBuckets"},
	}},
	{"Dispatch", []skelTarget{
		{"internal/runtime/runtime.go", "", "New"}, {"internal/tailer/tail.go", "", "New"}, {"internal/tailer/tail.go", "Tailer", "AddPattern"},
		{"internal/mtail/mtail.go", "Server", "Run"}, {"internal/tailer/logstream/dgramstream.go", "dgramConn", "Read"},
	}},
	{"Symbols", []skelTarget{
		{"internal/runtime/compiler/symbol/symtab.go", "", "NewScope"}, {"internal/runtime/compiler/symbol/symtab.go", "Scope", "Insert"},
		{"internal/runtime/compiler/symbol/symtab.go", "Scope", "InsertAlias"}, {"internal/runtime/compiler/symbol/symtab.go", "Scope", "Lookup"},
		{"internal/runtime/compiler/symbol/symtab.go", "Scope", "CopyFrom"}, {"internal/runtime/compiler/types/types.go", "", "Unify"},
		{"internal/runtime/compiler/types/types.go", "", "LeastUpperBound"}, {"internal/runtime/compiler/checker/checker.go", "checker", "checkRegex"},
		{"internal/runtime/compiler/checker/checker.go", "checker", "checkSymbolTable"},
	}},
	{"Text", []skelTarget{
		{"internal/runtime/compiler/parser/lexer.go", "", "lexQuotedString"}, {"internal/runtime/compiler/parser/unparser.go", "", "quote"},
		{"internal/runtime/compiler/parser/unparser.go", "", "precedence"}, {"internal/runtime/compiler/parser/unparser.go", "", "lhsNeedsParens"},
		{"internal/runtime/compiler/parser/unparser.go", "", "rhsNeedsParens"},
		{"internal/runtime/compiler/parser/unparser.go", "Unparser", "walkOperand"}, {"cmd/mfmt/main.go", "", "main"},
	}},
}

// whole files: every function of every Go file a property is anchored in (the big visitors and
// VM.execute are rendered clause by clause further down and are left out here)
var fileGroups = []string{
	"cmd/mfmt/main.go",
	"internal/exporter/collectd.go", "internal/exporter/export.go", "internal/exporter/graphite.go", "internal/exporter/json.go",
	"internal/exporter/prometheus.go", "internal/exporter/statsd.go", "internal/exporter/varz.go",
	"internal/metrics/datum/buckets.go", "internal/metrics/datum/datum.go", "internal/metrics/datum/float.go",
	"internal/metrics/datum/int.go", "internal/metrics/datum/string.go", "internal/metrics/metric.go", "internal/metrics/store.go",
	"internal/mtail/mtail.go",
	"internal/runtime/compiler/ast/ast.go", "internal/runtime/compiler/ast/walk.go", "internal/runtime/compiler/position/position.go",
	"internal/runtime/compiler/checker/checker.go", "internal/runtime/compiler/codegen/codegen.go", "internal/runtime/compiler/compiler.go",
	"internal/runtime/compiler/opt/opt.go", "internal/runtime/compiler/parser/driver.go", "internal/runtime/compiler/parser/unparser.go",
	"internal/runtime/compiler/symbol/symtab.go", "internal/runtime/compiler/types/types.go",
	"internal/runtime/runtime.go", "internal/runtime/vm/vm.go",
	"internal/tailer/logstream/cancel.go", "internal/tailer/logstream/dgramstream.go", "internal/tailer/logstream/fifostream.go",
	"internal/tailer/logstream/filestream.go", "internal/tailer/logstream/reader.go", "internal/tailer/logstream/socketstream.go",
	"internal/tailer/logstream/logstream.go", "internal/tailer/tail.go",
}

func fileGroupName(path string) string {
	p := strings.TrimSuffix(path, ".go")
	parts := strings.Split(p, "/")
	if len(parts) >= 2 {
		parts = parts[len(parts)-2:]
	}
	return "F_" + strings.Join(parts, "_")
}

// functions that are one big switch: one string per clause
var clauseGroups = []struct {
	name, file, recv, fn string
}{
	{"Exec", "internal/runtime/vm/vm.go", "VM", "execute"},
	{"Compare", "internal/runtime/vm/vm.go", "", "compare"},
	{"CodegenBefore", "internal/runtime/compiler/codegen/codegen.go", "codegen", "VisitBefore"},
	{"CodegenAfter", "internal/runtime/compiler/codegen/codegen.go", "codegen", "VisitAfter"},
	{"CheckerBefore", "internal/runtime/compiler/checker/checker.go", "checker", "VisitBefore"},
	{"CheckerAfter", "internal/runtime/compiler/checker/checker.go", "checker", "VisitAfter"},
	{"PatternEval", "internal/runtime/compiler/checker/checker.go", "patternEvaluator", "VisitBefore"},
	{"OptBefore", "internal/runtime/compiler/opt/opt.go", "optimiser", "VisitBefore"},
	{"OptAfter", "internal/runtime/compiler/opt/opt.go", "optimiser", "VisitAfter"},
	{"UnparseBefore", "internal/runtime/compiler/parser/unparser.go", "Unparser", "VisitBefore"},
}

func clauseKey(f *file, cc *ast.CaseClause) string {
	if len(cc.List) == 0 {
		return "default"
	}
	var ks []string
	for _, e := range cc.List {
		k := f.src(e)
		if i := strings.LastIndex(k, "."); i >= 0 {
			k = k[i+1:]
		}
		k = strings.Map(func(r rune) rune {
			if r >= 'a' && r <= 'z' || r >= 'A' && r <= 'Z' || r >= '0' && r <= '9' || r == '_' {
				return r
			}
			return -1
		}, k)
		ks = append(ks, k)
	}
	return strings.Join(ks, "_")
}

// clauses renders the function as: what comes before its main switch, every clause of that
// switch (the outermost switch or type switch with the most clauses), and what comes after.
func clauses(f *file, fd *ast.FuncDecl) [][2]string {
	var list []ast.Stmt = fd.Body.List
	best, bestN := -1, 0
	for i, st := range list {
		var body *ast.BlockStmt
		switch x := st.(type) {
		case *ast.SwitchStmt:
			body = x.Body
		case *ast.TypeSwitchStmt:
			body = x.Body
		}
		if body != nil && len(body.List) > bestN {
			best, bestN = i, len(body.List)
		}
	}
	if best < 0 {
		return [][2]string{{"body", skeleton(f, list)}}
	}
	out := [][2]string{{"before", skeleton(f, list[:best])}}
	var body *ast.BlockStmt
	head := ""
	switch x := list[best].(type) {
	case *ast.SwitchStmt:
		body, head = x.Body, "switch "+srcOrE(f, x.Tag)
	case *ast.TypeSwitchStmt:
		body, head = x.Body, "switch "+strings.Join(strings.Fields(f.src(x.Assign)), " ")
	}
	out = append(out, [2]string{"switch", head})
	seen := map[string]int{}
	for _, c := range body.List {
		cc := c.(*ast.CaseClause)
		k := clauseKey(f, cc)
		seen[k]++
		if seen[k] > 1 {
			k = fmt.Sprintf("%s_%d", k, seen[k])
		}
		out = append(out, [2]string{"case_" + k, skeleton(f, cc.Body)})
	}
	out = append(out, [2]string{"after", skeleton(f, list[best+1:])})
	return out
}

func leanIdent(t skelTarget) string {
	n := t.fn
	if t.recv != "" {
		n = t.recv + "_" + t.fn
	} else if t.fn == "New" || t.fn == "main" {
		// package-level names that several packages have: say whose
		base := t.file[strings.LastIndex(t.file, "/")+1:]
		dir := t.file[:strings.LastIndex(t.file, "/")]
		dir = dir[strings.LastIndex(dir, "/")+1:]
		_ = base
		n = dir + "_" + t.fn
	}
	return strings.ToLower(n[:1]) + n[1:]
}

// the body of one `case code.<Op>:` clause of VM.execute (kept for ad-hoc use)
func vmCaseSkeleton(f *file, op string) string {
	ex := f.funcDecl("VM", "execute")
	if ex == nil {
		return "?"
	}
	out := "?"
	ast.Inspect(ex.Body, func(n ast.Node) bool {
		cc, ok := n.(*ast.CaseClause)
		if !ok {
			return true
		}
		for _, e := range cc.List {
			if f.src(e) == "code."+op {
				out = skeleton(f, cc.Body)
			}
		}
		return true
	})
	return out
}

func init() {
	register("Skeletons", func() {
		var b strings.Builder
		b.WriteString("/-! GENERATED by /verif/go/extract: control skeletons (conditions, loops, exits, calls, locks; logging and plain assignments left out) of the functions the models stand for. -/\n")
		b.WriteString("namespace MtailVerif.Generated.Skeletons\n")
		for _, g := range skelGroups {
			fmt.Fprintf(&b, "namespace %s\n", g.name)
			for _, t := range g.targets {
				f := parse(t.file)
				sk := "?"
				if fd := f.funcDecl(t.recv, t.fn); fd == nil {
					shapeErr("Skeletons", "%s: %s.%s not found", t.file, t.recv, t.fn)
				} else {
					sk = skeleton(f, fd.Body.List)
				}
				fmt.Fprintf(&b, "def %s : String := %s\n", leanIdent(t), leanStr(sk))
			}
			fmt.Fprintf(&b, "end %s\n", g.name)
		}
		// every function of the lexer
		if lf := parse("internal/runtime/compiler/parser/lexer.go"); lf != nil {
			b.WriteString("namespace Lex\n")
			seen := map[string]bool{}
			for _, d := range lf.f.Decls {
				fd, ok := d.(*ast.FuncDecl)
				if !ok || fd.Body == nil {
					continue
				}
				n := fd.Name.Name
				if fd.Recv != nil {
					n = "lexer_" + n
				}
				n = strings.ToLower(n[:1]) + n[1:]
				if seen[n] {
					continue
				}
				seen[n] = true
				fmt.Fprintf(&b, "def %s : String := %s\n", n, leanStr(skeleton(lf, fd.Body.List)))
			}
			b.WriteString("end Lex\n")
		}
		for _, path := range fileGroups {
			pf := parse(path)
			if pf == nil {
				shapeErr("Skeletons", "%s: not found", path)
				continue
			}
			fmt.Fprintf(&b, "namespace %s\n", fileGroupName(path))
			seen := map[string]int{}
			for _, d := range pf.f.Decls {
				fd, ok := d.(*ast.FuncDecl)
				if !ok || fd.Body == nil {
					continue
				}
				n := fd.Name.Name
				if n == "VisitBefore" || n == "VisitAfter" || n == "execute" {
					continue
				}
				if fd.Recv != nil && len(fd.Recv.List) == 1 {
					t := fd.Recv.List[0].Type
					if s, ok := t.(*ast.StarExpr); ok {
						t = s.X
					}
					if id, ok := t.(*ast.Ident); ok {
						n = id.Name + "_" + n
					}
				}
				n = "f_" + n
				seen[n]++
				if seen[n] > 1 {
					n = fmt.Sprintf("%s_%d", n, seen[n])
				}
				fmt.Fprintf(&b, "def %s : String := %s\n", n, leanStr(skeleton(pf, fd.Body.List)))
			}
			fmt.Fprintf(&b, "end %s\n", fileGroupName(path))
		}
		for _, g := range clauseGroups {
			f := parse(g.file)
			fmt.Fprintf(&b, "namespace %s\n", g.name)
			if fd := f.funcDecl(g.recv, g.fn); fd == nil {
				shapeErr("Skeletons", "%s: %s.%s not found", g.file, g.recv, g.fn)
			} else {
				for _, kv := range clauses(f, fd) {
					fmt.Fprintf(&b, "def %s : String := %s\n", kv[0], leanStr(kv[1]))
				}
			}
			fmt.Fprintf(&b, "end %s\n", g.name)
		}
		b.WriteString("end MtailVerif.Generated.Skeletons\n")
		write("Skeletons", b.String())
	})
}
