package main

import (
	"fmt"
	"go/ast"
	"go/token"
	"sort"
	"strings"
)

// The lock / emitter skeleton of each exporter loop: the closure passed to e.store.Range in
// Collect, writeSocketMetrics, HandleVarz, HandleGraphite.

type skel struct {
	f        *file
	gen      string
	deferred bool // `defer m.RUnlock()` seen: every return releases first
	locking  map[string]bool          // methods of *Metric that take the metric's lock
	pkgFuncs map[string]*ast.FuncDecl // functions of package exporter, by name
	pkgFile  map[string]*file
}

var formatFuncs = map[string]bool{"Sprintf": true, "Sprint": true, "Sprintln": true, "Fprintf": true, "Fprint": true, "Fprintln": true,
	"Printf": true, "Errorf": true, "Infof": true, "Info": true, "Warningf": true, "Warning": true, "Error": true, "Fatalf": true,
	"Wrapf": true, "Wrap": true, "Println": true, "Print": true, "Infoln": true, "Warningln": true}

// relocks reports whether evaluating n may take the lock of the metric named recv again:
// a call of a locking method on it, or formatting it (fmt/glog call with the metric itself as
// an argument calls Metric.String(), which takes RLock), directly or inside a package
// function it is passed to.
func (k *skel) relocks(f *file, n ast.Node, recv string, depth int) bool {
	found := false
	ast.Inspect(n, func(x ast.Node) bool {
		ce, ok := x.(*ast.CallExpr)
		if !ok || found {
			return !found
		}
		if se, ok := ce.Fun.(*ast.SelectorExpr); ok {
			if id, ok := se.X.(*ast.Ident); ok && id.Name == recv && k.locking[se.Sel.Name] {
				found = true
				return false
			}
			if formatFuncs[se.Sel.Name] {
				for _, a := range ce.Args {
					if id, ok := a.(*ast.Ident); ok && id.Name == recv {
						found = true
						return false
					}
				}
			}
		}
		// a package function or function value that receives the metric
		if depth < 2 {
			for i, a := range ce.Args {
				id, ok := a.(*ast.Ident)
				if !ok || id.Name != recv {
					continue
				}
				var cands []string
				if fid, ok := ce.Fun.(*ast.Ident); ok {
					if _, known := k.pkgFuncs[fid.Name]; known {
						cands = []string{fid.Name}
					} else if fid.Name == "f" { // the formatter parameter of writeSocketMetrics
						cands = []string{"metricToGraphite", "metricToStatsd", "metricToCollectd"}
					}
				}
				for _, c := range cands {
					fd := k.pkgFuncs[c]
					if fd == nil || fd.Body == nil {
						continue
					}
					pi := 0
					for _, fl := range fd.Type.Params.List {
						for _, nm := range fl.Names {
							if pi == i && k.relocks(k.pkgFile[c], fd.Body, nm.Name, depth+1) {
								found = true
							}
							pi++
						}
					}
				}
			}
		}
		return !found
	})
	return found
}

func (k *skel) block(stmts []ast.Stmt) []string {
	var out []string
	for _, st := range stmts {
		out = append(out, k.stmt(st)...)
	}
	return out
}

func lst(xs []string) string { return "[" + strings.Join(xs, ", ") + "]" }

func (k *skel) callName(e ast.Expr) string {
	ce, ok := e.(*ast.CallExpr)
	if !ok {
		return ""
	}
	return k.f.src(ce.Fun)
}

func (k *skel) stmt(st ast.Stmt) []string {
	switch x := st.(type) {
	case *ast.ExprStmt:
		switch k.callName(x.X) {
		case "m.RLock":
			return []string{".rlock"}
		case "m.RUnlock":
			return []string{".runlock"}
		case "m.Lock", "m.Unlock":
			shapeErr(k.gen, "exporter takes the write lock: %s", k.f.src(x))
		case "panic":
			// leaves the function like a return does (deferred calls run, nothing else)
			if k.deferred {
				return []string{".runlock", ".ret"}
			}
			return []string{".ret"}
		}
		if k.relocks(k.f, x, "m", 0) {
			return []string{".relock"}
		}
		return []string{".other"}
	case *ast.DeferStmt:
		if k.f.src(x.Call.Fun) == "m.RUnlock" {
			k.deferred = true
			return nil
		}
		shapeErr(k.gen, "unsupported defer: %s", k.f.src(x))
		return []string{".other"}
	case *ast.GoStmt:
		if strings.HasSuffix(k.f.src(x.Call.Fun), ".EmitLabelSets") {
			return []string{".spawn"}
		}
		shapeErr(k.gen, "unexpected goroutine: %s", k.f.src(x))
		return []string{".other"}
	case *ast.ReturnStmt:
		if k.deferred {
			return []string{".runlock", ".ret"}
		}
		return []string{".ret"}
	case *ast.BranchStmt:
		switch x.Tok {
		case token.CONTINUE:
			return []string{".cont"}
		default:
			shapeErr(k.gen, "unsupported branch statement %s", k.f.src(x))
			return []string{".other"}
		}
	case *ast.RangeStmt:
		if _, isChan := x.X.(*ast.Ident); isChan && k.isLabelSetChan(x.X) {
			if len(x.Body.List) == 0 {
				return []string{".drain"}
			}
			return []string{".loop " + lst(k.block(x.Body.List))}
		}
		// ranging over something else (labels map, buckets): a plain loop whose body may
		// run zero or more times; model one optional pass (no lock/channel statements expected)
		body := k.block(x.Body.List)
		for _, b := range body {
			if b != ".other" && !strings.HasPrefix(b, ".ifs") {
				shapeErr(k.gen, "lock or channel statement inside a non-channel loop: %s", b)
			}
		}
		return []string{".other"}
	case *ast.ForStmt:
		body := k.block(x.Body.List)
		for _, b := range body {
			if b != ".other" {
				shapeErr(k.gen, "lock or channel statement inside a for loop: %s", b)
			}
		}
		// a counted loop (init; cond; post) ends by itself; a loop on a bare condition, or on none,
		// ends when something outside it says so
		if x.Init == nil || x.Post == nil || x.Cond == nil {
			return []string{".wait"}
		}
		return []string{".other"}
	case *ast.IfStmt:
		var out []string
		if x.Init != nil {
			out = append(out, k.stmt(x.Init)...)
		}
		if k.relocks(k.f, x.Cond, "m", 0) {
			out = append(out, ".relock")
		}
		out = append(out, ".ifs "+lst(k.block(x.Body.List)))
		if x.Else != nil {
			switch e := x.Else.(type) {
			case *ast.BlockStmt:
				out = append(out, ".ifs "+lst(k.block(e.List)))
			case *ast.IfStmt:
				out = append(out, k.stmt(e)...)
			}
		}
		return out
	case *ast.SelectStmt:
		var out []string
		for _, c := range x.Body.List {
			cc := c.(*ast.CommClause)
			out = append(out, ".ifs "+lst(k.block(cc.Body)))
		}
		return out
	case *ast.SwitchStmt:
		var out []string
		for _, c := range x.Body.List {
			cc := c.(*ast.CaseClause)
			out = append(out, ".ifs "+lst(k.block(cc.Body)))
		}
		return out
	case *ast.BlockStmt:
		return k.block(x.List)
	default:
		if k.relocks(k.f, st, "m", 0) {
			return []string{".relock"}
		}
		return []string{".other"}
	}
}

func (k *skel) isLabelSetChan(e ast.Expr) bool {
	id, ok := e.(*ast.Ident)
	if !ok {
		return false
	}
	return id.Name == "lsc" || id.Name == "lc" || strings.HasSuffix(strings.ToLower(id.Name), "ch") || id.Name == "c"
}

func rangeClosure(f *file, fd *ast.FuncDecl) *ast.FuncLit {
	var lit *ast.FuncLit
	ast.Inspect(fd.Body, func(n ast.Node) bool {
		ce, ok := n.(*ast.CallExpr)
		if !ok {
			return true
		}
		if f.src(ce.Fun) == "e.store.Range" && len(ce.Args) == 1 {
			if fl, ok := ce.Args[0].(*ast.FuncLit); ok && lit == nil {
				lit = fl
			}
		}
		return true
	})
	return lit
}


// jsonShape classifies the statements of (*Store).MarshalJSON, the only place the JSON export
// takes locks: anything it does not recognise is `unknown`, which the model cannot run.
func jsonShape() []string {
	sf := parse("internal/metrics/store.go")
	if sf == nil {
		shapeErr("ExportLocks", "store.go not found")
		return []string{".unknown"}
	}
	fd := sf.funcDecl("Store", "MarshalJSON")
	if fd == nil || fd.Body == nil {
		shapeErr("ExportLocks", "Store.MarshalJSON not found")
		return []string{".unknown"}
	}
	isCall := func(e ast.Expr, recv, method string) bool {
		ce, ok := e.(*ast.CallExpr)
		if !ok || len(ce.Args) != 0 {
			return false
		}
		se, ok := ce.Fun.(*ast.SelectorExpr)
		return ok && se.Sel.Name == method && sf.src(se.X) == recv
	}
	rangeOver := func(st ast.Stmt, over string) (*ast.RangeStmt, string) {
		rs, ok := st.(*ast.RangeStmt)
		if !ok || sf.src(rs.X) != over {
			return nil, ""
		}
		v := ""
		if id, ok := rs.Value.(*ast.Ident); ok {
			v = id.Name
		}
		return rs, v
	}
	var out []string
	for _, st := range fd.Body.List {
		tok := ".unknown"
		switch x := st.(type) {
		case *ast.ExprStmt:
			if isCall(x.X, "s.searchMu", "RLock") {
				tok = ".rlockStore"
			}
		case *ast.DeferStmt:
			if isCall(x.Call, "s.searchMu", "RUnlock") {
				tok = ".deferRUnlockStore"
			} else if fl, ok := x.Call.Fun.(*ast.FuncLit); ok && len(x.Call.Args) == 0 && len(fl.Body.List) == 1 {
				if rs, v := rangeOver(fl.Body.List[0], "ms"); rs != nil && v != "" && len(rs.Body.List) == 1 {
					if es, ok := rs.Body.List[0].(*ast.ExprStmt); ok && isCall(es.X, v, "RUnlock") {
						tok = ".deferRUnlockAll"
					}
				}
			}
		case *ast.AssignStmt:
			if len(x.Lhs) == 1 && sf.src(x.Lhs[0]) == "ms" && x.Tok == token.DEFINE && strings.HasPrefix(sf.src(x.Rhs[0]), "make(") {
				tok = ".decl"
			}
		case *ast.RangeStmt:
			if rs, v := rangeOver(st, "s.Metrics"); rs != nil && v != "" && len(rs.Body.List) == 1 && sf.src(rs.Body.List[0]) == "ms = append(ms, "+v+"...)" {
				tok = ".collect"
			} else if rs, v := rangeOver(st, "ms"); rs != nil && v != "" && len(rs.Body.List) == 1 {
				if es, ok := rs.Body.List[0].(*ast.ExprStmt); ok && isCall(es.X, v, "RLock") {
					tok = ".rlockAll"
				}
			}
		case *ast.ReturnStmt:
			if len(x.Results) == 1 && sf.src(x.Results[0]) == "json.Marshal(ms)" {
				tok = ".retMarshal"
			}
		}
		out = append(out, tok)
	}
	return out
}

// jsonHandlerLocks counts lock operations in the exporter's JSON handler itself (expected: none).
func jsonHandlerLocks() int {
	jf := parse("internal/exporter/json.go")
	if jf == nil {
		shapeErr("ExportLocks", "json.go not found")
		return -1
	}
	n := 0
	ast.Inspect(jf.f, func(nd ast.Node) bool {
		if se, ok := nd.(*ast.SelectorExpr); ok {
			switch se.Sel.Name {
			case "Lock", "RLock", "Unlock", "RUnlock":
				n++
			}
		}
		return true
	})
	return n
}


// pushConnCalls lists, in source order, what PushMetrics does with the connection it dials:
// the dial itself, every method called on the connection, and every function the connection is
// handed to.  A write to a peer that has stopped reading returns only if a deadline was set on
// the connection before it.
func pushConnCalls() []string {
	f := parse("internal/exporter/export.go")
	if f == nil {
		shapeErr("ExportLocks", "export.go not found")
		return nil
	}
	fd := f.funcDecl("Exporter", "PushMetrics")
	if fd == nil || fd.Body == nil {
		shapeErr("ExportLocks", "PushMetrics not found")
		return nil
	}
	conn := ""
	var out []string
	ast.Inspect(fd.Body, func(n ast.Node) bool {
		if as, ok := n.(*ast.AssignStmt); ok && len(as.Rhs) == 1 && len(as.Lhs) >= 1 {
			if ce, ok := as.Rhs[0].(*ast.CallExpr); ok {
				if se, ok := ce.Fun.(*ast.SelectorExpr); ok && strings.HasPrefix(se.Sel.Name, "Dial") {
					if id, ok := as.Lhs[0].(*ast.Ident); ok {
						conn = id.Name
					}
					out = append(out, se.Sel.Name)
				}
			}
		}
		ce, ok := n.(*ast.CallExpr)
		if !ok || conn == "" {
			return true
		}
		if se, ok := ce.Fun.(*ast.SelectorExpr); ok {
			if id, ok := se.X.(*ast.Ident); ok && id.Name == conn {
				out = append(out, se.Sel.Name)
			}
		}
		for _, a := range ce.Args {
			if id, ok := a.(*ast.Ident); ok && id.Name == conn {
				name := f.src(ce.Fun)
				if i := strings.LastIndex(name, "."); i >= 0 {
					name = name[i+1:]
				}
				out = append(out, name)
			}
		}
		return true
	})
	return out
}

func init() {
	register("ExportLocks", func() {
		targets := []struct{ file, fn, name string }{
			{"internal/exporter/prometheus.go", "Collect", "collect"},
			{"internal/exporter/export.go", "writeSocketMetrics", "writeSocketMetrics"},
			{"internal/exporter/varz.go", "HandleVarz", "handleVarz"},
			{"internal/exporter/graphite.go", "HandleGraphite", "handleGraphite"},
		}
		// methods of *Metric that take its lock (directly or through another method)
		locking := map[string]bool{}
		mf := parse("internal/metrics/metric.go")
		calls := map[string][]string{}
		if mf != nil {
			for _, d := range mf.f.Decls {
				fd, ok := d.(*ast.FuncDecl)
				if !ok || fd.Recv == nil || fd.Body == nil || len(fd.Recv.List) != 1 || len(fd.Recv.List[0].Names) != 1 {
					continue
				}
				if !strings.Contains(mf.src(fd.Recv.List[0].Type), "Metric") {
					continue
				}
				rn := fd.Recv.List[0].Names[0].Name
				ast.Inspect(fd.Body, func(n ast.Node) bool {
					if ce, ok := n.(*ast.CallExpr); ok {
						if se, ok := ce.Fun.(*ast.SelectorExpr); ok {
							if id, ok := se.X.(*ast.Ident); ok && id.Name == rn {
								switch se.Sel.Name {
								case "Lock", "RLock":
									locking[fd.Name.Name] = true
								default:
									calls[fd.Name.Name] = append(calls[fd.Name.Name], se.Sel.Name)
								}
							}
						}
					}
					return true
				})
			}
			for changed := true; changed; {
				changed = false
				for fn, cs := range calls {
					for _, c := range cs {
						if locking[c] && !locking[fn] {
							locking[fn] = true
							changed = true
						}
					}
				}
			}
		}
		pkgFuncs := map[string]*ast.FuncDecl{}
		pkgFile := map[string]*file{}
		for _, rel := range []string{"export.go", "prometheus.go", "varz.go", "graphite.go", "statsd.go", "collectd.go", "json.go"} {
			pf := parse("internal/exporter/" + rel)
			if pf == nil {
				continue
			}
			for _, d := range pf.f.Decls {
				if fd, ok := d.(*ast.FuncDecl); ok && fd.Recv == nil {
					pkgFuncs[fd.Name.Name] = fd
					pkgFile[fd.Name.Name] = pf
				}
			}
		}
		var b strings.Builder
		b.WriteString("import MtailVerif.Model.ExportLocks\n")
		b.WriteString("/-! GENERATED by /verif/go/extract: lock/emitter skeleton of the closure each exporter passes to Store.Range. -/\n")
		b.WriteString("namespace MtailVerif.Generated.ExportLocks\nopen MtailVerif.ExportLocks Stmt\n")
		var names []string
		for _, t := range targets {
			f := parse(t.file)
			fd := f.funcDecl("Exporter", t.fn)
			body := []string{".rlock"} // poison: never safe
			if fd == nil {
				shapeErr("ExportLocks", "%s not found", t.fn)
			} else if lit := rangeClosure(f, fd); lit == nil {
				shapeErr("ExportLocks", "%s: no closure passed to e.store.Range", t.fn)
			} else {
				k := &skel{f: f, gen: "ExportLocks", locking: locking, pkgFuncs: pkgFuncs, pkgFile: pkgFile}
				body = k.block(lit.Body.List)
			}
			fmt.Fprintf(&b, "def %s : List Stmt := %s\n", t.name, lst(body))
			names = append(names, fmt.Sprintf("(%s, %s)", leanStr(t.fn), t.name))
		}
		fmt.Fprintf(&b, "def all : List (String × List Stmt) := [%s]\n", strings.Join(names, ", "))
		var lm []string
		for m := range locking {
			lm = append(lm, leanStr(m))
		}
		sort.Strings(lm)
		fmt.Fprintf(&b, "/-- methods of *Metric that take the metric's own lock -/\ndef lockingMethods : List String := [%s]\n", strings.Join(lm, ", "))
		fmt.Fprintf(&b, "/-- statements of (*Store).MarshalJSON, which the JSON export runs -/\ndef marshalJSON : List JTok := %s\n", lst(jsonShape()))
		fmt.Fprintf(&b, "/-- lock operations written in exporter/json.go itself -/\ndef jsonHandlerLockOps : Int := %d\n", jsonHandlerLocks())
		var pc []string
		for _, c := range pushConnCalls() {
			pc = append(pc, leanStr(c))
		}
		fmt.Fprintf(&b, "/-- what PushMetrics does with the connection it dials, in source order -/\ndef pushConnCalls : List String := [%s]\n", strings.Join(pc, ", "))
		b.WriteString("end MtailVerif.Generated.ExportLocks\n")
		write("ExportLocks", b.String())
	})
}
