#!/bin/sh
# Offline build of the framework: extractor, regenerated facts, Lean model + proofs + driver.
set -e
cd "$(dirname "$0")"
export GOFLAGS=-mod=mod GOPROXY=off GOSUMDB=off GOTOOLCHAIN=local
mkdir -p .build
(cd go/extract && go build -o ../../.build/extract .)
./.build/extract -repo "${VERIF_REPO:-/repo}" -out lean/MtailVerif/Generated || true
# proofs that depend on facts regenerated from a defective tree may fail to build; that is
# reported by the property's own check, not by setup
(cd lean && lake build mtailmodel && (lake build MtailVerif || true))
echo setup done
