import MtailVerif.Props.C17
#print axioms MtailVerif.C17.conn_source_shape
#print axioms MtailVerif.C17.reachable_inv
#print axioms MtailVerif.C17.data_delivers_own_lines
#print axioms MtailVerif.C17.close_delivers_tail_once
#print axioms MtailVerif.C17.output_closes_after_cancel
#print axioms MtailVerif.C17.no_send_on_closed_lines
#print axioms MtailVerif.C17.counting_after_accept_is_unsafe
#print axioms MtailVerif.C17.streams_skeletons
#print axioms MtailVerif.C17.dispatch_skeletons
#print axioms MtailVerif.C17.f_logstream_fifostream_skeletons
#print axioms MtailVerif.C17.f_logstream_socketstream_skeletons
#print axioms MtailVerif.C17.f_logstream_dgramstream_skeletons
#print axioms MtailVerif.C17.f_logstream_cancel_skeletons
#print axioms MtailVerif.C17.f_logstream_logstream_skeletons
