import MtailVerif.Props.C11
open MtailVerif.C11
#print axioms table_conflict_free
#print axioms no_race_in_any_schedule
#print axioms datum_words_atomic
#print axioms atomic_increments_not_lost
#print axioms load_store_loses_an_increment
