import MtailVerif.Props.C11
open MtailVerif.C11
#print axioms table_conflict_free
#print axioms no_race_in_any_schedule
#print axioms datum_words_atomic
#print axioms atomic_increments_not_lost
#print axioms load_store_loses_an_increment
#print axioms MtailVerif.C11.f_runtime_runtime_skeletons
#print axioms MtailVerif.C11.f_metrics_store_skeletons
#print axioms MtailVerif.C11.f_exporter_prometheus_skeletons
#print axioms MtailVerif.C11.f_metrics_metric_skeletons
#print axioms MtailVerif.C11.f_datum_int_skeletons
#print axioms MtailVerif.C11.f_exporter_export_skeletons
