import MtailVerif.Props.C21
#print axioms MtailVerif.C21.observe_shape
#print axioms MtailVerif.C21.decl_shape
#print axioms MtailVerif.C21.observe_exactly_one_bucket
#print axioms MtailVerif.C21.target_is_first_fitting
#print axioms MtailVerif.C21.nan_goes_to_last
#print axioms MtailVerif.C21.above_all_goes_to_last
#print axioms MtailVerif.C21.declared_last_is_inf
#print axioms MtailVerif.C21.sum_buckets_eq_count
#print axioms MtailVerif.C21.exported_bounds_eq_declared_plus_inf_partial
#print axioms MtailVerif.C21.first_bound_nonpositive_dropped
#print axioms MtailVerif.C21.text_observation_shape
#print axioms MtailVerif.C21.datum_skeletons
#print axioms MtailVerif.C21.exec_skeletons
#print axioms MtailVerif.C21.codegenBefore_skeletons
#print axioms MtailVerif.C21.codegenAfter_skeletons
