import MtailVerif.Props.C23
open MtailVerif.C23
#print axioms wf_sound
#print axioms format_parse_roundtrip
#print axioms format_parse_roundtrip_in_context
#print axioms format_parse_roundtrip_at_level
#print axioms format_parse_args_roundtrip
