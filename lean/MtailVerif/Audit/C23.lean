import MtailVerif.Props.C23
open MtailVerif.C23
#print axioms wf_sound
#print axioms format_parse_roundtrip
#print axioms format_parse_roundtrip_in_context
#print axioms format_parse_roundtrip_at_level
#print axioms format_parse_args_roundtrip
#print axioms binLevel_is_yacc_level
#print axioms opPrec_is_formatter_precedence
#print axioms formatter_precedence_matches_grammar
#print axioms source_shape
#print axioms format_parse_assignment
#print axioms MtailVerif.C23.lex_skeletons
#print axioms MtailVerif.C23.text_skeletons
#print axioms MtailVerif.C23.unparseBefore_skeletons
#print axioms MtailVerif.C23.f_parser_unparser_skeletons
#print axioms MtailVerif.C23.f_mfmt_main_skeletons
