import MtailVerif.Props.C25
#print axioms MtailVerif.C25.counter_sites_shape
#print axioms MtailVerif.C25.counters_exact_step
#print axioms MtailVerif.C25.counters_of_others_untouched
#print axioms MtailVerif.C25.unload_counts
#print axioms MtailVerif.C25.line_counts
#print axioms MtailVerif.C25.runtime_error_counted
#print axioms MtailVerif.C25.loader_skeletons
#print axioms MtailVerif.C25.exec_skeletons
#print axioms MtailVerif.C25.f_vm_vm_skeletons
#print axioms MtailVerif.C25.f_runtime_runtime_skeletons
#print axioms MtailVerif.C25.f_mtail_mtail_skeletons
#print axioms MtailVerif.C25.f_logstream_reader_skeletons
#print axioms MtailVerif.C25.f_tailer_tail_skeletons
