import MtailVerif.Props.C09
#print axioms MtailVerif.C09.metric_refines_ordered_map
#print axioms MtailVerif.C09.every_step_agrees
#print axioms MtailVerif.C09.emit_each_live_tuple_once
#print axioms MtailVerif.C09.remove_absent_noop
#print axioms MtailVerif.C09.expire_absent_error
#print axioms MtailVerif.C09.wrong_arity_rejected_unchanged
#print axioms MtailVerif.C09.frame_spec
#print axioms MtailVerif.C09.frame_model
#print axioms MtailVerif.C09.same_datum_iff_equal_tuple
#print axioms MtailVerif.C09.metric_skeletons
#print axioms MtailVerif.C09.datum_skeletons
#print axioms MtailVerif.C09.f_datum_datum_skeletons
#print axioms MtailVerif.C09.f_metrics_metric_skeletons
#print axioms MtailVerif.C09.f_datum_int_skeletons
#print axioms MtailVerif.C09.f_datum_float_skeletons
#print axioms MtailVerif.C09.f_datum_string_skeletons
