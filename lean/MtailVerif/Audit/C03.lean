import MtailVerif.Props.C03
open MtailVerif.C03
#print axioms request_consumes
#print axioms regex_request_consumes
#print axioms stops_only_with_eof
#print axioms stops_at_end_of_input
#print axioms token_stream_ends
#print axioms compile_returns_exactly_one
#print axioms compile_error_not_empty
#print axioms lexer_source_shape
#print axioms in_regex_discipline
#print axioms compile_source_shape
#print axioms MtailVerif.C03.symbols_skeletons
#print axioms MtailVerif.C03.lex_skeletons
#print axioms MtailVerif.C03.codegenBefore_skeletons
#print axioms MtailVerif.C03.codegenAfter_skeletons
#print axioms MtailVerif.C03.checkerBefore_skeletons
#print axioms MtailVerif.C03.checkerAfter_skeletons
#print axioms MtailVerif.C03.patternEval_skeletons
#print axioms MtailVerif.C03.f_checker_checker_skeletons
#print axioms MtailVerif.C03.f_codegen_codegen_skeletons
#print axioms MtailVerif.C03.f_parser_driver_skeletons
#print axioms MtailVerif.C03.f_ast_ast_skeletons
#print axioms MtailVerif.C03.f_ast_walk_skeletons
#print axioms MtailVerif.C03.f_position_position_skeletons
