import MtailVerif.Props.C10
#print axioms MtailVerif.C10.gc_source_shape
#print axioms MtailVerif.C10.gc_refines_spec
#print axioms MtailVerif.C10.gc_limit_size
#print axioms MtailVerif.C10.removed_no_newer_than_kept
#print axioms MtailVerif.C10.gc_expiry_exact
#print axioms MtailVerif.C10.gc_frame
#print axioms MtailVerif.C10.gc_at_most_limit
#print axioms MtailVerif.C10.split_pass_alone_keeps_unexpired
#print axioms MtailVerif.C10.split_pass_is_unsafe
#print axioms MtailVerif.C10.metric_skeletons
#print axioms MtailVerif.C10.f_metrics_store_skeletons
#print axioms MtailVerif.C10.f_metrics_metric_skeletons
