import MtailVerif.Props.C02
#print axioms MtailVerif.C02.fold_source_shape
#print axioms MtailVerif.C02.foldNode_sound
#print axioms MtailVerif.C02.fold_preserves_typed_eval
#print axioms MtailVerif.C02.fold_reject_only_zero_divisor
#print axioms MtailVerif.C02.exec_skeletons
#print axioms MtailVerif.C02.compare_skeletons
#print axioms MtailVerif.C02.checkerAfter_skeletons
#print axioms MtailVerif.C02.optBefore_skeletons
#print axioms MtailVerif.C02.optAfter_skeletons
#print axioms MtailVerif.C02.f_vm_vm_skeletons
#print axioms MtailVerif.C02.f_opt_opt_skeletons
#print axioms MtailVerif.C02.f_compiler_compiler_skeletons
