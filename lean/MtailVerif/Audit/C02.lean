import MtailVerif.Props.C02
#print axioms MtailVerif.C02.fold_source_shape
#print axioms MtailVerif.C02.foldNode_sound
#print axioms MtailVerif.C02.fold_preserves_typed_eval
#print axioms MtailVerif.C02.fold_reject_only_zero_divisor
