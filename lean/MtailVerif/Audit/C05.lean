import MtailVerif.Props.C05
open MtailVerif.C05
#print axioms memo_coherent
#print axioms line_effect_history_independent
#print axioms line_effect_depends_on_metrics_only
#print axioms source_shape
#print axioms MtailVerif.VM.run_coherent
#print axioms MtailVerif.C05.line_skeletons
#print axioms MtailVerif.C05.exec_skeletons
#print axioms MtailVerif.C05.f_vm_vm_skeletons
