import MtailVerif.Props.C16
#print axioms MtailVerif.C16.filestream_shape
#print axioms MtailVerif.C16.observed_history_exact
#print axioms MtailVerif.FileStream.step_inv
#print axioms MtailVerif.C16.stopped_history_exact
#print axioms MtailVerif.C16.buffer_shape
#print axioms MtailVerif.C16.every_read_is_offered_room
#print axioms MtailVerif.C16.streams_skeletons
#print axioms MtailVerif.C16.f_logstream_reader_skeletons
#print axioms MtailVerif.C16.f_logstream_filestream_skeletons
#print axioms MtailVerif.C16.f_tailer_tail_skeletons
#print axioms MtailVerif.C16.f_logstream_logstream_skeletons
