import MtailVerif.Props.C01
open MtailVerif.C01
#print axioms compiled_code_computes_the_reference_semantics
#print axioms error_keeps_effects_made_before
#print axioms otherwise_in_else_deviates
#print axioms int_operator_table
#print axioms float_operator_table
#print axioms bit_operator_table
#print axioms not_operator
#print axioms int_comparison_table
#print axioms string_plus_is_concatenation
#print axioms conversion_int_to_float
#print axioms conversion_int_to_string
#print axioms conversion_string_to_int
#print axioms string_comparison_table
#print axioms float_comparison_table
#print axioms and_short_circuits
#print axioms or_short_circuits
#print axioms MtailVerif.C01.line_skeletons
#print axioms MtailVerif.C01.symbols_skeletons
#print axioms MtailVerif.C01.exec_skeletons
#print axioms MtailVerif.C01.compare_skeletons
#print axioms MtailVerif.C01.codegenBefore_skeletons
#print axioms MtailVerif.C01.codegenAfter_skeletons
#print axioms MtailVerif.C01.f_checker_checker_skeletons
#print axioms MtailVerif.C01.f_codegen_codegen_skeletons
#print axioms MtailVerif.C01.f_vm_vm_skeletons
#print axioms MtailVerif.C01.f_types_types_skeletons
