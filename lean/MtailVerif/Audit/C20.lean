import MtailVerif.Props.C20
open MtailVerif.C20
#print axioms effects_in_arrival_order
#print axioms each_line_started_once
#print axioms quiescent_all_applied
#print axioms last_write_is_last_line
#print axioms only_current_vm_busy
#print axioms swap_without_wait_reorders
#print axioms source_shape
#print axioms MtailVerif.C20.loader_skeletons
#print axioms MtailVerif.C20.line_skeletons
#print axioms MtailVerif.C20.dispatch_skeletons
#print axioms MtailVerif.C20.f_vm_vm_skeletons
#print axioms MtailVerif.C20.f_runtime_runtime_skeletons
#print axioms MtailVerif.C20.dispatcher_sends_under_lock
#print axioms MtailVerif.C20.sending_after_unlock_is_unsafe
