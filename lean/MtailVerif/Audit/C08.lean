import MtailVerif.Props.C08
import MtailVerif.Props.C09
#print axioms MtailVerif.C08.key_shape
#print axioms MtailVerif.C08.encode_injective
#print axioms MtailVerif.C08.encode_injective_any
#print axioms MtailVerif.C09.same_datum_iff_equal_tuple
#print axioms MtailVerif.C09.frame_model
#print axioms MtailVerif.C08.metric_skeletons
#print axioms MtailVerif.C08.f_metrics_metric_skeletons
