import MtailVerif.Props.C08
#print axioms MtailVerif.C08.key_shape
#print axioms MtailVerif.C08.encode_injective
