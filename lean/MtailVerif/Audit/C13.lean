import MtailVerif.Props.C13
#print axioms MtailVerif.C13.collect_spec
#print axioms MtailVerif.C13.representable_exported
#print axioms MtailVerif.C13.sample_fields
#print axioms MtailVerif.C13.exported_only_representable
#print axioms MtailVerif.C13.histogram_cumulative_monotone
#print axioms MtailVerif.C13.histogram_last_cumulative_eq_total
#print axioms MtailVerif.C21.sum_buckets_eq_count
#print axioms MtailVerif.C13.export_skeletons
#print axioms MtailVerif.C13.datum_skeletons
#print axioms MtailVerif.C13.f_exporter_prometheus_skeletons
#print axioms MtailVerif.C13.f_datum_datum_skeletons
#print axioms MtailVerif.C13.f_mtail_mtail_skeletons
