import MtailVerif.Props.C22
#print axioms MtailVerif.C22.graphite_own_label_set
#print axioms MtailVerif.C22.statsd_own_label_set
#print axioms MtailVerif.C22.collectd_own_label_set
#print axioms MtailVerif.C22.varz_own_label_set
#print axioms MtailVerif.C22.graphite_shape
#print axioms MtailVerif.C22.one_record_per_label_set
#print axioms MtailVerif.C22.one_record_per_label_set_handlers
#print axioms MtailVerif.C22.record_name_determines_label_set
#print axioms MtailVerif.C22.distinct_label_sets_distinct_names
#print axioms MtailVerif.C22.export_skeletons
#print axioms MtailVerif.C22.f_metrics_store_skeletons
#print axioms MtailVerif.C22.f_exporter_export_skeletons
#print axioms MtailVerif.C22.f_exporter_graphite_skeletons
#print axioms MtailVerif.C22.f_exporter_varz_skeletons
#print axioms MtailVerif.C22.f_exporter_json_skeletons
#print axioms MtailVerif.C22.f_exporter_statsd_skeletons
#print axioms MtailVerif.C22.f_exporter_collectd_skeletons
