import MtailVerif.Props.C22
#print axioms MtailVerif.C22.graphite_own_label_set
#print axioms MtailVerif.C22.statsd_own_label_set
#print axioms MtailVerif.C22.collectd_own_label_set
#print axioms MtailVerif.C22.varz_own_label_set
#print axioms MtailVerif.C22.graphite_shape
#print axioms MtailVerif.C22.one_record_per_label_set
#print axioms MtailVerif.C22.one_record_per_label_set_handlers
#print axioms MtailVerif.C22.export_skeletons
#print axioms MtailVerif.C22.record_name_determines_label_set
#print axioms MtailVerif.C22.distinct_label_sets_distinct_names
