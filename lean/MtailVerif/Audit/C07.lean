import MtailVerif.Props.C07
open MtailVerif.C07
#print axioms strptime_result
#print axioms timestamp_result
#print axioms timestamp_after_strptime
#print axioms settime_then_timestamp
#print axioms register_kept
#print axioms datum_updates_carry_register
#print axioms stamp_is_register
#print axioms MtailVerif.C07.datum_skeletons
#print axioms MtailVerif.C07.exec_skeletons
#print axioms MtailVerif.C07.f_vm_vm_skeletons
#print axioms MtailVerif.C07.f_datum_datum_skeletons
