import MtailVerif.Props.C14
#print axioms MtailVerif.C14.add_source_shape
#print axioms MtailVerif.C14.reload_identical_noop
#print axioms MtailVerif.C14.failed_compile_leaves_export
#print axioms MtailVerif.C14.reload_keeps_declaration_keeps_data
#print axioms MtailVerif.C14.refused_iff_kind_conflict
#print axioms MtailVerif.C14.moved_declaration_duplicates
#print axioms MtailVerif.C14.partial_registration_counterexample
#print axioms MtailVerif.C14.reload_with_other_buckets_starts_afresh
#print axioms MtailVerif.C14.loader_skeletons
#print axioms MtailVerif.C14.f_runtime_runtime_skeletons
#print axioms MtailVerif.C14.f_metrics_store_skeletons
#print axioms MtailVerif.C14.f_exporter_prometheus_skeletons
