import MtailVerif.Props.C12
#print axioms MtailVerif.C12.skeletons_safe
#print axioms MtailVerif.C12.skeletons_named
#print axioms MtailVerif.C12.export_releases
#print axioms MtailVerif.ExportLocks.safe_sound
#print axioms MtailVerif.C12.json_export_releases
#print axioms MtailVerif.C12.export_skeletons
