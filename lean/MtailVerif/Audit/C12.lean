import MtailVerif.Props.C12
#print axioms MtailVerif.C12.skeletons_safe
#print axioms MtailVerif.C12.skeletons_named
#print axioms MtailVerif.C12.export_releases
#print axioms MtailVerif.ExportLocks.safe_sound
#print axioms MtailVerif.C12.json_export_releases
#print axioms MtailVerif.C12.push_writes_have_a_deadline
#print axioms MtailVerif.C12.push_every_write_is_bounded
#print axioms MtailVerif.C12.export_skeletons
#print axioms MtailVerif.C12.f_exporter_prometheus_skeletons
#print axioms MtailVerif.C12.f_metrics_metric_skeletons
#print axioms MtailVerif.C12.f_exporter_export_skeletons
#print axioms MtailVerif.C12.f_exporter_graphite_skeletons
#print axioms MtailVerif.C12.f_exporter_varz_skeletons
