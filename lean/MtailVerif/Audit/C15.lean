import MtailVerif.Props.C15
#print axioms MtailVerif.C15.cr_test_shape
#print axioms MtailVerif.C15.framing_chunk_independent
#print axioms MtailVerif.C15.framing_any_two_chunkings
#print axioms MtailVerif.C15.buffer_shape
#print axioms MtailVerif.C15.every_read_is_offered_room
#print axioms MtailVerif.C15.streams_skeletons
#print axioms MtailVerif.C15.f_logstream_reader_skeletons
