import MtailVerif.Props.C06
#print axioms MtailVerif.C06.add_skips_other_programs
#print axioms MtailVerif.C06.add_preserves_other_programs
#print axioms MtailVerif.C06.refused_only_on_kind_conflict
#print axioms MtailVerif.C06.line_effect_is_local
#print axioms MtailVerif.C06.loader_skeletons
#print axioms MtailVerif.C06.f_runtime_runtime_skeletons
#print axioms MtailVerif.C06.f_metrics_store_skeletons
#print axioms MtailVerif.C06.f_exporter_prometheus_skeletons
#print axioms MtailVerif.C06.dispatcher_sends_under_lock
#print axioms MtailVerif.C06.sending_after_unlock_is_unsafe
