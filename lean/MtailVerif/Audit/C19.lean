import MtailVerif.Props.C19
#print axioms MtailVerif.C19.reachable_inv
#print axioms MtailVerif.C19.oneshot_terminates
#print axioms MtailVerif.C19.each_line_once_per_program
#print axioms MtailVerif.C19.witness_result_schedule_independent
#print axioms MtailVerif.C19.streams_skeletons
#print axioms MtailVerif.C19.line_skeletons
#print axioms MtailVerif.C19.dispatch_skeletons
