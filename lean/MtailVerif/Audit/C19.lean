import MtailVerif.Props.C19
#print axioms MtailVerif.C19.reachable_inv
#print axioms MtailVerif.C19.oneshot_terminates
#print axioms MtailVerif.C19.each_line_once_per_program
#print axioms MtailVerif.C19.witness_result_schedule_independent
#print axioms MtailVerif.C19.streams_skeletons
#print axioms MtailVerif.C19.line_skeletons
#print axioms MtailVerif.C19.dispatch_skeletons
#print axioms MtailVerif.C19.f_vm_vm_skeletons
#print axioms MtailVerif.C19.f_runtime_runtime_skeletons
#print axioms MtailVerif.C19.f_mtail_mtail_skeletons
#print axioms MtailVerif.C19.f_logstream_filestream_skeletons
#print axioms MtailVerif.C19.f_tailer_tail_skeletons
#print axioms MtailVerif.C19.f_logstream_logstream_skeletons
