import MtailVerif.Props.C18
#print axioms MtailVerif.C18.after_poll_tailed_eq_eligible
#print axioms MtailVerif.C18.inv_step
#print axioms MtailVerif.C18.never_two_streams_per_path
#print axioms MtailVerif.C18.append_delivers_once
#print axioms MtailVerif.C18.pending_settled_at_poll
#print axioms MtailVerif.C18.tailer_shape
#print axioms MtailVerif.C18.after_poll_never_dir
#print axioms MtailVerif.C18.dispatch_skeletons
#print axioms MtailVerif.C18.f_tailer_tail_skeletons
#print axioms MtailVerif.C18.f_logstream_logstream_skeletons
