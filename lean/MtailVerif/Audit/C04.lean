import MtailVerif.Props.C04
open MtailVerif.C04
#print axioms verified_line_never_faults
#print axioms verified_history_never_faults
#print axioms verifyProg_checked
#print axioms source_shape
#print axioms MtailVerif.VM.Verify.step_sound
#print axioms MtailVerif.VM.Verify.run_sound
#print axioms MtailVerif.C04.exec_skeletons
#print axioms MtailVerif.C04.compare_skeletons
#print axioms MtailVerif.C04.codegenBefore_skeletons
#print axioms MtailVerif.C04.codegenAfter_skeletons
#print axioms MtailVerif.C04.checkerBefore_skeletons
#print axioms MtailVerif.C04.checkerAfter_skeletons
#print axioms MtailVerif.C04.f_codegen_codegen_skeletons
#print axioms MtailVerif.C04.f_vm_vm_skeletons
