import MtailVerif.Props.C26
#print axioms MtailVerif.C26.load_filters_shape
#print axioms MtailVerif.C26.ineligible_never_loaded
#print axioms MtailVerif.C26.compileAndRun_other_handles
#print axioms MtailVerif.C26.loaded_runs_latest
#print axioms MtailVerif.C26.unchanged_keeps_running
#print axioms MtailVerif.C26.broken_keeps_previous
#print axioms MtailVerif.C26.unloaded_has_no_handle
#print axioms MtailVerif.C26.loader_skeletons
#print axioms MtailVerif.C26.f_runtime_runtime_skeletons
