import MtailVerif.Props.C24
open MtailVerif.C24
#print axioms errors_never_retracted
#print axioms next_outside_decorator_rejected
#print axioms bad_literal_regex_rejected
#print axioms undeclared_name_rejected
#print axioms redeclared_name_rejected
#print axioms unused_declaration_rejected
#print axioms undeclared_identifier_reported
#print axioms undefined_capref_reported
#print axioms undefined_decorator_reported
#print axioms redeclaration_reported
#print axioms overlong_regex_reported
#print axioms overlong_fragment_reported
#print axioms recorded_fragments_bounded
#print axioms invalid_regex_reported
#print axioms unused_declaration_reported
#print axioms literal_zero_divisor_reported
#print axioms MtailVerif.C24.symbols_skeletons
#print axioms MtailVerif.C24.checkerBefore_skeletons
#print axioms MtailVerif.C24.checkerAfter_skeletons
#print axioms MtailVerif.C24.patternEval_skeletons
#print axioms MtailVerif.C24.optBefore_skeletons
#print axioms MtailVerif.C24.optAfter_skeletons
