import MtailVerif.Model.AcceptRace
namespace MtailVerif.AcceptRace

/-- counting first: the count covers every handler and the connection being accepted; once the
    lines channel is closed there is no handler and none can start -/
def Inv (s : S) : Prop :=
  s.bad = false ∧
  s.count = s.handlers + (if s.apc = .inAccept ∨ s.apc = .accepted then 1 else 0) ∧
  (s.cpc = .linesClosed → s.handlers = 0 ∧ s.apc ≠ .accepted) ∧
  (s.cpc ≠ .waiting → s.listening = false)

theorem inv_init : Inv {} := by simp [Inv]

theorem inv_step (s s' : S) (a : Act) (hi : Inv s) (h : step true s a = some s') : Inv s' := by
  obtain ⟨hb, hc, hl, hw⟩ := hi
  cases a <;> simp only [step, if_true] at h
  · cases h; exact ⟨hb, hc, hl, hw⟩
  · split at h
    · cases h; rename_i hh
      refine ⟨hb, hc, ?_, ?_⟩ <;> simp_all
    · cases h
  · split at h
    · cases h; rename_i hh
      have h0 : s.handlers = 0 ∧ ¬ (s.apc = .inAccept ∨ s.apc = .accepted) := by
        by_cases hq : s.apc = .inAccept ∨ s.apc = .accepted
        · simp [hq] at hc; omega
        · simp [hq] at hc; exact ⟨by omega, hq⟩
      refine ⟨hb, hc, fun _ => ⟨h0.1, fun e => h0.2 (Or.inr e)⟩, ?_⟩
      intro _; exact hw (by simp [hh.1])
    · cases h
  · split at h
    · cases h; rename_i hh
      refine ⟨hb, ?_, ?_, hw⟩
      · simp [hc, hh]
      · intro hcl; exact ⟨(hl hcl).1, by simp⟩
    · cases h
  · split at h
    · cases h; rename_i hh
      refine ⟨hb, ?_, ?_, hw⟩
      · simp [hc, hh.1]
      · intro hcl
        have hlis := hw (by simp at hcl; simp [hcl])
        simp [hlis] at hh
    · cases h
  · split at h
    · cases h; rename_i hh
      refine ⟨hb, ?_, ?_, hw⟩
      · simp [hc, hh.1]
      · intro hcl; exact ⟨(hl hcl).1, by simp⟩
    · cases h
  · split at h
    · cases h; rename_i hh
      refine ⟨hb, ?_, ?_, hw⟩
      · simp [hc, hh]
      · intro hcl; exact absurd hh (hl hcl).2
    · cases h
  · split at h
    · cases h; rename_i hh
      refine ⟨?_, hc, hl, hw⟩
      have : s.cpc ≠ .linesClosed := by
        intro hcl
        have := (hl hcl).1
        omega
      simp [hb, this]
    · cases h
  · split at h
    · cases h; rename_i hh
      refine ⟨hb, ?_, ?_, hw⟩
      · simp only [hc]; split <;> omega
      · intro hcl; have := (hl hcl); exact ⟨by simp; omega, this.2⟩
    · cases h

/-- with the count taken before `Accept`, no schedule of cancellation, connecting clients,
    handlers and the closer ever has a handler send on the closed lines channel -/
theorem count_first_never_sends_on_closed (acts : List Act) (s : S) (h : run true {} acts = some s) :
    s.bad = false := by
  have : ∀ (acts : List Act) (s0 : S), Inv s0 → run true s0 acts = some s → Inv s := by
    intro acts
    induction acts with
    | nil => intro s0 hi hr; simp [run] at hr; subst hr; exact hi
    | cons a rest ih =>
      intro s0 hi hr
      simp only [run] at hr
      cases hs : step true s0 a with
      | none => simp [hs] at hr
      | some s1 => simp [hs] at hr; exact ih s1 (inv_step s0 s1 a hi hs) hr
  exact (this acts {} inv_init h).1

/-- counted after `Accept` (the source before 5065e9bc), this schedule is possible: a client is
    accepted, the stream is cancelled, the closer finds the count at zero and closes the lines
    channel, and the handler that is then started sends on it -/
theorem count_after_can_send_on_closed :
    (run false {} [.acceptOk, .cancel, .closeListener, .closeLines, .loopAdd, .spawn, .send]).map (·.bad) = some true := by
  decide

end MtailVerif.AcceptRace
