import MtailVerif.Model.CompilePipeline
namespace MtailVerif.CompilePipeline

def ExactlyOne {α : Type} (r : Ret α) : Prop := (r.val.isSome ∧ r.err = none) ∨ (r.val = none ∧ r.err.isSome)

/-- an error, when there is one, lists at least one message -/
def ErrNonEmpty {α : Type} (r : Ret α) : Prop := ∀ l, r.err = some l → l ≠ []

theorem passRet_cases {α : Type} (errors : List String) (node : α) :
    (passRet errors node = ⟨some node, none⟩ ∧ errors = []) ∨
    (passRet errors node = ⟨some node, some errors⟩ ∧ errors ≠ []) := by
  unfold passRet
  cases errors with
  | nil => left; simp
  | cons e es => right; simp

theorem codegenRet_ok {β : Type} (errors : List String) (obj : β) :
    ExactlyOne (codegenRet errors obj) ∧ ErrNonEmpty (codegenRet errors obj) := by
  unfold codegenRet ExactlyOne ErrNonEmpty
  cases errors with
  | nil => simp
  | cons e es => simp

theorem compile_ok {S A O : Type} (st : Stages S A O) (optimisation : Bool) (src : S) :
    ExactlyOne (compile st optimisation src) ∧
    (((st.parse src).1 ≠ 0 → (st.parse src).2.1 ≠ []) → ErrNonEmpty (compile st optimisation src)) := by
  unfold compile
  simp only
  -- parse
  by_cases hp : (st.parse src).1 ≠ 0 ∨ (st.parse src).2.1 ≠ []
  · simp only [parseRet, hp, if_true]
    refine ⟨Or.inr ⟨rfl, rfl⟩, fun hy l hl => ?_⟩
    simp at hl; subst hl
    rcases hp with h | h
    · exact hy h
    · exact h
  · simp only [parseRet, hp, if_false]
    -- first optimisation
    have step : ∀ (r : Ret A) (k : A → Ret O), (∃ a, (r = ⟨some a, none⟩) ∨ (∃ e, r = ⟨some a, some e⟩ ∧ e ≠ [])) →
        (∀ a, ExactlyOne (k a) ∧ ErrNonEmpty (k a)) →
        ExactlyOne (match r.err, r.val with
          | some e, _ => ⟨none, some e⟩
          | none, none => ⟨none, none⟩
          | none, some a => k a) ∧
        ErrNonEmpty (match r.err, r.val with
          | some e, _ => ⟨none, some e⟩
          | none, none => ⟨none, none⟩
          | none, some a => k a) := by
      intro r k hr hk
      obtain ⟨a, h | ⟨e, h, hne⟩⟩ := hr
      · subst h; exact hk a
      · subst h
        refine ⟨Or.inr ⟨rfl, rfl⟩, fun l hl => ?_⟩
        simp at hl; subst hl; exact hne
    have pass : ∀ (b : Bool) (f : A → List String × A) (a : A),
        ∃ a', ((if b then passRet (f a).1 (f a).2 else (⟨some a, none⟩ : Ret A)) = ⟨some a', none⟩) ∨
          (∃ e, (if b then passRet (f a).1 (f a).2 else (⟨some a, none⟩ : Ret A)) = ⟨some a', some e⟩ ∧ e ≠ []) := by
      intro b f a
      cases b with
      | false => exact ⟨a, Or.inl rfl⟩
      | true =>
        rcases passRet_cases (f a).1 (f a).2 with ⟨h, _⟩ | ⟨h, hne⟩
        · exact ⟨(f a).2, Or.inl (by simpa using h)⟩
        · exact ⟨(f a).2, Or.inr ⟨_, by simpa using h, hne⟩⟩
    have all := step _ (fun a1 =>
        match (passRet (st.check a1).1 (st.check a1).2).err, (passRet (st.check a1).1 (st.check a1).2).val with
        | some e, _ => ⟨none, some e⟩
        | none, none => ⟨none, none⟩
        | none, some a2 =>
          match (if optimisation then passRet (st.optimise a2).1 (st.optimise a2).2 else ⟨some a2, none⟩ : Ret A).err,
                (if optimisation then passRet (st.optimise a2).1 (st.optimise a2).2 else ⟨some a2, none⟩ : Ret A).val with
          | some e, _ => ⟨none, some e⟩
          | none, none => ⟨none, none⟩
          | none, some a3 => codegenRet (st.codegen a3).1 (st.codegen a3).2)
      (pass optimisation st.optimise (st.parse src).2.2)
      (fun a1 => step _ _ (pass true st.check a1 |> fun h => by simpa using h)
        (fun a2 => step _ _ (pass optimisation st.optimise a2) (fun a3 => codegenRet_ok _ _)))
    exact ⟨all.1, fun _ => all.2⟩

end MtailVerif.CompilePipeline
