import MtailVerif.Proofs.IRStmt
/-! From the step relation to `VM.runLine`, and the compiler-correctness theorem for the core language. -/
namespace MtailVerif.IR
open MtailVerif MtailVerif.VM

variable {o : Oracle} {p : Prog} {inp : Input}

theorem run_of_steps {a b : VC} (h : Steps o p inp a b) :
    ∃ k, ∀ fuel, run o p inp (fuel + k) a.t a.st a.memo = run o p inp fuel b.t b.st b.memo := by
  induction h with
  | refl c => exact ⟨0, fun _ => rfl⟩
  | cons hf hs _ ih =>
    obtain ⟨k, hk⟩ := ih
    refine ⟨k + 1, fun fuel => ?_⟩
    have e : fuel + (k + 1) = (fuel + k) + 1 := by omega
    rw [e, run, hf]
    simp only [hs]
    exact hk fuel

theorem run_of_halts {a : VC} {out : Outcome} {st : MStore} {memo : Memo} (h : Halts o p inp a out st memo) :
    ∃ k, ∀ fuel, k ≤ fuel → run o p inp fuel a.t a.st a.memo = ⟨out, st, memo⟩ := by
  induction h with
  | stop hf hs =>
    refine ⟨1, fun fuel hk => ?_⟩
    obtain ⟨f, rfl⟩ : ∃ f, fuel = f + 1 := ⟨fuel - 1, by omega⟩
    rw [run, hf]; simp only [hs]
  | err hf hs =>
    refine ⟨1, fun fuel hk => ?_⟩
    obtain ⟨f, rfl⟩ : ∃ f, fuel = f + 1 := ⟨fuel - 1, by omega⟩
    rw [run, hf]; simp only [hs]
  | fault hf hs =>
    refine ⟨1, fun fuel hk => ?_⟩
    obtain ⟨f, rfl⟩ : ∃ f, fuel = f + 1 := ⟨fuel - 1, by omega⟩
    rw [run, hf]; simp only [hs]
  | cons hf hs _ ih =>
    obtain ⟨k, hk⟩ := ih
    refine ⟨k + 1, fun fuel hfu => ?_⟩
    obtain ⟨f, rfl⟩ : ∃ f, fuel = f + 1 := ⟨fuel - 1, by omega⟩
    rw [run, hf]; simp only [hs]
    exact hk f (by omega)

/-- **Compiler correctness for the core language.**  If the VM's program is the code generated
    for the statements `prog` (with whatever string, regular-expression and metric tables), then
    for every line, every metric store, every strptime memo and every behaviour of the standard
    library, running the bytecode gives exactly the outcome (normal end, `stop`, the same checked
    runtime error, or the same internal fault), the store and the memo that the reference
    semantics defines — for every program outside the two `otherwise`/`else` shapes. -/
theorem compile_correct (prog : Ss) (hok : okSs prog = true) (p : Prog) (hp : p.code = emitSs prog 0)
    (o : Oracle) (inp : Input) (st : MStore) (memo : Memo) :
    ∃ k, ∀ fuel, k ≤ fuel → runLine o p fuel inp st memo = semLine o p prog inp st memo := by
  have hc : CodeAt p.code ({} : Thread).pc (emitSs prog ({} : Thread).pc) :=
    ⟨[], [], by simp [hp], rfl⟩
  have h := sim_Ss (o := o) (inp := inp) prog hok {} ⟨norm {}, st, memo⟩ false hc rfl (fun _ => rfl)
  unfold semLine runLine
  cases hr : execSs o p inp prog ⟨norm {}, st, memo⟩ false with
  | halt out st' memo' =>
    rw [hr] at h
    exact run_of_halts h
  | ok c' fl =>
    rw [hr] at h
    obtain ⟨tv', hs, _, hpc, _⟩ := h
    obtain ⟨k, hk⟩ := run_of_steps hs
    refine ⟨k + 1, fun fuel hfu => ?_⟩
    obtain ⟨f, rfl⟩ : ∃ f, fuel = (f + 1) + k := ⟨fuel - k - 1, by omega⟩
    have := hk (f + 1)
    simp only at this ⊢
    rw [this, run]
    have hend : p.code[tv'.pc]? = none := by
      rw [hpc, hp]
      simp
    rw [hend]

end MtailVerif.IR
