import MtailVerif.Model.Reload
namespace MtailVerif.Reload

def inflight (s : St) : List Nat :=
  match s.vms with
  | v :: _ => v.cur.toList
  | [] => []

/-- the invariant of the draining protocol: lines are, in arrival order, first the applied ones,
    then the one the current VM holds, then the one the fan-out holds; only the current VM is busy;
    instance numbers are fresh -/
structure Inv (s : St) : Prop where
  order : s.taken = s.applied ++ inflight s ++ s.pending.toList
  log : s.started.map (·.1) = s.applied ++ inflight s
  oldIdle : ∀ v ∈ s.vms.tail, v.cur = none
  fresh : ∀ v ∈ s.vms, v.inst < s.next
  distinct : (s.vms.map (·.inst)).Nodup

theorem inv_init : Inv {} := ⟨rfl, rfl, by simp, by simp, by simp⟩

theorem curOf_tail_none {i : Nat} {vs : List VM} (h : ∀ v ∈ vs, v.cur = none) : curOf i vs = none := by
  induction vs with
  | nil => rfl
  | cons v vs ih =>
    simp only [curOf]
    split
    · exact h v List.mem_cons_self
    · exact ih (fun w hw => h w (List.mem_cons_of_mem _ hw))

theorem setCur_inst (i : Nat) (c : Option Nat) (vs : List VM) : (setCur i c vs).map (·.inst) = vs.map (·.inst) := by
  induction vs with
  | nil => rfl
  | cons v vs ih =>
    simp only [setCur]
    split
    · simp
    · simp [ih]

theorem setCur_none_idle {i : Nat} {vs : List VM} (h : ∀ v ∈ vs, v.cur = none) :
    ∀ v ∈ setCur i none vs, v.cur = none := by
  induction vs with
  | nil => simp [setCur]
  | cons v vs ih =>
    intro w hw
    simp only [setCur] at hw
    split at hw
    · rcases List.mem_cons.mp hw with rfl | hw
      · rfl
      · exact h w (List.mem_cons_of_mem _ hw)
    · rcases List.mem_cons.mp hw with rfl | hw
      · exact h _ List.mem_cons_self
      · exact ih (fun x hx => h x (List.mem_cons_of_mem _ hx)) w hw

theorem setCur_mem_inst {i : Nat} {c : Option Nat} {vs : List VM} {w : VM} (h : w ∈ setCur i c vs) :
    ∃ v ∈ vs, v.inst = w.inst := by
  induction vs with
  | nil => simp [setCur] at h
  | cons v vs ih =>
    simp only [setCur] at h
    split at h
    · rcases List.mem_cons.mp h with rfl | h
      · exact ⟨v, List.mem_cons_self, rfl⟩
      · exact ⟨w, List.mem_cons_of_mem _ h, rfl⟩
    · rcases List.mem_cons.mp h with rfl | h
      · exact ⟨_, List.mem_cons_self, rfl⟩
      · obtain ⟨x, hx, hxe⟩ := ih h
        exact ⟨x, List.mem_cons_of_mem _ hx, hxe⟩

/-- one action of the draining protocol preserves the invariant -/
theorem inv_step {s s' : St} {a : Act} (hi : Inv s) (h : step true s a = some s') : Inv s' := by
  obtain ⟨ho, hl, hold, hf, hd⟩ := hi
  cases a with
  | take l =>
    simp only [step] at h
    cases hp : s.pending with
    | some x => simp [hp] at h
    | none =>
      simp only [hp, Option.some.injEq] at h; subst h
      refine ⟨?_, hl, hold, hf, hd⟩
      simp only [inflight] at ho ⊢
      simp [ho, hp]
  | hand =>
    simp only [step] at h
    split at h
    · cases h
    · cases hp : s.pending with
      | none => simp [hp] at h
      | some l =>
        cases hv : s.vms with
        | nil => simp [hp, hv] at h
        | cons v vs =>
          simp only [hp, hv] at h
          cases hc : v.cur with
          | some x => simp [hc] at h
          | none =>
            simp only [hc, Option.some.injEq] at h; subst h
            refine ⟨?_, ?_, ?_, ?_, ?_⟩
            · simp only [inflight, hv, hc, hp] at ho ⊢
              simp [ho]
            · simp only [inflight, hv, hc] at hl ⊢
              simp [hl]
            · simpa [hv] using hold
            · intro w hw
              rcases List.mem_cons.mp hw with rfl | hw
              · exact hf v (by simp [hv])
              · exact hf w (by simp [hv, hw])
            · simpa [hv] using hd
  | finish i =>
    simp only [step] at h
    cases hc : curOf i s.vms with
    | none => simp [hc] at h
    | some l =>
      simp only [hc, Option.some.injEq] at h; subst h
      -- the busy VM is the head
      cases hv : s.vms with
      | nil => simp [hv, curOf] at hc
      | cons v vs =>
        have htail : ∀ w ∈ vs, w.cur = none := by simpa [hv] using hold
        simp only [hv, curOf] at hc
        split at hc
        · next hvi =>
          refine ⟨?_, ?_, ?_, ?_, ?_⟩
          · simp only [inflight, hv, hc, setCur, hvi, if_true] at ho ⊢
            simp [ho]
          · simp only [inflight, hv, hc, setCur, hvi, if_true] at hl ⊢
            simp [hl]
          · simp only [setCur, hvi, if_true, List.tail_cons]; exact htail
          · intro w hw
            simp only [setCur, hvi, if_true] at hw
            rcases List.mem_cons.mp hw with rfl | hw
            · have h1 := hf v (by simp [hv])
              simp only; omega
            · exact hf w (by simp [hv, hw])
          · simpa [setCur, hvi, hv] using hd
        · rw [curOf_tail_none htail] at hc; cases hc
  | beginSwap =>
    simp only [step] at h
    split at h
    · cases h
    · simp only [Option.some.injEq] at h; subst h
      exact ⟨ho, hl, hold, hf, hd⟩
  | endSwap =>
    simp only [step] at h
    split at h
    · cases h
    · split at h
      · cases h
      · next hnb =>
        simp only [Option.some.injEq] at h; subst h
        -- the old handle is idle
        have hidle : inflight s = [] := by
          simp only [Bool.true_and, Bool.not_eq_true] at hnb
          simp only [inflight]
          cases hv : s.vms with
          | nil => rfl
          | cons v vs =>
            simp only [oldBusy, hv] at hnb
            cases hc : v.cur with
            | none => simp [hc]
            | some x => simp [hc] at hnb
        refine ⟨?_, ?_, ?_, ?_, ?_⟩
        · rw [hidle] at ho
          simp only [inflight]
          simpa using ho
        · rw [hidle] at hl
          simp only [inflight]
          simpa using hl
        · intro w hw
          simp only [List.tail_cons] at hw
          cases hv : s.vms with
          | nil => simp [hv] at hw
          | cons v vs =>
            rw [hv] at hw
            rcases List.mem_cons.mp hw with rfl | hw
            · have := hidle; simp only [inflight, hv] at this
              cases hc : w.cur with
              | none => rfl
              | some x => simp [hc] at this
            · exact hold w (by simp [hv, hw])
        · intro w hw
          rcases List.mem_cons.mp hw with rfl | hw
          · simp
          · have := hf w hw; show w.inst < s.next + 1; omega
        · simp only [List.map_cons, List.nodup_cons]
          refine ⟨?_, hd⟩
          intro hmem
          obtain ⟨w, hw, hwe⟩ := List.mem_map.mp hmem
          have := hf w hw
          omega

theorem inv_run {s s' : St} (hi : Inv s) : ∀ (as : List Act), run true s as = some s' → Inv s' := by
  intro as
  induction as generalizing s with
  | nil => intro h; simp only [run, Option.some.injEq] at h; exact h ▸ hi
  | cons a as ih =>
    intro h
    simp only [run] at h
    cases hs : step true s a with
    | none => simp [hs] at h
    | some s1 =>
      simp only [hs, Option.bind_some] at h
      exact ih (inv_step hi hs) h

end MtailVerif.Reload
