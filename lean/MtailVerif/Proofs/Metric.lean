import MtailVerif.Model.MetricSpec
/-! C09: the slice + index representation refines the insertion-ordered map. -/
namespace MtailVerif.Metric
variable {V : Type}

/-! list-level views of the slice, by labels -/
def findL (l : List Bytes) : List (LV V) → Option (LV V)
  | [] => none
  | lv :: rest => if lv.labels = l then some lv else findL l rest

def eraseL (l : List Bytes) : List (LV V) → List (LV V)
  | [] => []
  | lv :: rest => if lv.labels = l then rest else lv :: eraseL l rest

def modL (l : List Bytes) (f : LV V → LV V) : List (LV V) → List (LV V)
  | [] => []
  | lv :: rest => if lv.labels = l then f lv :: rest else lv :: modL l f rest

def K (lv : LV V) : Bytes × Nat := (Key.encode lv.labels, lv.id)
def toEntry (lv : LV V) : Entry V := ⟨lv.labels, lv.value, lv.expiry⟩

/-- representation invariant -/
structure Inv (m : Metric V) : Prop where
  index_eq : m.index = m.lvs.map K
  ids_lt : ∀ lv ∈ m.lvs, lv.id < m.next
  ids_nodup : (m.lvs.map (·.id)).Nodup
  labels_nodup : (m.lvs.map (·.labels)).Nodup
  arity : ∀ lv ∈ m.lvs, lv.labels.length = m.nkeys

section
variable (hinj : ∀ a b : List Bytes, Key.encode a = Key.encode b → a = b)
include hinj

theorem lookup_map (l : List Bytes) (lvs : List (LV V)) :
    lookup (Key.encode l) (lvs.map K) = (findL l lvs).map (·.id) := by
  induction lvs with
  | nil => simp [lookup, findL]
  | cons lv rest ih =>
    simp only [List.map_cons, lookup, findL, K]
    by_cases h : lv.labels = l
    · simp [h]
    · have : Key.encode lv.labels ≠ Key.encode l := fun e => h (hinj _ _ e)
      simp [h, this, ih]

theorem erase_map (l : List Bytes) (lvs : List (LV V)) :
    erase (Key.encode l) (lvs.map K) = (eraseL l lvs).map K := by
  induction lvs with
  | nil => simp [erase, eraseL]
  | cons lv rest ih =>
    simp only [List.map_cons, erase, eraseL, K]
    by_cases h : lv.labels = l
    · simp [h]
    · have : Key.encode lv.labels ≠ Key.encode l := fun e => h (hinj _ _ e)
      simp [h, this, ih, K]

omit hinj in
theorem insert_absent (k : Bytes) (v : Nat) (idx : List (Bytes × Nat)) (h : lookup k idx = none) :
    insert k v idx = idx ++ [(k, v)] := by
  induction idx with
  | nil => simp [insert]
  | cons p rest ih =>
    obtain ⟨k', v'⟩ := p
    simp only [lookup] at h
    by_cases hk : k' = k
    · simp [hk] at h
    · simp only [hk, if_false] at h
      simp [insert, hk, ih h]
end

theorem findL_mem {l : List Bytes} {lvs : List (LV V)} {lv : LV V} (h : findL l lvs = some lv) :
    lv ∈ lvs ∧ lv.labels = l := by
  induction lvs with
  | nil => simp [findL] at h
  | cons x rest ih =>
    simp only [findL] at h
    by_cases hx : x.labels = l
    · simp [hx] at h; subst h; exact ⟨by simp, hx⟩
    · simp only [hx, if_false] at h
      exact ⟨List.mem_cons_of_mem _ (ih h).1, (ih h).2⟩

theorem findL_none {l : List Bytes} {lvs : List (LV V)} (h : findL l lvs = none) :
    l ∉ lvs.map (·.labels) := by
  induction lvs with
  | nil => simp
  | cons x rest ih =>
    simp only [findL] at h
    by_cases hx : x.labels = l
    · simp [hx] at h
    · simp only [hx, if_false] at h
      simp only [List.map_cons, List.mem_cons, not_or]
      exact ⟨fun e => hx e.symm, ih h⟩

theorem byId_findL {l : List Bytes} {lvs : List (LV V)} {lv : LV V}
    (hn : (lvs.map (·.id)).Nodup) (h : findL l lvs = some lv) : byId lv.id lvs = some lv := by
  induction lvs with
  | nil => simp [findL] at h
  | cons x rest ih =>
    simp only [findL] at h
    simp only [List.map_cons, List.nodup_cons] at hn
    by_cases hx : x.labels = l
    · simp [hx] at h; subst h; simp [byId]
    · simp only [hx, if_false] at h
      have hm := (findL_mem h).1
      have : x.id ≠ lv.id := fun e => hn.1 (e ▸ List.mem_map_of_mem hm)
      simp [byId, this, ih hn.2 h]

theorem spliceOut_findL {l : List Bytes} {lvs : List (LV V)} {lv : LV V}
    (hn : (lvs.map (·.id)).Nodup) (h : findL l lvs = some lv) :
    spliceOut lv.id lvs = some (eraseL l lvs) := by
  induction lvs with
  | nil => simp [findL] at h
  | cons x rest ih =>
    simp only [findL] at h
    simp only [List.map_cons, List.nodup_cons] at hn
    by_cases hx : x.labels = l
    · simp [hx] at h; subst h; simp [spliceOut, eraseL, hx]
    · simp only [hx, if_false] at h
      have hm := (findL_mem h).1
      have : x.id ≠ lv.id := fun e => hn.1 (e ▸ List.mem_map_of_mem hm)
      simp [spliceOut, eraseL, hx, this, ih hn.2 h]

theorem mapId_findL {l : List Bytes} {lvs : List (LV V)} {lv : LV V} (f : LV V → LV V)
    (hn : (lvs.map (·.id)).Nodup) (h : findL l lvs = some lv) :
    mapId lv.id f lvs = modL l f lvs := by
  induction lvs with
  | nil => simp [findL] at h
  | cons x rest ih =>
    simp only [findL] at h
    simp only [List.map_cons, List.nodup_cons] at hn
    by_cases hx : x.labels = l
    · simp [hx] at h; subst h; simp [mapId, modL, hx]
    · simp only [hx, if_false] at h
      have hm := (findL_mem h).1
      have : x.id ≠ lv.id := fun e => hn.1 (e ▸ List.mem_map_of_mem hm)
      simp [mapId, modL, hx, this, ih hn.2 h]

theorem eraseL_sublist (l : List Bytes) (lvs : List (LV V)) : (eraseL l lvs).Sublist lvs := by
  induction lvs with
  | nil => simp [eraseL]
  | cons x rest ih =>
    simp only [eraseL]
    split
    · exact List.sublist_cons_self _ _
    · exact ih.cons_cons _

theorem modL_map (l : List Bytes) (f : LV V → LV V) (g : LV V → α) (hg : ∀ lv, g (f lv) = g lv)
    (lvs : List (LV V)) : (modL l f lvs).map g = lvs.map g := by
  induction lvs with
  | nil => simp [modL]
  | cons x rest ih =>
    simp only [modL]
    split <;> simp [hg, ih]

theorem modL_mem {l : List Bytes} {f : LV V → LV V} {lvs : List (LV V)} {y : LV V}
    (h : y ∈ modL l f lvs) : ∃ x ∈ lvs, y = x ∨ y = f x := by
  induction lvs with
  | nil => simp [modL] at h
  | cons x rest ih =>
    simp only [modL] at h
    split at h
    · simp only [List.mem_cons] at h
      rcases h with h | h
      · exact ⟨x, by simp, Or.inr h⟩
      · exact ⟨y, by simp [h], Or.inl rfl⟩
    · simp only [List.mem_cons] at h
      rcases h with h | h
      · exact ⟨x, by simp, Or.inl h⟩
      · obtain ⟨z, hz, hyz⟩ := ih h
        exact ⟨z, by simp [hz], hyz⟩

/-! abstraction commutes with the list-level views -/
theorem findS_abs (l : List Bytes) (lvs : List (LV V)) :
    findS l (lvs.map toEntry) = (findL l lvs).map toEntry := by
  induction lvs with
  | nil => simp [findS, findL]
  | cons x rest ih =>
    simp only [List.map_cons, findS, findL, toEntry]
    split <;> simp_all [toEntry]

theorem eraseS_abs (l : List Bytes) (lvs : List (LV V)) :
    eraseS l (lvs.map toEntry) = (eraseL l lvs).map toEntry := by
  induction lvs with
  | nil => simp [eraseS, eraseL]
  | cons x rest ih =>
    simp only [List.map_cons, eraseS, eraseL, toEntry]
    split <;> simp_all [toEntry]

theorem modS_abs (l : List Bytes) (f : LV V → LV V) (g : Entry V → Entry V)
    (hfg : ∀ lv, toEntry (f lv) = g (toEntry lv)) (lvs : List (LV V)) :
    modS l g (lvs.map toEntry) = (modL l f lvs).map toEntry := by
  induction lvs with
  | nil => simp [modS, modL]
  | cons x rest ih =>
    simp only [List.map_cons, modS, modL]
    have : (toEntry x).labels = x.labels := rfl
    rw [this]
    split <;> simp_all

theorem abs_eq (m : Metric V) : abs m = m.lvs.map toEntry := rfl

end MtailVerif.Metric
