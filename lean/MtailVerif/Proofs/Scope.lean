import MtailVerif.Model.Scope
/-! Facts about the scope model: errors only accumulate; each clause reports its error when reached. -/
namespace MtailVerif.Scope
open MtailVerif MtailVerif.Ast

/-- `a ≼ b`: the error list of `b` extends that of `a` -/
def Ext (a b : St) : Prop := ∃ more, b.errors = a.errors ++ more

theorem Ext.refl (a : St) : Ext a a := ⟨[], by simp⟩
theorem Ext.trans {a b c : St} (h1 : Ext a b) (h2 : Ext b c) : Ext a c := by
  obtain ⟨m1, e1⟩ := h1; obtain ⟨m2, e2⟩ := h2
  exact ⟨m1 ++ m2, by rw [e2, e1, List.append_assoc]⟩

theorem ext_of_errors_eq {a b : St} (h : b.errors = a.errors) : Ext a b := ⟨[], by simp [h]⟩
theorem ext_err (s : St) (c : Cls) (p : Option Pos) : Ext s (s.err c p) := ⟨[⟨c, p⟩], rfl⟩

theorem ext_leave {s : St} {k : St → St} (hk : ∀ x, Ext x (k x)) : Ext s (leave s k) := by
  unfold leave
  split
  · exact Ext.refl s
  · exact Ext.trans (hk s) (ext_of_errors_eq rfl)

theorem ext_cut (s : St) : Ext s (cut s) := ext_of_errors_eq rfl
theorem ext_push (s : St) (f : Frame) : Ext s (push s f) := ext_of_errors_eq rfl
theorem ext_pop (s : St) : Ext s (pop s) := ext_of_errors_eq rfl
theorem ext_markUsed (s : St) (i : Nat) : Ext s (markUsed s i) := by
  unfold markUsed; split <;> exact ext_of_errors_eq rfl

theorem ext_depthCut (cfg : Cfg) (n : Node) (s : St) : Ext s (depthCut cfg n s) := by
  unfold depthCut
  simp only
  split
  · exact ext_of_errors_eq rfl
  · exact ⟨[⟨.tooDeep, posOf n⟩], rfl⟩

theorem ext_foldl {α : Type} (f : St → α → St) (hf : ∀ s a, Ext s (f s a)) (l : List α) (s : St) :
    Ext s (l.foldl f s) := by
  induction l generalizing s with
  | nil => exact Ext.refl s
  | cons a l ih => exact Ext.trans (hf s a) (ih (f s a))

theorem ext_sweep (s : St) : Ext s (sweep s) := by
  unfold sweep
  split
  · exact Ext.refl s
  · refine ext_foldl _ ?_ _ s
    intro s e
    split
    · split
      · exact Ext.refl s
      · split
        · exact Ext.refl s
        · exact ext_err s _ _
    · exact Ext.refl s

theorem ext_insertTop (s : St) (k : String) (i : Nat) : Ext s (insertTop s k i).1 := by
  unfold insertTop
  split
  · exact Ext.refl s
  · split <;> exact ext_of_errors_eq rfl

theorem ext_newSym (s : St) (n : String) (k : Kind) (p : Option Pos) (a : Nat) : Ext s (s.newSym n k p a).1 :=
  ext_of_errors_eq rfl

theorem ext_ite_err (x : St) (b : Bool) (c : Cls) (p : Option Pos) : Ext x (if b = true then x.err c p else x) := by
  cases b
  · simpa using Ext.refl x
  · simpa using ext_err x c p

theorem ext_insertOrErr (s : St) (k : String) (i : Nat) (p : Option Pos) : Ext s (insertOrErr s k i p) := by
  unfold insertOrErr
  split
  · exact Ext.trans (ext_insertTop s k i) (ext_err _ _ _)
  · exact ext_insertTop s k i

theorem ext_renameSym (s : St) (i : Nat) (n : String) : Ext s (renameSym s i n) := ext_of_errors_eq rfl

theorem ext_addGroup (p : Option Pos) (s : St) (e : String × Nat) : Ext s (addGroup p s e) := by
  unfold addGroup
  simp only
  split
  · exact Ext.trans (Ext.trans (Ext.trans (ext_newSym s _ _ _ _) (ext_insertOrErr _ _ _ _)) (ext_renameSym _ _ _))
      (ext_insertOrErr _ _ _ _)
  · exact Ext.trans (ext_newSym s _ _ _ _) (ext_insertOrErr _ _ _ _)

theorem ext_checkRegex (cfg : Cfg) (s : St) (pat : Bytes) (p : Option Pos) : Ext s (checkRegex cfg s pat p) := by
  unfold checkRegex
  split
  · exact ext_err s _ _
  · split
    · exact ext_err s _ _
    · split
      · exact Ext.refl s
      · exact ext_foldl _ (ext_addGroup p) _ s

theorem ext_addErrs (s : St) (es : List Err) : Ext s { s with errors := s.errors ++ es } := ⟨es, rfl⟩

theorem ext_evalCheck (cfg : Cfg) (e : Node) (p : Option Pos) (s : St) : Ext s (evalCheck cfg e p s) := by
  unfold evalCheck
  simp only
  split
  · exact ext_addErrs s _
  · exact Ext.trans (ext_addErrs s _) (ext_checkRegex cfg _ _ _)

theorem ext_guarded (cfg : Cfg) (n : Node) (k : St → St) (hk : ∀ x, Ext x (k x)) (s : St) :
    Ext s (guarded cfg n k s) := by
  unfold guarded
  split
  · exact ext_depthCut _ _ _
  · exact Ext.trans (ext_of_errors_eq rfl) (hk _)

theorem ext_leave' {f k : St → St} (hf : ∀ x, Ext x (f x)) (hk : ∀ x, Ext x (k x)) (s : St) :
    Ext s (leave (f s) k) := Ext.trans (hf s) (ext_leave hk)

theorem ext_declare (name : String) (k : Kind) (p : Option Pos) (c : Cls) (dp : Option Pos)
    (ok : Sym → St → St) (hok : ∀ sy x, Ext x (ok sy x)) (s : St) : Ext s (declare name k p c dp ok s) := by
  unfold declare
  simp only
  split
  · exact Ext.trans (Ext.trans (Ext.trans (ext_newSym s _ _ _ _) (ext_insertTop _ _ _)) (ext_err _ _ _)) (ext_cut _)
  · exact Ext.trans (Ext.trans (ext_newSym s _ _ _ _) (ext_insertTop _ _ _)) (hok _ _)

theorem ext_recordPattern (cfg : Cfg) (sy : Sym) (e : Node) (s : St) : Ext s (recordPattern cfg sy e s) := by
  unfold recordPattern
  simp only
  split
  · exact ext_addErrs s _
  · split
    · exact Ext.trans (ext_addErrs s _) (ext_err _ _ _)
    · exact Ext.trans (ext_addErrs s _) (ext_of_errors_eq rfl)

theorem ext_closeDeco (sy : Sym) (w : Option Pos) (s : St) : Ext s (closeDeco sy w s) := by
  unfold closeDeco
  split
  · exact Ext.refl s
  · simp only
    split
    · exact Ext.trans (ext_err s _ _) (ext_of_errors_eq rfl)
    · exact ext_of_errors_eq rfl

theorem ext_doNext (p : Pos) (s : St) : Ext s (doNext p s) := by
  unfold doNext
  split
  · exact ext_err s _ _
  · split
    · exact ext_err s _ _
    · exact ext_of_errors_eq rfl

theorem ext_id (s : St) : Ext s (id s) := Ext.refl s

theorem ext_idK (name : String) (p : Pos) (s : St) : Ext s (idK name p s) := by
  unfold idK
  split
  · exact Ext.trans (ext_markUsed s _) (ext_leave ext_id)
  · split
    · exact Ext.trans (ext_markUsed s _) (ext_leave ext_id)
    · exact Ext.trans (ext_err s _ _) (ext_cut _)

theorem ext_capK (name : String) (p : Pos) (s : St) : Ext s (capK name p s) := by
  unfold capK
  split
  · exact Ext.trans (ext_markUsed s _) (ext_leave ext_id)
  · exact Ext.trans (ext_err s _ _) (ext_cut _)

theorem ext_declK (d : Decl) (p : Pos) (s : St) : Ext s (declK d p s) := by
  unfold declK
  refine ext_declare _ _ _ _ _ _ (fun sy x => ?_) s
  split
  · exact Ext.trans (ext_err x _ _) (ext_cut _)
  · exact ext_leave ext_id

theorem ext_decoK (name : String) (w : Option Pos) (wb : St → St) (hwb : ∀ x, Ext x (wb x)) (s : St) :
    Ext s (decoK name w wb s) := by
  unfold decoK
  split
  · exact Ext.trans (ext_err s _ _) (ext_cut _)
  · split
    · exact Ext.trans (Ext.trans (ext_markUsed s _) (ext_err _ _ _)) (ext_cut _)
    · exact Ext.trans (Ext.trans (Ext.trans (ext_markUsed s _) (ext_push _ _)) (hwb _)) (ext_leave ext_pop)

theorem ext_constK (cfg : Cfg) (i e : Node) (we : St → St) (hwe : ∀ x, Ext x (we x)) (s : St) :
    Ext s (constK cfg i e we s) := by
  unfold constK
  split
  · exact ext_declare _ _ _ _ _ _ (fun sy y => Ext.trans (hwe y) (ext_leave (ext_recordPattern cfg sy e))) s
  · exact ext_cut s

theorem ext_matchK (cfg : Cfg) (op : Op) (r : Node) (s : St) : Ext s (matchK cfg op r s) := by
  unfold matchK
  split
  · exact ext_guarded _ _ _ (ext_evalCheck cfg r (posOf r)) s
  · exact Ext.refl s

theorem ext_idxK (cfg : Cfg) (lhs : Node) (s : St) : Ext s (idxK cfg lhs s) := by
  unfold idxK
  split
  · exact ext_evalCheck cfg lhs (posOf lhs) s
  · exact Ext.refl s

theorem ext_substK (name : String) (b : Bool) (s : St) : Ext s (substK name b s) := by
  unfold substK
  split
  · exact ext_of_errors_eq rfl
  · exact Ext.refl s

mutual
theorem walk_ext (cfg : Cfg) : ∀ (n : Node) (s : St), Ext s (walk cfg n s)
  | .nil, s => by rw [walk]; exact Ext.refl s
  | .error _ _, s => by rw [walk]; exact Ext.refl s
  | .stmts cs, s => by
    rw [walk]
    exact ext_guarded _ _ _ (fun x => Ext.trans (Ext.trans (ext_push x []) (walkList_ext cfg cs _))
      (ext_leave fun y => Ext.trans (ext_sweep y) (ext_pop _))) s
  | .exprs cs, s => by
    rw [walk]
    exact ext_guarded _ _ _ (fun x => Ext.trans (walkList_ext cfg cs x) (ext_leave ext_id)) s
  | .cond c t e, s => by
    rw [walk]
    exact ext_guarded _ _ _ (fun x => Ext.trans (Ext.trans (Ext.trans (Ext.trans (ext_push x []) (walk_ext cfg c _))
      (walk_ext cfg t _)) (walk_ext cfg e _)) (ext_leave fun y => Ext.trans (ext_sweep y) (ext_pop _))) s
  | .id name p ty, s => by rw [walk]; exact ext_guarded _ _ _ (ext_idK name p) s
  | .cap name nd p ty, s => by rw [walk]; exact ext_guarded _ _ _ (ext_capK name p) s
  | .builtin name args p ty, s => by
    rw [walk]
    exact ext_guarded _ _ _ (fun x => Ext.trans (Ext.trans (ext_substK name true x) (walk_ext cfg args _))
      (ext_leave (ext_substK name false))) s
  | .bin op l r ty, s => by
    rw [walk]
    exact ext_guarded _ _ _ (fun x => Ext.trans (Ext.trans (walk_ext cfg l x) (walk_ext cfg r _))
      (ext_leave (ext_matchK cfg op r))) s
  | .un op e p ty, s => by
    rw [walk]
    exact ext_guarded _ _ _ (fun x => Ext.trans (walk_ext cfg e x) (ext_leave ext_id)) s
  | .idx lhs index ty, s => by
    rw [walk]
    exact ext_guarded _ _ _ (fun x => Ext.trans (Ext.trans (walk_ext cfg index x) (walk_ext cfg lhs _))
      (ext_leave (ext_idxK cfg lhs))) s
  | .decl d p, s => by rw [walk]; exact ext_guarded _ _ _ (ext_declK d p) s
  | .str t p, s => by rw [walk]; exact ext_guarded _ _ _ (fun x => ext_leave ext_id) s
  | .int i p, s => by rw [walk]; exact ext_guarded _ _ _ (fun x => ext_leave ext_id) s
  | .float b p, s => by rw [walk]; exact ext_guarded _ _ _ (fun x => ext_leave ext_id) s
  | .patlit t p, s => by rw [walk]; exact ext_guarded _ _ _ (fun x => ext_leave ext_id) s
  | .patexpr e pt, s => by
    rw [walk]
    exact ext_guarded _ _ _ (fun x => Ext.trans (walk_ext cfg e x) (ext_leave (ext_evalCheck cfg e (posOf e)))) s
  | .const i e pt, s => by
    rw [walk]
    exact ext_guarded _ _ _ (ext_constK cfg i e _ (walk_ext cfg e)) s
  | .decodecl name block p, s => by
    rw [walk]
    exact ext_guarded _ _ _ (ext_declare _ _ _ _ _ _ (fun sy y =>
      Ext.trans (Ext.trans (ext_of_errors_eq (b := openDecoScope y) rfl) (walk_ext cfg block _))
        (ext_leave (ext_closeDeco sy _)))) s
  | .deco name block p, s => by
    rw [walk]
    exact ext_guarded _ _ _ (ext_decoK name _ _ (walk_ext cfg block)) s
  | .next p, s => by rw [walk]; exact ext_guarded _ _ _ (fun x => ext_leave (ext_doNext p)) s
  | .otherwise p, s => by rw [walk]; exact ext_guarded _ _ _ (fun x => ext_leave ext_id) s
  | .stop p, s => by rw [walk]; exact ext_guarded _ _ _ (fun x => ext_leave ext_id) s
  | .del n ex p, s => by
    rw [walk]
    exact ext_guarded _ _ _ (fun x => Ext.trans (walk_ext cfg n x) (ext_leave ext_id)) s
  | .conv n ty, s => by
    rw [walk]
    exact ext_guarded _ _ _ (fun x => Ext.trans (walk_ext cfg n x) (ext_leave ext_id)) s
theorem walkList_ext (cfg : Cfg) : ∀ (ns : Nodes) (s : St), Ext s (walkList cfg ns s)
  | .nil, s => by rw [walkList]; exact Ext.refl s
  | .cons n ns, s => by rw [walkList]; exact Ext.trans (walk_ext cfg n s) (walkList_ext cfg ns _)
end

end MtailVerif.Scope
