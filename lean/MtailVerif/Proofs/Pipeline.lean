import MtailVerif.Model.Pipeline
namespace MtailVerif.Pipeline
open MtailVerif

theorem sum_set (l : List Nat) (i : Nat) (x y : Nat) (h : l[i]? = some y) : (l.set i x).sum + y = l.sum + x := by
  induction l generalizing i with
  | nil => simp at h
  | cons a rest ih =>
    cases i with
    | zero => simp at h; subst h; simp; omega
    | succ i =>
      simp only [List.getElem?_cons_succ] at h
      simp only [List.set_cons_succ, List.sum_cons]
      have := ih i h; omega

structure Inv (files : List (List Bytes)) (s : St) : Prop where
  nfiles : s.remaining.length = files.length
  split : ∀ i, i < files.length → projFile i s.arrived ++ (s.remaining[i]?.getD []) = (files[i]?.getD [])
  behind : ∀ d ∈ s.done, d ≤ s.arrived.length
  known : ∀ x ∈ s.arrived, x.1 < files.length

theorem inv_init (files : List (List Bytes)) (nvm : Nat) : Inv files (init files nvm) := by
  refine ⟨rfl, ?_, ?_, ?_⟩
  · intro i _; simp [init, projFile]
  · intro d hd; simp [init] at hd; simp [hd.2, init]
  · intro x hx; simp [init] at hx

theorem projFile_append (i : Nat) (a b : List Line) : projFile i (a ++ b) = projFile i a ++ projFile i b := by
  simp [projFile, List.filter_append]

theorem inv_step (files : List (List Bytes)) (s : St) (hi : Inv files s) (a : Act) (he : enabled s a = true) :
    Inv files (step s a) := by
  cases a with
  | emit i =>
    simp only [enabled] at he
    cases hr : s.remaining[i]? with
    | none => simp [hr] at he
    | some li =>
      cases li with
      | nil => simp [hr] at he
      | cons l rest =>
        have hil : i < s.remaining.length := (List.getElem?_eq_some_iff.mp hr).1
        simp only [step, hr]
        refine ⟨by simp [hi.nfiles], ?_, ?_, ?_⟩
        · intro j hj
          have hs := hi.split j hj
          by_cases hji : j = i
          · subst hji
            simp only [hr, Option.getD_some] at hs
            simp only [projFile_append, List.getElem?_set_self hil, Option.getD_some]
            simp only [projFile, List.filter_cons, List.filter_nil, decide_true, if_true, List.map_cons, List.map_nil]
            rw [← hs]; simp [projFile]
          · have hne : i ≠ j := fun e => hji e.symm
            simp only [projFile_append, List.getElem?_set_ne hne]
            have : projFile j [(i, l)] = [] := by simp [projFile, hne]
            rw [this, List.append_nil]; exact hs
        · intro d hd; have := hi.behind d hd; simp; omega
        · intro x hx
          simp only [List.mem_append, List.mem_singleton] at hx
          rcases hx with hx | hx
          · exact hi.known x hx
          · subst hx; simp only; rw [← hi.nfiles]; exact hil
  | process v =>
    simp only [enabled] at he
    cases hd : s.done[v]? with
    | none => simp [hd] at he
    | some d =>
      simp only [hd, decide_eq_true_eq] at he
      simp only [step, hd]
      refine ⟨hi.nfiles, hi.split, ?_, hi.known⟩
      intro d' hd'
      rcases List.mem_or_eq_of_mem_set hd' with h | h
      · exact hi.behind d' h
      · subst h; show d + 1 ≤ s.arrived.length; omega

/-- no deadlock: a reachable state that is not final always has an enabled action -/
theorem progress (s : St) (hb : ∀ d ∈ s.done, d ≤ s.arrived.length) (hf : final s = false) :
    ∃ a, enabled s a = true := by
  unfold final at hf
  simp only [Bool.and_eq_false_iff] at hf
  rcases hf with h | h
  · simp only [List.all_eq_false] at h
    obtain ⟨li, hli, hne⟩ := h
    obtain ⟨i, hi, rfl⟩ := List.mem_iff_getElem.mp hli
    refine ⟨.emit i, ?_⟩
    simp only [enabled, List.getElem?_eq_getElem hi]
    cases hq : s.remaining[i] with
    | nil => simp [hq] at hne
    | cons l rest => rfl
  · simp only [List.all_eq_false] at h
    obtain ⟨d, hd, hne⟩ := h
    obtain ⟨v, hv, rfl⟩ := List.mem_iff_getElem.mp hd
    refine ⟨.process v, ?_⟩
    have hle := hb _ hd
    have hlt : s.done[v] < s.arrived.length := by
      have : s.done[v] ≠ s.arrived.length := by simpa using hne
      omega
    simp [enabled, List.getElem?_eq_getElem hv, hlt]

/-- every enabled action strictly decreases the measure: every run is finite -/
theorem measure_decreases (s : St) (hb : ∀ d ∈ s.done, d ≤ s.arrived.length) (a : Act)
    (he : enabled s a = true) : measure (step s a) < measure s := by
  cases a with
  | emit i =>
    simp only [enabled] at he
    cases hr : s.remaining[i]? with
    | none => simp [hr] at he
    | some li =>
      cases li with
      | nil => simp [hr] at he
      | cons l rest =>
        simp only [step, hr, measure]
        have h1 : (s.remaining.map (·.length))[i]? = some (rest.length + 1) := by
          simp [List.getElem?_map, hr]
        have hset := sum_set (s.remaining.map (·.length)) i rest.length (rest.length + 1) h1
        have hmap : (s.remaining.set i rest).map (·.length) = (s.remaining.map (·.length)).set i rest.length := by
          rw [List.map_set]
        rw [hmap]
        have hdone : (s.done.map (fun d => (s.arrived ++ [(i, l)]).length - d)).sum =
            (s.done.map (fun d => s.arrived.length - d)).sum + s.done.length := by
          have : ∀ (ds : List Nat), (∀ d ∈ ds, d ≤ s.arrived.length) →
              (ds.map (fun d => (s.arrived ++ [(i, l)]).length - d)).sum = (ds.map (fun d => s.arrived.length - d)).sum + ds.length := by
            intro ds
            induction ds with
            | nil => intro _; rfl
            | cons d rest' ih =>
              intro h
              have hd := h d (by simp)
              have := ih (fun x hx => h x (List.mem_cons_of_mem _ hx))
              simp only [List.map_cons, List.sum_cons, List.length_cons, List.length_append, List.length_nil] at this ⊢
              omega
          exact this s.done hb
        rw [hdone]
        generalize (s.remaining.map (·.length)).sum = S at hset
        generalize ((s.remaining.map (·.length)).set i rest.length).sum = S' at hset
        generalize (s.done.map (fun d => s.arrived.length - d)).sum = D
        have hS : S' + 1 = S := by omega
        subst hS
        have : (S' + 1) * (s.done.length + 1) = S' * (s.done.length + 1) + (s.done.length + 1) := by
          rw [Nat.add_mul]; simp
        omega
  | process v =>
    simp only [enabled] at he
    cases hd : s.done[v]? with
    | none => simp [hd] at he
    | some d =>
      simp only [hd, decide_eq_true_eq] at he
      simp only [step, hd, measure, List.length_set]
      have h1 : (s.done.map (fun d => s.arrived.length - d))[v]? = some (s.arrived.length - d) := by
        simp [List.getElem?_map, hd]
      have hset := sum_set (s.done.map (fun d => s.arrived.length - d)) v (s.arrived.length - (d + 1)) _ h1
      have hmap : (s.done.set v (d + 1)).map (fun d => s.arrived.length - d) =
          (s.done.map (fun d => s.arrived.length - d)).set v (s.arrived.length - (d + 1)) := by
        rw [List.map_set]
      rw [hmap]
      omega

/-- in a final state every file has been delivered completely and in order, and every VM has
    processed every arrived line -/
theorem final_complete (files : List (List Bytes)) (s : St) (hi : Inv files s) (hf : final s = true) :
    (∀ i, i < files.length → projFile i s.arrived = (files[i]?.getD [])) ∧
    (∀ d ∈ s.done, d = s.arrived.length) := by
  unfold final at hf
  simp only [Bool.and_eq_true, List.all_eq_true, beq_iff_eq] at hf
  refine ⟨?_, hf.2⟩
  intro i hi'
  have hs := hi.split i hi'
  have hil : i < s.remaining.length := by rw [hi.nfiles]; exact hi'
  have hemp : s.remaining[i]?.getD [] = [] := by
    have := hf.1 (s.remaining[i]) (List.getElem_mem hil)
    simp only [List.getElem?_eq_getElem hil, Option.getD_some]
    simpa using this
  rw [hemp, List.append_nil] at hs
  exact hs

end MtailVerif.Pipeline
