import MtailVerif.Model.Buckets
namespace MtailVerif.Buckets
variable {S : Type}

theorem total_cons (p : Range × Nat) (bs : List (Range × Nat)) : total (p :: bs) = p.2 + total bs := by
  simp [total]

theorem bump_total (v : FV) (bs : List (Range × Nat)) (h : bs ≠ []) : total (bump v bs) = total bs + 1 := by
  induction bs with
  | nil => exact absurd rfl h
  | cons p rest ih =>
    obtain ⟨r, c⟩ := p
    cases rest with
    | nil => simp [bump, total]
    | cons q rest' =>
      simp only [bump]
      split
      · simp [total_cons]; omega
      · have := ih (by simp)
        simp only [total_cons] at this ⊢
        omega

theorem bump_length (v : FV) (bs : List (Range × Nat)) : (bump v bs).length = bs.length := by
  induction bs with
  | nil => rfl
  | cons p rest ih =>
    obtain ⟨r, c⟩ := p
    cases rest with
    | nil => rfl
    | cons q rest' =>
      simp only [bump]; split <;> simp [ih]

theorem bump_ne_nil (v : FV) (bs : List (Range × Nat)) (h : bs ≠ []) : bump v bs ≠ [] := by
  intro e
  have := bump_length v bs
  rw [e] at this
  cases bs <;> simp_all

/-- index of the bucket `Observe` increments: the first whose bound is ≥ v, else the last -/
def target (v : FV) : List (Range × Nat) → Nat
  | [] => 0
  | [_] => 0
  | (r, _) :: rest => if le v r.max then 0 else target v rest + 1

def incAt : Nat → List (Range × Nat) → List (Range × Nat)
  | _, [] => []
  | 0, (r, c) :: rest => (r, c + 1) :: rest
  | n+1, p :: rest => p :: incAt n rest

theorem bump_eq_incAt (v : FV) (bs : List (Range × Nat)) : bump v bs = incAt (target v bs) bs := by
  induction bs with
  | nil => rfl
  | cons p rest ih =>
    obtain ⟨r, c⟩ := p
    cases rest with
    | nil => rfl
    | cons q rest' =>
      simp only [bump, target]
      split
      · rfl
      · simp [incAt, ih]

theorem target_lt (v : FV) (bs : List (Range × Nat)) (h : bs ≠ []) : target v bs < bs.length := by
  induction bs with
  | nil => exact absurd rfl h
  | cons p rest ih =>
    obtain ⟨r, c⟩ := p
    cases rest with
    | nil => simp [target]
    | cons q rest' =>
      simp only [target]
      split
      · simp
      · have := ih (by simp); simp at this ⊢; omega

/-- every bucket before the target has a bound the value exceeds (or the value is NaN) -/
theorem target_first (v : FV) (bs : List (Range × Nat)) (j : Nat) (hj : j < target v bs) :
    ∃ p, bs[j]? = some p ∧ le v p.1.max = false := by
  induction bs generalizing j with
  | nil => simp [target] at hj
  | cons p rest ih =>
    obtain ⟨r, c⟩ := p
    cases rest with
    | nil => simp [target] at hj
    | cons q rest' =>
      simp only [target] at hj
      split at hj
      · omega
      · rename_i hle
        cases j with
        | zero => exact ⟨(r, c), rfl, by simpa using hle⟩
        | succ j => exact ih j (by omega)

/-- the target either satisfies `v ≤ bound` or is the last bucket -/
theorem target_hit (v : FV) (bs : List (Range × Nat)) (h : bs ≠ []) :
    (∃ p, bs[target v bs]? = some p ∧ le v p.1.max = true) ∨ target v bs = bs.length - 1 := by
  induction bs with
  | nil => exact absurd rfl h
  | cons p rest ih =>
    obtain ⟨r, c⟩ := p
    cases rest with
    | nil => right; rfl
    | cons q rest' =>
      simp only [target]
      split
      · rename_i hle; left; exact ⟨(r, c), rfl, hle⟩
      · rcases ih (by simp) with ⟨p, hp, hl⟩ | hlast
        · left; exact ⟨p, by simpa using hp, hl⟩
        · right; simp at hlast ⊢; omega

/-- a value that is ≤ no bound (NaN, or above every bound) goes to the last bucket -/
theorem target_last_of_all_false (v : FV) (bs : List (Range × Nat))
    (h : ∀ p ∈ bs, le v p.1.max = false) : target v bs = bs.length - 1 := by
  induction bs with
  | nil => rfl
  | cons p rest ih =>
    obtain ⟨r, c⟩ := p
    cases rest with
    | nil => rfl
    | cons q rest' =>
      simp only [target]
      have h0 := h (r, c) (by simp)
      simp only at h0
      simp only [h0, Bool.false_eq_true, if_false]
      rw [ih (fun p hp => h p (List.mem_cons_of_mem _ hp))]
      simp

theorem le_nan (b : FV) : le .nan b = false := rfl

/-- incAt changes exactly one count by exactly one -/
theorem incAt_get (n : Nat) (bs : List (Range × Nat)) (j : Nat) :
    (incAt n bs)[j]? = (bs[j]?).map (fun p => if j = n then (p.1, p.2 + 1) else p) := by
  induction bs generalizing n j with
  | nil => simp [incAt]
  | cons p rest ih =>
    obtain ⟨r, c⟩ := p
    cases n with
    | zero =>
      cases j with
      | zero => simp [incAt]
      | succ j => simp [incAt]
    | succ n =>
      cases j with
      | zero => simp [incAt]
      | succ j => simp [incAt, ih]

/-! sequences of observations -/
def observeAll (add : S → FV → S) (d : B S) : List FV → B S
  | [] => d
  | v :: vs => observeAll add (observe add d v) vs

theorem observeAll_inv (add : S → FV → S) (d : B S) (vs : List FV)
    (hne : d.buckets ≠ []) (h : total d.buckets = d.count) :
    total (observeAll add d vs).buckets = (observeAll add d vs).count ∧
    (observeAll add d vs).count = d.count + vs.length ∧
    (observeAll add d vs).sum = vs.foldl add d.sum := by
  induction vs generalizing d with
  | nil => simp [observeAll, h]
  | cons v vs ih =>
    have := ih (observe add d v) (bump_ne_nil v _ hne) (by simp [observe, bump_total v _ hne, h])
    simp only [observeAll, List.foldl_cons, List.length_cons]
    refine ⟨this.1, ?_, this.2.2⟩
    rw [this.2.1]; simp [observe]; omega

theorem make_nonempty (s0 : S) (ranges : List Range) : (make s0 ranges).buckets ≠ [] := by
  unfold make
  simp only
  split
  · rename_i h
    intro e
    simp only [List.map_eq_nil_iff] at e
    subst e; simp at h
  · simp

theorem make_total (s0 : S) (ranges : List Range) : total (make s0 ranges).buckets = (make s0 ranges).count := by
  have hz : ∀ l : List Range, (List.map (fun _ => 0) l).sum = 0 := by
    intro l; induction l <;> simp_all
  unfold make
  simp only
  split <;> simp [total, Function.comp_def, hz]

/-! declared boundaries ↦ ranges -/
theorem rangesTail_maxes (mn : FV) (rest : List FV) (rs : List Range) (h : rangesTail mn rest = some rs) :
    rs.map (·.max) = rest ++ [pinf] := by
  induction rest generalizing mn rs with
  | nil => simp [rangesTail] at h; subst h; rfl
  | cons mx rest ih =>
    simp only [rangesTail] at h
    split at h
    · simp at h
    · simp only [Option.map_eq_some_iff] at h
      obtain ⟨rs', hrs', rfl⟩ := h
      simp [ih mx rs' hrs']

theorem rangesTail_ne_nil (mn : FV) (rest : List FV) (rs : List Range) (h : rangesTail mn rest = some rs) :
    rs ≠ [] := by
  have := rangesTail_maxes mn rest rs h
  intro e; subst e; simp at this

end MtailVerif.Buckets
