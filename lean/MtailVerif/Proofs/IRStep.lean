import MtailVerif.Model.IR
import MtailVerif.Proofs.VMTime
/-! What the non-branching instructions do not look at (the program counter, the matched flag),
    and the single-step facts about the branching ones. -/
namespace MtailVerif.IR
open MtailVerif MtailVerif.VM

def withPcM (q : Nat) (m : Bool) : Res → Res
  | .next t st => .next { t with pc := q, matched := m } st
  | r => r

@[simp] theorem withPcM_twice (q q' : Nat) (m m' : Bool) (r : Res) :
    withPcM q m (withPcM q' m' r) = withPcM q m r := by
  cases r <;> rfl

set_option maxRecDepth 4000 in
set_option maxHeartbeats 1600000 in
theorem stepCore_indep (o : Oracle) (p : Prog) (inp : Input) (op : Opcode) (arg : Operand) (t : Thread)
    (st : MStore) (q : Nat) (m : Bool)
    (h1 : op ≠ .jnm) (h2 : op ≠ .jm) (h3 : op ≠ .jmp) (h4 : op ≠ .setmatched) (h5 : op ≠ .otherwise) :
    stepCore o p inp ⟨op, arg⟩ { t with pc := q, matched := m } st =
      withPcM q m (stepCore o p inp ⟨op, arg⟩ t st) := by
  cases op <;> simp only [stepCore]
  all_goals (try (exact absurd rfl h1))
  all_goals (try (exact absurd rfl h2))
  all_goals (try (exact absurd rfl h3))
  all_goals (try (exact absurd rfl h4))
  all_goals (try (exact absurd rfl h5))
  all_goals (try simp only [P.andThen, writeDatum, incBy, afterInc])
  all_goals (repeat' split)
  all_goals (try rfl)
  all_goals (try simp_all [withPcM])

theorem stepStrptime_indep (o : Oracle) (t : Thread) (st : MStore) (memo : Memo) (q : Nat) (m : Bool) :
    stepStrptime o { t with pc := q, matched := m } st memo =
      (withPcM q m (stepStrptime o t st memo).1, (stepStrptime o t st memo).2) := by
  simp only [stepStrptime]
  repeat' split
  all_goals (try rfl)
  all_goals (try simp_all [withPcM])

theorem straight_ops {i : Instr} (h : straight i = true) :
    i.op ≠ .jnm ∧ i.op ≠ .jm ∧ i.op ≠ .jmp ∧ i.op ≠ .setmatched ∧ i.op ≠ .otherwise := by
  simp only [straight, Bool.and_eq_true, bne_iff_ne, ne_eq] at h
  obtain ⟨⟨⟨⟨a, b⟩, c⟩, d⟩, e⟩ := h
  exact ⟨a, b, c, d, e⟩

/-- one straight instruction on a thread that differs from `t` only in pc and matched -/
theorem step_indep (o : Oracle) (p : Prog) (inp : Input) (i : Instr) (h : straight i = true) (t : Thread)
    (st : MStore) (memo : Memo) (q : Nat) (m : Bool) :
    step o p inp i { t with pc := q, matched := m } st memo =
      (withPcM (q + 1) m (step o p inp i t st memo).1, (step o p inp i t st memo).2) := by
  obtain ⟨op, arg⟩ := i
  obtain ⟨h1, h2, h3, h4, h5⟩ := straight_ops h
  simp only at h1 h2 h3 h4 h5
  unfold step
  simp only
  by_cases hs : op = .strptime
  · subst hs
    simp only [if_true]
    have a := stepStrptime_indep o t st memo (q + 1) m
    have b := stepStrptime_indep o t st memo (t.pc + 1) t.matched
    have e : ({ t with pc := t.pc + 1, matched := t.matched } : Thread) = { t with pc := t.pc + 1 } := rfl
    rw [e] at b
    have e2 : ({ ({ t with pc := q, matched := m } : Thread) with pc := q + 1 } : Thread) =
        { t with pc := q + 1, matched := m } := rfl
    rw [e2, a, b]
    simp
  · simp only [hs, if_false]
    have a := stepCore_indep o p inp op arg t st (q + 1) m h1 h2 h3 h4 h5
    have b := stepCore_indep o p inp op arg t st (t.pc + 1) t.matched h1 h2 h3 h4 h5
    have e : ({ t with pc := t.pc + 1, matched := t.matched } : Thread) = { t with pc := t.pc + 1 } := rfl
    rw [e] at b
    have e2 : ({ ({ t with pc := q, matched := m } : Thread) with pc := q + 1 } : Thread) =
        { t with pc := q + 1, matched := m } := rfl
    rw [e2, a, b]
    simp

theorem denorm (tv : Thread) : ({ norm tv with pc := tv.pc, matched := tv.matched } : Thread) = tv := by
  cases tv; rfl

@[simp] theorem norm_pcm (t : Thread) (q : Nat) (m : Bool) : norm { t with pc := q, matched := m } = norm t := rfl
@[simp] theorem norm_norm (t : Thread) : norm (norm t) = norm t := rfl

/-- the VM's step on a thread `tv`, in terms of the step on its normal form -/
theorem step_of_norm (o : Oracle) (p : Prog) (inp : Input) (i : Instr) (h : straight i = true) (tv : Thread)
    (st : MStore) (memo : Memo) :
    step o p inp i tv st memo =
      (withPcM (tv.pc + 1) tv.matched (step o p inp i (norm tv) st memo).1, (step o p inp i (norm tv) st memo).2) := by
  have := step_indep o p inp i h (norm tv) st memo tv.pc tv.matched
  rw [denorm] at this
  exact this

end MtailVerif.IR
