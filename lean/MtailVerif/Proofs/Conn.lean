import MtailVerif.Model.Conn
import MtailVerif.Proofs.Reader
namespace MtailVerif.Conn
open MtailVerif MtailVerif.Reader

structure Inv (s : S) : Prop where
  nodup : (s.conns.map (·.id)).Nodup
  usedC : ∀ h ∈ s.conns, h.id ∈ s.used
  usedO : ∀ x ∈ s.out, x.1 ∈ s.used
  hand : ∀ h ∈ s.conns, nl ∉ (spec [] h.seen).2 ∧ h.lr = ⟨(spec [] h.seen).2, 0⟩ ∧
    proj h.id s.out = (spec [] h.seen).1

theorem proj_append (c : Nat) (a b : List (Nat × Bytes)) : proj c (a ++ b) = proj c a ++ proj c b := by
  simp [proj, List.filter_append]

theorem proj_tag_self (c : Nat) (ls : List Bytes) : proj c (tag c ls) = ls := by
  induction ls with
  | nil => rfl
  | cons l rest ih => simp [proj, tag] at ih ⊢; exact ih

theorem proj_tag_other (c c' : Nat) (ls : List Bytes) (h : c' ≠ c) : proj c' (tag c ls) = [] := by
  induction ls with
  | nil => rfl
  | cons l rest ih => simp [proj, tag, h.symm] at ih ⊢

theorem closer_conns (cfg : Cfg) (s : S) :
    (closer cfg s).conns = s.conns ∧ (closer cfg s).out = s.out ∧ (closer cfg s).used = s.used := by
  unfold closer
  simp only
  split
  · split <;> exact ⟨rfl, rfl, rfl⟩
  · exact ⟨rfl, rfl, rfl⟩

theorem inv_closer (cfg : Cfg) (s : S) (h : Inv s) : Inv (closer cfg s) := by
  obtain ⟨h1, h2, h3⟩ := closer_conns cfg s
  exact ⟨h1 ▸ h.nodup, by rw [h1, h3]; exact h.usedC, by rw [h2, h3]; exact h.usedO,
    by rw [h1, h2]; exact h.hand⟩

theorem find_mem {c : Nat} {conns : List Handler} {h : Handler} (hf : conns.find? (·.id = c) = some h) :
    h ∈ conns ∧ h.id = c := by
  have := List.find?_some hf
  exact ⟨List.mem_of_find?_eq_some hf, by simpa using this⟩

theorem spec_nonl_init : nl ∉ (spec [] ([] : Bytes)).2 := by simp [spec]

/-- one more chunk on connection `c`: the handler's reader delivers exactly the lines the chunk
    completes, and nobody else's lines change -/
theorem step_data (cfg : Cfg) (s : S) (hi : Inv s) (c : Nat) (chunk : Bytes) (h : Handler)
    (hf : s.conns.find? (·.id = c) = some h) :
    Inv (step cfg s (.data c chunk)) ∧
    proj c (step cfg s (.data c chunk)).out = (spec [] (h.seen ++ chunk)).1 ∧
    (∀ c', c' ≠ c → proj c' (step cfg s (.data c chunk)).out = proj c' s.out) := by
  obtain ⟨hm, hid⟩ := find_mem hf
  obtain ⟨hn, hlr, hproj⟩ := hi.hand h hm
  have hrs : readAndSend h.lr chunk =
      ((spec (spec [] h.seen).2 chunk).1, ⟨(spec (spec [] h.seen).2 chunk).2, 0⟩) := by
    rw [hlr]; exact readAndSend_spec _ chunk hn
  have hsa := spec_append [] h.seen chunk
  have hstep : step cfg s (.data c chunk) =
      { s with conns := s.conns.map (fun x => if x.id = c then
                  { h with lr := ⟨(spec (spec [] h.seen).2 chunk).2, 0⟩, seen := h.seen ++ chunk } else x),
               out := s.out ++ tag c (spec (spec [] h.seen).2 chunk).1 } := by
    simp only [step, hf, handlerData, hrs]
  rw [hstep]
  refine ⟨⟨?_, ?_, ?_, ?_⟩, ?_, ?_⟩
  · have : (s.conns.map (fun x => if x.id = c then
        ({ h with lr := ⟨(spec (spec [] h.seen).2 chunk).2, 0⟩, seen := h.seen ++ chunk } : Handler) else x)).map (·.id)
        = s.conns.map (·.id) := by
      rw [List.map_map]; apply List.map_congr_left
      intro x _; simp only [Function.comp]; split
      · rename_i hx; simp [hid, hx]
      · rfl
    simp only []; rw [this]; exact hi.nodup
  · intro x hx
    simp only [List.mem_map] at hx
    obtain ⟨y, hy, rfl⟩ := hx
    split
    · simpa [hid] using hi.usedC h hm
    · exact hi.usedC y hy
  · intro x hx
    simp only [List.mem_append] at hx
    rcases hx with hx | hx
    · exact hi.usedO x hx
    · simp only [tag, List.mem_map] at hx
      obtain ⟨l, _, rfl⟩ := hx
      simpa [hid] using hi.usedC h hm
  · intro x hx
    simp only [List.mem_map] at hx
    obtain ⟨y, hy, rfl⟩ := hx
    by_cases hyc : y.id = c
    · simp only [hyc, if_true]
      refine ⟨?_, ?_, ?_⟩
      · rw [hsa]; exact spec_rem_nonl _ chunk hn
      · rw [hsa]
      · simp only [hid, proj_append, proj_tag_self]
        rw [← hid, hproj, hsa]
    · simp only [hyc, if_false]
      obtain ⟨a, b, d⟩ := hi.hand y hy
      exact ⟨a, b, by rw [proj_append, proj_tag_other c y.id _ hyc, List.append_nil]; exact d⟩
  · simp only [proj_append, proj_tag_self]
    rw [← hid, hproj, hsa]
  · intro c' hc'
    simp only [proj_append, proj_tag_other c c' _ hc', List.append_nil]

/-- the peer closes connection `c`: altogether that connection has delivered exactly
    `specLines` of everything it sent, and nobody else's lines change -/
theorem step_close (cfg : Cfg) (s : S) (hi : Inv s) (c : Nat) (h : Handler)
    (hf : s.conns.find? (·.id = c) = some h) :
    Inv (step cfg s (.close c)) ∧
    proj c (step cfg s (.close c)).out = specLines h.seen ∧
    (∀ c', c' ≠ c → proj c' (step cfg s (.close c)).out = proj c' s.out) := by
  obtain ⟨hm, hid⟩ := find_mem hf
  obtain ⟨hn, hlr, hproj⟩ := hi.hand h hm
  have hfin : finish h.lr = (if (spec [] h.seen).2.isEmpty then [] else [(spec [] h.seen).2]) := by
    rw [hlr]; simp [finish, finishSkipsEmpty_eq]
  have hstep : step cfg s (.close c) =
      closer cfg { s with conns := s.conns.filter (·.id ≠ c), out := s.out ++ tag c (finish h.lr) } := by
    simp only [step, hf]
  rw [hstep]
  obtain ⟨k1, k2, k3⟩ := closer_conns cfg { s with conns := s.conns.filter (·.id ≠ c), out := s.out ++ tag c (finish h.lr) }
  refine ⟨inv_closer cfg _ ⟨?_, ?_, ?_, ?_⟩, ?_, ?_⟩
  · exact hi.nodup.sublist ((List.filter_sublist).map _)
  · intro x hx; exact hi.usedC x (List.mem_filter.mp hx).1
  · intro x hx
    simp only [List.mem_append] at hx
    rcases hx with hx | hx
    · exact hi.usedO x hx
    · simp only [tag, List.mem_map] at hx
      obtain ⟨l, _, rfl⟩ := hx
      simpa [hid] using hi.usedC h hm
  · intro x hx
    have hx' := List.mem_filter.mp hx
    have hne : x.id ≠ c := by simpa using hx'.2
    obtain ⟨a, b, d⟩ := hi.hand x hx'.1
    exact ⟨a, b, by simp only [proj_append, proj_tag_other c x.id _ hne, List.append_nil]; exact d⟩
  · rw [k2]
    simp only [proj_append, proj_tag_self]
    rw [← hid, hproj, hfin]; rfl
  · intro c' hc'
    rw [k2]
    simp only [proj_append, proj_tag_other c c' _ hc', List.append_nil]

end MtailVerif.Conn

namespace MtailVerif.Conn
open MtailVerif MtailVerif.Reader

theorem proj_unused (c : Nat) (s : S) (hi : Inv s) (hc : c ∉ s.used) : proj c s.out = [] := by
  unfold proj
  have : s.out.filter (fun x => decide (x.1 = c)) = [] := by
    apply List.filter_eq_nil_iff.mpr
    intro x hx; simp only [decide_eq_true_eq]
    intro e; exact hc (e ▸ hi.usedO x hx)
  rw [this]; rfl

theorem step_accept (cfg : Cfg) (s : S) (hi : Inv s) (c : Nat) : Inv (step cfg s (.accept c)) := by
  simp only [step]
  split
  · exact hi
  · rename_i hcond
    simp only [not_or, Bool.not_eq_true, List.contains_eq_mem, decide_eq_false_iff_not] at hcond
    have hc : c ∉ s.used := by simpa using hcond.2
    apply inv_closer
    refine ⟨?_, ?_, ?_, ?_⟩
    · simp only [List.map_append, List.map_cons, List.map_nil]
      rw [List.nodup_append]
      refine ⟨hi.nodup, by simp, ?_⟩
      intro a ha b hb
      simp only [List.mem_singleton] at hb; subst hb
      simp only [List.mem_map] at ha
      obtain ⟨h, hh, rfl⟩ := ha
      intro e; exact hc (e ▸ hi.usedC h hh)
    · intro h hh
      simp only [List.mem_append, List.mem_singleton] at hh
      rcases hh with hh | hh
      · exact List.mem_cons_of_mem _ (hi.usedC h hh)
      · subst hh; simp
    · intro x hx; exact List.mem_cons_of_mem _ (hi.usedO x hx)
    · intro h hh
      simp only [List.mem_append, List.mem_singleton] at hh
      rcases hh with hh | hh
      · exact hi.hand h hh
      · subst hh
        exact ⟨by simp [spec], by simp [spec, Reader.init], by simp [spec, proj_unused c s hi hc]⟩

theorem step_cancel (cfg : Cfg) (s : S) (hi : Inv s) : Inv (step cfg s .cancel) := by
  simp only [step]
  apply inv_closer
  refine ⟨by simp, by simp, ?_, by simp⟩
  intro x hx
  simp only [List.mem_append, List.mem_flatMap] at hx
  rcases hx with hx | ⟨h, hh, hx⟩
  · exact hi.usedO x hx
  · simp only [tag, List.mem_map] at hx
    obtain ⟨l, _, rfl⟩ := hx
    exact hi.usedC h hh

theorem step_inv (cfg : Cfg) (s : S) (hi : Inv s) (ev : Ev) : Inv (step cfg s ev) := by
  cases ev with
  | accept c => exact step_accept cfg s hi c
  | data c chunk =>
    cases hf : s.conns.find? (·.id = c) with
    | none => simp [step, hf]; exact hi
    | some h => exact (step_data cfg s hi c chunk h hf).1
  | close c =>
    cases hf : s.conns.find? (·.id = c) with
    | none => simp [step, hf]; exact hi
    | some h => exact (step_close cfg s hi c h hf).1
  | cancel => exact step_cancel cfg s hi

theorem run_inv (cfg : Cfg) (evs : List Ev) (s : S) (hi : Inv s) : Inv (run cfg s evs) := by
  induction evs generalizing s with
  | nil => exact hi
  | cons e rest ih => exact ih _ (step_inv cfg s hi e)

theorem inv_init : Inv {} := ⟨by simp, by simp, by simp, by simp⟩

/-- cancellation ends every handler and, with the repaired closer, closes the output — also
    when no connection was ever accepted -/
theorem cancel_closes (cfg : Cfg) (hc : cfg.closerWaitsForCancelToo = true) (s : S) :
    (step cfg s .cancel).linesClosed = true ∧ (step cfg s .cancel).conns = [] := by
  simp [step, closer, hc]

/-- once closed the output stays closed and nothing more is delivered through a closed listener -/
theorem closer_idem (cfg : Cfg) (s : S) (h : s.linesClosed = true) : (closer cfg s).linesClosed = true := by
  unfold closer; simp only; split
  · split <;> simp [h]
  · exact h

end MtailVerif.Conn
