import MtailVerif.Model.Key
/-! Injectivity of the label-key encoding when it escapes the escape byte and the separator. -/
namespace MtailVerif.Key

/-- per-byte view of "escape `esc`, then escape `sep`" -/
def escB (esc sep b : UInt8) : Bytes :=
  if b = esc then [esc, esc] else if b = sep then [esc, sep] else [b]

def goodReps (esc sep : UInt8) : List (Bytes × Bytes) :=
  [([esc], [esc, esc]), ([sep], [esc, sep])]

theorem escapeWith_good (esc sep : UInt8) (h : esc ≠ sep) (l : Bytes) :
    escapeWith (goodReps esc sep) l = l.flatMap (escB esc sep) := by
  simp only [escapeWith, goodReps, List.foldl, replaceAll, replaceByte]
  induction l with
  | nil => simp
  | cons c cs ih =>
    simp only [List.flatMap_cons, List.flatMap_append, ih]
    congr 1
    by_cases h1 : c = esc
    · subst h1; simp [escB, h]
    · by_cases h2 : c = sep
      · subst h2; simp [escB, h1]
      · simp [escB, h1, h2]

/-- decode one label: `true` = previous byte was the escape byte -/
def dec1 (esc sep : UInt8) : Bool → Bytes → Bytes → Option (Bytes × Bytes)
  | _, _, [] => none
  | true, acc, c :: cs => dec1 esc sep false (acc ++ [c]) cs
  | false, acc, c :: cs =>
    if c = esc then dec1 esc sep true acc cs
    else if c = sep then some (acc, cs)
    else dec1 esc sep false (acc ++ [c]) cs

theorem dec1_esc (esc sep : UInt8) (h : esc ≠ sep) (l acc rest : Bytes) :
    dec1 esc sep false acc (l.flatMap (escB esc sep) ++ sep :: rest) = some (acc ++ l, rest) := by
  have h' : sep ≠ esc := fun e => h e.symm
  induction l generalizing acc with
  | nil => simp [dec1, h']
  | cons c cs ih =>
    by_cases h1 : c = esc
    · subst h1; simp [escB, dec1, ih]
    · by_cases h2 : c = sep
      · subst h2; simp [escB, dec1, h1, ih]
      · simp [escB, dec1, h1, h2, ih]

def dec (esc sep : UInt8) : Nat → Bytes → Option (List Bytes)
  | 0, [] => some []
  | 0, _ => none
  | n+1, s => match dec1 esc sep false [] s with
    | none => none
    | some (l, rest) => (dec esc sep n rest).map (l :: ·)

theorem dec_enc (esc sep : UInt8) (h : esc ≠ sep) (ls : List Bytes) :
    dec esc sep ls.length (encodeWith (goodReps esc sep) [sep] ls) = some ls := by
  induction ls with
  | nil => simp [dec, encodeWith]
  | cons l ls ih =>
    simp only [encodeWith, List.length_cons, dec, escapeWith_good esc sep h]
    have := dec1_esc esc sep h l [] (encodeWith (goodReps esc sep) [sep] ls)
    simp only [List.append_assoc, List.singleton_append, List.nil_append] at this ⊢
    rw [this]; simp [ih]

theorem encodeWith_good_injective (esc sep : UInt8) (h : esc ≠ sep) (a b : List Bytes)
    (hl : a.length = b.length)
    (he : encodeWith (goodReps esc sep) [sep] a = encodeWith (goodReps esc sep) [sep] b) : a = b := by
  have ha := dec_enc esc sep h a
  have hb := dec_enc esc sep h b
  rw [he, hl, hb] at ha
  exact (Option.some.inj ha).symm

end MtailVerif.Key

namespace MtailVerif.Key

/-- decoder that does not need the arity: decode labels until the key is exhausted -/
def decAll (esc sep : UInt8) : Nat → Bytes → Option (List Bytes)
  | _, [] => some []
  | 0, _ :: _ => none
  | n+1, c :: cs => match dec1 esc sep false [] (c :: cs) with
    | none => none
    | some (l, rest) => (decAll esc sep n rest).map (l :: ·)

theorem decAll_enc (esc sep : UInt8) (h : esc ≠ sep) (ls : List Bytes) (n : Nat) (hn : ls.length ≤ n) :
    decAll esc sep n (encodeWith (goodReps esc sep) [sep] ls) = some ls := by
  induction ls generalizing n with
  | nil => cases n <;> simp [decAll, encodeWith]
  | cons l ls ih =>
    cases n with
    | zero => simp at hn
    | succ n =>
      simp only [encodeWith, escapeWith_good esc sep h]
      have hd := dec1_esc esc sep h l [] (encodeWith (goodReps esc sep) [sep] ls)
      simp only [List.append_assoc, List.singleton_append, List.nil_append] at hd ⊢
      generalize hs : List.flatMap (escB esc sep) l ++ sep :: encodeWith (goodReps esc sep) [sep] ls = s at hd
      cases s with
      | nil => simp at hs
      | cons c cs =>
        simp only [decAll, hd]
        rw [ih n (by simpa using hn)]; rfl

theorem encodeWith_good_injective_any (esc sep : UInt8) (h : esc ≠ sep) (a b : List Bytes)
    (he : encodeWith (goodReps esc sep) [sep] a = encodeWith (goodReps esc sep) [sep] b) : a = b := by
  have ha := decAll_enc esc sep h a (max a.length b.length) (Nat.le_max_left _ _)
  have hb := decAll_enc esc sep h b (max a.length b.length) (Nat.le_max_right _ _)
  rw [he, hb] at ha
  exact (Option.some.inj ha).symm

end MtailVerif.Key
