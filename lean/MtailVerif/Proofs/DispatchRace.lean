import MtailVerif.Model.DispatchRace
namespace MtailVerif.DispatchRace

/-- what holds in every reachable state of the code's discipline -/
structure Inv (s : S) : Prop where
  nobad : s.bad = false
  excl : s.dLocked = true → s.lLocked = false
  tgt : ∀ g, s.target = some g → s.dLocked = true ∧ g = s.gen
  open_ : s.gen ∉ s.closed
  below : ∀ g ∈ s.closed, g < s.gen
  sentOpen : ∀ g ∈ s.sent, g ≤ s.gen

theorem inv_init : Inv {} := by
  constructor <;> simp

theorem inv_step (s : S) (a : Act) (h : Inv s) : Inv (step true s a) := by
  obtain ⟨h1, h2, h3, h4, h5, h6⟩ := h
  cases a <;> simp only [step]
  · -- dLock
    split
    · rename_i hc
      simp only [Bool.and_eq_true, Bool.not_eq_true', Option.isNone_iff_eq_none] at hc
      exact ⟨h1, fun _ => hc.1.1, fun g hg => by simp [hc.2] at hg, h4, h5, h6⟩
    · exact ⟨h1, h2, h3, h4, h5, h6⟩
  · -- dSnap
    split
    · rename_i hc
      simp only [Bool.and_eq_true, Option.isNone_iff_eq_none] at hc
      exact ⟨h1, h2, fun g hg => by simp at hg; exact ⟨hc.1, hg.symm⟩, h4, h5, h6⟩
    · exact ⟨h1, h2, h3, h4, h5, h6⟩
  · -- dSend
    split
    · exact ⟨h1, h2, h3, h4, h5, h6⟩
    · rename_i g hg
      obtain ⟨hl, hgen⟩ := h3 g hg
      simp only [Bool.true_and, Bool.not_eq_true', hl, Bool.false_eq_true, if_false, Bool.not_true, Bool.false_and]
      subst hgen
      simp only [h4, if_false]
      exact ⟨h1, fun _ => h2 hl, fun g' hg' => by simp at hg', h4, h5,
        fun g' hg' => by simp at hg'; rcases hg' with rfl | hg'; exact Nat.le_refl _; exact h6 g' hg'⟩
  · -- dUnlock
    split
    · exact ⟨h1, h2, h3, h4, h5, h6⟩
    · split
      · exact ⟨h1, h2, h3, h4, h5, h6⟩
      · rename_i _ hc
        simp only [Bool.true_and, Bool.not_eq_true, Option.isSome_eq_false_iff, Option.isNone_iff_eq_none] at hc
        exact ⟨h1, fun hh => by simp at hh, fun g hg => by simp [hc] at hg, h4, h5, h6⟩
  · -- lLock
    split
    · rename_i hc
      simp only [Bool.and_eq_true, Bool.not_eq_true'] at hc
      exact ⟨h1, fun hh => by simp [hc.2] at hh, fun g hg => by have := (h3 g hg).1; simp [hc.2] at this, h4, h5, h6⟩
    · exact ⟨h1, h2, h3, h4, h5, h6⟩
  · -- lSwap
    split
    · rename_i hc
      refine ⟨h1, h2, fun g hg => ?_, ?_, ?_, ?_⟩
      · have := (h3 g hg).1
        have := h2 this
        simp [hc] at this
      · dsimp only
        intro hm
        simp only [List.mem_cons] at hm
        rcases hm with hm | hm
        · omega
        · have := h5 _ hm; omega
      · dsimp only
        intro g hg
        simp only [List.mem_cons] at hg
        rcases hg with rfl | hg
        · omega
        · have := h5 g hg; omega
      · dsimp only
        intro g hg; have := h6 g hg; omega
    · exact ⟨h1, h2, h3, h4, h5, h6⟩
  · -- lUnlock
    exact ⟨h1, fun _ => rfl, h3, h4, h5, h6⟩

theorem inv_run (as : List Act) (s : S) (h : Inv s) : Inv (run true s as) := by
  induction as generalizing s with
  | nil => simpa [run] using h
  | cons a as ih => simp only [run, List.foldl_cons]; exact ih _ (inv_step s a h)

/-- **the code's discipline**: whatever the schedule of the dispatcher's and any number of
    loaders' steps, no line is ever sent on a closed channel -/
theorem send_under_lock_never_on_closed (as : List Act) : (run true {} as).bad = false :=
  (inv_run as {} inv_init).nobad

/-- and every line went to a generation that was the installed one when it was sent (never to a
    later one, never to one that does not exist) -/
theorem send_under_lock_to_installed (as : List Act) : ∀ g ∈ (run true {} as).sent, g ≤ (run true {} as).gen :=
  (inv_run as {} inv_init).sentOpen

/-- **a dispatcher that sends after releasing the lock**: the loader gets in between the copy and
    the send, and the line goes to a closed channel -/
theorem send_after_unlock_hits_closed :
    (run false {} [.dLock, .dSnap, .dUnlock, .lLock, .lSwap, .lUnlock, .dSend]).bad = true := by decide

/-- the same schedule cannot happen under the code's discipline: the loader's `lLock` is not
    enabled while the dispatcher holds the lock, and the line reaches generation 0 -/
theorem that_schedule_under_lock :
    (run true {} [.dLock, .dSnap, .dUnlock, .lLock, .lSwap, .lUnlock, .dSend]).bad = false ∧
      (run true {} [.dLock, .dSnap, .dUnlock, .lLock, .lSwap, .lUnlock, .dSend, .dUnlock, .lLock, .lSwap, .lUnlock]).sent = [0] := by
  decide

end MtailVerif.DispatchRace
