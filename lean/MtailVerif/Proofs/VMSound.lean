import MtailVerif.Proofs.VMVerify
namespace MtailVerif.VM.Verify
open MtailVerif MtailVerif.VM

/-- what a verified step may produce -/
def ResOK (p : Prog) (succs : List (Nat × AStack)) : Res → Prop
  | .next t' st' => StoreOK p st' t'.dead ∧ ∃ x ∈ succs, t'.pc = x.1 ∧ sOK p st' t'.dead x.2 t'.stack
  | .stop st' => StoreOK p st' []
  | .err e st' => e ≠ .arity ∧ StoreOK p st' []
  | .fault _ _ => False

section
variable {p : Prog} {st : MStore} {dead : List (Nat × Metric.LV Datum)} {succs : List (Nat × AStack)} (o : Oracle)

theorem andThen_int (hs : StoreOK p st dead) {s s' : AStack} {vs : List Val}
    (h : sOK p st dead s vs) (ha : apopInt p s = some s') {k : Int → List Val → Res}
    (hk : ∀ n rest, sOK p st dead s' rest → ResOK p succs (k n rest)) :
    ResOK p succs ((popInt o st dead vs).andThen st k) := by
  rcases popInt_sound o hs h ha with ⟨n, rest, h1, h2⟩ | h1
  · rw [h1]; exact hk n rest h2
  · rw [h1]; exact ⟨by decide, hs.forget⟩

theorem andThen_float (hs : StoreOK p st dead) {s s' : AStack} {vs : List Val}
    (h : sOK p st dead s vs) (ha : apopFloat p s = some s') {k : UInt64 → List Val → Res}
    (hk : ∀ n rest, sOK p st dead s' rest → ResOK p succs (k n rest)) :
    ResOK p succs ((popFloat o st dead vs).andThen st k) := by
  rcases popFloat_sound o hs h ha with ⟨n, rest, h1, h2⟩ | h1
  · rw [h1]; exact hk n rest h2
  · rw [h1]; exact ⟨by decide, hs.forget⟩

theorem andThen_string (hs : StoreOK p st dead) {s s' : AStack} {vs : List Val}
    (h : sOK p st dead s vs) (ha : apopString p s = some s') {k : Bytes → List Val → Res}
    (hk : ∀ n rest, sOK p st dead s' rest → ResOK p succs (k n rest)) :
    ResOK p succs ((popString o st dead vs).andThen st k) := by
  obtain ⟨n, rest, h1, h2⟩ := popString_sound o hs h ha
  rw [h1]; exact hk n rest h2

theorem andThen_keys (hs : StoreOK p st dead) (n : Nat) {s s' : AStack} {vs : List Val}
    (h : sOK p st dead s vs) (ha : apopKeys p n s = some s') {k : List Bytes → List Val → Res}
    (hk : ∀ ks rest, ks.length = n → sOK p st dead s' rest → ResOK p succs (k ks rest)) :
    ResOK p succs ((popKeys o st dead n vs []).andThen st k) := by
  obtain ⟨ks, rest, h1, h2, h3⟩ := popKeys_sound o hs n [] h ha
  rw [h1]; exact hk ks rest (by simpa using h3) h2

end

/-- pushing one value and falling through -/
theorem resOK_push {p : Prog} {st : MStore} {t : Thread} {pc : Nat} (hs : StoreOK p st t.dead)
    (hpc : t.pc = pc + 1) {a : AV} {v : Val} {s' : AStack} {rest : List Val}
    (hv : vOK p st t.dead a v) (hr : sOK p st t.dead s' rest) :
    ResOK p [(pc + 1, a :: s')] (.next { t with stack := v :: rest } st) :=
  ⟨hs, (pc + 1, a :: s'), List.mem_singleton.mpr rfl, hpc, hv, hr⟩

theorem resOK_pop {p : Prog} {st : MStore} {t : Thread} {pc : Nat} (hs : StoreOK p st t.dead)
    (hpc : t.pc = pc + 1) {s' : AStack} {rest : List Val} (hr : sOK p st t.dead s' rest) :
    ResOK p [(pc + 1, s')] (.next { t with stack := rest } st) :=
  ⟨hs, (pc + 1, s'), List.mem_singleton.mpr rfl, hpc, hr⟩

theorem stepCore_sound_arith (o : Oracle) (p : Prog) (inp : Input) (arg : Operand) (t : Thread) (st : MStore)
    (pc : Nat) (s : AStack) (succs : List (Nat × AStack))
    (hs : StoreOK p st t.dead) (hst : sOK p st t.dead s t.stack) (hpc : t.pc = pc + 1)
    (op : Opcode) (hop : op = .iadd ∨ op = .isub ∨ op = .imul ∨ op = .idiv ∨ op = .imod ∨ op = .ipow ∨
      op = .shl ∨ op = .shr ∨ op = .and ∨ op = .or ∨ op = .xor)
    (ha : astep p pc ⟨op, arg⟩ s = some succs) :
    ResOK p succs (stepCore o p inp ⟨op, arg⟩ t st) := by
  have key : ((apopInt p s).bind (apopInt p)).bind (fun r => some [(pc + 1, AV.i64 :: r)]) = some succs ∧
      stepCore o p inp ⟨op, arg⟩ t st =
        (popInt o st t.dead t.stack).andThen st fun b r1 =>
        (popInt o st t.dead r1).andThen st fun a r2 =>
          match binInt op a b o with
          | .ok r => Res.next { t with stack := .i64 r :: r2 } st
          | .error e => .err e st := by
    rcases hop with h | h | h | h | h | h | h | h | h | h | h <;> subst h <;> exact ⟨ha, rfl⟩
  obtain ⟨ha', hstep⟩ := key
  rw [hstep]
  simp only [Option.bind_eq_some_iff] at ha'
  obtain ⟨s2, ⟨s1, h1, h2⟩, hsu⟩ := ha'
  cases hsu
  refine andThen_int o hs hst h1 fun b r1 hr1 => andThen_int o hs hr1 h2 fun a r2 hr2 => ?_
  cases hb : binInt op a b o with
  | ok r => exact resOK_push hs hpc (by simp [vOK]) hr2
  | error e =>
    refine ⟨?_, hs.forget⟩
    intro he; subst he
    rcases hop with h | h | h | h | h | h | h | h | h | h | h <;> subst h <;>
      simp [binInt] at hb <;> (try split at hb) <;> simp_all

theorem stepCore_sound_float (o : Oracle) (p : Prog) (inp : Input) (arg : Operand) (t : Thread) (st : MStore)
    (pc : Nat) (s : AStack) (succs : List (Nat × AStack))
    (hs : StoreOK p st t.dead) (hst : sOK p st t.dead s t.stack) (hpc : t.pc = pc + 1)
    (op : Opcode) (hop : op = .fadd ∨ op = .fsub ∨ op = .fmul ∨ op = .fdiv ∨ op = .fmod ∨ op = .fpow)
    (ha : astep p pc ⟨op, arg⟩ s = some succs) :
    ResOK p succs (stepCore o p inp ⟨op, arg⟩ t st) := by
  have key : ((apopFloat p s).bind (apopFloat p)).bind (fun r => some [(pc + 1, AV.f64 :: r)]) = some succs ∧
      stepCore o p inp ⟨op, arg⟩ t st =
        (popFloat o st t.dead t.stack).andThen st fun b r1 =>
        (popFloat o st t.dead r1).andThen st fun a r2 =>
          Res.next { t with stack := .f64 (binFloat o op a b) :: r2 } st := by
    rcases hop with h | h | h | h | h | h <;> subst h <;> exact ⟨ha, rfl⟩
  obtain ⟨ha', hstep⟩ := key
  rw [hstep]
  simp only [Option.bind_eq_some_iff] at ha'
  obtain ⟨s2, ⟨s1, h1, h2⟩, hsu⟩ := ha'
  cases hsu
  exact andThen_float o hs hst h1 fun b r1 hr1 => andThen_float o hs hr1 h2 fun a r2 hr2 =>
    resOK_push hs hpc (by simp [vOK]) hr2

/-- the instructions that only rearrange the stack -/
theorem stepCore_sound_simple (o : Oracle) (p : Prog) (inp : Input) (op : Opcode) (arg : Operand) (t : Thread)
    (st : MStore) (pc : Nat) (s : AStack) (succs : List (Nat × AStack))
    (hs : StoreOK p st t.dead) (hst : sOK p st t.dead s t.stack) (hpc : t.pc = pc + 1)
    (ha : astep p pc ⟨op, arg⟩ s = some succs)
    (hop : op = .bad ∨ op = .stop ∨ op = .push ∨ op = .otherwise ∨ op = .getfilename ∨ op = .timestamp ∨
      op = .setmatched ∨ op = .neg ∨ op = .i2f ∨ op = .i2s ∨ op = .f2s ∨ op = .tolower ∨ op = .length ∨
      op = .cat ∨ op = .subst ∨ op = .s2f ∨ op = .not) :
    ResOK p succs (stepCore o p inp ⟨op, arg⟩ t st) := by
  rcases hop with h | h | h | h | h | h | h | h | h | h | h | h | h | h | h | h | h <;> subst h
  · simp [astep] at ha
  · simp only [astep, Option.some.injEq] at ha; subst ha; exact hs.forget
  · -- push
    simp only [astep] at ha
    simp only [stepCore]
    cases arg <;> simp only [Option.some.injEq] at ha <;> subst ha <;>
      exact resOK_push hs hpc (by simp [vOK]) hst
  · simp only [astep, Option.some.injEq] at ha; subst ha
    exact resOK_push hs hpc (by simp [vOK]) hst
  · simp only [astep, Option.some.injEq] at ha; subst ha
    exact resOK_push hs hpc (by simp [vOK]) hst
  · -- timestamp
    simp only [astep, Option.some.injEq] at ha; subst ha
    simp only [stepCore]
    split <;> exact resOK_push hs hpc (by simp [vOK]) hst
  · -- setmatched
    simp only [astep] at ha
    simp only [stepCore]
    cases arg <;> simp only [Option.some.injEq, reduceCtorEq] at ha
    subst ha
    exact ⟨hs, (pc + 1, s), List.mem_singleton.mpr rfl, hpc, hst⟩
  · -- neg
    simp only [astep, Option.bind_eq_some_iff, Option.some.injEq] at ha
    obtain ⟨s1, h1, rfl⟩ := ha
    exact andThen_int o hs hst h1 fun a r hr => resOK_push hs hpc (by simp [vOK]) hr
  · simp only [astep, Option.bind_eq_some_iff, Option.some.injEq] at ha
    obtain ⟨s1, h1, rfl⟩ := ha
    exact andThen_int o hs hst h1 fun a r hr => resOK_push hs hpc (by simp [vOK]) hr
  · simp only [astep, Option.bind_eq_some_iff, Option.some.injEq] at ha
    obtain ⟨s1, h1, rfl⟩ := ha
    exact andThen_int o hs hst h1 fun a r hr => resOK_push hs hpc (by simp [vOK]) hr
  · simp only [astep, Option.bind_eq_some_iff, Option.some.injEq] at ha
    obtain ⟨s1, h1, rfl⟩ := ha
    exact andThen_float o hs hst h1 fun a r hr => resOK_push hs hpc (by simp [vOK]) hr
  · simp only [astep, Option.bind_eq_some_iff, Option.some.injEq] at ha
    obtain ⟨s1, h1, rfl⟩ := ha
    exact andThen_string o hs hst h1 fun a r hr => resOK_push hs hpc (by simp [vOK]) hr
  · simp only [astep, Option.bind_eq_some_iff, Option.some.injEq] at ha
    obtain ⟨s1, h1, rfl⟩ := ha
    exact andThen_string o hs hst h1 fun a r hr => resOK_push hs hpc (by simp [vOK]) hr
  · -- cat
    simp only [astep, Option.bind_eq_some_iff, Option.some.injEq] at ha
    obtain ⟨s2, ⟨s1, h1, h2⟩, rfl⟩ := ha
    exact andThen_string o hs hst h1 fun b r1 hr1 => andThen_string o hs hr1 h2 fun a r2 hr2 =>
      resOK_push hs hpc (by simp [vOK]) hr2
  · -- subst
    simp only [astep, Option.bind_eq_some_iff, Option.some.injEq] at ha
    obtain ⟨s3, ⟨s2, ⟨s1, h1, h2⟩, h3⟩, rfl⟩ := ha
    exact andThen_string o hs hst h1 fun v r1 hr1 => andThen_string o hs hr1 h2 fun rp r2 hr2 =>
      andThen_string o hs hr2 h3 fun ol r3 hr3 => resOK_push hs hpc (by simp [vOK]) hr3
  · -- s2f
    simp only [astep, Option.bind_eq_some_iff, Option.some.injEq] at ha
    obtain ⟨s1, h1, rfl⟩ := ha
    refine andThen_string o hs hst h1 fun a r hr => ?_
    split
    · exact resOK_push hs hpc (by simp [vOK]) hr
    · exact ⟨by decide, hs.forget⟩
  · -- not
    simp only [astep] at ha
    simp only [stepCore]
    cases s with
    | nil => simp at ha
    | cons a s' =>
      cases a <;> simp only [Option.some.injEq, reduceCtorEq] at ha
      subst ha
      cases hstk : t.stack with
      | nil => rw [hstk] at hst; exact absurd hst (by simp [sOK])
      | cons v vs =>
        rw [hstk] at hst
        obtain ⟨hv, hr⟩ := hst
        cases v <;> simp only [vOK] at hv
        exact resOK_push hs hpc (by simp [vOK]) hr

def numV : Val → Bool
  | .f64 _ => true | .i64 _ => true | .int _ => true | .bool _ => true | _ => false
def strV : Val → Bool
  | .str _ => true | _ => false

/-- `compare` on numeric and string operands never reports an unexpected type -/
theorem compareVals_total (o : Oracle) (va vb : Val) (n : Int) (hn : n = -1 ∨ n = 0 ∨ n = 1)
    (h : (numV va = true ∧ (numV vb = true ∨ strV vb = true)) ∨ (strV va = true ∧ strV vb = true)) :
    (∃ r, compareVals o va vb n = .ok r) ∨ compareVals o va vb n = .conv := by
  rcases hn with rfl | rfl | rfl <;>
  cases va <;> cases vb <;> simp [numV, strV] at h <;>
  simp only [compareVals, unbool, compareF, cmpFloat, cmpInt, cmpStr, ofOpt] <;>
  (repeat' split) <;> simp_all

theorem numV_of {p : Prog} {st : MStore} {dead : List (Nat × Metric.LV Datum)} {a : AV} {v : Val}
    (h : vOK p st dead a v) (ha : isNum a = true) : numV v = true := by
  cases a <;> simp [isNum] at ha <;> cases v <;> simp_all [vOK, numV]

theorem strV_of {p : Prog} {st : MStore} {dead : List (Nat × Metric.LV Datum)} {v : Val}
    (h : vOK p st dead .str v) : strV v = true := by
  cases v <;> simp_all [vOK, strV]

theorem cmpArgOK_int {op : Opcode} {arg : Operand} (h : cmpArgOK ⟨op, arg⟩ = true) :
    ∃ n, argInt ⟨op, arg⟩ = some n ∧ (n = -1 ∨ n = 0 ∨ n = 1) := by
  unfold cmpArgOK at h
  cases hn : argInt ⟨op, arg⟩ with
  | none => simp [hn] at h
  | some n =>
    simp only [hn, Bool.or_eq_true, beq_iff_eq] at h
    exact ⟨n, rfl, by omega⟩

theorem stepCore_sound_cmp (o : Oracle) (p : Prog) (inp : Input) (op : Opcode) (arg : Operand) (t : Thread)
    (st : MStore) (pc : Nat) (s : AStack) (succs : List (Nat × AStack))
    (hs : StoreOK p st t.dead) (hst : sOK p st t.dead s t.stack) (hpc : t.pc = pc + 1)
    (ha : astep p pc ⟨op, arg⟩ s = some succs)
    (hop : op = .icmp ∨ op = .fcmp ∨ op = .scmp ∨ op = .cmp) :
    ResOK p succs (stepCore o p inp ⟨op, arg⟩ t st) := by
  rcases hop with h | h | h | h <;> subst h
  · simp only [astep] at ha
    split at ha
    · next hc =>
      obtain ⟨n, hn, hn3⟩ := cmpArgOK_int hc
      simp only [Option.bind_eq_some_iff, Option.some.injEq] at ha
      obtain ⟨s2, ⟨s1, h1, h2⟩, rfl⟩ := ha
      refine andThen_int o hs hst h1 fun b r1 hr1 => andThen_int o hs hr1 h2 fun a r2 hr2 => ?_
      simp only [hn, Option.bind_some]
      rcases hn3 with rfl | rfl | rfl <;> simp only [cmpInt] <;>
        exact resOK_push hs hpc (by simp [vOK]) hr2
    · cases ha
  · simp only [astep] at ha
    split at ha
    · next hc =>
      obtain ⟨n, hn, hn3⟩ := cmpArgOK_int hc
      simp only [Option.bind_eq_some_iff, Option.some.injEq] at ha
      obtain ⟨s2, ⟨s1, h1, h2⟩, rfl⟩ := ha
      refine andThen_float o hs hst h1 fun b r1 hr1 => andThen_float o hs hr1 h2 fun a r2 hr2 => ?_
      simp only [hn, Option.bind_some]
      rcases hn3 with rfl | rfl | rfl <;> simp [cmpFloat] <;>
        exact resOK_push hs hpc (by simp [vOK]) hr2
    · cases ha
  · simp only [astep] at ha
    split at ha
    · next hc =>
      obtain ⟨n, hn, hn3⟩ := cmpArgOK_int hc
      simp only [Option.bind_eq_some_iff, Option.some.injEq] at ha
      obtain ⟨s2, ⟨s1, h1, h2⟩, rfl⟩ := ha
      refine andThen_string o hs hst h1 fun b r1 hr1 => andThen_string o hs hr1 h2 fun a r2 hr2 => ?_
      simp only [hn, Option.bind_some]
      rcases hn3 with rfl | rfl | rfl <;> simp only [cmpStr] <;>
        exact resOK_push hs hpc (by simp [vOK]) hr2
    · cases ha
  · -- cmp
    simp only [astep] at ha
    cases s with
    | nil => simp at ha
    | cons b s1 =>
      cases s1 with
      | nil => simp at ha
      | cons a s2 =>
        simp only at ha
        split at ha
        · next hc =>
          simp only [Option.some.injEq] at ha; subst ha
          obtain ⟨hcm, hty⟩ := hc
          obtain ⟨n, hn, hn3⟩ := cmpArgOK_int hcm
          cases hstk : t.stack with
          | nil => rw [hstk] at hst; exact absurd hst (by simp [sOK])
          | cons vb vs =>
            cases vs with
            | nil => rw [hstk] at hst; exact absurd hst.2 (by simp [sOK])
            | cons va rest =>
              rw [hstk] at hst
              obtain ⟨hvb, hva, hr⟩ := hst
              simp only [stepCore, hstk, hn]
              have hres := compareVals_total o va vb n hn3 (by
                rcases hty with ⟨hna, hb⟩ | ⟨rfl, rfl⟩
                · left; refine ⟨numV_of hva hna, ?_⟩
                  rcases hb with hb | hb
                  · left; exact numV_of hvb hb
                  · right; subst hb; exact strV_of hvb
                · right; exact ⟨strV_of hva, strV_of hvb⟩)
              rcases hres with ⟨r, hr'⟩ | hc'
              · rw [hr']; exact resOK_push hs hpc (by simp [vOK]) hr
              · rw [hc']; exact ⟨by decide, hs.forget⟩
        · cases ha

theorem target_spec {p : Prog} {pc : Nat} {i : Instr} {tg : Nat} (h : target p pc i = some tg) :
    ∃ n : Int, argInt i = some n ∧ 0 ≤ n ∧ n.toNat = tg ∧ pc < tg ∧ tg ≤ p.code.length := by
  unfold target at h
  cases hn : argInt i with
  | none => simp [hn] at h
  | some n =>
    simp only [hn] at h
    split at h
    · next hc => cases h; exact ⟨n, rfl, hc.1, rfl, hc.2.1, hc.2.2⟩
    · cases h

theorem jumpTo_ok {p : Prog} {st : MStore} {t : Thread} {pc tg : Nat} {i : Instr} {s : AStack} {rest : List Val}
    {succs : List (Nat × AStack)} (hs : StoreOK p st t.dead) (ht : target p pc i = some tg)
    (hmem : (tg, s) ∈ succs) (hr : sOK p st t.dead s rest) :
    ResOK p succs (jumpTo t st rest i) := by
  obtain ⟨n, hn, h0, htg, _, _⟩ := target_spec ht
  simp only [jumpTo, hn]
  have : ¬ n < 0 := by omega
  simp only [this, if_false]
  exact ⟨hs, (tg, s), hmem, htg, hr⟩

theorem resOK_ite {p : Prog} {succs : List (Nat × AStack)} (b : Bool) {A B : Res}
    (h1 : ResOK p succs A) (h2 : ResOK p succs B) : ResOK p succs (if b = true then A else B) := by
  cases b <;> simp [*]

theorem stepCore_sound_ctl (o : Oracle) (p : Prog) (inp : Input) (op : Opcode) (arg : Operand) (t : Thread)
    (st : MStore) (pc : Nat) (s : AStack) (succs : List (Nat × AStack))
    (hs : StoreOK p st t.dead) (hst : sOK p st t.dead s t.stack) (hpc : t.pc = pc + 1)
    (ha : astep p pc ⟨op, arg⟩ s = some succs)
    (hop : op = .jnm ∨ op = .jm ∨ op = .jmp ∨ op = .match ∨ op = .smatch ∨ op = .str ∨ op = .mload ∨
      op = .capref ∨ op = .s2i ∨ op = .rsubst ∨ op = .settime) :
    ResOK p succs (stepCore o p inp ⟨op, arg⟩ t st) := by
  rcases hop with h | h | h | h | h | h | h | h | h | h | h <;> subst h
  · -- jnm
    simp only [astep] at ha
    cases s with
    | nil => simp at ha
    | cons a s' =>
      simp only [Option.map_eq_some_iff] at ha
      obtain ⟨tg, htg, rfl⟩ := ha
      cases hstk : t.stack with
      | nil => rw [hstk] at hst; exact absurd hst (by simp [sOK])
      | cons v rest =>
        rw [hstk] at hst
        simp only [stepCore, hstk]
        exact resOK_ite _ (jumpTo_ok hs htg (by simp) hst.2) ⟨hs, (pc + 1, s'), by simp, hpc, hst.2⟩
  · -- jm
    simp only [astep] at ha
    cases s with
    | nil => simp at ha
    | cons a s' =>
      simp only [Option.map_eq_some_iff] at ha
      obtain ⟨tg, htg, rfl⟩ := ha
      cases hstk : t.stack with
      | nil => rw [hstk] at hst; exact absurd hst (by simp [sOK])
      | cons v rest =>
        rw [hstk] at hst
        simp only [stepCore, hstk]
        exact resOK_ite _ (jumpTo_ok hs htg (by simp) hst.2) ⟨hs, (pc + 1, s'), by simp, hpc, hst.2⟩
  · -- jmp
    simp only [astep, Option.map_eq_some_iff] at ha
    obtain ⟨tg, htg, rfl⟩ := ha
    exact jumpTo_ok hs htg (by simp) hst
  · -- match
    simp only [astep] at ha
    simp only [stepCore]
    cases hn : argInt ⟨Opcode.match, arg⟩ with
    | none => simp [hn] at ha
    | some n =>
      simp only [hn] at ha ⊢
      split at ha
      · next hc =>
        simp only [Option.some.injEq] at ha; subst ha
        have : ¬ (n < 0 ∨ n.toNat ≥ p.nre) := by omega
        simp only [this, if_false]
        exact ⟨hs, (pc + 1, _), List.mem_singleton.mpr rfl, hpc, by simp [vOK], hst⟩
      · cases ha
  · -- smatch
    simp only [astep] at ha
    simp only [stepCore]
    cases hn : argInt ⟨Opcode.smatch, arg⟩ with
    | none => simp [hn] at ha
    | some n =>
      simp only [hn] at ha ⊢
      split at ha
      · next hc =>
        simp only [Option.bind_eq_some_iff, Option.some.injEq] at ha
        obtain ⟨s1, h1, rfl⟩ := ha
        refine andThen_string o hs hst h1 fun x r hr => ?_
        have : ¬ (n < 0 ∨ n.toNat ≥ p.nre) := by omega
        simp only [this, if_false]
        exact ⟨hs, (pc + 1, _), List.mem_singleton.mpr rfl, hpc, by simp [vOK], hr⟩
      · cases ha
  · -- str
    simp only [astep] at ha
    simp only [stepCore]
    cases hn : argInt ⟨Opcode.str, arg⟩ with
    | none => simp [hn] at ha
    | some n =>
      simp only [hn] at ha ⊢
      split at ha
      · next hc =>
        simp only [Option.some.injEq] at ha; subst ha
        have : ¬ n < 0 := by omega
        simp only [this, if_false]
        cases hg : p.strs[n.toNat]? with
        | none =>
          have := List.getElem?_eq_none_iff.mp hg
          omega
        | some x => exact resOK_push hs hpc (by simp [vOK]) hst
      · cases ha
  · -- mload
    simp only [astep] at ha
    simp only [stepCore]
    cases hn : argInt ⟨Opcode.mload, arg⟩ with
    | none => simp [hn] at ha
    | some n =>
      simp only [hn] at ha ⊢
      split at ha
      · next hc =>
        simp only [Option.some.injEq] at ha; subst ha
        have : ¬ (n < 0 ∨ n.toNat ≥ p.metrics.length) := by omega
        simp only [this, if_false]
        exact resOK_push hs hpc (by simp [vOK]; omega) hst
      · cases ha
  · -- capref
    simp only [astep] at ha
    have hcase : ∃ s' g, (s = .int :: s' ∨ ∃ c, s = .intc c :: s') ∧ argInt ⟨Opcode.capref, arg⟩ = some g ∧ 0 ≤ g ∧
        succs = [(pc + 1, .str :: s')] := by
      split at ha
      · next s' g hg =>
        split at ha
        · next h0 => simp only [Option.some.injEq] at ha; exact ⟨s', g, Or.inl rfl, hg, h0, ha.symm⟩
        · cases ha
      · next c s' g hg =>
        split at ha
        · next h0 => simp only [Option.some.injEq] at ha; exact ⟨s', g, Or.inr ⟨c, rfl⟩, hg, h0, ha.symm⟩
        · cases ha
      · cases ha
    obtain ⟨s', g, hs', hg, h0, rfl⟩ := hcase
    cases hstk : t.stack with
    | nil => rw [hstk] at hst; rcases hs' with rfl | ⟨c, rfl⟩ <;> exact absurd hst (by simp [sOK])
    | cons v rest =>
      rw [hstk] at hst
      have hv : ∃ re, v = .int re := by
        rcases hs' with rfl | ⟨c, rfl⟩ <;> (obtain ⟨hv, _⟩ := hst; cases v <;> simp only [vOK] at hv; exact ⟨_, rfl⟩)
      have hr : sOK p st t.dead s' rest := by
        rcases hs' with rfl | ⟨c, rfl⟩ <;> exact hst.2
      obtain ⟨re, rfl⟩ := hv
      simp only [stepCore, hstk, hg]
      split
      · exact ⟨by decide, hs.forget⟩
      · split
        · exact ⟨by decide, hs.forget⟩
        · have : ¬ g < 0 := by omega
          simp only [this, if_false]
          split
          · exact resOK_push hs hpc (by simp [vOK]) hr
          · next hlen _ hnone =>
            have := List.getElem?_eq_none_iff.mp hnone
            omega
  · -- s2i
    simp only [astep] at ha
    simp only [stepCore]
    cases arg with
    | none =>
      simp only [Option.bind_eq_some_iff, Option.some.injEq] at ha
      obtain ⟨s1, h1, rfl⟩ := ha
      refine andThen_string o hs hst h1 fun x r hr => ?_
      split
      · exact resOK_push hs hpc (by simp [vOK]) hr
      · exact ⟨by decide, hs.forget⟩
    | int _ | bool _ | i64 _ | f64 _ | dur _ =>
      simp only [Option.bind_eq_some_iff, Option.some.injEq] at ha
      obtain ⟨s2, ⟨s1, h1, h2⟩, rfl⟩ := ha
      refine andThen_int o hs hst h1 fun b r1 hr1 => ?_
      split
      · exact ⟨by decide, hs.forget⟩
      · refine andThen_string o hs hr1 h2 fun x r hr => ?_
        split
        · exact resOK_push hs hpc (by simp [vOK]) hr
        · exact ⟨by decide, hs.forget⟩
  · -- rsubst
    simp only [astep] at ha
    cases s with
    | nil => simp at ha
    | cons a s' =>
      cases a with
      | intc c =>
        simp only at ha
        split at ha
        · next hc =>
          simp only [Option.bind_eq_some_iff, Option.some.injEq] at ha
          obtain ⟨s2, ⟨s1, h1, h2⟩, rfl⟩ := ha
          cases hstk : t.stack with
          | nil => rw [hstk] at hst; exact absurd hst (by simp [sOK])
          | cons v rest =>
            rw [hstk] at hst
            obtain ⟨hv, hr⟩ := hst
            cases v <;> simp only [vOK] at hv
            have hv' := hv.symm
            subst hv'
            simp only [stepCore, hstk, popInt, P.andThen]
            refine andThen_string o hs hr h1 fun x r1 hr1 => andThen_string o hs hr1 h2 fun y r2 hr2 => ?_
            have : ¬ (c < 0 ∨ c.toNat ≥ p.nre) := by omega
            simp only [this, if_false]
            exact resOK_push hs hpc (by simp [vOK]) hr2
        · cases ha
      | _ => simp at ha
  · -- settime
    simp only [astep, Option.bind_eq_some_iff, Option.some.injEq] at ha
    obtain ⟨s1, h1, rfl⟩ := ha
    exact andThen_int o hs hst h1 fun n r hr => ⟨hs, (pc + 1, s1), List.mem_singleton.mpr rfl, hpc, hr⟩

/-- a write through a datum pointer whose update accepts the metric's payload type and keeps it -/
theorem writeDatum_ok {p : Prog} {st : MStore} {t : Thread} {succs : List (Nat × AStack)} {m k : Nat}
    {s' : AStack} {rest : List Val} {f : Datum → Option Datum} {kont : Thread → MStore → Datum → Res}
    (hs : StoreOK p st t.dead) (hr : sOK p st t.dead (.datum m :: s') rest) (hk : mtyp p m = some k)
    (hf : ∀ d, d.val.ty = k → ∃ d', f d = some d' ∧ d'.val.ty = d.val.ty)
    (hkont : ∀ (t' : Thread) (st' : MStore) (d d' : Datum) (rest' : List Val),
      StoreOK p st' t'.dead → sOK p st' t'.dead s' rest' → t'.pc = t.pc → t'.stack = rest' →
      f d = some d' → d.val.ty = k → ResOK p succs (kont t' st' d')) :
    ResOK p succs (writeDatum t st rest f kont) := by
  cases rest with
  | nil => exact absurd hr (by simp [sOK])
  | cons v rest' =>
    obtain ⟨hv, hr'⟩ := hr
    cases v <;> simp only [vOK] at hv
    next m' lv =>
    obtain ⟨hm, hsome⟩ := hv
    subst hm
    simp only [writeDatum]
    cases hd : getD st t.dead m' lv with
    | none => simp [hd] at hsome
    | some d =>
      simp only
      have hty := mtyp_ty hs hd hk
      obtain ⟨d', hfd, hty'⟩ := hf d hty
      simp only [hfd]
      obtain ⟨h1, h2⟩ := updD_ok hs hd hty'
      exact hkont _ _ d d' rest' h1 (sOK_ext h2 hr') rfl rfl hfd hty

theorem stepCore_sound_datum (o : Oracle) (p : Prog) (inp : Input) (op : Opcode) (arg : Operand) (t : Thread)
    (st : MStore) (pc : Nat) (s : AStack) (succs : List (Nat × AStack))
    (hs : StoreOK p st t.dead) (hst : sOK p st t.dead s t.stack) (hpc : t.pc = pc + 1)
    (ha : astep p pc ⟨op, arg⟩ s = some succs)
    (hop : op = .inc ∨ op = .dec ∨ op = .iset ∨ op = .fset ∨ op = .sset ∨ op = .iget ∨ op = .fget ∨ op = .sget) :
    ResOK p succs (stepCore o p inp ⟨op, arg⟩ t st) := by
  have incdec : ∀ (delta : Int) (s1 : AStack) (rest : List Val),
      sOK p st t.dead s1 rest →
      (match s1 with
        | .datum m :: r => if mtyp p m = some 0 then some [(pc + 1, AV.i64 :: r)] else none
        | _ => none) = some succs →
      ResOK p succs (incBy t st delta rest) := by
    intro delta s1 rest hr hsu
    split at hsu
    · next m r =>
      split at hsu
      · next hk =>
        simp only [Option.some.injEq] at hsu; subst hsu
        refine writeDatum_ok hs hr hk ?_ ?_
        · intro d hty
          obtain ⟨val, tm⟩ := d
          cases val <;> simp [DVal.ty] at hty
          exact ⟨_, rfl, rfl⟩
        · intro t' st' d d' rest' h1 h2 h3 h4 hfd hty
          obtain ⟨val, tm⟩ := d
          cases val <;> simp [DVal.ty] at hty
          simp only [incIntD, Option.some.injEq] at hfd
          subst hfd
          simp only [afterInc]
          exact ⟨h1, (pc + 1, _), List.mem_singleton.mpr rfl, by rw [h3, hpc], by simp [vOK], by rw [h4]; exact h2⟩
      · cases hsu
    · cases hsu
  rcases hop with h | h | h | h | h | h | h | h <;> subst h
  · -- inc
    simp only [astep] at ha
    simp only [stepCore]
    cases arg with
    | none =>
      simp only [Option.bind_some] at ha
      exact incdec _ s t.stack hst ha
    | int _ | bool _ | i64 _ | f64 _ | dur _ =>
      simp only [Option.bind_eq_some_iff] at ha
      obtain ⟨s1, h1, hsu⟩ := ha
      refine andThen_int o hs hst h1 fun delta rest hr => ?_
      exact incdec _ s1 rest hr hsu
  · -- dec
    simp only [astep] at ha
    simp only [stepCore]
    cases arg with
    | none =>
      simp only [Option.bind_some] at ha
      exact incdec _ s t.stack hst ha
    | int _ | bool _ | i64 _ | f64 _ | dur _ =>
      simp only [Option.bind_eq_some_iff] at ha
      obtain ⟨s1, h1, hsu⟩ := ha
      refine andThen_int o hs hst h1 fun delta rest hr => ?_
      exact incdec _ s1 rest hr hsu
  · -- iset
    simp only [astep, Option.bind_eq_some_iff] at ha
    obtain ⟨s1, h1, hsu⟩ := ha
    refine andThen_int o hs hst h1 fun v rest hr => ?_
    split at hsu
    · next m r =>
      split at hsu
      · next hk =>
        simp only [Option.some.injEq] at hsu; subst hsu
        have hfin : ∀ (t' : Thread) (st' : MStore) (rest' : List Val), StoreOK p st' t'.dead →
            sOK p st' t'.dead r rest' → t'.pc = t.pc → t'.stack = rest' →
            ResOK p [(pc + 1, r)] (Res.next t' st') :=
          fun t' st' rest' h1 h2 h3 h4 =>
            ⟨h1, (pc + 1, r), List.mem_singleton.mpr rfl, by rw [h3, hpc], by rw [h4]; exact h2⟩
        rcases hk with hk | hk
        · refine writeDatum_ok hs hr hk ?_ (fun t' st' d d' rest' h1 h2 h3 h4 _ _ => hfin t' st' rest' h1 h2 h3 h4)
          intro d hty
          obtain ⟨val, tm⟩ := d
          cases val <;> simp [DVal.ty] at hty
          exact ⟨_, rfl, rfl⟩
        · refine writeDatum_ok hs hr hk ?_ (fun t' st' d d' rest' h1 h2 h3 h4 _ _ => hfin t' st' rest' h1 h2 h3 h4)
          intro d hty
          obtain ⟨val, tm⟩ := d
          cases val <;> simp [DVal.ty] at hty
          exact ⟨_, rfl, rfl⟩
      · cases hsu
    · cases hsu
  · -- fset
    simp only [astep, Option.bind_eq_some_iff] at ha
    obtain ⟨s1, h1, hsu⟩ := ha
    refine andThen_float o hs hst h1 fun v rest hr => ?_
    split at hsu
    · next m r =>
      split at hsu
      · next hk =>
        simp only [Option.some.injEq] at hsu; subst hsu
        have hfin : ∀ (t' : Thread) (st' : MStore) (rest' : List Val), StoreOK p st' t'.dead →
            sOK p st' t'.dead r rest' → t'.pc = t.pc → t'.stack = rest' →
            ResOK p [(pc + 1, r)] (Res.next t' st') :=
          fun t' st' rest' h1 h2 h3 h4 =>
            ⟨h1, (pc + 1, r), List.mem_singleton.mpr rfl, by rw [h3, hpc], by rw [h4]; exact h2⟩
        rcases hk with hk | hk
        · refine writeDatum_ok hs hr hk ?_ (fun t' st' d d' rest' h1 h2 h3 h4 _ _ => hfin t' st' rest' h1 h2 h3 h4)
          intro d hty
          obtain ⟨val, tm⟩ := d
          cases val <;> simp [DVal.ty] at hty
          exact ⟨_, rfl, rfl⟩
        · refine writeDatum_ok hs hr hk ?_ (fun t' st' d d' rest' h1 h2 h3 h4 _ _ => hfin t' st' rest' h1 h2 h3 h4)
          intro d hty
          obtain ⟨val, tm⟩ := d
          cases val <;> simp [DVal.ty] at hty
          exact ⟨_, rfl, rfl⟩
      · cases hsu
    · cases hsu
  · -- sset
    simp only [astep, Option.bind_eq_some_iff] at ha
    obtain ⟨s1, h1, hsu⟩ := ha
    refine andThen_string o hs hst h1 fun v rest hr => ?_
    split at hsu
    · next m r =>
      split at hsu
      · next hk =>
        simp only [Option.some.injEq] at hsu; subst hsu
        have hfin : ∀ (t' : Thread) (st' : MStore) (rest' : List Val), StoreOK p st' t'.dead →
            sOK p st' t'.dead r rest' → t'.pc = t.pc → t'.stack = rest' →
            ResOK p [(pc + 1, r)] (Res.next t' st') :=
          fun t' st' rest' h1 h2 h3 h4 =>
            ⟨h1, (pc + 1, r), List.mem_singleton.mpr rfl, by rw [h3, hpc], by rw [h4]; exact h2⟩
        -- which payload does the pointer have?
        cases rest with
        | nil => exact absurd hr (by simp [sOK])
        | cons pv rest' =>
          have hv := hr.1
          cases pv <;> simp only [vOK] at hv
          next m' lv =>
          obtain ⟨hm, hsome⟩ := hv
          subst hm
          cases hd : getD st t.dead m' lv with
          | none => simp [hd] at hsome
          | some d =>
            obtain ⟨val, tm⟩ := d
            rcases hk with hk | hk
            · have hty := mtyp_ty hs hd hk
              cases val <;> simp [DVal.ty] at hty
              simp only [isBucketsPtr, hd]
              refine writeDatum_ok hs hr hk ?_ (fun t' st' d d' rest' h1 h2 h3 h4 _ _ => hfin t' st' rest' h1 h2 h3 h4)
              intro d hty
              obtain ⟨val, tm⟩ := d
              cases val <;> simp [DVal.ty] at hty
              exact ⟨_, rfl, rfl⟩
            · have hty := mtyp_ty hs hd hk
              cases val <;> simp [DVal.ty] at hty
              simp only [isBucketsPtr, hd, if_true]
              split
              · refine writeDatum_ok hs hr hk ?_ (fun t' st' d d' rest' h1 h2 h3 h4 _ _ => hfin t' st' rest' h1 h2 h3 h4)
                intro d hty
                obtain ⟨val, tm⟩ := d
                cases val <;> simp [DVal.ty] at hty
                exact ⟨_, rfl, rfl⟩
              · exact ⟨by decide, hs.forget⟩
      · cases hsu
    · cases hsu
  · -- iget
    simp only [astep] at ha
    cases s with
    | nil => simp at ha
    | cons a s' =>
      cases a with
      | datum m =>
        simp only at ha
        split at ha
        · next hk =>
          simp only [Option.some.injEq] at ha; subst ha
          cases hstk : t.stack with
          | nil => rw [hstk] at hst; exact absurd hst (by simp [sOK])
          | cons v rest =>
            rw [hstk] at hst
            obtain ⟨hv, hr⟩ := hst
            cases v <;> simp only [vOK] at hv
            next m' lv =>
            obtain ⟨hm, hsome⟩ := hv
            subst hm
            cases hd : getD st t.dead m' lv with
            | none => simp [hd] at hsome
            | some d =>
              have hty := mtyp_ty hs hd hk
              obtain ⟨val, tm⟩ := d
              cases val <;> simp [DVal.ty] at hty
              simp only [stepCore, hstk, hd]
              exact resOK_push hs hpc (by simp [vOK]) hr
        · cases ha
      | _ => simp at ha
  · -- fget
    simp only [astep] at ha
    cases s with
    | nil => simp at ha
    | cons a s' =>
      cases a with
      | datum m =>
        simp only at ha
        split at ha
        · next hk =>
          simp only [Option.some.injEq] at ha; subst ha
          cases hstk : t.stack with
          | nil => rw [hstk] at hst; exact absurd hst (by simp [sOK])
          | cons v rest =>
            rw [hstk] at hst
            obtain ⟨hv, hr⟩ := hst
            cases v <;> simp only [vOK] at hv
            next m' lv =>
            obtain ⟨hm, hsome⟩ := hv
            subst hm
            cases hd : getD st t.dead m' lv with
            | none => simp [hd] at hsome
            | some d =>
              have hty := mtyp_ty hs hd hk
              obtain ⟨val, tm⟩ := d
              cases val <;> simp [DVal.ty] at hty
              simp only [stepCore, hstk, hd]
              exact resOK_push hs hpc (by simp [vOK]) hr
        · cases ha
      | _ => simp at ha
  · -- sget
    simp only [astep] at ha
    cases s with
    | nil => simp at ha
    | cons a s' =>
      cases a with
      | datum m =>
        simp only at ha
        split at ha
        · next hk =>
          simp only [Option.some.injEq] at ha; subst ha
          cases hstk : t.stack with
          | nil => rw [hstk] at hst; exact absurd hst (by simp [sOK])
          | cons v rest =>
            rw [hstk] at hst
            obtain ⟨hv, hr⟩ := hst
            cases v <;> simp only [vOK] at hv
            next m' lv =>
            obtain ⟨hm, hsome⟩ := hv
            subst hm
            cases hd : getD st t.dead m' lv with
            | none => simp [hd] at hsome
            | some d =>
              have hty := mtyp_ty hs hd hk
              obtain ⟨val, tm⟩ := d
              cases val <;> simp [DVal.ty] at hty
              simp only [stepCore, hstk, hd]
              exact resOK_push hs hpc (by simp [vOK]) hr
        · cases ha
      | _ => simp at ha

theorem zeroDatum_ty (mi : MetricInfo) (h : mi.typ ≤ 3) : (zeroDatum mi).val.ty = mi.typ := by
  unfold zeroDatum
  split <;> simp_all [DVal.ty]
  omega

theorem metricsOK_le {p : Prog} (h : metricsOK p = true) {m : Nat} {mi : MetricInfo}
    (hm : p.metrics[m]? = some mi) : mi.typ ≤ 3 := by
  unfold metricsOK at h
  rw [List.all_eq_true] at h
  have := h mi (List.mem_of_getElem? hm)
  simpa using this

theorem getDatum_total {mm : Metric.Metric Datum} {z : Datum} {ks : List Bytes} (h : ks.length = mm.nkeys) :
    ∃ r, Metric.getDatum mm z ks = .ok r := by
  unfold Metric.getDatum
  have : ¬ ks.length ≠ mm.nkeys := by simp [h]
  simp only [this, if_false]
  cases Metric.find mm ks with
  | some l => exact ⟨_, rfl⟩
  | none => simp [Metric.append, h]

theorem stepCore_sound_metric (o : Oracle) (p : Prog) (inp : Input) (op : Opcode) (arg : Operand) (t : Thread)
    (st : MStore) (pc : Nat) (s : AStack) (succs : List (Nat × AStack)) (hmo : metricsOK p = true)
    (hs : StoreOK p st t.dead) (hst : sOK p st t.dead s t.stack) (hpc : t.pc = pc + 1)
    (ha : astep p pc ⟨op, arg⟩ s = some succs)
    (hop : op = .dload ∨ op = .del ∨ op = .expire) :
    ResOK p succs (stepCore o p inp ⟨op, arg⟩ t st) := by
  -- common decomposition of the abstract side
  have hcommon : ∃ m r n, s = .metric m :: r ∧ argInt ⟨op, arg⟩ = some n ∧ 0 ≤ n ∧ mkeys p m = some n.toNat := by
    rcases hop with h | h | h <;> subst h <;> simp only [astep] at ha <;> (
      split at ha
      · next m r n hn =>
        split at ha
        · next hc => exact ⟨m, r, n, rfl, hn, hc.1, hc.2⟩
        · cases ha
      · cases ha)
  obtain ⟨m, r, n, rfl, hn, h0, hkeys⟩ := hcommon
  cases hstk : t.stack with
  | nil => rw [hstk] at hst; exact absurd hst (by simp [sOK])
  | cons v rest =>
    rw [hstk] at hst
    obtain ⟨hv, hr⟩ := hst
    cases v <;> simp only [vOK] at hv
    next m' =>
    obtain ⟨hm, hmlt⟩ := hv
    subst hm
    have hnneg : ¬ n < 0 := by omega
    obtain ⟨mi, hmi⟩ : ∃ mi, p.metrics[m']? = some mi := ⟨p.metrics[m'], by simp [hmlt]⟩
    have hnk : mi.nkeys = n.toNat := by simpa [mkeys, hmi] using hkeys
    have hstlt : m' < st.length := by rw [hs.len]; exact hmlt
    obtain ⟨mm, hmm⟩ : ∃ mm, st[m']? = some mm := ⟨st[m'], by simp [hstlt]⟩
    have hmmk : mm.nkeys = mi.nkeys := hs.keys m' mm mi hmm hmi
    rcases hop with h | h | h <;> subst h
    · -- dload
      simp only [astep, hn, h0, hkeys, and_self, if_true, Option.bind_eq_some_iff, Option.some.injEq] at ha
      obtain ⟨r', hk, rfl⟩ := ha
      simp only [stepCore, hstk, hn, hnneg, if_false]
      refine andThen_keys o hs n.toNat hr hk fun ks rest' hlen hr' => ?_
      simp only [hmm, hmi]
      cases hg : Metric.getDatum mm (zeroDatum mi) ks with
      | error e =>
        obtain ⟨r0, hr0⟩ := getDatum_total (z := zeroDatum mi) (show ks.length = mm.nkeys by rw [hlen, hmmk, hnk])
        rw [hr0] at hg; cases hg
      | ok res =>
        obtain ⟨mm', id⟩ := res
        obtain ⟨g1, g2, g3, g4⟩ := getDatum_ok hg
        simp only
        have hs' : StoreOK p (st.set m' mm') t.dead := by
          refine storeOK_set hs hmm g1 ?_
          intro l hl
          rcases g2 l hl with h | h
          · exact hs.live m' mm hmm l h
          · exact ⟨mi, hmi, by rw [h]; exact zeroDatum_ty mi (metricsOK_le hmo hmi)⟩
        have hext : Ext st t.dead (st.set m' mm') t.dead := ext_set hmm g4
        refine ⟨hs', (pc + 1, _), List.mem_singleton.mpr rfl, hpc, ⟨rfl, ?_⟩, sOK_ext hext hr'⟩
        exact getD_isSome_of_live (by simp [hstlt]) g3
    · -- del
      simp only [astep, hn, h0, hkeys, and_self, if_true, Option.bind_eq_some_iff, Option.some.injEq] at ha
      obtain ⟨r', hk, rfl⟩ := ha
      simp only [stepCore, hstk, hn, hnneg, if_false]
      refine andThen_keys o hs n.toNat hr hk fun ks rest' hlen hr' => ?_
      simp only [hmm]
      cases hg : Metric.removeDatum mm ks with
      | error e =>
        exfalso
        unfold Metric.removeDatum at hg
        split at hg
        · next hbad => exact hbad (by rw [hlen, hmmk, hnk])
        · simp only at hg
          split at hg
          · cases hg
          · split at hg <;> cases hg
      | ok mm' =>
        obtain ⟨g1, g2, _⟩ := removeDatum_ok hg
        simp only
        have hext := ext_remove (dead := t.dead) hmm hg
        refine ⟨?_, (pc + 1, _), List.mem_singleton.mpr rfl, hpc, sOK_ext hext hr'⟩
        have hs1 : StoreOK p (st.set m' mm') t.dead :=
          storeOK_set hs hmm g1 (fun l hl => hs.live m' mm hmm l (g2 l hl))
        refine ⟨hs1.len, hs1.keys, hs1.live, ?_⟩
        intro x hx
        simp only [List.mem_append] at hx
        rcases hx with hx | hx
        · cases hf : Metric.find mm ks with
          | none => simp [hf] at hx
          | some l =>
            simp only [hf, List.mem_singleton] at hx
            subst hx
            unfold Metric.find at hf
            split at hf
            · cases hf
            · exact hs.live m' mm hmm l (byId_mem hf).1
        · exact hs.deadOK x hx
    · -- expire
      simp only [astep, hn, h0, hkeys, and_self, if_true, Option.bind_eq_some_iff] at ha
      obtain ⟨r', hk, hsu⟩ := ha
      simp only [stepCore, hstk, hn, hnneg, if_false]
      refine andThen_keys o hs n.toNat hr hk fun ks rest' hlen hr' => ?_
      cases r' with
      | nil => simp at hsu
      | cons a r'' =>
        cases a <;> simp only [Option.some.injEq, reduceCtorEq] at hsu
        subst hsu
        cases rest' with
        | nil => exact absurd hr' (by simp [sOK])
        | cons dv rest'' =>
          obtain ⟨hdv, hr''⟩ := hr'
          cases dv <;> simp only [vOK] at hdv
          simp only [hmm]
          cases hg : Metric.expireDatum mm _ ks with
          | error e =>
            cases e with
            | arity =>
              exfalso
              unfold Metric.expireDatum at hg
              split at hg
              · next hbad => exact hbad (by rw [hlen, hmmk, hnk])
              · split at hg <;> cases hg
            | noDatum => exact ⟨by decide, hs.forget⟩
          | ok mm' =>
            obtain ⟨g1, g2, g3⟩ := expireDatum_ok hg
            simp only
            have hs' : StoreOK p (st.set m' mm') t.dead := by
              refine storeOK_set hs hmm g1 ?_
              intro l hl
              obtain ⟨l0, hl0, hv⟩ := g2 l hl
              rw [hv]; exact hs.live m' mm hmm l0 hl0
            exact ⟨hs', (pc + 1, _), List.mem_singleton.mpr rfl, hpc, sOK_ext (ext_set hmm g3) hr''⟩

theorem stepStrptime_sound (o : Oracle) (p : Prog) (arg : Operand) (t : Thread) (st : MStore) (memo : Memo)
    (pc : Nat) (s : AStack) (succs : List (Nat × AStack))
    (hs : StoreOK p st t.dead) (hst : sOK p st t.dead s t.stack) (hpc : t.pc = pc + 1)
    (ha : astep p pc ⟨.strptime, arg⟩ s = some succs) :
    ResOK p succs (stepStrptime o t st memo).1 := by
  simp only [astep, Option.bind_eq_some_iff] at ha
  obtain ⟨s1, h1, hsu⟩ := ha
  obtain ⟨layout, rest, hpop, hr⟩ := popString_sound o hs hst h1
  simp only [stepStrptime, hpop]
  have hwith : ∀ (ts : Bytes) (rest' : List Val) (r : AStack), sOK p st t.dead r rest' →
      ResOK p [(pc + 1, r)]
        (match memoGet (layout, ts) memo with
          | some tm => (Res.next { t with stack := rest', time := tm } st, memoTouch (layout, ts) tm memo)
          | none =>
            match o.timeParse layout ts with
            | some tm => (Res.next { t with stack := rest', time := tm } st, memoAdd (layout, ts) tm memo)
            | none => (Res.err .timeParseFailed st, memo)).1 := by
    intro ts rest' r hr'
    split
    · exact ⟨hs, (pc + 1, r), List.mem_singleton.mpr rfl, hpc, hr'⟩
    · split
      · exact ⟨hs, (pc + 1, r), List.mem_singleton.mpr rfl, hpc, hr'⟩
      · exact ⟨by decide, hs.forget⟩
  obtain ⟨s2, h2, hone⟩ := hsu
  obtain ⟨ts, rest', hpop2, hr2⟩ := popString_sound o hs hr h2
  simp only [hpop2]
  simp only [Option.some.injEq] at hone
  subst hone
  exact hwith ts rest' s2 hr2

/-- one verified instruction never faults, raises only checked errors, and lands in a state the
    certificate's successor describes -/
theorem step_sound (o : Oracle) (p : Prog) (inp : Input) (i : Instr) (t : Thread) (st : MStore) (memo : Memo)
    (s : AStack) (succs : List (Nat × AStack)) (hmo : metricsOK p = true)
    (hs : StoreOK p st t.dead) (hst : sOK p st t.dead s t.stack)
    (ha : astep p t.pc i s = some succs) :
    ResOK p succs (step o p inp i t st memo).1 := by
  obtain ⟨op, arg⟩ := i
  unfold step
  have hs1 : StoreOK p st ({ t with pc := t.pc + 1 } : Thread).dead := hs
  have hst1 : sOK p st ({ t with pc := t.pc + 1 } : Thread).dead s ({ t with pc := t.pc + 1 } : Thread).stack := hst
  have hpc1 : ({ t with pc := t.pc + 1 } : Thread).pc = t.pc + 1 := rfl
  by_cases hsp : op = .strptime
  · subst hsp
    simp only [if_true]
    exact stepStrptime_sound o p arg _ st memo t.pc s succs hs1 hst1 hpc1 ha
  · simp only [hsp, if_false]
    cases op
    case strptime => exact absurd rfl hsp
    case iadd | isub | imul | idiv | imod | ipow | shl | shr | and | or | xor =>
      exact stepCore_sound_arith o p inp arg _ st t.pc s succs hs1 hst1 hpc1 _ (by simp) ha
    case fadd | fsub | fmul | fdiv | fmod | fpow =>
      exact stepCore_sound_float o p inp arg _ st t.pc s succs hs1 hst1 hpc1 _ (by simp) ha
    case bad | stop | push | otherwise | getfilename | timestamp | setmatched | neg | i2f | i2s | f2s | tolower
        | length | cat | subst | s2f | not =>
      exact stepCore_sound_simple o p inp _ arg _ st t.pc s succs hs1 hst1 hpc1 ha (by simp)
    case icmp | fcmp | scmp | cmp =>
      exact stepCore_sound_cmp o p inp _ arg _ st t.pc s succs hs1 hst1 hpc1 ha (by simp)
    case jnm | jm | jmp | «match» | smatch | str | mload | capref | s2i | rsubst | settime =>
      exact stepCore_sound_ctl o p inp _ arg _ st t.pc s succs hs1 hst1 hpc1 ha (by simp)
    case inc | dec | iset | fset | sset | iget | fget | sget =>
      exact stepCore_sound_datum o p inp _ arg _ st t.pc s succs hs1 hst1 hpc1 ha (by simp)
    case dload | del | expire =>
      exact stepCore_sound_metric o p inp _ arg _ st t.pc s succs hmo hs1 hst1 hpc1 ha (by simp)

end MtailVerif.VM.Verify
