import MtailVerif.Model.ExportLocks
/-! Soundness of the syntactic check: a skeleton accepted by `safe` releases the metric's read
    lock and leaves no emitter goroutine mid-channel, for every number of label sets and
    every fault plan. -/
namespace MtailVerif.ExportLocks

def ChanRel : Chan → Emitter → Prop
  | .none, e => e = .none
  | .open, e => ∃ k, e = .running k
  | .closed, e => e = .done

def Rel (s : A) (c : C) : Prop :=
  c.underflow = false ∧ c.readers = (if s.held then 1 else 0) ∧ ChanRel s.ch c.em

def Post (lp : Option A) (r : Option A) : Outcome → Prop
  | .fall c' => ∃ s', r = some s' ∧ Rel s' c'
  | .returned c' => Good c'
  | .continued c' => ∃ l, lp = some l ∧ Rel l c'

def PostLoop (s : A) : Outcome → Prop
  | .fall c' => Rel { s with ch := .closed } c'
  | .returned c' => Good c'
  | .continued _ => False

theorem check_cons (lp : Option A) (st : Stmt) (rest : List Stmt) (s : A) :
    check lp (st :: rest) s =
      match checkS lp st s with
      | none => none
      | some none => some none
      | some (some s') => check lp rest s' := by
  rw [check]; rfl

theorem not_blocked_of (s : A) (c : C) (h : ChanRel s.ch c.em) (hne : s.ch ≠ .open) : blocked c = false := by
  unfold blocked
  cases hch : s.ch with
  | none => rw [hch] at h; simp only [ChanRel] at h; simp [h]
  | «open» => exact absurd hch hne
  | closed => rw [hch] at h; simp only [ChanRel] at h; simp [h]

/-- what a successful `checkS` on an `if`/loop body tells us -/
theorem body_ok {x : Option (Option A)} {s : A} {k : Option (Option A)}
    (h : (match x with
      | none => none
      | some none => some (some s)
      | some (some s') => if s' = s then some (some s) else none) = k) (hk : k ≠ none) :
    ∃ rb, x = some rb ∧ (rb = none ∨ rb = some s) ∧ k = some (some s) := by
  cases x with
  | none => simp at h; exact absurd h.symm hk
  | some rb =>
    cases rb with
    | none => exact ⟨none, rfl, Or.inl rfl, by simpa using h.symm⟩
    | some s' =>
      simp only at h
      by_cases he : s' = s
      · subst he; exact ⟨some s', rfl, Or.inr rfl, by simpa using h.symm⟩
      · simp [he] at h; exact absurd h.symm hk

theorem sound (n : Nat) (fuel : Nat) :
    (∀ prog c ch lp s r o ch', Rel s c → check lp prog s = some r →
        exec n fuel prog c ch = some (o, ch') → Post lp r o) ∧
    (∀ body c ch s rb o ch', Rel s c → s.ch = .open → check (some s) body s = some rb →
        (rb = none ∨ rb = some s) → execLoop n fuel body c ch = some (o, ch') → PostLoop s o) := by
  induction fuel with
  | zero =>
    constructor
    · intro prog c ch lp s r o ch' _ _ h; simp [exec] at h
    · intro body c ch s rb o ch' _ _ _ _ h; simp [execLoop] at h
  | succ f ih =>
    obtain ⟨ih1, ih2⟩ := ih
    constructor
    · intro prog c ch lp s r o ch' hrel hchk hex
      cases prog with
      | nil =>
        simp only [exec, Option.some.injEq, Prod.mk.injEq] at hex
        simp only [check, Option.some.injEq] at hchk
        obtain ⟨rfl, _⟩ := hex
        exact ⟨s, hchk.symm, hrel⟩
      | cons st rest =>
        rw [check_cons] at hchk
        obtain ⟨hu, hr, hc⟩ := hrel
        cases st with
        | rlock =>
          by_cases hh : s.held = true
          · simp [checkS, hh] at hchk
          · simp only [checkS, hh, Bool.false_eq_true, if_false] at hchk
            simp only [exec] at hex
            have hrel' : Rel { s with held := true } { c with readers := c.readers + 1 } :=
              ⟨hu, by simp [hr, hh], hc⟩
            exact ih1 rest _ ch lp _ r o ch' hrel' hchk hex
        | runlock =>
          by_cases hh : s.held = true
          · simp only [checkS, hh, if_true] at hchk
            have hr1 : c.readers = 1 := by simpa [hh] using hr
            simp only [exec, hr1, Nat.one_ne_zero, if_false] at hex
            have hrel' : Rel { s with held := false } { c with readers := 1 - 1 } :=
              ⟨hu, by simp, hc⟩
            exact ih1 rest _ ch lp _ r o ch' hrel' hchk hex
          · simp [checkS, hh] at hchk
        | spawn =>
          by_cases hh : s.ch = .none
          · simp only [checkS, hh, if_true] at hchk
            simp only [exec] at hex
            have hrel' : Rel { s with ch := .open } { c with em := .running n } :=
              ⟨hu, hr, (by show ChanRel Chan.open (Emitter.running n); exact ⟨n, rfl⟩)⟩
            exact ih1 rest _ ch lp _ r o ch' hrel' hchk hex
          · simp [checkS, hh] at hchk
        | ret =>
          by_cases hh : s.held = false ∧ s.ch ≠ .open
          · simp only [exec, Option.some.injEq, Prod.mk.injEq] at hex
            obtain ⟨rfl, _⟩ := hex
            exact ⟨by simpa [hh.1] using hr, not_blocked_of s c hc hh.2, hu⟩
          · simp [checkS, hh] at hchk
        | cont =>
          cases lp with
          | none => simp [checkS] at hchk
          | some l =>
            by_cases hh : s = l
            · simp only [exec, Option.some.injEq, Prod.mk.injEq] at hex
              obtain ⟨rfl, _⟩ := hex
              exact ⟨l, rfl, hh ▸ ⟨hu, hr, hc⟩⟩
            · simp [checkS, hh] at hchk
        | drain =>
          by_cases hh : s.ch = .open
          · simp only [checkS, hh, if_true] at hchk
            simp only [exec] at hex
            have hrel' : Rel { s with ch := .closed } { c with em := .done } :=
              ⟨hu, hr, (by show ChanRel Chan.closed Emitter.done; rfl)⟩
            exact ih1 rest _ ch lp _ r o ch' hrel' hchk hex
          · simp [checkS, hh] at hchk
        | other =>
          simp only [checkS] at hchk
          simp only [exec] at hex
          exact ih1 rest _ ch lp _ r o ch' ⟨hu, hr, hc⟩ hchk hex
        | relock =>
          by_cases hh : s.held = true
          · simp [checkS, hh] at hchk
          · simp only [checkS, hh, Bool.false_eq_true, if_false] at hchk
            have hr0 : c.readers = 0 := by simpa [hh] using hr
            simp only [exec, hr0, if_true] at hex
            exact ih1 rest _ ch lp _ r o ch' ⟨hu, hr, hc⟩ hchk hex
        | wait =>
          by_cases hh : s.held = true
          · simp [checkS, hh] at hchk
          · simp only [checkS, hh, Bool.false_eq_true, if_false] at hchk
            have hr0 : c.readers = 0 := by simpa [hh] using hr
            simp only [exec, hr0, if_true] at hex
            exact ih1 rest _ ch lp _ r o ch' ⟨hu, hr, hc⟩ hchk hex
        | ifs body =>
          have hne : checkS lp (.ifs body) s ≠ none := by
            intro e; rw [e] at hchk; simp at hchk
          obtain ⟨rb, hb, hrb, hk⟩ := body_ok (x := check lp body s) (s := s) (by simp only [checkS]; rfl) hne
          rw [hk] at hchk
          simp only at hchk
          simp only [exec] at hex
          cases ch with
          | nil => exact ih1 rest _ _ lp _ r o ch' ⟨hu, hr, hc⟩ hchk hex
          | cons b chs =>
            cases b with
            | false => exact ih1 rest _ _ lp _ r o ch' ⟨hu, hr, hc⟩ hchk hex
            | true =>
              simp only at hex
              cases hbody : exec n f body c chs with
              | none => simp [hbody] at hex
              | some p =>
                obtain ⟨o1, ch1⟩ := p
                have hp := ih1 body c chs lp s rb o1 ch1 ⟨hu, hr, hc⟩ hb hbody
                cases o1 with
                | fall c1 =>
                  simp only [hbody] at hex
                  obtain ⟨s', hs', hrel'⟩ := hp
                  have : s' = s := by
                    rcases hrb with h | h
                    · rw [h] at hs'; simp at hs'
                    · rw [h] at hs'; exact (Option.some.inj hs').symm
                  subst this
                  exact ih1 rest _ _ lp _ r o ch' hrel' hchk hex
                | returned c1 =>
                  simp only [hbody, Option.some.injEq, Prod.mk.injEq] at hex
                  obtain ⟨rfl, _⟩ := hex
                  exact hp
                | continued c1 =>
                  simp only [hbody, Option.some.injEq, Prod.mk.injEq] at hex
                  obtain ⟨rfl, _⟩ := hex
                  exact hp
        | loop body =>
          by_cases hh : s.ch = .open ∧ lp = none
          · obtain ⟨hopen, hlp⟩ := hh
            have hne : checkS lp (.loop body) s ≠ none := by
              intro e; rw [e] at hchk; simp at hchk
            have hform : checkS lp (.loop body) s =
                (match check (some s) body s with
                 | none => none
                 | some none => some (some { s with ch := .closed })
                 | some (some s') => if s' = s then some (some { s with ch := .closed }) else none) := by
              simp only [checkS, hopen, hlp, and_self, if_true]
              rfl
            cases hb : check (some s) body s with
            | none => rw [hform, hb] at hne; exact absurd rfl hne
            | some rb =>
              have hrb : rb = none ∨ rb = some s := by
                cases rb with
                | none => exact Or.inl rfl
                | some s' =>
                  by_cases he : s' = s
                  · exact Or.inr (by rw [he])
                  · rw [hform, hb] at hne; simp [he] at hne
              have hk : checkS lp (.loop body) s = some (some { s with ch := .closed }) := by
                rw [hform, hb]
                rcases hrb with h | h
                · subst h; rfl
                · subst h; simp
              rw [hk] at hchk
              simp only at hchk
              simp only [exec] at hex
              cases hloop : execLoop n f body c ch with
              | none => simp [hloop] at hex
              | some p =>
                obtain ⟨o1, ch1⟩ := p
                have hp := ih2 body c ch s rb o1 ch1 ⟨hu, hr, hc⟩ hopen hb hrb hloop
                cases o1 with
                | fall c1 =>
                  simp only [hloop] at hex
                  exact ih1 rest _ _ lp _ r o ch' hp hchk hex
                | returned c1 =>
                  simp only [hloop, Option.some.injEq, Prod.mk.injEq] at hex
                  obtain ⟨rfl, _⟩ := hex
                  exact hp
                | continued c1 => exact absurd hp (by simp [PostLoop])
          · simp [checkS, hh] at hchk
    · intro body c ch s rb o ch' hrel hopen hb hrb hex
      obtain ⟨hu, hr, hc⟩ := hrel
      rw [hopen] at hc
      obtain ⟨k, hk⟩ := hc
      simp only [execLoop, hk] at hex
      cases k with
      | zero =>
        simp only [Option.some.injEq, Prod.mk.injEq] at hex
        obtain ⟨rfl, _⟩ := hex
        exact ⟨hu, hr, (by show ChanRel Chan.closed Emitter.done; rfl)⟩
      | succ k =>
        simp only at hex
        cases hbody : exec n f body { c with em := .running k } ch with
        | none => simp [hbody] at hex
        | some p =>
          obtain ⟨o1, ch1⟩ := p
          have hrel1 : Rel s { c with em := .running k } := ⟨hu, hr, by rw [hopen]; show ChanRel Chan.open (Emitter.running k); exact ⟨k, rfl⟩⟩
          have hp := ih1 body _ ch (some s) s rb o1 ch1 hrel1 hb hbody
          cases o1 with
          | fall c1 =>
            simp only [hbody] at hex
            obtain ⟨s', hs', hrel'⟩ := hp
            have : s' = s := by
              rcases hrb with h | h
              · rw [h] at hs'; simp at hs'
              · rw [h] at hs'; exact (Option.some.inj hs').symm
            subst this
            exact ih2 body c1 ch1 s' rb o ch' hrel' hopen hb hrb hex
          | continued c1 =>
            simp only [hbody] at hex
            obtain ⟨l, hl, hrel'⟩ := hp
            have : l = s := (Option.some.inj hl).symm
            subst this
            exact ih2 body c1 ch1 l rb o ch' hrel' hopen hb hrb hex
          | returned c1 =>
            simp only [hbody, Option.some.injEq, Prod.mk.injEq] at hex
            obtain ⟨rfl, _⟩ := hex
            exact hp

/-- the theorem used by C12 -/
theorem safe_sound (prog : List Stmt) (hs : safe prog = true) (n fuel : Nat) (plan : List Bool)
    (o : Outcome) (rest : List Bool)
    (hex : exec n fuel prog ⟨0, .none, false⟩ plan = some (o, rest)) : GoodOutcome o := by
  unfold safe at hs
  cases hc : check none prog ⟨false, .none⟩ with
  | none => simp [hc] at hs
  | some r =>
    have hrel : Rel ⟨false, .none⟩ (⟨0, .none, false⟩ : C) := ⟨rfl, rfl, rfl⟩
    have hp := (sound n fuel).1 prog _ plan none _ r o rest hrel hc hex
    cases o with
    | fall c =>
      obtain ⟨s', hs', hu, hr, hcc⟩ := hp
      subst hs'
      simp only [hc, Bool.and_eq_true, decide_eq_true_eq] at hs
      exact ⟨by simpa [hs.1] using hr, not_blocked_of s' c hcc hs.2, hu⟩
    | returned c => exact hp
    | continued c =>
      obtain ⟨l, hl, _⟩ := hp
      simp at hl


/-- what `deadlineBeforeWrites` says: whichever call writes (is neither a dial, a close nor a
    deadline setting), a call that sets a write deadline stands before it in the list -/
theorem deadlineBeforeWrites_sound (cs : List String) (b : Bool) (h : deadlineBeforeWrites b cs = true)
    (pre : List String) (w : String) (post : List String) (hcs : cs = pre ++ w :: post)
    (hw : connQuiet w = false) (hwb : connBounds w = false) :
    b = true ∨ ∃ d ∈ pre, connBounds d = true := by
  induction pre generalizing cs b with
  | nil =>
    subst hcs
    simp only [List.nil_append, deadlineBeforeWrites, hwb, hw] at h
    simp at h
    exact Or.inl h.1
  | cons c pre ih =>
    subst hcs
    simp only [List.cons_append, deadlineBeforeWrites] at h
    by_cases hc : connBounds c = true
    · exact Or.inr ⟨c, by simp, hc⟩
    · simp only [hc] at h
      by_cases hq : connQuiet c = true
      · simp only [hq] at h
        rcases ih (pre ++ w :: post) b (by simpa using h) rfl with h1 | ⟨d, hd, hdb⟩
        · exact Or.inl h1
        · exact Or.inr ⟨d, by simp [hd], hdb⟩
      · simp only [hq] at h
        simp at h
        exact Or.inl h.1

end MtailVerif.ExportLocks
