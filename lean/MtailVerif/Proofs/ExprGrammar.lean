import MtailVerif.Model.ExprGrammar
/-! Parsing what the formatter writes for an expression gives the expression back. -/
namespace MtailVerif.Grammar
open MtailVerif MtailVerif.Ast MtailVerif.Unparse

def Parses (l : Nat) (ts : List Tok) (r : Node × List Tok) : Prop :=
  ∃ f0, ∀ f, f0 ≤ f → parseAt f l ts = some r
def Chains (l : Nat) (lhs : Node) (ts : List Tok) (r : Node × List Tok) : Prop :=
  ∃ f0, ∀ f, f0 ≤ f → chain f l lhs ts = some r
def ArgsP (ts : List Tok) (r : Nodes × List Tok) : Prop :=
  ∃ f0, ∀ f, f0 ≤ f → parseArgs f ts = some r

/-- the token after an expression printed at level `j` does not continue it -/
def stops (j : Nat) : List Tok → Bool
  | .lsq :: _ => false
  | .op o :: _ =>
    (match binLevel o with | some k => decide (k < j) | none => true) &&
      (decide (8 < j) || (o != .inc && o != .dec))
  | _ => true

theorem stops_mono {j k : Nat} {ts : List Tok} (h : stops j ts = true) (hjk : j ≤ k) : stops k ts = true := by
  unfold stops at *
  split <;> try simp_all
  rename_i o _
  obtain ⟨h1, h2⟩ := h
  constructor
  · split <;> simp_all <;> omega
  · rcases h2 with h2 | h2
    · left; omega
    · right; exact h2

/-! ### composition lemmas, one per parser clause -/

theorem parses_bin {l : Nat} {ts : List Tok} {lhs : Node} {rest : List Tok} {r : Node × List Tok}
    (hl : l ≤ 6) (h1 : Parses (l + 1) ts (lhs, rest)) (h2 : Chains l lhs rest r) : Parses l ts r := by
  obtain ⟨f1, h1⟩ := h1; obtain ⟨f2, h2⟩ := h2
  refine ⟨max f1 f2 + 1, fun f hf => ?_⟩
  obtain ⟨g, rfl⟩ : ∃ g, f = g + 1 := ⟨f - 1, by omega⟩
  unfold parseAt; simp only [hl, if_true]
  rw [h1 g (by omega)]; exact h2 g (by omega)

theorem chains_stop {l : Nat} {lhs : Node} {ts : List Tok}
    (h : ∀ o rest, ts = .op o :: rest → binLevel o ≠ some l) : Chains l lhs ts (lhs, ts) := by
  refine ⟨1, fun f hf => ?_⟩
  obtain ⟨g, rfl⟩ : ∃ g, f = g + 1 := ⟨f - 1, by omega⟩
  cases ts with
  | nil => rw [chain]; intros; simp_all
  | cons t rest =>
    cases t with
    | op o => rw [chain]; simp [h o rest rfl]
    | _ => rw [chain]; intros; simp_all

theorem chains_step {l : Nat} {lhs rhs : Node} {o : Op} {rest rest' : List Tok} {r : Node × List Tok}
    (ho : binLevel o = some l) (h1 : Parses (l + 1) rest (rhs, rest'))
    (h2 : Chains l (.bin o lhs rhs .unk) rest' r) : Chains l lhs (.op o :: rest) r := by
  obtain ⟨f1, h1⟩ := h1; obtain ⟨f2, h2⟩ := h2
  refine ⟨max f1 f2 + 1, fun f hf => ?_⟩
  obtain ⟨g, rfl⟩ : ∃ g, f = g + 1 := ⟨f - 1, by omega⟩
  rw [chain]; simp only [ho, if_true]
  rw [h1 g (by omega)]; exact h2 g (by omega)


theorem parses_not {rest : List Tok} {e : Node} {r : List Tok}
    (h : Parses 7 rest (e, r)) : Parses 7 (.op .not :: rest) (.un .not e dp .unk, r) := by
  obtain ⟨f1, h⟩ := h
  refine ⟨f1 + 1, fun f hf => ?_⟩
  obtain ⟨g, rfl⟩ : ∃ g, f = g + 1 := ⟨f - 1, by omega⟩
  unfold parseAt; simp [h g (by omega)]

def notNotHead : List Tok → Bool
  | .op .not :: _ => false
  | _ => true

theorem parses_7_of_8 {ts : List Tok} {r : Node × List Tok}
    (hn : notNotHead ts = true) (h : Parses 8 ts r) : Parses 7 ts r := by
  obtain ⟨f1, h⟩ := h
  refine ⟨f1 + 1, fun f hf => ?_⟩
  obtain ⟨g, rfl⟩ : ∃ g, f = g + 1 := ⟨f - 1, by omega⟩
  unfold parseAt
  simp only [show ¬ (7 ≤ 6) by omega, if_false, if_true]
  split
  · simp [notNotHead] at hn
  · exact h g (by omega)

theorem parses_8 {ts : List Tok} {e : Node} {rest : List Tok}
    (h : Parses 9 ts (e, rest)) : Parses 8 ts (postOps e rest) := by
  obtain ⟨f1, h⟩ := h
  refine ⟨f1 + 1, fun f hf => ?_⟩
  obtain ⟨g, rfl⟩ : ∃ g, f = g + 1 := ⟨f - 1, by omega⟩
  unfold parseAt
  simp [h g (by omega)]

theorem parses_int (i : Int) (r : List Tok) : Parses 9 (.int i :: r) (.int i dp, r) :=
  ⟨1, fun f hf => by obtain ⟨g, rfl⟩ : ∃ g, f = g + 1 := ⟨f - 1, by omega⟩; unfold parseAt; simp⟩
theorem parses_float (b : UInt64) (r : List Tok) : Parses 9 (.float b :: r) (.float b dp, r) :=
  ⟨1, fun f hf => by obtain ⟨g, rfl⟩ : ∃ g, f = g + 1 := ⟨f - 1, by omega⟩; unfold parseAt; simp⟩
theorem parses_str (t : Bytes) (r : List Tok) : Parses 9 (.str t :: r) (.str t dp, r) :=
  ⟨1, fun f hf => by obtain ⟨g, rfl⟩ : ∃ g, f = g + 1 := ⟨f - 1, by omega⟩; unfold parseAt; simp⟩
theorem parses_cap (n : String) (nd : Bool) (r : List Tok) : Parses 9 (.cap n nd :: r) (.cap n nd dp .unk, r) :=
  ⟨1, fun f hf => by obtain ⟨g, rfl⟩ : ∃ g, f = g + 1 := ⟨f - 1, by omega⟩; unfold parseAt; simp⟩

theorem parses_id (n : String) {r : List Tok} (h : stops 9 r = true) :
    Parses 9 (.id n :: r) (.idx (.id n dp .unk) (.exprs .nil) .unk, r) := by
  refine ⟨1, fun f hf => ?_⟩
  obtain ⟨g, rfl⟩ : ∃ g, f = g + 1 := ⟨f - 1, by omega⟩
  unfold parseAt
  cases r with
  | nil => simp
  | cons t r' => cases t <;> simp_all [stops]

theorem parses_idx (n : String) {r r' : List Tok} {as : Nodes} (h : ArgsP r (as, .rsq :: r')) :
    Parses 9 (.id n :: .lsq :: r) (.idx (.id n dp .unk) (.exprs as) .unk, r') := by
  obtain ⟨f1, h⟩ := h
  refine ⟨f1 + 1, fun f hf => ?_⟩
  obtain ⟨g, rfl⟩ : ∃ g, f = g + 1 := ⟨f - 1, by omega⟩
  unfold parseAt; simp [h g (by omega)]

theorem parses_call0 (n : String) (r : List Tok) :
    Parses 9 (.bi n :: .lp :: .rp :: r) (.builtin n .nil dp .unk, r) :=
  ⟨1, fun f hf => by obtain ⟨g, rfl⟩ : ∃ g, f = g + 1 := ⟨f - 1, by omega⟩; unfold parseAt; simp⟩

def notRpHead : List Tok → Bool
  | .rp :: _ => false
  | _ => true

theorem parses_call (n : String) {r r' : List Tok} {as : Nodes} (hr : notRpHead r = true)
    (h : ArgsP r (as, .rp :: r')) :
    Parses 9 (.bi n :: .lp :: r) (.builtin n (.exprs as) dp .unk, r') := by
  obtain ⟨f1, h⟩ := h
  refine ⟨f1 + 1, fun f hf => ?_⟩
  obtain ⟨g, rfl⟩ : ∃ g, f = g + 1 := ⟨f - 1, by omega⟩
  unfold parseAt
  cases r with
  | nil => simp [h g (by omega)]
  | cons t r'' => cases t <;> simp_all [notRpHead, h g (by omega)]

theorem parses_paren {r r' : List Tok} {e : Node} (h : Parses 1 r (e, .rp :: r')) :
    Parses 9 (.lp :: r) (e, r') := by
  obtain ⟨f1, h⟩ := h
  refine ⟨f1 + 1, fun f hf => ?_⟩
  obtain ⟨g, rfl⟩ : ∃ g, f = g + 1 := ⟨f - 1, by omega⟩
  unfold parseAt; simp [h g (by omega)]

def notCommaHead : List Tok → Bool
  | .comma :: _ => false
  | _ => true

theorem args_one {ts rest : List Tok} {a : Node} (h : Parses 1 ts (a, rest))
    (hc : notCommaHead rest = true) : ArgsP ts (.cons a .nil, rest) := by
  obtain ⟨f1, h⟩ := h
  refine ⟨f1 + 1, fun f hf => ?_⟩
  obtain ⟨g, rfl⟩ : ∃ g, f = g + 1 := ⟨f - 1, by omega⟩
  unfold parseArgs; rw [h g (by omega)]
  cases rest with
  | nil => simp
  | cons t r => cases t <;> simp_all [notCommaHead]

theorem args_more {ts rest r : List Tok} {a : Node} {as : Nodes}
    (h : Parses 1 ts (a, .comma :: rest)) (h2 : ArgsP rest (as, r)) : ArgsP ts (.cons a as, r) := by
  obtain ⟨f1, h⟩ := h; obtain ⟨f2, h2⟩ := h2
  refine ⟨max f1 f2 + 1, fun f hf => ?_⟩
  obtain ⟨g, rfl⟩ : ∃ g, f = g + 1 := ⟨f - 1, by omega⟩
  unfold parseArgs; rw [h g (by omega)]; simp [h2 g (by omega)]


/-! ### what `stops` gives -/

theorem stops_chain {j : Nat} {ts : List Tok} (h : stops j ts = true) :
    ∀ o rest, ts = .op o :: rest → binLevel o ≠ some j := by
  intro o rest e hb
  subst e
  simp [stops, hb] at h

theorem stops_post {R : List Tok} (e : Node) (h : stops 8 R = true) : postOps e R = (e, R) := by
  cases R with
  | nil => unfold postOps; rfl
  | cons t r =>
    cases t with
    | op o => cases o <;> simp_all [stops, postOps, binLevel]
    | _ => unfold postOps; rfl

theorem stops_notComma_of_closer {R : List Tok} : (∃ r, R = .rp :: r ∨ R = .rsq :: r) →
    stops 1 R = true ∧ notCommaHead R = true := by
  rintro ⟨r, rfl | rfl⟩ <;> simp [stops, notCommaHead]

/-- from a level at or below unary down to any looser level, when the rest stops there -/
theorem descend {ts : List Tok} {e : Node} {R : List Tok} :
    ∀ (d k j : Nat), k = j + d → k ≤ 7 → 1 ≤ j → Parses k ts (e, R) → stops j R = true →
      Parses j ts (e, R)
  | 0, k, j, hk, _, _, h, _ => by simpa [hk] using h
  | d+1, k, j, hk, h7, h1, h, hs => by
    have h' : Parses (j + 1) ts (e, R) :=
      descend d k (j + 1) (by omega) h7 (by omega) h (stops_mono hs (by omega))
    exact parses_bin (by omega) h' (chains_stop (stops_chain hs))

/-- a primary parse is a parse at every level whose continuation stops -/
theorem lift9 {ts : List Tok} {e : Node} {R : List Tok} (h : Parses 9 ts (e, R))
    (hn : notNotHead ts = true) {j : Nat} (h1 : 1 ≤ j) (h9 : j ≤ 9) (hs : stops j R = true) :
    Parses j ts (e, R) := by
  by_cases hj : j = 9
  · subst hj; exact h
  have h8 : stops 8 R = true := stops_mono hs (by omega)
  have p8 : Parses 8 ts (e, R) := by simpa [stops_post e h8] using parses_8 h
  by_cases hj8 : j = 8
  · subst hj8; exact p8
  have p7 : Parses 7 ts (e, R) := parses_7_of_8 hn p8
  exact descend (7 - j) 7 j (by omega) (by omega) h1 p7 hs

/-! ### the round trip -/

mutual
inductive WF : Node → Prop
  | int (i : Int) : WF (.int i dp)
  | float (b : UInt64) : WF (.float b dp)
  | str (t : Bytes) : WF (.str t dp)
  | cap (n : String) (nd : Bool) : WF (.cap n nd dp .unk)
  | var (n : String) {as : Nodes} : WFs as → WF (.idx (.id n dp .unk) (.exprs as) .unk)
  | call0 (n : String) : WF (.builtin n .nil dp .unk)
  | call (n : String) {a : Node} {as : Nodes} : WF a → WFs as → WF (.builtin n (.exprs (.cons a as)) dp .unk)
  | bin {op : Op} {l r : Node} : (binLevel op).isSome = true → WF l → WF r → WF (.bin op l r .unk)
  | not {e : Node} : WF e → WF (.un .not e dp .unk)
  | inc {e : Node} : WF e → WF (.un .inc e dp .unk)
  | dec {e : Node} : WF e → WF (.un .dec e dp .unk)
inductive WFs : Nodes → Prop
  | nil : WFs .nil
  | cons {a : Node} {as : Nodes} : WF a → WFs as → WFs (.cons a as)
end

def Full (j : Nat) (e : Node) : Prop :=
  ∀ rest, stops j rest = true → Parses j (toks e ++ rest) (e, rest)
def Open (m : Nat) (e : Node) : Prop :=
  ∀ rest r, stops (m + 1) rest = true → Chains m e rest r → Parses m (toks e ++ rest) r
def Open8 (e : Node) : Prop :=
  ∀ rest, stops 9 rest = true → Parses 8 (toks e ++ rest) (postOps e rest)

structure Good (e : Node) : Prop where
  full : ∀ j, 1 ≤ j → j ≤ precedence e → Full j e
  opn : ∀ m, 1 ≤ m → m ≤ 6 → m ≤ precedence e → Open m e
  opn8 : 8 ≤ precedence e → Open8 e
  head : 8 ≤ precedence e → ∀ rest, notNotHead (toks e ++ rest) = true
  headRp : ∀ rest, notRpHead (toks e ++ rest) = true
  pos : 1 ≤ precedence e
  noPat : isPatLit e = false
  noConcat : isConcat e = false

theorem open_of_full {m : Nat} {e : Node} (hm : m ≤ 6) (h : Full (m + 1) e) : Open m e :=
  fun rest _ hs hc => parses_bin hm (h rest hs) hc

theorem full_of_open {m : Nat} {e : Node} (h : Open m e) : Full m e :=
  fun rest hs => h rest _ (stops_mono hs (by omega)) (chains_stop (stops_chain hs))

theorem full_below {k : Nat} {e : Node} (h : Full k e) (h7 : k ≤ 7) {j : Nat} (h1 : 1 ≤ j) (hjk : j ≤ k) :
    Full j e :=
  fun rest hs => descend (k - j) k j (by omega) h7 h1 (h rest (stops_mono hs hjk)) hs


theorem good_prim {e : Node} (hp : precedence e = 9) (h9 : Full 9 e)
    (hh : ∀ rest, notNotHead (toks e ++ rest) = true) (hr : ∀ rest, notRpHead (toks e ++ rest) = true)
    (h1 : isPatLit e = false) (h2 : isConcat e = false) : Good e := by
  have full : ∀ j, 1 ≤ j → j ≤ precedence e → Full j e := fun j h1 hj rest hs =>
    lift9 (h9 rest (stops_mono hs (by omega))) (hh rest) h1 (by omega) hs
  exact ⟨full, fun m h1 h6 hm => open_of_full h6 (full (m + 1) (by omega) (by omega)),
    fun _ rest hs => parses_8 (h9 rest hs), fun _ => hh, hr, by omega, h1, h2⟩

theorem good_post {e : Node} (hp : precedence e = 8) (h8 : Open8 e)
    (hh : ∀ rest, notNotHead (toks e ++ rest) = true) (hr : ∀ rest, notRpHead (toks e ++ rest) = true)
    (h1 : isPatLit e = false) (h2 : isConcat e = false) : Good e := by
  have f8 : Full 8 e := fun rest hs => by
    simpa [stops_post e hs] using h8 rest (stops_mono hs (by omega))
  have f7 : Full 7 e := fun rest hs => parses_7_of_8 (hh rest) (f8 rest (stops_mono hs (by omega)))
  have full : ∀ j, 1 ≤ j → j ≤ precedence e → Full j e := fun j h1 hj => by
    by_cases h : j = 8
    · subst h; exact f8
    · exact full_below f7 (by omega) h1 (by omega)
  exact ⟨full, fun m h1 h6 hm => open_of_full h6 (full (m + 1) (by omega) (by omega)),
    fun _ => h8, fun _ => hh, hr, by omega, h1, h2⟩

theorem good_unary {e : Node} (hp : precedence e = 7) (f7 : Full 7 e)
    (hr : ∀ rest, notRpHead (toks e ++ rest) = true)
    (h1 : isPatLit e = false) (h2 : isConcat e = false) : Good e := by
  have full : ∀ j, 1 ≤ j → j ≤ precedence e → Full j e := fun j h1 hj =>
    full_below f7 (by omega) h1 (by omega)
  exact ⟨full, fun m h1 h6 hm => open_of_full h6 (full (m + 1) (by omega) (by omega)),
    fun h => by omega, fun h => by omega, hr, by omega, h1, h2⟩

theorem good_bin {e : Node} {k : Nat} (hp : precedence e = k) (hk1 : 1 ≤ k) (hk6 : k ≤ 6) (ho : Open k e)
    (hr : ∀ rest, notRpHead (toks e ++ rest) = true)
    (h1 : isPatLit e = false) (h2 : isConcat e = false) : Good e := by
  have fk : Full k e := full_of_open ho
  have full : ∀ j, 1 ≤ j → j ≤ precedence e → Full j e := fun j h1 hj =>
    full_below fk (by omega) h1 (by omega)
  refine ⟨full, fun m h1 h6 hm => ?_, fun h => by omega, fun h => by omega, hr, by omega, h1, h2⟩
  by_cases h : m = k
  · subst h; exact ho
  · exact open_of_full h6 (full (m + 1) (by omega) (by omega))

theorem paren_parse {a : Node} (ga : Good a) (R : List Tok) :
    Parses 9 (.lp :: (toks a ++ .rp :: R)) (a, R) :=
  parses_paren (ga.full 1 (by omega) ga.pos (.rp :: R) (by simp [stops]))

/-- an operand printed under `parens b`, parsed at level `j` -/
theorem operand_parse {a : Node} (ga : Good a) (b : Bool) {j : Nat} (h1 : 1 ≤ j) (h9 : j ≤ 9)
    (hb : b = false → j ≤ precedence a) {R : List Tok} (hs : stops j R = true) :
    Parses j (parens b (toks a) ++ R) (a, R) := by
  cases b with
  | true =>
    simp only [parens, if_true, List.cons_append, List.append_assoc]
    exact lift9 (paren_parse ga R) (by simp [notNotHead]) h1 h9 hs
  | false => simpa [parens] using ga.full j h1 (hb rfl) R hs

theorem binLevel_prec {op : Op} {k : Nat} (h : binLevel op = some k) : opPrec op = k ∧ 1 ≤ k ∧ k ≤ 6 := by
  cases op <;> simp_all [binLevel, opPrec, precLogical, precBitwise, precRel, precShift, precAdditive,
    precMultiplicative] <;> omega

theorem stops_op {op : Op} {k : Nat} (h : binLevel op = some k) (ts : List Tok) :
    stops (k + 1) (.op op :: ts) = true := by
  cases op <;> simp_all [binLevel, stops] <;> omega

def closer : List Tok → Bool
  | .rp :: _ => true
  | .rsq :: _ => true
  | _ => false

theorem closer_stops {R : List Tok} (h : closer R = true) : stops 1 R = true ∧ notCommaHead R = true := by
  cases R with
  | nil => simp [closer] at h
  | cons t r => cases t <;> simp_all [closer, stops, notCommaHead]

structure GoodArgs (as : Nodes) : Prop where
  parse : as ≠ .nil → ∀ R, closer R = true → ArgsP (toksArgs as ++ R) (as, R)
  headRp : as ≠ .nil → ∀ R, notRpHead (toksArgs as ++ R) = true


theorem bin_open {op : Op} {l r : Node} {k : Nat} (hop : binLevel op = some k) (gl : Good l) (gr : Good r) :
    Open k (.bin op l r .unk) := by
  obtain ⟨hpk, hk1, hk6⟩ := binLevel_prec hop
  intro rest res hs hc
  have hl : lhsNeedsParens op l = decide (precedence l < k) := by
    have : lhsNeedsParens op l = (if isPatLit l || isConcat l then false else decide (precedence l < opPrec op)) := by
      cases op <;> simp_all [binLevel, lhsNeedsParens]
    rw [this, gl.noPat, gl.noConcat, hpk]; simp
  have hr : rhsNeedsParens op r = decide (precedence r ≤ k) := by
    have : rhsNeedsParens op r = (if isPatLit r then false else decide (precedence r ≤ opPrec op)) := by
      cases op <;> simp_all [binLevel, rhsNeedsParens]
    rw [this, gr.noPat, hpk]; simp
  have hrhs : Parses (k + 1) (parens (rhsNeedsParens op r) (toks r) ++ rest) (r, rest) :=
    operand_parse gr _ (by omega) (by omega) (by rw [hr]; simp; omega) hs
  have hchain : Chains k l (.op op :: (parens (rhsNeedsParens op r) (toks r) ++ rest)) res :=
    chains_step hop hrhs hc
  have hsR := stops_op hop (parens (rhsNeedsParens op r) (toks r) ++ rest)
  have e : toks (.bin op l r .unk) ++ rest =
      parens (lhsNeedsParens op l) (toks l) ++ (.op op :: (parens (rhsNeedsParens op r) (toks r) ++ rest)) := by
    simp [toks]
  rw [e]
  by_cases hlt : precedence l < k
  · exact parses_bin hk6 (operand_parse gl _ (by omega) (by omega) (by rw [hl]; simp; omega) hsR) hchain
  · have hb : lhsNeedsParens op l = false := by rw [hl]; simpa using hlt
    rw [hb]; simp only [parens, Bool.false_eq_true, if_false]
    by_cases heq : precedence l = k
    · exact gl.opn k hk1 hk6 (by omega) _ _ hsR hchain
    · exact parses_bin hk6 (gl.full (k + 1) (by omega) (by omega) _ hsR) hchain

theorem parens_notRp (b : Bool) {ts : List Tok} (h : ∀ rest, notRpHead (ts ++ rest) = true) (rest : List Tok) :
    notRpHead (parens b ts ++ rest) = true := by
  cases b with
  | true => simp [parens, notRpHead]
  | false => simpa [parens] using h rest

mutual
theorem good : ∀ {e : Node}, WF e → Good e
  | _, .int i => good_prim rfl (fun rest _ => by simpa [toks] using parses_int i rest)
      (by simp [toks, notNotHead]) (by simp [toks, notRpHead]) rfl rfl
  | _, .float b => good_prim rfl (fun rest _ => by simpa [toks] using parses_float b rest)
      (by simp [toks, notNotHead]) (by simp [toks, notRpHead]) rfl rfl
  | _, .str t => good_prim rfl (fun rest _ => by simpa [toks] using parses_str t rest)
      (by simp [toks, notNotHead]) (by simp [toks, notRpHead]) rfl rfl
  | _, .cap n nd => good_prim rfl (fun rest _ => by simpa [toks] using parses_cap n nd rest)
      (by simp [toks, notNotHead]) (by simp [toks, notRpHead]) rfl rfl
  | _, .call0 n => good_prim rfl (fun rest _ => by simpa [toks] using parses_call0 n rest)
      (by simp [toks, notNotHead]) (by simp [toks, notRpHead]) rfl rfl
  | _, @WF.var n as hs =>
    have ih := goodArgs hs
    match as, ih with
    | .nil, _ => good_prim rfl (fun rest hs => by simpa [toks] using parses_id n hs)
        (by simp [toks, notNotHead]) (by simp [toks, notRpHead]) rfl rfl
    | .cons a as', ih => good_prim rfl
        (fun rest _ => by
          have := parses_idx n (ih.parse (by simp) (.rsq :: rest) rfl)
          simpa [toks] using this)
        (by simp [toks, notNotHead]) (by simp [toks, notRpHead]) rfl rfl
  | _, @WF.call n a as ha hs =>
    have ih := goodArgs (.cons ha hs)
    good_prim rfl
      (fun rest _ => by
        have := parses_call n (ih.headRp (by simp) _) (ih.parse (by simp) (.rp :: rest) rfl)
        simpa [toks] using this)
      (by simp [toks, notNotHead]) (by simp [toks, notRpHead]) rfl rfl
  | _, @WF.bin op l r hop hl hr =>
    have gl := good hl
    have gr := good hr
    match hk : binLevel op, hop with
    | some k, _ =>
      have hp := binLevel_prec hk
      good_bin (k := k) (by simpa [precedence] using hp.1) hp.2.1 hp.2.2 (bin_open hk gl gr)
        (fun rest => by
          have := parens_notRp (lhsNeedsParens op l) gl.headRp
            (.op op :: (parens (rhsNeedsParens op r) (toks r) ++ rest))
          simpa [toks] using this)
        rfl (by cases op <;> simp_all [binLevel, isConcat, gr.noPat, gl.noConcat])
  | _, @WF.not a ha =>
    have ga := good ha
    good_unary rfl
      (fun rest hs => by
        have := parses_not (operand_parse ga (decide (precedence a < precUnary)) (j := 7) (by omega) (by omega)
          (by intro h; have := of_decide_eq_false h; simp only [precUnary] at this; omega) hs)
        simpa [toks] using this)
      (by simp [toks, notRpHead]) rfl rfl
  | _, @WF.inc a ha =>
    have ga := good ha
    good_post rfl
      (fun rest hs => by
        have e : toks (.un .inc a dp .unk) ++ rest =
            parens (decide (precedence a < precPostfix)) (toks a) ++ (.op .inc :: rest) := by simp [toks]
        have hp : postOps (.un .inc a dp .unk) rest = postOps a (.op .inc :: rest) := by
          conv => rhs; rw [postOps]
        rw [e, hp]
        by_cases h : precedence a < precPostfix
        · simp only [h, decide_true, parens, if_true, List.cons_append, List.append_assoc]
          exact parses_8 (paren_parse ga _)
        · simp only [h, decide_false, parens, Bool.false_eq_true, if_false]
          exact ga.opn8 (by simp [precPostfix] at h; omega) _ (by simp [stops, binLevel]))
      (fun rest => by
        by_cases h : precedence a < precPostfix
        · simp [toks, parens, h, notNotHead]
        · have := ga.head (by simp [precPostfix] at h; omega) (.op .inc :: rest)
          simpa [toks, parens, h] using this)
      (fun rest => by
        have := parens_notRp (decide (precedence a < precPostfix)) ga.headRp (.op .inc :: rest)
        simpa [toks] using this)
      rfl rfl
  | _, @WF.dec a ha =>
    have ga := good ha
    good_post rfl
      (fun rest hs => by
        have e : toks (.un .dec a dp .unk) ++ rest =
            parens (decide (precedence a < precPostfix)) (toks a) ++ (.op .dec :: rest) := by simp [toks]
        have hp : postOps (.un .dec a dp .unk) rest = postOps a (.op .dec :: rest) := by
          conv => rhs; rw [postOps]
        rw [e, hp]
        by_cases h : precedence a < precPostfix
        · simp only [h, decide_true, parens, if_true, List.cons_append, List.append_assoc]
          exact parses_8 (paren_parse ga _)
        · simp only [h, decide_false, parens, Bool.false_eq_true, if_false]
          exact ga.opn8 (by simp [precPostfix] at h; omega) _ (by simp [stops, binLevel]))
      (fun rest => by
        by_cases h : precedence a < precPostfix
        · simp [toks, parens, h, notNotHead]
        · have := ga.head (by simp [precPostfix] at h; omega) (.op .dec :: rest)
          simpa [toks, parens, h] using this)
      (fun rest => by
        have := parens_notRp (decide (precedence a < precPostfix)) ga.headRp (.op .dec :: rest)
        simpa [toks] using this)
      rfl rfl
theorem goodArgs : ∀ {as : Nodes}, WFs as → GoodArgs as
  | _, .nil => ⟨fun h => absurd rfl h, fun h => absurd rfl h⟩
  | _, @WFs.cons a as ha hs =>
    have ga := good ha
    have ih := goodArgs hs
    match as, ih with
    | .nil, _ =>
      ⟨fun _ R hR => by
          have hc := closer_stops hR
          simpa [toksArgs] using args_one (ga.full 1 (by omega) ga.pos R hc.1) hc.2,
        fun _ R => by simpa [toksArgs] using ga.headRp R⟩
    | .cons b bs, ih =>
      ⟨fun _ R hR => by
          have h1 := ga.full 1 (by omega) ga.pos (.comma :: (toksArgs (.cons b bs) ++ R)) (by simp [stops])
          have := args_more h1 (ih.parse (by simp) R hR)
          simpa [toksArgs] using this,
        fun _ R => by simpa [toksArgs] using ga.headRp (.comma :: (toksArgs (.cons b bs) ++ R))⟩
end

end MtailVerif.Grammar
