import MtailVerif.Model.Gc
import MtailVerif.Proofs.MetricRefine
namespace MtailVerif.Gc
open MtailVerif MtailVerif.Metric
variable {V : Type}

/-! ### list-level facts -/

theorem oldestOf_mem (tm : V → Int) (cur : Option (LV V)) (lvs : List (LV V)) (o : LV V)
    (h : oldestOf tm cur lvs = some o) : o ∈ lvs ∨ cur = some o := by
  induction lvs generalizing cur with
  | nil => right; simpa [oldestOf] using h
  | cons lv rest ih =>
    cases cur with
    | none =>
      simp only [oldestOf] at h
      rcases ih _ h with h' | h'
      · left; exact List.mem_cons_of_mem _ h'
      · left; simp only [Option.some.injEq] at h'; simp [h']
    | some c =>
      simp only [oldestOf] at h
      split at h
      · rcases ih _ h with h' | h'
        · left; exact List.mem_cons_of_mem _ h'
        · left; simp only [Option.some.injEq] at h'; simp [h']
      · rcases ih _ h with h' | h'
        · left; exact List.mem_cons_of_mem _ h'
        · right; exact h'

theorem oldestS_abs (tm : V → Int) (cur : Option (LV V)) (lvs : List (LV V)) :
    oldestS tm (cur.map toEntry) (lvs.map toEntry) = (oldestOf tm cur lvs).map toEntry := by
  induction lvs generalizing cur with
  | nil => simp [oldestS, oldestOf]
  | cons lv rest ih =>
    cases cur with
    | none => simpa [oldestS, oldestOf] using ih (some lv)
    | some c =>
      simp only [Option.map_some, List.map_cons, oldestS, oldestOf]
      have : (toEntry lv).value = lv.value ∧ (toEntry c).value = c.value := ⟨rfl, rfl⟩
      rw [this.1, this.2]
      split
      · simpa using ih (some lv)
      · simpa using ih (some c)

/-- erasing by the labels of the entry at index `i` removes exactly that entry (labels unique) -/
theorem eraseL_at (lvs : List (LV V)) (i : Nat) (lv : LV V) (h : lvs[i]? = some lv)
    (hn : (lvs.map (·.labels)).Nodup) : eraseL lv.labels lvs = lvs.take i ++ lvs.drop (i + 1) := by
  induction lvs generalizing i with
  | nil => simp at h
  | cons x rest ih =>
    simp only [List.map_cons, List.nodup_cons] at hn
    cases i with
    | zero =>
      simp only [List.getElem?_cons_zero, Option.some.injEq] at h
      subst h; simp [eraseL]
    | succ i =>
      simp only [List.getElem?_cons_succ] at h
      have hm : lv ∈ rest := List.mem_of_getElem? h
      have hx : x.labels ≠ lv.labels := fun e => hn.1 (e ▸ List.mem_map_of_mem hm)
      simp [eraseL, hx, ih i h hn.2]

/-! ### refinement of the limit phase -/
section
variable (hinj : ∀ a b : List Bytes, Key.encode a = Key.encode b → a = b)
include hinj

theorem abs_erase (m m' : Metric V) (l : List Bytes) (h : m'.lvs = eraseL l m.lvs) :
    abs m' = eraseS l (abs m) := by
  simp [abs_eq, h, eraseS_abs]

theorem removeOldest_refines (tm : V → Int) (m : Metric V) (hi : Inv m) :
    Inv (removeOldest tm m) ∧ abs (removeOldest tm m) = removeOldestS tm (abs m) ∧
    (removeOldest tm m).nkeys = m.nkeys := by
  have ho := oldestS_abs tm none m.lvs
  simp only [Option.map_none] at ho
  cases h : oldestOf tm none m.lvs with
  | none =>
    have e1 : removeOldest tm m = m := by simp [removeOldest, h]
    have e2 : removeOldestS tm (abs m) = abs m := by simp [removeOldestS, abs_eq, ho, h]
    rw [e1, e2]; exact ⟨hi, rfl, rfl⟩
  | some lv =>
    have hmem : lv ∈ m.lvs := by
      rcases oldestOf_mem tm none m.lvs lv h with h' | h'
      · exact h'
      · simp at h'
    obtain ⟨m', hr, hi', hl, hk⟩ := removeDatum_refines hinj m hi lv.labels (hi.arity lv hmem)
    have e1 : removeOldest tm m = m' := by simp [removeOldest, h, hr]
    have e2 : removeOldestS tm (abs m) = eraseS lv.labels (abs m) := by
      simp [removeOldestS, abs_eq, ho, h, toEntry]
    rw [e1, e2]
    exact ⟨hi', abs_erase hinj m m' _ hl, hk⟩

theorem limitLoop_refines (tm : V → Int) (limit : Nat) (i : Nat) (m : Metric V) (hi : Inv m) :
    Inv (limitLoop tm limit i m) ∧ abs (limitLoop tm limit i m) = dropOldest tm (i - limit) (abs m) ∧
    (limitLoop tm limit i m).nkeys = m.nkeys := by
  induction i generalizing m with
  | zero => simp [limitLoop, dropOldest, hi]
  | succ i ih =>
    by_cases hgt : i + 1 > limit
    · unfold limitLoop
      simp only [hgt, if_true]
      obtain ⟨h1, h2, h3⟩ := removeOldest_refines hinj tm m hi
      obtain ⟨g1, g2, g3⟩ := ih (removeOldest tm m) h1
      refine ⟨g1, ?_, g3.trans h3⟩
      rw [g2, h2]
      have : i + 1 - limit = (i - limit) + 1 := by omega
      rw [this]; rfl
    · have e : limitLoop tm limit (i + 1) m = m := by
        unfold limitLoop; simp [hgt]
      have : i + 1 - limit = 0 := by omega
      rw [this, e]
      exact ⟨hi, rfl, rfl⟩

theorem limitPhase_refines (tm : V → Int) (limit : Int) (m : Metric V) (hi : Inv m) :
    Inv (limitPhase tm limit m) ∧
    abs (limitPhase tm limit m) =
      (if limit > 0 ∧ ((abs m).length : Int) ≥ limit then dropOldest tm ((abs m).length - limit.toNat) (abs m) else abs m) ∧
    (limitPhase tm limit m).nkeys = m.nkeys := by
  unfold limitPhase
  have hlen : (abs m).length = m.lvs.length := by simp [abs_eq]
  rw [hlen]
  split
  · exact limitLoop_refines hinj tm limit.toNat m.lvs.length m hi
  · exact ⟨hi, rfl, rfl⟩

/-! ### the expiry walk is a filter -/
theorem expLoop_filter (tm : V → Int) (now : Int) (fuel i : Nat) (m : Metric V) (hi : Inv m)
    (hfuel : m.lvs.length - i < fuel) :
    ∃ m', expLoop tm now fuel i m = .ok m' ∧ Inv m' ∧ m'.nkeys = m.nkeys ∧
      m'.lvs = m.lvs.take i ++ (m.lvs.drop i).filter (fun lv => !expired tm now lv) := by
  induction fuel generalizing i m with
  | zero => omega
  | succ fuel ih =>
    unfold expLoop
    cases hget : m.lvs[i]? with
    | none =>
      have : m.lvs.length ≤ i := by simpa using hget
      refine ⟨m, rfl, hi, rfl, ?_⟩
      simp [List.take_of_length_le this, List.drop_eq_nil_of_le this]
    | some lv =>
      have hilt : i < m.lvs.length := by
        have := List.getElem?_eq_some_iff.mp hget; exact this.1
      have hdrop : m.lvs.drop i = lv :: m.lvs.drop (i + 1) := by
        rw [List.drop_eq_getElem_cons hilt]
        have := List.getElem?_eq_some_iff.mp hget
        rw [this.2]
      by_cases hexp : expired tm now lv = true
      · simp only [hexp, if_true]
        have hmem : lv ∈ m.lvs := List.mem_of_getElem? hget
        obtain ⟨m1, hr, hi1, hl1, hk1⟩ := removeDatum_refines hinj m hi lv.labels (hi.arity lv hmem)
        rw [eraseL_at m.lvs i lv hget hi.labels_nodup] at hl1
        simp only [hr]
        have hlen1 : m1.lvs.length = m.lvs.length - 1 := by
          rw [hl1]; simp; omega
        obtain ⟨m', he, hi', hk', hl'⟩ := ih i m1 hi1 (by omega)
        refine ⟨m', he, hi', hk'.trans hk1, ?_⟩
        rw [hl', hl1, hdrop]
        have ht : (m.lvs.take i ++ m.lvs.drop (i + 1)).take i = m.lvs.take i := by
          rw [List.take_append_of_le_length (by simp; omega)]
          simp [List.take_take]
        have hd : (m.lvs.take i ++ m.lvs.drop (i + 1)).drop i = m.lvs.drop (i + 1) := by
          rw [List.drop_append_of_le_length (by simp; omega)]
          have : (m.lvs.take i).length = i := by simp; omega
          simp [List.drop_eq_nil_of_le (Nat.le_of_eq this)]
        rw [ht, hd]
        simp [hexp]
      · simp only [hexp, Bool.false_eq_true, if_false]
        obtain ⟨m', he, hi', hk', hl'⟩ := ih (i + 1) m hi (by omega)
        refine ⟨m', he, hi', hk', ?_⟩
        rw [hl', hdrop]
        have : m.lvs.take (i + 1) = m.lvs.take i ++ [lv] := by
          rw [List.take_add_one, hget]; rfl
        simp [this, hexp]

theorem gc_refines (tm : V → Int) (now limit : Int) (m : Metric V) (hi : Inv m) :
    ∃ m', gc tm now limit m = .ok m' ∧ Inv m' ∧ abs m' = Spec.gc tm now limit (abs m) ∧
      m'.nkeys = m.nkeys := by
  obtain ⟨h1, h2, h3⟩ := limitPhase_refines hinj tm limit m hi
  obtain ⟨m', he, hi', hk', hl'⟩ :=
    expLoop_filter hinj tm now ((limitPhase tm limit m).lvs.length + 1) 0 (limitPhase tm limit m) h1 (by omega)
  refine ⟨m', he, hi', ?_, hk'.trans h3⟩
  unfold Spec.gc
  rw [← h2, abs_eq, abs_eq, hl']
  simp only [List.take_zero, List.nil_append, List.drop_zero]
  rw [List.filter_map]
  rfl
end

end MtailVerif.Gc
