import MtailVerif.Model.Lockset
namespace MtailVerif.Lockset

theorem exclude_symm (a b : Acc) : exclude a b = exclude b a := by
  unfold exclude
  rw [Bool.eq_iff_iff]
  simp only [List.any_eq_true, Bool.and_eq_true, Bool.or_eq_true, beq_iff_eq]
  constructor
  · rintro ⟨la, hla, lb, hlb, h1, h2⟩
    exact ⟨lb, hlb, la, hla, h1.symm, h2.symm⟩
  · rintro ⟨la, hla, lb, hlb, h1, h2⟩
    exact ⟨lb, hlb, la, hla, h1.symm, h2.symm⟩

/-- all accesses in progress hold pairwise compatible locksets -/
def Inv (s : St) : Prop :=
  ∀ (i j : Nat) (a b : Acc), i ≠ j → s[i]? = some (some a) → s[j]? = some (some b) → exclude a b = false

theorem mem_others {s : St} {i j : Nat} {b : Acc} (hij : j ≠ i) (h : s[j]? = some (some b)) : b ∈ others s i := by
  unfold others
  simp only [List.mem_filterMap]
  refine ⟨(some b, j), ?_, by simp [hij]⟩
  rw [List.mem_zipIdx_iff_getElem?]
  simpa using h

theorem inv_step {s s' : St} {x : Act} (hi : Inv s) (h : step s x = some s') : Inv s' := by
  cases x with
  | enter i a =>
    simp only [step] at h
    split at h
    · next hsi =>
      split at h
      · next hall =>
        simp only [Option.some.injEq] at h; subst h
        intro p q c d hpq hp hq
        have hlen : i < s.length := by
          rcases List.getElem?_eq_some_iff.mp hsi with ⟨hl, _⟩; exact hl
        by_cases hpi : p = i
        · subst hpi
          rw [List.getElem?_set_self hlen] at hp
          simp only [Option.some.injEq] at hp; subst hp
          rw [List.getElem?_set_ne (Ne.symm (Ne.symm hpq))] at hq
          have := List.all_eq_true.mp hall d (mem_others (Ne.symm hpq) hq)
          simpa [compat] using this
        · rw [List.getElem?_set_ne (Ne.symm hpi)] at hp
          by_cases hqi : q = i
          · subst hqi
            rw [List.getElem?_set_self hlen] at hq
            simp only [Option.some.injEq] at hq; subst hq
            have := List.all_eq_true.mp hall c (mem_others hpi hp)
            rw [exclude_symm]
            simpa [compat] using this
          · rw [List.getElem?_set_ne (Ne.symm hqi)] at hq
            exact hi p q c d hpq hp hq
      · cases h
    · cases h
  | leave i =>
    simp only [step] at h
    split at h
    · next hsi =>
      simp only [Option.some.injEq] at h; subst h
      intro p q c d hpq hp hq
      have hlen : i < s.length := by
        rcases List.getElem?_eq_some_iff.mp hsi with ⟨hl, _⟩; exact hl
      by_cases hpi : p = i
      · subst hpi; rw [List.getElem?_set_self hlen] at hp; cases hp
      · by_cases hqi : q = i
        · subst hqi; rw [List.getElem?_set_self hlen] at hq; cases hq
        · rw [List.getElem?_set_ne (Ne.symm hpi)] at hp
          rw [List.getElem?_set_ne (Ne.symm hqi)] at hq
          exact hi p q c d hpq hp hq
    · cases h

theorem inv_run {s s' : St} (hi : Inv s) : ∀ xs, run s xs = some s' → Inv s' := by
  intro xs
  induction xs generalizing s with
  | nil => intro h; simp only [run, Option.some.injEq] at h; exact h ▸ hi
  | cons x xs ih =>
    intro h
    simp only [run] at h
    cases hs : step s x with
    | none => simp [hs] at h
    | some s1 =>
      simp only [hs, Option.bind_some] at h
      exact ih (inv_step hi hs) h

theorem inv_idle (n : Nat) : Inv (List.replicate n none) := by
  intro i j a b _ hi _
  rw [List.getElem?_replicate] at hi
  split at hi <;> simp at hi

end MtailVerif.Lockset
