import MtailVerif.Model.Lexer
/-! How much input each state function consumes: the facts behind "the token stream ends". -/
namespace MtailVerif.Lexer

/-- 1 when the cursor holds a rune that `backup` would push back -/
def pend (c : C) : Nat := if c.rune.isSome then 1 else 0

/-- remaining input plus the rune a `backup` could restore is at most `b` -/
def Bnd (b : Nat) (x : List R × C) : Prop := x.1.length + pend x.2 ≤ b

@[simp] theorem step_rune (c : C) : c.step.rune = c.rune := by unfold C.step; split <;> rfl
@[simp] theorem push_rune (c : C) (r : Nat) : (c.push r).rune = c.rune := rfl
@[simp] theorem accept_rune (c : C) : c.accept.rune = c.rune := by simp [C.accept]
@[simp] theorem skip_rune (c : C) : c.skip.rune = c.rune := by simp [C.skip]
@[simp] theorem ignore_rune (c : C) : c.ignore.rune = c.rune := by simp [C.ignore]
@[simp] theorem pend_step (c : C) : pend c.step = pend c := by simp [pend]
@[simp] theorem pend_push (c : C) (r : Nat) : pend (c.push r) = pend c := rfl
@[simp] theorem pend_accept (c : C) : pend c.accept = pend c := by simp [pend]
@[simp] theorem pend_skip (c : C) : pend c.skip = pend c := by simp [pend]
@[simp] theorem pend_ignore (c : C) : pend c.ignore = pend c := by simp [pend]
theorem pend_le (c : C) : pend c ≤ 1 := by unfold pend; split <;> omega
@[simp] theorem pend_readEOF (c : C) : pend (readEOF c) = 0 := rfl
theorem pend_read_le (r : R) (c : C) : pend (read r c) ≤ 1 := pend_le _

theorem nextR_bnd (inp : List R) (c : C) : Bnd inp.length (nextR inp c) := by
  cases inp with
  | nil => simp [nextR, Bnd]
  | cons r rest => simp [nextR, Bnd]; have := pend_read_le r c; omega

theorem unread_len (c : C) (i : List R) : (unread c i).1.length = i.length + pend c := by
  unfold unread pend; split <;> simp_all

theorem unread_le {b : Nat} {i : List R} {c : C} (h : Bnd b (i, c)) : (unread c i).1.length ≤ b := by
  rw [unread_len]; exact h

theorem digits_bnd : ∀ (inp : List R) (c : C) (b : Nat), Bnd b (inp, c) → Bnd b (digitsLoop inp c)
  | [], c, b, h => by
    unfold digitsLoop; split
    · simp [Bnd]
    · exact h
  | r :: rest, c, b, h => by
    unfold digitsLoop; split
    · rename_i hd
      apply digits_bnd rest _ b
      have hp : pend c = 1 := by
        unfold isDigitC at hd; unfold pend; split at hd <;> simp_all
      have := pend_read_le r c.accept
      simp [Bnd] at h ⊢; omega
    · exact h

theorem wordLoop_le (p : C → Bool) : ∀ (inp : List R) (c : C), (wordLoop p inp c).1.length ≤ inp.length
  | [], c => by simp [wordLoop, unread_len]
  | r :: rest, c => by
    unfold wordLoop
    simp only
    split
    · exact Nat.le_succ_of_le (wordLoop_le p rest _)
    · rw [unread_len]; have := pend_read_le r c; simp; omega

theorem caprefLoop_le : ∀ (inp : List R) (c : C) (n : Bool), (caprefLoop inp c n).1.length ≤ inp.length
  | [], c, n => by simp [caprefLoop, unread_len]
  | r :: rest, c, n => by
    unfold caprefLoop
    simp only
    split
    · exact Nat.le_succ_of_le (caprefLoop_le rest _ _)
    · simp only [unread_len]; have := pend_read_le r c; simp; omega

@[simp] theorem emitAt_inp (c : C) (k : K) (i : List R) : (emitAt c k i).2.1 = i := rfl
@[simp] theorem emitAt_kind (c : C) (k : K) (i : List R) : (emitAt c k i).1.kind = k := rfl

theorem lexDuration_le (i : List R) (c : C) : (lexDuration i c).2.1.length ≤ i.length := by
  simp [lexDuration]; exact wordLoop_le _ _ _

theorem numEnd_le {b : Nat} {i : List R} {c : C} (h : Bnd b (i, c)) : (numEnd i c).2.1.length ≤ b := by
  unfold numEnd; split
  · have := lexDuration_le i c.accept; simp [Bnd] at h; omega
  · simp; exact unread_le h

theorem numExp_bnd {b : Nat} {i : List R} {c : C} (h : Bnd b (i, c)) : Bnd b (numExp i c) := by
  unfold numExp; split
  · apply digits_bnd
    have h1 := nextR_bnd i c.accept
    simp only [Bnd] at h h1 ⊢
    split
    · have h2 := nextR_bnd (nextR i c.accept).1 (nextR i c.accept).2.accept
      simp only [Bnd] at h2; omega
    · omega
  · exact h


theorem numFrac_bnd {b : Nat} {i : List R} {c : C} (h : Bnd b (i, c)) : Bnd b (numFrac i c) := by
  unfold numFrac; split
  · apply digits_bnd
    have h1 := nextR_bnd i c.accept
    simp only [Bnd] at h h1 ⊢; omega
  · exact h

theorem numFrac_dot {i : List R} {c : C} (h : code c = 46) : Bnd i.length (numFrac i c) := by
  unfold numFrac; simp only [h, beq_self_eq_true, if_true]
  exact digits_bnd _ _ _ (nextR_bnd i c.accept)

theorem numTail_le {b : Nat} {i : List R} {c : C} (h : Bnd b (i, c)) : (numTail i c).2.1.length ≤ b := by
  unfold numTail; simp only; split
  · simp; exact unread_le h
  · exact numEnd_le (numExp_bnd (numFrac_bnd h))

theorem numTail_dot {i : List R} {c : C} (h : code c = 46) : (numTail i c).2.1.length ≤ i.length := by
  unfold numTail; simp only; split
  · rename_i hh; simp [h] at hh
  · exact numEnd_le (numExp_bnd (numFrac_dot h))

theorem lexNumeric_le (inp : List R) (c : C) : (lexNumeric inp c).2.1.length ≤ inp.length := by
  unfold lexNumeric; exact numTail_le (digits_bnd _ _ _ (nextR_bnd inp c))

theorem digitsLoop_nondigit {inp : List R} {c : C} (h : isDigitC c = false) : digitsLoop inp c = (inp, c) := by
  cases inp <;> simp [digitsLoop, h]

theorem lexNumeric_strict (r : R) (rest : List R) (c : C)
    (h : isDigitC (read r c) = true ∨ code (read r c) = 46) :
    (lexNumeric (r :: rest) c).2.1.length ≤ rest.length := by
  unfold lexNumeric
  simp only [nextR]
  by_cases hd : isDigitC (read r c) = true
  · cases rest with
    | nil =>
      have : Bnd 0 (digitsLoop [] (read r c)) := by simp [digitsLoop, hd, Bnd]
      exact numTail_le this
    | cons r2 rest2 =>
      have : Bnd (rest2.length + 1) (digitsLoop (r2 :: rest2) (read r c)) := by
        rw [digitsLoop]; simp only [hd, if_true]
        apply digits_bnd
        have := pend_read_le r2 (read r c).accept
        simp only [Bnd]; omega
      exact numTail_le this
  · have hd' : isDigitC (read r c) = false := by simpa using hd
    rw [digitsLoop_nondigit hd']
    rcases h with h | h
    · exact absurd h hd
    · exact numTail_dot h

theorem read_rune (r : R) (c c' : C) : (read r c).rune = (read r c').rune := by
  unfold read; split <;> rfl

theorem isDigitC_read (r : R) (c c' : C) : isDigitC (read r c) = isDigitC (read r c') := by
  unfold isDigitC; rw [read_rune r c c']
theorem code_read (r : R) (c c' : C) : code (read r c) = code (read r c') := by
  unfold code; rw [read_rune r c c']

theorem unread_some {c : C} {r : R} (i : List R) (h : c.rune = some r) :
    unread c i = (r :: i, { c with width := 0 }) := by
  unfold unread; split
  · simp_all
  · simp_all

theorem lexNumberFrom_le (r : R) (rest : List R) (c : C)
    (h : isDigitC (read r c) = true ∨ code (read r c) = 46) :
    (lexNumberFrom rest (read r c)).2.1.length ≤ rest.length := by
  unfold lexNumberFrom
  have hr : (read r c).rune = some r := by
    unfold read at h ⊢
    split at h
    · simp [isDigitC, code] at h
    · simp_all
  rw [unread_some rest hr]
  apply lexNumeric_strict
  rw [isDigitC_read r _ c, code_read r _ c]; exact h

theorem quotedLoop_le (close : Nat) (isRegex : Bool) :
    ∀ (n : Nat) (inp : List R) (c : C), inp.length ≤ n → (quotedLoop close isRegex inp c).2.1.length ≤ inp.length := by
  intro n
  induction n with
  | zero =>
    intro inp c h
    have : inp = [] := List.eq_nil_of_length_eq_zero (by omega)
    subst this; simp [quotedLoop, C.errorf]
  | succ n ih =>
    intro inp c h
    cases inp with
    | nil => simp [quotedLoop, C.errorf]
    | cons r rest =>
      rw [quotedLoop]
      simp only
      split
      · cases rest with
        | nil => simp [C.errorf]
        | cons r2 rest2 =>
          simp only
          split
          · have := ih rest2 (if code (read r2 (read r c).skip) != (close : Int) then (read r2 (read r c).skip).push 92
              else read r2 (read r c).skip).accept (by simp at h; omega)
            simp at this ⊢; omega
          · simp [C.errorf]; omega
      · split
        · simp [C.errorf]
        · split
          · split
            · simp [unread_len]; have := pend_read_le r c; omega
            · simp
          · have := ih rest (read r c).accept (by simp at h; omega)
            simp; omega

theorem lexRegex_le (inp : List R) (c : C) : (lexRegex inp c).2.1.length ≤ inp.length :=
  quotedLoop_le _ _ inp.length inp c (Nat.le_refl _)

theorem lexQuotedString_le (inp : List R) (c : C) : (lexQuotedString inp c).2.1.length ≤ inp.length :=
  quotedLoop_le _ _ inp.length inp _ (Nat.le_refl _)

theorem twoRune_le (rest : List R) (c1 : C) (alts : List (Int × K)) (d : Option K) (e : Nat) :
    (twoRune rest c1 alts d e).2.1.length ≤ rest.length := by
  unfold twoRune
  have hb := nextR_bnd rest c1.accept
  simp only
  split
  · simp [Bnd] at hb ⊢; omega
  · split
    · simp; exact unread_le hb
    · simp [C.errorf]; exact unread_le hb

theorem lexMinus_le (rest : List R) (c1 : C) : (lexMinus rest c1).2.1.length ≤ rest.length := by
  unfold lexMinus
  have hb := nextR_bnd rest c1.accept
  simp only
  split
  · simp [Bnd] at hb ⊢; omega
  · split
    · exact Nat.le_trans (lexNumeric_le _ _) (unread_le hb)
    · simp; exact unread_le hb

theorem lexCapref_le (inp : List R) (c : C) : (lexCapref inp c).2.1.length ≤ inp.length := by
  simp [lexCapref]; exact caprefLoop_le _ _ _
theorem lexDecorator_le (inp : List R) (c : C) : (lexDecorator inp c).2.1.length ≤ inp.length := by
  simp [lexDecorator]; exact wordLoop_le _ _ _
theorem lexIdentifier_le (inp : List R) (c : C) : (lexIdentifier inp c).2.1.length ≤ inp.length := by
  simp [lexIdentifier]; exact wordLoop_le _ _ _


theorem lexOther_le (r : R) (rest : List R) (c : C) :
    (lexOther r rest (read r c)).1.2.1.length ≤ rest.length := by
  unfold lexOther
  simp only
  split
  · simp
  split
  · exact lexMinus_le _ _
  split
  · exact twoRune_le _ _ _ _ _
  split
  · exact lexQuotedString_le _ _
  split
  · exact lexCapref_le _ _
  split
  · exact lexDecorator_le _ _
  split
  · rename_i hd; exact lexNumberFrom_le r rest c (Or.inl hd)
  split
  · exact lexIdentifier_le _ _
  split
  · simp
  split
  · rename_i hd; exact lexNumberFrom_le r rest c (Or.inr (by simpa using hd))
  · simp [C.errorf]

/-- **Progress.**  A request made outside a regular expression consumes at least one rune of a
    non-empty input (white space and comments it skips included). -/
theorem nextToken_le : ∀ (n : Nat) (inp : List R) (c : C), inp.length ≤ n →
    (nextToken inp c false).1.2.1.length ≤ inp.length - 1 := by
  intro n
  induction n with
  | zero =>
    intro inp c h
    have : inp = [] := List.eq_nil_of_length_eq_zero (by omega)
    subst this; rw [nextToken]; simp
  | succ n ih =>
    intro inp c h
    cases inp with
    | nil => rw [nextToken]; simp
    | cons r rest =>
      have hl : rest.length ≤ n := by simp at h; omega
      rw [nextToken]
      simp only [Bool.false_eq_true, if_false, List.length_cons, Nat.add_sub_cancel]
      split
      · simp
      split
      · have h1 := commentLoop_le rest (read r c).ignore
        have := ih (commentLoop rest (read r c).ignore).1 (commentLoop rest (read r c).ignore).2 (by omega)
        omega
      split
      · have := ih rest (read r c).ignore hl; omega
      · exact lexOther_le r rest c

/-- Inside a regular expression (the parser set InRegex) a request consumes zero or more runes. -/
theorem nextToken_regex_le (inp : List R) (c : C) : (nextToken inp c true).1.2.1.length ≤ inp.length := by
  have h := lexRegex_le inp c
  cases inp <;> (rw [nextToken]; simpa using h)


/-! ### the machine stops exactly with EOF -/

theorem lexOther_stopped (r : R) (rest : List R) (c1 : C) :
    (lexOther r rest c1).2 = true → (lexOther r rest c1).1.1.kind = .EOF := by
  unfold lexOther
  simp only
  split
  · simp
  split
  · simp
  split
  · simp
  split
  · simp
  split
  · simp
  split
  · simp
  split
  · simp
  split
  · simp
  split
  · simp
  split
  · simp
  · simp

theorem nextToken_stopped : ∀ (n : Nat) (inp : List R) (c : C) (f : Bool), inp.length ≤ n →
    (nextToken inp c f).2 = true → (nextToken inp c f).1.1.kind = .EOF := by
  intro n
  induction n with
  | zero =>
    intro inp c f h
    have : inp = [] := List.eq_nil_of_length_eq_zero (by omega)
    subst this
    cases f <;> (rw [nextToken]; simp)
  | succ n ih =>
    intro inp c f h
    cases inp with
    | nil => cases f <;> (rw [nextToken]; simp)
    | cons r rest =>
      have hl : rest.length ≤ n := by simp at h; omega
      cases f with
      | true => rw [nextToken]; simp
      | false =>
        rw [nextToken]
        simp only [Bool.false_eq_true, if_false]
        split
        · simp
        split
        · have h1 := commentLoop_le rest (read r c).ignore
          exact ih _ _ false (by omega)
        split
        · exact ih rest _ false hl
        · exact lexOther_stopped r rest _

theorem nextToken_nil_stops (c : C) : (nextToken [] c false).2 = true := by
  rw [nextToken]; simp

theorem quotedLoop_kind (close : Nat) :
    ∀ (n : Nat) (inp : List R) (c : C), inp.length ≤ n → (quotedLoop close true inp c).1.kind ≠ .DIV := by
  intro n
  induction n with
  | zero =>
    intro inp c h
    have : inp = [] := List.eq_nil_of_length_eq_zero (by omega)
    subst this; simp [quotedLoop, C.errorf]
  | succ n ih =>
    intro inp c h
    cases inp with
    | nil => simp [quotedLoop, C.errorf]
    | cons r rest =>
      rw [quotedLoop]
      simp only
      split
      · cases rest with
        | nil => simp [C.errorf]
        | cons r2 rest2 =>
          simp only
          split
          · exact ih rest2 _ (by simp at h; omega)
          · simp [C.errorf]
      · split
        · simp [C.errorf]
        · split
          · simp
          · exact ih rest _ (by simp at h; omega)

theorem nextToken_regex_kind (inp : List R) (c : C) : (nextToken inp c true).1.1.kind ≠ .DIV := by
  have h := quotedLoop_kind 47 inp.length inp c (Nat.le_refl _)
  cases inp <;> (rw [nextToken]; simpa [lexRegex] using h)

/-! ### the token stream ends, whatever the parser does -/

/-- `k` requests in a row; `pol` is the parser: from the tokens delivered so far (newest first) it
    decides whether InRegex is set for the next request.  Stops with `true` when the lexer stops. -/
def drive (pol : List Tok → Bool) : Nat → List Tok → List R → C → List Tok × Bool
  | 0, hist, _, _ => (hist, false)
  | k + 1, hist, inp, c =>
    if (nextToken inp c (pol hist)).2 then ((nextToken inp c (pol hist)).1.1 :: hist, true)
    else drive pol k ((nextToken inp c (pol hist)).1.1 :: hist) (nextToken inp c (pol hist)).1.2.1
      (nextToken inp c (pol hist)).1.2.2

def headIsDiv : List Tok → Bool
  | t :: _ => t.kind == .DIV
  | [] => false

/-- parser.y sets InRegex only in the `in_regex` action, which stands right after a DIV token -/
def RegexAfterDivOnly (pol : List Tok → Bool) : Prop := ∀ hist, pol hist = true → headIsDiv hist = true

def phi (inp : List R) (hist : List Tok) : Nat := 2 * inp.length + (if headIsDiv hist then 1 else 0)

theorem drive_stops (pol : List Tok → Bool) (hp : RegexAfterDivOnly pol) :
    ∀ (k : Nat) (hist : List Tok) (inp : List R) (c : C), phi inp hist < k →
      (drive pol k hist inp c).2 = true ∧ ∃ t rest, (drive pol k hist inp c).1 = t :: rest ∧ t.kind = .EOF := by
  intro k
  induction k with
  | zero => intro hist inp c h; omega
  | succ k ih =>
    intro hist inp c h
    rw [drive]
    split
    · rename_i hs
      exact ⟨rfl, _, _, rfl, nextToken_stopped inp.length inp c _ (Nat.le_refl _) hs⟩
    · rename_i hs
      apply ih
      cases hpol : pol hist with
      | false =>
        rw [hpol] at hs
        have hle := nextToken_le inp.length inp c (Nat.le_refl _)
        have hne : inp ≠ [] := by
          intro he; subst he; exact hs (nextToken_nil_stops c)
        have hpos : 0 < inp.length := List.length_pos_iff.mpr hne
        unfold phi at h ⊢
        have : (if headIsDiv ((nextToken inp c false).1.1 :: hist) = true then 1 else 0) ≤ 1 := by split <;> omega
        omega
      | true =>
        have hd := hp hist hpol
        have hle := nextToken_regex_le inp c
        have hk := nextToken_regex_kind inp c
        unfold phi at h ⊢
        have : headIsDiv ((nextToken inp c true).1.1 :: hist) = false := by
          simp [headIsDiv]; exact hk
        simp only [this, hd, if_true] at h ⊢
        simp; omega

end MtailVerif.Lexer
