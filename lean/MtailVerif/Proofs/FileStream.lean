import MtailVerif.Model.FileStream
import MtailVerif.Proofs.Reader
namespace MtailVerif.FileStream
open MtailVerif MtailVerif.Reader

def goodCfg : Cfg := ⟨true, true⟩

/-- relation between the model state and the specification state after every observed step -/
structure Inv (s : St) (sp : Spec) : Prop where
  out : s.delivered = sp.out
  tail : sp.tailing = sp.exists_
  fresh : (∀ f, s.path = some f → f.inode < s.nextInode) ∧ (∀ f ∈ s.others, f.inode < s.nextInode)
  gone : s.path = none → s.stream = none ∧ sp.exists_ = false ∧ sp.partial_ = []
  there : ∀ f, s.path = some f → sp.exists_ = true ∧
    ∃ rem, s.stream = some ⟨f.inode, f.data.length, ⟨rem, 0⟩⟩ ∧ sp.partial_ = rem ∧ nl ∉ rem ∧
      rem.length ≤ f.data.length

theorem finish_rem (rem : Bytes) : finish ⟨rem, 0⟩ = if rem.isEmpty then [] else [rem] := by
  simp [finish, finishSkipsEmpty_eq]

theorem readAndSend_nil (lr : LR) : readAndSend lr [] = ([], lr) := by
  simp [readAndSend]

theorem flush_out (sp : Spec) : (flush sp).out = sp.out ++ (if sp.partial_.isEmpty then [] else [sp.partial_]) := by
  unfold flush; split <;> simp_all

theorem flush_partial (sp : Spec) : (flush sp).partial_ = [] := by
  unfold flush; split
  · rename_i h; simpa using h
  · rfl

theorem flush_flags (sp : Spec) : (flush sp).exists_ = sp.exists_ ∧ (flush sp).tailing = sp.tailing := by
  unfold flush; split <;> exact ⟨rfl, rfl⟩

end MtailVerif.FileStream

namespace MtailVerif.FileStream
open MtailVerif MtailVerif.Reader

theorem fileOf_path (s : St) (cur : File) (h : s.path = some cur) : fileOf s cur.inode = some cur := by
  simp [fileOf, h]

theorem readAvail_spec (ino off : Nat) (rem : Bytes) (f : File) (hn : nl ∉ rem) (hle : off ≤ f.data.length) :
    readAvail ⟨ino, off, ⟨rem, 0⟩⟩ f =
      ((spec rem (f.data.drop off)).1, ⟨ino, f.data.length, ⟨(spec rem (f.data.drop off)).2, 0⟩⟩) := by
  unfold readAvail
  simp only [readAndSend_spec rem _ hn, List.length_drop]
  have : off + (f.data.length - off) = f.data.length := by omega
  rw [this]

/-- Lemma A: the descriptor's file is still at the path and has not shrunk -/
theorem wake_same (cfg : Cfg) (fuel : Nat) (s : St) (cur : File) (off : Nat) (rem : Bytes)
    (hp : s.path = some cur) (hs : s.stream = some ⟨cur.inode, off, ⟨rem, 0⟩⟩)
    (hn : nl ∉ rem) (hle : off ≤ cur.data.length) :
    streamWake cfg (fuel + 1) s =
      { s with delivered := s.delivered ++ (spec rem (cur.data.drop off)).1,
               stream := some ⟨cur.inode, cur.data.length, ⟨(spec rem (cur.data.drop off)).2, 0⟩⟩ } := by
  unfold streamWake
  simp only [hs, fileOf_path s cur hp, readAvail_spec cur.inode off rem cur hn hle, hp]
  simp

end MtailVerif.FileStream

namespace MtailVerif.FileStream
open MtailVerif MtailVerif.Reader

/-- Lemma B: same file, shrunk below the read offset (truncate, copy-truncate) -/
theorem wake_shrunk (cfg : Cfg) (hc : cfg.finishClears = true) (fuel : Nat) (s : St) (cur : File) (off : Nat) (rem : Bytes)
    (hp : s.path = some cur) (hs : s.stream = some ⟨cur.inode, off, ⟨rem, 0⟩⟩)
    (hn : nl ∉ rem) (hlt : cur.data.length < off) :
    streamWake cfg (fuel + 2) s =
      { s with delivered := s.delivered ++ finish ⟨rem, 0⟩ ++ (spec [] cur.data).1,
               stream := some ⟨cur.inode, cur.data.length, ⟨(spec [] cur.data).2, 0⟩⟩ } := by
  have hdrop : cur.data.drop off = [] := List.drop_eq_nil_of_le (Nat.le_of_lt hlt)
  rw [streamWake]
  simp only [hs, fileOf_path s cur hp, readAvail, hdrop, readAndSend_nil, List.length_nil, Nat.add_zero,
    List.append_nil, hp, ne_eq, not_true_eq_false, if_false, hlt, if_true, finishLR, hc]
  rw [wake_same cfg fuel _ cur 0 [] (by simp [hp]) (by simp) (by simp) (Nat.zero_le _)]
  simp

/-- Lemma C: another file is at the path (rotation); the old file has nothing new -/
theorem wake_rotated (cfg : Cfg) (hc : cfg.finishOnRotate = true) (fuel : Nat) (s : St) (cur old : File) (rem : Bytes)
    (hp : s.path = some cur) (hs : s.stream = some ⟨old.inode, old.data.length, ⟨rem, 0⟩⟩)
    (hne : cur.inode ≠ old.inode) (hold : fileOf s old.inode = some old) (hn : nl ∉ rem) :
    streamWake cfg (fuel + 2) s =
      { s with delivered := s.delivered ++ finish ⟨rem, 0⟩ ++ (spec [] cur.data).1,
               stream := some ⟨cur.inode, cur.data.length, ⟨(spec [] cur.data).2, 0⟩⟩ } := by
  rw [streamWake]
  simp only [hs, hold, readAvail, List.drop_length, readAndSend_nil, List.length_nil, Nat.add_zero,
    List.append_nil, hp, ne_eq, hne, not_false_eq_true, if_true, hc]
  rw [wake_same cfg fuel _ cur 0 [] (by simp [hp]) (by simp [init]) (by simp) (Nat.zero_le _)]
  simp

/-- Lemma D: the path no longer exists -/
theorem wake_deleted (cfg : Cfg) (fuel : Nat) (s : St) (old : File) (rem : Bytes)
    (hp : s.path = none) (hs : s.stream = some ⟨old.inode, old.data.length, ⟨rem, 0⟩⟩)
    (hold : fileOf s old.inode = some old) :
    streamWake cfg (fuel + 1) s =
      { s with delivered := s.delivered ++ finish ⟨rem, 0⟩, stream := none } := by
  rw [streamWake]
  simp only [hs, hold, readAvail, List.drop_length, readAndSend_nil, List.length_nil, Nat.add_zero,
    List.append_nil, hp]

theorem wake_nostream (cfg : Cfg) (fuel : Nat) (s : St) (hs : s.stream = none) : streamWake cfg fuel s = s := by
  cases fuel with
  | zero => rfl
  | succ n => simp [streamWake, hs]

end MtailVerif.FileStream

namespace MtailVerif.FileStream
open MtailVerif MtailVerif.Reader

theorem spec_nil (cur : Bytes) : spec cur [] = ([], cur) := rfl

theorem inv_start : Inv start {} := by
  refine ⟨rfl, rfl, ⟨?_, ?_⟩, ?_, ?_⟩
  · intro f hf; simp [start, patternPoll] at hf; subst hf; decide
  · intro f hf; simp [start, patternPoll] at hf
  · intro h; simp [start, patternPoll] at h
  · intro f hf
    simp [start, patternPoll] at hf; subst hf
    exact ⟨rfl, [], by simp [start, patternPoll, init], rfl, by simp, by simp⟩

/-- the invariant when the path names a file and the stream is parked at its end -/
theorem inv_there (s : St) (sp : Spec) (f : File) (rem : Bytes)
    (hout : s.delivered = sp.out) (hp : s.path = some f)
    (hs : s.stream = some ⟨f.inode, f.data.length, ⟨rem, 0⟩⟩)
    (hex : sp.exists_ = true) (ht : sp.tailing = true) (hpart : sp.partial_ = rem)
    (hn : nl ∉ rem) (hlen : rem.length ≤ f.data.length)
    (hf1 : f.inode < s.nextInode) (hf2 : ∀ g ∈ s.others, g.inode < s.nextInode) : Inv s sp := by
  refine ⟨hout, by rw [ht, hex], ⟨?_, hf2⟩, ?_, ?_⟩
  · intro g hg; rw [hp] at hg; cases hg; exact hf1
  · intro h; rw [hp] at h; cases h
  · intro g hg; rw [hp] at hg; cases hg
    exact ⟨hex, rem, hs, hpart, hn, hlen⟩

theorem spec_len (cur b : Bytes) : (spec cur b).2.length ≤ cur.length + b.length := by
  induction b generalizing cur with
  | nil => simp [spec]
  | cons c cs ih =>
    simp only [spec]
    split
    · have := ih []; simp at this ⊢; omega
    · have := ih (cur ++ [c]); simp at this ⊢; omega

end MtailVerif.FileStream

namespace MtailVerif.FileStream
open MtailVerif MtailVerif.Reader

theorem patternPoll_stream (s : St) (st : Stream) (h : s.stream = some st) : patternPoll s = s := by
  simp [patternPoll, h]

theorem step_inv (cfg : Cfg) (hc1 : cfg.finishOnRotate = true) (hc2 : cfg.finishClears = true)
    (s : St) (sp : Spec) (hi : Inv s sp) (op : Op) : Inv (step cfg s op) (Spec.step sp op) := by
  obtain ⟨hout, htail, ⟨hfp, hfo⟩, hgone, hthere⟩ := hi
  cases hp : s.path with
  | none =>
    obtain ⟨hs, hex, hpart⟩ := hgone hp
    have htl : sp.tailing = false := by rw [htail, hex]
    -- without a file only `create` does anything
    have noop : ∀ (o : Op), mutate s o = s → Spec.step sp o = sp →
        Inv (step cfg s o) (Spec.step sp o) := by
      intro o hm hsp
      have : step cfg s o = s := by
        simp only [step, hm, wake_nostream cfg 4 s hs]
        simp [patternPoll, hs, hp]
      rw [this, hsp]
      exact ⟨hout, htail, ⟨hfp, hfo⟩, hgone, hthere⟩
    cases op with
    | append b => exact noop _ (by simp [mutate, hp]) (by simp [Spec.step, hex])
    | truncate => exact noop _ (by simp [mutate, hp]) (by simp [Spec.step, hex])
    | copyTruncate => exact noop _ (by simp [mutate, hp]) (by simp [Spec.step, hex])
    | rotate => exact noop _ (by simp [mutate, hp]) (by simp [Spec.step, hex])
    | delete => exact noop _ (by simp [mutate, hp]) (by simp [Spec.step, hex])
    | poll => exact noop _ (by simp [mutate]) (by simp [Spec.step])
    | create =>
      have hm : mutate s .create = { s with path := some ⟨s.nextInode, []⟩, nextInode := s.nextInode + 1 } := by
        simp [mutate, hp]
      have hstep : step cfg s .create =
          { s with path := some ⟨s.nextInode, []⟩, nextInode := s.nextInode + 1,
                   stream := some ⟨s.nextInode, 0, init⟩ } := by
        simp only [step, hm]
        rw [wake_nostream cfg 4 _ (by simpa using hs)]
        simp [patternPoll, hs]
      rw [hstep]
      have hspec : Spec.step sp .create = { sp with exists_ := true, tailing := true } := by
        simp [Spec.step, hex]
      rw [hspec]
      refine inv_there _ _ ⟨s.nextInode, []⟩ [] hout rfl rfl rfl rfl hpart (by simp) (by simp) (by simp) ?_
      intro g hg; exact Nat.lt_succ_of_lt (hfo g hg)
  | some f =>
    obtain ⟨hex, rem, hs, hpart, hn, hlen⟩ := hthere f hp
    have htl : sp.tailing = true := by rw [htail, hex]
    have hfi := hfp f hp
    -- steps that leave the file as it is: the stream reads nothing new
    have idle : ∀ (o : Op), mutate s o = s → Spec.step sp o = sp →
        Inv (step cfg s o) (Spec.step sp o) := by
      intro o hm hsp
      have : step cfg s o = s := by
        simp only [step, hm]
        rw [wake_same cfg 3 s f f.data.length rem hp hs hn (Nat.le_refl _)]
        simp only [List.drop_length, spec_nil, List.append_nil]
        rw [patternPoll_stream _ _ rfl]
        cases s; simp_all
      rw [this, hsp]
      exact ⟨hout, htail, ⟨hfp, hfo⟩, hgone, hthere⟩
    cases op with
    | poll => exact idle _ (by simp [mutate]) (by simp [Spec.step])
    | create => exact idle _ (by simp [mutate, hp]) (by simp [Spec.step, hex])
    | append b =>
      have hm : mutate s (.append b) = { s with path := some { f with data := f.data ++ b } } := by
        simp [mutate, hp]
      have hw := wake_same cfg 3 (mutate s (.append b)) { f with data := f.data ++ b } f.data.length rem
        (by simp [hm]) (by simp [hm, hs]) hn (by simp)
      simp only [List.drop_left] at hw
      have hspec : Spec.step sp (.append b) = { sp with out := sp.out ++ (spec rem b).1, partial_ := (spec rem b).2 } := by
        simp [Spec.step, hex, htl, hpart]
      rw [hspec]
      simp only [step, hw]
      rw [patternPoll_stream _ _ rfl]
      refine inv_there _ _ { f with data := f.data ++ b } (spec rem b).2 ?_ (by simp [hm]) rfl hex htl rfl
        (spec_rem_nonl rem b hn) ?_ (by simp [hm]; exact hfi) ?_
      · simp [hm, hout]
      · have := spec_len rem b; simp; omega
      · intro g hg; simp [hm] at hg ⊢; exact hfo g hg
    | truncate =>
      have hm : mutate s .truncate = { s with path := some { f with data := [] } } := by simp [mutate, hp]
      have hspec : Spec.step sp .truncate = flush sp := by simp [Spec.step, hex]
      rw [hspec]
      by_cases h0 : f.data.length = 0
      · -- nothing was ever read: truncating an empty file changes nothing
        have hrem : rem = [] := by
          have : rem.length = 0 := by omega
          exact List.eq_nil_of_length_eq_zero this
        have hw := wake_same cfg 3 (mutate s .truncate) { f with data := [] } 0 rem
          (by simp [hm]) (by simp [hm, hs, h0]) hn (by simp)
        simp only [step, hw, List.drop_nil, spec_nil, List.append_nil]
        rw [patternPoll_stream _ _ rfl]
        refine inv_there _ _ { f with data := [] } rem ?_ (by simp [hm]) (by simp) ((flush_flags sp).1 ▸ hex)
          ((flush_flags sp).2 ▸ htl) ?_ hn (by simp [hrem]) (by simp [hm]; exact hfi) ?_
        · simp [hm, hout, flush_out, hpart, hrem]
        · simp [flush_partial, hrem]
        · intro g hg; simp [hm] at hg ⊢; exact hfo g hg
      · have hw := wake_shrunk cfg hc2 2 (mutate s .truncate) { f with data := [] } f.data.length rem
          (by simp [hm]) (by simp [hm, hs]) hn (by simp; omega)
        simp only [step, hw, spec_nil, List.append_nil, List.length_nil]
        rw [patternPoll_stream _ _ rfl]
        refine inv_there _ _ { f with data := [] } [] ?_ (by simp [hm]) rfl ((flush_flags sp).1 ▸ hex)
          ((flush_flags sp).2 ▸ htl) (flush_partial sp) (by simp) (by simp) (by simp [hm]; exact hfi) ?_
        · simp [hm, hout, flush_out, hpart, finish_rem]
        · intro g hg; simp [hm] at hg ⊢; exact hfo g hg
    | copyTruncate =>
      have hm : mutate s .copyTruncate = { s with path := some { f with data := [] } } := by simp [mutate, hp]
      have hspec : Spec.step sp .copyTruncate = flush sp := by simp [Spec.step, hex]
      rw [hspec]
      by_cases h0 : f.data.length = 0
      · have hrem : rem = [] := by
          have : rem.length = 0 := by omega
          exact List.eq_nil_of_length_eq_zero this
        have hw := wake_same cfg 3 (mutate s .copyTruncate) { f with data := [] } 0 rem
          (by simp [hm]) (by simp [hm, hs, h0]) hn (by simp)
        simp only [step, hw, List.drop_nil, spec_nil, List.append_nil]
        rw [patternPoll_stream _ _ rfl]
        refine inv_there _ _ { f with data := [] } rem ?_ (by simp [hm]) (by simp) ((flush_flags sp).1 ▸ hex)
          ((flush_flags sp).2 ▸ htl) ?_ hn (by simp [hrem]) (by simp [hm]; exact hfi) ?_
        · simp [hm, hout, flush_out, hpart, hrem]
        · simp [flush_partial, hrem]
        · intro g hg; simp [hm] at hg ⊢; exact hfo g hg
      · have hw := wake_shrunk cfg hc2 2 (mutate s .copyTruncate) { f with data := [] } f.data.length rem
          (by simp [hm]) (by simp [hm, hs]) hn (by simp; omega)
        simp only [step, hw, spec_nil, List.append_nil, List.length_nil]
        rw [patternPoll_stream _ _ rfl]
        refine inv_there _ _ { f with data := [] } [] ?_ (by simp [hm]) rfl ((flush_flags sp).1 ▸ hex)
          ((flush_flags sp).2 ▸ htl) (flush_partial sp) (by simp) (by simp) (by simp [hm]; exact hfi) ?_
        · simp [hm, hout, flush_out, hpart, finish_rem]
        · intro g hg; simp [hm] at hg ⊢; exact hfo g hg
    | rotate =>
      have hm : mutate s .rotate =
          { s with path := some ⟨s.nextInode, []⟩, others := f :: s.others, nextInode := s.nextInode + 1 } := by
        simp [mutate, hp]
      have hspec : Spec.step sp .rotate = flush sp := by simp [Spec.step, hex]
      rw [hspec]
      have hne : s.nextInode ≠ f.inode := by omega
      have hold : fileOf (mutate s .rotate) f.inode = some f := by
        simp [hm, fileOf, hne]
      have hw := wake_rotated cfg hc1 2 (mutate s .rotate) ⟨s.nextInode, []⟩ f rem
        (by simp [hm]) (by simp [hm, hs]) (by simpa using hne) hold hn
      simp only [step, hw, spec_nil, List.append_nil, List.length_nil]
      rw [patternPoll_stream _ _ rfl]
      refine inv_there _ _ ⟨s.nextInode, []⟩ [] ?_ (by simp [hm]) rfl ((flush_flags sp).1 ▸ hex)
        ((flush_flags sp).2 ▸ htl) (flush_partial sp) (by simp) (by simp) (by simp [hm]) ?_
      · simp [hm, hout, flush_out, hpart, finish_rem]
      · intro g hg
        simp only [hm, List.mem_cons] at hg ⊢
        rcases hg with rfl | hg
        · omega
        · exact Nat.lt_succ_of_lt (hfo g hg)
    | delete =>
      have hm : mutate s .delete = { s with path := none, others := f :: s.others } := by simp [mutate, hp]
      have hspec : Spec.step sp .delete = { (flush sp) with exists_ := false, tailing := false } := by
        simp [Spec.step, hex]
      rw [hspec]
      have hold : fileOf (mutate s .delete) f.inode = some f := by simp [hm, fileOf]
      have hw := wake_deleted cfg 3 (mutate s .delete) f rem (by simp [hm]) (by simp [hm, hs]) hold
      simp only [step, hw]
      have hpp : ∀ (x : St), x.stream = none → x.path = none → patternPoll x = x := by
        intro x h1 h2; simp [patternPoll, h1, h2]
      rw [hpp _ rfl (by simp [hm])]
      refine ⟨?_, rfl, ⟨?_, ?_⟩, ?_, ?_⟩
      · simp [hm, hout, flush_out, hpart, finish_rem]
      · intro g hg; simp [hm] at hg
      · intro g hg
        simp only [hm, List.mem_cons] at hg ⊢
        rcases hg with rfl | hg
        · exact hfi
        · exact hfo g hg
      · intro _; exact ⟨rfl, rfl, flush_partial sp⟩
      · intro g hg; simp [hm] at hg

theorem run_inv (cfg : Cfg) (hc1 : cfg.finishOnRotate = true) (hc2 : cfg.finishClears = true)
    (ops : List Op) (s : St) (sp : Spec) (hi : Inv s sp) : Inv (run cfg s ops) (ops.foldl Spec.step sp) := by
  induction ops generalizing s sp with
  | nil => exact hi
  | cons op rest ih => exact ih _ _ (step_inv cfg hc1 hc2 s sp hi op)


/-- stopping in a state the invariant describes delivers exactly the pending fragment -/
theorem stop_inv (s : St) (sp : Spec) (hi : Inv s sp) : (stop s).delivered = (Spec.stop sp).out := by
  obtain ⟨hout, htail, _, hgone, hthere⟩ := hi
  cases hp : s.path with
  | none =>
    obtain ⟨hs, hex, _⟩ := hgone hp
    have ht : sp.tailing = false := by rw [htail, hex]
    simp [stop, hs, Spec.stop, ht, hout]
  | some f =>
    obtain ⟨hex, rem, hs, hpart, hn, _⟩ := hthere f hp
    have ht : sp.tailing = true := by rw [htail, hex]
    unfold stop
    simp only [hs, fileOf_path s f hp, readAvail_spec f.inode f.data.length rem f hn (Nat.le_refl _)]
    simp only [List.drop_length, spec_nil, List.append_nil, finish_rem]
    simp only [Spec.stop, ht, if_true, flush_out, hpart, hout]

end MtailVerif.FileStream
