import MtailVerif.Generated.Skeletons
/-! Obligations over regenerated facts: the control skeleton of every function a hand-written model
    stands for (conditions, loop headers, what each branch ends in, calls by name, locks, updates
    of fields, map entries and slice elements; logging, comments and assignments to local variables
    left out), as `go/extract` reads it from the source on every run, is the one the model was
    written against.  A change to one of these functions makes the matching `rfl` fail: the model
    has then to be read against the new source (and `lib/pin_skeletons.py` run by hand).
    Written by lib/pin_skeletons.py from the source as it was when the models were last read. -/
namespace MtailVerif.Skeletons
open MtailVerif.Generated.Skeletons

/-- internal/metrics/metric.go: what `Model/Metric.lean` (C08, C09, C10) stands for -/
def MetricShape : Prop :=
    Metric.metric_GetDatum = "if len(labelvalues) != len(m.Keys) {return nil, errors.Errorf(\"Label values requested (%q) not same length as keys for metric %v\", labelvalues, m)}; m.Lock(); defer m.Unlock(); if lv := m.FindLabelValueOrNil(labelvalues); lv != nil {} else {switch m.Type {case Int: {datum.NewInt()} case Float: {datum.NewFloat()} case String: {datum.NewString()} case Buckets: {if buckets == nil {make([]datum.Range, 0)}; datum.NewBuckets(buckets)}}; if err := m.AppendLabelValue(lv); err != nil {return nil, err}}; return d, nil" ∧
    Metric.metric_FindLabelValueOrNil = "buildLabelValueKey(labelvalues); if ok {return lv}; return nil" ∧
    Metric.metric_AppendLabelValue = "if len(lv.Labels) != len(m.Keys) {return errors.Errorf(\"Label values requested (%q) not same length as keys for metric %v\", lv.Labels, m)}; m.LabelValues = append(m.LabelValues, lv); buildLabelValueKey(lv.Labels); m.labelValuesMap[k] = lv; return nil" ∧
    Metric.metric_RemoveDatum = "if len(labelvalues) != len(m.Keys) {return errors.Errorf(\"Label values requested (%q) not same length as keys for metric %v\", labelvalues, m)}; m.Lock(); defer m.Unlock(); m.removeDatum(labelvalues); return nil" ∧
    Metric.metric_removeDatum = "buildLabelValueKey(labelvalues); if ok {for i := 0; i < len(m.LabelValues); i++ {if lv == olv {m.LabelValues = append(m.LabelValues[:i], m.LabelValues[i+1:]...); delete(m.labelValuesMap, k); break}}}" ∧
    Metric.metric_ExpireDatum = "if len(labelvalues) != len(m.Keys) {return errors.Errorf(\"Label values requested (%q) not same length as keys for metric %v\", labelvalues, m)}; m.Lock(); defer m.Unlock(); if lv := m.FindLabelValueOrNil(labelvalues); lv != nil {lv.Expiry = expiry; return nil}; return errors.Errorf(\"No datum for given labelvalues %q\", labelvalues)" ∧
    Metric.metric_removeOldestDatum = "for range m.LabelValues {if oldestLV == nil || lv.Value.TimeUTC().Before(oldestLV.Value.TimeUTC()) {}}; if oldestLV != nil {m.removeDatum(oldestLV.Labels)}" ∧
    Metric.metric_EmitLabelSets = "for range m.LabelValues {c <-}; close(c)"
theorem metric_shape : MetricShape :=
  ⟨rfl, rfl, rfl, rfl, rfl, rfl, rfl, rfl⟩

/-- internal/metrics/store.go `Add`/`Range` and internal/runtime/runtime.go: what `Model/Runtime.lean` and `Model/Reload.lean` (C06, C14, C20, C25, C26) stand for -/
def LoaderShape : Prop :=
    Loader.store_Add = "s.insertMu.Lock(); defer s.insertMu.Unlock(); s.searchMu.RLock(); if len(s.Metrics[m.Name]) > 0 {if m.Kind != t {s.searchMu.RUnlock(); return errors.Errorf(\"metric %s has different kind %v to existing %v\", m.Name, m.Kind, t)}; for range s.Metrics[m.Name] {if v.Program != m.Program {continue}; if v.Type != m.Type {continue}; if v.Source != m.Source {continue}; if len(v.Keys) != len(m.Keys) || !reflect.DeepEqual(v.Keys, m.Keys) {break}; if !reflect.DeepEqual(v.Buckets, m.Buckets) {break}; v.RLock(); make([]*LabelValue, len(v.LabelValues)); for range v.LabelValues {oldLabelValues[j] = &LabelValue{Labels: oldLabel.Labels, Value: oldLabel.Value, Expiry: oldLabel.Expiry}}; v.RUnlock(); for range oldLabelValues {if err := m.RemoveDatum(lv.Labels...); err != nil {return err}; if err := m.AppendLabelValue(lv); err != nil {return err}}}}; s.searchMu.RUnlock(); s.searchMu.Lock(); s.Metrics[m.Name] = append(s.Metrics[m.Name], m); if dupeIndex >= 0 {s.Metrics[m.Name] = append(s.Metrics[m.Name][0:dupeIndex], s.Metrics[m.Name][dupeIndex+1:]...)}; s.searchMu.Unlock(); return nil" ∧
    Loader.store_Range = "s.searchMu.RLock(); defer s.searchMu.RUnlock(); for range s.Metrics {for range ml {if err := f(m); err != nil {return err}}}; return nil" ∧
    Loader.runtime_LoadAllPrograms = "if r.programPath == \"\" {return nil}; os.Stat(r.programPath); if err != nil {return errors.Wrapf(err, \"failed to stat %q\", r.programPath)}; switch  {case s.IsDir(): {os.ReadDir(r.programPath); if rerr != nil {return errors.Wrapf(rerr, \"Failed to list programs in %q\", r.programPath)}; make(map[string]struct{}); r.handleMu.RLock(); for range r.handles {markDeleted[name] = struct{}{}}; r.handleMu.RUnlock(); for range dirents {if dirent.IsDir() {continue}; r.LoadProgram(filepath.Join(r.programPath, dirent.Name())); if err != nil {if r.errorsAbort {return err}}; delete(markDeleted, filepath.Base(dirent.Name()))}; for range markDeleted {r.UnloadProgram(name)}} case default: {r.LoadProgram(r.programPath); if err != nil {if r.errorsAbort {return err}}}}; return nil" ∧
    Loader.runtime_LoadProgram = "filepath.Base(programPath); if strings.HasPrefix(name, \".\") {return nil}; if filepath.Ext(name) != fileExt {return nil}; os.OpenFile(filepath.Clean(programPath), os.O_RDONLY, 0o600); if err != nil {ProgLoadErrors.Add(name, 1); return errors.Wrapf(err, \"Failed to read program %q\", programPath)}; defer func {if err := f.Close(); err != nil {}}(); r.programErrorMu.Lock(); defer r.programErrorMu.Unlock(); r.programErrors[name] = r.CompileAndRun(name, f); if r.programErrors[name] != nil {if r.errorsAbort {return r.programErrors[name]}}; return nil" ∧
    Loader.runtime_CompileAndRun = "io.TeeReader(input, &buf); sha256.New(); if _, err := io.Copy(hasher, tee); err != nil {ProgLoadErrors.Add(name, 1); return errors.Wrapf(err, \"hashing failed for %q\", name)}; hasher.Sum(nil); r.handleMu.RLock(); r.handleMu.RUnlock(); if ok && bytes.Equal(vh.contentHash, contentHash) {return nil}; r.c.Compile(name, &buf); if errs != nil {ProgLoadErrors.Add(name, 1); return errors.Errorf(\"compile failed for %s:\\n%s\", name, errs)}; if obj == nil {ProgLoadErrors.Add(name, 1); return errors.Errorf(\"internal error: compilation failed for %s: no program returned, but no errors\", name)}; vm.New(name, obj, r.syslogUseCurrentYear, r.overrideLocation, r.logRuntimeErrors, r.trace); if r.dumpBytecode {}; for range v.Metrics {if !m.Hidden {if r.omitMetricSource {m.Source = \"\"}; r.ms.Add(m); if err != nil {ProgLoadErrors.Add(name, 1); return err}}}; ProgLoads.Add(name, 1); if r.compileOnly {return nil}; r.handleMu.Lock(); defer r.handleMu.Unlock(); if handle, ok := r.handles[name]; ok {close(handle.lines); <-handle.done}; make(chan *logline.LogLine); make(chan struct{}); r.handles[name] = &vmHandle{contentHash: contentHash, vm: v, lines: lines, done: done}; r.wg.Add(1); go {v.Run(lines, &r.wg); close(done)}; return nil" ∧
    Loader.runtime_UnloadProgram = "filepath.Base(pathname); r.handleMu.Lock(); defer r.handleMu.Unlock(); close(r.handles[name].lines); <-r.handles[name].done; delete(r.handles, name); ProgUnloads.Add(name, 1)"
theorem loader_shape : LoaderShape :=
  ⟨rfl, rfl, rfl, rfl, rfl, rfl⟩

/-- internal/exporter: what `Model/Prom.lean`, `Model/Formats.lean` and `Model/ExportLocks.lean` (C12, C13, C22) stand for -/
def ExportShape : Prop :=
    Export.exporter_Collect = "make(map[string]string); e.store.Range(func {m.RLock(); if m.Kind == metrics.Text {m.RUnlock(); return nil}; metricExportTotal.Add(1); make(chan *metrics.LabelSet); go m.EmitLabelSets(); for range lsc {if !ok {sources[noHyphens(m.Name)] = lastSource}; if !e.omitProgLabel {append(keys, \"prog\"); append(vals, m.Program)}; for range ls.Labels {append(keys, k); append(vals, v)}; if m.Kind == metrics.Histogram {prometheus.NewConstHistogram(prometheus.NewDesc(noHyphens(m.Name), fmt.Sprintf(\"defined at %s\", lastSource), keys, nil), datum.GetBucketsCount(ls.Datum), datum.GetBucketsSum(ls.Datum), datum.GetBucketsCumByMax(ls.Datum), vals)} else {prometheus.NewConstMetric(prometheus.NewDesc(noHyphens(m.Name), fmt.Sprintf(\"defined at %s\", lastSource), keys, nil), promTypeForKind(m.Kind), promValueForDatum(ls.Datum), vals)}; if err != nil {continue}; if e.emitTimestamp {c <-} else {c <-}}; m.RUnlock(); return nil})" ∧
    Export.exporter_writeSocketMetrics = "return e.store.Range(func {m.RLock(); if m.Kind == metrics.Text {m.RUnlock(); return nil}; exportTotal.Add(1); make(chan *metrics.LabelSet); go m.EmitLabelSets(); for range lc {f(e.hostname, m, l, e.pushInterval); fmt.Fprint(c, line); if err == nil {exportSuccess.Add(1)} else {for range lc {}; m.RUnlock(); return errors.Errorf(\"write error: %s\", err)}}; m.RUnlock(); return nil})" ∧
    Export.formatLabels = "if len(m) > 0 {for range m {append(keys, k)}; sort.Strings(keys); for range keys {strings.ReplaceAll(strings.ReplaceAll(k, ksep, rep), sep, rep); strings.ReplaceAll(strings.ReplaceAll(m[k], ksep, rep), sep, rep); append(s, fmt.Sprintf(\"%s%s%s\", k1, ksep, v1))}; return r + sep + strings.Join(s, sep)}; return r" ∧
    Export.metricToCollectd = "return fmt.Sprintf(collectdFormat, hostname, *collectdPrefix, m.Program, kindToCollectdType(m.Kind), formatLabels(m.Name, l.Labels, \"-\", \"-\", \"_\"), int64(interval.Seconds()), l.Datum.TimeString(), l.Datum.ValueString())" ∧
    Export.metricToStatsd = "switch m.Kind {case metrics.Counter: {} case metrics.Gauge: {} case metrics.Timer: {}}; return fmt.Sprintf(\"%s%s.%s:%s|%s\", *statsdPrefix, m.Program, formatLabels(m.Name, l.Labels, \".\", \".\", \"_\"), l.Datum.ValueString(), t)" ∧
    Export.metricToGraphite = "if m.Kind == metrics.Histogram && m.Type == metrics.Buckets {datum.GetBuckets(d); for range buckets.GetBuckets() {if math.IsInf(r.Max, 1) {} else {fmt.Sprintf(\"%v\", r.Max)}; fmt.Fprintf(&b, \"%s%s.%s.bin_%s %v %v\\n\", *graphitePrefix, m.Program, formatLabels(m.Name, l.Labels, \".\", \".\", \"_\"), binName, c, l.Datum.TimeString())}; fmt.Fprintf(&b, \"%s%s.%s.count %v %v\\n\", *graphitePrefix, m.Program, formatLabels(m.Name, l.Labels, \".\", \".\", \"_\"), buckets.GetCount(), l.Datum.TimeString())}; fmt.Fprintf(&b, \"%s%s.%s %v %v\\n\", *graphitePrefix, m.Program, formatLabels(m.Name, l.Labels, \".\", \".\", \"_\"), l.Datum.ValueString(), l.Datum.TimeString()); return b.String()" ∧
    Export.metricToVarz = "make([]string, 0, len(l.Labels) + 2); for range l.Labels {append(s, fmt.Sprintf(\"%s=%s\", k, v))}; sort.Strings(s); if !omitProgLabel {append(s, fmt.Sprintf(\"prog=%s\", m.Program))}; append(s, fmt.Sprintf(\"instance=%s\", hostname)); return fmt.Sprintf(varzFormat, m.Name, strings.Join(s, \",\"), l.Datum.ValueString())" ∧
    Export.noHyphens = "return strings.ReplaceAll(s, \"-\", \"_\")" ∧
    Export.promTypeForKind = "switch k {case metrics.Counter: {return prometheus.CounterValue} case metrics.Gauge: {return prometheus.GaugeValue} case metrics.Timer: {return prometheus.GaugeValue}}; return prometheus.UntypedValue"
theorem export_shape : ExportShape :=
  ⟨rfl, rfl, rfl, rfl, rfl, rfl, rfl, rfl, rfl⟩

/-- internal/tailer/logstream: what `Model/Reader.lean`, `Model/FileStream.lean`, `Model/Conn.lean` and `Model/Pipeline.lean` (C15, C16, C17, C19) stand for -/
def StreamsShape : Prop :=
    Streams.lineReader_ReadAndSend = "if cap(lr.buf)-len(lr.buf) < lr.size {lr.buf = append(make([]byte, 0, len(lr.buf)+lr.size), lr.buf...)}; lr.f.Read(lr.buf[len(lr.buf):cap(lr.buf)]); if lr.staleTimer != nil {lr.staleTimer.Stop()}; lr.buf = lr.buf[:len(lr.buf)+count]; if count > 0 {lr.staleTimer = time.AfterFunc(time.Hour*24, lr.cancel); for ; ok;  {lr.send(ctx)}; lr.buf = lr.buf[lr.off:len(lr.buf)]; lr.off = 0}; return " ∧
    Streams.lineReader_send = "min(len(lr.buf), cap(lr.buf)); bytes.IndexByte(lr.buf[lr.off:lim], '\\n'); if i < 0 {return false}; if end > 0 && lr.buf[end-1] == '\\r' {}; string(lr.buf[lr.off:end]); logLines.Add(lr.sourcename, 1); lr.lines <-; lr.off = end + skip; return true" ∧
    Streams.lineReader_Finish = "string(lr.buf[lr.off:]); if len(line) == 0 {return }; logLines.Add(lr.sourcename, 1); lr.lines <-; lr.buf = lr.buf[:0]; lr.off = 0" ∧
    Streams.socketStream_stream = "net.Listen(ss.scheme, ss.address); if err != nil {logErrors.Add(ss.address, 1); return err}; make(chan struct{}); wg.Add(1); go {defer wg.Done(); select {case <-started: {} case <-ctx.Done(): {}}; if !ss.oneShot {<-ctx.Done()}; l.Close(); if err != nil {}; connWg.Wait(); close(ss.lines)}; wg.Add(1); go {defer wg.Done(); for  {connWg.Add(1); l.Accept(); if err != nil {connWg.Done(); return }; go ss.handleConn(); connOnce.Do(func {close(started)}); if ss.oneShot {return }}}; return nil" ∧
    Streams.socketStream_handleConn = "defer wg.Done(); NewLineReader(ss.sourcename, ss.lines, c, defaultReadBufferSize, ss.cancel); defer func {c.Close(); if err != nil {logErrors.Add(ss.address, 1)}; lr.Finish(ctx); logCloses.Add(ss.address, 1)}(); context.WithCancel(ctx); defer cancel(); SetReadDeadlineOnDone(ctx, c); for  {lr.ReadAndSend(ctx); if n > 0 {if err == nil && ctx.Err() == nil {continue}}; if IsExitableError(err) {return }; select {case <-ctx.Done(): {} case <-waker.Wake(): {}}}" ∧
    Streams.fifoStream_stream = "fifoOpen(ps.pathname); if err != nil {return err}; NewLineReader(ps.sourcename, ps.lines, fd, defaultFifoReadBufferSize, ps.cancel); wg.Add(1); go {defer wg.Done(); defer func {fd.Close(); if err != nil {logErrors.Add(ps.pathname, 1)}; logCloses.Add(ps.pathname, 1); lr.Finish(ctx); close(ps.lines); ps.cancel()}(); SetReadDeadlineOnDone(ctx, fd); for  {lr.ReadAndSend(ctx); if n > 0 {if err == nil && ctx.Err() == nil {continue}} else if n == 0 && total > 0 {return }; if IsExitableError(err) {if !(errors.Is(err, io.EOF) && total == 0) {return }}; select {case <-ctx.Done(): {} case <-waker.Wake(): {}}}}; return nil" ∧
    Streams.dgramStream_stream = "net.ListenPacket(ds.scheme, ds.address); if err != nil {logErrors.Add(ds.address, 1); return err}; NewLineReader(ds.sourcename, ds.lines, &dgramConn{c}, datagramReadBufferSize, ds.cancel); wg.Add(1); go {defer wg.Done(); defer func {c.Close(); if err != nil {logErrors.Add(ds.address, 1)}; logCloses.Add(ds.address, 1); lr.Finish(ctx); close(ds.lines); ds.cancel()}(); context.WithCancel(ctx); defer cancel(); SetReadDeadlineOnDone(ctx, c); for  {lr.ReadAndSend(ctx); if n == 0 {if oneShot {return }; select {case <-ctx.Done(): {return } case default: {}}}; if n > 0 {if err == nil && ctx.Err() == nil {continue}}; if IsExitableError(err) {return }; select {case <-ctx.Done(): {} case <-waker.Wake(): {}}}}; return nil" ∧
    Streams.fileStream_stream = "os.OpenFile(fs.pathname, os.O_RDONLY, 0o600); if err != nil {logErrors.Add(fs.sourcename, 1); return err}; logOpens.Add(fs.sourcename, 1); if !streamFromStart {if _, err := fd.Seek(0, io.SeekEnd); err != nil {logErrors.Add(fs.sourcename, 1); if err := fd.Close(); err != nil {logErrors.Add(fs.sourcename, 1)}; return err}}; NewLineReader(fs.sourcename, fs.lines, fd, defaultReadBufferSize, fs.cancel); make(chan struct{}); wg.Add(1); go {defer wg.Done(); defer func {if err := fd.Close(); err != nil {logErrors.Add(fs.sourcename, 1)}; logCloses.Add(fs.sourcename, 1)}(); close(started); for  {lr.ReadAndSend(ctx); if count > 0 {if err == nil && ctx.Err() == nil {continue}}; if err != nil && !errors.Is(err, io.EOF) {logErrors.Add(fs.sourcename, 1); if errors.Is(err, syscall.ESTALE) {if nerr := fs.stream(ctx, wg, waker, fi, oneShot, true); nerr != nil {}; return }}; if errors.Is(err, io.EOF) && count == 0 {os.Stat(fs.pathname); if serr != nil {if os.IsNotExist(serr) {lr.Finish(ctx); close(fs.lines); return }; logErrors.Add(fs.sourcename, 1); goto}; if newfi.IsDir() {lr.Finish(ctx); close(fs.lines); return }; if !os.SameFile(fi, newfi) {lr.Finish(ctx); if err := fs.stream(ctx, wg, waker, newfi, oneShot, true); err != nil {close(fs.lines)}; return }; fd.Seek(0, io.SeekCurrent); if serr != nil {logErrors.Add(fs.sourcename, 1); continue}; if newfi.Size() < currentOffset {lr.Finish(ctx); fd.Seek(0, io.SeekStart); if serr != nil {logErrors.Add(fs.sourcename, 1)}; fileTruncates.Add(fs.sourcename, 1); continue}}; Sleep: if errors.Is(err, io.EOF) {if oneShot == OneShotEnabled {lr.Finish(ctx); close(fs.lines); return }; select {case <-ctx.Done(): {lr.Finish(ctx); close(fs.lines); return } case default: {}}}; select {case <-ctx.Done(): {} case <-waker.Wake(): {}}}}; <-started; return nil"
theorem streams_shape : StreamsShape :=
  ⟨rfl, rfl, rfl, rfl, rfl, rfl, rfl, rfl⟩

/-- internal/runtime/vm/vm.go, around the instruction cycle: what `Model/VM.lean`'s `run` and `Model/Reload.lean`'s VM (C01, C05, C19, C20) stand for -/
def LineShape : Prop :=
    Line.vM_ProcessLogLine = "time.Now(); defer func {LineProcessingDurations.WithLabelValues(v.name).Observe(time.Since(start).Seconds())}(); verifLineHook(v, line); new(thread); t.matched = false; v.t = t; v.input = line; t.stack = make([]interface{}, 0); t.matches = make(map[int][]string, len(v.re)); for  {if t.pc >= len(v.prog) {return }; if v.trace != nil {v.trace = append(v.trace, t.pc)}; t.pc++; v.execute(t, i); if v.terminate {v.terminate = false; return }}" ∧
    Line.vM_Run = "defer wg.Done(); context.TODO(); for range lines {v.ProcessLogLine(ctx, line)}" ∧
    Line.vM_errorf = "ProgRuntimeErrors.Add(v.name, 1); v.runtimeErrorMu.Lock(); v.runtimeError = fmt.Sprintf(format+\"\\n\", args...); v.runtimeError += fmt.Sprintf( \"Error occurred at instruction %d {%s, %v}, originating in %s at line %d\\n\", v.t.pc-1, i.Opcode, i.Operand, v.name, i.SourceLine+1); v.runtimeError += fmt.Sprintf(\"Full input text from %q was %q\", v.input.Filename, v.input.Line); if v.logRuntimeErrors || bool(glog.V(1)) {}; if glog.V(1) {}; if v.trace != nil {}; v.runtimeErrorMu.Unlock(); v.terminate = true" ∧
    Line.vM_ParseTime = "if v.loc != nil {time.ParseInLocation(layout, value, v.loc)} else {time.Parse(layout, value)}; if err != nil {v.errorf(\"strptime (%v, %v, %v) failed: %s\", layout, value, v.loc, err); return }; if tm.Year() == 0 && v.syslogUseCurrentYear {time.Now(); if v.loc != nil {now.In(v.loc)}; tm.AddDate(now.Year(), 0, 0)}; return "
theorem line_shape : LineShape :=
  ⟨rfl, rfl, rfl, rfl⟩

/-- internal/metrics/datum: the stamped updates and the bucket arithmetic that `Model/VM.lean`, `Model/Buckets.lean` and `Model/Prom.lean` (C07, C09, C13, C21) stand for -/
def DatumShape : Prop :=
    Datum.setInt = "switch d := d.(type) {case *Int: {d.Set(v, ts)} case *Buckets: {d.Observe(float64(v), ts)} case default: {panic(fmt.Sprintf(\"datum %v is not an Int\", d))}}" ∧
    Datum.setFloat = "switch d := d.(type) {case *Float: {d.Set(v, ts)} case *Buckets: {d.Observe(v, ts)} case default: {panic(fmt.Sprintf(\"datum %v is not a Float\", d))}}" ∧
    Datum.setString = "switch d := d.(type) {case *String: {d.Set(v, ts)} case default: {panic(fmt.Sprintf(\"datum %v is not a String\", d))}}" ∧
    Datum.incIntBy = "switch d := d.(type) {case *Int: {d.IncBy(v, ts)} case default: {panic(fmt.Sprintf(\"datum %v is not an Int\", d))}}" ∧
    Datum.decIntBy = "switch d := d.(type) {case *Int: {d.DecBy(v, ts)} case default: {panic(fmt.Sprintf(\"datum %v is not an Int\", d))}}" ∧
    Datum.baseDatum_stamp = "if timestamp.IsZero() {atomic.StoreInt64(&d.Time, time.Now().UTC().UnixNano())} else {atomic.StoreInt64(&d.Time, timestamp.UnixNano())}" ∧
    Datum.getBucketsCumByMax = "switch d := d.(type) {case *Buckets: {make(map[float64]uint64); make([]float64, 0); for range d.GetBuckets() {append(maxes, r.Max); buckets[r.Max] = c}; sort.Float64s(maxes); uint64(0); for range maxes {buckets[m] = cum}; return buckets} case default: {panic(fmt.Sprintf(\"datum %v is not a Buckets\", d))}}" ∧
    Datum.buckets_Observe = "d.Lock(); defer d.Unlock(); for range d.Buckets {if v <= b.Range.Max || i == n {d.Buckets[i].Count++; break}}; d.Count++; d.Sum += v; d.stamp(ts)" ∧
    Datum.buckets_GetBuckets = "d.RLock(); defer d.RUnlock(); make(map[Range]uint64); for range d.Buckets {b[bc.Range] = bc.Count}; return b" ∧
    Datum.makeBuckets = "for range buckets {d.AddBucket(b); if math.IsInf(b.Max, +1) {} else if b.Max > highest {}}; if !seenInf {d.AddBucket(Range{highest, math.Inf(+1)})}; return d"
theorem datum_shape : DatumShape :=
  ⟨rfl, rfl, rfl, rfl, rfl, rfl, rfl, rfl, rfl, rfl⟩

/-- the goroutines that hand lines on (runtime.New, tailer.New), pattern registration, the server's Run, a datagram read: what `Model/Pipeline.lean`, `Model/Reload.lean`, `Model/TailerPoll.lean` and `Model/Conn.lean` (C17, C18, C19, C20) stand for -/
def DispatchShape : Prop :=
    Dispatch.runtime_New = "if store == nil {return nil, ErrNeedsStore}; if wg == nil {return nil, ErrNeedsWaitgroup}; make(chan struct{}); defer close(initDone); if err = r.SetOption(options...); err != nil {return nil, err}; if r.c, err = compiler.New(r.cOpts...); err != nil {return nil, err}; wg.Add(1); defer func {go {defer wg.Done(); <-initDone; r.wg.Wait()}}(); r.wg.Add(1); go {defer r.wg.Done(); <-initDone; for range lines {LineCount.Add(1); r.handleMu.RLock(); for range r.handles {r.handles[prog].lines <-}; r.handleMu.RUnlock()}; close(r.signalQuit); r.handleMu.Lock(); for range r.handles {close(r.handles[prog].lines); delete(r.handles, prog)}; r.handleMu.Unlock()}; if r.programPath == \"\" {return r, nil}; r.wg.Add(1); go {defer r.wg.Done(); <-initDone; if r.programPath == \"\" {return }; make(chan os.Signal, 1); signal.Notify(n, syscall.SIGHUP); defer signal.Stop(n); for  {select {case <-r.signalQuit: {return } case <-n: {if err := r.LoadAllPrograms(); err != nil {}}}}}; if err := r.LoadAllPrograms(); err != nil {return nil, err}; return r, nil" ∧
    Dispatch.tailer_New = "if lines == nil {return nil, ErrNoLinesChannel}; if wg == nil {return nil, ErrNeedsWaitgroup}; t.ctx, t.cancel = context.WithCancel(ctx); defer close(t.initDone); if err := t.SetOption(options...); err != nil {return nil, err}; for range t.logPatterns {if err := t.AddPattern(p); err != nil {return nil, err}}; wg.Add(1); go {defer wg.Done(); <-t.initDone; t.wg.Wait(); t.cancel()}; wg.Add(1); go {defer wg.Done(); <-t.initDone; <-t.ctx.Done(); t.wg.Wait(); close(t.lines)}; return t, nil" ∧
    Dispatch.tailer_AddPattern = "url.Parse(pattern); if err != nil {}; switch u.Scheme {case default: {} case \"unix\", \"unixgram\", \"tcp\", \"udp\": {return t.TailPath(path)} case \"\", \"file\": {}}; if logstream.IsStdinPattern(pattern) {return t.TailPath(pattern)}; filepath.Abs(path); if err != nil {return err}; t.globPatternsMu.Lock(); t.globPatterns[path] = struct{}{}; t.globPatternsMu.Unlock(); t.pollLogPattern(path); return nil" ∧
    Dispatch.server_Run = "m.wg.Wait(); m.cancel(); if m.compileOnly {return nil}; return nil" ∧
    Dispatch.dgramConn_Read = "d.ReadFrom(p); return "
theorem dispatch_shape : DispatchShape :=
  ⟨rfl, rfl, rfl, rfl, rfl⟩

/-- the symbol table, type unification and the checker's regex and unused-symbol passes: what `Model/Scope.lean` and `Model/Lower.lean` (C01, C03, C24) stand for -/
def SymbolsShape : Prop :=
    Symbols.newScope = "return &Scope{parent, make(map[string]*Symbol)}" ∧
    Symbols.scope_Insert = "if alt = s.Symbols[sym.Name]; alt == nil {s.Symbols[sym.Name] = sym}; return " ∧
    Symbols.scope_InsertAlias = "if alt = s.Symbols[alias]; alt == nil {s.Symbols[alias] = sym}; return " ∧
    Symbols.scope_Lookup = "for scope := s; scope != nil; scope = scope.Parent {if sym := scope.Symbols[name]; sym != nil && sym.Kind == kind {return sym}}; return nil" ∧
    Symbols.scope_CopyFrom = "for range o.Symbols {s.Insert(sym)}; if o.Parent != nil {s.CopyFrom(o.Parent)}" ∧
    Symbols.unify = "a.Root(), b.Root(); switch aT := aR.(type) {case *Variable: {switch bT := bR.(type) {case *Variable: {if aT.ID != bT.ID {aT.SetInstance(bR); return bR}; return aT} case *Operator: {if occursInType(aT, bT) {return &TypeError{ErrRecursiveUnification, aT, bT}}; aT.SetInstance(bR); return bR}}} case *Operator: {switch bT := bR.(type) {case *Variable: {Unify(b, a); if AsTypeError(t, &e) {return &TypeError{ErrTypeMismatch, e.received, e.expected}}; return t} case *Operator: {switch  {case IsAlternate(aT) && !IsAlternate(bT): {if OccursIn(bT, aT.Args) {return bT}; return &TypeError{ErrTypeMismatch, aT, bT}} case IsAlternate(bT) && !IsAlternate(aT): {Unify(b, a); if AsTypeError(t, &e) {return &TypeError{e.error, e.received, e.expected}}; return t} case IsAlternate(aT) && IsAlternate(bT): {for range bT.Args {if OccursIn(arg, aT.Args) {append(args, arg)}}; if len(args) == 0 {return &TypeError{ErrTypeMismatch, aT, bT}}; if len(args) == 1 {return args[0]}; return &Operator{alternateName, args}} case default: {if len(aT.Args) != len(bT.Args) {return &TypeError{ErrTypeMismatch, aT, bT}}; if aT.Name != bT.Name {LeastUpperBound(a, b); if AsTypeError(t, &e) {return e}; if rType, ok = t.(*Operator); !ok {return &TypeError{ErrRecursiveUnification, aT, bT}}} else {}; rType.Args = make([]Type, len(aT.Args)); for range aT.Args {Unify(argA, bT.Args[i]); if AsTypeError(t, &e) {return e}; rType.Args[i] = t}; return rType}}}}}}; return &TypeError{ErrInternal, a, b}" ∧
    Symbols.leastUpperBound = "a.Root(), b.Root(); if Equals(a1, b1) {return a1}; if _, ok := a1.(*Variable); ok {return b1}; if _, ok := b1.(*Variable); ok {return a1}; if Equals(a1, Undef) {return b1}; if Equals(b1, Undef) {return a1}; for range typeCoercions {if (Equals(a1, pair.sub) && Equals(b1, pair.sup)) ||\n\t(Equals(b1, pair.sub) && Equals(a1, pair.sup)) {return pair.sup}}; if (Equals(a1, Pattern) && Equals(b1, Bool)) ||\n\t(Equals(a1, Bool) && Equals(b1, Pattern)) {return Bool}; if (Equals(a1, Bool) && Equals(b1, Int)) ||\n\t(Equals(a1, Int) && Equals(b1, Bool)) {return Int}; if (Equals(a1, Numeric) && Equals(b1, Int)) ||\n\t(Equals(a1, Int) && Equals(b1, Numeric)) {return Int}; if (Equals(a1, Numeric) && Equals(b1, Float)) ||\n\t(Equals(a1, Float) && Equals(b1, Numeric)) {return Float}; if (Equals(a1, String) && Equals(b1, Pattern)) ||\n\t(Equals(a1, Pattern) && Equals(b1, String)) {return Pattern}; if (Equals(a1, Pattern) && Equals(b1, Int)) ||\n\t(Equals(a1, Int) && Equals(b1, Pattern)) {return Bool}; return &TypeError{ErrTypeMismatch, a, b}" ∧
    Symbols.checker_checkRegex = "len(pattern); if plen > c.maxRegexLength {c.errors.Add(n.Pos(), fmt.Sprintf(\"Exceeded maximum regular expression pattern length of %d bytes with %d.\\n\\tExcessively long patterns are likely to cause compilation and runtime performance problems.\", c.maxRegexLength, plen)); return }; if reAst, err := types.ParseRegexp(pattern); err == nil {if c.noRegexSymbols {return }; for range reAst.CapNames() {symbol.NewSymbol(fmt.Sprintf(\"%d\", i), symbol.CaprefSymbol, n.Pos()); sym.Type = types.InferCaprefType(reAst, i); sym.Binding = n; sym.Addr = i; if alt := c.scope.Insert(sym); alt != nil {c.errors.Add(n.Pos(), fmt.Sprintf(\"Redeclaration of capture group `%s' previously declared at %s\", sym.Name, alt.Pos))}; if capref != \"\" {sym.Name = capref; if alt := c.scope.InsertAlias(sym, capref); alt != nil {c.errors.Add(n.Pos(), fmt.Sprintf(\"Redeclaration of capture group `%s' previously declared at %s\", sym.Name, alt.Pos))}}}} else {c.errors.Add(n.Pos(), err.Error()); return }" ∧
    Symbols.checker_checkSymbolTable = "for range c.scope.Symbols {if !sym.Used {if sym.Kind == symbol.CaprefSymbol {if sym.Addr == 0 {continue}; continue}; c.errors.Add(sym.Pos, fmt.Sprintf(\"Declaration of %s `%s' here is never used.\", sym.Kind, sym.Name))}}"
theorem symbols_shape : SymbolsShape :=
  ⟨rfl, rfl, rfl, rfl, rfl, rfl, rfl, rfl, rfl⟩

/-- the lexer's string literals, the formatter's quoting and bracketing, and the mfmt command: what `Model/Unparse.lean` and `Model/ExprGrammar.lean` (C23) stand for -/
def TextShape : Prop :=
    Text.lexQuotedString = "l.skip(); Loop: for  {switch l.next() {case '\\\\': {l.skip(); if r := l.next(); r != eof && r != '\\n' {if r != '\"' {l.text.WriteRune('\\\\')}; l.accept(); break}; fallthrough} case eof, '\\n': {return l.errorf(\"Unterminated quoted string: \\\"\\\\\\\"%s\\\"\", l.text.String())} case '\"': {l.skip(); break} case default: {l.accept()}}}; l.emit(STRING); return lexProg" ∧
    Text.quote = "return \"\\\"\" + strings.ReplaceAll(s, \"\\\"\", \"\\\\\\\"\") + \"\\\"\"" ∧
    Text.precedence = "switch v := n.(type) {case *ast.ConvExpr: {return precedence(v.N)} case *ast.BinaryExpr: {switch v.Op {case ASSIGN, ADD_ASSIGN: {return precAssign} case AND, OR, MATCH, NOT_MATCH: {return precLogical} case BITAND, BITOR, XOR: {return precBitwise} case LT, GT, LE, GE, EQ, NE: {return precRel} case SHL, SHR: {return precShift} case PLUS, MINUS: {return precAdditive} case default: {return precMultiplicative}}} case *ast.UnaryExpr: {switch v.Op {case NOT: {return precUnary} case INC, DEC: {return precPostfix} case default: {return precedence(v.Expr)}}} case *ast.PatternExpr: {return precedence(v.Expr)}}; return precPrimary" ∧
    Text.lhsNeedsParens = "switch op {case MATCH, NOT_MATCH: {return precedence(lhs) < precPrimary} case ASSIGN, ADD_ASSIGN: {return precedence(lhs) < precUnary}}; if _, isPattern := lhs.(*ast.PatternLit); isPattern || isConcat(lhs) {return false}; return precedence(lhs) < opPrecedence(op)" ∧
    Text.rhsNeedsParens = "switch op {case MATCH, NOT_MATCH: {if p, isPattern := rhs.(*ast.PatternExpr); isPattern {return !isPatternConcat(p.Expr) && precedence(p.Expr) < precPrimary}; return precedence(rhs) < precPrimary} case ASSIGN, ADD_ASSIGN: {return precedence(rhs) < precLogical}}; if _, isPattern := rhs.(*ast.PatternLit); isPattern {return false}; return precedence(rhs) <= opPrecedence(op)" ∧
    Text.unparser_walkOperand = "if parens {u.emit(\"(\")}; ast.Walk(u, n); if parens {u.emit(\")\")}" ∧
    Text.mfmt_main = "flag.Parse(); if *prog == \"\" {}; os.OpenFile(*prog, os.O_RDWR, 0); if err != nil {}; parser.Parse(*prog, f); if err != nil {}; checker.Check(ast, 0, 0); if err != nil {}; up.Unparse(ast); if *write {if err := f.Truncate(0); err != nil {}; if _, err := f.Seek(0, io.SeekStart); err != nil {}; if _, err := f.WriteString(out); err != nil {}} else {fmt.Print(out)}"
theorem text_shape : TextShape :=
  ⟨rfl, rfl, rfl, rfl, rfl, rfl, rfl⟩

/-- every function of lexer.go: what `Model/Lexer.lean` (C03) stands for, state function by state function -/
def LexShape : Prop :=
    Lex.dictionary = "for range keywords {append(r, k)}; append(r, builtins); return " ∧
    Lex.newLexer = "return l" ∧
    Lex.lexer_NextToken = "for  {select {case tok := <-l.tokens: {return tok} case default: {l.state = l.state(l)}}}" ∧
    Lex.lexer_emit = "l.tokens <-; l.text.Reset(); l.startcol = l.col" ∧
    Lex.lexer_next = "l.rune, l.width, err = l.input.ReadRune(); if errors.Is(err, io.EOF) {l.width = 1; l.rune = eof}; if l.rune == '\u2424' {l.rune = eof}; return l.rune" ∧
    Lex.lexer_backup = "l.width = 0; if l.rune == eof {return }; if err := l.input.UnreadRune(); err != nil {}" ∧
    Lex.lexer_stepCursor = "if l.rune == '\\n' {l.line++; l.col = 0} else {l.col += l.width}" ∧
    Lex.lexer_accept = "l.text.WriteRune(l.rune); l.stepCursor()" ∧
    Lex.lexer_skip = "l.stepCursor()" ∧
    Lex.lexer_ignore = "l.stepCursor(); l.startcol = l.col" ∧
    Lex.lexer_errorf = "l.tokens <-; l.text.Reset(); l.startcol = l.col; return lexProg" ∧
    Lex.lexProg = "if l.InRegex {return lexRegex}; switch  {case r == '\\n': {l.accept(); l.emit(NL)} case r == '#': {return lexComment} case isSpace(r): {l.ignore()} case r == '{': {l.accept(); l.emit(LCURLY)} case r == '}': {l.accept(); l.emit(RCURLY)} case r == '(': {l.accept(); l.emit(LPAREN)} case r == ')': {l.accept(); l.emit(RPAREN)} case r == '[': {l.accept(); l.emit(LSQUARE)} case r == ']': {l.accept(); l.emit(RSQUARE)} case r == ',': {l.accept(); l.emit(COMMA)} case r == '-': {l.accept(); switch  {case r == '-': {l.accept(); l.emit(DEC)} case isDigit(r): {l.backup(); return lexNumeric} case default: {l.backup(); l.emit(MINUS)}}} case r == '+': {l.accept(); switch l.next() {case '+': {l.accept(); l.emit(INC)} case '=': {l.accept(); l.emit(ADD_ASSIGN)} case default: {l.backup(); l.emit(PLUS)}}} case r == '*': {l.accept(); switch l.next() {case '*': {l.accept(); l.emit(POW)} case default: {l.backup(); l.emit(MUL)}}} case r == '=': {l.accept(); switch l.next() {case '=': {l.accept(); l.emit(EQ)} case '~': {l.accept(); l.emit(MATCH)} case default: {l.backup(); l.emit(ASSIGN)}}} case r == '<': {l.accept(); switch l.next() {case '=': {l.accept(); l.emit(LE)} case '<': {l.accept(); l.emit(SHL)} case default: {l.backup(); l.emit(LT)}}} case r == '>': {l.accept(); switch l.next() {case '=': {l.accept(); l.emit(GE)} case '>': {l.accept(); l.emit(SHR)} case default: {l.backup(); l.emit(GT)}}} case r == '!': {l.accept(); switch l.next() {case '=': {l.accept(); l.emit(NE)} case '~': {l.accept(); l.emit(NOT_MATCH)} case default: {l.backup(); return l.errorf(\"Unexpected input: %q\", r)}}} case r == '/': {l.accept(); l.emit(DIV)} case r == '%': {l.accept(); l.emit(MOD)} case r == '&': {l.accept(); switch l.next() {case '&': {l.accept(); l.emit(AND)} case default: {l.backup(); l.emit(BITAND)}}} case r == '|': {l.accept(); switch l.next() {case '|': {l.accept(); l.emit(OR)} case default: {l.backup(); l.emit(BITOR)}}} case r == '^': {l.accept(); l.emit(XOR)} case r == '~': {l.accept(); l.emit(NOT)} case r == '\"': {return lexQuotedString} case r == '$': {return lexCapref} case r == '@': {return lexDecorator} case isDigit(r): {l.backup(); return lexNumeric} case isAlpha(r): {return lexIdentifier} case r == eof: {l.skip(); l.emit(EOF); return nil} case r == '.': {l.backup(); return lexNumeric} case default: {l.accept(); return l.errorf(\"Unexpected input: %q\", r)}}; return lexProg" ∧
    Lex.lexComment = "l.ignore(); Loop: for  {switch l.next() {case '\\n': {l.skip(); fallthrough} case eof: {break} case default: {l.ignore()}}}; return lexProg" ∧
    Lex.lexNumeric = "l.next(); for ; isDigit(r);  {l.accept(); l.next()}; if r != '.' && r != 'E' && r != 'e' && !isDurationSuffix(r) {l.backup(); l.emit(Kind(INTLITERAL)); return lexProg}; if r == '.' {l.accept(); l.next(); for ; isDigit(r);  {l.accept(); l.next()}}; if r == 'e' || r == 'E' {l.accept(); l.next(); if r == '+' || r == '-' {l.accept(); l.next()}; for ; isDigit(r);  {l.accept(); l.next()}}; if isDurationSuffix(r) {l.accept(); return lexDuration}; l.backup(); l.emit(Kind(FLOATLITERAL)); return lexProg" ∧
    Lex.isDurationSuffix = "switch r {case 's', 'm', 'h', 'd': {return true}}; return false" ∧
    Lex.lexDuration = "Loop: for  {switch  {case isDigit(r): {l.accept()} case r == '.': {l.accept()} case r == '-': {l.accept()} case r == '+': {l.accept()} case isDurationSuffix(r): {l.accept()} case default: {l.backup(); break}}}; l.emit(DURATIONLITERAL); return lexProg" ∧
    Lex.lexQuotedString = "l.skip(); Loop: for  {switch l.next() {case '\\\\': {l.skip(); if r := l.next(); r != eof && r != '\\n' {if r != '\"' {l.text.WriteRune('\\\\')}; l.accept(); break}; fallthrough} case eof, '\\n': {return l.errorf(\"Unterminated quoted string: \\\"\\\\\\\"%s\\\"\", l.text.String())} case '\"': {l.skip(); break} case default: {l.accept()}}}; l.emit(STRING); return lexProg" ∧
    Lex.lexCapref = "l.skip(); Loop: for  {switch  {case isAlnum(r) || r == '_': {l.accept(); if !isDigit(r) {}} case default: {l.backup(); break}}}; if named {l.emit(CAPREF_NAMED)} else {l.emit(CAPREF)}; return lexProg" ∧
    Lex.lexIdentifier = "l.accept(); Loop: for  {switch  {case isAlnum(r) || r == '_': {l.accept()} case default: {l.backup(); break}}}; if r, ok := keywords[l.text.String()]; ok {l.emit(r)} else if r := sort.SearchStrings(builtins, l.text.String()); r >= 0 && r < len(builtins) && builtins[r] == l.text.String() {l.emit(BUILTIN)} else {l.emit(ID)}; return lexProg" ∧
    Lex.lexRegex = "defer func {l.InRegex = false}(); Loop: for  {switch l.next() {case '\\\\': {l.skip(); if r := l.next(); r != eof && r != '\\n' {if r != '/' {l.text.WriteRune('\\\\')}; l.accept(); break}; fallthrough} case eof, '\\n': {return l.errorf(\"Unterminated regular expression: \\\"/%s\\\"\", l.text.String())} case '/': {l.backup(); break} case default: {l.accept()}}}; l.emit(REGEX); return lexProg" ∧
    Lex.lexDecorator = "l.skip(); Loop: for  {switch  {case isAlnum(r) || r == '_': {l.accept()} case default: {l.backup(); break}}}; l.emit(DECO); return lexProg" ∧
    Lex.isAlpha = "return unicode.IsLetter(r)" ∧
    Lex.isAlnum = "return isAlpha(r) || isDigit(r)" ∧
    Lex.isDigit = "return unicode.IsDigit(r)" ∧
    Lex.isSpace = "return unicode.IsSpace(r)"
theorem lex_shape : LexShape :=
  ⟨rfl, rfl, rfl, rfl, rfl, rfl, rfl, rfl, rfl, rfl, rfl, rfl, rfl, rfl, rfl, rfl, rfl, rfl, rfl, rfl, rfl, rfl, rfl, rfl, rfl⟩

/-- F_mfmt_main -/
def F_mfmt_mainShape : Prop :=
    F_mfmt_main.f_main = "flag.Parse(); if *prog == \"\" {}; os.OpenFile(*prog, os.O_RDWR, 0); if err != nil {}; parser.Parse(*prog, f); if err != nil {}; checker.Check(ast, 0, 0); if err != nil {}; up.Unparse(ast); if *write {if err := f.Truncate(0); err != nil {}; if _, err := f.Seek(0, io.SeekStart); err != nil {}; if _, err := f.WriteString(out); err != nil {}} else {fmt.Print(out)}"
theorem f_mfmt_main_shape : F_mfmt_mainShape :=
  rfl

/-- F_exporter_collectd -/
def F_exporter_collectdShape : Prop :=
    F_exporter_collectd.f_metricToCollectd = "return fmt.Sprintf(collectdFormat, hostname, *collectdPrefix, m.Program, kindToCollectdType(m.Kind), formatLabels(m.Name, l.Labels, \"-\", \"-\", \"_\"), int64(interval.Seconds()), l.Datum.TimeString(), l.Datum.ValueString())" ∧
    F_exporter_collectd.f_kindToCollectdType = "if kind != metrics.Timer {return strings.ToLower(kind.String())}; return \"gauge\""
theorem f_exporter_collectd_shape : F_exporter_collectdShape :=
  ⟨rfl, rfl⟩

/-- F_exporter_export -/
def F_exporter_exportShape : Prop :=
    F_exporter_export.f_Hostname = "return func(e *Exporter) error { e.hostname = hostname return nil }" ∧
    F_exporter_export.f_OmitProgLabel = "return func(e *Exporter) error { e.omitProgLabel = true return nil }" ∧
    F_exporter_export.f_EmitTimestamp = "return func(e *Exporter) error { e.emitTimestamp = true return nil }" ∧
    F_exporter_export.f_PushInterval = "return func(e *Exporter) error { e.pushInterval = opt return nil }" ∧
    F_exporter_export.f_DisableExport = "return func(e *Exporter) error { e.exportDisabled = true return nil }" ∧
    F_exporter_export.f_New = "if store == nil {return nil, ErrNeedsStore}; e.ctx, e.cancelFunc = context.WithCancel(ctx); defer close(e.initDone); if err := e.SetOption(options...); err != nil {return nil, err}; if e.hostname == \"\" {e.hostname, err = os.Hostname(); if err != nil {return nil, errors.Wrap(err, \"getting hostname\")}}; if *collectdSocketPath != \"\" {e.RegisterPushExport(o)}; if *graphiteHostPort != \"\" {e.RegisterPushExport(o)}; if *statsdHostPort != \"\" {e.RegisterPushExport(o)}; e.StartMetricPush(); go {<-e.initDone; if !e.exportDisabled {<-e.ctx.Done()}; e.wg.Wait(); close(e.shutdownDone)}; return e, nil" ∧
    F_exporter_export.f_Exporter_Stop = "e.cancelFunc(); <-e.shutdownDone" ∧
    F_exporter_export.f_Exporter_SetOption = "for range options {if err := option(e); err != nil {return err}}; return nil" ∧
    F_exporter_export.f_formatLabels = "if len(m) > 0 {for range m {append(keys, k)}; sort.Strings(keys); for range keys {strings.ReplaceAll(strings.ReplaceAll(k, ksep, rep), sep, rep); strings.ReplaceAll(strings.ReplaceAll(m[k], ksep, rep), sep, rep); append(s, fmt.Sprintf(\"%s%s%s\", k1, ksep, v1))}; return r + sep + strings.Join(s, sep)}; return r" ∧
    F_exporter_export.f_Exporter_writeSocketMetrics = "return e.store.Range(func {m.RLock(); if m.Kind == metrics.Text {m.RUnlock(); return nil}; exportTotal.Add(1); make(chan *metrics.LabelSet); go m.EmitLabelSets(); for range lc {f(e.hostname, m, l, e.pushInterval); fmt.Fprint(c, line); if err == nil {exportSuccess.Add(1)} else {for range lc {}; m.RUnlock(); return errors.Errorf(\"write error: %s\", err)}}; m.RUnlock(); return nil})" ∧
    F_exporter_export.f_Exporter_PushMetrics = "for range e.pushTargets {net.DialTimeout(target.net, target.addr, *writeDeadline); if err != nil {continue}; conn.SetDeadline(time.Now().Add(*writeDeadline)); if err != nil {}; e.writeSocketMetrics(conn, target.f, target.total, target.success); if err != nil {}; conn.Close(); if err != nil {}}" ∧
    F_exporter_export.f_Exporter_StartMetricPush = "if e.exportDisabled {return }; if len(e.pushTargets) == 0 {return }; if e.pushInterval <= 0 {return }; e.wg.Add(1); go {defer e.wg.Done(); <-e.initDone; time.NewTicker(e.pushInterval); defer ticker.Stop(); for  {select {case <-e.ctx.Done(): {return } case <-ticker.C: {e.PushMetrics()}}}}" ∧
    F_exporter_export.f_Exporter_RegisterPushExport = "e.pushTargets = append(e.pushTargets, p)"
theorem f_exporter_export_shape : F_exporter_exportShape :=
  ⟨rfl, rfl, rfl, rfl, rfl, rfl, rfl, rfl, rfl, rfl, rfl, rfl, rfl⟩

/-- F_exporter_graphite -/
def F_exporter_graphiteShape : Prop :=
    F_exporter_graphite.f_Exporter_HandleGraphite = "w.Header().Add(\"Content-type\", \"text/plain\"); e.store.Range(func {select {case <-r.Context().Done(): {return r.Context().Err()} case default: {}}; m.RLock(); graphiteExportTotal.Add(1); make(chan *metrics.LabelSet); go m.EmitLabelSets(); for range lc {metricToGraphite(e.hostname, m, l, 0); fmt.Fprint(w, line)}; m.RUnlock(); return nil}); if err != nil {http.Error(w, fmt.Sprintf(\"%s\", err), http.StatusInternalServerError)}" ∧
    F_exporter_graphite.f_metricToGraphite = "if m.Kind == metrics.Histogram && m.Type == metrics.Buckets {datum.GetBuckets(d); for range buckets.GetBuckets() {if math.IsInf(r.Max, 1) {} else {fmt.Sprintf(\"%v\", r.Max)}; fmt.Fprintf(&b, \"%s%s.%s.bin_%s %v %v\\n\", *graphitePrefix, m.Program, formatLabels(m.Name, l.Labels, \".\", \".\", \"_\"), binName, c, l.Datum.TimeString())}; fmt.Fprintf(&b, \"%s%s.%s.count %v %v\\n\", *graphitePrefix, m.Program, formatLabels(m.Name, l.Labels, \".\", \".\", \"_\"), buckets.GetCount(), l.Datum.TimeString())}; fmt.Fprintf(&b, \"%s%s.%s %v %v\\n\", *graphitePrefix, m.Program, formatLabels(m.Name, l.Labels, \".\", \".\", \"_\"), l.Datum.ValueString(), l.Datum.TimeString()); return b.String()"
theorem f_exporter_graphite_shape : F_exporter_graphiteShape :=
  ⟨rfl, rfl⟩

/-- F_exporter_json -/
def F_exporter_jsonShape : Prop :=
    F_exporter_json.f_Exporter_HandleJSON = "json.MarshalIndent(e.store, \"\", \" \"); if err != nil {exportJSONErrors.Add(1); http.Error(w, err.Error(), http.StatusInternalServerError); return }; w.Header().Set(\"content-type\", \"application/json\"); if _, err := w.Write(b); err != nil {http.Error(w, err.Error(), http.StatusInternalServerError)}"
theorem f_exporter_json_shape : F_exporter_jsonShape :=
  rfl

/-- F_exporter_prometheus -/
def F_exporter_prometheusShape : Prop :=
    F_exporter_prometheus.f_noHyphens = "return strings.ReplaceAll(s, \"-\", \"_\")" ∧
    F_exporter_prometheus.f_Exporter_Describe = "prometheus.DescribeByCollect(e, c)" ∧
    F_exporter_prometheus.f_Exporter_Collect = "make(map[string]string); e.store.Range(func {m.RLock(); if m.Kind == metrics.Text {m.RUnlock(); return nil}; metricExportTotal.Add(1); make(chan *metrics.LabelSet); go m.EmitLabelSets(); for range lsc {if !ok {sources[noHyphens(m.Name)] = lastSource}; if !e.omitProgLabel {append(keys, \"prog\"); append(vals, m.Program)}; for range ls.Labels {append(keys, k); append(vals, v)}; if m.Kind == metrics.Histogram {prometheus.NewConstHistogram(prometheus.NewDesc(noHyphens(m.Name), fmt.Sprintf(\"defined at %s\", lastSource), keys, nil), datum.GetBucketsCount(ls.Datum), datum.GetBucketsSum(ls.Datum), datum.GetBucketsCumByMax(ls.Datum), vals)} else {prometheus.NewConstMetric(prometheus.NewDesc(noHyphens(m.Name), fmt.Sprintf(\"defined at %s\", lastSource), keys, nil), promTypeForKind(m.Kind), promValueForDatum(ls.Datum), vals)}; if err != nil {continue}; if e.emitTimestamp {c <-} else {c <-}}; m.RUnlock(); return nil})" ∧
    F_exporter_prometheus.f_Exporter_Write = "prometheus.NewRegistry(); reg.Register(e); if err != nil {return err}; reg.Gather(); if err != nil {return err}; expfmt.NewEncoder(w, expfmt.NewFormat(expfmt.TypeTextPlain)); for range mfs {enc.Encode(mf); if err != nil {return err}}; return nil" ∧
    F_exporter_prometheus.f_promTypeForKind = "switch k {case metrics.Counter: {return prometheus.CounterValue} case metrics.Gauge: {return prometheus.GaugeValue} case metrics.Timer: {return prometheus.GaugeValue}}; return prometheus.UntypedValue" ∧
    F_exporter_prometheus.f_promValueForDatum = "switch n := d.(type) {case *datum.Int: {return float64(n.Get())} case *datum.Float: {return n.Get()}}; return 0."
theorem f_exporter_prometheus_shape : F_exporter_prometheusShape :=
  ⟨rfl, rfl, rfl, rfl, rfl, rfl⟩

/-- F_exporter_statsd -/
def F_exporter_statsdShape : Prop :=
    F_exporter_statsd.f_metricToStatsd = "switch m.Kind {case metrics.Counter: {} case metrics.Gauge: {} case metrics.Timer: {}}; return fmt.Sprintf(\"%s%s.%s:%s|%s\", *statsdPrefix, m.Program, formatLabels(m.Name, l.Labels, \".\", \".\", \"_\"), l.Datum.ValueString(), t)"
theorem f_exporter_statsd_shape : F_exporter_statsdShape :=
  rfl

/-- F_exporter_varz -/
def F_exporter_varzShape : Prop :=
    F_exporter_varz.f_Exporter_HandleVarz = "w.Header().Add(\"Content-type\", \"text/plain\"); e.store.Range(func {select {case <-r.Context().Done(): {return r.Context().Err()} case default: {}}; m.RLock(); exportVarzTotal.Add(1); make(chan *metrics.LabelSet); go m.EmitLabelSets(); for range lc {metricToVarz(m, l, e.omitProgLabel, e.hostname); fmt.Fprint(w, line)}; m.RUnlock(); return nil}); if err != nil {http.Error(w, fmt.Sprintf(\"%s\", err), http.StatusInternalServerError)}" ∧
    F_exporter_varz.f_metricToVarz = "make([]string, 0, len(l.Labels) + 2); for range l.Labels {append(s, fmt.Sprintf(\"%s=%s\", k, v))}; sort.Strings(s); if !omitProgLabel {append(s, fmt.Sprintf(\"prog=%s\", m.Program))}; append(s, fmt.Sprintf(\"instance=%s\", hostname)); return fmt.Sprintf(varzFormat, m.Name, strings.Join(s, \",\"), l.Datum.ValueString())"
theorem f_exporter_varz_shape : F_exporter_varzShape :=
  ⟨rfl, rfl⟩

/-- F_datum_buckets -/
def F_datum_bucketsShape : Prop :=
    F_datum_buckets.f_Range_Contains = "return r.Min < v && v <= r.Max" ∧
    F_datum_buckets.f_Buckets_ValueString = "return fmt.Sprintf(\"%g\", d.GetSum())" ∧
    F_datum_buckets.f_Buckets_Observe = "d.Lock(); defer d.Unlock(); for range d.Buckets {if v <= b.Range.Max || i == n {d.Buckets[i].Count++; break}}; d.Count++; d.Sum += v; d.stamp(ts)" ∧
    F_datum_buckets.f_Buckets_GetCount = "d.RLock(); defer d.RUnlock(); return d.Count" ∧
    F_datum_buckets.f_Buckets_GetSum = "d.RLock(); defer d.RUnlock(); return d.Sum" ∧
    F_datum_buckets.f_Buckets_AddBucket = "d.Lock(); defer d.Unlock(); d.Buckets = append(d.Buckets, BucketCount{r, 0})" ∧
    F_datum_buckets.f_Buckets_GetBuckets = "d.RLock(); defer d.RUnlock(); make(map[Range]uint64); for range d.Buckets {b[bc.Range] = bc.Count}; return b" ∧
    F_datum_buckets.f_Buckets_MarshalJSON = "d.RLock(); defer d.RUnlock(); make(map[string]uint64); for range d.Buckets {bs[strconv.FormatFloat(b.Range.Max, 'g', -1, 64)] = b.Count}; return json.Marshal(j)" ∧
    F_datum_buckets.f_Range_MarshalJSON = "return json.Marshal(j)"
theorem f_datum_buckets_shape : F_datum_bucketsShape :=
  ⟨rfl, rfl, rfl, rfl, rfl, rfl, rfl, rfl, rfl⟩

/-- F_datum_datum -/
def F_datum_datumShape : Prop :=
    F_datum_datum.f_BaseDatum_stamp = "if timestamp.IsZero() {atomic.StoreInt64(&d.Time, time.Now().UTC().UnixNano())} else {atomic.StoreInt64(&d.Time, timestamp.UnixNano())}" ∧
    F_datum_datum.f_BaseDatum_TimeString = "return fmt.Sprintf(\"%d\", atomic.LoadInt64(&d.Time)/1e9)" ∧
    F_datum_datum.f_BaseDatum_TimeUTC = "atomic.LoadInt64(&d.Time); return time.Unix(tNsec/1e9, tNsec%1e9)" ∧
    F_datum_datum.f_NewInt = "return MakeInt(0, zeroTime)" ∧
    F_datum_datum.f_NewFloat = "return MakeFloat(0., zeroTime)" ∧
    F_datum_datum.f_NewString = "return MakeString(\"\", zeroTime)" ∧
    F_datum_datum.f_NewBuckets = "return MakeBuckets(buckets, zeroTime)" ∧
    F_datum_datum.f_MakeInt = "d.Set(v, ts); return d" ∧
    F_datum_datum.f_MakeFloat = "d.Set(v, ts); return d" ∧
    F_datum_datum.f_MakeString = "d.Set(v, ts); return d" ∧
    F_datum_datum.f_MakeBuckets = "for range buckets {d.AddBucket(b); if math.IsInf(b.Max, +1) {} else if b.Max > highest {}}; if !seenInf {d.AddBucket(Range{highest, math.Inf(+1)})}; return d" ∧
    F_datum_datum.f_GetInt = "switch d := d.(type) {case *Int: {return d.Get()} case default: {panic(fmt.Sprintf(\"datum %v is not an Int\", d))}}" ∧
    F_datum_datum.f_GetFloat = "switch d := d.(type) {case *Float: {return d.Get()} case default: {panic(fmt.Sprintf(\"datum %v is not a Float\", d))}}" ∧
    F_datum_datum.f_GetString = "switch d := d.(type) {case *String: {return d.Get()} case default: {panic(fmt.Sprintf(\"datum %v is not a String\", d))}}" ∧
    F_datum_datum.f_SetInt = "switch d := d.(type) {case *Int: {d.Set(v, ts)} case *Buckets: {d.Observe(float64(v), ts)} case default: {panic(fmt.Sprintf(\"datum %v is not an Int\", d))}}" ∧
    F_datum_datum.f_SetFloat = "switch d := d.(type) {case *Float: {d.Set(v, ts)} case *Buckets: {d.Observe(v, ts)} case default: {panic(fmt.Sprintf(\"datum %v is not a Float\", d))}}" ∧
    F_datum_datum.f_SetString = "switch d := d.(type) {case *String: {d.Set(v, ts)} case default: {panic(fmt.Sprintf(\"datum %v is not a String\", d))}}" ∧
    F_datum_datum.f_IncIntBy = "switch d := d.(type) {case *Int: {d.IncBy(v, ts)} case default: {panic(fmt.Sprintf(\"datum %v is not an Int\", d))}}" ∧
    F_datum_datum.f_DecIntBy = "switch d := d.(type) {case *Int: {d.DecBy(v, ts)} case default: {panic(fmt.Sprintf(\"datum %v is not an Int\", d))}}" ∧
    F_datum_datum.f_GetBuckets = "switch d := d.(type) {case *Buckets: {return d} case default: {panic(fmt.Sprintf(\"datum %v is not a Buckets\", d))}}" ∧
    F_datum_datum.f_Observe = "switch d := d.(type) {case *Buckets: {d.Observe(v, ts)} case default: {panic(fmt.Sprintf(\"datum %v is not a Buckets\", d))}}" ∧
    F_datum_datum.f_GetBucketsCount = "switch d := d.(type) {case *Buckets: {return d.GetCount()} case default: {panic(fmt.Sprintf(\"datum %v is not a Buckets\", d))}}" ∧
    F_datum_datum.f_GetBucketsSum = "switch d := d.(type) {case *Buckets: {return d.GetSum()} case default: {panic(fmt.Sprintf(\"datum %v is not a Buckets\", d))}}" ∧
    F_datum_datum.f_GetBucketsCumByMax = "switch d := d.(type) {case *Buckets: {make(map[float64]uint64); make([]float64, 0); for range d.GetBuckets() {append(maxes, r.Max); buckets[r.Max] = c}; sort.Float64s(maxes); uint64(0); for range maxes {buckets[m] = cum}; return buckets} case default: {panic(fmt.Sprintf(\"datum %v is not a Buckets\", d))}}"
theorem f_datum_datum_shape : F_datum_datumShape :=
  ⟨rfl, rfl, rfl, rfl, rfl, rfl, rfl, rfl, rfl, rfl, rfl, rfl, rfl, rfl, rfl, rfl, rfl, rfl, rfl, rfl, rfl, rfl, rfl, rfl⟩

/-- F_datum_float -/
def F_datum_floatShape : Prop :=
    F_datum_float.f_Float_ValueString = "return fmt.Sprintf(\"%g\", d.Get())" ∧
    F_datum_float.f_Float_Set = "atomic.StoreUint64(&d.Valuebits, math.Float64bits(v)); d.stamp(ts)" ∧
    F_datum_float.f_Float_Get = "return math.Float64frombits(atomic.LoadUint64(&d.Valuebits))" ∧
    F_datum_float.f_Float_MarshalJSON = "return json.Marshal(j)"
theorem f_datum_float_shape : F_datum_floatShape :=
  ⟨rfl, rfl, rfl, rfl⟩

/-- F_datum_int -/
def F_datum_intShape : Prop :=
    F_datum_int.f_Int_Set = "atomic.StoreInt64(&d.Value, value); d.stamp(timestamp)" ∧
    F_datum_int.f_Int_IncBy = "atomic.AddInt64(&d.Value, delta); d.stamp(timestamp)" ∧
    F_datum_int.f_Int_DecBy = "atomic.AddInt64(&d.Value, -delta); d.stamp(timestamp)" ∧
    F_datum_int.f_Int_Get = "return atomic.LoadInt64(&d.Value)" ∧
    F_datum_int.f_Int_ValueString = "return fmt.Sprintf(\"%d\", atomic.LoadInt64(&d.Value))" ∧
    F_datum_int.f_Int_MarshalJSON = "return json.Marshal(j)"
theorem f_datum_int_shape : F_datum_intShape :=
  ⟨rfl, rfl, rfl, rfl, rfl, rfl⟩

/-- F_datum_string -/
def F_datum_stringShape : Prop :=
    F_datum_string.f_String_Set = "d.mu.Lock(); d.Value = value; d.stamp(timestamp); d.mu.Unlock()" ∧
    F_datum_string.f_String_Get = "d.mu.RLock(); defer d.mu.RUnlock(); return d.Value" ∧
    F_datum_string.f_String_ValueString = "return d.Get()" ∧
    F_datum_string.f_String_MarshalJSON = "return json.Marshal(j)"
theorem f_datum_string_shape : F_datum_stringShape :=
  ⟨rfl, rfl, rfl, rfl⟩

/-- F_metrics_metric -/
def F_metrics_metricShape : Prop :=
    F_metrics_metric.f_Kind_String = "switch m {case Counter: {return \"Counter\"} case Gauge: {return \"Gauge\"} case Timer: {return \"Timer\"} case Text: {return \"Text\"} case Histogram: {return \"Histogram\"}}; return \"Unknown\"" ∧
    F_metrics_metric.f_Kind_Generate = "return reflect.ValueOf(Kind(rand.Intn(int(endKind))))" ∧
    F_metrics_metric.f_NewMetric = "newMetric(len(keys)); m.Name = name; m.Program = prog; m.Kind = kind; m.Type = typ; copy(m.Keys, keys); return m" ∧
    F_metrics_metric.f_newMetric = "return &Metric{ Keys: make([]string, keyLen), LabelValues: make([]*LabelValue, 0), labelValuesMap: make(map[string]*LabelValue), }" ∧
    F_metrics_metric.f_buildLabelValueKey = "for i := 0; i < len(labels); i++ {strings.ReplaceAll(labels[i], \"\\\\\", \"\\\\\\\\\"); strings.ReplaceAll(rs, \"-\", \"\\\\-\"); buf.WriteString(rs); buf.WriteString(\"-\")}; return buf.String()" ∧
    F_metrics_metric.f_Metric_AppendLabelValue = "if len(lv.Labels) != len(m.Keys) {return errors.Errorf(\"Label values requested (%q) not same length as keys for metric %v\", lv.Labels, m)}; m.LabelValues = append(m.LabelValues, lv); buildLabelValueKey(lv.Labels); m.labelValuesMap[k] = lv; return nil" ∧
    F_metrics_metric.f_Metric_FindLabelValueOrNil = "buildLabelValueKey(labelvalues); if ok {return lv}; return nil" ∧
    F_metrics_metric.f_Metric_GetDatum = "if len(labelvalues) != len(m.Keys) {return nil, errors.Errorf(\"Label values requested (%q) not same length as keys for metric %v\", labelvalues, m)}; m.Lock(); defer m.Unlock(); if lv := m.FindLabelValueOrNil(labelvalues); lv != nil {} else {switch m.Type {case Int: {datum.NewInt()} case Float: {datum.NewFloat()} case String: {datum.NewString()} case Buckets: {if buckets == nil {make([]datum.Range, 0)}; datum.NewBuckets(buckets)}}; if err := m.AppendLabelValue(lv); err != nil {return nil, err}}; return d, nil" ∧
    F_metrics_metric.f_Metric_RemoveOldestDatum = "m.Lock(); defer m.Unlock(); m.removeOldestDatum()" ∧
    F_metrics_metric.f_Metric_removeOldestDatum = "for range m.LabelValues {if oldestLV == nil || lv.Value.TimeUTC().Before(oldestLV.Value.TimeUTC()) {}}; if oldestLV != nil {m.removeDatum(oldestLV.Labels)}" ∧
    F_metrics_metric.f_Metric_RemoveDatum = "if len(labelvalues) != len(m.Keys) {return errors.Errorf(\"Label values requested (%q) not same length as keys for metric %v\", labelvalues, m)}; m.Lock(); defer m.Unlock(); m.removeDatum(labelvalues); return nil" ∧
    F_metrics_metric.f_Metric_removeDatum = "buildLabelValueKey(labelvalues); if ok {for i := 0; i < len(m.LabelValues); i++ {if lv == olv {m.LabelValues = append(m.LabelValues[:i], m.LabelValues[i+1:]...); delete(m.labelValuesMap, k); break}}}" ∧
    F_metrics_metric.f_Metric_ExpireDatum = "if len(labelvalues) != len(m.Keys) {return errors.Errorf(\"Label values requested (%q) not same length as keys for metric %v\", labelvalues, m)}; m.Lock(); defer m.Unlock(); if lv := m.FindLabelValueOrNil(labelvalues); lv != nil {lv.Expiry = expiry; return nil}; return errors.Errorf(\"No datum for given labelvalues %q\", labelvalues)" ∧
    F_metrics_metric.f_zip = "make(map[string]string); for range values {r[keys[i]] = v}; return r" ∧
    F_metrics_metric.f_Metric_EmitLabelSets = "for range m.LabelValues {c <-}; close(c)" ∧
    F_metrics_metric.f_LabelValue_UnmarshalJSON = "json.Unmarshal(b, &obj); if err != nil {return err}; make([]string, 0); if _, ok := obj[\"Labels\"]; ok {json.Unmarshal(*obj[\"Labels\"], &labels); if err != nil {return err}}; lv.Labels = labels; json.Unmarshal(*obj[\"Value\"], &valObj); if err != nil {return err}; json.Unmarshal(*valObj[\"Time\"], &t); if err != nil {return err}; json.Unmarshal(*valObj[\"Value\"], &i); if err != nil {return err}; lv.Value = datum.MakeInt(i, time.Unix(t/1e9, t%1e9)); return nil" ∧
    F_metrics_metric.f_Metric_String = "m.RLock(); defer m.RUnlock(); return fmt.Sprintf(\"Metric: name=%s program=%s kind=%v type=%s hidden=%v keys=%v labelvalues=%v source=%s buckets=%v\", m.Name, m.Program, m.Kind, m.Type, m.Hidden, m.Keys, m.LabelValues, m.Source, m.Buckets)" ∧
    F_metrics_metric.f_Metric_SetSource = "m.Lock(); defer m.Unlock(); m.Source = source"
theorem f_metrics_metric_shape : F_metrics_metricShape :=
  ⟨rfl, rfl, rfl, rfl, rfl, rfl, rfl, rfl, rfl, rfl, rfl, rfl, rfl, rfl, rfl, rfl, rfl, rfl⟩

/-- F_metrics_store -/
def F_metrics_storeShape : Prop :=
    F_metrics_store.f_NewStore = "s.ClearMetrics(); return " ∧
    F_metrics_store.f_Store_Add = "s.insertMu.Lock(); defer s.insertMu.Unlock(); s.searchMu.RLock(); if len(s.Metrics[m.Name]) > 0 {if m.Kind != t {s.searchMu.RUnlock(); return errors.Errorf(\"metric %s has different kind %v to existing %v\", m.Name, m.Kind, t)}; for range s.Metrics[m.Name] {if v.Program != m.Program {continue}; if v.Type != m.Type {continue}; if v.Source != m.Source {continue}; if len(v.Keys) != len(m.Keys) || !reflect.DeepEqual(v.Keys, m.Keys) {break}; if !reflect.DeepEqual(v.Buckets, m.Buckets) {break}; v.RLock(); make([]*LabelValue, len(v.LabelValues)); for range v.LabelValues {oldLabelValues[j] = &LabelValue{Labels: oldLabel.Labels, Value: oldLabel.Value, Expiry: oldLabel.Expiry}}; v.RUnlock(); for range oldLabelValues {if err := m.RemoveDatum(lv.Labels...); err != nil {return err}; if err := m.AppendLabelValue(lv); err != nil {return err}}}}; s.searchMu.RUnlock(); s.searchMu.Lock(); s.Metrics[m.Name] = append(s.Metrics[m.Name], m); if dupeIndex >= 0 {s.Metrics[m.Name] = append(s.Metrics[m.Name][0:dupeIndex], s.Metrics[m.Name][dupeIndex+1:]...)}; s.searchMu.Unlock(); return nil" ∧
    F_metrics_store.f_Store_FindMetricOrNil = "s.searchMu.RLock(); defer s.searchMu.RUnlock(); if !ok {return nil}; for range ml {if m.Program != prog {continue}; return m}; return nil" ∧
    F_metrics_store.f_Store_ClearMetrics = "s.insertMu.Lock(); defer s.insertMu.Unlock(); s.searchMu.Lock(); defer s.searchMu.Unlock(); s.Metrics = make(map[string][]*Metric)" ∧
    F_metrics_store.f_Store_MarshalJSON = "s.searchMu.RLock(); defer s.searchMu.RUnlock(); make([]*Metric, 0); for range s.Metrics {append(ms, ml)}; for range ms {m.RLock()}; defer func {for range ms {m.RUnlock()}}(); return json.Marshal(ms)" ∧
    F_metrics_store.f_Store_Range = "s.searchMu.RLock(); defer s.searchMu.RUnlock(); for range s.Metrics {for range ml {if err := f(m); err != nil {return err}}}; return nil" ∧
    F_metrics_store.f_Store_Gc = "time.Now(); return s.Range(func {m.Lock(); defer m.Unlock(); if m.Limit > 0 && len(m.LabelValues) >= m.Limit {for i := len(m.LabelValues); i > m.Limit; i-- {m.removeOldestDatum()}}; for i := 0; i < len(m.LabelValues); i++ {if lv.Expiry <= 0 {continue}; if now.Sub(lv.Value.TimeUTC()) > lv.Expiry {m.removeDatum(lv.Labels)}}; return nil})" ∧
    F_metrics_store.f_Store_StartGcLoop = "if duration <= 0 {return }; go {time.NewTicker(duration); defer ticker.Stop(); for  {select {case <-ticker.C: {if err := s.Gc(); err != nil {}} case <-ctx.Done(): {return }}}}" ∧
    F_metrics_store.f_Store_WriteMetrics = "s.searchMu.RLock(); json.MarshalIndent(s.Metrics, \"\", \" \"); s.searchMu.RUnlock(); if err != nil {return errors.Wrap(err, \"failed to marshal metrics into json\")}; w.Write(b); if err != nil {return errors.Wrap(err, \"failed to write metrics\")}; return nil"
theorem f_metrics_store_shape : F_metrics_storeShape :=
  ⟨rfl, rfl, rfl, rfl, rfl, rfl, rfl, rfl, rfl⟩

/-- F_mtail_mtail -/
def F_mtail_mtailShape : Prop :=
    F_mtail_mtail.f_Server_initRuntime = "m.r, err = runtime.New(m.lines, &m.wg, m.programPath, m.store, m.rOpts...); return " ∧
    F_mtail_mtail.f_Server_initExporter = "m.e, err = exporter.New(m.ctx, m.store, m.eOpts...); if err != nil {return err}; m.reg.MustRegister(m.e); buildInfoOnce.Do(func {version.Branch = m.buildInfo.Branch; version.Version = m.buildInfo.Version; version.Revision = m.buildInfo.Revision}); m.reg.MustRegister(vc.NewCollector(\"mtail\")); return nil" ∧
    F_mtail_mtail.f_Server_initTailer = "m.t, err = tailer.New(m.ctx, &m.wg, m.lines, m.tOpts...); return " ∧
    F_mtail_mtail.f_Server_initHTTPServer = "make(chan struct{}); defer close(initDone); if m.listener == nil {return nil}; http.NewServeMux(); if m.httpDebugEndpoints {mux.Handle(\"/debug/vars\", expvar.Handler()); mux.HandleFunc(\"/debug/pprof/\", pprof.Index); mux.HandleFunc(\"/debug/pprof/cmdline\", pprof.Cmdline); mux.HandleFunc(\"/debug/pprof/profile\", pprof.Profile); mux.HandleFunc(\"/debug/pprof/symbol\", pprof.Symbol); mux.HandleFunc(\"/debug/pprof/trace\", pprof.Trace)}; if m.httpInfoEndpoints {mux.HandleFunc(\"/favicon.ico\", FaviconHandler); mux.HandleFunc(\"/varz\", http.HandlerFunc(m.e.HandleVarz)); mux.Handle(\"/progz\", http.HandlerFunc(m.r.ProgzHandler))}; mux.Handle(\"/\", m); mux.Handle(\"/metrics\", promhttp.HandlerFor(m.reg, promhttp.HandlerOpts{})); mux.HandleFunc(\"/json\", http.HandlerFunc(m.e.HandleJSON)); mux.HandleFunc(\"/graphite\", http.HandlerFunc(m.e.HandleGraphite)); zpages.Handle(mux, \"/\"); make(chan error, 1); wg.Add(1); go {defer wg.Done(); <-initDone; if err := srv.Serve(m.listener); err != nil && !errors.Is(err, http.ErrServerClosed) {errc <-}}; go {<-initDone; select {case err := <-errc: {} case <-m.ctx.Done(): {context.WithTimeout(context.Background(), 5 * time.Second); defer cancel(); srv.SetKeepAlivesEnabled(false); if err := srv.Shutdown(ctx); err != nil {}}}; wg.Wait()}; return nil" ∧
    F_mtail_mtail.f_New = "m.ctx, m.cancel = context.WithCancel(ctx); m.rOpts = append(m.rOpts, runtime.PrometheusRegisterer(m.reg)); m.reg.MustRegister(collectors.NewGoCollector(), collectors.NewProcessCollector(collectors.ProcessCollectorOpts{})); prometheus.WrapRegistererWithPrefix(\"mtail_\", m.reg).MustRegister(collectors.NewExpvarCollector(expvarDescs)); if err := m.SetOption(options...); err != nil {return nil, err}; if err := m.initExporter(); err != nil {return nil, err}; if err := m.initRuntime(); err != nil {return nil, err}; if err := m.initTailer(); err != nil {return nil, err}; if err := m.initHTTPServer(); err != nil {return nil, err}; return m, nil" ∧
    F_mtail_mtail.f_Server_SetOption = "for range options {if err := option.apply(m); err != nil {return err}}; return nil" ∧
    F_mtail_mtail.f_Server_Run = "m.wg.Wait(); m.cancel(); if m.compileOnly {return nil}; return nil"
theorem f_mtail_mtail_shape : F_mtail_mtailShape :=
  ⟨rfl, rfl, rfl, rfl, rfl, rfl, rfl⟩

/-- F_ast_ast -/
def F_ast_astShape : Prop :=
    F_ast_ast.f_StmtList_Pos = "return mergepositionlist(n.Children)" ∧
    F_ast_ast.f_StmtList_Type = "return types.None" ∧
    F_ast_ast.f_ExprList_Pos = "return mergepositionlist(n.Children)" ∧
    F_ast_ast.f_ExprList_Type = "n.typMu.RLock(); defer n.typMu.RUnlock(); return n.typ" ∧
    F_ast_ast.f_ExprList_SetType = "n.typMu.Lock(); defer n.typMu.Unlock(); n.typ = t" ∧
    F_ast_ast.f_CondStmt_Pos = "return mergepositionlist([]Node{n.Cond, n.Truth, n.Else})" ∧
    F_ast_ast.f_CondStmt_Type = "return types.None" ∧
    F_ast_ast.f_IDTerm_Pos = "return &n.P" ∧
    F_ast_ast.f_IDTerm_Type = "if n.Symbol != nil {return n.Symbol.Type}; return types.Error" ∧
    F_ast_ast.f_CaprefTerm_Pos = "return &n.P" ∧
    F_ast_ast.f_CaprefTerm_Type = "if n.Symbol != nil {return n.Symbol.Type}; return types.Error" ∧
    F_ast_ast.f_BuiltinExpr_Pos = "return &n.P" ∧
    F_ast_ast.f_BuiltinExpr_Type = "n.typMu.RLock(); defer n.typMu.RUnlock(); return n.typ" ∧
    F_ast_ast.f_BuiltinExpr_SetType = "n.typMu.Lock(); defer n.typMu.Unlock(); n.typ = t" ∧
    F_ast_ast.f_BinaryExpr_Pos = "return position.Merge(n.LHS.Pos(), n.RHS.Pos())" ∧
    F_ast_ast.f_BinaryExpr_Type = "n.typMu.RLock(); defer n.typMu.RUnlock(); return n.typ" ∧
    F_ast_ast.f_BinaryExpr_SetType = "n.typMu.Lock(); defer n.typMu.Unlock(); n.typ = t" ∧
    F_ast_ast.f_UnaryExpr_Pos = "return position.Merge(&n.P, n.Expr.Pos())" ∧
    F_ast_ast.f_UnaryExpr_Type = "n.typMu.RLock(); defer n.typMu.RUnlock(); return n.typ" ∧
    F_ast_ast.f_UnaryExpr_SetType = "n.typMu.Lock(); defer n.typMu.Unlock(); n.typ = t" ∧
    F_ast_ast.f_IndexedExpr_Pos = "return position.Merge(n.LHS.Pos(), n.Index.Pos())" ∧
    F_ast_ast.f_IndexedExpr_Type = "n.typMu.RLock(); defer n.typMu.RUnlock(); return n.typ" ∧
    F_ast_ast.f_IndexedExpr_SetType = "n.typMu.Lock(); defer n.typMu.Unlock(); n.typ = t" ∧
    F_ast_ast.f_VarDecl_Pos = "return &n.P" ∧
    F_ast_ast.f_VarDecl_Type = "if n.Kind == metrics.Histogram {return types.Buckets} else if n.Symbol != nil {return n.Symbol.Type}; return types.Error" ∧
    F_ast_ast.f_StringLit_Pos = "return &n.P" ∧
    F_ast_ast.f_StringLit_Type = "return types.String" ∧
    F_ast_ast.f_IntLit_Pos = "return &n.P" ∧
    F_ast_ast.f_IntLit_Type = "return types.Int" ∧
    F_ast_ast.f_FloatLit_Pos = "return &n.P" ∧
    F_ast_ast.f_FloatLit_Type = "return types.Float" ∧
    F_ast_ast.f_PatternExpr_Pos = "return n.Expr.Pos()" ∧
    F_ast_ast.f_PatternExpr_Type = "return types.Pattern" ∧
    F_ast_ast.f_PatternLit_Pos = "return &n.P" ∧
    F_ast_ast.f_PatternLit_Type = "return types.Pattern" ∧
    F_ast_ast.f_PatternFragment_Pos = "return n.ID.Pos()" ∧
    F_ast_ast.f_PatternFragment_Type = "return types.Pattern" ∧
    F_ast_ast.f_DecoDecl_Pos = "return position.Merge(&n.P, n.Block.Pos())" ∧
    F_ast_ast.f_DecoDecl_Type = "if n.Symbol != nil {return n.Symbol.Type}; return types.Int" ∧
    F_ast_ast.f_DecoStmt_Pos = "return position.Merge(&n.P, n.Block.Pos())" ∧
    F_ast_ast.f_DecoStmt_Type = "return types.None" ∧
    F_ast_ast.f_NextStmt_Pos = "return &n.P" ∧
    F_ast_ast.f_NextStmt_Type = "return types.None" ∧
    F_ast_ast.f_OtherwiseStmt_Pos = "return &n.P" ∧
    F_ast_ast.f_OtherwiseStmt_Type = "return types.None" ∧
    F_ast_ast.f_DelStmt_Pos = "return &n.P" ∧
    F_ast_ast.f_DelStmt_Type = "return types.None" ∧
    F_ast_ast.f_ConvExpr_Pos = "return n.N.Pos()" ∧
    F_ast_ast.f_ConvExpr_Type = "n.mu.RLock(); defer n.mu.RUnlock(); return n.typ" ∧
    F_ast_ast.f_ConvExpr_SetType = "n.mu.Lock(); defer n.mu.Unlock(); n.typ = t" ∧
    F_ast_ast.f_Error_Pos = "return &n.P" ∧
    F_ast_ast.f_Error_Type = "return types.Error" ∧
    F_ast_ast.f_StopStmt_Pos = "return &n.P" ∧
    F_ast_ast.f_StopStmt_Type = "return types.None" ∧
    F_ast_ast.f_mergepositionlist = "switch len(l) {case 0: {return nil} case 1: {if l[0] == nil {return nil}; return l[0].Pos()} case default: {return position.Merge(l[0].Pos(), mergepositionlist(l[1:]))}}"
theorem f_ast_ast_shape : F_ast_astShape :=
  ⟨rfl, rfl, rfl, rfl, rfl, rfl, rfl, rfl, rfl, rfl, rfl, rfl, rfl, rfl, rfl, rfl, rfl, rfl, rfl, rfl, rfl, rfl, rfl, rfl, rfl, rfl, rfl, rfl, rfl, rfl, rfl, rfl, rfl, rfl, rfl, rfl, rfl, rfl, rfl, rfl, rfl, rfl, rfl, rfl, rfl, rfl, rfl, rfl, rfl, rfl, rfl, rfl, rfl, rfl, rfl⟩

/-- F_ast_walk -/
def F_ast_walkShape : Prop :=
    F_ast_walk.f_walknodelist = "make([]Node, 0, len(list)); for range list {append(r, Walk(v, x))}; return r" ∧
    F_ast_walk.f_Walk = "if v, node = v.VisitBefore(node); v == nil {return node}; switch n := node.(type) {case *StmtList: {n.Children = walknodelist(v, n.Children)} case *ExprList: {n.Children = walknodelist(v, n.Children)} case *CondStmt: {if n.Cond != nil {n.Cond = Walk(v, n.Cond)}; n.Truth = Walk(v, n.Truth); if n.Else != nil {n.Else = Walk(v, n.Else)}} case *BuiltinExpr: {if n.Args != nil {n.Args = Walk(v, n.Args)}} case *BinaryExpr: {n.LHS = Walk(v, n.LHS); n.RHS = Walk(v, n.RHS)} case *UnaryExpr: {n.Expr = Walk(v, n.Expr)} case *IndexedExpr: {n.Index = Walk(v, n.Index); n.LHS = Walk(v, n.LHS)} case *DecoDecl: {n.Block = Walk(v, n.Block)} case *DecoStmt: {n.Block = Walk(v, n.Block)} case *ConvExpr: {n.N = Walk(v, n.N)} case *PatternExpr: {n.Expr = Walk(v, n.Expr)} case *PatternFragment: {n.Expr = Walk(v, n.Expr)} case *IDTerm, *CaprefTerm, *VarDecl, *StringLit, *IntLit, *FloatLit, *PatternLit, *NextStmt, *OtherwiseStmt, *DelStmt, *StopStmt: {} case default: {panic(fmt.Sprintf(\"Walk: unexpected node type %T: %v\", n, n))}}; v.VisitAfter(node); return node"
theorem f_ast_walk_shape : F_ast_walkShape :=
  ⟨rfl, rfl⟩

/-- F_position_position -/
def F_position_positionShape : Prop :=
    F_position_position.f_Position_String = "fmt.Sprintf(\"%s:%d:%d\", p.Filename, p.Line + 1, p.Startcol + 1); if p.Endcol > p.Startcol {fmt.Sprintf(\"-%d\", p.Endcol + 1)}; return r" ∧
    F_position_position.f_Merge = "if a == nil {return b}; if b == nil {return a}; if a.Filename != b.Filename {return a}; if a.Line != b.Line {return a}; if b.Startcol < r.Startcol {r.Startcol = b.Startcol}; if b.Endcol > r.Endcol {r.Endcol = b.Endcol}; return &r"
theorem f_position_position_shape : F_position_positionShape :=
  ⟨rfl, rfl⟩

/-- F_checker_checker -/
def F_checker_checkerShape : Prop :=
    F_checker_checker.f_Check = "if maxRegexpLength == 0 {}; if maxRecursionDepth == 0 {}; ast.Walk(c, node); if len(c.errors) == 0 && len(c.histograms) > 0 {ast.Walk(&histogramReads{c}, node)}; if len(c.errors) > 0 {return node, c.errors}; return node, nil" ∧
    F_checker_checker.f_checker_checkSymbolTable = "for range c.scope.Symbols {if !sym.Used {if sym.Kind == symbol.CaprefSymbol {if sym.Addr == 0 {continue}; continue}; c.errors.Add(sym.Pos, fmt.Sprintf(\"Declaration of %s `%s' here is never used.\", sym.Kind, sym.Name))}}" ∧
    F_checker_checker.f_checker_isHistogram = "if ie, ok := e.(*ast.IndexedExpr); ok {}; if !ok || id.Symbol == nil {return false}; return ok" ∧
    F_checker_checker.f_checker_checkRegex = "len(pattern); if plen > c.maxRegexLength {c.errors.Add(n.Pos(), fmt.Sprintf(\"Exceeded maximum regular expression pattern length of %d bytes with %d.\\n\\tExcessively long patterns are likely to cause compilation and runtime performance problems.\", c.maxRegexLength, plen)); return }; if reAst, err := types.ParseRegexp(pattern); err == nil {if c.noRegexSymbols {return }; for range reAst.CapNames() {symbol.NewSymbol(fmt.Sprintf(\"%d\", i), symbol.CaprefSymbol, n.Pos()); sym.Type = types.InferCaprefType(reAst, i); sym.Binding = n; sym.Addr = i; if alt := c.scope.Insert(sym); alt != nil {c.errors.Add(n.Pos(), fmt.Sprintf(\"Redeclaration of capture group `%s' previously declared at %s\", sym.Name, alt.Pos))}; if capref != \"\" {sym.Name = capref; if alt := c.scope.InsertAlias(sym, capref); alt != nil {c.errors.Add(n.Pos(), fmt.Sprintf(\"Redeclaration of capture group `%s' previously declared at %s\", sym.Name, alt.Pos))}}}} else {c.errors.Add(n.Pos(), err.Error()); return }"
theorem f_checker_checker_shape : F_checker_checkerShape :=
  ⟨rfl, rfl, rfl, rfl⟩

/-- F_codegen_codegen -/
def F_codegen_codegenShape : Prop :=
    F_codegen_codegen.f_CodeGen = "ast.Walk(c, n); c.writeJumps(); if len(c.errors) > 0 {return nil, c.errors}; return &c.obj, nil" ∧
    F_codegen_codegen.f_codegen_errorf = "c.errors.Add(pos, e)" ∧
    F_codegen_codegen.f_codegen_emit = "c.obj.Program = append(c.obj.Program, code.Instr{opcode, operand, n.Pos().Line})" ∧
    F_codegen_codegen.f_codegen_newLabel = "len(c.l); c.l = append(c.l, -1); return " ∧
    F_codegen_codegen.f_codegen_setLabel = "c.l[l] = c.pc() + 1" ∧
    F_codegen_codegen.f_codegen_pc = "return len(c.obj.Program) - 1" ∧
    F_codegen_codegen.f_getOpcodeForType = "if !ok {return -1, errors.Errorf(\"no typed operator for type %v\", op)}; for range opmap {if types.Equals(t, opT) {return opcode, nil}}; return -1, errors.Errorf(\"no opcode for type %s in op %v\", opT, op)" ∧
    F_codegen_codegen.f_codegen_emitConversion = "switch  {case types.Equals(types.Int, inType) && types.Equals(types.Float, outType): {c.emit(n, code.I2f, nil)} case types.Equals(types.String, inType) && types.Equals(types.Float, outType): {c.emit(n, code.S2f, nil)} case types.Equals(types.String, inType) && types.Equals(types.Int, outType): {c.emit(n, code.S2i, nil)} case types.Equals(types.Float, inType) && types.Equals(types.String, outType): {c.emit(n, code.F2s, nil)} case types.Equals(types.Int, inType) && types.Equals(types.String, outType): {c.emit(n, code.I2s, nil)} case types.Equals(types.Pattern, inType) && types.Equals(types.Bool, outType): {} case types.Equals(inType, outType): {} case default: {return errors.Errorf(\"can't convert %q to %q\", inType, outType)}}; return nil" ∧
    F_codegen_codegen.f_codegen_writeJumps = "for range c.obj.Program {switch i.Opcode {case code.Jmp, code.Jm, code.Jnm: {if index > len(c.l) {c.errorf(nil, \"no jump at label %v, table is %v\", i.Operand, c.l); continue}; if offset < 0 {c.errorf(nil, \"offset for label %v is negative, table is %v\", i.Operand, c.l); continue}; c.obj.Program[j].Operand = c.l[index]}}}"
theorem f_codegen_codegen_shape : F_codegen_codegenShape :=
  ⟨rfl, rfl, rfl, rfl, rfl, rfl, rfl, rfl, rfl⟩

/-- F_compiler_compiler -/
def F_compiler_compilerShape : Prop :=
    F_compiler_compiler.f_New = "if err := c.SetOption(options...); err != nil {return nil, err}; return c, nil" ∧
    F_compiler_compiler.f_Compiler_SetOption = "for range options {if err := option(c); err != nil {return err}}; return nil" ∧
    F_compiler_compiler.f_EmitAst = "return func(c *Compiler) error { c.emitAst = true return nil }" ∧
    F_compiler_compiler.f_EmitAstTypes = "return func(c *Compiler) error { c.emitAstTypes = true return nil }" ∧
    F_compiler_compiler.f_MaxRegexpLength = "return func(c *Compiler) error { c.maxRegexpLength = maxRegexpLength return nil }" ∧
    F_compiler_compiler.f_MaxRecursionDepth = "return func(c *Compiler) error { c.maxRecursionDepth = maxRecursionDepth return nil }" ∧
    F_compiler_compiler.f_DisableOptimisation = "return func(c *Compiler) error { c.disableOptimisation = true return nil }" ∧
    F_compiler_compiler.f_Compiler_Compile = "filepath.Base(name); parser.Parse(name, input); if err != nil {return }; if c.emitAst {}; if !c.disableOptimisation {opt.Optimise(ast); if err != nil {return }; if c.emitAstTypes {}}; checker.Check(ast, c.maxRegexpLength, c.maxRecursionDepth); if err != nil {return }; if c.emitAstTypes {s.EmitTypes = true}; if !c.disableOptimisation {opt.Optimise(ast); if err != nil {return }; if c.emitAstTypes {s.EmitTypes = true}}; codegen.CodeGen(name, ast); return "
theorem f_compiler_compiler_shape : F_compiler_compilerShape :=
  ⟨rfl, rfl, rfl, rfl, rfl, rfl, rfl, rfl⟩

/-- F_opt_opt -/
def F_opt_optShape : Prop :=
    F_opt_opt.f_Optimise = "ast.Walk(o, n); if len(o.errors) > 0 {return r, o.errors}; return r, nil"
theorem f_opt_opt_shape : F_opt_optShape :=
  rfl

/-- F_parser_driver -/
def F_parser_driverShape : Prop :=
    F_parser_driver.f_Parse = "newParser(name, input); mtailParse(p); if r != 0 || p.errors != nil {return nil, p.errors}; return p.root, nil" ∧
    F_parser_driver.f_newParser = "return &parser{name: name, l: NewLexer(name, input)}" ∧
    F_parser_driver.f_parser_ErrorP = "p.errors.Add(pos, s)" ∧
    F_parser_driver.f_parser_Error = "p.errors.Add(&p.t.Pos, s)" ∧
    F_parser_driver.f_parser_Lex = "p.t = p.l.NextToken(); verifLexHook(inRegex, p.t); switch p.t.Kind {case INVALID: {p.Error(p.t.Spelling); lval.text = p.t.Spelling; return INVALID} case INTLITERAL: {lval.intVal, err = strconv.ParseInt(p.t.Spelling, 10, 64); if err != nil {p.Error(fmt.Sprintf(\"bad number '%s': %s\", p.t.Spelling, err)); return INVALID}} case FLOATLITERAL: {lval.floatVal, err = strconv.ParseFloat(p.t.Spelling, 64); if err != nil {p.Error(fmt.Sprintf(\"bad number '%s': %s\", p.t.Spelling, err)); return INVALID}} case DURATIONLITERAL: {lval.duration, err = time.ParseDuration(p.t.Spelling); if err != nil {p.Error(fmt.Sprintf(\"%s\", err)); return INVALID}} case LT, GT, LE, GE, NE, EQ, SHL, SHR, BITAND, BITOR, AND, OR, XOR, NOT, INC, DEC, DIV, MUL, MINUS, PLUS, ASSIGN, ADD_ASSIGN, POW, MOD, MATCH, NOT_MATCH: {lval.op = int(p.t.Kind)} case default: {lval.text = p.t.Spelling}}; return int(p.t.Kind)" ∧
    F_parser_driver.f_parser_inRegex = "p.l.InRegex = true" ∧
    F_parser_driver.f_init = "flag.IntVar(&mtailDebug, \"mtailDebug\", 0, \"Set parser debug level.\")"
theorem f_parser_driver_shape : F_parser_driverShape :=
  ⟨rfl, rfl, rfl, rfl, rfl, rfl, rfl⟩

/-- F_parser_unparser -/
def F_parser_unparserShape : Prop :=
    F_parser_unparser.f_Unparser_indent = "u.pos += 2" ∧
    F_parser_unparser.f_Unparser_outdent = "u.pos -= 2" ∧
    F_parser_unparser.f_Unparser_prefix = "for i := 0; i < u.pos; i++ {}; return " ∧
    F_parser_unparser.f_Unparser_emit = "u.line.WriteString(s)" ∧
    F_parser_unparser.f_Unparser_newline = "u.output.WriteString(u.prefix()); u.output.WriteString(u.line.String()); u.output.WriteString(\"\\n\"); u.line.Reset()" ∧
    F_parser_unparser.f_keyName = "NewLexer(\"\", strings.NewReader(k)); if t := l.NextToken(); t.Kind == ID && t.Spelling == k && l.NextToken().Kind == EOF {return k}; return quote(k)" ∧
    F_parser_unparser.f_durationLiteral = "if d >= time.Millisecond {return d.String()}; return strings.TrimRight(fmt.Sprintf(\"0.%09d\", int64(d)), \"0\") + \"s\"" ∧
    F_parser_unparser.f_quote = "return \"\\\"\" + strings.ReplaceAll(s, \"\\\"\", \"\\\\\\\"\") + \"\\\"\"" ∧
    F_parser_unparser.f_precedence = "switch v := n.(type) {case *ast.ConvExpr: {return precedence(v.N)} case *ast.BinaryExpr: {switch v.Op {case ASSIGN, ADD_ASSIGN: {return precAssign} case AND, OR, MATCH, NOT_MATCH: {return precLogical} case BITAND, BITOR, XOR: {return precBitwise} case LT, GT, LE, GE, EQ, NE: {return precRel} case SHL, SHR: {return precShift} case PLUS, MINUS: {return precAdditive} case default: {return precMultiplicative}}} case *ast.UnaryExpr: {switch v.Op {case NOT: {return precUnary} case INC, DEC: {return precPostfix} case default: {return precedence(v.Expr)}}} case *ast.PatternExpr: {return precedence(v.Expr)}}; return precPrimary" ∧
    F_parser_unparser.f_opPrecedence = "return precedence(&ast.BinaryExpr{Op: op})" ∧
    F_parser_unparser.f_lhsNeedsParens = "switch op {case MATCH, NOT_MATCH: {return precedence(lhs) < precPrimary} case ASSIGN, ADD_ASSIGN: {return precedence(lhs) < precUnary}}; if _, isPattern := lhs.(*ast.PatternLit); isPattern || isConcat(lhs) {return false}; return precedence(lhs) < opPrecedence(op)" ∧
    F_parser_unparser.f_rhsNeedsParens = "switch op {case MATCH, NOT_MATCH: {if p, isPattern := rhs.(*ast.PatternExpr); isPattern {return !isPatternConcat(p.Expr) && precedence(p.Expr) < precPrimary}; return precedence(rhs) < precPrimary} case ASSIGN, ADD_ASSIGN: {return precedence(rhs) < precLogical}}; if _, isPattern := rhs.(*ast.PatternLit); isPattern {return false}; return precedence(rhs) <= opPrecedence(op)" ∧
    F_parser_unparser.f_isPatternConcat = "switch v := n.(type) {case *ast.PatternLit: {return true} case *ast.BinaryExpr: {if v.Op != PLUS {return false}; switch v.RHS.(type) {case *ast.PatternLit, *ast.IDTerm: {return isPatternConcat(v.LHS)}}}}; return false" ∧
    F_parser_unparser.f_isConcat = "if !ok || b.Op != PLUS {return false}; if _, isPattern := b.RHS.(*ast.PatternLit); isPattern {return true}; return isConcat(b.LHS)" ∧
    F_parser_unparser.f_Unparser_walkOperand = "if parens {u.emit(\"(\")}; ast.Walk(u, n); if parens {u.emit(\")\")}" ∧
    F_parser_unparser.f_Unparser_Unparse = "ast.Walk(u, n); return u.output.String()"
theorem f_parser_unparser_shape : F_parser_unparserShape :=
  ⟨rfl, rfl, rfl, rfl, rfl, rfl, rfl, rfl, rfl, rfl, rfl, rfl, rfl, rfl, rfl, rfl⟩

/-- F_symbol_symtab -/
def F_symbol_symtabShape : Prop :=
    F_symbol_symtab.f_Kind_String = "switch k {case VarSymbol: {return \"variable\"} case CaprefSymbol: {return \"capture group reference\"} case DecoSymbol: {return \"decorator\"} case PatternSymbol: {return \"named pattern constant\"} case default: {panic(\"unexpected symbolkind\")}}" ∧
    F_symbol_symtab.f_NewSymbol = "return &Symbol{name, kind, types.Undef, pos, nil, 0, false}" ∧
    F_symbol_symtab.f_NewScope = "return &Scope{parent, make(map[string]*Symbol)}" ∧
    F_symbol_symtab.f_Scope_Insert = "if alt = s.Symbols[sym.Name]; alt == nil {s.Symbols[sym.Name] = sym}; return " ∧
    F_symbol_symtab.f_Scope_InsertAlias = "if alt = s.Symbols[alias]; alt == nil {s.Symbols[alias] = sym}; return " ∧
    F_symbol_symtab.f_Scope_Lookup = "for scope := s; scope != nil; scope = scope.Parent {if sym := scope.Symbols[name]; sym != nil && sym.Kind == kind {return sym}}; return nil" ∧
    F_symbol_symtab.f_Scope_String = "fmt.Fprintf(&buf, \"scope %p {\", s); if s != nil {fmt.Fprintln(&buf); if len(s.Symbols) > 0 {for range s.Symbols {fmt.Fprintf(&buf, \"\\t%q: %v %q %v\\n\", name, sym.Kind, sym.Name, sym.Used)}}; if s.Parent != nil {fmt.Fprintf(&buf, \"%s\", s.Parent.String())}}; fmt.Fprintf(&buf, \"}\\n\"); return buf.String()" ∧
    F_symbol_symtab.f_Scope_CopyFrom = "for range o.Symbols {s.Insert(sym)}; if o.Parent != nil {s.CopyFrom(o.Parent)}"
theorem f_symbol_symtab_shape : F_symbol_symtabShape :=
  ⟨rfl, rfl, rfl, rfl, rfl, rfl, rfl, rfl⟩

/-- F_types_types -/
def F_types_typesShape : Prop :=
    F_types_types.f_TypeError_Root = "return e" ∧
    F_types_types.f_TypeError_String = "if e == nil || e.error == nil {return \"type error\"}; if IsComplete(e.expected) {e.expected.String()} else {}; if IsComplete(e.received) {e.received.String()} else {}; return fmt.Sprintf(\"%s; expected %s received %s\", e.error, estr, rstr)" ∧
    F_types_types.f_TypeError_Error = "return e.String()" ∧
    F_types_types.f_TypeError_Unwrap = "return e.error" ∧
    F_types_types.f_AsTypeError = "*target, ok = t.(*TypeError); return ok" ∧
    F_types_types.f_IsTypeError = "return AsTypeError(t, &e)" ∧
    F_types_types.f_NewVariable = "nextVariableIDMu.Lock(); nextVariableIDMu.Unlock(); return &Variable{ID: id}" ∧
    F_types_types.f_Variable_Root = "t.instanceMu.Lock(); defer t.instanceMu.Unlock(); if t.Instance == nil {return t}; t.Instance.Root(); t.Instance = r; return r" ∧
    F_types_types.f_Variable_String = "t.instanceMu.RLock(); defer t.instanceMu.RUnlock(); if t.Instance != nil {return t.Instance.String()}; return fmt.Sprintf(\"typeVar%d\", t.ID)" ∧
    F_types_types.f_Variable_SetInstance = "t.instanceMu.Lock(); defer t.instanceMu.Unlock(); t.Instance = t1" ∧
    F_types_types.f_Operator_Root = "return t" ∧
    F_types_types.f_Operator_String = "switch  {case l < 2: {for range t.Args {}} case default: {t.Args[0].String(); for range t.Args[1:] {}}}; return s" ∧
    F_types_types.f_Function = "return &Operator{functionName, args}" ∧
    F_types_types.f_IsFunction = "if v, ok := t.(*Operator); ok {return v.Name == functionName}; return false" ∧
    F_types_types.f_Dimension = "return &Operator{dimensionName, args}" ∧
    F_types_types.f_IsDimension = "if v, ok := t.(*Operator); ok {return v.Name == dimensionName}; return false" ∧
    F_types_types.f_Alternate = "return &Operator{alternateName, args}" ∧
    F_types_types.f_IsAlternate = "if v, ok := t.(*Operator); ok {return v.Name == alternateName}; return false" ∧
    F_types_types.f_IsComplete = "switch v := t.Root().(type) {case *Variable: {return false} case *Operator: {for range v.Args {if !IsComplete(a) {return false}}; return true}}; return false" ∧
    F_types_types.f_FreshType = "make(map[*Variable]*Variable); return freshRec(t)" ∧
    F_types_types.f_OccursIn = "for range types {if occursInType(v, t2) {return true}}; return false" ∧
    F_types_types.f_occursInType = "t2.Root(); if Equals(root, v) {return true}; if to, ok := root.(*Operator); ok {return OccursIn(v, to.Args)}; return false" ∧
    F_types_types.f_Equals = "t1.Root(), t2.Root(); switch t1 := t1.(type) {case *Variable: {if !ok {return occursInType(t1, t2)}; return t1.ID == r2.ID} case *Operator: {if !ok {return false}; if t1.Name != t2.Name {return false}; if len(t1.Args) != len(t2.Args) {return false}; for range t1.Args {if !Equals(t1.Args[i], t2.Args[i]) {return false}}; return true} case *TypeError: {return false}}; return true" ∧
    F_types_types.f_Unify = "a.Root(), b.Root(); switch aT := aR.(type) {case *Variable: {switch bT := bR.(type) {case *Variable: {if aT.ID != bT.ID {aT.SetInstance(bR); return bR}; return aT} case *Operator: {if occursInType(aT, bT) {return &TypeError{ErrRecursiveUnification, aT, bT}}; aT.SetInstance(bR); return bR}}} case *Operator: {switch bT := bR.(type) {case *Variable: {Unify(b, a); if AsTypeError(t, &e) {return &TypeError{ErrTypeMismatch, e.received, e.expected}}; return t} case *Operator: {switch  {case IsAlternate(aT) && !IsAlternate(bT): {if OccursIn(bT, aT.Args) {return bT}; return &TypeError{ErrTypeMismatch, aT, bT}} case IsAlternate(bT) && !IsAlternate(aT): {Unify(b, a); if AsTypeError(t, &e) {return &TypeError{e.error, e.received, e.expected}}; return t} case IsAlternate(aT) && IsAlternate(bT): {for range bT.Args {if OccursIn(arg, aT.Args) {append(args, arg)}}; if len(args) == 0 {return &TypeError{ErrTypeMismatch, aT, bT}}; if len(args) == 1 {return args[0]}; return &Operator{alternateName, args}} case default: {if len(aT.Args) != len(bT.Args) {return &TypeError{ErrTypeMismatch, aT, bT}}; if aT.Name != bT.Name {LeastUpperBound(a, b); if AsTypeError(t, &e) {return e}; if rType, ok = t.(*Operator); !ok {return &TypeError{ErrRecursiveUnification, aT, bT}}} else {}; rType.Args = make([]Type, len(aT.Args)); for range aT.Args {Unify(argA, bT.Args[i]); if AsTypeError(t, &e) {return e}; rType.Args[i] = t}; return rType}}}}}}; return &TypeError{ErrInternal, a, b}" ∧
    F_types_types.f_LeastUpperBound = "a.Root(), b.Root(); if Equals(a1, b1) {return a1}; if _, ok := a1.(*Variable); ok {return b1}; if _, ok := b1.(*Variable); ok {return a1}; if Equals(a1, Undef) {return b1}; if Equals(b1, Undef) {return a1}; for range typeCoercions {if (Equals(a1, pair.sub) && Equals(b1, pair.sup)) ||\n\t(Equals(b1, pair.sub) && Equals(a1, pair.sup)) {return pair.sup}}; if (Equals(a1, Pattern) && Equals(b1, Bool)) ||\n\t(Equals(a1, Bool) && Equals(b1, Pattern)) {return Bool}; if (Equals(a1, Bool) && Equals(b1, Int)) ||\n\t(Equals(a1, Int) && Equals(b1, Bool)) {return Int}; if (Equals(a1, Numeric) && Equals(b1, Int)) ||\n\t(Equals(a1, Int) && Equals(b1, Numeric)) {return Int}; if (Equals(a1, Numeric) && Equals(b1, Float)) ||\n\t(Equals(a1, Float) && Equals(b1, Numeric)) {return Float}; if (Equals(a1, String) && Equals(b1, Pattern)) ||\n\t(Equals(a1, Pattern) && Equals(b1, String)) {return Pattern}; if (Equals(a1, Pattern) && Equals(b1, Int)) ||\n\t(Equals(a1, Int) && Equals(b1, Pattern)) {return Bool}; return &TypeError{ErrTypeMismatch, a, b}" ∧
    F_types_types.f_InferCaprefType = "getCaptureGroup(re, n); if group == nil {return None}; if group.Op != syntax.OpAlternate {return inferGroupType(group)}; Type(Undef); for range group.Sub {LeastUpperBound(subType, inferGroupType(sub))}; return subType" ∧
    F_types_types.f_inferGroupType = "switch  {case groupOnlyMatches(group, \"+-\"): {return String} case groupOnlyMatches(group, \"+-0123456789\"): {if !strings.ContainsAny(group.String(), \"0123456789\") {return String}; if group.Op == syntax.OpAlternate || group.Op == syntax.OpCharClass {return String}; return Int} case groupOnlyMatches(group, \"+-0123456789.eE\"): {if strings.Count(group.String(), \".\") > 1 {return String}; return Float}}; return String" ∧
    F_types_types.f_getCaptureGroup = "if re.Op == syntax.OpCapture && re.Cap == cgID {return re.Sub[0]}; for range re.Sub {getCaptureGroup(sub, cgID); if r != nil {return r}}; return nil" ∧
    F_types_types.f_groupOnlyMatches = "switch group.Op {case syntax.OpLiteral: {for range group.Rune {if !strings.ContainsRune(s, r) {return false}}; return true} case syntax.OpCharClass: {for i := 0; i < len(group.Rune); i += 2 {for r := lo; r <= hi; r++ {if !strings.ContainsRune(s, r) {return false}}}; return true} case syntax.OpStar, syntax.OpPlus, syntax.OpRepeat, syntax.OpQuest, syntax.OpCapture: {return groupOnlyMatches(group.Sub[0], s)} case syntax.OpConcat, syntax.OpAlternate: {for range group.Sub {if !groupOnlyMatches(sub, s) {return false}}} case default: {return false}}; return true"
theorem f_types_types_shape : F_types_typesShape :=
  ⟨rfl, rfl, rfl, rfl, rfl, rfl, rfl, rfl, rfl, rfl, rfl, rfl, rfl, rfl, rfl, rfl, rfl, rfl, rfl, rfl, rfl, rfl, rfl, rfl, rfl, rfl, rfl, rfl, rfl⟩

/-- F_runtime_runtime -/
def F_runtime_runtimeShape : Prop :=
    F_runtime_runtime.f_Runtime_LoadAllPrograms = "if r.programPath == \"\" {return nil}; os.Stat(r.programPath); if err != nil {return errors.Wrapf(err, \"failed to stat %q\", r.programPath)}; switch  {case s.IsDir(): {os.ReadDir(r.programPath); if rerr != nil {return errors.Wrapf(rerr, \"Failed to list programs in %q\", r.programPath)}; make(map[string]struct{}); r.handleMu.RLock(); for range r.handles {markDeleted[name] = struct{}{}}; r.handleMu.RUnlock(); for range dirents {if dirent.IsDir() {continue}; r.LoadProgram(filepath.Join(r.programPath, dirent.Name())); if err != nil {if r.errorsAbort {return err}}; delete(markDeleted, filepath.Base(dirent.Name()))}; for range markDeleted {r.UnloadProgram(name)}} case default: {r.LoadProgram(r.programPath); if err != nil {if r.errorsAbort {return err}}}}; return nil" ∧
    F_runtime_runtime.f_Runtime_LoadProgram = "filepath.Base(programPath); if strings.HasPrefix(name, \".\") {return nil}; if filepath.Ext(name) != fileExt {return nil}; os.OpenFile(filepath.Clean(programPath), os.O_RDONLY, 0o600); if err != nil {ProgLoadErrors.Add(name, 1); return errors.Wrapf(err, \"Failed to read program %q\", programPath)}; defer func {if err := f.Close(); err != nil {}}(); r.programErrorMu.Lock(); defer r.programErrorMu.Unlock(); r.programErrors[name] = r.CompileAndRun(name, f); if r.programErrors[name] != nil {if r.errorsAbort {return r.programErrors[name]}}; return nil" ∧
    F_runtime_runtime.f_Runtime_CompileAndRun = "io.TeeReader(input, &buf); sha256.New(); if _, err := io.Copy(hasher, tee); err != nil {ProgLoadErrors.Add(name, 1); return errors.Wrapf(err, \"hashing failed for %q\", name)}; hasher.Sum(nil); r.handleMu.RLock(); r.handleMu.RUnlock(); if ok && bytes.Equal(vh.contentHash, contentHash) {return nil}; r.c.Compile(name, &buf); if errs != nil {ProgLoadErrors.Add(name, 1); return errors.Errorf(\"compile failed for %s:\\n%s\", name, errs)}; if obj == nil {ProgLoadErrors.Add(name, 1); return errors.Errorf(\"internal error: compilation failed for %s: no program returned, but no errors\", name)}; vm.New(name, obj, r.syslogUseCurrentYear, r.overrideLocation, r.logRuntimeErrors, r.trace); if r.dumpBytecode {}; for range v.Metrics {if !m.Hidden {if r.omitMetricSource {m.Source = \"\"}; r.ms.Add(m); if err != nil {ProgLoadErrors.Add(name, 1); return err}}}; ProgLoads.Add(name, 1); if r.compileOnly {return nil}; r.handleMu.Lock(); defer r.handleMu.Unlock(); if handle, ok := r.handles[name]; ok {close(handle.lines); <-handle.done}; make(chan *logline.LogLine); make(chan struct{}); r.handles[name] = &vmHandle{contentHash: contentHash, vm: v, lines: lines, done: done}; r.wg.Add(1); go {v.Run(lines, &r.wg); close(done)}; return nil" ∧
    F_runtime_runtime.f_New = "if store == nil {return nil, ErrNeedsStore}; if wg == nil {return nil, ErrNeedsWaitgroup}; make(chan struct{}); defer close(initDone); if err = r.SetOption(options...); err != nil {return nil, err}; if r.c, err = compiler.New(r.cOpts...); err != nil {return nil, err}; wg.Add(1); defer func {go {defer wg.Done(); <-initDone; r.wg.Wait()}}(); r.wg.Add(1); go {defer r.wg.Done(); <-initDone; for range lines {LineCount.Add(1); r.handleMu.RLock(); for range r.handles {r.handles[prog].lines <-}; r.handleMu.RUnlock()}; close(r.signalQuit); r.handleMu.Lock(); for range r.handles {close(r.handles[prog].lines); delete(r.handles, prog)}; r.handleMu.Unlock()}; if r.programPath == \"\" {return r, nil}; r.wg.Add(1); go {defer r.wg.Done(); <-initDone; if r.programPath == \"\" {return }; make(chan os.Signal, 1); signal.Notify(n, syscall.SIGHUP); defer signal.Stop(n); for  {select {case <-r.signalQuit: {return } case <-n: {if err := r.LoadAllPrograms(); err != nil {}}}}}; if err := r.LoadAllPrograms(); err != nil {return nil, err}; return r, nil" ∧
    F_runtime_runtime.f_Runtime_SetOption = "for range options {if err := option(r); err != nil {return err}}; return nil" ∧
    F_runtime_runtime.f_Runtime_UnloadProgram = "filepath.Base(pathname); r.handleMu.Lock(); defer r.handleMu.Unlock(); close(r.handles[name].lines); <-r.handles[name].done; delete(r.handles, name); ProgUnloads.Add(name, 1)"
theorem f_runtime_runtime_shape : F_runtime_runtimeShape :=
  ⟨rfl, rfl, rfl, rfl, rfl, rfl⟩

/-- F_vm_vm -/
def F_vm_vmShape : Prop :=
    F_vm_vm.f_thread_Push = "t.stack = append(t.stack, value)" ∧
    F_vm_vm.f_thread_Pop = "t.stack = t.stack[:last]; return " ∧
    F_vm_vm.f_VM_errorf = "ProgRuntimeErrors.Add(v.name, 1); v.runtimeErrorMu.Lock(); v.runtimeError = fmt.Sprintf(format+\"\\n\", args...); v.runtimeError += fmt.Sprintf( \"Error occurred at instruction %d {%s, %v}, originating in %s at line %d\\n\", v.t.pc-1, i.Opcode, i.Operand, v.name, i.SourceLine+1); v.runtimeError += fmt.Sprintf(\"Full input text from %q was %q\", v.input.Filename, v.input.Line); if v.logRuntimeErrors || bool(glog.V(1)) {}; if glog.V(1) {}; if v.trace != nil {}; v.runtimeErrorMu.Unlock(); v.terminate = true" ∧
    F_vm_vm.f_thread_PopInt = "t.Pop(); switch n := val.(type) {case int64: {return n, nil} case int: {return int64(n), nil} case float64: {return int64(n), nil} case bool: {if n {return 1, nil}; return 0, nil} case string: {strconv.ParseInt(n, 10, 64); if err != nil {return 0, errors.Wrapf(err, \"conversion of %q to int failed\", val)}; return r, nil} case time.Time: {return n.Unix(), nil} case datum.Datum: {return datum.GetInt(n), nil}}; return 0, errors.Errorf(\"unexpected int type %T %q\", val, val)" ∧
    F_vm_vm.f_thread_PopFloat = "t.Pop(); switch n := val.(type) {case float64: {return n, nil} case int: {return float64(n), nil} case int64: {return float64(n), nil} case bool: {if n {return 1, nil}; return 0, nil} case string: {strconv.ParseFloat(n, 64); if err != nil {return 0, errors.Wrapf(err, \"conversion of %q to float failed\", val)}; return r, nil} case datum.Datum: {return datum.GetFloat(n), nil}}; return 0, errors.Errorf(\"unexpected float type %T %q\", val, val)" ∧
    F_vm_vm.f_thread_PopString = "t.Pop(); switch n := val.(type) {case string: {return n, nil} case float64: {return strconv.FormatFloat(n, 'G', -1, 64), nil} case int: {return strconv.Itoa(n), nil} case int64: {return strconv.FormatInt(n, 10), nil} case bool: {return strconv.FormatBool(n), nil} case datum.Datum: {return datum.GetString(n), nil}}; return \"\", errors.Errorf(\"unexpected type for string %T %q\", val, val)" ∧
    F_vm_vm.f_boolToInt = "if b {return 1}; return 0" ∧
    F_vm_vm.f_compareInt = "switch opnd {case -1: {return a < b, nil} case 0: {return a == b, nil} case 1: {return a > b, nil} case default: {return false, errors.Errorf(\"unexpected operator type %q\", opnd)}}" ∧
    F_vm_vm.f_compareFloat = "switch opnd {case -1: {return a < b, nil} case 0: {return a == b, nil} case 1: {return a > b, nil} case default: {return false, errors.Errorf(\"unexpected operator type %q\", opnd)}}" ∧
    F_vm_vm.f_compareString = "switch opnd {case -1: {return a < b, nil} case 0: {return a == b, nil} case 1: {return a > b, nil} case default: {return false, errors.Errorf(\"unexpected operator type %q\", opnd)}}" ∧
    F_vm_vm.f_compare = "if v, ok := a.(bool); ok {boolToInt(v)}; if v, ok := b.(bool); ok {boolToInt(v)}; if n, lxIsInt = a.(int); lxIsInt {int64(n)} else {}; if n, rxIsInt = b.(int); rxIsInt {int64(n)} else {}; if lxIsFloat {if rxIsFloat {return compareFloat(lxF, rxF, opnd)}; if rxIsInt {return compareFloat(lxF, float64(rxI), opnd)}; if rxIsStr {strconv.ParseFloat(rxS, 64); if err != nil {return false, errors.Errorf(\"cannot compare %T %q with %T %q\", a, a, b, b)}; return compareFloat(lxF, rx, opnd)}; return false, errors.Errorf(\"cannot compare %T %q with %T %q\", a, a, b, b)}; if lxIsInt {if rxIsFloat {return compareFloat(float64(lxI), rxF, opnd)}; if rxIsInt {return compareInt(lxI, rxI, opnd)}; if rxIsStr {strconv.ParseFloat(rxS, 64); if err != nil {return false, errors.Errorf(\"cannot compare %T %q with %T %q\", a, a, b, b)}; return compareFloat(lxF, rx, opnd)}; return false, errors.Errorf(\"cannot compare %T %q with %T %q\", a, a, b, b)}; if lxIsStr {if lx, err := strconv.ParseFloat(lxS, 64); err == nil {return compare(lx, b, opnd)}; if lx, err := strconv.ParseInt(lxS, 10, 32); err == nil {return compare(lx, b, opnd)}; if rxIsStr {return compareString(lxS, rxS, opnd)}}; return false, errors.Errorf(\"cannot compare %T %q with %T %q\", a, a, b, b)" ∧
    F_vm_vm.f_VM_ParseTime = "if v.loc != nil {time.ParseInLocation(layout, value, v.loc)} else {time.Parse(layout, value)}; if err != nil {v.errorf(\"strptime (%v, %v, %v) failed: %s\", layout, value, v.loc, err); return }; if tm.Year() == 0 && v.syslogUseCurrentYear {time.Now(); if v.loc != nil {now.In(v.loc)}; tm.AddDate(now.Year(), 0, 0)}; return " ∧
    F_vm_vm.f_VM_ProcessLogLine = "time.Now(); defer func {LineProcessingDurations.WithLabelValues(v.name).Observe(time.Since(start).Seconds())}(); verifLineHook(v, line); new(thread); t.matched = false; v.t = t; v.input = line; t.stack = make([]interface{}, 0); t.matches = make(map[int][]string, len(v.re)); for  {if t.pc >= len(v.prog) {return }; if v.trace != nil {v.trace = append(v.trace, t.pc)}; t.pc++; v.execute(t, i); if v.terminate {v.terminate = false; return }}" ∧
    F_vm_vm.f_New = "if trace {v.trace = make([]int, 0, len(v.prog))}; return v" ∧
    F_vm_vm.f_VM_DumpByteCode = "new(bytes.Buffer); fmt.Fprintf(b, \"Prog: %s\\n\", v.name); fmt.Fprintln(b, \"Metrics\"); for range v.Metrics {if m.Program == v.name {fmt.Fprintf(b, \" %8d %s\\n\", i, m)}}; fmt.Fprintln(b, \"Regexps\"); for range v.re {fmt.Fprintf(b, \" %8d /%s/\\n\", i, re)}; fmt.Fprintln(b, \"Strings\"); for range v.str {fmt.Fprintf(b, \" %8d \\\"%s\\\"\\n\", i, str)}; new(tabwriter.Writer); w.Init(b, 0, 0, 1, ' ', tabwriter.AlignRight); fmt.Fprintln(w, \"disasm\\tl\\top\\topnd\\tline\\t\"); for range v.prog {fmt.Fprintf(w, \"\\t%d\\t%s\\t%v\\t%d\\t\\n\", n, i.Opcode, i.Operand, i.SourceLine + 1)}; if err := w.Flush(); err != nil {}; return b.String()" ∧
    F_vm_vm.f_VM_RuntimeErrorString = "v.runtimeErrorMu.RLock(); defer v.runtimeErrorMu.RUnlock(); return v.runtimeError" ∧
    F_vm_vm.f_VM_Run = "defer wg.Done(); context.TODO(); for range lines {v.ProcessLogLine(ctx, line)}"
theorem f_vm_vm_shape : F_vm_vmShape :=
  ⟨rfl, rfl, rfl, rfl, rfl, rfl, rfl, rfl, rfl, rfl, rfl, rfl, rfl, rfl, rfl, rfl, rfl⟩

/-- F_logstream_cancel -/
def F_logstream_cancelShape : Prop :=
    F_logstream_cancel.f_SetReadDeadlineOnDone = "go {<-ctx.Done(); if err := d.SetReadDeadline(time.Now()); err != nil {}}" ∧
    F_logstream_cancel.f_IsExitableError = "if err == nil {return false}; if errors.Is(err, io.EOF) {return true}; if errors.Is(err, os.ErrClosed) {return true}; if os.IsTimeout(err) {return true}; if strings.Contains(err.Error(), \"use of closed network connection\") {return true}; return false"
theorem f_logstream_cancel_shape : F_logstream_cancelShape :=
  ⟨rfl, rfl⟩

/-- F_logstream_dgramstream -/
def F_logstream_dgramstreamShape : Prop :=
    F_logstream_dgramstream.f_newDgramStream = "if address == \"\" {return nil, ErrEmptySocketAddress}; context.WithCancel(ctx); if err := ss.stream(ctx, wg, waker, oneShot); err != nil {return nil, err}; return ss, nil" ∧
    F_logstream_dgramstream.f_dgramStream_stream = "net.ListenPacket(ds.scheme, ds.address); if err != nil {logErrors.Add(ds.address, 1); return err}; NewLineReader(ds.sourcename, ds.lines, &dgramConn{c}, datagramReadBufferSize, ds.cancel); wg.Add(1); go {defer wg.Done(); defer func {c.Close(); if err != nil {logErrors.Add(ds.address, 1)}; logCloses.Add(ds.address, 1); lr.Finish(ctx); close(ds.lines); ds.cancel()}(); context.WithCancel(ctx); defer cancel(); SetReadDeadlineOnDone(ctx, c); for  {lr.ReadAndSend(ctx); if n == 0 {if oneShot {return }; select {case <-ctx.Done(): {return } case default: {}}}; if n > 0 {if err == nil && ctx.Err() == nil {continue}}; if IsExitableError(err) {return }; select {case <-ctx.Done(): {} case <-waker.Wake(): {}}}}; return nil" ∧
    F_logstream_dgramstream.f_dgramConn_Read = "d.ReadFrom(p); return "
theorem f_logstream_dgramstream_shape : F_logstream_dgramstreamShape :=
  ⟨rfl, rfl, rfl⟩

/-- F_logstream_fifostream -/
def F_logstream_fifostreamShape : Prop :=
    F_logstream_fifostream.f_newFifoStream = "context.WithCancel(ctx); if err := ps.stream(ctx, wg, waker, fi); err != nil {return nil, err}; return ps, nil" ∧
    F_logstream_fifostream.f_fifoOpen = "if IsStdinPattern(pathname) {return os.Stdin, nil}; os.OpenFile(pathname, os.O_RDONLY | syscall.O_NONBLOCK, 0o600); if err != nil {logErrors.Add(pathname, 1); return nil, err}; return fd, nil" ∧
    F_logstream_fifostream.f_fifoStream_stream = "fifoOpen(ps.pathname); if err != nil {return err}; NewLineReader(ps.sourcename, ps.lines, fd, defaultFifoReadBufferSize, ps.cancel); wg.Add(1); go {defer wg.Done(); defer func {fd.Close(); if err != nil {logErrors.Add(ps.pathname, 1)}; logCloses.Add(ps.pathname, 1); lr.Finish(ctx); close(ps.lines); ps.cancel()}(); SetReadDeadlineOnDone(ctx, fd); for  {lr.ReadAndSend(ctx); if n > 0 {if err == nil && ctx.Err() == nil {continue}} else if n == 0 && total > 0 {return }; if IsExitableError(err) {if !(errors.Is(err, io.EOF) && total == 0) {return }}; select {case <-ctx.Done(): {} case <-waker.Wake(): {}}}}; return nil"
theorem f_logstream_fifostream_shape : F_logstream_fifostreamShape :=
  ⟨rfl, rfl, rfl⟩

/-- F_logstream_filestream -/
def F_logstream_filestreamShape : Prop :=
    F_logstream_filestream.f_newFileStream = "context.WithCancel(ctx); if err := fs.stream(ctx, wg, waker, fi, oneShot, streamFromStart); err != nil {return nil, err}; return fs, nil" ∧
    F_logstream_filestream.f_fileStream_stream = "os.OpenFile(fs.pathname, os.O_RDONLY, 0o600); if err != nil {logErrors.Add(fs.sourcename, 1); return err}; logOpens.Add(fs.sourcename, 1); if !streamFromStart {if _, err := fd.Seek(0, io.SeekEnd); err != nil {logErrors.Add(fs.sourcename, 1); if err := fd.Close(); err != nil {logErrors.Add(fs.sourcename, 1)}; return err}}; NewLineReader(fs.sourcename, fs.lines, fd, defaultReadBufferSize, fs.cancel); make(chan struct{}); wg.Add(1); go {defer wg.Done(); defer func {if err := fd.Close(); err != nil {logErrors.Add(fs.sourcename, 1)}; logCloses.Add(fs.sourcename, 1)}(); close(started); for  {lr.ReadAndSend(ctx); if count > 0 {if err == nil && ctx.Err() == nil {continue}}; if err != nil && !errors.Is(err, io.EOF) {logErrors.Add(fs.sourcename, 1); if errors.Is(err, syscall.ESTALE) {if nerr := fs.stream(ctx, wg, waker, fi, oneShot, true); nerr != nil {}; return }}; if errors.Is(err, io.EOF) && count == 0 {os.Stat(fs.pathname); if serr != nil {if os.IsNotExist(serr) {lr.Finish(ctx); close(fs.lines); return }; logErrors.Add(fs.sourcename, 1); goto}; if newfi.IsDir() {lr.Finish(ctx); close(fs.lines); return }; if !os.SameFile(fi, newfi) {lr.Finish(ctx); if err := fs.stream(ctx, wg, waker, newfi, oneShot, true); err != nil {close(fs.lines)}; return }; fd.Seek(0, io.SeekCurrent); if serr != nil {logErrors.Add(fs.sourcename, 1); continue}; if newfi.Size() < currentOffset {lr.Finish(ctx); fd.Seek(0, io.SeekStart); if serr != nil {logErrors.Add(fs.sourcename, 1)}; fileTruncates.Add(fs.sourcename, 1); continue}}; Sleep: if errors.Is(err, io.EOF) {if oneShot == OneShotEnabled {lr.Finish(ctx); close(fs.lines); return }; select {case <-ctx.Done(): {lr.Finish(ctx); close(fs.lines); return } case default: {}}}; select {case <-ctx.Done(): {} case <-waker.Wake(): {}}}}; <-started; return nil"
theorem f_logstream_filestream_shape : F_logstream_filestreamShape :=
  ⟨rfl, rfl⟩

/-- F_logstream_reader -/
def F_logstream_readerShape : Prop :=
    F_logstream_reader.f_NewLineReader = "return &LineReader{ sourcename: sourcename, lines: lines, f: f, cancel: cancel, size: size, buf: make([]byte, 0, size), }" ∧
    F_logstream_reader.f_LineReader_ReadAndSend = "if cap(lr.buf)-len(lr.buf) < lr.size {lr.buf = append(make([]byte, 0, len(lr.buf)+lr.size), lr.buf...)}; lr.f.Read(lr.buf[len(lr.buf):cap(lr.buf)]); if lr.staleTimer != nil {lr.staleTimer.Stop()}; lr.buf = lr.buf[:len(lr.buf)+count]; if count > 0 {lr.staleTimer = time.AfterFunc(time.Hour*24, lr.cancel); for ; ok;  {lr.send(ctx)}; lr.buf = lr.buf[lr.off:len(lr.buf)]; lr.off = 0}; return " ∧
    F_logstream_reader.f_LineReader_send = "min(len(lr.buf), cap(lr.buf)); bytes.IndexByte(lr.buf[lr.off:lim], '\\n'); if i < 0 {return false}; if end > 0 && lr.buf[end-1] == '\\r' {}; string(lr.buf[lr.off:end]); logLines.Add(lr.sourcename, 1); lr.lines <-; lr.off = end + skip; return true" ∧
    F_logstream_reader.f_LineReader_Finish = "string(lr.buf[lr.off:]); if len(line) == 0 {return }; logLines.Add(lr.sourcename, 1); lr.lines <-; lr.buf = lr.buf[:0]; lr.off = 0"
theorem f_logstream_reader_shape : F_logstream_readerShape :=
  ⟨rfl, rfl, rfl, rfl⟩

/-- F_logstream_socketstream -/
def F_logstream_socketstreamShape : Prop :=
    F_logstream_socketstream.f_newSocketStream = "if address == \"\" {return nil, ErrEmptySocketAddress}; context.WithCancel(ctx); if err := ss.stream(ctx, wg, waker); err != nil {return nil, err}; return ss, nil" ∧
    F_logstream_socketstream.f_socketStream_stream = "net.Listen(ss.scheme, ss.address); if err != nil {logErrors.Add(ss.address, 1); return err}; make(chan struct{}); wg.Add(1); go {defer wg.Done(); select {case <-started: {} case <-ctx.Done(): {}}; if !ss.oneShot {<-ctx.Done()}; l.Close(); if err != nil {}; connWg.Wait(); close(ss.lines)}; wg.Add(1); go {defer wg.Done(); for  {connWg.Add(1); l.Accept(); if err != nil {connWg.Done(); return }; go ss.handleConn(); connOnce.Do(func {close(started)}); if ss.oneShot {return }}}; return nil" ∧
    F_logstream_socketstream.f_socketStream_handleConn = "defer wg.Done(); NewLineReader(ss.sourcename, ss.lines, c, defaultReadBufferSize, ss.cancel); defer func {c.Close(); if err != nil {logErrors.Add(ss.address, 1)}; lr.Finish(ctx); logCloses.Add(ss.address, 1)}(); context.WithCancel(ctx); defer cancel(); SetReadDeadlineOnDone(ctx, c); for  {lr.ReadAndSend(ctx); if n > 0 {if err == nil && ctx.Err() == nil {continue}}; if IsExitableError(err) {return }; select {case <-ctx.Done(): {} case <-waker.Wake(): {}}}"
theorem f_logstream_socketstream_shape : F_logstream_socketstreamShape :=
  ⟨rfl, rfl, rfl⟩

/-- F_logstream_logstream -/
def F_logstream_logstreamShape : Prop :=
    F_logstream_logstream.f_New = "if wg == nil {return nil, ErrNeedsWaitgroup}; url.Parse(pathname); if err != nil || u.Scheme == \"\" {}; switch u.Scheme {case default: {} case \"unixgram\": {return newDgramStream(ctx, wg, waker, u.Scheme, u.Path, oneShot)} case \"unix\": {return newSocketStream(ctx, wg, waker, u.Scheme, u.Path, oneShot)} case \"tcp\": {return newSocketStream(ctx, wg, waker, u.Scheme, u.Host, oneShot)} case \"udp\": {return newDgramStream(ctx, wg, waker, u.Scheme, u.Host, oneShot)} case \"\", \"file\": {}}; if IsStdinPattern(path) {os.Stdin.Stat(); if err != nil {logErrors.Add(path, 1); return nil, err}; return newFifoStream(ctx, wg, waker, path, fi)}; os.Stat(path); if err != nil {logErrors.Add(path, 1); return nil, err}; switch  {case m.IsRegular(): {return newFileStream(ctx, wg, waker, path, fi, oneShot)} case m&os.ModeType == os.ModeNamedPipe: {return newFifoStream(ctx, wg, waker, path, fi)} case default: {return nil, fmt.Errorf(\"%w: %q\", ErrUnsupportedFileType, pathname)}}" ∧
    F_logstream_logstream.f_IsStdinPattern = "if pattern == stdinPattern {return true}; if pattern == \"/dev/stdin\" {return true}; return false"
theorem f_logstream_logstream_shape : F_logstream_logstreamShape :=
  ⟨rfl, rfl⟩

/-- F_tailer_tail -/
def F_tailer_tailShape : Prop :=
    F_tailer_tail.f_niladicOption_apply = "return n.applyfunc(t)" ∧
    F_tailer_tail.f_LogPatterns_apply = "t.logPatterns = opt; return nil" ∧
    F_tailer_tail.f_IgnoreRegex_apply = "return t.SetIgnorePattern(string(opt))" ∧
    F_tailer_tail.f_LogPatternPollWaker = "return &logPatternPollWaker{w}" ∧
    F_tailer_tail.f_logPatternPollWaker_apply = "t.logPatternPollWaker = opt.Waker; return nil" ∧
    F_tailer_tail.f_LogstreamPollWaker = "return &logstreamPollWaker{w}" ∧
    F_tailer_tail.f_logstreamPollWaker_apply = "t.logstreamPollWaker = opt.Waker; return nil" ∧
    F_tailer_tail.f_New = "if lines == nil {return nil, ErrNoLinesChannel}; if wg == nil {return nil, ErrNeedsWaitgroup}; t.ctx, t.cancel = context.WithCancel(ctx); defer close(t.initDone); if err := t.SetOption(options...); err != nil {return nil, err}; for range t.logPatterns {if err := t.AddPattern(p); err != nil {return nil, err}}; wg.Add(1); go {defer wg.Done(); <-t.initDone; t.wg.Wait(); t.cancel()}; wg.Add(1); go {defer wg.Done(); <-t.initDone; <-t.ctx.Done(); t.wg.Wait(); close(t.lines)}; return t, nil" ∧
    F_tailer_tail.f_Tailer_SetOption = "for range options {if option == nil {return ErrNilOption}; if err := option.apply(t); err != nil {return err}}; return nil" ∧
    F_tailer_tail.f_Tailer_AddPattern = "url.Parse(pattern); if err != nil {}; switch u.Scheme {case default: {} case \"unix\", \"unixgram\", \"tcp\", \"udp\": {return t.TailPath(path)} case \"\", \"file\": {}}; if logstream.IsStdinPattern(pattern) {return t.TailPath(pattern)}; filepath.Abs(path); if err != nil {return err}; t.globPatternsMu.Lock(); t.globPatterns[path] = struct{}{}; t.globPatternsMu.Unlock(); t.pollLogPattern(path); return nil" ∧
    F_tailer_tail.f_Tailer_Ignore = "filepath.Abs(pathname); if err != nil {return true}; os.Stat(absPath); if err != nil {return true}; if fi.Mode().IsDir() {return true}; return t.ignoreRegexPattern != nil && t.ignoreRegexPattern.MatchString(fi.Name())" ∧
    F_tailer_tail.f_Tailer_SetIgnorePattern = "if len(pattern) == 0 {return nil}; regexp.Compile(pattern); if err != nil {fmt.Printf(\"error: %v\\n\", err); return err}; t.ignoreRegexPattern = ignoreRegexPattern; return nil" ∧
    F_tailer_tail.f_Tailer_TailPath = "t.logstreamsMu.Lock(); defer t.logstreamsMu.Unlock(); if _, ok := t.logstreams[pathname]; ok {return nil}; logstream.New(t.ctx, &t.wg, t.logstreamPollWaker, pathname, t.oneShot); if err != nil {return err}; t.logstreams[pathname] = l; t.wg.Add(1); go {defer t.wg.Done(); for range l.Lines() {t.lines <-}; t.logstreamsMu.Lock(); if !t.oneShot {delete(t.logstreams, pathname)}; logCount.Add(-1); t.logstreamsMu.Unlock()}; logCount.Add(1); return nil" ∧
    F_tailer_tail.f_Tailer_pollLogPattern = "if err := t.doPatternGlob(pattern); err != nil {}; if t.logPatternPollWaker == nil {return }; t.wg.Add(1); go {defer t.wg.Done(); <-t.initDone; if t.oneShot {return }; for  {select {case <-t.ctx.Done(): {return } case <-t.logPatternPollWaker.Wake(): {if err := t.doPatternGlob(pattern); err != nil {}}}}}" ∧
    F_tailer_tail.f_Tailer_doPatternGlob = "filepath.Glob(pattern); if err != nil {return err}; for range matches {if t.Ignore(pathname) {continue}; filepath.Abs(pathname); if err != nil {continue}; if err := t.TailPath(absPath); err != nil {}}; return nil"
theorem f_tailer_tail_shape : F_tailer_tailShape :=
  ⟨rfl, rfl, rfl, rfl, rfl, rfl, rfl, rfl, rfl, rfl, rfl, rfl, rfl, rfl, rfl⟩

/-- every clause of `VM.execute`: what `Model/VM.lean` spells out opcode by opcode (C01, C02, C04, C05, C07, C21, C25) -/
def ExecShape : Prop :=
    Exec.before = "defer func {if r := recover(); r != nil {if v.HardCrash {fmt.Printf(\"panic in thread %#v at instr %q: %s\\n\", t, i, r); panic(r)}; v.errorf(\"panic in thread %#v at instr %q: %s\", t, i, r); v.terminate = true}}()" ∧
    Exec.switch = "switch i.Opcode" ∧
    Exec.case_Bad = "panic(\"Invalid instruction. Aborting.\")" ∧
    Exec.case_Stop = "v.terminate = true" ∧
    Exec.case_Match = "t.matches[index] = v.re[index].FindStringSubmatch(v.input.Line); t.Push(t.matches[index] != nil)" ∧
    Exec.case_Smatch = "t.PopString(); if err != nil {v.errorf(\"+%v\", err); return }; t.matches[index] = v.re[index].FindStringSubmatch(line); t.Push(t.matches[index] != nil)" ∧
    Exec.case_Cmp = "t.Pop(); t.Pop(); compare(a, b, i.Operand.(int)); if err != nil {v.errorf(\"%+v\", err); return }; t.Push(match)" ∧
    Exec.case_Icmp = "t.PopInt(); if berr != nil {v.errorf(\"%+v\", berr); return }; t.PopInt(); if aerr != nil {v.errorf(\"%+v\", aerr); return }; compareInt(a, b, i.Operand.(int)); if err != nil {v.errorf(\"%+v\", err); return }; t.Push(match)" ∧
    Exec.case_Fcmp = "t.PopFloat(); if berr != nil {v.errorf(\"%+v\", berr); return }; t.PopFloat(); if aerr != nil {v.errorf(\"%+v\", aerr)}; compareFloat(a, b, i.Operand.(int)); if err != nil {v.errorf(\"%+v\", err); return }; t.Push(match)" ∧
    Exec.case_Scmp = "t.PopString(); if berr != nil {v.errorf(\"%+v\", berr); return }; t.PopString(); if aerr != nil {v.errorf(\"%+v\", aerr); return }; compareString(a, b, i.Operand.(int)); if err != nil {v.errorf(\"%+v\", err); return }; t.Push(match)" ∧
    Exec.case_Jnm = "t.Pop(); switch match := val.(type) {case bool: {if !match {t.pc = i.Operand.(int)}} case int64: {if match == 0 {t.pc = i.Operand.(int)}} case int: {if match == 0 {t.pc = i.Operand.(int)}}}" ∧
    Exec.case_Jm = "t.Pop(); switch match := val.(type) {case bool: {if match {t.pc = i.Operand.(int)}} case int64: {if match != 0 {t.pc = i.Operand.(int)}} case int: {if match != 0 {t.pc = i.Operand.(int)}}}" ∧
    Exec.case_Jmp = "t.pc = i.Operand.(int)" ∧
    Exec.case_Inc = "if i.Operand != nil {t.PopInt(); if err != nil {v.errorf(\"%s\", err); return }}; if n, ok := t.Pop().(datum.Datum); ok {datum.IncIntBy(n, delta, t.time); t.Push(datum.GetInt(n))} else {v.errorf(\"Unexpected type to increment: %T %q\", n, n); return }" ∧
    Exec.case_Dec = "if i.Operand != nil {t.PopInt(); if err != nil {v.errorf(\"%s\", err); return }}; if n, ok := t.Pop().(datum.Datum); ok {datum.DecIntBy(n, delta, t.time); t.Push(datum.GetInt(n))} else {v.errorf(\"Unexpected type to increment: %T %q\", n, n); return }" ∧
    Exec.case_Iset = "t.PopInt(); if err != nil {v.errorf(\"%s\", err); return }; if n, ok := t.Pop().(datum.Datum); ok {datum.SetInt(n, value, t.time)} else {v.errorf(\"Unexpected type to iset: %T %q\", n, n); return }" ∧
    Exec.case_Fset = "t.PopFloat(); if err != nil {v.errorf(\"%s\", err); return }; if n, ok := t.Pop().(datum.Datum); ok {datum.SetFloat(n, value, t.time)} else {v.errorf(\"Unexpected type to fset: %T %q\", n, n); return }" ∧
    Exec.case_Sset = "t.PopString(); if err != nil {v.errorf(\"%+v\", err); return }; if n, ok := t.Pop().(datum.Datum); ok {if b, isBuckets := n.(*datum.Buckets); isBuckets {strconv.ParseFloat(value, 64); if ferr != nil {v.errorf(\"conversion of %q to float failed: %s\", value, ferr); return }; b.Observe(f, t.time)} else {datum.SetString(n, value, t.time)}} else {v.errorf(\"Unexpected type to sset: %T %q\", n, n); return }" ∧
    Exec.case_Strptime = "t.PopString(); if err != nil {v.errorf(\"%+v\", err); return }; t.PopString(); if err != nil {v.errorf(\"%+v\", err); return }; if cached, ok := v.timeMemos.Get(memoKey); !ok {v.ParseTime(layout, ts); if !v.terminate {v.timeMemos.Add(memoKey, tm)}; t.time = tm} else {t.time = cached.(time.Time)}" ∧
    Exec.case_Timestamp = "if t.time.IsZero() {t.Push(time.Now().Unix())} else {t.Push(t.time.Unix())}" ∧
    Exec.case_Settime = "t.PopInt(); if err != nil {v.errorf(\"Failed to pop a timestamp off the stack: %s\", err); return }; t.time = time.Unix(ts, 0).UTC()" ∧
    Exec.case_Capref = "t.Pop(); if !ok {v.errorf(\"Invalid re index %v, not an int\", val); return }; if !ok {v.errorf(\"Invalid operand %v, not an int\", i.Operand); return }; if len(t.matches[re]) <= op {v.errorf(\"Not enough capture groups matched from %v to select %dth\", t.matches[re], op); return }; t.Push(t.matches[re][op])" ∧
    Exec.case_Str = "t.Push(v.str[i.Operand.(int)])" ∧
    Exec.case_Push = "t.Push(i.Operand)" ∧
    Exec.case_Fadd_Fsub_Fmul_Fdiv_Fmod_Fpow = "t.PopFloat(); if err != nil {v.errorf(\"%s\", err); return }; t.PopFloat(); if err != nil {v.errorf(\"%s\", err); return }; switch i.Opcode {case code.Fadd: {t.Push(a + b)} case code.Fsub: {t.Push(a - b)} case code.Fmul: {t.Push(a * b)} case code.Fdiv: {t.Push(a / b)} case code.Fmod: {t.Push(math.Mod(a, b))} case code.Fpow: {t.Push(math.Pow(a, b))}}" ∧
    Exec.case_Iadd_Isub_Imul_Idiv_Imod_Ipow_Shl_Shr_And_Or_Xor = "t.PopInt(); if err != nil {v.errorf(\"%s\", err); return }; t.PopInt(); if err != nil {v.errorf(\"%s\", err); return }; switch i.Opcode {case code.Iadd: {t.Push(a + b)} case code.Isub: {t.Push(a - b)} case code.Imul: {t.Push(a * b)} case code.Idiv: {if b == 0 {v.errorf(\"Divide by zero %d %% %d\", a, b); return }; t.Push(a / b)} case code.Imod: {if b == 0 {v.errorf(\"Divide by zero %d %% %d\", a, b); return }; t.Push(a % b)} case code.Ipow: {t.Push(int64(math.Pow(float64(a), float64(b))))} case code.Shl: {if b < 0 || b >= math.MaxInt32 {v.errorf(\"shift int out of range\"); return }; t.Push(a << uint(b))} case code.Shr: {if b < 0 || b >= math.MaxInt32 {v.errorf(\"shift int out of range\"); return }; t.Push(a >> uint(b))} case code.And: {t.Push(a & b)} case code.Or: {t.Push(a | b)} case code.Xor: {t.Push(a ^ b)}}" ∧
    Exec.case_Neg = "t.PopInt(); if err != nil {v.errorf(\"%s\", err); return }; t.Push(^a)" ∧
    Exec.case_Not = "t.Push(!a)" ∧
    Exec.case_Mload = "t.Push(v.Metrics[i.Operand.(int)])" ∧
    Exec.case_Dload = "make([]string, index); for a := index - 1; a >= 0; a-- {t.PopString(); if err != nil {v.errorf(\"%+v\", err); return }; keys[a] = s}; m.GetDatum(keys); if err != nil {v.errorf(\"dload (GetDatum) failed: %s\", err); return }; t.Push(d)" ∧
    Exec.case_Iget_Fget_Sget = "if !ok {v.errorf(\"Unexpected value on stack: %q\", d); return }; switch i.Opcode {case code.Iget: {t.Push(datum.GetInt(d))} case code.Fget: {t.Push(datum.GetFloat(d))} case code.Sget: {t.Push(datum.GetString(d))}}" ∧
    Exec.case_Del = "make([]string, index); for j := index - 1; j >= 0; j-- {t.PopString(); if err != nil {v.errorf(\"%+v\", err); return }; keys[j] = s}; m.RemoveDatum(keys); if err != nil {v.errorf(\"del (RemoveDatum) failed: %s\", err); return }" ∧
    Exec.case_Expire = "make([]string, index); for j := index - 1; j >= 0; j-- {t.PopString(); if err != nil {v.errorf(\"%+v\", err); return }; keys[j] = s}; if err := m.ExpireDatum(expiry, keys...); err != nil {v.errorf(\"%s\", err); return }" ∧
    Exec.case_Tolower = "t.PopString(); if err != nil {v.errorf(\"%+v\", err); return }; t.Push(strings.ToLower(s))" ∧
    Exec.case_Length = "t.PopString(); if err != nil {v.errorf(\"%+v\", err); return }; t.Push(len(s))" ∧
    Exec.case_S2i = "if i.Operand != nil {t.PopInt(); if err != nil {v.errorf(\"%s\", err); return }; if val <= 0 || val >= math.MaxInt32 {v.errorf(\"int32 out of range\"); return }; int(val)}; t.PopString(); if err != nil {v.errorf(\"%+v\", err); return }; strconv.ParseInt(str, base, 64); if err != nil {v.errorf(\"%s\", err); return }; t.Push(val)" ∧
    Exec.case_S2f = "t.PopString(); if err != nil {v.errorf(\"%+v\", err); return }; strconv.ParseFloat(str, 64); if err != nil {v.errorf(\"%s\", err); return }; t.Push(f)" ∧
    Exec.case_I2f = "t.PopInt(); if err != nil {v.errorf(\"%s\", err); return }; t.Push(float64(i))" ∧
    Exec.case_I2s = "t.PopInt(); if err != nil {v.errorf(\"%s\", err); return }; t.Push(fmt.Sprintf(\"%d\", i))" ∧
    Exec.case_F2s = "t.PopFloat(); if err != nil {v.errorf(\"%s\", err); return }; t.Push(fmt.Sprintf(\"%g\", f))" ∧
    Exec.case_Setmatched = "t.matched = i.Operand.(bool)" ∧
    Exec.case_Otherwise = "t.Push(!t.matched)" ∧
    Exec.case_Getfilename = "t.Push(v.input.Filename)" ∧
    Exec.case_Cat = "t.PopString(); if berr != nil {v.errorf(\"%+v\", berr); return }; t.PopString(); if aerr != nil {v.errorf(\"%+v\", aerr); return }; t.Push(a + b)" ∧
    Exec.case_Subst = "t.PopString(); if verr != nil {v.errorf(\"%+v\", verr); return }; t.PopString(); if nerr != nil {v.errorf(\"%+v\", nerr); return }; t.PopString(); if oerr != nil {v.errorf(\"%+v\", oerr); return }; t.Push(strings.ReplaceAll(val, old, repl))" ∧
    Exec.case_Rsubst = "t.PopInt(); if perr != nil {v.errorf(\"%+v\", perr); return }; t.PopString(); if verr != nil {v.errorf(\"%+v\", verr); return }; t.PopString(); if nerr != nil {v.errorf(\"%+v\", nerr); return }; t.Push(v.re[pat].ReplaceAllLiteralString(val, repl))" ∧
    Exec.case_default = "v.errorf(\"illegal instruction: %d\", i.Opcode)" ∧
    Exec.after = ""
theorem exec_shape : ExecShape :=
  ⟨rfl, rfl, rfl, rfl, rfl, rfl, rfl, rfl, rfl, rfl, rfl, rfl, rfl, rfl, rfl, rfl, rfl, rfl, rfl, rfl, rfl, rfl, rfl, rfl, rfl, rfl, rfl, rfl, rfl, rfl, rfl, rfl, rfl, rfl, rfl, rfl, rfl, rfl, rfl, rfl, rfl, rfl, rfl, rfl, rfl, rfl, rfl, rfl⟩

/-- the VM's `compare`: what `Model/VM.lean`'s comparison clauses stand for -/
def CompareShape : Prop :=
    Compare.body = "if v, ok := a.(bool); ok {boolToInt(v)}; if v, ok := b.(bool); ok {boolToInt(v)}; if n, lxIsInt = a.(int); lxIsInt {int64(n)} else {}; if n, rxIsInt = b.(int); rxIsInt {int64(n)} else {}; if lxIsFloat {if rxIsFloat {return compareFloat(lxF, rxF, opnd)}; if rxIsInt {return compareFloat(lxF, float64(rxI), opnd)}; if rxIsStr {strconv.ParseFloat(rxS, 64); if err != nil {return false, errors.Errorf(\"cannot compare %T %q with %T %q\", a, a, b, b)}; return compareFloat(lxF, rx, opnd)}; return false, errors.Errorf(\"cannot compare %T %q with %T %q\", a, a, b, b)}; if lxIsInt {if rxIsFloat {return compareFloat(float64(lxI), rxF, opnd)}; if rxIsInt {return compareInt(lxI, rxI, opnd)}; if rxIsStr {strconv.ParseFloat(rxS, 64); if err != nil {return false, errors.Errorf(\"cannot compare %T %q with %T %q\", a, a, b, b)}; return compareFloat(lxF, rx, opnd)}; return false, errors.Errorf(\"cannot compare %T %q with %T %q\", a, a, b, b)}; if lxIsStr {if lx, err := strconv.ParseFloat(lxS, 64); err == nil {return compare(lx, b, opnd)}; if lx, err := strconv.ParseInt(lxS, 10, 32); err == nil {return compare(lx, b, opnd)}; if rxIsStr {return compareString(lxS, rxS, opnd)}}; return false, errors.Errorf(\"cannot compare %T %q with %T %q\", a, a, b, b)"
theorem compare_shape : CompareShape :=
  rfl

/-- codegen's pre-order visit, clause by clause: what `Model/Lower.lean` and `Model/IR.lean`'s `emit` (C01, C03, C04, C21) stand for -/
def CodegenBeforeShape : Prop :=
    CodegenBefore.before = "" ∧
    CodegenBefore.switch = "switch n := node.(type)" ∧
    CodegenBefore.case_VarDecl = "if n.ExportedName != \"\" {} else {}; n.Type(); if types.IsDimension(t) {}; switch  {case types.Equals(types.Float, t): {} case types.Equals(types.String, t): {} case types.Equals(types.Buckets, t): {} case default: {if !types.IsComplete(t) {}}}; metrics.NewMetric(name, c.name, n.Kind, dtyp, n.Keys); m.SetSource(n.Pos().String()); if len(n.Keys) == 0 && n.Kind == metrics.Counter {m.GetDatum(); if err != nil {c.errorf(n.Pos(), \"%s\", err); return nil, n}; switch dtyp {case metrics.Int: {datum.SetInt(d, 0, time.Unix(0, 0))} case metrics.Float: {datum.SetFloat(d, 0, time.Unix(0, 0))} case default: {c.errorf(n.Pos(), \"Can't initialize to zero a %#v\", n); return nil, n}}}; if n.Kind == metrics.Histogram {if len(n.Buckets) < 2 {c.errorf(n.Pos(), \"a histogram need at least two boundaries\"); return nil, n}; if n.Buckets[0] > 0 {m.Buckets = append(m.Buckets, datum.Range{0, n.Buckets[0]})}; for range n.Buckets[1:] {if max <= min {c.errorf(n.Pos(), \"buckets boundaries must be sorted\"); return nil, n}; m.Buckets = append(m.Buckets, datum.Range{min, max})}; m.Buckets = append(m.Buckets, datum.Range{min, math.Inf(+1)}); if len(n.Keys) == 0 {m.GetDatum(); if err != nil {c.errorf(n.Pos(), \"%s\", err); return nil, n}}}; m.Hidden = n.Hidden; if n.Limit > math.MaxInt {c.errorf(n.Pos(), \"limit %d too large; max %d\", n.Limit, math.MaxInt); return nil, n}; m.Limit = int(n.Limit); n.Symbol.Binding = m; n.Symbol.Addr = len(c.obj.Metrics); c.obj.Metrics = append(c.obj.Metrics, m); return nil, n" ∧
    CodegenBefore.case_CondStmt = "c.newLabel(); c.newLabel(); if n.Cond != nil {n.Cond = ast.Walk(c, n.Cond); c.emit(n, code.Jnm, lElse)}; c.emit(n, code.Setmatched, false); n.Truth = ast.Walk(c, n.Truth); c.emit(n, code.Setmatched, true); if n.Else != nil {c.emit(n, code.Jmp, lEnd)}; c.setLabel(lElse); if n.Else != nil {n.Else = ast.Walk(c, n.Else)}; c.setLabel(lEnd); return nil, n" ∧
    CodegenBefore.case_PatternExpr = "regexp.Compile(n.Pattern); if err != nil {c.errorf(n.Pos(), \"%s\", err); return nil, n}; c.obj.Regexps = append(c.obj.Regexps, re); n.Index = len(c.obj.Regexps) - 1; return nil, n" ∧
    CodegenBefore.case_PatternFragment = "return nil, n" ∧
    CodegenBefore.case_StringLit = "c.obj.Strings = append(c.obj.Strings, n.Text); c.emit(n, code.Str, len(c.obj.Strings) - 1)" ∧
    CodegenBefore.case_IntLit = "c.emit(n, code.Push, n.I)" ∧
    CodegenBefore.case_FloatLit = "c.emit(n, code.Push, n.F)" ∧
    CodegenBefore.case_StopStmt = "c.emit(n, code.Stop, nil)" ∧
    CodegenBefore.case_IDTerm = "if n.Symbol == nil || n.Symbol.Kind != symbol.VarSymbol {break}; if n.Symbol.Binding == nil {c.errorf(n.Pos(), \"No metric bound to identifier %q\", n.Name); return nil, n}; c.emit(n, code.Mload, n.Symbol.Addr); c.emit(n, code.Dload, len(m.Keys)); if !n.Lvalue {n.Type(); if types.IsDimension(t) {len(t.(*types.Operator).Args)}; switch  {case types.Equals(t, types.Float): {c.emit(n, code.Fget, nil)} case types.Equals(t, types.Int): {c.emit(n, code.Iget, nil)} case types.Equals(t, types.String): {c.emit(n, code.Sget, nil)} case default: {c.errorf(n.Pos(), \"invalid type for get %q in %#v\", n.Type(), n); return nil, n}}}" ∧
    CodegenBefore.case_CaprefTerm = "if n.Symbol == nil || n.Symbol.Binding == nil {c.errorf(n.Pos(), \"No regular expression bound to capref %q\", n.Name); return nil, n}; c.emit(n, code.Push, rn.Index); c.emit(n, code.Capref, n.Symbol.Addr); if types.Equals(n.Type(), types.Float) {c.emit(n, code.S2f, nil)} else if types.Equals(n.Type(), types.Int) {c.emit(n, code.S2i, nil)}" ∧
    CodegenBefore.case_IndexedExpr = "if args, ok := n.Index.(*ast.ExprList); ok {for range args.Children {ast.Walk(c, arg); if types.Equals(arg.Type(), types.Float) {c.emit(n, code.F2s, nil)} else if types.Equals(arg.Type(), types.Int) {c.emit(n, code.I2s, nil)}}}; ast.Walk(c, n.LHS); return nil, n" ∧
    CodegenBefore.case_DecoDecl = "return nil, n" ∧
    CodegenBefore.case_DecoStmt = "len(c.decos); c.decos = append(c.decos, n); if n.Decl == nil {c.errorf(n.Pos(), \"No definition found for decorator %q\", n.Name); return nil, n}; c.decoExpansions++; if c.decoExpansions > maxDecoExpansions {if c.decoExpansions == maxDecoExpansions+1 {c.errors.Add(n.Pos(), fmt.Sprintf(\"Decorators expand to more than %d decorated blocks.\\n\\tTry using fewer decorators inside decorator definitions.\", maxDecoExpansions))}; c.decos = c.decos[:decoLen]; return nil, n}; ast.Walk(c, n.Decl.Block); if len(c.decos) > decoLen {}; return nil, n" ∧
    CodegenBefore.case_NextStmt = "c.decos = c.decos[:top]; ast.Walk(c, deco.Block); return nil, n" ∧
    CodegenBefore.case_OtherwiseStmt = "c.emit(n, code.Otherwise, nil)" ∧
    CodegenBefore.case_DelStmt = "if n.Expiry > 0 {c.emit(n, code.Push, n.Expiry)}; ast.Walk(c, n.N); c.pc(); c.obj.Program[pc].Opcode = code.Del; if n.Expiry > 0 {c.obj.Program[pc].Opcode = code.Expire}" ∧
    CodegenBefore.case_BinaryExpr = "switch n.Op {case parser.AND: {c.newLabel(); c.newLabel(); ast.Walk(c, n.LHS); c.emit(n, code.Jnm, lFalse); ast.Walk(c, n.RHS); c.emit(n, code.Jnm, lFalse); c.emit(n, code.Push, true); c.emit(n, code.Jmp, lEnd); c.setLabel(lFalse); c.emit(n, code.Push, false); c.setLabel(lEnd); return nil, n} case parser.OR: {c.newLabel(); c.newLabel(); ast.Walk(c, n.LHS); c.emit(n, code.Jm, lTrue); ast.Walk(c, n.RHS); c.emit(n, code.Jm, lTrue); c.emit(n, code.Push, false); c.emit(n, code.Jmp, lEnd); c.setLabel(lTrue); c.emit(n, code.Push, true); c.setLabel(lEnd); return nil, n} case parser.ADD_ASSIGN: {if !types.Equals(n.Type(), types.Int) {ast.Walk(c, n.LHS)}} case default: {return c, n}}" ∧
    CodegenBefore.after = "return c, node"
theorem codegenBefore_shape : CodegenBeforeShape :=
  ⟨rfl, rfl, rfl, rfl, rfl, rfl, rfl, rfl, rfl, rfl, rfl, rfl, rfl, rfl, rfl, rfl, rfl, rfl, rfl, rfl⟩

/-- codegen's post-order visit, clause by clause -/
def CodegenAfterShape : Prop :=
    CodegenAfter.before = "" ∧
    CodegenAfter.switch = "switch n := node.(type)" ∧
    CodegenAfter.case_BuiltinExpr = "if n.Args != nil {len(n.Args.(*ast.ExprList).Children)}; switch n.Name {case \"bool\": {} case \"int\", \"float\", \"string\": {if arglen > 1 {c.errorf(n.Pos(), \"too many arguments to builtin %q: %#v\", n.Name, n); return n}; if err := c.emitConversion(n, n.Args.(*ast.ExprList).Children[0].Type(), n.Type()); err != nil {c.errorf(n.Pos(), \"%s on node %v\", err.Error(), n); return n}} case \"subst\": {if types.Equals(n.Args.(*ast.ExprList).Children[0].Type(), types.Pattern) {c.emit(n, code.Push, index); c.emit(n, code.Rsubst, arglen)} else {c.emit(n, code.Subst, arglen)}} case default: {c.emit(n, builtin[n.Name], arglen)}}" ∧
    CodegenAfter.case_UnaryExpr = "switch n.Op {case parser.INC: {c.emit(n, code.Inc, nil)} case parser.DEC: {c.emit(n, code.Dec, nil)} case parser.NOT: {c.emit(n, code.Neg, nil)} case parser.MATCH: {c.emit(n, code.Match, index)}}" ∧
    CodegenAfter.case_BinaryExpr = "switch n.Op {case parser.LT, parser.GT, parser.LE, parser.GE, parser.EQ, parser.NE: {c.newLabel(); c.newLabel(); switch n.Op {case parser.LT: {} case parser.GT: {} case parser.LE: {} case parser.GE: {} case parser.EQ: {} case parser.NE: {}}; if types.Equals(n.LHS.Type(), n.RHS.Type()) {switch n.LHS.Type() {case types.Float: {} case types.Int: {} case types.String: {} case default: {if types.Equals(n.LHS.Type(), types.String) {}}}}; c.emit(n, cmpOp, cmpArg); c.emit(n, jumpOp, lFail); c.emit(n, code.Push, true); c.emit(n, code.Jmp, lEnd); c.setLabel(lFail); c.emit(n, code.Push, false); c.setLabel(lEnd)} case parser.ADD_ASSIGN: {switch  {case types.Equals(n.Type(), types.Int): {c.emit(n, code.Inc, 0)} case types.Equals(n.Type(), types.Float), types.Equals(n.Type(), types.String): {getOpcodeForType(parser.PLUS, n.Type()); if err != nil {c.errorf(n.Pos(), \"%s\", err); return n}; c.emit(n, opcode, nil); getOpcodeForType(parser.ASSIGN, n.Type()); if err != nil {c.errorf(n.Pos(), \"%s\", err); return n}; c.emit(n, opcode, nil)} case default: {c.errorf(n.Pos(), \"invalid type for add-assignment: %v\", n.Type()); return n}}} case parser.PLUS, parser.MINUS, parser.MUL, parser.DIV, parser.MOD, parser.POW, parser.ASSIGN: {getOpcodeForType(n.Op, n.Type()); if err != nil {c.errorf(n.Pos(), \"%s\", err); return n}; c.emit(n, opcode, nil)} case parser.BITAND: {c.emit(n, code.And, nil)} case parser.BITOR: {c.emit(n, code.Or, nil)} case parser.XOR: {c.emit(n, code.Xor, nil)} case parser.SHL: {c.emit(n, code.Shl, nil)} case parser.SHR: {c.emit(n, code.Shr, nil)} case parser.MATCH, parser.NOT_MATCH: {switch v := n.RHS.(type) {case *ast.PatternExpr: {c.emit(n, code.Smatch, index)} case default: {c.errorf(n.Pos(), \"unexpected rhs expression for match %#v\", n.RHS); return n}}; if n.Op == parser.NOT_MATCH {c.emit(n, code.Not, nil)}} case default: {c.errorf(n.Pos(), \"unexpected op %v\", n.Op)}}" ∧
    CodegenAfter.case_ConvExpr = "if err := c.emitConversion(n, n.N.Type(), n.Type()); err != nil {c.errorf(n.Pos(), \"internal error: %s on node %v\", err.Error(), n); return n}" ∧
    CodegenAfter.after = "return node"
theorem codegenAfter_shape : CodegenAfterShape :=
  ⟨rfl, rfl, rfl, rfl, rfl, rfl, rfl⟩

/-- the checker's pre-order visit, clause by clause: what `Model/Scope.lean` (C24) stands for, and what decides which programs reach the VM (C03, C04) -/
def CheckerBeforeShape : Prop :=
    CheckerBefore.before = "c.depth++; if c.depth > c.maxRecursionDepth {if !c.tooDeep {c.errors.Add(node.Pos(), fmt.Sprintf(\"Expression exceeded maximum recursion depth of %d\", c.maxRecursionDepth)); c.tooDeep = true}; c.depth--; return nil, node}" ∧
    CheckerBefore.switch = "switch n := node.(type)" ∧
    CheckerBefore.case_StmtList = "n.Scope = symbol.NewScope(c.scope); c.scope = n.Scope; return c, n" ∧
    CheckerBefore.case_CondStmt = "n.Scope = symbol.NewScope(c.scope); c.scope = n.Scope; return c, n" ∧
    CheckerBefore.case_BuiltinExpr = "if n.Name == \"subst\" {c.noRegexSymbols = true}; return c, n" ∧
    CheckerBefore.case_CaprefTerm = "if n.Symbol == nil {c.scope.Lookup(n.Name, symbol.CaprefSymbol); if sym == nil {fmt.Sprintf(\"Capture group `$%s' was not defined by a regular expression visible to this scope.\", n.Name); if n.IsNamed {fmt.Sprintf(\"%s\\n\\tTry using `(?P<%s>...)' to name the capture group.\", msg, n.Name)} else {fmt.Sprintf(\"%s\\n\\tCheck that there are at least %s pairs of parentheses.\", msg, n.Name)}; c.errors.Add(n.Pos(), msg); c.depth--; return nil, n}; sym.Used = true; n.Symbol = sym}; return c, n" ∧
    CheckerBefore.case_VarDecl = "n.Symbol = symbol.NewSymbol(n.Name, symbol.VarSymbol, n.Pos()); if alt := c.scope.Insert(n.Symbol); alt != nil {c.errors.Add(n.Pos(), fmt.Sprintf(\"Redeclaration of metric `%s' previously declared at %s\", n.Name, alt.Pos)); c.depth--; return nil, n}; if n.Kind == metrics.Histogram {c.histograms[n.Symbol] = struct{}{}}; switch n.Kind {case metrics.Counter, metrics.Gauge, metrics.Timer, metrics.Histogram: {types.NewVariable()} case metrics.Text: {} case default: {c.errors.Add(n.Pos(), fmt.Sprintf(\"internal compiler error: unrecognised Kind %v for declNode %v\", n.Kind, n)); c.depth--; return nil, n}}; if len(n.Buckets) > 0 && n.Kind != metrics.Histogram {c.errors.Add(n.Pos(), fmt.Sprintf(\"Can't specify buckets for non-histogram metric `%s'.\", n.Name)); c.depth--; return nil, n}; if len(n.Keys) > 0 {make([]types.Type, 0, len(n.Keys)); for i := 0; i < len(n.Keys); i++ {append(keyTypes, types.NewVariable())}; append(keyTypes, rType); n.Symbol.Type = types.Dimension(keyTypes...)} else {n.Symbol.Type = rType}; return c, n" ∧
    CheckerBefore.case_IDTerm = "if n.Symbol == nil {if sym := c.scope.Lookup(n.Name, symbol.VarSymbol); sym != nil {sym.Used = true; n.Symbol = sym} else if sym := c.scope.Lookup(n.Name, symbol.PatternSymbol); sym != nil {sym.Used = true; n.Symbol = sym} else {fmt.Sprintf(\"Try adding `counter %s' to the top of the program.\", n.Name); if n.Name == strings.ToUpper(n.Name) {fmt.Sprintf(\"Try adding `const %s /.../' earlier in the program.\", n.Name)}; c.errors.Add(n.Pos(), fmt.Sprintf(\"Identifier `%s' not declared.\\n\\t%s\", n.Name, sug)); c.depth--; return nil, n}}; return c, n" ∧
    CheckerBefore.case_DecoDecl = "n.Symbol = symbol.NewSymbol(n.Name, symbol.DecoSymbol, n.Pos()); n.Symbol.Binding = n; if alt := c.scope.Insert(n.Symbol); alt != nil {c.errors.Add(n.Pos(), fmt.Sprintf(\"Redeclaration of decorator `@%s' previously declared at %s\", n.Name, alt.Pos)); c.depth--; return nil, n}; c.decoScopes = append(c.decoScopes, symbol.NewScope(nil)); return c, n" ∧
    CheckerBefore.case_DecoStmt = "if sym := c.scope.Lookup(n.Name, symbol.DecoSymbol); sym != nil {if sym.Binding == nil {c.errors.Add(n.Pos(), fmt.Sprintf(\"Internal error: Decorator %q not bound to its definition.\", n.Name)); c.depth--; return nil, n}; sym.Used = true; n.Decl = sym.Binding.(*ast.DecoDecl)} else {c.errors.Add(n.Pos(), fmt.Sprintf(\"Decorator `@%s' is not defined.\\n\\tTry adding a definition `def %s {}' earlier in the program.\", n.Name, n.Name)); c.depth--; return nil, n}; n.Scope = symbol.NewScope(c.scope); if n.Decl == nil {c.errors.Add(n.Pos(), fmt.Sprintf(\"Internal error: no declaration for decorator: %#v\", n)); c.depth--; return nil, n}; if n.Decl.Scope == nil {c.errors.Add(n.Pos(), fmt.Sprintf(\"Decorator `@%s' is not completely defined yet.\\n\\tTry removing @%s from here.\", n.Name, n.Name)); c.depth--; return nil, n}; n.Scope.CopyFrom(n.Decl.Scope); c.scope = n.Scope; return c, n" ∧
    CheckerBefore.case_PatternFragment = "if !ok {c.errors.Add(n.Pos(), fmt.Sprintf(\"Internal error: no identifier attached to pattern fragment %#v\", n)); c.depth--; return nil, n}; n.Symbol = symbol.NewSymbol(id.Name, symbol.PatternSymbol, id.Pos()); if alt := c.scope.Insert(n.Symbol); alt != nil {c.errors.Add(n.Pos(), fmt.Sprintf(\"Redefinition of pattern constant `%s' previously defined at %s\", id.Name, alt.Pos)); c.depth--; return nil, n}; n.Symbol.Binding = n; n.Symbol.Type = types.Pattern; return c, n" ∧
    CheckerBefore.case_DelStmt = "n.N = ast.Walk(c, n.N); return c, n" ∧
    CheckerBefore.after = "return c, node"
theorem checkerBefore_shape : CheckerBeforeShape :=
  ⟨rfl, rfl, rfl, rfl, rfl, rfl, rfl, rfl, rfl, rfl, rfl, rfl, rfl⟩

/-- the checker's post-order visit, clause by clause -/
def CheckerAfterShape : Prop :=
    CheckerAfter.before = "if c.tooDeep {return node}; defer func {c.depth--}()" ∧
    CheckerAfter.switch = "switch n := node.(type)" ∧
    CheckerAfter.case_StmtList = "c.checkSymbolTable(); c.scope = n.Scope.Parent; return n" ∧
    CheckerAfter.case_CondStmt = "switch n.Cond.(type) {case *ast.BinaryExpr, *ast.UnaryExpr: {if t := n.Cond.Type(); t != nil && (types.Equals(t, types.Int) || types.Equals(t, types.Float)) {c.errors.Add(n.Cond.Pos(), fmt.Sprintf(\"Can't interpret %s as a boolean expression here.\\n\\tTry using comparison operators to make the condition explicit.\", t))}} case *ast.OtherwiseStmt: {} case *ast.PatternExpr: {cond.SetType(types.Bool); n.Cond = cond} case default: {c.errors.Add(n.Cond.Pos(), fmt.Sprintf(\"Can't interpret %s as a boolean expression here.\\n\\tTry using comparison operators to make the condition explicit.\", n.Cond.Type()))}}; c.checkSymbolTable(); c.scope = n.Scope.Parent; return n" ∧
    CheckerAfter.case_DecoStmt = "c.scope = n.Scope.Parent; return n" ∧
    CheckerAfter.case_NextStmt = "if last < 0 {c.errors.Add(n.Pos(), \"Can't use `next' outside of a decorator.\"); return n}; if len(decoScope.Symbols) > 0 {c.errors.Add(n.Pos(), \"Can't use `next' statement twice in a decorator.\"); return n}; decoScope.CopyFrom(c.scope); return n" ∧
    CheckerAfter.case_DecoDecl = "if len(decoScope.Symbols) == 0 {c.errors.Add(n.Pos(), fmt.Sprintf(\"No symbols found in decorator `@%s'.\\n\\tTry adding a `next' statement inside the `{}' block.\", n.Name))}; n.Scope = decoScope; c.decoScopes = c.decoScopes[:last]; return n" ∧
    CheckerAfter.case_BinaryExpr = "n.LHS.Type(); if types.IsTypeError(lT) {n.SetType(lT); return n}; n.RHS.Type(); if types.IsTypeError(rT) {n.SetType(rT); return n}; switch n.Op {case parser.PLUS, parser.MATCH, parser.NOT_MATCH, parser.AND, parser.OR: {} case default: {if types.Equals(lT, types.Pattern) || types.Equals(rT, types.Pattern) {c.errors.Add(n.Pos(), fmt.Sprintf(\"Can't apply %s to a pattern.\\n\\tA pattern can be concatenated with `+', matched with `=~', or combined with `&&' and `||'.\", parser.Kind(n.Op))); n.SetType(types.Error); return n}}}; if (n.Op == parser.MATCH || n.Op == parser.NOT_MATCH) && types.Equals(lT, types.None) {c.errors.Add(n.LHS.Pos(), fmt.Sprintf(\"Can't apply %s to an expression that has no value.\", parser.Kind(n.Op))); n.SetType(types.Error); return n}; if (n.Op == parser.MATCH || n.Op == parser.NOT_MATCH) && types.Equals(lT, types.Pattern) {c.errors.Add(n.LHS.Pos(), fmt.Sprintf(\"Can't apply %s to a pattern; expecting the text to match on its left.\", parser.Kind(n.Op))); n.SetType(types.Error); return n}; switch n.Op {case parser.DIV, parser.MOD, parser.MUL, parser.MINUS, parser.PLUS, parser.POW: {types.LeastUpperBound(lT, rT); if types.AsTypeError(rType, &err) {if goerrors.Is(err, types.ErrTypeMismatch) {c.errors.Add(n.Pos(), fmt.Sprintf(\"type mismatch: can't apply %s to LHS of type %q with RHS of type %q.\", parser.Kind(n.Op), lT, rT))} else {c.errors.Add(n.Pos(), err.Error())}; n.SetType(err); return n}; types.Function(lT, rT, rType); types.NewVariable(); types.Function(t, t, t); types.Unify(wantType, gotType); if types.AsTypeError(uType, &err) {c.errors.Add(n.Pos(), err.Error()); n.SetType(err); return n}; if !types.Equals(rType, lT) {conv.SetType(rType); n.LHS = conv}; if !types.Equals(rType, rT) {conv.SetType(rType); n.RHS = conv}; if n.Op == parser.DIV || n.Op == parser.MOD {if i, ok := n.RHS.(*ast.IntLit); ok {if i.I == 0 {c.errors.Add(n.Pos(), \"Can't divide by zero.\"); n.SetType(types.Error); return n}}}} case parser.SHL, parser.SHR, parser.BITAND, parser.BITOR, parser.XOR, parser.NOT: {types.Function(rType, rType, rType); types.Function(lT, rT, types.NewVariable()); types.Unify(wantType, gotType); if types.AsTypeError(uType, &err) {if goerrors.Is(err, types.ErrTypeMismatch) {c.errors.Add(n.Pos(), fmt.Sprintf(\"Integer types expected for bitwise %s, got %s and %s\", parser.Kind(n.Op), lT, rT))} else {c.errors.Add(n.Pos(), err.Error())}; n.SetType(err); return n}} case parser.AND, parser.OR: {if v, ok := n.LHS.(*ast.PatternExpr); ok {match.SetType(types.Bool); n.LHS = match}; if v, ok := n.RHS.(*ast.PatternExpr); ok {match.SetType(types.Bool); n.RHS = match}; types.Function(rType, rType, rType); types.Function(lT, rT, types.NewVariable()); types.Unify(wantType, gotType); if types.AsTypeError(uType, &err) {if goerrors.Is(err, types.ErrTypeMismatch) {c.errors.Add(n.Pos(), fmt.Sprintf(\"Boolean types expected for logical %s, got %s and %s\", parser.Kind(n.Op), lT, rT))} else {c.errors.Add(n.Pos(), err.Error())}; n.SetType(err); return n}} case parser.LT, parser.GT, parser.LE, parser.GE, parser.EQ, parser.NE: {types.LeastUpperBound(lT, rT); if types.AsTypeError(t, &err) {if goerrors.Is(err, types.ErrTypeMismatch) {c.errors.Add(n.Pos(), fmt.Sprintf(\"type mismatch: can't apply %s to LHS of type %q with RHS of type %q.\", parser.Kind(n.Op), lT, rT))} else {c.errors.Add(n.Pos(), err.Error())}; n.SetType(err); return n}; types.Function(lT, rT, rType); types.Function(t, t, types.Bool); types.Unify(wantType, gotType); if types.AsTypeError(uType, &err) {c.errors.Add(n.Pos(), err.Error()); n.SetType(err); return n}; if !types.Equals(t, lT) {conv.SetType(t); n.LHS = conv}; if !types.Equals(t, rT) {conv.SetType(t); n.RHS = conv}} case parser.ASSIGN, parser.ADD_ASSIGN: {types.LeastUpperBound(lT, rT); types.Unify(rType, t); if types.AsTypeError(uType, &err) {c.errors.Add(n.Pos(), err.Error()); n.SetType(err); return n}; if n.Op == parser.ADD_ASSIGN && c.isHistogram(n.LHS) {c.errors.Add(n.Pos(), \"Can't apply ADD_ASSIGN to a histogram; assign the observed value to it instead.\"); n.SetType(types.Error); return n}; switch v := n.LHS.(type) {case *ast.IDTerm: {v.Lvalue = true} case *ast.IndexedExpr: {v.LHS.(*ast.IDTerm).Lvalue = true} case default: {c.errors.Add(n.LHS.Pos(), \"Can't assign to expression on left; expecting a variable here.\"); n.SetType(types.Error); return n}}} case parser.MATCH, parser.NOT_MATCH: {types.Function(types.NewVariable(), types.Pattern, rType); types.Function(lT, rT, types.NewVariable()); types.Unify(wantType, gotType); if types.AsTypeError(uType, &err) {if goerrors.Is(err, types.ErrTypeMismatch) {c.errors.Add(n.Pos(), fmt.Sprintf(\"Parameter to %s has a %s.\", parser.Kind(n.Op), err))} else {c.errors.Add(n.Pos(), err.Error())}; n.SetType(err); return n}; if !types.Equals(rT, types.Pattern) {n.RHS = ast.Walk(c, &ast.PatternExpr{Expr: n.RHS})}} case default: {c.errors.Add(n.Pos(), fmt.Sprintf(\"Unexpected operator %s (%v) in node %#v\", parser.Kind(n.Op), n.Op, n)); n.SetType(types.InternalError); return n}}; n.SetType(rType); return n" ∧
    CheckerAfter.case_UnaryExpr = "if types.IsTypeError(n.Expr.Type()) {n.SetType(n.Expr.Type()); return n}; switch n.Op {case parser.NOT: {if types.Equals(n.Expr.Type(), types.Pattern) {c.errors.Add(n.Expr.Pos(), \"Can't apply `~' to a pattern.\"); n.SetType(types.Error); return n}; types.Function(types.Int, rType); types.Function(n.Expr.Type(), types.NewVariable()); types.Unify(wantType, gotType); if types.AsTypeError(uType, &err) {c.errors.Add(n.Expr.Pos(), fmt.Sprintf(\"%s for `~' operator.\", err)); n.SetType(err); return n}} case parser.INC, parser.DEC: {switch v := n.Expr.(type) {case *ast.IDTerm: {v.Lvalue = true} case *ast.IndexedExpr: {v.LHS.(*ast.IDTerm).Lvalue = true} case default: {c.errors.Add(n.Expr.Pos(), \"Can't assign to expression; expecting a variable here.\"); n.SetType(types.Error); return n}}; if c.isHistogram(n.Expr) {c.errors.Add(n.Pos(), fmt.Sprintf(\"Can't apply %s to a histogram; assign the observed value to it instead.\", parser.Kind(n.Op))); n.SetType(types.Error); return n}; types.NewVariable(); types.Function(types.Int, types.Int); types.Function(n.Expr.Type(), rType); types.Unify(wantType, gotType); if types.AsTypeError(uType, &err) {c.errors.Add(n.Pos(), err.Error()); n.SetType(err); return n}; if !ok {c.errors.Add(n.Pos(), fmt.Sprintf(\"internal error: unexpected type for Expr %v\", uType)); n.SetType(types.InternalError); return n}; if !types.OccursIn(types.Int, []types.Type{uTypeOperator.Args[0]}) {c.errors.Add(n.Expr.Pos(), fmt.Sprintf(\"type mismatch: expecting an Int for %s, not %v.\", parser.Kind(n.Op), n.Expr.Type())); n.SetType(types.Error); return n}} case parser.MATCH: {types.Function(types.Pattern, rType); types.Function(n.Expr.Type(), types.NewVariable()); types.Unify(wantType, gotType); if types.AsTypeError(uType, &err) {if goerrors.Is(err, types.ErrTypeMismatch) {c.errors.Add(n.Pos(), fmt.Sprintf(\"type mismatch: Unary MATCH expects Pattern, received %s\", n.Expr.Type()))} else {c.errors.Add(n.Pos(), err.Error())}; n.SetType(err); return n}} case default: {c.errors.Add(n.Pos(), fmt.Sprintf(\"unknown unary op %s in expr %#v\", parser.Kind(n.Op), n)); n.SetType(types.InternalError); return n}}; n.SetType(rType); return n" ∧
    CheckerAfter.case_ExprList = "for range n.Children {if types.IsTypeError(arg.Type()) {n.SetType(arg.Type()); return n}; append(argTypes, arg.Type())}; n.SetType(types.Dimension(argTypes...)); return n" ∧
    CheckerAfter.case_IndexedExpr = "if !ok {return n.LHS}; for range exprList.Children {if types.IsTypeError(arg.Type()) {n.SetType(arg.Type()); return n}; append(argTypes, arg.Type())}; switch v := n.LHS.(type) {case *ast.IDTerm: {if v.Symbol == nil {n.SetType(types.Error); return n}; if types.Equals(types.Pattern, v.Type()) {return ast.Walk(c, &ast.PatternExpr{Expr: v})}; if !types.IsDimension(v.Type()) {if len(argTypes) > 0 {c.errors.Add(n.Pos(), \"Index taken on unindexable expression\"); n.SetType(types.Error)} else {n.SetType(v.Type())}; return n}} case default: {c.errors.Add(n.Pos(), \"Index taken on unindexable expression\"); n.SetType(types.Error); return n}}; for range argTypes {if types.Equals(t, types.Pattern) {c.errors.Add(exprList.Children[i].Pos(), \"Can't use a pattern as an index key.\"); n.SetType(types.Error); return n}; if types.Equals(t, types.None) {c.errors.Add(exprList.Children[i].Pos(), \"Can't use an expression that has no value as an index key.\"); n.SetType(types.Error); return n}}; types.NewVariable(); append(argTypes, rType); types.Dimension(argTypes); if !ok {c.errors.Add(n.Pos(), fmt.Sprintf(\"internal error: unexpected type on LHS %v\", n.LHS.Type())); n.SetType(types.InternalError); return n}; types.Unify(wantType, gotType); if types.AsTypeError(uType, &err) {switch  {case len(wantType.Args) > len(gotType.Args): {c.errors.Add(n.Pos(), fmt.Sprintf(\"Not enough keys for indexed expression: expecting %d, received %d\", len(wantType.Args)-1, len(gotType.Args)-1)); n.SetType(types.Error); return n} case len(wantType.Args) < len(gotType.Args): {c.errors.Add(n.Pos(), fmt.Sprintf(\"Too many keys for indexed expression: expecting %d, received %d.\", len(wantType.Args)-1, len(gotType.Args)-1))} case default: {c.errors.Add(n.Pos(), err.Error())}}; n.SetType(types.Error); return n}; if len(exprList.Children) == 0 {return n.LHS}; n.SetType(rType); return n" ∧
    CheckerAfter.case_BuiltinExpr = "if args, ok := n.Args.(*ast.ExprList); ok {for range args.Children {append(argTypes, arg.Type())}}; types.NewVariable(); append(argTypes, rType); types.Function(argTypes); types.FreshType(types.Builtins[n.Name]); types.Unify(wantType, gotType); if types.AsTypeError(uType, &err) {if goerrors.Is(err, types.ErrTypeMismatch) {c.errors.Add(n.Pos(), fmt.Sprintf(\"call to `%s': %s\", n.Name, err))} else {c.errors.Add(n.Pos(), err.Error())}; n.SetType(err); return n}; n.SetType(rType); if args, ok := n.Args.(*ast.ExprList); ok {for range args.Children {if types.Equals(arg.Type(), types.Pattern) && !(n.Name == \"subst\" && i == 0) {c.errors.Add(arg.Pos(), fmt.Sprintf(\"Can't use a pattern as argument %d of %s().\", i+1, n.Name)); n.SetType(types.Error); return n}; if types.Equals(arg.Type(), types.None) {c.errors.Add(arg.Pos(), fmt.Sprintf(\"Can't use an expression that has no value as argument %d of %s().\", i+1, n.Name)); n.SetType(types.Error); return n}}}; switch n.Name {case \"strptime\": {if !types.Equals(gotType.Args[1], types.String) {c.errors.Add(n.Args.(*ast.ExprList).Children[1].Pos(), fmt.Sprintf(\"Expecting a format string for argument 2 of strptime(), not %v.\", gotType.Args[1])); n.SetType(types.Error); return n}; if f, ok := n.Args.(*ast.ExprList).Children[1].(*ast.StringLit); ok {strings.ReplaceAll(strings.ReplaceAll(f.Text, \"_\", \"\"), \"Z\", \"+\"); time.Parse(f.Text, timeStr); if err != nil {c.errors.Add(f.Pos(), fmt.Sprintf(\"invalid time format string %q\\n\\tRefer to the documentation at https://golang.org/pkg/time/#pkg-constants for advice.\", f.Text)); n.SetType(types.Error); return n}} else {c.errors.Add(n.Pos(), \"Internal error: exprlist child is not string literal.\"); return n}} case \"subst\": {c.noRegexSymbols = false; if args := n.Args.(*ast.ExprList).Children; types.Equals(args[0].Type(), types.Pattern) {if _, ok := args[0].(*ast.PatternExpr); !ok {c.errors.Add(args[0].Pos(), \"Can't use this expression as the pattern argument of subst().\\n\\tTry a regular expression literal or a `const'-defined pattern fragment.\"); n.SetType(types.Error); return n}}; return n} case \"tolower\": {if !types.Equals(gotType.Args[0], types.String) {c.errors.Add(n.Args.(*ast.ExprList).Children[0].Pos(), fmt.Sprintf(\"Expecting a String for argument 1 of tolower(), not %v.\", gotType.Args[0])); n.SetType(types.Error); return n}}}; return n" ∧
    CheckerAfter.case_PatternExpr = "if pe.pattern.String() == \"\" {return n}; n.Pattern = pe.pattern.String(); c.checkRegex(n.Pattern, n); return n" ∧
    CheckerAfter.case_PatternFragment = "n.Expr = ast.Walk(pe, n.Expr); if pe.pattern.String() == \"\" {return n}; if plen := pe.pattern.Len(); plen > c.maxRegexLength {c.errors.Add(n.Pos(), fmt.Sprintf(\"Exceeded maximum regular expression pattern length of %d bytes with %d.\\n\\tExcessively long patterns are likely to cause compilation and runtime performance problems.\", c.maxRegexLength, plen)); return n}; n.Pattern = pe.pattern.String(); return n" ∧
    CheckerAfter.case_DelStmt = "if ix, ok := n.N.(*ast.IndexedExpr); ok {if len(ix.Index.(*ast.ExprList).Children) == 0 {c.errors.Add(n.N.Pos(), \"Cannot delete this.\\n\\tTry deleting an index from this dimensioned metric.\"); return n}; ix.LHS.(*ast.IDTerm).Lvalue = true; return n}; c.errors.Add(n.N.Pos(), \"Cannot delete this.\\n\\tTry deleting from a dimensioned metric with this as an index.\")" ∧
    CheckerAfter.after = "return node"
theorem checkerAfter_shape : CheckerAfterShape :=
  ⟨rfl, rfl, rfl, rfl, rfl, rfl, rfl, rfl, rfl, rfl, rfl, rfl, rfl, rfl, rfl, rfl⟩

/-- the checker's pattern evaluator -/
def PatternEvalShape : Prop :=
    PatternEval.before = "" ∧
    PatternEval.switch = "switch v := n.(type)" ∧
    PatternEval.case_BinaryExpr = "if v.Op != parser.PLUS {p.errors.Add(v.Pos(), fmt.Sprintf(\"internal error: Invalid operator in concatenation: %v\", v)); return nil, n}; return p, v" ∧
    PatternEval.case_PatternLit = "p.pattern.WriteString(v.Pattern); return p, v" ∧
    PatternEval.case_IDTerm = "if v.Symbol == nil {return nil, n}; if !ok {p.errors.Add(v.Pos(), fmt.Sprintf(\"Can't append %s `%s' to this pattern.\\n\\tTry using a `const'-defined pattern fragment.\", v.Symbol.Kind, v.Symbol.Name)); return nil, n}; if pf.Pattern == \"\" {p.errors.Add(v.Pos(), fmt.Sprintf(\"Can't evaluate pattern fragment `%s' here.\\n\\tTry defining it earlier in the program.\", pf.Symbol.Name))}; p.pattern.WriteString(pf.Pattern); return p, v" ∧
    PatternEval.case_IntLit = "p.pattern.WriteString(fmt.Sprintf(\"%d\", v.I)); return p, v" ∧
    PatternEval.case_FloatLit = "p.pattern.WriteString(fmt.Sprintf(\"%g\", v.F)); return p, v" ∧
    PatternEval.case_StringLit = "p.pattern.WriteString(v.Text); return p, v" ∧
    PatternEval.after = "return p, n"
theorem patternEval_shape : PatternEvalShape :=
  ⟨rfl, rfl, rfl, rfl, rfl, rfl, rfl, rfl, rfl⟩

/-- the optimiser's pre-order visit: what `Model/Fold.lean` (C02) stands for -/
def OptBeforeShape : Prop :=
    OptBefore.before = "" ∧
    OptBefore.switch = "switch n := node.(type)" ∧
    OptBefore.case_PatternExpr_PatternFragment = "return nil, node" ∧
    OptBefore.case_BinaryExpr = "if n.Op == parser.MATCH || n.Op == parser.NOT_MATCH {n.LHS = ast.Walk(o, n.LHS); return nil, n}" ∧
    OptBefore.after = "return o, node"
theorem optBefore_shape : OptBeforeShape :=
  ⟨rfl, rfl, rfl, rfl, rfl⟩

/-- the optimiser's post-order visit, clause by clause -/
def OptAfterShape : Prop :=
    OptAfter.before = "" ∧
    OptAfter.switch = "switch n := node.(type)" ∧
    OptAfter.case_BinaryExpr = "switch lhs := n.LHS.(type) {case *ast.IntLit: {switch rhs := n.RHS.(type) {case *ast.IntLit: {switch n.Op {case parser.PLUS: {r.I = lhs.I + rhs.I} case parser.MINUS: {r.I = lhs.I - rhs.I} case parser.MUL: {r.I = lhs.I * rhs.I} case parser.DIV: {if rhs.I == 0 {o.errors.Add(n.Pos(), \"divide by zero\"); n.SetType(types.Error); return n}; r.I = lhs.I / rhs.I} case parser.MOD: {if rhs.I == 0 {o.errors.Add(n.Pos(), \"mod by zero\"); n.SetType(types.Error); return n}; r.I = lhs.I % rhs.I} case parser.POW: {r.I = int64(math.Pow(float64(lhs.I), float64(rhs.I)))} case default: {return node}}; return r} case *ast.FloatLit: {switch n.Op {case parser.PLUS: {r.F = float64(lhs.I) + rhs.F} case parser.MINUS: {r.F = float64(lhs.I) - rhs.F} case parser.MUL: {r.F = float64(lhs.I) * rhs.F} case parser.DIV: {if rhs.F == 0 {o.errors.Add(n.Pos(), \"divide by zero\"); n.SetType(types.Error); return n}; r.F = float64(lhs.I) / rhs.F} case parser.MOD: {if rhs.F == 0 {o.errors.Add(n.Pos(), \"mod by zero\"); n.SetType(types.Error); return n}; r.F = math.Mod(float64(lhs.I), rhs.F)} case parser.POW: {r.F = math.Pow(float64(lhs.I), rhs.F)} case default: {return node}}; return r} case default: {return node}}} case *ast.FloatLit: {switch rhs := n.RHS.(type) {case *ast.IntLit: {switch n.Op {case parser.PLUS: {r.F = lhs.F + float64(rhs.I)} case parser.MINUS: {r.F = lhs.F - float64(rhs.I)} case parser.MUL: {r.F = lhs.F * float64(rhs.I)} case parser.DIV: {if rhs.I == 0 {o.errors.Add(n.Pos(), \"divide by zero\"); n.SetType(types.Error); return n}; r.F = lhs.F / float64(rhs.I)} case parser.MOD: {if rhs.I == 0 {o.errors.Add(n.Pos(), \"mod by zero\"); n.SetType(types.Error); return n}; r.F = math.Mod(lhs.F, float64(rhs.I))} case parser.POW: {r.F = math.Pow(lhs.F, float64(rhs.I))} case default: {return node}}; return r} case *ast.FloatLit: {switch n.Op {case parser.PLUS: {r.F = lhs.F + rhs.F} case parser.MINUS: {r.F = lhs.F - rhs.F} case parser.MUL: {r.F = lhs.F * rhs.F} case parser.DIV: {if rhs.F == 0 {o.errors.Add(n.Pos(), \"divide by zero\"); n.SetType(types.Error); return n}; r.F = lhs.F / rhs.F} case parser.MOD: {if rhs.F == 0 {o.errors.Add(n.Pos(), \"mod by zero\"); n.SetType(types.Error); return n}; r.F = math.Mod(lhs.F, rhs.F)} case parser.POW: {r.F = math.Pow(lhs.F, rhs.F)} case default: {return node}}; return r} case default: {return node}}} case default: {return node}}" ∧
    OptAfter.case_default = "return node" ∧
    OptAfter.after = ""
theorem optAfter_shape : OptAfterShape :=
  ⟨rfl, rfl, rfl, rfl, rfl⟩

/-- the formatter's visit, clause by clause: what `Model/Unparse.lean` (C23) stands for -/
def UnparseBeforeShape : Prop :=
    UnparseBefore.before = "if u.emitTypes {u.emit(fmt.Sprintf(\"<%s>(\", n.Type()))}" ∧
    UnparseBefore.switch = "switch v := n.(type)" ∧
    UnparseBefore.case_StmtList = "for range v.Children {ast.Walk(u, child); u.newline()}" ∧
    UnparseBefore.case_ExprList = "if len(v.Children) > 0 {ast.Walk(u, v.Children[0]); for range v.Children[1:] {u.emit(\", \"); ast.Walk(u, child)}}" ∧
    UnparseBefore.case_CondStmt = "if v.Cond != nil {ast.Walk(u, v.Cond)}; u.emit(\" {\"); u.newline(); u.indent(); ast.Walk(u, v.Truth); if v.Else != nil {u.outdent(); u.emit(\"} else {\"); u.newline(); u.indent(); ast.Walk(u, v.Else)}; u.outdent(); u.emit(\"}\")" ∧
    UnparseBefore.case_PatternFragment = "u.emit(\"const \"); ast.Walk(u, v.ID); u.emit(\" \"); ast.Walk(u, v.Expr)" ∧
    UnparseBefore.case_PatternLit = "u.emit(\"/\" + strings.ReplaceAll(v.Pattern, \"/\", \"\\\\/\") + \"/\")" ∧
    UnparseBefore.case_BinaryExpr = "u.walkOperand(v.LHS, lhsNeedsParens(v.Op, v.LHS)); switch v.Op {case LT: {u.emit(\" < \")} case GT: {u.emit(\" > \")} case LE: {u.emit(\" <= \")} case GE: {u.emit(\" >= \")} case EQ: {u.emit(\" == \")} case NE: {u.emit(\" != \")} case SHL: {u.emit(\" << \")} case SHR: {u.emit(\" >> \")} case BITAND: {u.emit(\" & \")} case BITOR: {u.emit(\" | \")} case XOR: {u.emit(\" ^ \")} case NOT: {u.emit(\" ~ \")} case AND: {u.emit(\" && \")} case OR: {u.emit(\" || \")} case PLUS: {u.emit(\" + \")} case MINUS: {u.emit(\" - \")} case MUL: {u.emit(\" * \")} case DIV: {u.emit(\" / \")} case POW: {u.emit(\" ** \")} case ASSIGN: {u.emit(\" = \")} case ADD_ASSIGN: {u.emit(\" += \")} case MOD: {u.emit(\" % \")} case MATCH: {u.emit(\" =~ \")} case NOT_MATCH: {u.emit(\" !~ \")} case default: {u.emit(fmt.Sprintf(\"Unexpected op: %v\", v.Op))}}; u.walkOperand(v.RHS, rhsNeedsParens(v.Op, v.RHS))" ∧
    UnparseBefore.case_IDTerm = "u.emit(v.Name)" ∧
    UnparseBefore.case_CaprefTerm = "u.emit(\"$\" + v.Name)" ∧
    UnparseBefore.case_BuiltinExpr = "u.emit(v.Name + \"(\"); if v.Args != nil {ast.Walk(u, v.Args)}; u.emit(\")\")" ∧
    UnparseBefore.case_IndexedExpr = "ast.Walk(u, v.LHS); if len(v.Index.(*ast.ExprList).Children) > 0 {u.emit(\"[\"); ast.Walk(u, v.Index); u.emit(\"]\")}" ∧
    UnparseBefore.case_VarDecl = "if v.Hidden {u.emit(\"hidden \")}; switch v.Kind {case metrics.Counter: {u.emit(\"counter \")} case metrics.Gauge: {u.emit(\"gauge \")} case metrics.Timer: {u.emit(\"timer \")} case metrics.Text: {u.emit(\"text \")} case metrics.Histogram: {u.emit(\"histogram \")}}; u.emit(v.Name); if len(v.Keys) > 0 {make([]string, len(v.Keys)); for range v.Keys {keys[i] = keyName(k)}; u.emit(\" by \" + strings.Join(keys, \", \"))}; if v.ExportedName != \"\" {u.emit(\" as \" + quote(v.ExportedName))}; if v.Limit > 0 {u.emit(fmt.Sprintf(\" limit %d\", v.Limit))}; if len(v.Buckets) > 0 {buckets.WriteString(\" buckets \"); for range v.Buckets {buckets.WriteString(strconv.FormatFloat(f, 'g', -1, 64) + \", \")}; u.emit(buckets.String()[:buckets.Len()-2])}" ∧
    UnparseBefore.case_UnaryExpr = "switch v.Op {case INC: {u.walkOperand(v.Expr, precedence(v.Expr) < precPostfix); u.emit(\"++\")} case DEC: {u.walkOperand(v.Expr, precedence(v.Expr) < precPostfix); u.emit(\"--\")} case NOT: {u.emit(\" ~\"); u.walkOperand(v.Expr, precedence(v.Expr) < precUnary)} case MATCH: {ast.Walk(u, v.Expr)} case default: {u.emit(fmt.Sprintf(\"Unexpected op: %s\", Kind(v.Op)))}}" ∧
    UnparseBefore.case_StringLit = "u.emit(quote(v.Text))" ∧
    UnparseBefore.case_IntLit = "u.emit(strconv.FormatInt(v.I, 10))" ∧
    UnparseBefore.case_FloatLit = "strconv.FormatFloat(v.F, 'g', -1, 64); if !strings.ContainsAny(f, \".eEIN\") {}; u.emit(f)" ∧
    UnparseBefore.case_DecoDecl = "u.emit(fmt.Sprintf(\"def %s {\", v.Name)); u.newline(); u.indent(); ast.Walk(u, v.Block); u.outdent(); u.emit(\"}\")" ∧
    UnparseBefore.case_DecoStmt = "u.emit(fmt.Sprintf(\"@%s {\", v.Name)); u.newline(); u.indent(); ast.Walk(u, v.Block); u.outdent(); u.emit(\"}\")" ∧
    UnparseBefore.case_NextStmt = "u.emit(\"next\")" ∧
    UnparseBefore.case_OtherwiseStmt = "u.emit(\"otherwise\")" ∧
    UnparseBefore.case_DelStmt = "u.emit(\"del \"); ast.Walk(u, v.N); if v.Expiry > 0 {u.emit(\" after \" + durationLiteral(v.Expiry))}; u.newline()" ∧
    UnparseBefore.case_ConvExpr = "ast.Walk(u, v.N)" ∧
    UnparseBefore.case_PatternExpr = "ast.Walk(u, v.Expr)" ∧
    UnparseBefore.case_Error = "u.emit(\"// error\"); u.newline(); u.emit(v.Spelling)" ∧
    UnparseBefore.case_StopStmt = "u.emit(\"stop\")" ∧
    UnparseBefore.case_default = "panic(fmt.Sprintf(\"unfound undefined type %T\", n))" ∧
    UnparseBefore.after = "if u.emitTypes {u.emit(\")\")}; return nil, n"
theorem unparseBefore_shape : UnparseBeforeShape :=
  ⟨rfl, rfl, rfl, rfl, rfl, rfl, rfl, rfl, rfl, rfl, rfl, rfl, rfl, rfl, rfl, rfl, rfl, rfl, rfl, rfl, rfl, rfl, rfl, rfl, rfl, rfl, rfl, rfl⟩

end MtailVerif.Skeletons
