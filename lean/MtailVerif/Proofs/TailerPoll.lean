import MtailVerif.Model.TailerPoll
namespace MtailVerif.TailerPoll
open MtailVerif

theorem tailPath_nodes (t : T) (p : Bytes) : (tailPath t p).nodes = t.nodes := by
  unfold tailPath; split <;> rfl

theorem tailPath_nodup (t : T) (p : Bytes) (h : t.streams.Nodup) : (tailPath t p).streams.Nodup := by
  unfold tailPath
  split
  · exact h
  · rename_i hc
    rw [List.nodup_append]
    refine ⟨h, by simp, ?_⟩
    intro a ha b hb
    simp only [List.mem_singleton] at hb
    subst hb
    intro e; subst e
    exact hc (by simpa using ha)

theorem tailPath_mem (t : T) (p q : Bytes) : q ∈ (tailPath t p).streams ↔ q ∈ t.streams ∨ q = p := by
  unfold tailPath
  split
  · rename_i hc
    have : p ∈ t.streams := by simpa using hc
    constructor
    · intro h; exact Or.inl h
    · rintro (h | h); exact h; exact h ▸ this
  · simp

theorem kindOf_nodes (t t' : T) (h : t'.nodes = t.nodes) (p : Bytes) : kindOf t' p = kindOf t p := by
  simp [kindOf, h]

/-- what one pattern's glob pass does to the stream map -/
structure GlobPost (cfg : Cfg) (pat : Bytes) (t t' : T) (seen : List Bytes) : Prop where
  nodes : t'.nodes = t.nodes
  nodup : t.streams.Nodup → t'.streams.Nodup
  mono : ∀ q, q ∈ t.streams → q ∈ t'.streams
  added : ∀ q, q ∈ t'.streams → q ∈ t.streams ∨
    (q ∈ seen ∧ cfg.globMatch pat q = true ∧ kindOf t q = some .file ∧ cfg.ignore (baseName q) = false)
  hit : ∀ q ∈ seen, cfg.globMatch pat q = true → kindOf t q = some .file → cfg.ignore (baseName q) = false →
    q ∈ t'.streams

theorem glob_fold (cfg : Cfg) (pat : Bytes) (t0 : T) (ps : List Bytes) :
    ∀ (t : T) (done : List Bytes), GlobPost cfg pat t0 t done →
      GlobPost cfg pat t0 (ps.foldl (fun t p =>
        if cfg.globMatch pat p && kindOf t p = some .file && !cfg.ignore (baseName p) then tailPath t p else t) t)
        (done ++ ps) := by
  induction ps with
  | nil => intro t done h; simpa using h
  | cons p rest ih =>
    intro t done h
    simp only [List.foldl_cons]
    have hk : kindOf t p = kindOf t0 p := kindOf_nodes t0 t h.nodes p
    have key : GlobPost cfg pat t0
        (if cfg.globMatch pat p && kindOf t p = some .file && !cfg.ignore (baseName p) then tailPath t p else t)
        (done ++ [p]) := by
      by_cases hc : (cfg.globMatch pat p && kindOf t p = some .file && !cfg.ignore (baseName p)) = true
      · rw [if_pos hc]
        simp only [Bool.and_eq_true, decide_eq_true_eq, Bool.not_eq_true'] at hc
        obtain ⟨⟨hm, hkf⟩, hig⟩ := hc
        refine ⟨by rw [tailPath_nodes]; exact h.nodes, fun hn => tailPath_nodup _ _ (h.nodup hn), ?_, ?_, ?_⟩
        · intro q hq; exact (tailPath_mem t p q).mpr (Or.inl (h.mono q hq))
        · intro q hq
          rcases (tailPath_mem t p q).mp hq with hq | hq
          · rcases h.added q hq with h1 | ⟨h1, h2⟩
            · exact Or.inl h1
            · exact Or.inr ⟨by simp [h1], h2⟩
          · subst hq
            exact Or.inr ⟨by simp, hm, hk ▸ hkf, hig⟩
        · intro q hq hm' hk' hi'
          simp only [List.mem_append, List.mem_singleton] at hq
          rcases hq with hq | hq
          · exact (tailPath_mem t p q).mpr (Or.inl (h.hit q hq hm' hk' hi'))
          · exact (tailPath_mem t p q).mpr (Or.inr hq)
      · rw [if_neg hc]
        refine ⟨h.nodes, h.nodup, h.mono, ?_, ?_⟩
        · intro q hq
          rcases h.added q hq with h1 | ⟨h1, h2⟩
          · exact Or.inl h1
          · exact Or.inr ⟨by simp [h1], h2⟩
        · intro q hq hm' hk' hi'
          simp only [List.mem_append, List.mem_singleton] at hq
          rcases hq with hq | hq
          · exact h.hit q hq hm' hk' hi'
          · subst hq
            exfalso; apply hc
            simp [hm', hk, hk', hi']
    have := ih _ (done ++ [p]) key
    simpa using this

theorem globOne_post (cfg : Cfg) (t : T) (pat : Bytes) :
    GlobPost cfg pat t (globOne cfg t pat) (t.nodes.map (·.1)) := by
  have h0 : GlobPost cfg pat t t [] :=
    ⟨rfl, id, fun _ h => h, fun _ h => Or.inl h, fun q hq => by simp at hq⟩
  have := glob_fold cfg pat t (t.nodes.map (·.1)) t [] h0
  simpa [globOne] using this

theorem kindOf_mem (t : T) (p : Bytes) (k : Kind) (h : kindOf t p = some k) : p ∈ t.nodes.map (·.1) := by
  unfold kindOf at h
  cases hf : t.nodes.find? (·.1 = p) with
  | none => simp [hf] at h
  | some x =>
    have := List.find?_some hf
    have hm := List.mem_of_find?_eq_some hf
    simp only [decide_eq_true_eq] at this
    exact List.mem_map.mpr ⟨x, hm, this⟩

/-- the whole pattern poll, over any list of patterns -/
structure PollPost (cfg : Cfg) (pats : List Bytes) (t t' : T) : Prop where
  nodes : t'.nodes = t.nodes
  nodup : t.streams.Nodup → t'.streams.Nodup
  mono : ∀ q, q ∈ t.streams → q ∈ t'.streams
  added : ∀ q, q ∈ t'.streams → q ∈ t.streams ∨
    (kindOf t q = some .file ∧ cfg.ignore (baseName q) = false ∧ ∃ pat ∈ pats, cfg.globMatch pat q = true)
  hit : ∀ q, kindOf t q = some .file → cfg.ignore (baseName q) = false →
    (∃ pat ∈ pats, cfg.globMatch pat q = true) → q ∈ t'.streams

theorem pats_fold (cfg : Cfg) (pats : List Bytes) (t : T) : PollPost cfg pats t (pats.foldl (globOne cfg) t) := by
  induction pats generalizing t with
  | nil => exact ⟨rfl, id, fun _ h => h, fun _ h => Or.inl h, fun q _ _ h => by simp at h⟩
  | cons pat rest ih =>
    simp only [List.foldl_cons]
    have g := globOne_post cfg t pat
    have r := ih (globOne cfg t pat)
    have hk : ∀ q, kindOf (globOne cfg t pat) q = kindOf t q := fun q => kindOf_nodes t _ g.nodes q
    refine ⟨r.nodes.trans g.nodes, fun hn => r.nodup (g.nodup hn), fun q hq => r.mono q (g.mono q hq), ?_, ?_⟩
    · intro q hq
      rcases r.added q hq with h1 | ⟨h1, h2, pat', hp', hm'⟩
      · rcases g.added q h1 with h3 | ⟨_, h4, h5, h6⟩
        · exact Or.inl h3
        · exact Or.inr ⟨h5, h6, pat, by simp, h4⟩
      · exact Or.inr ⟨hk q ▸ h1, h2, pat', by simp [hp'], hm'⟩
    · intro q hkq hiq ⟨pat', hp', hm'⟩
      simp only [List.mem_cons] at hp'
      rcases hp' with rfl | hp'
      · exact r.mono q (g.hit q (kindOf_mem t q _ hkq) hm' hkq hiq)
      · exact r.hit q (by rw [hk]; exact hkq) hiq ⟨pat', hp', hm'⟩

end MtailVerif.TailerPoll
