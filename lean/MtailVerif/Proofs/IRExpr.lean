import MtailVerif.Proofs.IRMachine
/-! Expressions: the generated code computes what the reference semantics says. -/
namespace MtailVerif.IR
open MtailVerif MtailVerif.VM

variable {o : Oracle} {p : Prog} {inp : Input}

theorem Sim.of_steps {tv tv1 : Thread} {c c1 : Cfg} {len m : Nat} {r : R}
    (hs : Steps o p inp ⟨tv, c.st, c.memo⟩ ⟨tv1, c1.st, c1.memo⟩) (h : Sim o p inp tv1 c1 m r)
    (hpc : tv1.pc + m = tv.pc + len) (hm : tv1.matched = tv.matched) : Sim o p inp tv c len r := by
  cases r with
  | halt out st memo => exact Halts.prepend hs h
  | ok c' =>
    obtain ⟨tv', hs2, hn, hpc2, hm2⟩ := h
    exact ⟨tv', hs.trans hs2, hn, by omega, by rw [hm2, hm]⟩

def J (jm : Bool) (tgt : Nat) : Instr := if jm then iJm tgt else iJnm tgt

/-- `J (q+3); push x; jmp (q+4); push y` at `q`: pops the tested value and pushes `x` or `y` -/
theorem sim_tail4 (jm x y : Bool) (tv : Thread) (c : Cfg)
    (hc : CodeAt p.code tv.pc [J jm (tv.pc + 3), iPushB x, iJmp (tv.pc + 4), iPushB y])
    (hn : norm tv = c.t) :
    Sim o p inp tv c 4 (branch jm c fun tk c4 => .ok (pushB (if tk then y else x) c4)) := by
  have g0 : p.code[tv.pc]? = some (J jm (tv.pc + 3)) := hc.at (k := 0) rfl (by omega)
  have g1 : p.code[tv.pc + 1]? = some (iPushB x) := hc.at (k := 1) rfl (by omega)
  have g2 : p.code[tv.pc + 2]? = some (iJmp (tv.pc + 4)) := hc.at (k := 2) rfl (by omega)
  have g3 : p.code[tv.pc + 3]? = some (iPushB y) := hc.at (k := 3) rfl (by omega)
  have hstk : tv.stack = c.t.stack := by rw [← hn]; rfl
  unfold branch
  cases hs : c.t.stack with
  | nil =>
    simp only
    rw [hs] at hstk
    exact Halts.fault (c := ⟨tv, c.st, c.memo⟩) g0 (step_jump_empty jm _ tv c.st c.memo hstk)
  | cons v rest =>
    simp only
    rw [hs] at hstk
    have j := step_jump (o := o) (p := p) (inp := inp) jm (tv.pc + 3) tv c.st c.memo v rest hstk
    by_cases htk : taken jm v = true
    · simp only [htk, if_true] at j ⊢
      refine ⟨{ tv with pc := tv.pc + 4, stack := .bool y :: rest }, ?_, ?_, rfl, rfl⟩
      · refine .cons (c := ⟨tv, c.st, c.memo⟩) g0 j ?_
        refine .cons (c := ⟨{ tv with pc := tv.pc + 3, stack := rest }, c.st, c.memo⟩) g3 (step_pushB y _ _ _) ?_
        exact .refl _
      · simp only [pushB]; rw [← hn]; rfl
    · have htk' : taken jm v = false := by simpa using htk
      simp only [htk', Bool.false_eq_true, if_false] at j ⊢
      refine ⟨{ tv with pc := tv.pc + 4, stack := .bool x :: rest }, ?_, ?_, rfl, rfl⟩
      · refine .cons (c := ⟨tv, c.st, c.memo⟩) g0 j ?_
        refine .cons (c := ⟨{ tv with pc := tv.pc + 1, stack := rest }, c.st, c.memo⟩) g1 (step_pushB x _ _ _) ?_
        refine .cons (c := ⟨{ tv with pc := tv.pc + 1 + 1, stack := .bool x :: rest }, c.st, c.memo⟩) g2 (step_jmp _ _ _ _) ?_
        exact .refl _
      · simp only [pushB]; rw [← hn]; rfl


/-- the first test of a short-circuit operator: `J (q+L+4)` at `q`, with `push y` at `q+L+4` -/
theorem sim_short (jm y : Bool) (tv : Thread) (c : Cfg) (L : Nat) (k : Cfg → R)
    (g0 : p.code[tv.pc]? = some (J jm (tv.pc + L + 4)))
    (gT : p.code[tv.pc + L + 4]? = some (iPushB y))
    (hn : norm tv = c.t)
    (hk : ∀ v rest, tv.stack = v :: rest →
      Sim o p inp { tv with pc := tv.pc + 1, stack := rest } ⟨{ c.t with stack := rest }, c.st, c.memo⟩ (L + 4)
        (k ⟨{ c.t with stack := rest }, c.st, c.memo⟩)) :
    Sim o p inp tv c (L + 5) (branch jm c fun tk c2 => if tk then .ok (pushB y c2) else k c2) := by
  have hstk : tv.stack = c.t.stack := by rw [← hn]; rfl
  unfold branch
  cases hs : c.t.stack with
  | nil =>
    simp only
    rw [hs] at hstk
    exact Halts.fault (c := ⟨tv, c.st, c.memo⟩) g0 (step_jump_empty jm _ tv c.st c.memo hstk)
  | cons v rest =>
    simp only
    rw [hs] at hstk
    have j := step_jump (o := o) (p := p) (inp := inp) jm (tv.pc + L + 4) tv c.st c.memo v rest hstk
    by_cases htk : taken jm v = true
    · simp only [htk, if_true] at j ⊢
      refine ⟨{ tv with pc := tv.pc + L + 4 + 1, stack := .bool y :: rest }, ?_, ?_, by simp; omega, rfl⟩
      · refine .cons (c := ⟨tv, c.st, c.memo⟩) g0 j ?_
        refine .cons (c := ⟨{ tv with pc := tv.pc + L + 4, stack := rest }, c.st, c.memo⟩) gT (step_pushB y _ _ _) ?_
        exact .refl _
      · simp only [pushB]; rw [← hn]; rfl
    · have htk' : taken jm v = false := by simpa using htk
      simp only [htk', Bool.false_eq_true, if_false] at j ⊢
      have one : Steps o p inp ⟨tv, c.st, c.memo⟩ ⟨{ tv with pc := tv.pc + 1, stack := rest }, c.st, c.memo⟩ :=
        .cons (c := ⟨tv, c.st, c.memo⟩) g0 j (.refl _)
      exact Sim.of_steps (c1 := ⟨{ c.t with stack := rest }, c.st, c.memo⟩) one (hk v rest hstk) (by simp; omega) rfl

theorem emit_len_eq (a b : List Instr) (x : Nat) : (a ++ b).length = a.length + b.length := by simp

mutual
theorem sim_E : ∀ (e : E), okE e = true → ∀ (tv : Thread) (c : Cfg),
    CodeAt p.code tv.pc (emitE e tv.pc) → norm tv = c.t →
    Sim o p inp tv c (emitE e tv.pc).length (evalE o p inp e c)
  | .prim is args, hok, tv, c, hc, hn => by
    simp only [okE, Bool.and_eq_true] at hok
    rw [emitE] at hc ⊢
    rw [evalE, List.length_append]
    refine Sim.bind (sim_Es args hok.2 tv c hc.left hn) ?_
    intro c' tv' hn' hpc' _
    exact sim_prim is hok.1 tv' c' (hc.right.cast hpc'.symm) hn'
  | .cmp ci jm a b, hok, tv, c, hc, hn => by
    simp only [okE, Bool.and_eq_true] at hok
    obtain ⟨⟨hci, hoka⟩, hokb⟩ := hok
    rw [emitE] at hc ⊢
    rw [evalE]
    (try simp only at hc ⊢)
    generalize hla : (emitE a tv.pc).length = la at *
    generalize hlb : (emitE b (tv.pc + la)).length = lb at *
    have hca : CodeAt p.code tv.pc (emitE a tv.pc) := hc.left.left
    have hcb : CodeAt p.code (tv.pc + la) (emitE b (tv.pc + la)) := by
      have := hc.left.right; rwa [hla] at this
    have htail : CodeAt p.code (tv.pc + la + lb)
        [ci, J jm (tv.pc + la + lb + 4), iPushB true, iJmp (tv.pc + la + lb + 5), iPushB false] := by
      have := hc.right
      simp only [List.length_append, hla, hlb] at this
      have e : tv.pc + (la + lb) = tv.pc + la + lb := by omega
      rw [e] at this
      simpa [J] using this
    have hlen : (emitE a tv.pc ++ emitE b (tv.pc + la) ++
        [ci, if jm = true then iJm (tv.pc + la + lb + 4) else iJnm (tv.pc + la + lb + 4), iPushB true,
          iJmp (tv.pc + la + lb + 5), iPushB false]).length = la + (lb + (1 + 4)) := by
      simp [hla, hlb] <;> omega
    rw [hlen]
    have s1 := sim_E a hoka tv c hca hn
    rw [hla] at s1
    refine Sim.bind s1 ?_
    intro c1 tv1 hn1 hpc1 _
    have hcb1 : CodeAt p.code tv1.pc (emitE b tv1.pc) := by rw [hpc1]; exact hcb
    have s2 := sim_E b hokb tv1 c1 hcb1 hn1
    rw [hpc1, hlb] at s2
    refine Sim.bind s2 ?_
    intro c2 tv2 hn2 hpc2 _
    have hci2 : CodeAt p.code tv2.pc [ci] := by
      rw [hpc2, hpc1]
      exact (htail.left (a := [ci]) (b := [J jm (tv.pc + la + lb + 4), iPushB true, iJmp (tv.pc + la + lb + 5), iPushB false]))
    have s3 := sim_prim (o := o) (inp := inp) [ci] (by simp [hci]) tv2 c2 hci2 hn2
    refine Sim.bind s3 ?_
    intro c3 tv3 hn3 hpc3 _
    have hpc3' : tv3.pc = tv.pc + la + lb + 1 := by
      have : ([ci] : List Instr).length = 1 := rfl
      omega
    have ht4 : CodeAt p.code tv3.pc [J jm (tv3.pc + 3), iPushB true, iJmp (tv3.pc + 4), iPushB false] := by
      have := htail.right (a := [ci]) (b := [J jm (tv.pc + la + lb + 4), iPushB true, iJmp (tv.pc + la + lb + 5), iPushB false])
      rw [hpc3']
      have e1 : tv.pc + la + lb + 1 + 3 = tv.pc + la + lb + 4 := by omega
      have e2 : tv.pc + la + lb + 1 + 4 = tv.pc + la + lb + 5 := by omega
      rw [e1, e2]
      simpa using this
    have s4 := sim_tail4 (o := o) (inp := inp) jm true false tv3 c3 ht4 hn3
    have e : (fun tk c4 => R.ok (pushB (if tk = true then false else true) c4)) =
        (fun tk c4 => R.ok (pushB (!tk) c4)) := by
      funext tk c4; cases tk <;> rfl
    rw [e] at s4
    exact s4
  | .and a b, hok, tv, c, hc, hn => by
    simp only [okE, Bool.and_eq_true] at hok
    obtain ⟨hoka, hokb⟩ := hok
    rw [emitE] at hc ⊢
    rw [evalE]
    (try simp only at hc ⊢)
    generalize hla : (emitE a tv.pc).length = la at *
    generalize hlb : (emitE b (tv.pc + la + 1)).length = lb at *
    have hca : CodeAt p.code tv.pc (emitE a tv.pc) := hc.left.left.left
    have hj1 : CodeAt p.code (tv.pc + la) [iJnm (tv.pc + la + 1 + lb + 3)] := by
      have := hc.left.left.right; rwa [hla] at this
    have hcb : CodeAt p.code (tv.pc + la + 1) (emitE b (tv.pc + la + 1)) := by
      have := hc.left.right
      simp only [List.length_append, hla, List.length_cons, List.length_nil] at this
      have e : tv.pc + (la + (0 + 1)) = tv.pc + la + 1 := by omega
      rwa [e] at this
    have htail : CodeAt p.code (tv.pc + la + 1 + lb)
        [iJnm (tv.pc + la + 1 + lb + 3), iPushB true, iJmp (tv.pc + la + 1 + lb + 4), iPushB false] := by
      have := hc.right
      simp only [List.length_append, hla, hlb, List.length_cons, List.length_nil] at this
      have e : tv.pc + (la + (0 + 1) + lb) = tv.pc + la + 1 + lb := by omega
      rwa [e] at this
    have hlen : (emitE a tv.pc ++ [iJnm (tv.pc + la + 1 + lb + 3)] ++ emitE b (tv.pc + la + 1) ++
        [iJnm (tv.pc + la + 1 + lb + 3), iPushB true, iJmp (tv.pc + la + 1 + lb + 4), iPushB false]).length =
        la + (lb + 5) := by
      simp [hla, hlb] <;> omega
    rw [hlen]
    have s1 := sim_E a hoka tv c hca hn
    rw [hla] at s1
    refine Sim.bind s1 ?_
    intro c1 tv1 hn1 hpc1 _
    have g0 : p.code[tv1.pc]? = some (J false (tv1.pc + lb + 4)) := by
      have := hj1.at (k := 0) rfl (q := tv.pc + la) (by omega)
      rw [hpc1]
      have e : tv.pc + la + lb + 4 = tv.pc + la + 1 + lb + 3 := by omega
      rw [e]; simpa [J] using this
    have gT : p.code[tv1.pc + lb + 4]? = some (iPushB false) := by
      rw [hpc1]
      exact htail.at (k := 3) rfl (by omega)
    refine sim_short (o := o) (inp := inp) false false tv1 c1 lb _ g0 gT hn1 ?_
    intro v rest hstk
    have hcb1 : CodeAt p.code ({ tv1 with pc := tv1.pc + 1, stack := rest } : Thread).pc
        (emitE b ({ tv1 with pc := tv1.pc + 1, stack := rest } : Thread).pc) := by
      show CodeAt p.code (tv1.pc + 1) (emitE b (tv1.pc + 1))
      rw [hpc1]; exact hcb
    have s2 := sim_E b hokb { tv1 with pc := tv1.pc + 1, stack := rest } ⟨{ c1.t with stack := rest }, c1.st, c1.memo⟩ hcb1
      (by rw [← hn1]; rfl)
    have e2 : (emitE b ({ tv1 with pc := tv1.pc + 1, stack := rest } : Thread).pc).length = lb := by
      show (emitE b (tv1.pc + 1)).length = lb
      rw [hpc1]; exact hlb
    rw [e2] at s2
    refine Sim.bind s2 ?_
    intro c3 tv3 hn3 hpc3 _
    have hpc3' : tv3.pc = tv.pc + la + 1 + lb := by
      have : ({ tv1 with pc := tv1.pc + 1, stack := rest } : Thread).pc = tv1.pc + 1 := rfl
      rw [this] at hpc3; omega
    have ht4 : CodeAt p.code tv3.pc [J false (tv3.pc + 3), iPushB true, iJmp (tv3.pc + 4), iPushB false] := by
      rw [hpc3']; simpa [J] using htail
    have s4 := sim_tail4 (o := o) (inp := inp) false true false tv3 c3 ht4 hn3
    have e : (fun tk c4 => R.ok (pushB (if tk = true then false else true) c4)) =
        (fun tk c4 => R.ok (pushB (!tk) c4)) := by
      funext tk c4; cases tk <;> rfl
    rw [e] at s4
    exact s4
  | .or a b, hok, tv, c, hc, hn => by
    simp only [okE, Bool.and_eq_true] at hok
    obtain ⟨hoka, hokb⟩ := hok
    rw [emitE] at hc ⊢
    rw [evalE]
    (try simp only at hc ⊢)
    generalize hla : (emitE a tv.pc).length = la at *
    generalize hlb : (emitE b (tv.pc + la + 1)).length = lb at *
    have hca : CodeAt p.code tv.pc (emitE a tv.pc) := hc.left.left.left
    have hj1 : CodeAt p.code (tv.pc + la) [iJm (tv.pc + la + 1 + lb + 3)] := by
      have := hc.left.left.right; rwa [hla] at this
    have hcb : CodeAt p.code (tv.pc + la + 1) (emitE b (tv.pc + la + 1)) := by
      have := hc.left.right
      simp only [List.length_append, hla, List.length_cons, List.length_nil] at this
      have e : tv.pc + (la + (0 + 1)) = tv.pc + la + 1 := by omega
      rwa [e] at this
    have htail : CodeAt p.code (tv.pc + la + 1 + lb)
        [iJm (tv.pc + la + 1 + lb + 3), iPushB false, iJmp (tv.pc + la + 1 + lb + 4), iPushB true] := by
      have := hc.right
      simp only [List.length_append, hla, hlb, List.length_cons, List.length_nil] at this
      have e : tv.pc + (la + (0 + 1) + lb) = tv.pc + la + 1 + lb := by omega
      rwa [e] at this
    have hlen : (emitE a tv.pc ++ [iJm (tv.pc + la + 1 + lb + 3)] ++ emitE b (tv.pc + la + 1) ++
        [iJm (tv.pc + la + 1 + lb + 3), iPushB false, iJmp (tv.pc + la + 1 + lb + 4), iPushB true]).length =
        la + (lb + 5) := by
      simp [hla, hlb] <;> omega
    rw [hlen]
    have s1 := sim_E a hoka tv c hca hn
    rw [hla] at s1
    refine Sim.bind s1 ?_
    intro c1 tv1 hn1 hpc1 _
    have g0 : p.code[tv1.pc]? = some (J true (tv1.pc + lb + 4)) := by
      have := hj1.at (k := 0) rfl (q := tv.pc + la) (by omega)
      rw [hpc1]
      have e : tv.pc + la + lb + 4 = tv.pc + la + 1 + lb + 3 := by omega
      rw [e]; simpa [J] using this
    have gT : p.code[tv1.pc + lb + 4]? = some (iPushB true) := by
      rw [hpc1]
      exact htail.at (k := 3) rfl (by omega)
    refine sim_short (o := o) (inp := inp) true true tv1 c1 lb _ g0 gT hn1 ?_
    intro v rest hstk
    have hcb1 : CodeAt p.code ({ tv1 with pc := tv1.pc + 1, stack := rest } : Thread).pc
        (emitE b ({ tv1 with pc := tv1.pc + 1, stack := rest } : Thread).pc) := by
      show CodeAt p.code (tv1.pc + 1) (emitE b (tv1.pc + 1))
      rw [hpc1]; exact hcb
    have s2 := sim_E b hokb { tv1 with pc := tv1.pc + 1, stack := rest } ⟨{ c1.t with stack := rest }, c1.st, c1.memo⟩ hcb1
      (by rw [← hn1]; rfl)
    have e2 : (emitE b ({ tv1 with pc := tv1.pc + 1, stack := rest } : Thread).pc).length = lb := by
      show (emitE b (tv1.pc + 1)).length = lb
      rw [hpc1]; exact hlb
    rw [e2] at s2
    refine Sim.bind s2 ?_
    intro c3 tv3 hn3 hpc3 _
    have hpc3' : tv3.pc = tv.pc + la + 1 + lb := by
      have : ({ tv1 with pc := tv1.pc + 1, stack := rest } : Thread).pc = tv1.pc + 1 := rfl
      rw [this] at hpc3; omega
    have ht4 : CodeAt p.code tv3.pc [J true (tv3.pc + 3), iPushB false, iJmp (tv3.pc + 4), iPushB true] := by
      rw [hpc3']; simpa [J] using htail
    have s4 := sim_tail4 (o := o) (inp := inp) true false true tv3 c3 ht4 hn3
    have e : (fun tk c4 => R.ok (pushB (if tk = true then true else false) c4)) =
        (fun tk c4 => R.ok (pushB tk c4)) := by
      funext tk c4; cases tk <;> rfl
    rw [e] at s4
    exact s4
theorem sim_Es : ∀ (es : Es), okEs es = true → ∀ (tv : Thread) (c : Cfg),
    CodeAt p.code tv.pc (emitEs es tv.pc) → norm tv = c.t →
    Sim o p inp tv c (emitEs es tv.pc).length (evalEs o p inp es c)
  | .nil, _, tv, c, _, hn => by
    rw [emitEs, evalEs]
    exact ⟨tv, .refl _, hn, by simp, rfl⟩
  | .cons e es, hok, tv, c, hc, hn => by
    simp only [okEs, Bool.and_eq_true] at hok
    rw [emitEs] at hc ⊢
    rw [evalEs]
    (try simp only at hc ⊢)
    rw [List.length_append]
    refine Sim.bind (sim_E e hok.1 tv c hc.left hn) ?_
    intro c' tv' hn' hpc' _
    have := sim_Es es hok.2 tv' c' (by rw [hpc']; exact hc.right) hn'
    rw [hpc'] at this
    exact this
end

end MtailVerif.IR
