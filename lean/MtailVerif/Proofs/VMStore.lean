import MtailVerif.Model.VM
import MtailVerif.Model.VMVerify
/-! Store-level invariants used by the verifier's soundness proof: every datum of metric `m`
    (live, or removed on this line) has the payload type the metric declares, and a datum pointer
    that resolves keeps resolving whatever the VM does to the store. -/
namespace MtailVerif.VM.Verify
open MtailVerif MtailVerif.VM

/-! ### list lemmas about label values -/

theorem byId_mem {V : Type} {id : Nat} {lvs : List (Metric.LV V)} {l : Metric.LV V}
    (h : Metric.byId id lvs = some l) : l ∈ lvs ∧ l.id = id := by
  induction lvs with
  | nil => simp [Metric.byId] at h
  | cons x xs ih =>
    simp only [Metric.byId] at h
    split at h
    · next hx => cases h; exact ⟨List.mem_cons_self, hx⟩
    · exact ⟨List.mem_cons_of_mem _ (ih h).1, (ih h).2⟩

theorem byId_append {V : Type} (id : Nat) (lvs : List (Metric.LV V)) (x : Metric.LV V) :
    Metric.byId id (lvs ++ [x]) =
      match Metric.byId id lvs with
      | some l => some l
      | none => if x.id = id then some x else none := by
  induction lvs with
  | nil => simp [Metric.byId]
  | cons y ys ih =>
    simp only [List.cons_append, Metric.byId]
    split
    · rfl
    · exact ih

theorem mapId_mem {V : Type} {id : Nat} {g : Metric.LV V → Metric.LV V} {lvs : List (Metric.LV V)}
    {x : Metric.LV V} (h : x ∈ Metric.mapId id g lvs) :
    x ∈ lvs ∨ ∃ l, Metric.byId id lvs = some l ∧ x = g l := by
  induction lvs with
  | nil => simp [Metric.mapId] at h
  | cons y ys ih =>
    simp only [Metric.mapId] at h
    split at h
    · next hy =>
      rcases List.mem_cons.mp h with h | h
      · exact Or.inr ⟨y, by simp [Metric.byId, hy], h⟩
      · exact Or.inl (List.mem_cons_of_mem _ h)
    · next hy =>
      rcases List.mem_cons.mp h with h | h
      · exact Or.inl (h ▸ List.mem_cons_self)
      · rcases ih h with h | ⟨l, hl, hx⟩
        · exact Or.inl (List.mem_cons_of_mem _ h)
        · exact Or.inr ⟨l, by simp [Metric.byId, hy, hl], hx⟩

theorem byId_mapId_isSome {V : Type} (id id' : Nat) (g : Metric.LV V → Metric.LV V)
    (hg : ∀ l, (g l).id = l.id) (lvs : List (Metric.LV V)) :
    (Metric.byId id' (Metric.mapId id g lvs)).isSome = (Metric.byId id' lvs).isSome := by
  induction lvs with
  | nil => simp [Metric.mapId, Metric.byId]
  | cons y ys ih =>
    simp only [Metric.mapId]
    split
    · next hy =>
      simp only [Metric.byId, hg]
      split <;> simp
    · next hy =>
      simp only [Metric.byId]
      split
      · simp
      · exact ih

theorem spliceOut_mem {V : Type} {id : Nat} {lvs lvs' : List (Metric.LV V)}
    (h : Metric.spliceOut id lvs = some lvs') {x : Metric.LV V} (hx : x ∈ lvs') : x ∈ lvs := by
  induction lvs generalizing lvs' with
  | nil => simp [Metric.spliceOut] at h
  | cons y ys ih =>
    simp only [Metric.spliceOut] at h
    split at h
    · cases h; exact List.mem_cons_of_mem _ hx
    · cases hs : Metric.spliceOut id ys with
      | none => simp [hs] at h
      | some zs =>
        simp [hs] at h
        subst h
        rcases List.mem_cons.mp hx with hx | hx
        · exact hx ▸ List.mem_cons_self
        · exact List.mem_cons_of_mem _ (ih hs hx)

/-- removing the first entry with identity `id` does not disturb lookups of other identities, and a
    lookup of `id` itself either still succeeds or the removed entry was the one `byId` finds -/
theorem byId_spliceOut {V : Type} {id : Nat} {lvs lvs' : List (Metric.LV V)}
    (h : Metric.spliceOut id lvs = some lvs') (id' : Nat) (hne : id' ≠ id) :
    Metric.byId id' lvs' = Metric.byId id' lvs := by
  induction lvs generalizing lvs' with
  | nil => simp [Metric.spliceOut] at h
  | cons y ys ih =>
    simp only [Metric.spliceOut] at h
    split at h
    · next hy =>
      cases h
      simp only [Metric.byId]
      have : ¬ y.id = id' := by omega
      simp [this]
    · cases hs : Metric.spliceOut id ys with
      | none => simp [hs] at h
      | some zs =>
        simp [hs] at h
        subst h
        simp only [Metric.byId]
        split
        · rfl
        · exact ih hs

/-! ### typing of the store -/

/-- the payload type of a datum of metric `m` is the one the metric declares -/
def TyOK (p : Prog) (m : Nat) (d : Datum) : Prop :=
  ∃ mi, p.metrics[m]? = some mi ∧ d.val.ty = mi.typ

structure StoreOK (p : Prog) (st : MStore) (dead : List (Nat × Metric.LV Datum)) : Prop where
  len : st.length = p.metrics.length
  keys : ∀ (m : Nat) (mm : Metric.Metric Datum) (mi : MetricInfo), st[m]? = some mm → p.metrics[m]? = some mi → mm.nkeys = mi.nkeys
  live : ∀ (m : Nat) (mm : Metric.Metric Datum), st[m]? = some mm → ∀ l ∈ mm.lvs, TyOK p m l.value
  deadOK : ∀ x ∈ dead, TyOK p x.1 x.2.value

theorem deadLookup_mem {m lv : Nat} {dead : List (Nat × Metric.LV Datum)} {d : Datum}
    (h : deadLookup m lv dead = some d) : ∃ x ∈ dead, x.1 = m ∧ x.2.value = d := by
  induction dead with
  | nil => simp [deadLookup] at h
  | cons x xs ih =>
    obtain ⟨m', l⟩ := x
    simp only [deadLookup] at h
    split at h
    · next hx => cases h; exact ⟨(m', l), List.mem_cons_self, hx.1, rfl⟩
    · obtain ⟨y, hy, hy'⟩ := ih h
      exact ⟨y, List.mem_cons_of_mem _ hy, hy'⟩

theorem getD_ty {p : Prog} {st : MStore} {dead : List (Nat × Metric.LV Datum)} (hs : StoreOK p st dead)
    {m lv : Nat} {d : Datum} (h : getD st dead m lv = some d) : TyOK p m d := by
  unfold getD at h
  split at h
  · next l hl =>
    cases h
    cases hm : st[m]? with
    | none => simp [hm] at hl
    | some mm =>
      simp [hm] at hl
      exact hs.live m mm hm l (byId_mem hl).1
  · obtain ⟨x, hx, hx1, hx2⟩ := deadLookup_mem h
    have := hs.deadOK x hx
    rw [hx1, hx2] at this
    exact this

/-- `StoreOK` does not depend on which removed label values are remembered, as long as they are typed -/
theorem StoreOK.forget {p : Prog} {st : MStore} {dead : List (Nat × Metric.LV Datum)}
    (h : StoreOK p st dead) : StoreOK p st [] :=
  ⟨h.len, h.keys, h.live, by simp⟩

/-! ### pointers keep resolving -/

/-- every pointer that resolves in `(st, dead)` resolves in `(st', dead')` -/
def Ext (st : MStore) (dead : List (Nat × Metric.LV Datum)) (st' : MStore)
    (dead' : List (Nat × Metric.LV Datum)) : Prop :=
  ∀ m lv, (getD st dead m lv).isSome → (getD st' dead' m lv).isSome

theorem Ext.refl (st : MStore) (dead : List (Nat × Metric.LV Datum)) : Ext st dead st dead :=
  fun _ _ h => h

theorem deadLookup_update_isSome (m lv : Nat) (f : Datum → Datum) (m' lv' : Nat)
    (dead : List (Nat × Metric.LV Datum)) :
    (deadLookup m' lv' (deadUpdate m lv f dead)).isSome = (deadLookup m' lv' dead).isSome := by
  induction dead with
  | nil => simp [deadUpdate, deadLookup]
  | cons x xs ih =>
    obtain ⟨a, l⟩ := x
    simp only [deadUpdate]
    split
    · simp only [deadLookup]
      split <;> simp
    · simp only [deadLookup]
      split
      · simp
      · exact ih

theorem getElem?_set_ne' {α : Type} (l : List α) (i j : Nat) (a : α) (h : i ≠ j) :
    (l.set i a)[j]? = l[j]? := by
  simp [h]

/-! ### the store-changing primitives preserve typing and pointers -/

theorem getD_isSome_of_live {st : MStore} {dead : List (Nat × Metric.LV Datum)} {m lv : Nat}
    {mm : Metric.Metric Datum} (hm : st[m]? = some mm) (h : (Metric.byId lv mm.lvs).isSome) :
    (getD st dead m lv).isSome := by
  unfold getD
  simp only [hm, Option.bind_some]
  cases hb : Metric.byId lv mm.lvs with
  | none => simp [hb] at h
  | some l => simp

/-- replacing metric `m` by one whose label values keep every identity resolvable -/
theorem ext_set {st : MStore} {dead : List (Nat × Metric.LV Datum)} {m : Nat}
    {mm mm' : Metric.Metric Datum} (hm : st[m]? = some mm)
    (hk : ∀ lv, (Metric.byId lv mm.lvs).isSome → (Metric.byId lv mm'.lvs).isSome) :
    Ext st dead (st.set m mm') dead := by
  intro m1 lv h
  by_cases hmm : m1 = m
  · subst hmm
    have hlt : m1 < st.length := by
      rcases List.getElem?_eq_some_iff.mp hm with ⟨hlt, _⟩; exact hlt
    unfold getD at h ⊢
    simp only [hm, Option.bind_some] at h
    simp only [List.getElem?_set_self hlt, Option.bind_some]
    cases hb : Metric.byId lv mm.lvs with
    | some l =>
      have := hk lv (by simp [hb])
      cases hb' : Metric.byId lv mm'.lvs with
      | none => simp [hb'] at this
      | some l' => simp
    | none =>
      simp only [hb] at h
      cases hb' : Metric.byId lv mm'.lvs with
      | none => simpa using h
      | some l' => simp
  · unfold getD at h ⊢
    rw [getElem?_set_ne' _ _ _ _ (Ne.symm hmm)]
    exact h

theorem storeOK_set {p : Prog} {st : MStore} {dead : List (Nat × Metric.LV Datum)} {m : Nat}
    {mm mm' : Metric.Metric Datum} (hs : StoreOK p st dead) (hm : st[m]? = some mm)
    (hk : mm'.nkeys = mm.nkeys) (hl : ∀ l ∈ mm'.lvs, TyOK p m l.value) :
    StoreOK p (st.set m mm') dead := by
  have hlt : m < st.length := by
    rcases List.getElem?_eq_some_iff.mp hm with ⟨hlt, _⟩; exact hlt
  refine ⟨by simp [hs.len], ?_, ?_, hs.deadOK⟩
  · intro m1 mm1 mi h1 h2
    by_cases hmm : m1 = m
    · subst hmm
      rw [List.getElem?_set_self hlt] at h1
      cases h1
      rw [hk]; exact hs.keys m1 mm mi hm h2
    · rw [getElem?_set_ne' _ _ _ _ (Ne.symm hmm)] at h1
      exact hs.keys m1 mm1 mi h1 h2
  · intro m1 mm1 h1 l hl1
    by_cases hmm : m1 = m
    · subst hmm
      rw [List.getElem?_set_self hlt] at h1
      cases h1
      exact hl l hl1
    · rw [getElem?_set_ne' _ _ _ _ (Ne.symm hmm)] at h1
      exact hs.live m1 mm1 h1 l hl1

/-- a write through a pointer that keeps the payload type -/
theorem updD_ok {p : Prog} {st : MStore} {dead : List (Nat × Metric.LV Datum)} (hs : StoreOK p st dead)
    {m lv : Nat} {d d' : Datum} (hd : getD st dead m lv = some d) (hty : d'.val.ty = d.val.ty) :
    StoreOK p (updD st dead m lv (fun _ => d')).1 (updD st dead m lv (fun _ => d')).2 ∧
    Ext st dead (updD st dead m lv (fun _ => d')).1 (updD st dead m lv (fun _ => d')).2 := by
  have hT : TyOK p m d' := by
    obtain ⟨mi, h1, h2⟩ := getD_ty hs hd
    exact ⟨mi, h1, by rw [hty, h2]⟩
  unfold updD
  cases hm : st[m]? with
  | none =>
    simp only
    refine ⟨⟨hs.len, hs.keys, hs.live, ?_⟩, ?_⟩
    · intro x hx
      exact deadUpdate_ty hs hT x hx
    · intro m1 lv1 h
      unfold getD at h ⊢
      cases hb : (st[m1]?).bind (fun mm => Metric.byId lv1 mm.lvs) with
      | some l => simp
      | none =>
        simp only [hb] at h ⊢
        rw [deadLookup_update_isSome]; exact h
  | some mm =>
    simp only
    cases hb : Metric.byId lv mm.lvs with
    | none =>
      simp only
      refine ⟨⟨hs.len, hs.keys, hs.live, ?_⟩, ?_⟩
      · intro x hx
        exact deadUpdate_ty hs hT x hx
      · intro m1 lv1 h
        unfold getD at h ⊢
        cases hb1 : (st[m1]?).bind (fun mm => Metric.byId lv1 mm.lvs) with
        | some l => simp
        | none =>
          simp only [hb1] at h ⊢
          rw [deadLookup_update_isSome]; exact h
    | some l0 =>
      simp only
      refine ⟨storeOK_set hs hm rfl ?_, ext_set hm ?_⟩
      · intro l hl
        rcases mapId_mem hl with h | ⟨l1, _, rfl⟩
        · exact hs.live m mm hm l h
        · exact hT
      · intro lv1 h
        simp only [Metric.updateDatum]
        have := byId_mapId_isSome lv lv1 (fun (l : Metric.LV Datum) => { l with value := d' }) (fun _ => rfl) mm.lvs
        rw [this]
        exact h
where
  deadUpdate_ty {p : Prog} {st : MStore} {dead : List (Nat × Metric.LV Datum)} (hs : StoreOK p st dead)
      {m lv : Nat} {d' : Datum} (hT : TyOK p m d') :
      ∀ x ∈ deadUpdate m lv (fun _ => d') dead, TyOK p x.1 x.2.value := by
    intro x hx
    have : ∀ (dd : List (Nat × Metric.LV Datum)), (∀ y ∈ dd, TyOK p y.1 y.2.value) →
        ∀ x ∈ deadUpdate m lv (fun _ => d') dd, TyOK p x.1 x.2.value := by
      intro dd
      induction dd with
      | nil => intro _ x hx; simp [deadUpdate] at hx
      | cons y ys ih =>
        intro hall x hx
        obtain ⟨a, l⟩ := y
        simp only [deadUpdate] at hx
        split at hx
        · next hc =>
          rcases List.mem_cons.mp hx with rfl | hx
          · simp only; rw [hc.1]; exact hT
          · exact hall x (List.mem_cons_of_mem _ hx)
        · rcases List.mem_cons.mp hx with rfl | hx
          · exact hall _ List.mem_cons_self
          · exact ih (fun y hy => hall y (List.mem_cons_of_mem _ hy)) x hx
    exact this dead hs.deadOK x hx

/-! ### `GetDatum`, `RemoveDatum`, `ExpireDatum` -/

theorem getDatum_ok {mm mm' : Metric.Metric Datum} {z : Datum} {keys : List Bytes} {id : Nat}
    (h : Metric.getDatum mm z keys = .ok (mm', id)) :
    mm'.nkeys = mm.nkeys ∧ (∀ l ∈ mm'.lvs, l ∈ mm.lvs ∨ l.value = z) ∧
    (Metric.byId id mm'.lvs).isSome ∧
    (∀ lv, (Metric.byId lv mm.lvs).isSome → (Metric.byId lv mm'.lvs).isSome) := by
  unfold Metric.getDatum at h
  split at h
  · cases h
  · cases hf : Metric.find mm keys with
    | some lv0 =>
      simp only [hf] at h
      cases h
      refine ⟨rfl, fun l hl => Or.inl hl, ?_, fun _ h => h⟩
      unfold Metric.find at hf
      split at hf
      · cases hf
      · next idx _ =>
        have := (byId_mem hf).2
        rw [this, hf]; rfl
    | none =>
      next hlen =>
      simp only [hf, Metric.append, hlen, if_false] at h
      injection h with h
      injection h with h1 h2
      subst h1 h2
      refine ⟨rfl, ?_, ?_, ?_⟩
      · intro l hl
        simp only [List.mem_append, List.mem_singleton] at hl
        rcases hl with hl | rfl
        · exact Or.inl hl
        · exact Or.inr rfl
      · simp only
        rw [byId_append]
        cases Metric.byId mm.next mm.lvs <;> simp
      · intro lv hlv
        simp only
        rw [byId_append]
        cases hb : Metric.byId lv mm.lvs with
        | none => simp [hb] at hlv
        | some l => simp

theorem removeDatum_ok {mm mm' : Metric.Metric Datum} {keys : List Bytes}
    (h : Metric.removeDatum mm keys = .ok mm') :
    mm'.nkeys = mm.nkeys ∧ (∀ l ∈ mm'.lvs, l ∈ mm.lvs) ∧
    (∀ lv, (Metric.byId lv mm.lvs).isSome →
      (Metric.byId lv mm'.lvs).isSome ∨ ∃ l, Metric.find mm keys = some l ∧ l.id = lv) := by
  unfold Metric.removeDatum at h
  split at h
  · cases h
  · simp only at h
    cases hl : Metric.lookup (Key.encode keys) mm.index with
    | none =>
      simp only [hl] at h; cases h
      exact ⟨rfl, fun _ h => h, fun _ h => Or.inl h⟩
    | some id =>
      simp only [hl] at h
      cases hsp : Metric.spliceOut id mm.lvs with
      | none =>
        simp only [hsp] at h; cases h
        exact ⟨rfl, fun _ h => h, fun _ h => Or.inl h⟩
      | some lvs' =>
        simp only [hsp] at h; cases h
        refine ⟨rfl, fun l hl => spliceOut_mem hsp hl, ?_⟩
        intro lv hlv
        by_cases hne : lv = id
        · subst hne
          right
          cases hb : Metric.byId lv mm.lvs with
          | none => simp [hb] at hlv
          | some l =>
            exact ⟨l, by simp [Metric.find, hl, hb], (byId_mem hb).2⟩
        · left
          simp only
          rw [byId_spliceOut hsp lv hne]; exact hlv

theorem expireDatum_ok {mm mm' : Metric.Metric Datum} {keys : List Bytes} {e : Int}
    (h : Metric.expireDatum mm e keys = .ok mm') :
    mm'.nkeys = mm.nkeys ∧ (∀ l ∈ mm'.lvs, ∃ l0 ∈ mm.lvs, l.value = l0.value) ∧
    (∀ lv, (Metric.byId lv mm.lvs).isSome → (Metric.byId lv mm'.lvs).isSome) := by
  unfold Metric.expireDatum at h
  split at h
  · cases h
  · cases hf : Metric.find mm keys with
    | none => simp only [hf] at h; cases h
    | some l0 =>
      simp only [hf] at h
      cases h
      refine ⟨rfl, ?_, ?_⟩
      · intro l hl
        rcases mapId_mem hl with h | ⟨l1, h1, rfl⟩
        · exact ⟨l, h, rfl⟩
        · exact ⟨l1, (byId_mem h1).1, rfl⟩
      · intro lv hlv
        simp only
        have := byId_mapId_isSome l0.id lv (fun (l : Metric.LV Datum) => { l with expiry := e }) (fun _ => rfl) mm.lvs
        rw [this]; exact hlv

/-- a resolved pointer stays resolved when a removed label value is remembered in `dead` -/
theorem ext_remove {st : MStore} {dead : List (Nat × Metric.LV Datum)} {m : Nat}
    {mm mm' : Metric.Metric Datum} {keys : List Bytes} (hm : st[m]? = some mm)
    (h : Metric.removeDatum mm keys = .ok mm') :
    Ext st dead (st.set m mm')
      ((match Metric.find mm keys with | some l => [(m, l)] | none => []) ++ dead) := by
  obtain ⟨_, _, hk⟩ := removeDatum_ok h
  have hlt : m < st.length := by
    rcases List.getElem?_eq_some_iff.mp hm with ⟨hlt, _⟩; exact hlt
  intro m1 lv hsome
  by_cases hmm : m1 = m
  · subst hmm
    unfold getD at hsome ⊢
    simp only [hm, Option.bind_some] at hsome
    simp only [List.getElem?_set_self hlt, Option.bind_some]
    cases hb : Metric.byId lv mm.lvs with
    | some l =>
      rcases hk lv (by simp [hb]) with h1 | ⟨l1, hf, hid⟩
      · cases hb' : Metric.byId lv mm'.lvs with
        | none => simp [hb'] at h1
        | some l' => simp
      · cases hb' : Metric.byId lv mm'.lvs with
        | some l' => simp
        | none =>
          simp only [hf, List.cons_append, List.nil_append, deadLookup, hid, and_self, if_true]
          simp
    | none =>
      simp only [hb] at hsome
      cases hb' : Metric.byId lv mm'.lvs with
      | some l' => simp
      | none =>
        simp only
        cases hf : Metric.find mm keys with
        | none => simpa using hsome
        | some l1 =>
          simp only [List.cons_append, List.nil_append, deadLookup]
          split
          · simp
          · exact hsome
  · unfold getD at hsome ⊢
    rw [getElem?_set_ne' _ _ _ _ (Ne.symm hmm)]
    cases hb : (st[m1]?).bind (fun mm => Metric.byId lv mm.lvs) with
    | some l => simp
    | none =>
      simp only [hb] at hsome ⊢
      cases hf : Metric.find mm keys with
      | none => simpa using hsome
      | some l1 =>
        simp only [List.cons_append, List.nil_append, deadLookup]
        split
        · next hc => exact absurd hc.1.symm hmm
        · exact hsome

end MtailVerif.VM.Verify
