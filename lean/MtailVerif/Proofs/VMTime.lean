import MtailVerif.Proofs.VMMemo
/-! The time register: which instructions write it, what they write, who reads it. -/
namespace MtailVerif.VM
open MtailVerif

set_option maxRecDepth 2000 in
/-- no instruction other than `Strptime` and `Settime` changes the time register -/
theorem stepCore_keeps_time (o : Oracle) (p : Prog) (inp : Input) (op : Opcode) (arg : Operand) (t : Thread)
    (st : MStore) (h : op ≠ .settime) :
    ∀ t' st', stepCore o p inp ⟨op, arg⟩ t st = .next t' st' → t'.time = t.time := by
  intro t' st' hr
  cases op <;> simp only [stepCore] at hr
  all_goals (try (exact absurd rfl h))
  all_goals (try simp only [P.andThen, writeDatum, incBy, afterInc, jumpTo] at hr)
  all_goals (repeat' (split at hr))
  all_goals (try (first | (cases hr; rfl) | contradiction))
  all_goals (repeat' (split at hr))
  all_goals (first | (cases hr; rfl) | contradiction | simp_all)

theorem step_keeps_time (o : Oracle) (p : Prog) (inp : Input) (i : Instr) (t : Thread) (st : MStore) (memo : Memo)
    (h1 : i.op ≠ .settime) (h2 : i.op ≠ .strptime) :
    ∀ t' st', (step o p inp i t st memo).1 = .next t' st' → t'.time = t.time := by
  intro t' st' hr
  obtain ⟨op, arg⟩ := i
  unfold step at hr
  simp only at h2
  simp only [h2, if_false] at hr
  exact stepCore_keeps_time o p inp op arg { t with pc := t.pc + 1 } st h1 t' st' hr

/-- `strptime(value, layout)`: on success the register holds what the library parses, whatever the
    memo contains (as long as it is coherent); on failure the line ends with the checked error -/
theorem strptime_sets_register (o : Oracle) (t : Thread) (st : MStore) (memo : Memo) (hc : Coherent o memo)
    (layout value : Bytes) (rest : List Val) (hstk : t.stack = .str layout :: .str value :: rest) :
    (stepStrptime o t st memo).1 =
      match o.timeParse layout value with
      | some tm => .next { t with stack := rest, time := tm } st
      | none => .err .timeParseFailed st := by
  rw [(stepStrptime_coherent o t st memo hc).1]
  simp only [stepStrptime, hstk, popString, memoGet]
  cases o.timeParse layout value <;> rfl

/-- `timestamp()` reads the register, or the wall clock when the register holds the zero time -/
theorem timestamp_reads_register (o : Oracle) (p : Prog) (inp : Input) (t : Thread) (st : MStore) :
    stepCore o p inp ⟨.timestamp, .none⟩ t st =
      .next { t with stack := .i64 (if t.time = zeroT then o.nowSec else t.time / 1000000000) :: t.stack } st := by
  simp only [stepCore]
  split <;> simp_all

/-- `settime(n)` -/
theorem settime_sets_register (o : Oracle) (p : Prog) (inp : Input) (t : Thread) (st : MStore) (n : Int)
    (rest : List Val) (hstk : t.stack = .i64 n :: rest) :
    stepCore o p inp ⟨.settime, .none⟩ t st = .next { t with stack := rest, time := n * 1000000000 } st := by
  simp only [stepCore, hstk, popInt, P.andThen]

/-- after `settime(n)`, `timestamp()` returns `n`, for every `n` except the one second that is the
    zero time (year 1), which means "unset" -/
theorem timestamp_after_settime (o : Oracle) (p : Prog) (inp : Input) (t : Thread) (st : MStore) (n : Int)
    (hn : n ≠ -62135596800) (ht : t.time = n * 1000000000) :
    stepCore o p inp ⟨.timestamp, .none⟩ t st = .next { t with stack := .i64 n :: t.stack } st := by
  rw [timestamp_reads_register]
  have h1 : t.time ≠ zeroT := by
    rw [ht]; intro h
    have h' : n * 1000000000 = -62135596800 * 1000000000 := by rw [h]; rfl
    exact hn (Int.eq_of_mul_eq_mul_right (by decide) h')
  have h2 : t.time / 1000000000 = n := by
    rw [ht]; exact Int.mul_ediv_cancel n (by decide)
  simp [h1, h2]

/-- every datum update stamps with the register (`BaseDatum.stamp`: the zero time means the wall clock) -/
theorem updates_stamp_with_register (o : Oracle) (d d' : Datum) (tm : T) :
    (∀ delta, incIntD d delta (stampOf tm) = some d' → d'.time = stampOf tm) ∧
    (∀ v, setIntD o d v (stampOf tm) = some d' → d'.time = stampOf tm) ∧
    (∀ v, setFloatD o d v (stampOf tm) = some d' → d'.time = stampOf tm) ∧
    (∀ v, setStringD d v (stampOf tm) = some d' → d'.time = stampOf tm) := by
  obtain ⟨val, t0⟩ := d
  refine ⟨?_, ?_, ?_, ?_⟩ <;> intro v h <;> cases val <;>
    simp [incIntD, setIntD, setFloatD, setStringD] at h <;> subst h <;> rfl

theorem stampOf_zero : stampOf zeroT = none := by simp [stampOf]
theorem stampOf_set (tm : T) (h : tm ≠ zeroT) : stampOf tm = some (wrap tm) := by simp [stampOf, h]

/-- inside the range of `UnixNano` the stamp is the instant itself -/
theorem wrap_id (x : Int) (h1 : -9223372036854775808 ≤ x) (h2 : x < 9223372036854775808) : wrap x = x := by
  unfold wrap; omega

end MtailVerif.VM
