import MtailVerif.Model.Formats
namespace MtailVerif.Formats
open MtailVerif

theorem replace1_no_old (old : UInt8) (new s : Bytes) (h : old ∉ new) : old ∉ replace1 old new s := by
  intro hm
  simp only [replace1, List.mem_flatMap] at hm
  obtain ⟨b, _, hb⟩ := hm
  split at hb
  · exact h hb
  · rename_i hne
    simp only [List.mem_singleton] at hb
    exact hne hb.symm

theorem replace1_id (old : UInt8) (new s : Bytes) (h : old ∉ s) : replace1 old new s = s := by
  induction s with
  | nil => rfl
  | cons b rest ih =>
    simp only [List.mem_cons, not_or] at h
    have : replace1 old new (b :: rest) = (if b = old then new else [b]) ++ replace1 old new rest := by
      simp [replace1]
    rw [this, ih h.2, if_neg (fun e => h.1 e.symm)]
    rfl

theorem intercalate_cons2 (sep x y : Bytes) (r : List Bytes) :
    intercalate sep (x :: y :: r) = x ++ sep ++ intercalate sep (y :: r) := rfl

/-- a byte string without the separator, followed by the separator, is a prefix code -/
theorem split_at_sep (sep : UInt8) : ∀ (x y a b : Bytes), sep ∉ x → sep ∉ y →
    x ++ sep :: a = y ++ sep :: b → x = y ∧ a = b := by
  intro x
  induction x with
  | nil =>
    intro y a b _ hy h
    cases y with
    | nil => simp at h; exact ⟨rfl, h⟩
    | cons c cs =>
      simp only [List.nil_append, List.cons_append, List.cons.injEq] at h
      exact absurd (by simp [← h.1]) hy
  | cons c cs ih =>
    intro y a b hx hy h
    cases y with
    | nil =>
      simp only [List.nil_append, List.cons_append, List.cons.injEq] at h
      exact absurd (by simp [h.1]) hx
    | cons d ds =>
      simp only [List.cons_append, List.cons.injEq] at h
      simp only [List.mem_cons, not_or] at hx hy
      obtain ⟨e1, e2⟩ := ih ds a b hx.2 hy.2 h.2
      exact ⟨by rw [h.1, e1], e2⟩

/-- joining with a separator that occurs in none of the pieces can be undone -/
theorem intercalate_inj (sep : UInt8) : ∀ (xs ys : List Bytes), (∀ x ∈ xs, sep ∉ x) → (∀ y ∈ ys, sep ∉ y) →
    xs.length = ys.length → intercalate [sep] xs = intercalate [sep] ys → xs = ys := by
  intro xs
  induction xs with
  | nil => intro ys _ _ hl _; cases ys with | nil => rfl | cons _ _ => simp at hl
  | cons x xs' ih =>
    intro ys hx hy hl h
    cases ys with
    | nil => simp at hl
    | cons y ys' =>
      cases xs' with
      | nil =>
        cases ys' with
        | nil => simp only [intercalate] at h; rw [h]
        | cons _ _ => simp at hl
      | cons x2 xr =>
        cases ys' with
        | nil => simp at hl
        | cons y2 yr =>
          rw [intercalate_cons2, intercalate_cons2] at h
          simp only [List.append_assoc, List.singleton_append] at h
          obtain ⟨e1, e2⟩ := split_at_sep sep x y _ _ (hx x (by simp)) (hy y (by simp)) h
          have := ih (y2 :: yr) (fun z hz => hx z (List.mem_cons_of_mem _ hz))
            (fun z hz => hy z (List.mem_cons_of_mem _ hz)) (by simpa using hl) e2
          rw [e1, this]

/-- key, value, key, value, … -/
def flat (l : List (Bytes × Bytes)) : List Bytes := l.flatMap (fun kv => [kv.1, kv.2])

theorem intercalate_pairs (sep : UInt8) : ∀ (l : List (Bytes × Bytes)),
    intercalate [sep] (l.map (fun kv => kv.1 ++ [sep] ++ kv.2)) = intercalate [sep] (flat l) := by
  intro l
  induction l with
  | nil => rfl
  | cons kv rest ih =>
    cases rest with
    | nil => simp [flat, intercalate]
    | cons kv2 r2 =>
      have hf : flat (kv :: kv2 :: r2) = kv.1 :: kv.2 :: flat (kv2 :: r2) := by simp [flat]
      have hf2 : flat (kv2 :: r2) = kv2.1 :: kv2.2 :: flat r2 := by simp [flat]
      have ih' : intercalate [sep] ((kv2.1 ++ [sep] ++ kv2.2) :: List.map (fun kv => kv.1 ++ [sep] ++ kv.2) r2)
          = intercalate [sep] (flat (kv2 :: r2)) := by simpa using ih
      show intercalate [sep] ((kv.1 ++ [sep] ++ kv.2) :: (kv2.1 ++ [sep] ++ kv2.2) :: List.map (fun kv => kv.1 ++ [sep] ++ kv.2) r2) = _
      rw [intercalate_cons2, ih', hf, intercalate_cons2, hf2, intercalate_cons2, intercalate_cons2, intercalate_cons2]
      simp

theorem flat_inj : ∀ (l1 l2 : List (Bytes × Bytes)), flat l1 = flat l2 → l1 = l2 := by
  intro l1
  induction l1 with
  | nil => intro l2 h; cases l2 with | nil => rfl | cons _ _ => simp [flat] at h
  | cons a r ih =>
    intro l2 h
    cases l2 with
    | nil => simp [flat] at h
    | cons b r2 =>
      have h1 : flat (a :: r) = a.1 :: a.2 :: flat r := by simp [flat]
      have h2 : flat (b :: r2) = b.1 :: b.2 :: flat r2 := by simp [flat]
      rw [h1, h2] at h
      simp only [List.cons.injEq] at h
      rw [Prod.ext h.1 h.2.1, ih r2 h.2.2]

theorem flat_length (l : List (Bytes × Bytes)) : (flat l).length = 2 * l.length := by
  induction l with
  | nil => rfl
  | cons a r ih => simp [flat] at *; omega

/-- what `formatLabels` writes for a key or a value when both separators are `sep` -/
def esc (sep : UInt8) (rep x : Bytes) : Bytes := replace1 sep rep (replace1 sep rep x)

theorem esc_no_sep (sep : UInt8) (rep x : Bytes) (h : sep ∉ rep) : sep ∉ esc sep rep x :=
  replace1_no_old sep rep _ h

theorem esc_id (sep : UInt8) (rep x : Bytes) (h : sep ∉ x) : esc sep rep x = x := by
  unfold esc; rw [replace1_id sep rep x h, replace1_id sep rep x h]

theorem sortByKey_length (l : List (Bytes × Bytes)) : (sortByKey l).length = l.length := by
  unfold sortByKey
  induction l with
  | nil => rfl
  | cons a r ih =>
    simp only [List.foldr_cons, List.length_cons]
    rw [← ih]
    generalize List.foldr insertSorted [] r = s
    induction s with
    | nil => rfl
    | cons q rest ihs => simp only [insertSorted]; split <;> simp [ihs]

/-- the name `formatLabels` gives a label set determines the label set: two label sets with as many
    labels that get the same name have the same keys with the same values, up to the replacement
    of separator bytes — for every metric name, replacement text without the separator, and any
    label keys and values whatever -/
theorem formatLabels_determines (name : Bytes) (m1 m2 : List (Bytes × Bytes)) (sep : UInt8) (rep : Bytes)
    (hrep : sep ∉ rep) (hlen : m1.length = m2.length)
    (h : formatLabels name m1 sep sep rep = formatLabels name m2 sep sep rep) :
    (sortByKey m1).map (fun kv => (esc sep rep kv.1, esc sep rep kv.2)) =
    (sortByKey m2).map (fun kv => (esc sep rep kv.1, esc sep rep kv.2)) := by
  cases m1 with
  | nil => cases m2 with | nil => rfl | cons _ _ => simp at hlen
  | cons a r =>
    cases m2 with
    | nil => simp at hlen
    | cons b r2 =>
      simp only [formatLabels, List.isEmpty_cons, Bool.false_eq_true, if_false] at h
      have h' := List.append_cancel_left h
      let f := fun (kv : Bytes × Bytes) => (esc sep rep kv.1, esc sep rep kv.2)
      have e1 : ∀ l : List (Bytes × Bytes), l.map (fun kv => replace1 sep rep (replace1 sep rep kv.1) ++ [sep] ++ replace1 sep rep (replace1 sep rep kv.2))
          = (l.map f).map (fun kv => kv.1 ++ [sep] ++ kv.2) := by
        intro l; simp [f, esc, List.map_map, Function.comp_def]
      rw [e1, e1, intercalate_pairs, intercalate_pairs] at h'
      have hns : ∀ (l : List (Bytes × Bytes)), ∀ x ∈ flat (l.map f), sep ∉ x := by
        intro l x hx
        simp only [flat, List.mem_flatMap, List.mem_map] at hx
        obtain ⟨kv, ⟨kv0, _, rfl⟩, hx⟩ := hx
        simp only [List.mem_cons, List.mem_nil_iff, or_false] at hx
        rcases hx with rfl | rfl <;> exact esc_no_sep sep rep _ hrep
      have := intercalate_inj sep _ _ (hns _) (hns _)
        (by rw [flat_length, flat_length, List.length_map, List.length_map, sortByKey_length, sortByKey_length, hlen]) h'
      exact flat_inj _ _ this

/-- … and when no key and no value contains the separator (the label values the property speaks
    about), equal names mean equal label sets -/
theorem formatLabels_injective (name : Bytes) (m1 m2 : List (Bytes × Bytes)) (sep : UInt8) (rep : Bytes)
    (hrep : sep ∉ rep) (hlen : m1.length = m2.length)
    (h1 : ∀ kv ∈ m1, sep ∉ kv.1 ∧ sep ∉ kv.2) (h2 : ∀ kv ∈ m2, sep ∉ kv.1 ∧ sep ∉ kv.2)
    (h : formatLabels name m1 sep sep rep = formatLabels name m2 sep sep rep) :
    sortByKey m1 = sortByKey m2 := by
  have hd := formatLabels_determines name m1 m2 sep rep hrep hlen h
  have mem_sort : ∀ (l : List (Bytes × Bytes)) (kv : Bytes × Bytes), kv ∈ sortByKey l → kv ∈ l := by
    intro l
    unfold sortByKey
    induction l with
    | nil => intro kv h; simp at h
    | cons a r ih =>
      intro kv hkv
      simp only [List.foldr_cons] at hkv
      have ins : ∀ (s : List (Bytes × Bytes)), kv ∈ insertSorted a s → kv = a ∨ kv ∈ s := by
        intro s
        induction s with
        | nil => intro h; simp [insertSorted] at h; exact Or.inl h
        | cons q rest ihs =>
          intro h
          simp only [insertSorted] at h
          split at h
          · simp only [List.mem_cons] at h
            rcases h with h | h
            · exact Or.inr (by simp [h])
            · rcases ihs h with h | h
              · exact Or.inl h
              · exact Or.inr (by simp [h])
          · simp only [List.mem_cons] at h
            rcases h with h | h | h
            · exact Or.inl h
            · exact Or.inr (by simp [h])
            · exact Or.inr (by simp [h])
      rcases ins _ hkv with h | h
      · simp [h]
      · exact List.mem_cons_of_mem _ (ih kv h)
  have idm : ∀ (l : List (Bytes × Bytes)), (∀ kv ∈ l, sep ∉ kv.1 ∧ sep ∉ kv.2) →
      (sortByKey l).map (fun kv => (esc sep rep kv.1, esc sep rep kv.2)) = sortByKey l := by
    intro l hl
    have : ∀ kv ∈ sortByKey l, (esc sep rep kv.1, esc sep rep kv.2) = kv := by
      intro kv hkv
      have := hl kv (mem_sort l kv hkv)
      rw [esc_id sep rep _ this.1, esc_id sep rep _ this.2]
    calc (sortByKey l).map (fun kv => (esc sep rep kv.1, esc sep rep kv.2))
        = (sortByKey l).map id := List.map_congr_left this
      _ = sortByKey l := List.map_id _
  rw [idm m1 h1, idm m2 h2] at hd
  exact hd

end MtailVerif.Formats
