import MtailVerif.Proofs.VMStore
/-! Soundness of the bytecode verifier (`Model/VMVerify.lean`) against the VM model
    (`Model/VM.lean`): when the certificate check passes, no execution of any line, from any
    well-typed store, under any library behaviour, reaches a `fault`, and the only runtime errors
    are the checked ones. -/
namespace MtailVerif.VM.Verify
open MtailVerif MtailVerif.VM

/-- a concrete value is described by an abstract one -/
def vOK (p : Prog) (st : MStore) (dead : List (Nat × Metric.LV Datum)) : AV → Val → Prop
  | .top, _ => True
  | .bool, .bool _ => True
  | .i64, .i64 _ => True
  | .int, .int _ => True
  | .intc n, .int n' => n' = n
  | .f64, .f64 _ => True
  | .str, .str _ => True
  | .dur, .dur _ => True
  | .datum m, .datum m' lv => m' = m ∧ (getD st dead m lv).isSome
  | .metric m, .metric m' => m' = m ∧ m < p.metrics.length
  | _, _ => False

/-- the abstract stack describes the top of the concrete stack -/
def sOK (p : Prog) (st : MStore) (dead : List (Nat × Metric.LV Datum)) : AStack → List Val → Prop
  | [], _ => True
  | a :: as, v :: vs => vOK p st dead a v ∧ sOK p st dead as vs
  | _ :: _, [] => False

theorem vOK_ext {p : Prog} {st st' : MStore} {dead dead' : List (Nat × Metric.LV Datum)}
    (he : Ext st dead st' dead') {a : AV} {v : Val} (h : vOK p st dead a v) : vOK p st' dead' a v := by
  cases a <;> cases v <;> simp_all [vOK]
  exact he _ _ h.2

theorem sOK_ext {p : Prog} {st st' : MStore} {dead dead' : List (Nat × Metric.LV Datum)}
    (he : Ext st dead st' dead') {as : AStack} {vs : List Val} (h : sOK p st dead as vs) :
    sOK p st' dead' as vs := by
  induction as generalizing vs with
  | nil => trivial
  | cons a as ih =>
    cases vs with
    | nil => exact h
    | cons v vs => exact ⟨vOK_ext he h.1, ih h.2⟩

/-- forgetting entries is sound -/
theorem sOK_le {p : Prog} {st : MStore} {dead : List (Nat × Metric.LV Datum)} {w s : AStack}
    (hle : le w s = true) {vs : List Val} (h : sOK p st dead s vs) : sOK p st dead w vs := by
  induction w generalizing s vs with
  | nil => trivial
  | cons a w ih =>
    cases s with
    | nil => simp [le] at hle
    | cons b s =>
      cases vs with
      | nil => exact h
      | cons v vs =>
        simp only [le, Bool.and_eq_true, Bool.or_eq_true, beq_iff_eq] at hle
        refine ⟨?_, ih hle.2 h.2⟩
        rcases hle.1 with rfl | rfl
        · cases v <;> trivial
        · exact h.1

/-! ### typed pops never fault on accepted representations -/

theorem mtyp_ty {p : Prog} {st : MStore} {dead : List (Nat × Metric.LV Datum)} (hs : StoreOK p st dead)
    {m lv : Nat} {d : Datum} (hd : getD st dead m lv = some d) {k : Nat} (hk : mtyp p m = some k) :
    d.val.ty = k := by
  obtain ⟨mi, h1, h2⟩ := getD_ty hs hd
  simp [mtyp, h1] at hk
  rw [h2, hk]

theorem popInt_sound {p : Prog} {st : MStore} {dead : List (Nat × Metric.LV Datum)} (o : Oracle)
    (hs : StoreOK p st dead) {s s' : AStack} {vs : List Val} (h : sOK p st dead s vs)
    (ha : apopInt p s = some s') :
    (∃ n rest, popInt o st dead vs = .ok n rest ∧ sOK p st dead s' rest) ∨ popInt o st dead vs = .conv := by
  cases s with
  | nil => simp [apopInt] at ha
  | cons a as =>
    cases vs with
    | nil => exact absurd h (by simp [sOK])
    | cons v vs =>
      obtain ⟨hv, hr⟩ := h
      cases a <;> simp only [apopInt] at ha <;> try (cases ha)
      all_goals (cases v <;> simp only [vOK] at hv)
      all_goals try (left; exact ⟨_, _, rfl, hr⟩)
      · -- str
        simp only [popInt]
        split
        · left; exact ⟨_, _, rfl, hr⟩
        · right; rfl
      · -- datum
        split at ha
        · next hk =>
          cases ha
          obtain ⟨hm, hsome⟩ := hv
          subst hm
          simp only [popInt]
          revert hsome
          generalize hd : getD st dead _ _ = gd
          intro hsome
          cases gd with
          | none => simp at hsome
          | some d =>
            have hty := mtyp_ty hs hd hk
            obtain ⟨val, tm⟩ := d
            cases val <;> simp [DVal.ty] at hty
            left; exact ⟨_, _, rfl, hr⟩
        · cases ha

theorem popFloat_sound {p : Prog} {st : MStore} {dead : List (Nat × Metric.LV Datum)} (o : Oracle)
    (hs : StoreOK p st dead) {s s' : AStack} {vs : List Val} (h : sOK p st dead s vs)
    (ha : apopFloat p s = some s') :
    (∃ n rest, popFloat o st dead vs = .ok n rest ∧ sOK p st dead s' rest) ∨ popFloat o st dead vs = .conv := by
  cases s with
  | nil => simp [apopFloat] at ha
  | cons a as =>
    cases vs with
    | nil => exact absurd h (by simp [sOK])
    | cons v vs =>
      obtain ⟨hv, hr⟩ := h
      cases a <;> simp only [apopFloat] at ha <;> try (cases ha)
      all_goals (cases v <;> simp only [vOK] at hv)
      all_goals try (left; exact ⟨_, _, rfl, hr⟩)
      · simp only [popFloat]
        split
        · left; exact ⟨_, _, rfl, hr⟩
        · right; rfl
      · split at ha
        · next hk =>
          cases ha
          obtain ⟨hm, hsome⟩ := hv
          subst hm
          simp only [popFloat]
          revert hsome
          generalize hd : getD st dead _ _ = gd
          intro hsome
          cases gd with
          | none => simp at hsome
          | some d =>
            have hty := mtyp_ty hs hd hk
            obtain ⟨val, tm⟩ := d
            cases val <;> simp [DVal.ty] at hty
            left; exact ⟨_, _, rfl, hr⟩
        · cases ha

theorem popString_sound {p : Prog} {st : MStore} {dead : List (Nat × Metric.LV Datum)} (o : Oracle)
    (hs : StoreOK p st dead) {s s' : AStack} {vs : List Val} (h : sOK p st dead s vs)
    (ha : apopString p s = some s') :
    ∃ n rest, popString o st dead vs = .ok n rest ∧ sOK p st dead s' rest := by
  cases s with
  | nil => simp [apopString] at ha
  | cons a as =>
    cases vs with
    | nil => exact absurd h (by simp [sOK])
    | cons v vs =>
      obtain ⟨hv, hr⟩ := h
      cases a <;> simp only [apopString] at ha <;> try (cases ha)
      all_goals (cases v <;> simp only [vOK] at hv)
      all_goals try (exact ⟨_, _, rfl, hr⟩)
      · split at ha
        · next hk =>
          cases ha
          obtain ⟨hm, hsome⟩ := hv
          subst hm
          simp only [popString]
          revert hsome
          generalize hd : getD st dead _ _ = gd
          intro hsome
          cases gd with
          | none => simp at hsome
          | some d =>
            have hty := mtyp_ty hs hd hk
            obtain ⟨val, tm⟩ := d
            cases val <;> simp [DVal.ty] at hty
            exact ⟨_, _, rfl, hr⟩
        · cases ha

theorem popKeys_sound {p : Prog} {st : MStore} {dead : List (Nat × Metric.LV Datum)} (o : Oracle)
    (hs : StoreOK p st dead) (n : Nat) {s s' : AStack} {vs : List Val} (acc : List Bytes)
    (h : sOK p st dead s vs) (ha : apopKeys p n s = some s') :
    ∃ ks rest, popKeys o st dead n vs acc = .ok ks rest ∧ sOK p st dead s' rest ∧ ks.length = n + acc.length := by
  induction n generalizing s vs acc with
  | zero =>
    simp only [apopKeys] at ha; cases ha
    exact ⟨acc, vs, rfl, h, by simp⟩
  | succ n ih =>
    simp only [apopKeys] at ha
    cases h1 : apopString p s with
    | none => simp [h1] at ha
    | some s1 =>
      simp only [h1, Option.bind_some] at ha
      obtain ⟨k, rest, hk, hr⟩ := popString_sound o hs h h1
      obtain ⟨ks, rest', hks, hr', hlen⟩ := ih (k :: acc) hr ha
      refine ⟨ks, rest', ?_, hr', ?_⟩
      · simp only [popKeys, hk]; exact hks
      · simp only [List.length_cons] at hlen; omega

end MtailVerif.VM.Verify
